#!/bin/bash
# usage: tools/run_all.sh <seed> [tier]   -- runs every check sequentially, prints one line per property
cd "$(dirname "$0")/.."
seed=${1:-0}; tier=${2:-quick}
for n in $(seq -w 1 20); do
  p=C$n
  s=$(date +%s)
  out=$(VERIF_SEED=$seed ./check $p --tier $tier 2>&1); rc=$?
  e=$(( $(date +%s) - s ))
  echo "$p seed=$seed rc=$rc ${e}s $(echo "$out" | grep -c VIOLATION) violations $(echo "$out" | grep -c KNOWN-FINDING) known"
  echo "$out" | grep VIOLATION | cut -c1-160
done
