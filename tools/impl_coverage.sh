#!/bin/bash
# usage: tools/impl_coverage.sh [Cxx ...]   -- ANALYSIS ONLY (not a registered check): runs the quick checks with line coverage of
# /repo/lnn switched on inside the harness's worker processes and prints, per source file the properties are anchored in, the
# lines no stream reached. Used to find generator gaps systematically; the result is summarised in DESIGN.md 11.7.
cd "$(dirname "$0")/.."
d=$(mktemp -d /var/tmp/lnncov.XXXX)
props=${@:-C01 C02 C03 C04 C05 C06 C07 C08 C09 C10 C11 C12 C13 C14 C15 C16 C17 C18 C19 C20}
for p in $props; do
  VERIF_COVERAGE=$d ./check $p --tier quick > $d/$p.log 2>&1; echo "$p rc=$?"
done
# evidence written in analysis mode is not committed: restore
git checkout -- evidence 2>/dev/null
cd $d && /venv/bin/python -m coverage combine --data-file=$d/all $d/cov.* > /dev/null
/venv/bin/python -m coverage report --data-file=$d/all -m --include='/repo/lnn/*' | tee /verif/tools/impl_coverage_report.txt
rm -rf $d
