#!/bin/bash
# usage: try_seed.sh <patch.diff> <Cxx> [Cyy ...]   -- applies the patch to /repo, runs the quick checks, restores /repo
patch=$1; shift
cd /repo && git apply --check "$patch" || { echo "patch does not apply"; exit 2; }
git apply "$patch"
cd /verif
for p in "$@"; do
  out=$(./check $p --tier quick 2>&1); rc=$?
  echo "$p rc=$rc $(echo "$out" | grep -c '^VIOLATION') violation lines; first: $(echo "$out" | grep '^VIOLATION' | head -1 | cut -c1-120)"
done
git -C /repo checkout -- .
git -C /repo status --short | head -3
