claim("C01", "Lean 4 proof of soundness of every engine step by induction over arbitrary call sequences + differential correspondence",
      "Theorems C01_sound / C01_no_contradiction / C01_sound_infer: for every KB (any graph, also cyclic or with shared/duplicated "
      "sub-formulae), non-negative weights, any bias, alpha <= 1, both activation variants, every interpretation consistent with the "
      "local truth-function equations and inside the current bounds stays inside after ANY finite sequence of node-level calls, passes "
      "over any schedule and infer runs; hence no contradiction. Tied to /repo by exact differential execution of random weighted "
      "programs (bounds after every call) and an interpretation-first oracle on the implementation.",
      NOTE_COMMON, "DESIGN.md §6 C01")
claim("C04", "Lean 4 proofs of point evaluation, classical/Kleene tables and duality laws + exhaustive differential correspondence on formula trees",
      "Theorems C04_point / C04_point_call (on the engine: for any KB, any children-first schedule, point inputs give every scheduled "
      "sub-formula, incl. Iff/XOr composites, the point value of its weighted Lukasiewicz truth function), C04_classical_* (n-ary And/Or, "
      "Implies, Not, Iff, exactly-one XOr of any arity reproduce the classical table on {0,1}), C04_kleene_* (strong Kleene on "
      "{FALSE,UNKNOWN,TRUE} bounds, any arity), C04_dual_* (Or = neg-And-neg, Implies = Or with negated antecedent, upward and downward, "
      "all intervals/weights/biases). Tied to /repo by exhaustive enumeration of formulae up to depth 2 on three-valued inputs (every "
      "sub-formula's state() vs the Kleene table vs the Lean model) and random dual pairs in both directions.",
      NOTE_COMMON + " Nested downward duality beyond one level is covered by correspondence only.", "DESIGN.md §6 C04")
