claim("C01", "Lean 4 proof of soundness of every engine step by induction over arbitrary call sequences + differential correspondence",
      "Theorems C01_sound / C01_no_contradiction / C01_sound_infer: for every KB (any graph, also cyclic or with shared/duplicated "
      "sub-formulae), non-negative weights, any bias, alpha <= 1, both activation variants, every interpretation consistent with the "
      "local truth-function equations and inside the current bounds stays inside after ANY finite sequence of node-level calls, passes "
      "over any schedule and infer runs; hence no contradiction. Tied to /repo by exact differential execution of random weighted "
      "programs (bounds after every call) and an interpretation-first oracle on the implementation.",
      NOTE_COMMON, "DESIGN.md §6 C01")
claim("C04", "Lean 4 proofs of point evaluation, classical/Kleene tables and duality laws + exhaustive differential correspondence on formula trees",
      "Theorems C04_point / C04_point_call (on the engine: for any KB, any children-first schedule, point inputs give every scheduled "
      "sub-formula, incl. Iff/XOr composites, the point value of its weighted Lukasiewicz truth function), C04_classical_* (n-ary And/Or, "
      "Implies, Not, Iff, exactly-one XOr of any arity reproduce the classical table on {0,1}), C04_kleene_* (strong Kleene on "
      "{FALSE,UNKNOWN,TRUE} bounds, any arity), C04_dual_* (Or = neg-And-neg, Implies = Or with negated antecedent, upward and downward, "
      "all intervals/weights/biases). Tied to /repo by exhaustive enumeration of formulae up to depth 2 on three-valued inputs (every "
      "sub-formula's state() vs the Kleene table vs the Lean model) and random dual pairs in both directions.",
      NOTE_COMMON + " Nested downward duality beyond one level is covered by correspondence only.", "DESIGN.md §6 C04")
claim("C05", "Lean 4 proof that every engine operation is a sequence of tightening writes (induction over arbitrary call sequences) + snapshot correspondence",
      "Theorems C05_monotone / C05_steps / C05_infer / C05_call / C05_pass: for EVERY KB (no hypothesis on weights, shape or alpha) and every "
      "state in [0,1], no sequence of node-level calls (incl. index restrictions), passes over any schedule or infer runs lowers a lower bound "
      "or raises an upper bound. Tied to /repo by exact snapshots after every public call on random programs with consistent and contradictory "
      "data; first-order and quantifier programs are compared with the Lean first-order model and judged by the same snapshot oracle "
      "(bounds and grounding sets).",
      NOTE_COMMON + " First-order: C05_fol_call / C05_fol_calls / C05_fol_infer / C05_fol_plain (Lemmas/FolMono.lean): for every first-order KB with world "
      "defaults in [0,1] -- any node kinds incl. Not and fully/partially/nested quantifiers, any weights, alpha, variable maps -- every call, pass and "
      "infer (any query, step limit), including grounding propagation through partially quantified sub-formulae (Model/FolPend.lean: "
      "C05_propagate_keeps, C05_layer_calls, C05_layer_is_plain), keeps every stored grounding stored, never lowers its lower or raises its upper bound, "
      "never touches its data. Tied to /repo by the streams quantifier-free / quantified / 'qparent' with facts arriving between calls.", "DESIGN.md §6 C05")
claim("C06", "Lean 4 proofs of termination (potential argument) and genuine fixpoint + differential correspondence of sweep counts",
      "Theorems C06_terminates / _two_N / _exists (infer converges within fuel > (Phi+N)/eps sweeps for every KB, schedule and eps > 0), "
      "C06_sweep_zero_fix / C06_fixpoint / C06_fixpoint_grid (a converged infer leaves every upward and downward step of every scheduled formula "
      "the identity, given reported<=eps => reported=0, which C06_grid derives from a grid coarser than eps: the formal content of 'exactly "
      "representable bounds'), C06_infer_again (a second infer reports 0, one sweep, no change). Tied to /repo: infer() then every pass and "
      "node-level call then infer() again, sweep counts and amounts equal to the model's; first-order programs likewise against the first-order model.",
      NOTE_COMMON + " First-order: C06_fol_fixpoint / C06_fol_any_schedule / C06_fol_infer_again (Lemmas/FolFix.lean): when the first-order infer converges "
      "(a sweep reported <= eps AND created no grounding) and no sweep of the run reported an amount in (0, eps] (RunExact: the formal content of "
      "'exactly representable bounds'; outright for eps <= 0), every scheduled upward/downward call, alone or in any order and number, reports 0 and "
      "leaves every table structurally identical, and infer() again takes one sweep, reports 0 and returns the same tables. TERMINATION of the "
      "first-order loop is a theorem too (Lemmas/FolTerm.lean, Props/C06Term.lean): C06_fol_terminates (over any finite universe U of groundings "
      "the scheduled calls do not leave, the loop converges within |U| - rows + N sweeps, N*eps > Phi+|U|; the reported amount of every call, "
      "quantifiers included, EQUALS the drop of the potential Phi), C06_fol_terminates_constants / _exists (the universe of all tuples over the "
      "constant list is closed under every call on a well-formed formula of any kind), C06_fol_returns_at_fixpoint (both halves chained). "
      "The EXECUTED loop with the grounding-propagation layer (pInfer) terminates as well (Lemmas/PendTerm.lean): C06_layer_terminates_constants "
      "(partially quantified operands included, any pending groundings over the constants; pending work acts only by creating rows), "
      "C06_layer_query_terminates (with a query: converges or leaves through the early exit).", "DESIGN.md §6 C06, §11.7")
claim("C07", "Lean 4 proof of confluence by chaotic iteration over monotone inflationary un-arrested steps + multi-order differential runs",
      "Theorems C07_confluent (two arbitrary step lists that both end in an arrest-free common fixpoint end in the same state), "
      "C07_contradiction_invariant / C07_contradiction_iff (if one exhaustive schedule ends contradiction-free no schedule ever shows one; "
      "quiescent runs agree on whether a contradiction arrests), C07_infer_vs_schedule / C07_infer_vs_infer (infer equals any fair node-level "
      "schedule and any other sweep order). All node kinds, all weights >= 0, alpha <= 1. Tied to /repo: every KB is run by infer(), by infer() "
      "after permuting add_knowledge/add_data order and by 3 random fair node-level schedules until quiescent, all five replayed in the model.",
      NOTE_COMMON + " infer is related to schedules for threshold eps <= 0 (exact fixpoints); with the code's 1e-7 this is the dyadic regime "
      "of C06_grid. Values that leave the exactly representable range are counted as precision_skipped, not judged.", "DESIGN.md §6 C07")
claim("C13", "Lean 4 proof that reported amount = 0 iff state unchanged for every step list (Writes relation) + per-call differential correspondence",
      "Theorems C13_aggregate_zero_iff, C13_step, C13_steps, C13_call, C13_pass, C13_infer, C13_second_pass_zero, C13_amount_eq_potential_drop: "
      "for EVERY KB and every in-range state, any list of primitive steps -- hence every public call incl. Iff/XOr composites, every pass and every "
      "infer -- reports 0 exactly when it changed nothing; amounts are non-negative and equal the drop of the total interval width. Tied to /repo "
      "by comparing the returned amount of every node- and model-level call with before/after snapshots and with the model's amount; quantifier "
      "and first-order calls against the first-order model.",
      NOTE_COMMON + " The model follows the repaired code (Iff/XOr add their inner amounts); the pre-repair behaviour is kept as a corpus witness. First-order: "
      "C13_fol_nonneg / C13_fol_up_zero_iff / C13_fol_down_zero_iff / C13_fol_pass_zero_iff (Lemmas/FolAmount.lean): for every first-order KB, node kind and "
      "in-range state a call or any sequence of calls reports 0 iff every grounding of every formula READS as before (stored bounds, else world default; "
      "rows created at the default change no read); C13_layer_amount carries this through the grounding-propagation layer; "
      "C13_fol_amount_eq_potential_drop: the amount any list of first-order calls reports EQUALS the drop of the total width of all readings over "
      "any finite universe containing the stored groundings (all six call kinds, duplicate merging and the quantifiers' single-bound selection "
      "included).", "DESIGN.md §6 C13, §11.7")
claim("C17", "Lean 4 proofs of range invariant, contradiction characterisation and totality of state() + exhaustive grid correspondence",
      "Theorems C17_range (every reachable bound in [0,1] for every KB and call sequence), C17_contradiction_iff / _alpha_one / C17_hasContra_iff "
      "(contradiction <=> crossed bounds outside the same-classical-region tolerance; has_contradiction <=> some formula), C17_state_total / "
      "C17_state_cases / C17_state_* (for every alpha > 1/2 every pair of bounds maps to exactly one of the documented states, never the fall-through "
      "sentinel; all eight rows characterised). Tied to /repo by an exhaustive grid of (alpha, L, U) containing every region boundary and its "
      "neighbours through Proposition.add_data/state/is_contradiction/has_contradiction, and a range check of every dump of random programs.",
      NOTE_COMMON + " The code has eight states (Fact x4, _Fact x4); 'nine documented states' is read as the documented state set. First-order range: "
      "C17_fol_range / C17_fol_range_infer (all bounds of all groundings stay in [0,1] under any first-order calls).", "DESIGN.md §6 C17")
claim("C03", "Lean 4 proof that upward+downward on one connective yields exactly the feasible interval hull (explicit convex witnesses) + exact differential correspondence",
      "Theorems C03_{and,or,implies}_operator_hull / _operand_hull (every feasible value is inside the result AND both end points are attained by "
      "feasible assignments: neither looser nor tighter), C03_*_infeasible / _infeasible_reported (no feasible assignment => a contradiction at the "
      "connective or an operand), C03_engine_* / C03_engine_arrest_* (the model's stepUp;stepDown on a connective over distinct operands computes "
      "exactly that, and arrests in the infeasible case). All arities, weights >= 0 incl. 0, all biases, both variants, alpha = 1, any ordered field. "
      "Tied to /repo: upward();downward() on single connectives compared in exact arithmetic with the closed-form hull and with the model; thorough "
      "tier enumerates the n=2 quarter-grid sub-space exhaustively.",
      NOTE_COMMON, "DESIGN.md §6 C03")
claim("C20", "Lean 4 proofs of locality (frame), finality of classical verdicts (soundness+monotonicity) and restricted<=full (least fixpoint) + differential correspondence with observed traversal",
      "Theorems C20_local / C20_local_pass (if the sweep schedules only call formulae of a sub-graph closed under operands and generated inner "
      "formulae, infer with any threshold/query/step limit leaves every formula outside it untouched), C20_verdict_final (on data with a consistent "
      "reading a classically TRUE/FALSE formula keeps exactly those bounds under any further inference), C20_restricted_not_tighter (a restricted "
      "infer is nowhere tighter than the full arrest-free fixpoint). Tied to /repo: multi-root KBs, random source and query nodes; the observed call "
      "log must stay inside the source's sub-graph (the hypothesis of C20_local), snapshots outside must be identical, restricted results compared "
      "with the following full fixpoint, early query verdicts with converge=True runs; all runs replayed in the model.",
      NOTE_COMMON + " First-order: C20_fol_call_local / C20_fol_pass_local / C20_fol_local (no table outside a descendant-closed set of formulae changes "
      "under any calls of formulae inside it, incl. grounding propagation through partially quantified sub-formulae and the early exit of a query); "
      "run_c20_fol ties them to infer(source=) and set_query+infer_query from predicates, connectives and quantifiers (observed calls inside the "
      "sub-graph, tables outside identical, nothing tighter than the full run). Verdict finality is a theorem for quantifier-free first-order "
      "theories too (C20_fol_verdict_final, Props/C20Fol.lean: a stored row that reads exactly TRUE or FALSE keeps those bounds under any further "
      "calls, given a model of the ground theory inside the bounds -- from C05_fol_plain and C02_sound); restricted<=full is a theorem for "
      "propositional theories and checked by the oracle for first-order ones; re-arming a query (set_query twice, facts revised in between) is "
      "judged against a fresh model on the implementation.", "DESIGN.md §6 C20, §11.7")
claim("C14", "Lean 4 proofs about the table model (reads of absent groundings, row creation at world defaults, axiom invariant) + differential correspondence of store and first-order programs",
      "Theorems C14_get_missing / C14_query_pure / C14_query_unknown (an absent grounding reads as the world default and reading writes nothing), "
      "C14_addg_new_row / _keeps / _keys / _only_world / _read_unchanged and C14_groundings_only_world / _read_unchanged (every row a join, propagation "
      "or downward step introduces is a world-default row of its own formula, in leaf and working bounds, and creating it changes what no grounding "
      "reads), C14_axiom_start / C14_axiom_stays / C14_axiom_invariant / C14_closed_stays (TRUE stays TRUE or becomes crossed under every write). "
      "Tied to /repo by store programs under every world (construction, add_knowledge, reset_world) with queries of absent groundings (a created row "
      "is flagged), and by first-order programs with CLOSED/AXIOM formulae whose never-asserted rows must stay inside the default after every call; "
      "all tables compared with the model.",
      NOTE_COMMON, "DESIGN.md §6 C14")
claim("C15", "Lean 4 refinement of the table to a finite map with explicit validation predicate + differential correspondence incl. a malformed-input stream",
      "Theorems C15_get_after_add / _add_other_untouched / _add_overwrites / _add_keys / _leaf_after_add (add_data = map update for exactly the given "
      "keys, later overwrites earlier), C15_inference_keeps_leaves / C15_reset_after_inference / C15_reset_returns_assertion (inference never touches "
      "leaves; reset_bounds returns exactly to the data after ANY inference writes), C15_enc_* (Fact, bool, float, pair encodings), "
      "C15_toBounds_ok_iff / C15_accept_iff / C15_reject / C15_reject_kind / C15_reject_kind_entry (accepted iff the explicit Valid predicate holds; "
      "every entry is validated before the first write, an error carries no table; error classes), C15_checked_spec (accepted dict: last entry wins, "
      "others untouched). Tied to /repo by random add_data/flush/reset_bounds/get_data/state/reset_world/infer sequences over propositional-like, "
      "predicate, connective, negation and quantifier formulae with all encodings and a malformed stream (error class and unchanged table compared "
      "with the model and judged by a model-independent oracle).",
      NOTE_COMMON + " The model follows the repaired code (floats are range-checked; add_data on a quantifier is kept; flush()/reset_world() assert "
      "every stored row, data included: Table.assertAll, C15_assertAll_rows / C15_flush_reads). Data on a PARTIALLY quantified formula is known "
      "finding D20 (lost on reset_bounds, refused once inference created the group): replayed by a witness on every run, outside the store stream.", "DESIGN.md §6 C15")
claim("C16", "Lean 4 proof of history independence of the session model + differential reset/rerun correspondence (propositional and first-order)",
      "Theorems C16_leaves_invariant / C16_reset_restores / C16_rerun_equal / C16_second_run: in the session model (asserted data + working bounds) "
      "no history of inference calls, observations and resets changes the data, reset_bounds() restores it exactly, and any inference sequence after a "
      "reset yields the bounds of a freshly built model. Tied to /repo: infer() on the fresh model, arbitrary inference / printing / state queries / "
      "resets, then reset_bounds()+infer(): both dumps identical and equal to the history-free Lean model; first-order and quantified programs likewise "
      "against the first-order model (sweep counts deliberately not compared).",
      NOTE_COMMON + " First-order: C16_fol_data_untouched / C16_fol_reset_after_inference / C16_fol_reset_after_infer / C16_fol_reset_reads_data "
      "(Lemmas/FolReset.lean): no first-order call sequence touches data, created rows carry the world default as data, and reset_bounds() after any "
      "inference reads exactly as reset_bounds() before it; C16_fol_reset_is_fresh_plus_rows (table by table, what reset_bounds() returns after "
      "inference is the reset start state followed by world-default rows for the groundings inference discovered: the whole trace a run leaves) and "
      "C16_fol_reset_exact_of_no_growth / C16_fol_rerun_equal_of_no_growth (when no grounding was discovered the rerun is identical, tables and "
      "amounts). That the RERUN reproduces the first run in general is NOT a theorem and is false in two listed classes: "
      "known findings D11 (contradictory first-order data) and D14 (quantifier whose instance set grows), replayed on every run and matched only when the "
      "Lean model reproduces the same history dependence on that program (model_reproduces); oracles: rerun comparison (also after flush() + a second episode of data), reset oracle, query-trace oracle.", "DESIGN.md §6 C16, §11.7")
claim("C02", "Lean 4 proof that every first-order step is sound w.r.t. every model of the ground instantiation AND never tighter than any assignment closed under the ground steps, in particular the propositional engine's fixpoint on the ground instantiation (induction over call sequences, both join branches) + ground-instance differential oracle",
      "Theorems C02_sound_call / C02_sound / C02_sound_infer (for every quantifier-free first-order KB, weights >= 0, alpha <= 1: any interpretation "
      "v : formula x grounding -> [0,1] that satisfies the truth-function equation of every formula at every grounding and lies inside every stored "
      "row AND inside the world default of every row that is not stored, still does so after any node-level call incl. index restrictions, any pass, "
      "any infer; covers the homogeneous branch and the folded outer join, duplicate merging, per-grounding contradiction filtering), "
      "C02_never_tighter_call / C02_never_tighter / C02_never_tighter_infer (the interval generalisation: for ANY ground bound assignment G that no "
      "un-arrested ground step tightens -- GClosed -- 'G is at least as tight as every stored row and as the world default of every absent row' is "
      "preserved by every call, pass and infer), C02_closed_iff_ground (GClosed is exactly post-fixpoint-ness under the propositional engine's steps "
      "on groundKB, the ground instantiation) and C02_never_tighter_than_ground_fixpoint (hence: nothing first-order inference stores or returns is "
      "tighter than the arrest-free fixpoint the propositional engine of C01-C07 reaches on the ground instances); C02_point_is_closed (subsumes "
      "point soundness), C02_no_contradiction / C02_no_model_contradiction_infer (a consistent ground theory is never driven to a contradiction), "
      "C02_no_leak / C02_no_leak_reads (a call writes only its own / its operands' tables, and what every other grounding reads is unchanged: no leak "
      "between groundings), C02_arity (well-shaped tables stay well-shaped). Tied to /repo: the same theory is instantiated at every tuple as a "
      "propositional KB inside the implementation and run to convergence; every stored first-order bound must contain the ground fixpoint's; tables "
      "compared with the first-order model.",
      NOTE_COMMON + " The 'never tighter' theorem is stated for arrest-free ground fixpoints (consistent ground theories, where no contradiction "
      "filter fires); for contradictory components the oracle compares only instances not connected to a contradiction.", "DESIGN.md §6 C02, §11.7")
claim("C11", "Lean 4 closed forms of quantifier upward aggregation (per group, engine level) + per-call differential oracle",
      "Theorems C11_qUp_forall / _exists (the activation is the Lukasiewicz conjunction / disjunction of the instance bounds), C11_forall_upper_unit / "
      "C11_exists_lower_unit / C11_fully_grounded (which bound moves), C11_positives_never_prove / C11_negatives_never_refute / "
      "C11_one_false_refutes_agg / C11_one_true_proves_agg (the open-world corollaries), C11_engine_group / _forall / _exists / _other_groups / _frame "
      "(the model's fUpQuant writes, per grounding of the free variables, exactly that aggregate over exactly the body rows of the group, creates missing "
      "groups at the world default, and touches nothing else), for any free-variable set, any ordered field. Tied to /repo: after EVERY node-level "
      "upward call of every quantifier (nested ones included) its table is compared with the closed form computed from the tables before the call "
      "and with the model; data is added in stages so that groups appear out of sorted order.",
      NOTE_COMMON + " Nested quantifiers are covered by composition (each level is a quantifier over the inner one's table).", "DESIGN.md §6 C11")
claim("C12", "Lean 4 proofs of sound instantiation (n-ary inverse), exact proposal formulas and engine-level frame/instance theorems + interpretation-first differential oracle",
      "Theorems C12_sound_forall / _exists / C12_engine_sound (every instance value consistent with the quantifier read as the conjunction/disjunction "
      "over its known instances stays inside the proposals and inside every row after fDownQuant), C12_lower_passes / C12_axiom_instances_true / "
      "C12_upper_passes (the universal's lower / existential's upper bound reaches every instance), C12_only_when_forced(_exists) (an instance is "
      "tightened further only when ALL other instances force it, with the exact formula), C12_false_forall_not_all_false / "
      "C12_true_exists_not_all_true, C12_engine_frame / _instance (writes only operand rows, each the aggregate of its proposal). Tied to /repo: complete "
      "tables drawn around an interpretation that satisfies the quantified formulae, quantifier data through add_data, infer() and node-level "
      "downward calls; the interpretation must stay inside every fact, no contradiction; tables compared with the model.",
      NOTE_COMMON + " The reading is closed over the instances PRESENT (complete tables in the oracle).", "DESIGN.md §6 C12")
claim("C09", "Lean 4 proof of join completeness (the folded pandas outer join contains the natural join), presence after upward and the exact upward value / downward tightening of every join tuple + systematic variable-pattern differential oracle (incl. downward-first and late-fact cases)",
      "Theorems C09_foj_complete / C09_foldJoin_complete (every assignment whose projection is a row of every operand relation is a row of the folded "
      "_full_outer_join, whose columns are the union), C09_join_complete / C09_join_aligned / C09_homogeneous_complete (the model's grounding "
      "management returns the operator grounding of every such assignment, aligned with the projected operand groundings, and creates its row; union "
      "propagation in the homogeneous branch), C09_upward_present(_homogeneous) / C09_upward_keeps_rows / C09_operands_kept (present after upward, "
      "nothing ever removed). The value clause: C09_upward_value / _homogeneous / _open (after the upward step the row of every tuple of the natural "
      "join is EXACTLY the aggregate of what was there -- the world default for an absent row -- with the truth function of the operand readings; "
      "on an OPEN operator without a row, the truth function itself), C09_downward_value / C09_downward_frame (after a downward step, also "
      "index-restricted, each projected operand row is at least as tight as the aggregate of its reading with the inverse's proposal; a row no "
      "operator grounding projects onto keeps its reading); side conditions are only the engine's own contradiction filter. Tied to /repo: all variable-sharing patterns of two (and sampled / all three) "
      "operands of arity 1-2 incl. permuted arguments, random fact tables; the natural join is computed independently; presence, exact upward "
      "value, downward tightening and untouched independent rows are checked; tables compared with the model.",
      NOTE_COMMON, "DESIGN.md §6 C09, §11.7")
claim("C10", "Lean 4 proofs that the model is a function of the SET of facts/rows (finite-map denotation, permutation invariance of every table operation, the join, every engine step, every call list and the infer loop) + multi-hash-seed differential runs",
      "Theorems C10_perm_TEq / C10_addg_perm / C10_addg_set / C10_addData_comm / C10_load_perm (tables denote finite maps; creation order and the order "
      "of facts in a data dict are irrelevant), C10_mergeB_comm_assoc / C10_mergeAll_perm / C10_writeMerged_perm (the duplicate merge is order-free), "
      "C10_foj_congr / C10_foldJoin_congr (the join's row SET depends only on the inputs' row sets), C10_groundings_congr / C10_fUpConn_congr / "
      "C10_fUpNot_congr / C10_fDownNot_congr / C10_fDownConn_congr / C10_fUpQuant_congr / C10_fDownQuant_congr (every engine step maps equal finite maps to "
      "equal finite maps and equal amounts), C10_runFCalls_congr / C10_fInfer_congr (any program of calls and the whole infer loop: same finite maps, same "
      "amounts, sweep counts and convergence verdict, whatever order the tables were filled in). Tied to /repo: every "
      "program is executed in a separate interpreter per PYTHONHASHSEED (quick 3, thorough 16) with its own shuffled fact order; all canonical "
      "dumps must coincide and equal the order-free model.",
      NOTE_COMMON + " Not covered by theorems: CPython's hash function / set and dict iteration order and pandas row order themselves (not modelled; "
      "a seed-dependent fault that needs a seed outside those tried is not found). The quantifier congruences need 'each grounding stored once' "
      "on both sides (an invariant of every call); C10_quant_needs_nodup is the counterexample without it (an artefact of association-list tables). "
      "Constant bindings (P(x, 'a')) are not modelled.", "DESIGN.md §6 C10, §11.7")
claim("C19", "Lean 4 proof on a dual-number (forward-mode) model of val_clamp and the upward activations + exact autograd differential correspondence",
      "Theorems C19_valClamp / C19_value_exact / C19_gradient_transparent (val_clamp x has value min(1,max(0,x)) and passes every tangent through "
      "unchanged, saturated or not, for every tangent direction), C19_and / C19_or / C19_implies (the upward output has the clamped value and exactly "
      "the tangent of the unclamped form w.r.t. weights, bias and inputs at once), C19_and_gradient (explicit entries: d/db = 1, d/dw_i = -(1-x_i), "
      "d/dx_i = w_i). Tied to /repo: torch.autograd gradients of _utils.val_clamp on dyadic tensors in [-8,8] and of the upward activation of real "
      "And/Or/Implies neuron objects w.r.t. bias, every weight and every input, compared exactly with the unclamped linear form and with the "
      "model's tangents.",
      NOTE_COMMON + " Modelled, not verified: autograd's own bookkeeping (the dual-number model is forward mode). The plain Lukasiewicz variant uses "
      "torch.clamp by design and is compared on values only. The transparent Or's extra term -sum(min(w,0)) is identically 0 with zero derivative for "
      "the positive weights generated (at w = 0 torch splits the subgradient; not exercised).", "DESIGN.md §6 C19")
claim("C18", "Lean 4 proofs about the training loop for an ARBITRARY optimiser function + scripted-optimiser differential correspondence through the public optimizer= argument",
      "Theorems C18_facts_preserved(_epochs) (facts untouched by any number of epochs; labels are not mutable state), C18_weights_nonneg / "
      "C18_bias_nonneg / _epochs / _of_init / C18_negative_weights_free (after every epoch weights >= 0 unless negative weights were requested, "
      "biases >= 0, whatever the optimiser did), C18_final_inferred(_facts) / C18_final_in_range (the bounds left behind are exactly reset_bounds();"
      "infer() under the final parameters on the original facts), C18_contradiction_loss_* / C18_total_contradiction_loss_zero_iff(_no_cross) / "
      "C18_supervised_loss_* / C18_total_supervised_loss_zero_iff (signs and zero conditions), plus the honest counterexamples "
      "C18_contradiction_loss_alpha_gap / C18_uncertainty_loss_can_be_negative. Tied to /repo: Model.train(optimizer=<scripted torch optimiser>) "
      "with seeded dyadic updates (negative, huge) replayed in the Lean training model (parameters after every epoch, loss components, final "
      "bounds); default-Adam runs judged by the oracle (facts/labels, finite, projection postcondition, final = reset+infer, loss signs); "
      "project_params compared directly incl. requested negative weights.",
      NOTE_COMMON + " 'All parameters finite' has no counterpart in an ordered field: tested on the implementation only. Known finding D15 (alpha < 1: "
      "same-region crossings give contradiction loss 0 and negative uncertainty loss) is listed and replayed. Which epochs take an optimiser step "
      "(loss.grad_fn, convergence) is an input of the model. Inference with negative weights is not modelled. Observed outside the property: with "
      "non-dyadic (Adam) parameters float rounding can make infer() creep by > 1e-7 per sweep indefinitely; the check caps sweeps on both sides.", "DESIGN.md §6 C18")
claim("C08", "Lean 4 proof about an identity-based registry model (DFS numbering invariant over arbitrary add_knowledge histories) + per-object differential oracle on KBs with structurally equal distinct objects",
      "Theorems C08_every_object_numbered / C08_numbers_injective / C08_registered_once / C08_nodes_own_number / _functional / _lookup / "
      "C08_nodes_exactly_reachable / C08_graph_exactly_reachable / _nodup / C08_values_exactly_reachable / _nodup (every object reachable from any "
      "root has exactly one number, no two objects share one -- in particular two structurally equal separate objects get two -- Model.nodes is a "
      "bijection between the numbers in use and the reachable objects, and graph / nodes.values(), over which every model-wide operation iterates, "
      "contain exactly the reachable objects, each once), C08_readd_keeps_number / C08_readd_root (re-adding registered formulae changes nothing), "
      "C08_calls / C08_inv (all of it for ANY history of add_knowledge calls with several roots per call). Tied to /repo: KBs with 1-4 pairs of "
      "structurally equal distinct objects (user-written, Iff-induced), roots in one or several calls and twice, data before/after adding; per "
      "object: own number, unique, in graph, parameters collected, called by upward()/downward(), reached by flush(); bounds after "
      "upward/downward/infer/reset_bounds/flush compared with the identity-based engine model (reads and writes go to that same object).",
      NOTE_COMMON + " The model follows the repaired code (formulae are graph nodes by identity; a registered formula is not renumbered). 'Attaching data "
      "never makes a later operation fail' is checked on the implementation only. Sharing one formula object between two Models is out of scope.", "DESIGN.md §6 C08")
