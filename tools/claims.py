claim("C01", "Lean 4 proof of soundness of every engine step by induction over arbitrary call sequences + differential correspondence",
      "Theorems C01_sound / C01_no_contradiction / C01_sound_infer: for every KB (any graph, also cyclic or with shared/duplicated "
      "sub-formulae), non-negative weights, any bias, alpha <= 1, both activation variants, every interpretation consistent with the "
      "local truth-function equations and inside the current bounds stays inside after ANY finite sequence of node-level calls, passes "
      "over any schedule and infer runs; hence no contradiction. Tied to /repo by exact differential execution of random weighted "
      "programs (bounds after every call) and an interpretation-first oracle on the implementation.",
      NOTE_COMMON, "DESIGN.md §6 C01")
