#!/bin/bash
# usage: verify_seed.sh <worktree>   -- confirms from patch.diff alone (no git stash: the stash is shared between worktrees):
# demo fails with the change, passes without, test suite passes with the change
wt=$1
cd $wt || exit 2
git checkout -q -- lnn
echo "== demo WITHOUT change"; PYTHONPATH=$wt timeout 900 /venv/bin/python demo.py > $wt/.demo_without.txt 2>&1; echo "exit=$?"
git apply patch.diff || { echo "patch does not apply"; exit 2; }
echo "== demo WITH change"; PYTHONPATH=$wt timeout 900 /venv/bin/python demo.py > $wt/.demo_with.txt 2>&1; echo "exit=$?"
git diff --stat -- lnn | tail -1
echo "== test suite WITH change"
OMP_NUM_THREADS=4 /venv/bin/python -m pytest -q -p no:cacheprovider --timeout=900 -n ${VERIFY_N:-4} 2>&1 | tail -1
