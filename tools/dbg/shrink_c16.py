import sys, json; sys.path.insert(0,'/verif/harness')
import streams, shrink
import checks.c16_fol as c
r=json.load(open(sys.argv[1]))
prog=streams.fix_prog(r['replay']['program'])
prog['facts']=[tuple(f) for f in prog['facts']]
small=shrink.shrink_fol(prog, lambda rec: c.oracle(rec))
print(json.dumps(streams.ser(small)))
rec=shrink.run_one('fol','run_fol_program',small)
print(c.oracle(rec))
for l,o in zip(rec['lines'],rec['impl']): print(l,'=>',o)
