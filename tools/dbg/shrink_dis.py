"""shrink a first-order program on which implementation and Lean model disagree.
usage: shrink_dis.py <evidence.json> <first_disagreement key>   |   shrink_dis.py --prog <program.json>"""
import sys, json; sys.path.insert(0, '/verif/harness')
import streams, shrink, engine, common
if sys.argv[1] == "--prog":
    prog = streams.fix_prog(json.load(open(sys.argv[2])))
else:
    prog = streams.fix_prog(json.load(open(sys.argv[1]))["coverage"][sys.argv[2]]["program"])
prog['facts'] = [tuple(f) for f in prog['facts']]

def fails(rec):
    outs = common.run_driver_parallel([rec["lines"]], jobs=1)
    rec["model"] = outs[0]
    dis, safe, n = engine.compare_record(rec, None)
    rec["dis"] = dis
    return bool(dis)

small = shrink.shrink_fol(prog, fails, budget=int(sys.argv[3]) if len(sys.argv) > 3 else 150)
print(json.dumps(streams.ser(small)))
rec = shrink.run_one('fol', 'run_fol_program', small)
fails(rec)
for k, (l, o, m) in enumerate(zip(rec['lines'], rec['impl'], rec['model'])):
    print(l, '=>', o, '' if o == m or o is None else f'   MODEL: {m}')
