import sys, json, collections, random; sys.path.insert(0,'/verif/harness')
import streams, engine, common, fol
n=int(sys.argv[1]); seed=int(sys.argv[2]) if len(sys.argv)>2 else 0
rep=common.Report('DBG','quick',0)
progs=[fol.gen_store_program(random.Random(common.sub_seed(seed,'store',k))) for k in range(n)]
recs,first=streams.run_fol_stream(rep,'store',progs,None,fn='run_store_program')
print(rep.obligations[-1], rep.extra)
errs=collections.Counter()
for r in recs:
    if 'crash' in r: continue
    for e in r['meta']['errors']: errs[e[:200]]+=1
print(errs.most_common(8))
k=0
for r in recs:
    if 'crash' in r: continue
    if r['disagreements']:
        d=r['disagreements'][0]
        print('---', json.dumps(streams.ser(r['prog']['kb']))[:600])
        print('at', d[0], d[1]); print(' impl ', d[2]); print(' model', d[3])
        for j in range(max(0,d[0]-8), d[0]): print('   ', r['lines'][j], '=>', r['impl'][j][:300])
        k+=1
        if k>=3: break
c=collections.Counter()
for r in recs:
    if 'crash' in r: continue
    for l,o in zip(r['lines'],r['impl']):
        if l.startswith(('sadd','fget','fstate','fflush','fworld','fresetb','finfer')): c[(l.split()[0], o.split()[0]+(' '+o.split()[1] if o.startswith(('e ','s ')) else '')+(' CREATED' if 'CREATED' in o else ''))]+=1
for k,v in sorted(c.items()): print(k,v)
