import sys, json, subprocess, time; sys.path.insert(0,'/verif/harness')
import streams, engine, common
quant = sys.argv[1]=='q'; n=int(sys.argv[2])
progs=[streams.gen_fol_program(0,k,quant=quant) for k in range(n)]
recs=engine.run_cases('fol','run_fol_program',progs,chunksize=1)
json.dump([r.get('lines') for r in recs], open('/tmp/lt/fol_lines.json','w'))
json.dump([r.get('impl') for r in recs], open('/tmp/lt/fol_impl.json','w'))
print('crashes', sum('crash' in r for r in recs))
for r in recs:
    if 'crash' in r: print(r['crash'], r['trace'][-600:]); break
slow=[]
for k,r in enumerate(recs):
    if 'lines' not in r: continue
    t=time.time()
    try:
        p=subprocess.run(['lake','env','lean','--run','Driver.lean'],cwd='/verif/lean',input='\n'.join(r['lines'])+'\n',capture_output=True,text=True,timeout=40)
        dt=time.time()-t
        if dt>8: slow.append((k,dt))
    except subprocess.TimeoutExpired:
        slow.append((k,'TIMEOUT')); print('timeout', k, len(r['lines']))
print(slow)
