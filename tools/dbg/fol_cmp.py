import sys, json, collections; sys.path.insert(0,'/verif/harness')
import streams, engine, common
quant = sys.argv[1]=='q'
n=int(sys.argv[2])
seed=int(sys.argv[3]) if len(sys.argv)>3 else 0
rep=common.Report('DBG','quick',0)
progs=[streams.gen_fol_program(seed,k,quant=quant) for k in range(n)]
recs,first=streams.run_fol_stream(rep,'fol',progs,None)
print(rep.obligations[-1], rep.extra)
errs=collections.Counter()
for r in recs:
    if 'crash' in r: continue
    for e in r['meta']['errors']: errs[e[:200]]+=1
print(errs.most_common(8))
k=0
for r in recs:
    if 'crash' in r: continue
    if r['disagreements']:
        d=r['disagreements'][0]
        print('---', json.dumps(streams.ser(r['prog']['kb']))[:1200]); print('facts', [(f[0],f[1],str(f[2]),str(f[3])) for f in r['prog']['facts']][:14])
        print('at', d[0], d[1]); print(' impl ', d[2]); print(' model', d[3])
        for j in range(max(0,d[0]-6), d[0]): print('   ', r['lines'][j], '=>', r['impl'][j][:300])
        k+=1
        if k>=int(sys.argv[4] if len(sys.argv)>4 else 2): break
