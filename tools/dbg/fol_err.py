import sys, json; sys.path.insert(0,'/verif/harness')
import streams, engine
quant = sys.argv[1]=='q'; n=int(sys.argv[2]); seed=int(sys.argv[3]); pat=sys.argv[4]
progs=[streams.gen_fol_program(seed,k,quant=quant) for k in range(n)]
recs=engine.run_cases('fol','run_fol_program',progs)
for r,p in zip(recs,progs):
    if 'crash' in r:
        if pat in r['crash']: print(r['crash'], r['trace'][-1500:]); print(json.dumps(streams.ser(p))[:2000]); break
        continue
    if any(pat in e for e in r['meta']['errors']):
        print(r['meta']['errors']); print(json.dumps(streams.ser(p['kb']))); print(p['ops']); print([(f[0],f[1],str(f[2]),str(f[3])) for f in p['facts']]); break
