import sys, json, random, collections; sys.path.insert(0,'/verif/harness')
import streams, engine, common, train
n=int(sys.argv[1]); seed=int(sys.argv[2]) if len(sys.argv)>2 else 0
cases=[c for c in (train.gen_train_case(random.Random(common.sub_seed(seed,'c18',k)), adam=False) for k in range(n)) if c]
recs=engine.run_cases('train','run_train',cases,chunksize=2)
engine.model_outputs([r for r in recs if 'lines' in r])
errs=collections.Counter(); k=0
for c,r in zip(cases,recs):
    if 'crash' in r: print('CRASH', r['crash'], r['trace'][-800:]); break
    for e in r['meta']['errors']: errs[e[:120]]+=1
    dis,safe,nc=engine.compare_record(r,None)
    if dis and k<3:
        k+=1
        d=dis[0]; print('---', json.dumps(streams.ser(c))[:1200]); print(d[1]); print(' impl ', d[2]); print(' model', d[3])
print(errs.most_common(5))
for c,r in zip(cases,recs):
    if 'crash' not in r and r['meta']['errors']:
        print(json.dumps(streams.ser(c))[:1500]); break
