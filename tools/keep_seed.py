#!/usr/bin/env python3
"""keep_seed.py <worktree> <seed id> <verify log> <caught_by comma list> [missed_by comma list] [note]"""
import json, os, shutil, sys
wt, sid, vlog, caught = sys.argv[1:5]
missed = sys.argv[5] if len(sys.argv) > 5 else ""
note = sys.argv[6] if len(sys.argv) > 6 else ""
d = os.path.join("/verif/seeded", sid)
os.makedirs(d, exist_ok=True)
shutil.copy(os.path.join(wt, "patch.diff"), d)
shutil.copy(os.path.join(wt, "demo.py"), d)
meta = json.load(open(os.path.join(wt, "meta.json")))
log = open(vlog).read()
meta["what_i_ran"] = {
    "demo_with_change": "exit=1" if "== demo WITH change\nexit=1" in log else log,
    "demo_without_change": "exit=0" if "== demo WITHOUT change\nexit=0" in log else log,
    "test_suite_with_change": [l for l in log.split("\n") if "passed" in l or "failed" in l][-1:] or ["?"],
    "commands": ["PYTHONPATH=<worktree> /venv/bin/python demo.py (with / without the change, via git checkout -- lnn / git apply patch.diff)",
                 "/venv/bin/python -m pytest -q -p no:cacheprovider --timeout=900 (in the worktree, with the change)",
                 "tools/try_seed.sh seeded/%s/patch.diff <checks> (apply to /repo, run quick checks, restore)" % sid],
}
meta["caught_by"] = [c for c in caught.split(",") if c]
meta["missed_by_before_strengthening"] = [c for c in missed.split(",") if c]
if note:
    meta["note"] = note
json.dump(meta, open(os.path.join(d, "meta.json"), "w"), indent=1)
print("kept", d, meta["caught_by"])
