#!/usr/bin/env python3
"""Regenerates MANIFEST.json from the table below (keeps it schema-valid at all times)."""
import json, os
HERE = os.path.dirname(os.path.dirname(os.path.abspath(__file__)))
ALL = [f"C{n:02d}" for n in range(1, 21)]

# property -> (technique, level text, level note, design ref)
CLAIMED = {}

def claim(pid, technique, text, note, ref):
    CLAIMED[pid] = (technique, text, note, ref)

NOTE_COMMON = ("Trusted: Lean 4.33 kernel (axioms propext, Classical.choice, Quot.sound only; audited on every run), "
               "Mathlib's ordered-field definitions, the statements in lean/LnnVerif/Props, the correspondence harness "
               "and the Lean interpreter running Driver.lean. Modelled, not verified: torch tensor semantics, pandas, "
               "networkx DFS. Not modelled: float32 rounding on non-dyadic data, nan/inf, negative weights.")

exec(open(os.path.join(HERE, "tools", "claims.py")).read())

PENDING = {}
if os.path.exists(os.path.join(HERE, "tools", "pending.json")):
    PENDING = json.load(open(os.path.join(HERE, "tools", "pending.json")))

checks = []
for pid in ALL:
    if pid not in CLAIMED:
        continue
    technique, text, note, ref = CLAIMED[pid]
    checks.append({
        "property_id": pid,
        "quick_cmd": f"./check {pid} --tier quick",
        "thorough_cmd": f"./check {pid} --tier thorough",
        "evidence_file": f"evidence/{pid}.json",
        "replay_cmd_template": f"./check {pid} --replay {{path}}",
        "engine": "lean-model+correspondence",
        "level_claimed": {"category": "proof", "text": text, "design_ref": ref},
        "level_note": note,
        "technique": technique,
    })
manifest = {
    "version": 1,
    "setup_cmd": "cd lean && lake build",
    "hooks": {
        "guard": "none",
        "enable": "no source hooks: node-level calls are recorded by class-level wrappers installed from harness/impl.py at import time",
        "baseline_off_cmd": "cd /repo && /venv/bin/python -m pytest -q -p no:cacheprovider --timeout=900",
        "source_commits": [],
        "add_only": True,
    },
    "engines": [{
        "name": "lean-model+correspondence",
        "path": "lean/ (model, theorems, Driver.lean), harness/ (generators, implementation adapter, diff, oracles), check",
        "serves_properties": sorted(CLAIMED),
        "kind_free_text": "hand-written executable Lean 4 model of the engine generic over an ordered field, property theorems checked by the kernel, differential correspondence against /repo through a line protocol, implementation-side failing-input search",
    }],
    "checks": checks,
    "notes": "See DESIGN.md. Fix commits in /repo are listed in known_findings.json (fixed entries).",
    "not_applicable": [{"property_id": p, "reason": PENDING.get(p, "check under construction in this session; not claimed yet")}
                       for p in ALL if p not in CLAIMED],
}
json.dump(manifest, open(os.path.join(HERE, "MANIFEST.json"), "w"), indent=1)
print("claimed:", sorted(CLAIMED), "unclaimed:", [p for p in ALL if p not in CLAIMED])
