#!/bin/bash
# usage: tools/regress_seeds.sh [pattern]  -- applies every kept seeded change in turn and runs the check of ITS property (quick);
# prints whether it is reported, and whether with a failing input. /repo is restored after each one.
cd "$(dirname "$0")/.."
for d in seeded/${1:-S}*; do
  p=$(python3 -c "import json;print(json.load(open('$d/meta.json'))['property'])")
  cd /repo && git apply --check /verif/$d/patch.diff 2>/dev/null || { echo "$d: patch does not apply"; cd /verif; continue; }
  git apply /verif/$d/patch.diff; cd /verif
  out=$(VERIF_SEED=${VERIF_SEED:-0} ./check $p --tier quick 2>&1); rc=$?
  first=$(echo "$out" | grep '^VIOLATION' | head -1)
  if [ -z "$first" ]; then res="MISSED";
  elif echo "$first" | grep -q no-failing-input-found; then res="reported, no failing input";
  else res="reported with failing input"; fi
  echo "$(basename $d) $p rc=$rc $res"
  git -C /repo checkout -- .
done
git -C /repo status --short | head -3
