#!/bin/bash
# usage: tools/run_thorough.sh [seed]   -- thorough tier of all 20 checks in three parallel lanes; one line per property
cd "$(dirname "$0")/.."
seed=${1:-0}
lane() {
  for p in "$@"; do
    s=$(date +%s)
    out=$(VERIF_SEED=$seed ./check $p --tier thorough 2>&1); rc=$?
    e=$(( $(date +%s) - s ))
    echo "$p thorough seed=$seed rc=$rc ${e}s $(echo "$out" | grep -c '^VIOLATION') violations $(echo "$out" | grep -c KNOWN-FINDING) known"
    echo "$out" | grep '^VIOLATION' | cut -c1-160
  done
}
lane C05 C01 C08 C09 C11 C14 C19 &
lane C06 C02 C03 C07 C12 C15 C20 &
lane C13 C16 C04 C10 C17 C18 &
wait
