#!/bin/bash
# usage: tools/regress_seeds_wt.sh [pattern] [jobs]  -- like regress_seeds.sh, but never touches /repo: every kept change is applied to its
# own scratch worktree (under /var/tmp, removed afterwards), the quick check of ITS property runs against that copy (LNN_REPO) with
# evidence and replays redirected to a scratch directory, `jobs` changes at a time. Prints one line per change.
cd "$(dirname "$0")/.."
pat=${1:-S}; jobs=${2:-3}
one() {
  d=$1
  id=$(basename $d)
  p=$(python3 -c "import json;print(json.load(open('$d/meta.json'))['property'])")
  wt=/var/tmp/lnnregress_$id
  git -C /repo worktree add -q --detach $wt HEAD 2>/dev/null || { echo "$id $p: cannot create worktree"; return; }
  if ! git -C $wt apply /verif/$d/patch.diff 2>/dev/null; then echo "$id $p: patch does not apply"; git -C /repo worktree remove --force $wt; return; fi
  mkdir -p $wt/.ev $wt/.rp
  out=$(LNN_REPO=$wt VERIF_EVIDENCE_DIR=$wt/.ev VERIF_REPLAY_DIR=$wt/.rp VERIF_SEED=${VERIF_SEED:-0} ./check $p --tier quick 2>&1); rc=$?
  first=$(echo "$out" | grep '^VIOLATION' | head -1)
  if [ -z "$first" ]; then res="MISSED";
  elif echo "$first" | grep -q no-failing-input-found; then res="reported, no failing input";
  else res="reported with failing input"; fi
  echo "$id $p rc=$rc $res"
  git -C /repo worktree remove --force $wt
}
export -f one
ls -d seeded/${pat}* | grep -v "\.txt" | xargs -P $jobs -I{} bash -c 'one {}'
git -C /repo worktree prune
