import LnnVerif.Model.Arith
import LnnVerif.Model.Node
import LnnVerif.Model.PropEngine
import LnnVerif.Props.All
