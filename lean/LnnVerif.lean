import LnnVerif.Model.Arith
import LnnVerif.Model.Node
import LnnVerif.Model.PropEngine
import LnnVerif.Model.Fol
import LnnVerif.Model.Store
import LnnVerif.Model.Dual
import LnnVerif.Model.Train
import LnnVerif.Props.All
