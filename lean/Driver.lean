/-
Line-protocol driver: executes the Lean model at `α = ℚ` on the operations the harness sends.
Run with `lake env lean --run Driver.lean < ops.txt`. One output line per input line.
Anything that does not parse prints `e BadOp` — the driver never defaults.
-/
import LnnVerif.Model.PropEngine
import LnnVerif.Model.Fol
import LnnVerif.Model.FolPend
import LnnVerif.Model.Store
import LnnVerif.Model.Dual
import LnnVerif.Model.Train
import Mathlib.Algebra.Order.Field.Rat

open LNN

abbrev Q := ℚ

def parseRat (s : String) : Option Q :=
  match s.splitOn "/" with
  | [n] => n.toInt?.map (fun k => (k : Q))
  | [n, d] => do
    let k ← n.toInt?
    let m ← d.toNat?
    if m = 0 then none else some (mkRat k m)
  | _ => none

def showRat (q : Q) : String :=
  if q.den = 1 then toString q.num else s!"{q.num}/{q.den}"

def showB (b : Bounds Q) : String := s!"{showRat b.lo},{showRat b.hi}"

def parseIds (s : String) : Option (List Nat) :=
  if s = "-" ∨ s = "" then some [] else (s.splitOn ",").mapM (·.toNat?)

def parseOptNat (s : String) : Option (Option Nat) :=
  if s = "-" then some none else s.toNat?.map some

def parseKind : String → Option Kind
  | "atom" => some .atom | "not" => some .neg | "and" => some .and
  | "or" => some .or | "implies" => some .implies | _ => none

/-- `id:w;id:w` -/
def parseOps (s : String) : Option (List (Nat × Q)) :=
  if s = "-" ∨ s = "" then some [] else
    (s.splitOn ";").mapM fun t =>
      match t.splitOn ":" with
      | [i, w] => do some (← i.toNat?, ← parseRat w)
      | _ => none

structure Ctx where
  nodes : List (Nat × Node Nat Q) := []
  vals : List (Nat × Bounds Q) := []
  leaves : List (Nat × Bounds Q) := []   -- asserted data (`set`), restored by `resetb`
  fnodes : List (Nat × FNode Nat Q) := []
  tabs : List (Nat × Table Q) := []
  props : List Nat := []                 -- formulae without variables (single empty grounding)
  pend : List (Nat × List Gr) := []      -- groundings partially quantified formulae still pass on to their bodies

def defaultNode : Node Nat Q := { kind := .atom, bias := 1, alpha := 1 }

def Ctx.kb (c : Ctx) : KB Nat Q := fun i =>
  match c.nodes.find? (·.1 == i) with
  | some p => p.2
  | none => defaultNode

def Ctx.state (c : Ctx) : State Nat Q := fun i =>
  match c.vals.find? (·.1 == i) with
  | some p => p.2
  | none => ⟨0, 1⟩

/-- re-tabulate a state function on the known ids (keeps closure chains short) -/
def Ctx.setState (c : Ctx) (s : State Nat Q) : Ctx :=
  { c with vals := c.nodes.map fun p => (p.1, s p.1) }

def defaultFNode : FNode Nat Q := { kind := .pred, bias := 1, alpha := 1, world := ⟨0, 1⟩ }

def Ctx.fkb (c : Ctx) : FKB Nat Q := fun i =>
  match c.fnodes.find? (·.1 == i) with
  | some p => p.2
  | none => defaultFNode

def Ctx.fstate (c : Ctx) : FState Nat Q := ⟨c.tabs⟩

def Ctx.setFState (c : Ctx) (s : FState Nat Q) : Ctx :=
  { c with tabs := c.fnodes.map fun p => (p.1, s.get p.1) }

def Ctx.pstate (c : Ctx) : PState Nat Q := ⟨c.fstate, c.pend⟩

def Ctx.setPState (c : Ctx) (p : PState Nat Q) : Ctx :=
  { c.setFState p.st with pend := p.pend }

def parseGr (s : String) : Option Gr :=
  if s = "-" then some [] else (s.splitOn ".").mapM (·.toNat?)

def showGr (g : Gr) : String := if g.isEmpty then "-" else ".".intercalate (g.map toString)

def parseB (s : String) : Option (Bounds Q) :=
  match s.splitOn "," with
  | [l, u] => do some ⟨← parseRat l, ← parseRat u⟩
  | _ => none

def parseFKind : String → Option FKind
  | "pred" => some .pred | "not" => some .neg | "and" => some .and | "or" => some .or
  | "implies" => some .implies | "forall" => some .all | "exists" => some .ex | _ => none

/-- `0.1;1;-` : one slot list per operand -/
def parseMaps (s : String) : Option (List (List Nat)) :=
  if s = "-" ∨ s = "" then some [] else (s.splitOn ";").mapM parseGr

def parseFCalls (dir : String) (s : String) : Option (List (FCall Nat)) := do
  let ids ← parseIds s
  match dir with
  | "up" => some (ids.map FCall.up)
  | "down" => some (ids.map fun i => FCall.down i none)
  | _ => none

def grLt : Gr → Gr → Bool
  | [], [] => false
  | [], _ :: _ => true
  | _ :: _, [] => false
  | a :: as, b :: bs => a < b || (a == b && grLt as bs)

def insertSorted (r : Row Q) : List (Row Q) → List (Row Q)
  | [] => [r]
  | x :: xs => if grLt r.g x.g then r :: x :: xs else x :: insertSorted r xs

def sortRows (t : Table Q) : List (Row Q) := t.foldl (fun acc r => insertSorted r acc) []

def showTab (i : Nat) (t : Table Q) : String :=
  s!"{i}:" ++ ";".intercalate ((sortRows t).map fun r => s!"{showGr r.g}={showB r.b}")

/-- value tokens: `F:TRUE` `B:1` `N:3/2` `T:1/2,3/4` (`T:` = empty tuple) `O` -/
def parseVal (s : String) : Option (Val Q) :=
  match s.splitOn ":" with
  | ["O"] => some .other
  | ["F", "TRUE"] => some (.fact .true_) | ["F", "FALSE"] => some (.fact .false_)
  | ["F", "UNKNOWN"] => some (.fact .unknown) | ["F", "CONTRADICTION"] => some (.fact .contradiction)
  | ["B", "1"] => some (.bool true) | ["B", "0"] => some (.bool false)
  | ["N", x] => (parseRat x).map .num
  | ["T", xs] => if xs = "" then some (.tuple []) else ((xs.splitOn ",").mapM parseRat).map .tuple
  | _ => none

/-- `g=val;g=val` -/
def parseEntries (s : String) : Option (List (Gr × Val Q)) :=
  if s = "-" ∨ s = "" then some [] else
    (s.splitOn ";").mapM fun t =>
      match t.splitOn "=" with
      | [g, v] => do some (← parseGr g, ← parseVal v)
      | _ => none

def kvs (toks : List String) (key : String) : Option String :=
  toks.findSome? fun t =>
    match t.splitOn "=" with
    | [k, v] => if k = key then some v else none
    | _ => none

def parseCalls (dir : String) (s : String) : Option (List (Call Nat)) := do
  let ids ← parseIds s
  match dir with
  | "up" => some (ids.map Call.up)
  | "down" => some (ids.map fun i => Call.down i none)
  | _ => none

def step (c : Ctx) (line : String) : Ctx × String :=
  let toks := (line.trimAscii.toString.splitOn " ").filter (· ≠ "")
  let bad := (c, "e BadOp")
  match toks with
  | ["reset"] => ({}, "ok")
  | "node" :: id :: kind :: rest =>
    match id.toNat?, parseKind kind, (kvs rest "a").bind parseRat, (kvs rest "b").bind parseRat,
          (kvs rest "t").bind (·.toNat?), (kvs rest "ops").bind parseOps,
          (kvs rest "pre").bind parseIds, (kvs rest "post").bind parseIds,
          (kvs rest "pidx").bind (·.toNat?) with
    | some i, some k, some a, some b, some t, some ops, some pre, some post, some pidx =>
      let n : Node Nat Q :=
        { kind := k, ops := ops.map (·.1), ws := ops.map (·.2), bias := b, alpha := a,
          transparent := t != 0, pre := pre, post := post, postIdx := pidx != 0 }
      ({ c with nodes := c.nodes.filter (·.1 != i) ++ [(i, n)],
                vals := c.vals.filter (·.1 != i) ++ [(i, ⟨0, 1⟩)] }, "ok")
    | _, _, _, _, _, _, _, _, _ => bad
  | ["set", id, l, u] =>
    match id.toNat?, parseRat l, parseRat u with
    | some i, some l, some u =>
      ({ c with vals := c.vals.filter (·.1 != i) ++ [(i, ⟨l, u⟩)],
                leaves := c.leaves.filter (·.1 != i) ++ [(i, ⟨l, u⟩)] }, "ok")
    | _, _, _ => bad
  | ["resetb"] =>
    -- `Model.reset_bounds`: every formula returns to its asserted data (default: unknown)
    ({ c with vals := c.nodes.map fun p =>
        (p.1, match c.leaves.find? (·.1 == p.1) with | some l => l.2 | none => ⟨0, 1⟩) }, "ok")
  | ["up", id] =>
    match id.toNat? with
    | some i =>
      let r := runSteps c.kb (callUp c.kb i) c.state
      (c.setState r.1, s!"r {showRat r.2}")
    | none => bad
  | ["down", id, idx] =>
    match id.toNat?, parseOptNat idx with
    | some i, some k =>
      let r := runSteps c.kb (callDown c.kb i k) c.state
      (c.setState r.1, s!"r {showRat r.2}")
    | _, _ => bad
  | ["pass", dir, ids] =>
    match parseCalls dir ids with
    | some calls =>
      let r := runPass c.kb calls c.state
      (c.setState r.1, s!"r {showRat r.2}")
    | none => bad
  | ["infer", eps, mx, query, conv, ups, downs] =>
    match parseRat eps, mx.toNat?, parseOptNat query, conv.toNat?, parseCalls "up" ups,
          parseCalls "down" downs with
    | some eps, some mx, some q, some cv, some u, some d =>
      let cfg : InferCfg Nat Q := { up := u, down := d, eps := eps, query := q, converge := cv != 0 }
      let r := infer c.kb cfg mx c.state
      (c.setState r.state, s!"n {r.steps} {showRat r.total} {if r.converged then 1 else 0}")
    | _, _, _, _, _, _ => bad
  | ["dump", ids] =>
    match parseIds ids with
    | some l => (c, "d " ++ " ".intercalate (l.map fun i => showB (c.state i)))
    | none => bad
  | ["contra", ids] =>
    match parseIds ids with
    | some l => (c, s!"c {if hasContra c.kb l c.state then 1 else 0}")
    | none => bad
  | "fnode" :: id :: kind :: rest =>
    match id.toNat?, parseFKind kind, (kvs rest "a").bind parseRat, (kvs rest "b").bind parseRat,
          (kvs rest "t").bind (·.toNat?), (kvs rest "ops").bind parseOps,
          (kvs rest "maps").bind parseMaps, (kvs rest "world").bind parseB,
          (kvs rest "free").bind parseGr, (kvs rest "fg").bind (·.toNat?),
          (kvs rest "nested").bind (·.toNat?), (kvs rest "prop").bind (·.toNat?) with
    | some i, some k, some a, some b, some t, some ops, some maps, some w, some free, some fg,
      some nested, some prop =>
      let n : FNode Nat Q :=
        { kind := k, ops := ops.map (·.1), ws := ops.map (·.2), bias := b, alpha := a,
          transparent := t != 0, opmap := maps, world := w, free := free, fullyGrounded := fg != 0,
          nested := nested != 0 }
      -- a formula without variables (fully quantified) holds the single empty grounding
      let t0 : Table Q := if prop != 0 then [⟨[], w, w⟩] else []
      ({ c with fnodes := c.fnodes.filter (·.1 != i) ++ [(i, n)],
                tabs := c.tabs.filter (·.1 != i) ++ [(i, t0)],
                props := if prop != 0 then i :: c.props else c.props.filter (· != i) }, "ok")
    | _, _, _, _, _, _, _, _, _, _, _, _ => bad
  | ["fact", id, g, l, u] =>
    match id.toNat?, parseGr g, parseRat l, parseRat u with
    | some i, some g, some l, some u =>
      let s := c.fstate
      (c.setFState (s.set i (Table.addData (c.fkb i).world (s.get i) g ⟨l, u⟩)), "ok")
    | _, _, _, _ => bad
  | ["fup", id] =>
    match id.toNat? with
    | some i => let r := pUp c.fkb i c.pstate; (c.setPState r.1, s!"r {showRat r.2}")
    | none => bad
  | ["fdown", id, idx] =>
    match id.toNat?, parseOptNat idx with
    | some i, some k => let r := pDown c.fkb i k c.pstate; (c.setPState r.1, s!"r {showRat r.2}")
    | _, _ => bad
  | ["fupg", id, gs] =>
    -- upward(groundings=…): `gs` = groundings separated by ';'
    match id.toNat?, (gs.splitOn ";").mapM parseGr with
    | some i, some l => let r := pUpR c.fkb i (some l) c.pstate; (c.setPState r.1, s!"r {showRat r.2}")
    | _, _ => bad
  | ["fdowng", id, idx, gs] =>
    match id.toNat?, parseOptNat idx, (gs.splitOn ";").mapM parseGr with
    | some i, some k, some l => let r := pDownR c.fkb i k (some l) c.pstate; (c.setPState r.1, s!"r {showRat r.2}")
    | _, _, _ => bad
  | ["fpass", dir, ids] =>
    match parseFCalls dir ids with
    | some calls => let r := runPCalls c.fkb calls c.pstate; (c.setPState r.1, s!"r {showRat r.2}")
    | none => bad
  | ["finfer", eps, mx, nodes, ups, downs] =>
    match parseRat eps, mx.toNat?, parseIds nodes, parseFCalls "up" ups, parseFCalls "down" downs with
    | some eps, some mx, some nodes, some u, some d =>
      let r := pInfer c.fkb nodes u d eps mx c.pstate
      (c.setPState r.state, s!"n {r.steps} {showRat r.total} {if r.converged then 1 else 0}")
    | _, _, _, _, _ => bad
  | ["finfer", eps, mx, nodes, ups, downs, qry] =>
    -- restricted to a query that stops inference once classically resolved
    match parseRat eps, mx.toNat?, parseIds nodes, parseFCalls "up" ups, parseFCalls "down" downs, qry.toNat? with
    | some eps, some mx, some nodes, some u, some d, some q =>
      let r := pInferQ c.fkb nodes u d eps (some q) mx c.pstate
      (c.setPState r.state, s!"n {r.steps} {showRat r.total} {if r.converged then 1 else 0}")
    | _, _, _, _, _, _ => bad
  | ["ftab", ids] =>
    match parseIds ids with
    | some l => (c, "t " ++ " ".intercalate (l.map fun i => showTab i (c.fstate.get i)))
    | none => bad
  | ["fkeys", ids] =>
    match parseIds ids with
    | some l => (c, "g " ++ " ".intercalate (l.map fun i =>
        s!"{i}:" ++ ";".intercalate ((sortRows (c.fstate.get i)).map fun r => showGr r.g)))
    | none => bad
  | ["fget", id, g] =>
    match id.toNat?, parseGr g with
    | some i, some g => (c, s!"b {showB (Table.getD (c.fkb i).world (c.fstate.get i) g)}")
    | _, _ => bad
  | ["fcontra", ids] =>
    match parseIds ids with
    | some l => (c, s!"c {if fHasContra c.fkb l c.fstate then 1 else 0}")
    | none => bad
  | ["sadd", id, mode, arg] =>
    -- `Model.add_data({formula: arg})`; id `-` = the key is not a Formula, unknown id = not in the model
    if id = "-" then (c, "e TypeError") else
    match id.toNat? with
    | none => bad
    | some i =>
      if !(c.fnodes.any (·.1 == i)) then (c, "e Exception") else
      let darg : Option (DataArg Q) :=
        if mode = "single" then (parseVal arg).map .single
        else if mode = "dict" then (parseEntries arg).map .perGrounding else none
      match darg with
      | none => bad
      | some d =>
        let s := c.fstate
        match addDataChecked (c.props.contains i) (c.fkb i).world (s.get i) d with
        | .ok t => (c.setFState (s.set i t), "ok")
        | .error e => (c, "e " ++ e.toString)
  | ["fflush"] =>
    let s := c.fstate
    (c.setFState ⟨s.tabs.map fun p => (p.1, flushTable p.2)⟩, "ok")
  | ["fworld", id, w] =>
    match id.toNat?, parseB w with
    | some i, some w =>
      match c.fnodes.find? (·.1 == i) with
      | none => bad
      | some p =>
        let n := { p.2 with world := w }
        let s := c.fstate
        let c' := { c with fnodes := c.fnodes.map fun (q : Nat × FNode Nat Q) => if q.1 == i then (i, n) else q }
        (c'.setFState (s.set i (resetWorldTable w (s.get i))), "ok")
    | _, _ => bad
  | ["fstate", id, g] =>
    match id.toNat?, parseGr g with
    | some i, some g =>
      (c, s!"s {(state (c.fkb i).alpha (Table.getD (c.fkb i).world (c.fstate.get i) g)).toString}")
    | _, _ => bad
  | ["floss", kind, coeff, ids] =>
    -- `_contradiction_loss` (per row) / `_uncertainty_loss` (one contradiction flag per formula) summed over formulae
    match parseRat coeff, parseIds ids with
    | some k, some l =>
      let s := c.fstate
      let v : Q := (l.map fun i =>
        let a := (c.fkb i).alpha
        let rows := s.get i
        if kind = "c" then (rows.map fun r => contradictionLoss k a r.b).sum
        else if rows.any (fun r => isContra a r.b) then 0 else (rows.map fun r => k * (r.b.hi - r.b.lo)).sum).sum
      (c, s!"l {showRat v}")
    | _, _ => bad
  | ["fresetb"] =>
    let s := c.fstate
    (c.setFState ⟨s.tabs.map fun p => (p.1, p.2.resetBounds)⟩, "ok")
  | "train" :: rest =>
    -- Model.train with a scripted optimiser; see harness/train.py for the line format
    match (kvs rest "steps").bind (·.toNat?), (kvs rest "eps").bind parseRat, (kvs rest "max").bind (·.toNat?),
          (kvs rest "up").bind (parseCalls "up"), (kvs rest "down").bind (parseCalls "down"),
          (kvs rest "nodes").bind parseIds, (kvs rest "pnodes").bind parseIds, (kvs rest "negw").bind parseIds,
          (kvs rest "closs"), (kvs rest "sloss"), (kvs rest "uloss"), (kvs rest "labels"), (kvs rest "script") with
    | some steps, some eps, some mx, some up, some down, some nodes, some pnodes, some negw, some cl, some sl, some ul,
      some labels, some script =>
      let optQ := fun (t : String) => if t = "-" then some (none : Option Q) else (parseRat t).map some
      let labs : Option (List (Nat × Bounds Q)) :=
        if labels = "-" then some [] else (labels.splitOn ";").mapM fun t =>
          match t.splitOn ":" with
          | [i, b] => do some (← i.toNat?, ← parseB b)
          | _ => none
      -- script entries `epoch:id:db:dw,dw`
      let scr : Option (List (Nat × Nat × Q × List Q)) :=
        if script = "-" then some [] else (script.splitOn "~").mapM fun t =>
          match t.splitOn ":" with
          | [e, i, db, dws] => do
            let dw ← if dws = "" then some [] else (dws.splitOn ",").mapM parseRat
            some (← e.toNat?, ← i.toNat?, ← parseRat db, dw)
          | _ => none
      match optQ cl, optQ sl, optQ ul, labs, scr with
      | some cl, some sl, some ul, some labs, some scr =>
        let skel := c.kb
        let p0 : Params Nat Q := ⟨fun i => (skel i).ws, fun i => (skel i).bias⟩
        let opt := fun (e : Nat) (p : Params Nat Q) (_ : State Nat Q) =>
          (⟨fun i => match scr.find? (fun t => t.1 == e && t.2.1 == i) with
                     | some t => List.zipWith (· + ·) (p.w i) t.2.2.2
                     | none => p.w i,
            fun i => match scr.find? (fun t => t.1 == e && t.2.1 == i) with
                     | some t => p.b i + t.2.2.1
                     | none => p.b i⟩ : Params Nat Q)
        let icfg : InferCfg Nat Q := { up := up, down := down, eps := eps }
        let cfg : TrainCfg Nat Q := { skel := skel, negW := fun i => negw.contains i, infer := icfg, fuel := mx, opt := opt }
        let leaves : State Nat Q := fun i =>
          match c.leaves.find? (·.1 == i) with | some l => l.2 | none => ⟨0, 1⟩
        let tab := fun (p : Params Nat Q) => (nodes.map fun i => (i, p.w i, p.b i))
        let untab := fun (l : List (Nat × List Q × Q)) => (⟨fun i => match l.find? (·.1 == i) with
              | some t => t.2.1 | none => (skel i).ws,
            fun i => match l.find? (·.1 == i) with | some t => t.2.2 | none => (skel i).bias⟩ : Params Nat Q)
        let showP := fun (p : Params Nat Q) =>
          " ".intercalate (pnodes.map fun i =>
            s!"{i}:{showRat (p.b i)}:{",".intercalate ((p.w i).map showRat)}")
        let lossesOf := fun (p : Params Nat Q) (s : State Nat Q) =>
          let kb := kbOf skel p
          let parts := [cl.map fun k => totalContradictionLoss k kb nodes s,
                        sl.map fun k => totalSupervisedLoss k labs s,
                        ul.map fun k => totalUncertaintyLoss k kb nodes s]
          ",".intercalate (parts.filterMap fun o => o.map showRat)
        -- run epoch by epoch, re-tabulating parameters (keeps closures shallow)
        let rec go (e k : Nat) (p : Params Nat Q) (acc : List String) : Params Nat Q × List String :=
          match k with
          | 0 => (p, acc)
          | k + 1 =>
            let t := epoch cfg e ⟨p, leaves, leaves⟩
            let p' := untab (tab t.params)
            go (e + 1) k p' (acc ++ [lossesOf p t.cur ++ ";" ++ showP p'])
        let (pf, acc) := go 0 steps (untab (tab p0)) []
        let fin := train cfg 0 ⟨pf, leaves, leaves⟩
        let c' := c.setState fin.cur
        (c', "T " ++ " | ".intercalate acc ++ " || " ++ " ".intercalate (nodes.map fun i => showB (c'.state i)))
      | _, _, _, _, _ => bad
    | _, _, _, _, _, _, _, _, _, _, _, _, _ => bad
  | ["proj", negw, b, ws] =>
    -- `project_params` of one neuron
    match negw.toNat?, parseRat b, (if ws = "" then some [] else (ws.splitOn ",").mapM parseRat) with
    | some nw, some b, some ws =>
      let p := project (fun (_ : Nat) => nw != 0) (⟨fun _ => ws, fun _ => b⟩ : Params Nat Q)
      (c, s!"p {showRat (p.b 0)} {",".intercalate ((p.w 0).map showRat)}")
    | _, _, _ => bad
  | ["vclamp", x] =>
    match parseRat x with
    | some x => let d := Dual.valClamp (⟨x, 1⟩ : Dual Q); (c, s!"g {showRat d.val} {showRat d.tan}")
    | none => bad
  | ["grad", kind, b, ws, xs] =>
    -- value of the upward activation on point inputs and its gradient w.r.t. bias, every weight, every input
    match parseRat b, (ws.splitOn ",").mapM parseRat, (xs.splitOn ",").mapM parseRat with
    | some b, some ws, some xs =>
      let n := ws.length
      let eval := fun (db : Q) (dw dx : Nat → Q) =>
        let bd : Dual Q := ⟨b, db⟩
        let wd := (List.zip (List.range n) ws).map fun p => (⟨p.2, dw p.1⟩ : Dual Q)
        let xd := (List.zip (List.range n) xs).map fun p => (⟨p.2, dx p.1⟩ : Dual Q)
        match kind with
        | "and" => some (Dual.andUpD bd wd xd)
        | "or" => some (Dual.orUpD bd wd xd)
        | "implies" =>
          match wd, xd with
          | [w0, w1], [x, y] => some (Dual.impUpD bd w0 w1 x y)
          | _, _ => none
        | _ => none
      let zero := fun (_ : Nat) => (0 : Q)
      let unit := fun (k : Nat) (j : Nat) => if j = k then (1 : Q) else 0
      match eval 1 zero zero with
      | none => bad
      | some d0 =>
        let dws := (List.range n).map fun k => ((eval 0 (unit k) zero).map (·.tan)).getD 0
        let dxs := (List.range n).map fun k => ((eval 0 zero (unit k)).map (·.tan)).getD 0
        (c, s!"g {showRat d0.val} {showRat d0.tan} {",".intercalate (dws.map showRat)} {",".intercalate (dxs.map showRat)}")
    | _, _, _ => bad
  | ["state", a, l, u] =>
    match parseRat a, parseRat l, parseRat u with
    | some a, some l, some u =>
      (c, s!"s {(state a ⟨l, u⟩).toString} {if isContra a ⟨l, u⟩ then 1 else 0}")
    | _, _, _ => bad
  | _ => bad

partial def loop (h : IO.FS.Stream) (out : IO.FS.Stream) (c : Ctx) : IO Unit := do
  let line ← h.getLine
  if line.isEmpty then return ()
  let (c', o) := step c line
  out.putStrLn o
  loop h out c'

def main : IO Unit := do
  let out ← IO.getStdout
  loop (← IO.getStdin) out {}
