/-
C06 — `infer()` terminates, and where it stops is a genuine fixpoint.

`Model._infer` repeats sweeps (an upward pass followed by a downward pass) until a sweep reports a
total change `≤ eps`. For every knowledge base and every state with bounds in `[0,1]`:

* **fixpoint**: a sweep that reports `0` left *every* upward and downward step of *every* formula
  of both schedules the identity on that state (`C06_sweep_zero_fix`); calling `infer` again then
  reports zero updates and changes nothing (`C06_infer_again`); if reported amounts lie on a grid
  of spacing `g > eps` — exactly representable bounds and the code's threshold `1e-7` — then
  "`≤ eps`" already means "`= 0`" (`C06_grid`), so a converged `infer` ends in such a fixpoint
  (`C06_fixpoint`, `C06_fixpoint_grid`, `C06_fixpoint_eps_zero`);
* **termination**: every write only tightens, so the amount a sweep reports is *exactly* the loss
  of the potential `Φ = Σ_{i ∈ nodes} (Uᵢ - Lᵢ)`; `Φ` lies in `[-N, N]` (`N` nodes, widths in
  `[-1, 1]` because crossed bounds are possible), each non-final sweep loses more than `eps`, hence
  `infer` converges within any step limit `fuel` with `Φ(s) + N < fuel · eps`, in particular with
  `2 N < fuel · eps` (`C06_terminates`, `C06_terminates_two_N`); over an Archimedean field such a
  limit exists (`C06_terminates_exists`), and more fuel does not change the result
  (`C06_fuel_stable`). The constant `2 N` cannot be replaced by `N` (`C06_N_is_not_enough`).

`nodes` is any duplicate-free list outside which a sweep changes nothing; it suffices that it
contains the node of every upward step and the operands of every downward step of the two
schedules (`C06_frame_of_targets`).
-/
import LnnVerif.Lemmas.Basic
import Mathlib.Algebra.Order.Field.Rat
import Mathlib.Algebra.Order.Archimedean.Basic
import Mathlib.Tactic.NormNum
import LnnVerif.Lemmas.PendLemmas
import LnnVerif.Lemmas.FolFix

set_option linter.unusedSectionVars false

namespace LNN

variable {ι : Type} [DecidableEq ι] {α : Type} [Field α] [LinearOrder α] [IsStrictOrderedRing α]

/-! ### fixpoint -/

/-- **(a)** A sweep that reports zero changed nothing, and every primitive step of both passes —
every upward and downward step of every formula in the schedules, inner steps of composites
included — is the identity on that state. -/
theorem C06_sweep_zero_fix (kb : KB ι α) (cfg : InferCfg ι α) (s : State ι α)
    (hs : StateInUnit s) (h0 : (sweep kb cfg s).2 = 0) :
    (sweep kb cfg s).1 = s ∧
      ∀ st ∈ passSteps kb cfg.up ++ passSteps kb cfg.down, (runStep kb st s).1 = s := by
  have hu := runPass_writes kb cfg.up s
  have hd := runPass_writes kb cfg.down (runPass kb cfg.up s).1
  have hsum : (runPass kb cfg.up s).2 + (runPass kb cfg.down (runPass kb cfg.up s).1).2 = 0 := h0
  obtain ⟨e1, e2⟩ := (add_eq_zero_iff_of_nonneg hu.nonneg hd.nonneg).mp hsum
  have f1 : (runPass kb cfg.up s).1 = s := (hu.zero_iff hs).mp e1
  have f2 : (runPass kb cfg.down s).1 = s := by
    rw [f1] at e2 hd
    exact (hd.zero_iff hs).mp e2
  refine ⟨?_, ?_⟩
  · show (runPass kb cfg.down (runPass kb cfg.up s).1).1 = s
    rw [f1, f2]
  · intro st hst
    rcases List.mem_append.mp hst with h | h
    · exact (runSteps_eq_self_iff kb _ s hs).mp f1 st h
    · exact (runSteps_eq_self_iff kb _ s hs).mp f2 st h

/-- conversely, a state fixed by every step of both passes makes the sweep report zero -/
theorem C06_sweep_zero_of_fix (kb : KB ι α) (cfg : InferCfg ι α) (s : State ι α)
    (hs : StateInUnit s)
    (h : ∀ st ∈ passSteps kb cfg.up ++ passSteps kb cfg.down, (runStep kb st s).1 = s) :
    (sweep kb cfg s).2 = 0 := by
  have f1 : (runPass kb cfg.up s).1 = s :=
    (runSteps_eq_self_iff kb _ s hs).mpr (fun st hst => h st (List.mem_append_left _ hst))
  have f2 : (runPass kb cfg.down s).1 = s :=
    (runSteps_eq_self_iff kb _ s hs).mpr (fun st hst => h st (List.mem_append_right _ hst))
  apply ((sweep_writes kb cfg s).zero_iff hs).mpr
  show (runPass kb cfg.down (runPass kb cfg.up s).1).1 = s
  rw [f1, f2]

/-- **(b)** After a sweep that reported zero, calling `infer` again (any step limit `≥ 1`) performs
one sweep, reports zero updates, changes nothing and declares convergence. -/
theorem C06_infer_again (kb : KB ι α) (cfg : InferCfg ι α) (s : State ι α) (hs : StateInUnit s)
    (h0 : (sweep kb cfg s).2 = 0) (heps : 0 ≤ cfg.eps) (hq : queryStop cfg s = false)
    (fuel : Nat) :
    (infer kb cfg (fuel + 1) s).state = s ∧ (infer kb cfg (fuel + 1) s).total = 0 ∧
      (infer kb cfg (fuel + 1) s).steps = 1 ∧ (infer kb cfg (fuel + 1) s).converged = true := by
  have hle : (sweep kb cfg s).2 ≤ cfg.eps := by rw [h0]; exact heps
  have e : infer kb cfg (fuel + 1) s = ⟨(sweep kb cfg s).1, 1, (sweep kb cfg s).2, true⟩ := by
    rw [infer]
    simp only [hq, Bool.false_eq_true, if_false, hle, if_true]
  rw [e]
  exact ⟨(C06_sweep_zero_fix kb cfg s hs h0).1, h0, rfl, rfl⟩

/-- **(c)** On a grid of spacing `g > eps` "at most `eps`" means "zero". -/
theorem C06_grid (kb : KB ι α) (cfg : InferCfg ι α) (s : State ι α) (g : α)
    (hg : cfg.eps < g) (heps : 0 ≤ cfg.eps) (hgrid : ∃ k : ℕ, (sweep kb cfg s).2 = k * g)
    (hle : (sweep kb cfg s).2 ≤ cfg.eps) : (sweep kb cfg s).2 = 0 := by
  obtain ⟨k, hk⟩ := hgrid
  rcases Nat.eq_zero_or_pos k with h | h
  · rw [hk, h]; simp
  · exfalso
    have h1 : (1:α) ≤ k := by exact_mod_cast h
    have hgpos : 0 < g := lt_of_le_of_lt heps hg
    have : g ≤ k * g := by nlinarith
    linarith

/-- a converged `infer` run ended with a sweep, started from an in-range state at least as tight
as the initial one, that reported at most `eps` -/
theorem C06_converged_last_sweep (kb : KB ι α) (cfg : InferCfg ι α) (fuel : Nat) (s : State ι α)
    (hs : StateInUnit s) (hc : (infer kb cfg fuel s).converged = true) :
    ∃ t, StateInUnit t ∧ Tighter s t ∧ (sweep kb cfg t).1 = (infer kb cfg fuel s).state ∧
      (sweep kb cfg t).2 ≤ cfg.eps := by
  induction fuel generalizing s with
  | zero => simp [infer] at hc
  | succ n ih =>
    rw [infer] at hc ⊢
    split at hc
    · simp at hc
    next hq =>
      rw [if_neg hq]
      simp only at hc ⊢
      split at hc
      next hle =>
        rw [if_pos hle]
        exact ⟨s, hs, Tighter.refl s, rfl, hle⟩
      next hle =>
        rw [if_neg hle]
        have hw := sweep_writes kb cfg s
        obtain ⟨t, ht, htt, e1, e2⟩ := ih _ (hw.inUnit hs) hc
        exact ⟨t, ht, (hw.tighter hs).trans htt, e1, e2⟩

/-- **Fixpoint.** If "reported `≤ eps`" forces "reported `= 0`" (see `C06_grid`), the state returned
by a converged `infer` is a fixpoint of every step of both schedules, and the last sweep changed
nothing. -/
theorem C06_fixpoint (kb : KB ι α) (cfg : InferCfg ι α) (fuel : Nat) (s : State ι α)
    (hs : StateInUnit s) (hc : (infer kb cfg fuel s).converged = true)
    (hzero : ∀ t, StateInUnit t → (sweep kb cfg t).2 ≤ cfg.eps → (sweep kb cfg t).2 = 0) :
    (sweep kb cfg (infer kb cfg fuel s).state).1 = (infer kb cfg fuel s).state ∧
    (sweep kb cfg (infer kb cfg fuel s).state).2 = 0 ∧
    ∀ st ∈ passSteps kb cfg.up ++ passSteps kb cfg.down,
      (runStep kb st (infer kb cfg fuel s).state).1 = (infer kb cfg fuel s).state := by
  obtain ⟨t, ht, _, e1, e2⟩ := C06_converged_last_sweep kb cfg fuel s hs hc
  have h0 := hzero t ht e2
  obtain ⟨f1, f2⟩ := C06_sweep_zero_fix kb cfg t ht h0
  have e : (infer kb cfg fuel s).state = t := by rw [← e1, f1]
  rw [e]
  exact ⟨f1, h0, f2⟩

/-- with threshold `0` (or below) convergence is always at a fixpoint -/
theorem C06_fixpoint_eps_zero (kb : KB ι α) (cfg : InferCfg ι α) (fuel : Nat) (s : State ι α)
    (hs : StateInUnit s) (hc : (infer kb cfg fuel s).converged = true) (heps : cfg.eps ≤ 0) :
    ∀ st ∈ passSteps kb cfg.up ++ passSteps kb cfg.down,
      (runStep kb st (infer kb cfg fuel s).state).1 = (infer kb cfg fuel s).state :=
  (C06_fixpoint kb cfg fuel s hs hc
    (fun t _ h => le_antisymm (le_trans h heps) (sweep_writes kb cfg t).nonneg)).2.2

/-- with amounts on a grid coarser than the threshold convergence is always at a fixpoint -/
theorem C06_fixpoint_grid (kb : KB ι α) (cfg : InferCfg ι α) (fuel : Nat) (s : State ι α)
    (hs : StateInUnit s) (hc : (infer kb cfg fuel s).converged = true) (g : α)
    (hg : cfg.eps < g) (heps : 0 ≤ cfg.eps)
    (hgrid : ∀ t, StateInUnit t → ∃ k : ℕ, (sweep kb cfg t).2 = k * g) :
    ∀ st ∈ passSteps kb cfg.up ++ passSteps kb cfg.down,
      (runStep kb st (infer kb cfg fuel s).state).1 = (infer kb cfg fuel s).state :=
  (C06_fixpoint kb cfg fuel s hs hc
    (fun t ht h => C06_grid kb cfg t g hg heps (hgrid t ht) h)).2.2

/-! ### termination -/

/-- the amount a sweep reports is exactly the loss of potential -/
theorem C06_sweep_amount_eq (kb : KB ι α) (cfg : InferCfg ι α) (nodes : List ι)
    (hnd : nodes.Nodup) (s : State ι α) (hs : StateInUnit s)
    (hframe : ∀ j, j ∉ nodes → (sweep kb cfg s).1 j = s j) :
    (sweep kb cfg s).2 = Phi nodes s - Phi nodes (sweep kb cfg s).1 :=
  (sweep_writes kb cfg s).potential_eq hs nodes hnd hframe

/-- a syntactic sufficient condition for the frame hypothesis of the termination theorems -/
theorem C06_frame_of_targets (kb : KB ι α) (cfg : InferCfg ι α) (nodes : List ι)
    (hall : ∀ st ∈ passSteps kb cfg.up ++ passSteps kb cfg.down, ∀ j ∈ st.targets kb, j ∈ nodes)
    (t : State ι α) (j : ι) (hj : j ∉ nodes) : (sweep kb cfg t).1 j = t j := by
  show (runSteps kb (passSteps kb cfg.down) (runSteps kb (passSteps kb cfg.up) t).1).1 j = t j
  rw [runSteps_frame kb _ _ j (fun st hst hm => hj (hall st (List.mem_append_right _ hst) j hm)),
    runSteps_frame kb _ _ j (fun st hst hm => hj (hall st (List.mem_append_left _ hst) j hm))]

theorem queryStop_false (cfg : InferCfg ι α) (hq : cfg.query = none ∨ cfg.converge = true)
    (s : State ι α) : queryStop cfg s = false := by
  unfold queryStop
  rcases hq with h | h
  · rw [h]
  · split
    · simp [h]
    · rfl

/-- **Termination.** Without the early query exit, `infer` converges within any step limit `fuel`
such that `Φ(s) + N < fuel · eps` (which forces `0 < eps`, because `0 ≤ Φ(s) + N`). -/
theorem C06_terminates (kb : KB ι α) (cfg : InferCfg ι α) (nodes : List ι) (hnd : nodes.Nodup)
    (hq : cfg.query = none ∨ cfg.converge = true)
    (hframe : ∀ t, StateInUnit t → ∀ j, j ∉ nodes → (sweep kb cfg t).1 j = t j)
    (s : State ι α) (hs : StateInUnit s) (fuel : Nat)
    (hfuel : Phi nodes s + nodes.length < fuel * cfg.eps) :
    (infer kb cfg fuel s).converged = true := by
  induction fuel generalizing s with
  | zero =>
    exfalso
    have := (Phi_bounds nodes s hs).1
    simp only [Nat.cast_zero, zero_mul] at hfuel
    linarith
  | succ n ih =>
    rw [infer, queryStop_false cfg hq s]
    simp only [Bool.false_eq_true, if_false]
    split
    · rfl
    next hle =>
      have hw := sweep_writes kb cfg s
      have hrep := C06_sweep_amount_eq kb cfg nodes hnd s hs (hframe s hs)
      have hgt : cfg.eps < (sweep kb cfg s).2 := not_le.mp hle
      apply ih _ (hw.inUnit hs)
      push_cast at hfuel
      linarith

/-- in particular `2 N < fuel · eps` is enough, whatever the initial state -/
theorem C06_terminates_two_N (kb : KB ι α) (cfg : InferCfg ι α) (nodes : List ι)
    (hnd : nodes.Nodup) (hq : cfg.query = none ∨ cfg.converge = true)
    (hframe : ∀ t, StateInUnit t → ∀ j, j ∉ nodes → (sweep kb cfg t).1 j = t j)
    (s : State ι α) (hs : StateInUnit s) (fuel : Nat)
    (hfuel : 2 * (nodes.length : α) < fuel * cfg.eps) :
    (infer kb cfg fuel s).converged = true := by
  apply C06_terminates kb cfg nodes hnd hq hframe s hs fuel
  have := (Phi_bounds nodes s hs).2
  linarith

/-- over an Archimedean field (ℚ, ℝ) a sufficient step limit exists -/
theorem C06_terminates_exists [Archimedean α] (kb : KB ι α) (cfg : InferCfg ι α)
    (nodes : List ι) (hnd : nodes.Nodup) (heps : 0 < cfg.eps)
    (hq : cfg.query = none ∨ cfg.converge = true)
    (hframe : ∀ t, StateInUnit t → ∀ j, j ∉ nodes → (sweep kb cfg t).1 j = t j)
    (s : State ι α) (hs : StateInUnit s) :
    ∃ fuel, (infer kb cfg fuel s).converged = true := by
  obtain ⟨n, hn⟩ := exists_nat_gt ((Phi nodes s + nodes.length) / cfg.eps)
  refine ⟨n, C06_terminates kb cfg nodes hnd hq hframe s hs n ?_⟩
  rwa [div_lt_iff₀ heps] at hn

/-- once converged, a larger step limit gives the very same result -/
theorem C06_fuel_stable (kb : KB ι α) (cfg : InferCfg ι α) (fuel : Nat) (s : State ι α)
    (hc : (infer kb cfg fuel s).converged = true) (k : Nat) :
    infer kb cfg (fuel + k) s = infer kb cfg fuel s := by
  induction fuel generalizing s with
  | zero => simp [infer] at hc
  | succ n ih =>
    rw [Nat.add_right_comm, infer, infer]
    rw [infer] at hc
    split
    · rfl
    next hq =>
      rw [if_neg hq] at hc
      simp only at hc ⊢
      split
      · rfl
      next hle =>
        rw [if_neg hle] at hc
        rw [ih _ hc]

/-- the number of sweeps executed never exceeds the step limit -/
theorem C06_steps_le_fuel (kb : KB ι α) (cfg : InferCfg ι α) (fuel : Nat) (s : State ι α) :
    (infer kb cfg fuel s).steps ≤ fuel := by
  induction fuel generalizing s with
  | zero => simp [infer]
  | succ n ih =>
    rw [infer]
    split
    · exact Nat.zero_le _
    · simp only
      split
      · exact Nat.succ_le_succ (Nat.zero_le _)
      · exact Nat.succ_le_succ (ih _)

/-! ### non-vacuity over `ℚ` -/

def c06KB : KB Nat ℚ := fun i =>
  match i with
  | 2 => { kind := .and, ops := [0, 1], ws := [1/2, 2], bias := 1, alpha := 1 }
  | _ => { kind := .atom, bias := 1, alpha := 1 }

def c06Cfg : InferCfg Nat ℚ := { up := [Call.up 2], down := [Call.down 2 none], eps := 1/100 }

def c06S : State Nat ℚ := fun i =>
  match i with
  | 0 => ⟨1/2, 1/2⟩ | 1 => ⟨1/2, 1⟩ | 2 => ⟨1/4, 1⟩ | _ => ⟨0, 1⟩

/-- where inference from `c06S` ends -/
def c06T : State Nat ℚ := fun i =>
  match i with
  | 0 => ⟨1/2, 1/2⟩ | 1 => ⟨3/4, 1⟩ | 2 => ⟨1/4, 3/4⟩ | _ => ⟨0, 1⟩

theorem c06S_unit : StateInUnit c06S := by
  intro i
  unfold c06S InUnit
  split <;> norm_num

theorem c06T_unit : StateInUnit c06T := by
  intro i
  unfold c06T InUnit
  split <;> norm_num

theorem c06_frame (t : State Nat ℚ) (j : Nat) (hj : j ∉ [0, 1, 2]) :
    (sweep c06KB c06Cfg t).1 j = t j := by
  apply C06_frame_of_targets c06KB c06Cfg [0, 1, 2] _ t j hj
  simp [passSteps, c06Cfg, Call.steps, callUp, callDown, c06KB, Step.targets]

/-- every hypothesis of the termination theorem is met by this instance -/
example : (infer c06KB c06Cfg 426 c06S).converged = true := by
  apply C06_terminates c06KB c06Cfg [0, 1, 2] (by decide) (Or.inl rfl)
    (fun t _ j hj => c06_frame t j hj) c06S c06S_unit
  simp [Phi, c06S, c06Cfg]; norm_num

/-- the upward step from `c06S` tightens node 2 from `[1/4,1]` to `[1/4,3/4]` and reports `1/4` -/
theorem c06S_up :
    runStep c06KB (Step.up 2) c06S = (Function.update c06S 2 ⟨1/4, 3/4⟩, 1/4) := by
  simp [runStep, stepUp, c06KB, c06S, arrested, isContra, region, actUp, andUp, opds, aggregate,
    clamp01, termHi, termLo]
  norm_num

/-- the following downward step reports another `1/4` -/
theorem c06S_down :
    (runStep c06KB (Step.down 2 none) (Function.update c06S 2 ⟨1/4, 3/4⟩)).2 = 1/4 := by
  simp [runStep, stepDown, c06KB, c06S, arrested, isContra, region, actDown, andDown, opds,
    writeOps, enumFrom, aggregate, clamp01, termHi, termLo, sumW, Function.update]
  norm_num

/-- so the first sweep from `c06S` is not idle: it reports `1/2 > eps` -/
example : (sweep c06KB c06Cfg c06S).2 = 1/2 := by
  have h : (sweep c06KB c06Cfg c06S).2 = (runStep c06KB (Step.up 2) c06S).2 + 0 +
      ((runStep c06KB (Step.down 2 none) (runStep c06KB (Step.up 2) c06S).1).2 + 0) := rfl
  rw [h, c06S_up]
  simp only
  rw [c06S_down]
  norm_num

theorem c06T_up : (runStep c06KB (Step.up 2) c06T).2 = 0 := by
  simp [runStep, stepUp, c06KB, c06T, arrested, isContra, region, actUp, andUp, opds, aggregate,
    clamp01, termHi, termLo]
  norm_num

theorem c06T_down : (runStep c06KB (Step.down 2 none) c06T).2 = 0 := by
  simp [runStep, stepDown, c06KB, c06T, arrested, isContra, region, actDown, andDown, opds,
    writeOps, enumFrom, aggregate, clamp01, termHi, termLo, sumW, Function.update]
  norm_num

/-- a sweep from `c06T` reports zero ... -/
theorem c06T_zero : (sweep c06KB c06Cfg c06T).2 = 0 := by
  apply C06_sweep_zero_of_fix _ _ _ c06T_unit
  intro st hst
  have h : st = Step.up 2 ∨ st = Step.down 2 none := by
    simpa [passSteps, c06Cfg, Call.steps, callUp, callDown, c06KB] using hst
  rcases h with rfl | rfl
  · exact ((runStep_writes _ _ _).zero_iff c06T_unit).mp c06T_up
  · exact ((runStep_writes _ _ _).zero_iff c06T_unit).mp c06T_down

/-- ... so (a) `c06T` is a fixpoint of the upward and of the downward step ... -/
example : (runStep c06KB (Step.up 2) c06T).1 = c06T ∧
    (runStep c06KB (Step.down 2 none) c06T).1 = c06T := by
  have h := (C06_sweep_zero_fix c06KB c06Cfg c06T c06T_unit c06T_zero).2
  exact ⟨h _ (by simp [passSteps, c06Cfg, Call.steps, callUp, c06KB]),
    h _ (by simp [passSteps, c06Cfg, Call.steps, callDown, c06KB])⟩

/-- ... and (b) calling `infer` on it again reports zero and changes nothing -/
example : (infer c06KB c06Cfg 10 c06T).state = c06T ∧ (infer c06KB c06Cfg 10 c06T).total = 0 :=
  let h := C06_infer_again c06KB c06Cfg c06T c06T_unit c06T_zero (by norm_num [c06Cfg]) rfl 9
  ⟨h.1, h.2.1⟩

/-! ### the constant `2 N` cannot be improved to `N`

Crossed bounds have negative width, so one node can lose up to `2` of potential. In the instance
below (a chain `x, ¬x, ¬¬x` scheduled against the flow of information, and two facts `¬x = TRUE`,
`¬x = FALSE` that make `x` contradictory) each of the first three sweeps reports `2`. With
`eps = 19/10` and `N = 3` the step limit `2` satisfies `N < fuel · eps` and yet `infer` has not
converged. -/

def c06xKB : KB Nat ℚ := fun i =>
  match i with
  | 0 => { kind := .atom, bias := 1, alpha := 1 }
  | 1 => { kind := .neg, ops := [0], bias := 1, alpha := 1 }
  | 2 => { kind := .neg, ops := [1], bias := 1, alpha := 1 }
  | _ => { kind := .neg, ops := [0], bias := 1, alpha := 1 }

def c06xCfg : InferCfg Nat ℚ :=
  { up := [Call.up 2, Call.up 1], down := [Call.down 3 none, Call.down 4 none], eps := 19/10 }

def c06xS : State Nat ℚ := fun i =>
  match i with
  | 3 => ⟨1, 1⟩ | 4 => ⟨0, 0⟩ | _ => ⟨0, 1⟩

theorem C06_N_is_not_enough :
    ∃ (kb : KB Nat ℚ) (cfg : InferCfg Nat ℚ) (nodes : List Nat) (s : State Nat ℚ) (fuel : Nat),
      nodes.Nodup ∧ 0 < cfg.eps ∧ cfg.query = none ∧
      (∀ t, StateInUnit t → ∀ j, j ∉ nodes → (sweep kb cfg t).1 j = t j) ∧
      StateInUnit s ∧ (∀ i, (s i).lo ≤ (s i).hi) ∧
      (nodes.length : ℚ) < fuel * cfg.eps ∧ (infer kb cfg fuel s).converged = false := by
  refine ⟨c06xKB, c06xCfg, [0, 1, 2], c06xS, 2, by decide, by norm_num [c06xCfg], rfl, ?_, ?_, ?_,
    by norm_num [c06xCfg], ?_⟩
  · intro t _ j hj
    apply C06_frame_of_targets c06xKB c06xCfg [0, 1, 2] _ t j hj
    simp [passSteps, c06xCfg, Call.steps, callUp, callDown, c06xKB, Step.targets]
  · intro i
    unfold c06xS InUnit
    split <;> norm_num
  · intro i
    unfold c06xS
    split <;> norm_num
  · simp [infer, queryStop, sweep, runPass, passSteps, Call.steps, callUp, callDown, runSteps,
      runStep, stepUp, stepDown, c06xKB, c06xCfg, c06xS, aggregate, clamp01, negB]
    norm_num

/-! ### the executed first-order loop -/

section pend

variable {ι : Type} [DecidableEq ι] {α : Type} [Field α] [LinearOrder α]

/-- `pInfer` (what the driver runs) is `fInfer` on every knowledge base without a partially
quantified operand: same state, sweeps, total and convergence flag -/
theorem C06_pInfer_is_fInfer {kb : FKB ι α} (h : NoQuantParent kb) (nodes : List ι)
    (up down : List (FCall ι)) (eps : α) (fuel : Nat) (s : FState ι α) :
    (pInfer kb nodes up down eps fuel ⟨s, []⟩).state = ⟨(fInfer kb nodes up down eps fuel s).state, []⟩ ∧
    (pInfer kb nodes up down eps fuel ⟨s, []⟩).steps = (fInfer kb nodes up down eps fuel s).steps ∧
    (pInfer kb nodes up down eps fuel ⟨s, []⟩).total = (fInfer kb nodes up down eps fuel s).total ∧
    (pInfer kb nodes up down eps fuel ⟨s, []⟩).converged = (fInfer kb nodes up down eps fuel s).converged :=
  pInfer_of_noParent h nodes up down eps fuel s

end pend

/-! ### first-order knowledge bases: a converged `infer()` leaves a genuine fixpoint

`fInfer` converges when a sweep reports at most `eps` AND created no grounding. Hypotheses: world
defaults and the start state in [0,1]; every grounding stored once (preserved by every call);
the registered formulae `nodes` cover the scheduled formulae and their operands; and
`FolFix.RunExact`: no sweep of THIS run reports an amount in (0, eps] — the formal content of
"exactly representable bounds" (on dyadic data every amount is 0 or at least the grid step, which
is coarser than the code's 1e-7; with `eps ≤ 0` it holds outright). Then, in the returned state,
every scheduled upward or downward call — alone, in sweep order, in any order and number — reports
0 and leaves every table structurally identical, and a second `infer()` takes one sweep, reports 0,
converges, and returns the same tables. -/

section fol

variable {ι : Type} [DecidableEq ι] {α : Type} [Field α] [LinearOrder α] [IsStrictOrderedRing α]

open FolAmount FolFix

/-- every scheduled call is the identity on the converged state and reports 0 -/
theorem C06_fol_fixpoint (kb : FKB ι α) (hw : FolAmount.WorldsInUnit kb) (nodes : List ι)
    (up down : List (FCall ι)) (eps : α) (fuel : Nat) (s : FState ι α) (hs : SInUnit s) (hn : SNodup s)
    (hconv : (fInfer kb nodes up down eps fuel s).converged = true)
    (hexact : RunExact kb up down eps s)
    (hcov : ∀ c ∈ up ++ down, cnode c ∈ nodes ∧ ∀ j ∈ (kb (cnode c)).ops, j ∈ nodes) :
    ∀ c ∈ up ++ down, CallFix kb c (fInfer kb nodes up down eps fuel s).state :=
  (fInfer_converged_callFix' kb nodes up down eps hw fuel s hs hn hconv hexact hcov).2.2.2

/-- … so is any list of scheduled calls, in any order and number -/
theorem C06_fol_any_schedule (kb : FKB ι α) (hw : FolAmount.WorldsInUnit kb) (nodes : List ι)
    (up down : List (FCall ι)) (eps : α) (fuel : Nat) (s : FState ι α) (hs : SInUnit s) (hn : SNodup s)
    (hconv : (fInfer kb nodes up down eps fuel s).converged = true)
    (hexact : RunExact kb up down eps s)
    (hcov : ∀ c ∈ up ++ down, cnode c ∈ nodes ∧ ∀ j ∈ (kb (cnode c)).ops, j ∈ nodes)
    (cs' : List (FCall ι)) (hsub : ∀ c ∈ cs', c ∈ up ++ down) :
    (runFCalls kb cs' (fInfer kb nodes up down eps fuel s).state).2 = 0 ∧
      ∀ k, (runFCalls kb cs' (fInfer kb nodes up down eps fuel s).state).1.get k =
        (fInfer kb nodes up down eps fuel s).state.get k :=
  fInfer_converged_anyOrder' kb nodes up down eps hw fuel s hs hn hconv hexact hcov cs' hsub

/-- calling `infer()` again: one sweep, zero updates, converged, same tables -/
theorem C06_fol_infer_again (kb : FKB ι α) (hw : FolAmount.WorldsInUnit kb) (nodes : List ι)
    (up down : List (FCall ι)) (eps : α) (fuel : Nat) (s : FState ι α) (hs : SInUnit s) (hn : SNodup s)
    (hconv : (fInfer kb nodes up down eps fuel s).converged = true)
    (hexact : RunExact kb up down eps s)
    (hcov : ∀ c ∈ up ++ down, cnode c ∈ nodes ∧ ∀ j ∈ (kb (cnode c)).ops, j ∈ nodes) (fuel' : Nat) :
    (fInfer kb nodes up down eps (fuel' + 1) (fInfer kb nodes up down eps fuel s).state).steps = 1 ∧
    (fInfer kb nodes up down eps (fuel' + 1) (fInfer kb nodes up down eps fuel s).state).total = 0 ∧
    (fInfer kb nodes up down eps (fuel' + 1) (fInfer kb nodes up down eps fuel s).state).converged = true ∧
    ∀ k, (fInfer kb nodes up down eps (fuel' + 1) (fInfer kb nodes up down eps fuel s).state).state.get k =
      (fInfer kb nodes up down eps fuel s).state.get k :=
  fInfer_converged_again' kb nodes up down eps hw fuel s hs hn hconv hexact hcov fuel'

/-- `RunExact` holds outright for a threshold ≤ 0 -/
theorem C06_fol_runExact_of_eps_zero (kb : FKB ι α) (up down : List (FCall ι)) (eps : α)
    (s : FState ι α) (heps : eps ≤ 0) : RunExact kb up down eps s :=
  runExact_of_eps_zero kb up down eps s heps

end fol

end LNN
