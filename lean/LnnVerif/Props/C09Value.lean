/-
C09, the value clause — "… and its bounds equal the truth function applied to those facts.
Symmetrically, a downward step from such a grounding tightens exactly the operand rows it depends
on, each at least as much as the connective's inverse prescribes for those facts."

`Props/C09.lean` proves the presence half (every tuple of the natural join of the asserted operand
facts gets its row). This file adds the value half at the level of the engine (`fUpConn`,
`fDownConn` of `Model/Fol.lean`; proofs in `Lemmas/FolValue.lean`): for an assignment `σ` in the
natural join, `opGr kb i σ` the operator grounding it denotes and `opReads kb i s σ` the operand
readings at the projected groundings,
* after the upward step the operator's row is EXACTLY the aggregate of what was there (the world
  default for an absent row) with the truth function of the readings — `C09_upward_value`; on an
  OPEN operator without a row it is the truth function itself — `C09_upward_value_open`;
* after the downward step (also index-restricted) each operand's projected row is at least as tight
  as the aggregate of its reading with the inverse's proposal — `C09_downward_value` (several
  operator groundings can project onto one operand row, their proposals are intersected, so "at
  least as tight as each" is the statement); a row no operator grounding projects onto keeps its
  reading — `C09_downward_frame`.
The only side conditions are the engine's own filter: neither of the first two operand readings
(nor, downward, the operator's reading) is a contradiction.
-/
import LnnVerif.Lemmas.FolValue

set_option linter.unusedSectionVars false

namespace LNN

open FolValue

variable {ι : Type} [DecidableEq ι] {α : Type} [Field α] [LinearOrder α] [IsStrictOrderedRing α]

theorem C09_upward_value (kb : FKB ι α) (i : ι) (s : FState ι α) (σ : Nat → Nat)
    (hh : isHomogeneous (kb i) = false) (hc : SlotsCovered (kb i)) (hσ : InNatJoin kb i s σ)
    (hnc : ((opReads kb i s σ).take 2).any (isContra (kb i).alpha) = false) :
    Table.getD (kb i).world ((fUpConn kb i s).1.get i) (opGr kb i σ) =
      (aggregate .both (Table.getD (kb i).world (s.get i) (opGr kb i σ))
        (fActUp (kb i) (opReads kb i s σ))).1 :=
  upward_value kb i s σ hh hc hσ hnc

/-- the join-free branch (all operands over the same variable tuple): every grounding some operand
stores is evaluated -/
theorem C09_upward_value_homogeneous (kb : FKB ι α) (i : ι) (s : FState ι α)
    (hh : isHomogeneous (kb i) = true) (j : ι) (hj : j ∈ (kb i).ops) (g : Gr)
    (hg : g ∈ (s.get j).keys)
    (hnc : ((homReads kb i s g).take 2).any (isContra (kb i).alpha) = false) :
    Table.getD (kb i).world ((fUpConn kb i s).1.get i) g =
      (aggregate .both (Table.getD (kb i).world (s.get i) g)
        (fActUp (kb i) (homReads kb i s g))).1 :=
  upward_value_homogeneous kb i s hh j hj g hg hnc

theorem C09_upward_value_open (kb : FKB ι α) (i : ι) (s : FState ι α) (σ : Nat → Nat)
    (hh : isHomogeneous (kb i) = false) (hc : SlotsCovered (kb i)) (hσ : InNatJoin kb i s σ)
    (hnc : ((opReads kb i s σ).take 2).any (isContra (kb i).alpha) = false)
    (hw : (kb i).world = ⟨0, 1⟩) (hnew : opGr kb i σ ∉ (s.get i).keys) :
    Table.getD (kb i).world ((fUpConn kb i s).1.get i) (opGr kb i σ) =
      fActUp (kb i) (opReads kb i s σ) :=
  upward_value_open kb i s σ hh hc hσ hnc hw hnew

theorem C09_downward_value (kb : FKB ι α) (i : ι) (idx : Option Nat) (s : FState ι α) (σ : Nat → Nat)
    (hh : isHomogeneous (kb i) = false) (hc : SlotsCovered (kb i)) (hσ : InNatJoin kb i s σ)
    (hnc : ((opReads kb i s σ).take 2).any (isContra (kb i).alpha) = false)
    (hno : isContra (kb i).alpha (Table.getD (kb i).world (s.get i) (opGr kb i σ)) = false)
    (k : Nat) (j : ι) (m : List Nat) (b : Bounds α)
    (hj : (kb i).ops[k]? = some j) (hm : (kb i).opmap[k]? = some m)
    (hb : (fActDown (kb i) (Table.getD (kb i).world (s.get i) (opGr kb i σ)) (opReads kb i s σ))[k]? = some b)
    (hidx : idx = none ∨ idx = some k) :
    FolAmount.BTight (aggregate .both (Table.getD (kb j).world (s.get j) (m.map σ)) b).1
      (Table.getD (kb j).world ((fDownConn kb i idx s).1.get j) (m.map σ)) :=
  downward_value kb i idx s σ hh hc hσ hnc hno k j m b hj hm hb hidx

theorem C09_downward_frame (kb : FKB ι α) (i : ι) (idx : Option Nat) (s : FState ι α) (j : ι) (g : Gr)
    (hno : ∀ ogs per, (groundings kb i true s).2 = some (ogs, per) →
      ∀ p : Nat, (kb i).ops[p]? = some j → ∀ k < ogs.length, (rowsOf per k)[p]? ≠ some g) :
    Table.getD (kb j).world ((fDownConn kb i idx s).1.get j) g =
      Table.getD (kb j).world (s.get j) g :=
  downward_frame kb i idx s j g hno

/-! non-vacuity: on the concrete knowledge base of `Props/C09.lean` (`c09KB`: a conjunction joining
two predicates) the structural hypotheses of `C09_upward_value` hold at the join tuple `c09σ`;
`Lemmas/FolValue.lean` (section examples) evaluates the numbers: the row reads exactly ⟨1,1⟩, and a
downward step moves P(1,2) from ⟨0,1⟩ to ⟨1,1⟩ -/
example (hnc : ((opReads c09KB 2 c09S c09σ).take 2).any (isContra (c09KB 2).alpha) = false) :
    Table.getD (c09KB 2).world ((fUpConn c09KB 2 c09S).1.get 2) (opGr c09KB 2 c09σ) =
      (aggregate .both (Table.getD (c09KB 2).world (c09S.get 2) (opGr c09KB 2 c09σ))
        (fActUp (c09KB 2) (opReads c09KB 2 c09S c09σ))).1 :=
  C09_upward_value c09KB 2 c09S c09σ c09KB_hetero c09KB_covered c09S_natJoin hnc

end LNN
