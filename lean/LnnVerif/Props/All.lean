import LnnVerif.Props.C01
import LnnVerif.Props.C04
import LnnVerif.Props.C05
import LnnVerif.Props.C06
import LnnVerif.Props.C13
import LnnVerif.Props.C17
import LnnVerif.Props.C07
import LnnVerif.Props.C03
