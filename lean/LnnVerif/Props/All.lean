import LnnVerif.Model.PropEngine
