import LnnVerif.Props.C01
import LnnVerif.Props.C04
