import LnnVerif.Props.C01
