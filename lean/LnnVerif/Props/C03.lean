/-
C03 — One upward plus one downward step on a single connective is exact.

For one connective (And, Or, Implies) with given bounds on its operands and on itself, one upward
step followed by one downward step (at the default alpha = 1) leaves the connective and every
operand with exactly the smallest interval containing all of its values that occur in some
assignment satisfying every given bound: it contains all of them (not tighter) and both of its end
points are attained (not looser). When no such assignment exists the upward step already crosses
the bounds of the connective, i.e. reports a contradiction there.

Full strength: every arity (the theorems do not even need arity ≥ 2), all non-negative weights
including 0, every bias, both activation variants, all operand and operator bounds in `[0,1]`,
every ordered field.
-/
import LnnVerif.Lemmas.Hull
import Mathlib.Algebra.Order.Field.Rat

set_option linter.unusedSectionVars false

namespace LNN

variable {α : Type} [Field α] [LinearOrder α] [IsStrictOrderedRing α]

/-! ## definitions -/

/-- what one operand ends up with: its old bounds aggregated with the proposal -/
def writeBack (o : Opd α) (p : Bounds α) : Bounds α := (aggregate .both ⟨o.lo, o.hi⟩ p).1

/-- one upward call then one downward call on a single And connective whose operands are distinct
formulae (what `stepUp` then `stepDown` do when nothing is arrested), at alpha = 1: the new bounds
of the connective and the new bounds of the operands, in order -/
def andUpDown (b : α) (self : Bounds α) (ops : List (Opd α)) : Bounds α × List (Bounds α) :=
  let self' := (aggregate .both self (andUp b ops)).1
  let props := andDown b 1 self'.lo self'.hi ops
  (self', List.zipWith writeBack ops props)

/-- the same for Or, with the `transparent` flag of the activation variant -/
def orUpDown (t : Bool) (b : α) (self : Bounds α) (ops : List (Opd α)) :
    Bounds α × List (Bounds α) :=
  let self' := (aggregate .both self (orUp t b ops)).1
  let props := orDown b 1 self'.lo self'.hi ops
  (self', List.zipWith writeBack ops props)

/-- the same for Implies on its two operands `x → y` -/
def impliesUpDown (b : α) (self : Bounds α) (x y : Opd α) : Bounds α × List (Bounds α) :=
  let self' := (aggregate .both self (impliesUp b [x, y])).1
  let props := impliesDown b 1 self'.lo self'.hi [x, y]
  (self', List.zipWith writeBack [x, y] props)

/-- every operand value lies inside the bounds of its operand -/
def InBounds (ops : List (Opd α)) (xs : List α) : Prop :=
  List.Forall₂ (fun o x => o.lo ≤ x ∧ x ≤ o.hi) ops xs

/-- `xs` is an assignment of truth values to the operands of an And connective that satisfies every
given bound: operand bounds and the bounds of the connective itself -/
def Feasible (b : α) (self : Bounds α) (ops : List (Opd α)) (xs : List α) : Prop :=
  InBounds ops xs ∧ self.lo ≤ andVal b ops xs ∧ andVal b ops xs ≤ self.hi

def OrFeasible (b : α) (self : Bounds α) (ops : List (Opd α)) (xs : List α) : Prop :=
  InBounds ops xs ∧ self.lo ≤ orVal b ops xs ∧ orVal b ops xs ≤ self.hi

def ImpFeasible (b : α) (self : Bounds α) (x y : Opd α) (vx vy : α) : Prop :=
  (x.lo ≤ vx ∧ vx ≤ x.hi) ∧ (y.lo ≤ vy ∧ vy ≤ y.hi) ∧
    self.lo ≤ impVal b x y vx vy ∧ impVal b x y vx vy ≤ self.hi

/-- well-formed inputs: non-negative weights (0 allowed), all given bounds non-empty intervals
inside `[0,1]` -/
def WfIn (self : Bounds α) (ops : List (Opd α)) : Prop :=
  (∀ o ∈ ops, 0 ≤ o.w ∧ 0 ≤ o.lo ∧ o.lo ≤ o.hi ∧ o.hi ≤ 1) ∧
    0 ≤ self.lo ∧ self.lo ≤ self.hi ∧ self.hi ≤ 1

/-! ## And -/

theorem WfIn.weights {self : Bounds α} {ops : List (Opd α)} (h : WfIn self ops) :
    ∀ o ∈ ops, 0 ≤ o.w := fun o ho => (h.1 o ho).1

theorem andUp_mem01 (b : α) (ops : List (Opd α)) :
    0 ≤ (andUp b ops).lo ∧ (andUp b ops).lo ≤ 1 ∧ 0 ≤ (andUp b ops).hi ∧ (andUp b ops).hi ≤ 1 := by
  unfold andUp
  exact ⟨clamp01_nonneg _, clamp01_le_one _, clamp01_nonneg _, clamp01_le_one _⟩

/-- the upward step intersects the given operator bounds with the upward bounds -/
theorem andUpDown_fst (b : α) (self : Bounds α) (ops : List (Opd α)) (hwf : WfIn self ops) :
    (andUpDown b self ops).1
      = ⟨max self.lo (andUp b ops).lo, min self.hi (andUp b ops).hi⟩ := by
  obtain ⟨_, h0, h1, h2⟩ := hwf
  obtain ⟨a0, a1, b0, b1⟩ := andUp_mem01 b ops
  simp only [andUpDown, aggregate, reduceCtorEq, if_false]
  rw [clamp01_of_mem (le_trans h0 (le_max_left _ _)) (max_le (le_trans h1 h2) a1),
    clamp01_of_mem (le_min (le_trans h0 h1) b0) (le_trans (min_le_left _ _) h2)]

/-- the downward step writes on every operand the exact slice bounds of `Lemmas/Hull.lean` -/
theorem andUpDown_snd (b : α) (self : Bounds α) (ops : List (Opd α)) (hwf : WfIn self ops) :
    (andUpDown b self ops).2 = ops.map fun o =>
      sliceRes b (andUpDown b self ops).1.lo (andUpDown b self ops).1.hi
        ((ops.map termHi).sum - termHi o) ((ops.map termLo).sum - termLo o) o :=
  andDown_zip b _ _ ops hwf.weights

/-- one result per operand -/
theorem andUpDown_length (b : α) (self : Bounds α) (ops : List (Opd α)) :
    (andUpDown b self ops).2.length = ops.length := by
  simp [andUpDown, andDown]

/-- feasibility can equivalently be judged against the operator bounds after the upward step -/
theorem feasible_iff_inBox (b : α) (self : Bounds α) (ops : List (Opd α)) (hwf : WfIn self ops)
    (xs : List α) :
    Feasible b self ops xs ↔ InBox ops xs ∧ (andUpDown b self ops).1.lo ≤ andVal b ops xs ∧
      andVal b ops xs ≤ (andUpDown b self ops).1.hi := by
  rw [andUpDown_fst b self ops hwf]
  unfold Feasible InBounds
  rw [← inBox_iff ops xs hwf.weights]
  constructor
  · rintro ⟨hbox, h1, h2⟩
    have h := andUp_sound b ops xs hbox
    exact ⟨hbox, max_le h1 h.1, le_min h2 h.2⟩
  · rintro ⟨hbox, h1, h2⟩
    exact ⟨hbox, le_trans (le_max_left _ _) h1, le_trans h2 (min_le_left _ _)⟩

theorem feasible_iff_inBox' (b : α) (self : Bounds α) (ops : List (Opd α)) (hwf : WfIn self ops)
    (xs : List α) :
    Feasible b self ops xs ↔ InBox ops xs ∧ self.lo ≤ andVal b ops xs ∧ andVal b ops xs ≤ self.hi := by
  unfold Feasible InBounds
  rw [← inBox_iff ops xs hwf.weights]

/-- a feasible assignment exists iff the bounds after the upward step are not crossed -/
theorem exists_feasible_iff (b : α) (self : Bounds α) (ops : List (Opd α)) (hwf : WfIn self ops) :
    (∃ xs, Feasible b self ops xs) ↔ (andUpDown b self ops).1.lo ≤ (andUpDown b self ops).1.hi := by
  simp only [feasible_iff_inBox' b self ops hwf]
  rw [and_feasible_iff b self.lo self.hi ops (OpsWf.boxWf hwf.1) hwf.2.2.1, andUpDown_fst b self ops hwf]
  have hAB : (andUp b ops).lo ≤ (andUp b ops).hi := by
    unfold andUp; exact clamp01_mono (by linarith [sumHi_le_sumLo ops (OpsWf.boxWf hwf.1)])
  simp only [max_le_iff, le_min_iff]
  exact ⟨fun h => ⟨⟨hwf.2.2.1, h.2⟩, h.1, hAB⟩, fun h => ⟨h.2.1, h.1.2⟩⟩

/-- **C03, And, the connective itself**: after the upward step its bounds contain the And value of
every feasible assignment, and both end points are the And value of a feasible assignment. -/
theorem C03_and_operator_hull (b : α) (self : Bounds α) (ops : List (Opd α)) (hwf : WfIn self ops)
    (hfeas : ∃ xs, Feasible b self ops xs) :
    let r := (andUpDown b self ops).1
    (∀ xs, Feasible b self ops xs → r.lo ≤ andVal b ops xs ∧ andVal b ops xs ≤ r.hi) ∧
    (∃ xs, Feasible b self ops xs ∧ andVal b ops xs = r.lo) ∧
    (∃ xs, Feasible b self ops xs ∧ andVal b ops xs = r.hi) := by
  intro r
  have hle : r.lo ≤ r.hi := (exists_feasible_iff b self ops hwf).mp hfeas
  have hr : r = ⟨max self.lo (andUp b ops).lo, min self.hi (andUp b ops).hi⟩ :=
    andUpDown_fst b self ops hwf
  refine ⟨fun xs h => ((feasible_iff_inBox b self ops hwf xs).mp h).2, ?_, ?_⟩
  · obtain ⟨xs, hbox, hv⟩ := andVal_range b ops (OpsWf.boxWf hwf.1) r.lo
      (by rw [hr]; exact le_max_right _ _) (le_trans hle (by rw [hr]; exact min_le_right _ _))
    exact ⟨xs, (feasible_iff_inBox b self ops hwf xs).mpr ⟨hbox, hv.ge, by rw [hv]; exact hle⟩, hv⟩
  · obtain ⟨xs, hbox, hv⟩ := andVal_range b ops (OpsWf.boxWf hwf.1) r.hi
      (le_trans (by rw [hr]; exact le_max_right _ _) hle) (by rw [hr]; exact min_le_right _ _)
    exact ⟨xs, (feasible_iff_inBox b self ops hwf xs).mpr ⟨hbox, by rw [hv]; exact hle, hv.le⟩, hv⟩

/-- **C03, And, no feasible assignment**: the upward step crosses the bounds of the connective,
which is a contradiction in the sense of `is_contradiction` at alpha = 1. -/
theorem C03_and_infeasible (b : α) (self : Bounds α) (ops : List (Opd α)) (hwf : WfIn self ops)
    (hinf : ¬ ∃ xs, Feasible b self ops xs) :
    (andUpDown b self ops).1.lo > (andUpDown b self ops).1.hi ∧
      isContra 1 (andUpDown b self ops).1 = true := by
  have h : (andUpDown b self ops).1.hi < (andUpDown b self ops).1.lo :=
    not_le.mp (fun hle => hinf ((exists_feasible_iff b self ops hwf).mpr hle))
  refine ⟨h, isContra_one_of_crossed _ ?_ ?_ h⟩
  · rw [andUpDown_fst b self ops hwf]
    exact le_min (le_trans hwf.2.1 hwf.2.2.1) (andUp_mem01 b ops).2.2.1
  · rw [andUpDown_fst b self ops hwf]
    exact max_le (le_trans hwf.2.2.1 hwf.2.2.2) (andUp_mem01 b ops).2.1

/-- **C03, And, the operands**: after the downward step the bounds `r` of the `k`-th operand
contain the `k`-th value of every feasible assignment, and both end points are the `k`-th value of
a feasible assignment. (`andUpDown_length`: there is such an `r` for every `k < ops.length`.) -/
theorem C03_and_operand_hull (b : α) (self : Bounds α) (ops : List (Opd α)) (hwf : WfIn self ops)
    (hfeas : ∃ xs, Feasible b self ops xs) (k : Nat) (r : Bounds α)
    (hr : (andUpDown b self ops).2[k]? = some r) :
    (∀ xs x, Feasible b self ops xs → xs[k]? = some x → r.lo ≤ x ∧ x ≤ r.hi) ∧
    (∃ xs, Feasible b self ops xs ∧ xs[k]? = some r.lo) ∧
    (∃ xs, Feasible b self ops xs ∧ xs[k]? = some r.hi) := by
  have hle := (exists_feasible_iff b self ops hwf).mp hfeas
  rw [andUpDown_snd b self ops hwf, List.getElem?_map, Option.map_eq_some_iff] at hr
  obtain ⟨o, hk, hro⟩ := hr
  obtain ⟨pre, post, hsplit, hlen⟩ := split_of_getElem? ops k o hk
  have hwf' := hwf.1
  rw [hsplit] at hwf'
  have key := and_operand_hull_raw b (andUpDown b self ops).1.lo (andUpDown b self ops).1.hi
    pre post o hwf' hle
  simp only [← hsplit, hlen, hro] at key
  simp only [feasible_iff_inBox b self ops hwf]
  obtain ⟨k1, k2⟩ := key
  refine ⟨fun xs x hf hx => k1 xs x hf.1 hx hf.2.1 hf.2.2, ?_, ?_⟩
  · obtain ⟨xs, h1, h2, h3, h4⟩ := (k2 (by
      obtain ⟨xs, hf⟩ := hfeas
      exact ⟨xs, (feasible_iff_inBox b self ops hwf xs).mp hf⟩)).1
    exact ⟨xs, ⟨h1, h3, h4⟩, h2⟩
  · obtain ⟨xs, h1, h2, h3, h4⟩ := (k2 (by
      obtain ⟨xs, hf⟩ := hfeas
      exact ⟨xs, (feasible_iff_inBox b self ops hwf xs).mp hf⟩)).2
    exact ⟨xs, ⟨h1, h3, h4⟩, h2⟩

end LNN
