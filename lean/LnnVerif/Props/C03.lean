/-
C03 — One upward plus one downward step on a single connective is exact.

For one connective (And, Or, Implies) with given bounds on its operands and on itself, one upward
step followed by one downward step (at the default alpha = 1) leaves the connective and every
operand with exactly the smallest interval containing all of its values that occur in some
assignment satisfying every given bound: it contains all of them (not tighter) and both of its end
points are attained (not looser). When no such assignment exists the upward step already crosses
the bounds of the connective, i.e. reports a contradiction there (and the downward step is
arrested).

Full strength: every arity (the theorems do not even need arity ≥ 2; Implies: exactly 2), all
non-negative weights including 0, every bias, both activation variants, all operand and operator
bounds in `[0,1]`, every ordered field.

Layout: definitions (`andUpDown`, `Feasible`, `WfIn`, …) · And (`C03_and_*`) · Or and Implies by
negation duality (`C03_or_*`, `C03_implies_*`) · crossed given bounds (`C03_*_infeasible_reported`) ·
link to the engine model: `andUpDown` & co. are literally `stepUp` then `stepDown` (`C03_engine_*`) ·
non-vacuity examples over ℚ. Helper declarations live in the namespace `LNN.C03`, the property
theorems in `LNN`.
-/
import LnnVerif.Lemmas.Hull
import LnnVerif.Lemmas.Engine
import Mathlib.Algebra.Order.Field.Rat

set_option linter.unusedSectionVars false

namespace LNN.C03

open Hull

variable {α : Type} [Field α] [LinearOrder α] [IsStrictOrderedRing α]

/-! ## definitions -/

/-- what one operand ends up with: its old bounds aggregated with the proposal -/
def writeBack (o : Opd α) (p : Bounds α) : Bounds α := (aggregate .both ⟨o.lo, o.hi⟩ p).1

/-- one upward call then one downward call on a single And connective whose operands are distinct
formulae (what `stepUp` then `stepDown` do when nothing is arrested), at alpha = 1: the new bounds
of the connective and the new bounds of the operands, in order -/
def andUpDown (b : α) (self : Bounds α) (ops : List (Opd α)) : Bounds α × List (Bounds α) :=
  let self' := (aggregate .both self (andUp b ops)).1
  let props := andDown b 1 self'.lo self'.hi ops
  (self', List.zipWith writeBack ops props)

/-- the same for Or, with the `transparent` flag of the activation variant -/
def orUpDown (t : Bool) (b : α) (self : Bounds α) (ops : List (Opd α)) :
    Bounds α × List (Bounds α) :=
  let self' := (aggregate .both self (orUp t b ops)).1
  let props := orDown b 1 self'.lo self'.hi ops
  (self', List.zipWith writeBack ops props)

/-- the same for Implies on its two operands `x → y` -/
def impliesUpDown (b : α) (self : Bounds α) (x y : Opd α) : Bounds α × List (Bounds α) :=
  let self' := (aggregate .both self (impliesUp b [x, y])).1
  let props := impliesDown b 1 self'.lo self'.hi [x, y]
  (self', List.zipWith writeBack [x, y] props)

/-- every operand value lies inside the bounds of its operand -/
def InBounds (ops : List (Opd α)) (xs : List α) : Prop :=
  List.Forall₂ (fun o x => o.lo ≤ x ∧ x ≤ o.hi) ops xs

/-- `xs` is an assignment of truth values to the operands of an And connective that satisfies every
given bound: operand bounds and the bounds of the connective itself -/
def Feasible (b : α) (self : Bounds α) (ops : List (Opd α)) (xs : List α) : Prop :=
  InBounds ops xs ∧ self.lo ≤ andVal b ops xs ∧ andVal b ops xs ≤ self.hi

def OrFeasible (b : α) (self : Bounds α) (ops : List (Opd α)) (xs : List α) : Prop :=
  InBounds ops xs ∧ self.lo ≤ orVal b ops xs ∧ orVal b ops xs ≤ self.hi

def ImpFeasible (b : α) (self : Bounds α) (x y : Opd α) (vx vy : α) : Prop :=
  (x.lo ≤ vx ∧ vx ≤ x.hi) ∧ (y.lo ≤ vy ∧ vy ≤ y.hi) ∧
    self.lo ≤ impVal b x y vx vy ∧ impVal b x y vx vy ≤ self.hi

/-- well-formed inputs: non-negative weights (0 allowed), all given bounds non-empty intervals
inside `[0,1]` -/
def WfIn (self : Bounds α) (ops : List (Opd α)) : Prop :=
  (∀ o ∈ ops, 0 ≤ o.w ∧ 0 ≤ o.lo ∧ o.lo ≤ o.hi ∧ o.hi ≤ 1) ∧
    0 ≤ self.lo ∧ self.lo ≤ self.hi ∧ self.hi ≤ 1

/-! ## And -/

theorem WfIn.weights {self : Bounds α} {ops : List (Opd α)} (h : WfIn self ops) :
    ∀ o ∈ ops, 0 ≤ o.w := fun o ho => (h.1 o ho).1

theorem andUp_mem01 (b : α) (ops : List (Opd α)) :
    0 ≤ (andUp b ops).lo ∧ (andUp b ops).lo ≤ 1 ∧ 0 ≤ (andUp b ops).hi ∧ (andUp b ops).hi ≤ 1 := by
  unfold andUp
  exact ⟨clamp01_nonneg _, clamp01_le_one _, clamp01_nonneg _, clamp01_le_one _⟩

/-- the upward step intersects the given operator bounds with the upward bounds -/
theorem andUpDown_fst (b : α) (self : Bounds α) (ops : List (Opd α)) (hwf : WfIn self ops) :
    (andUpDown b self ops).1
      = ⟨max self.lo (andUp b ops).lo, min self.hi (andUp b ops).hi⟩ := by
  obtain ⟨_, h0, h1, h2⟩ := hwf
  obtain ⟨a0, a1, b0, b1⟩ := andUp_mem01 b ops
  simp only [andUpDown, aggregate, reduceCtorEq, if_false]
  rw [clamp01_of_mem (le_trans h0 (le_max_left _ _)) (max_le (le_trans h1 h2) a1),
    clamp01_of_mem (le_min (le_trans h0 h1) b0) (le_trans (min_le_left _ _) h2)]

/-- the downward step writes on every operand the exact slice bounds of `Lemmas/Hull.lean` -/
theorem andUpDown_snd (b : α) (self : Bounds α) (ops : List (Opd α)) (hwf : WfIn self ops) :
    (andUpDown b self ops).2 = ops.map fun o =>
      sliceRes b (andUpDown b self ops).1.lo (andUpDown b self ops).1.hi
        ((ops.map termHi).sum - termHi o) ((ops.map termLo).sum - termLo o) o :=
  andDown_zip b _ _ ops hwf.weights

/-- one result per operand -/
theorem andUpDown_length (b : α) (self : Bounds α) (ops : List (Opd α)) :
    (andUpDown b self ops).2.length = ops.length := by
  simp [andUpDown, andDown]

/-- feasibility can equivalently be judged against the operator bounds after the upward step -/
theorem feasible_iff_inBox (b : α) (self : Bounds α) (ops : List (Opd α)) (hwf : WfIn self ops)
    (xs : List α) :
    Feasible b self ops xs ↔ InBox ops xs ∧ (andUpDown b self ops).1.lo ≤ andVal b ops xs ∧
      andVal b ops xs ≤ (andUpDown b self ops).1.hi := by
  rw [andUpDown_fst b self ops hwf]
  unfold Feasible InBounds
  rw [← inBox_iff ops xs hwf.weights]
  constructor
  · rintro ⟨hbox, h1, h2⟩
    have h := andUp_sound b ops xs hbox
    exact ⟨hbox, max_le h1 h.1, le_min h2 h.2⟩
  · rintro ⟨hbox, h1, h2⟩
    exact ⟨hbox, le_trans (le_max_left _ _) h1, le_trans h2 (min_le_left _ _)⟩

theorem feasible_iff_inBox' (b : α) (self : Bounds α) (ops : List (Opd α)) (hwf : WfIn self ops)
    (xs : List α) :
    Feasible b self ops xs ↔ InBox ops xs ∧ self.lo ≤ andVal b ops xs ∧ andVal b ops xs ≤ self.hi := by
  unfold Feasible InBounds
  rw [← inBox_iff ops xs hwf.weights]

/-- a feasible assignment exists iff the bounds after the upward step are not crossed -/
theorem exists_feasible_iff (b : α) (self : Bounds α) (ops : List (Opd α)) (hwf : WfIn self ops) :
    (∃ xs, Feasible b self ops xs) ↔ (andUpDown b self ops).1.lo ≤ (andUpDown b self ops).1.hi := by
  simp only [feasible_iff_inBox' b self ops hwf]
  rw [and_feasible_iff b self.lo self.hi ops (OpsWf.boxWf hwf.1) hwf.2.2.1, andUpDown_fst b self ops hwf]
  have hAB : (andUp b ops).lo ≤ (andUp b ops).hi := by
    unfold andUp; exact clamp01_mono (by linarith [sumHi_le_sumLo ops (OpsWf.boxWf hwf.1)])
  simp only [max_le_iff, le_min_iff]
  exact ⟨fun h => ⟨⟨hwf.2.2.1, h.2⟩, h.1, hAB⟩, fun h => ⟨h.2.1, h.1.2⟩⟩

/-- **C03, And, the connective itself**: after the upward step its bounds contain the And value of
every feasible assignment, and both end points are the And value of a feasible assignment. -/
theorem _root_.LNN.C03_and_operator_hull
    (b : α) (self : Bounds α) (ops : List (Opd α)) (hwf : WfIn self ops)
    (hfeas : ∃ xs, Feasible b self ops xs) :
    let r := (andUpDown b self ops).1
    (∀ xs, Feasible b self ops xs → r.lo ≤ andVal b ops xs ∧ andVal b ops xs ≤ r.hi) ∧
    (∃ xs, Feasible b self ops xs ∧ andVal b ops xs = r.lo) ∧
    (∃ xs, Feasible b self ops xs ∧ andVal b ops xs = r.hi) := by
  intro r
  have hle : r.lo ≤ r.hi := (exists_feasible_iff b self ops hwf).mp hfeas
  have hr : r = ⟨max self.lo (andUp b ops).lo, min self.hi (andUp b ops).hi⟩ :=
    andUpDown_fst b self ops hwf
  refine ⟨fun xs h => ((feasible_iff_inBox b self ops hwf xs).mp h).2, ?_, ?_⟩
  · obtain ⟨xs, hbox, hv⟩ := andVal_range b ops (OpsWf.boxWf hwf.1) r.lo
      (by rw [hr]; exact le_max_right _ _) (le_trans hle (by rw [hr]; exact min_le_right _ _))
    exact ⟨xs, (feasible_iff_inBox b self ops hwf xs).mpr ⟨hbox, hv.ge, by rw [hv]; exact hle⟩, hv⟩
  · obtain ⟨xs, hbox, hv⟩ := andVal_range b ops (OpsWf.boxWf hwf.1) r.hi
      (le_trans (by rw [hr]; exact le_max_right _ _) hle) (by rw [hr]; exact min_le_right _ _)
    exact ⟨xs, (feasible_iff_inBox b self ops hwf xs).mpr ⟨hbox, by rw [hv]; exact hle, hv.le⟩, hv⟩

/-- **C03, And, no feasible assignment**: the upward step crosses the bounds of the connective,
which is a contradiction in the sense of `is_contradiction` at alpha = 1. -/
theorem _root_.LNN.C03_and_infeasible
    (b : α) (self : Bounds α) (ops : List (Opd α)) (hwf : WfIn self ops)
    (hinf : ¬ ∃ xs, Feasible b self ops xs) :
    (andUpDown b self ops).1.lo > (andUpDown b self ops).1.hi ∧
      isContra 1 (andUpDown b self ops).1 = true := by
  have h : (andUpDown b self ops).1.hi < (andUpDown b self ops).1.lo :=
    not_le.mp (fun hle => hinf ((exists_feasible_iff b self ops hwf).mpr hle))
  refine ⟨h, isContra_one_of_crossed _ ?_ ?_ h⟩
  · rw [andUpDown_fst b self ops hwf]
    exact le_min (le_trans hwf.2.1 hwf.2.2.1) (andUp_mem01 b ops).2.2.1
  · rw [andUpDown_fst b self ops hwf]
    exact max_le (le_trans hwf.2.2.1 hwf.2.2.2) (andUp_mem01 b ops).2.1

/-- **C03, And, the operands**: after the downward step the bounds `r` of the `k`-th operand
contain the `k`-th value of every feasible assignment, and both end points are the `k`-th value of
a feasible assignment. (`andUpDown_length`: there is such an `r` for every `k < ops.length`.) -/
theorem _root_.LNN.C03_and_operand_hull
    (b : α) (self : Bounds α) (ops : List (Opd α)) (hwf : WfIn self ops)
    (hfeas : ∃ xs, Feasible b self ops xs) (k : Nat) (r : Bounds α)
    (hr : (andUpDown b self ops).2[k]? = some r) :
    (∀ xs x, Feasible b self ops xs → xs[k]? = some x → r.lo ≤ x ∧ x ≤ r.hi) ∧
    (∃ xs, Feasible b self ops xs ∧ xs[k]? = some r.lo) ∧
    (∃ xs, Feasible b self ops xs ∧ xs[k]? = some r.hi) := by
  have hle := (exists_feasible_iff b self ops hwf).mp hfeas
  rw [andUpDown_snd b self ops hwf, List.getElem?_map, Option.map_eq_some_iff] at hr
  obtain ⟨o, hk, hro⟩ := hr
  obtain ⟨pre, post, hsplit, hlen⟩ := split_of_getElem? ops k o hk
  have hwf' := hwf.1
  rw [hsplit] at hwf'
  have key := and_operand_hull_raw b (andUpDown b self ops).1.lo (andUpDown b self ops).1.hi
    pre post o hwf' hle
  simp only [← hsplit, hlen, hro] at key
  simp only [feasible_iff_inBox b self ops hwf]
  obtain ⟨k1, k2⟩ := key
  refine ⟨fun xs x hf hx => k1 xs x hf.1 hx hf.2.1 hf.2.2, ?_, ?_⟩
  · obtain ⟨xs, h1, h2, h3, h4⟩ := (k2 (by
      obtain ⟨xs, hf⟩ := hfeas
      exact ⟨xs, (feasible_iff_inBox b self ops hwf xs).mp hf⟩)).1
    exact ⟨xs, ⟨h1, h3, h4⟩, h2⟩
  · obtain ⟨xs, h1, h2, h3, h4⟩ := (k2 (by
      obtain ⟨xs, hf⟩ := hfeas
      exact ⟨xs, (feasible_iff_inBox b self ops hwf xs).mp hf⟩)).2
    exact ⟨xs, ⟨h1, h3, h4⟩, h2⟩

/-! ## Or, by negation duality -/

theorem writeBack_negB (o : Opd α) (p : Bounds α) :
    writeBack o (negB p) = negB (writeBack o.neg p) := by
  unfold writeBack
  rw [← aggregate_negB]
  simp [negB, Opd.neg]

/-- Or up/down is And up/down on the negated connective and operands, negated back -/
theorem orUpDown_eq (t : Bool) (b : α) (self : Bounds α) (ops : List (Opd α))
    (hw : ∀ o ∈ ops, 0 ≤ o.w) :
    orUpDown t b self ops = (negB (andUpDown b (negB self) (ops.map Opd.neg)).1,
      (andUpDown b (negB self) (ops.map Opd.neg)).2.map negB) := by
  have h1 : (aggregate .both self (orUp t b ops)).1
      = negB (aggregate .both (negB self) (andUp b (ops.map Opd.neg))).1 := by
    rw [orUp_eq_negB t b ops hw, ← aggregate_negB, negB_negB]
  unfold orUpDown andUpDown orDown
  simp only [h1]
  congr 1
  rw [List.zipWith_map_right, List.zipWith_map_left, List.map_zipWith]
  simp only [writeBack_negB, negB_lo, negB_hi, sub_sub_cancel]

theorem map_one_sub_involutive (ys : List α) : (ys.map (1 - ·)).map (1 - ·) = ys := by
  simp [List.map_map]

theorem inBounds_neg_iff (ops : List (Opd α)) (xs : List α) :
    InBounds (ops.map Opd.neg) (xs.map (1 - ·)) ↔ InBounds ops xs := by
  unfold InBounds
  rw [List.forall₂_map_left_iff, List.forall₂_map_right_iff]
  constructor <;> intro h <;> refine List.Forall₂.imp ?_ h <;> intro o x hox <;>
    simp only [Opd.neg] at hox ⊢ <;> constructor <;> linarith [hox.1, hox.2]

theorem orFeasible_iff (b : α) (self : Bounds α) (ops : List (Opd α)) (xs : List α) :
    OrFeasible b self ops xs ↔ Feasible b (negB self) (ops.map Opd.neg) (xs.map (1 - ·)) := by
  unfold OrFeasible Feasible
  rw [inBounds_neg_iff, orVal_eq]
  simp only [negB]
  constructor <;> rintro ⟨h1, h2, h3⟩ <;> exact ⟨h1, by linarith, by linarith⟩

theorem WfIn.neg {self : Bounds α} {ops : List (Opd α)} (h : WfIn self ops) :
    WfIn (negB self) (ops.map Opd.neg) := by
  obtain ⟨h1, h2, h3, h4⟩ := h
  refine ⟨?_, ?_, ?_, ?_⟩
  · intro o' ho'
    obtain ⟨o, ho, rfl⟩ := List.mem_map.mp ho'
    obtain ⟨a, b, c, d⟩ := h1 o ho
    simp only [Opd.neg]
    exact ⟨a, by linarith, by linarith, by linarith⟩
  all_goals simp only [negB]; linarith

/-- feasible Or assignments are exactly the complements of the feasible assignments of the dual
And problem -/
theorem exists_orFeasible_iff (b : α) (self : Bounds α) (ops : List (Opd α)) (P : List α → Prop) :
    (∃ xs, OrFeasible b self ops xs ∧ P xs)
      ↔ ∃ ys, Feasible b (negB self) (ops.map Opd.neg) ys ∧ P (ys.map (1 - ·)) := by
  constructor
  · rintro ⟨xs, h, hp⟩
    exact ⟨xs.map (1 - ·), (orFeasible_iff b self ops xs).mp h, by
      rwa [map_one_sub_involutive]⟩
  · rintro ⟨ys, h, hp⟩
    refine ⟨ys.map (1 - ·), (orFeasible_iff b self ops _).mpr ?_, hp⟩
    rwa [map_one_sub_involutive]

theorem orUpDown_length (t : Bool) (b : α) (self : Bounds α) (ops : List (Opd α)) :
    (orUpDown t b self ops).2.length = ops.length := by
  simp [orUpDown, orDown, andDown]

/-- **C03, Or, the connective itself** (both activation variants). -/
theorem _root_.LNN.C03_or_operator_hull (t : Bool) (b : α) (self : Bounds α) (ops : List (Opd α))
    (hwf : WfIn self ops) (hfeas : ∃ xs, OrFeasible b self ops xs) :
    let r := (orUpDown t b self ops).1
    (∀ xs, OrFeasible b self ops xs → r.lo ≤ orVal b ops xs ∧ orVal b ops xs ≤ r.hi) ∧
    (∃ xs, OrFeasible b self ops xs ∧ orVal b ops xs = r.lo) ∧
    (∃ xs, OrFeasible b self ops xs ∧ orVal b ops xs = r.hi) := by
  have hfeas' : ∃ ys, Feasible b (negB self) (ops.map Opd.neg) ys := by
    have := (exists_orFeasible_iff b self ops (fun _ => True)).mp (by simpa using hfeas)
    simpa using this
  obtain ⟨k1, k2, k3⟩ := C03_and_operator_hull b (negB self) (ops.map Opd.neg) hwf.neg hfeas'
  rw [orUpDown_eq t b self ops hwf.weights]
  simp only [negB_lo, negB_hi]
  refine ⟨?_, ?_, ?_⟩
  · intro xs hf
    have := k1 _ ((orFeasible_iff b self ops xs).mp hf)
    rw [orVal_eq]
    constructor <;> linarith [this.1, this.2]
  · rw [exists_orFeasible_iff]
    obtain ⟨ys, hf, hv⟩ := k3
    exact ⟨ys, hf, by rw [orVal_eq, map_one_sub_involutive, hv]⟩
  · rw [exists_orFeasible_iff]
    obtain ⟨ys, hf, hv⟩ := k2
    exact ⟨ys, hf, by rw [orVal_eq, map_one_sub_involutive, hv]⟩

/-- **C03, Or, no feasible assignment**: the upward step crosses the bounds of the connective. -/
theorem _root_.LNN.C03_or_infeasible (t : Bool) (b : α) (self : Bounds α) (ops : List (Opd α))
    (hwf : WfIn self ops) (hinf : ¬ ∃ xs, OrFeasible b self ops xs) :
    (orUpDown t b self ops).1.lo > (orUpDown t b self ops).1.hi ∧
      isContra 1 (orUpDown t b self ops).1 = true := by
  have hinf' : ¬ ∃ ys, Feasible b (negB self) (ops.map Opd.neg) ys := by
    intro h
    apply hinf
    have := (exists_orFeasible_iff b self ops (fun _ => True)).mpr (by simpa using h)
    simpa using this
  have h := (C03_and_infeasible b (negB self) (ops.map Opd.neg) hwf.neg hinf').1
  have hfst := andUpDown_fst b (negB self) (ops.map Opd.neg) hwf.neg
  have hm := andUp_mem01 b (ops.map Opd.neg)
  have hcross : (orUpDown t b self ops).1.hi < (orUpDown t b self ops).1.lo := by
    rw [orUpDown_eq t b self ops hwf.weights]
    simp only [negB_lo, negB_hi]
    linarith
  refine ⟨hcross, isContra_one_of_crossed _ ?_ ?_ hcross⟩
  · rw [orUpDown_eq t b self ops hwf.weights, hfst]
    simp only [negB_lo, negB_hi, sub_nonneg]
    exact max_le (by linarith [hwf.2.1, hwf.2.2.1]) hm.2.1
  · rw [orUpDown_eq t b self ops hwf.weights, hfst]
    simp only [negB_lo, negB_hi]
    have : 0 ≤ min (1 - self.lo) (andUp b (ops.map Opd.neg)).hi :=
      le_min (by linarith [hwf.2.2.1, hwf.2.2.2]) hm.2.2.1
    linarith

/-- **C03, Or, the operands** (both activation variants). -/
theorem _root_.LNN.C03_or_operand_hull (t : Bool) (b : α) (self : Bounds α) (ops : List (Opd α))
    (hwf : WfIn self ops) (hfeas : ∃ xs, OrFeasible b self ops xs) (k : Nat) (r : Bounds α)
    (hr : (orUpDown t b self ops).2[k]? = some r) :
    (∀ xs x, OrFeasible b self ops xs → xs[k]? = some x → r.lo ≤ x ∧ x ≤ r.hi) ∧
    (∃ xs, OrFeasible b self ops xs ∧ xs[k]? = some r.lo) ∧
    (∃ xs, OrFeasible b self ops xs ∧ xs[k]? = some r.hi) := by
  have hfeas' : ∃ ys, Feasible b (negB self) (ops.map Opd.neg) ys := by
    have := (exists_orFeasible_iff b self ops (fun _ => True)).mp (by simpa using hfeas)
    simpa using this
  rw [orUpDown_eq t b self ops hwf.weights] at hr
  simp only [List.getElem?_map, Option.map_eq_some_iff] at hr
  obtain ⟨r', hr', rfl⟩ := hr
  obtain ⟨k1, k2, k3⟩ := C03_and_operand_hull b (negB self) (ops.map Opd.neg) hwf.neg hfeas' k r' hr'
  simp only [negB_lo, negB_hi]
  refine ⟨?_, ?_, ?_⟩
  · intro xs x hf hx
    have := k1 (xs.map (1 - ·)) (1 - x) ((orFeasible_iff b self ops xs).mp hf) (by simp [hx])
    constructor <;> linarith [this.1, this.2]
  · rw [exists_orFeasible_iff]
    obtain ⟨ys, hf, hv⟩ := k3
    exact ⟨ys, hf, by simp [hv]⟩
  · rw [exists_orFeasible_iff]
    obtain ⟨ys, hf, hv⟩ := k2
    exact ⟨ys, hf, by simp [hv]⟩

/-! ## Implies, by negation duality: `x → y` is `¬ (x ∧ ¬ y)` -/

theorem andDown_pair (b alpha L U : α) (p q : Opd α) :
    ∃ pp pq, andDown b alpha L U [p, q] = [pp, pq] := by
  unfold andDown
  exact ⟨_, _, rfl⟩

/-- Implies up/down is And up/down on `(x, ¬y)` with the negated connective; the connective and `y`
are negated back -/
theorem impliesUpDown_eq (b : α) (self : Bounds α) (x y : Opd α) :
    ∃ rx ry, (andUpDown b (negB self) [x, y.neg]).2 = [rx, ry] ∧
      impliesUpDown b self x y = (negB (andUpDown b (negB self) [x, y.neg]).1, [rx, negB ry]) := by
  have h1 : (aggregate .both self (impliesUp b [x, y])).1
      = negB (aggregate .both (negB self) (andUp b [x, y.neg])).1 := by
    rw [impliesUp_eq_negB, ← aggregate_negB, negB_negB]
  obtain ⟨px, py, h⟩ := andDown_pair b 1
    (aggregate .both (negB self) (andUp b [x, y.neg])).1.lo
    (aggregate .both (negB self) (andUp b [x, y.neg])).1.hi x y.neg
  refine ⟨writeBack x px, writeBack y.neg py, ?_, ?_⟩
  · simp [andUpDown, h]
  · unfold impliesUpDown impliesDown andUpDown
    simp only [h1, negB_lo, negB_hi, sub_sub_cancel, h]
    simp [writeBack_negB]

theorem impVal_eq (b : α) (x y : Opd α) (vx vy : α) :
    impVal b x y vx vy = 1 - andVal b [x, y.neg] [vx, 1 - vy] := by
  unfold impVal andVal andPre wsum
  rw [← clamp01_one_sub]
  simp only [List.zipWith_cons_cons, List.zipWith_nil_right, List.sum_cons, List.sum_nil, Opd.neg]
  congr 1; ring

theorem impFeasible_iff (b : α) (self : Bounds α) (x y : Opd α) (vx vy : α) :
    ImpFeasible b self x y vx vy ↔ Feasible b (negB self) [x, y.neg] [vx, 1 - vy] := by
  unfold ImpFeasible Feasible InBounds
  rw [impVal_eq]
  simp only [List.forall₂_cons, List.forall₂_nil_left_iff, and_true, Opd.neg, negB_lo, negB_hi]
  constructor
  · rintro ⟨h1, h2, h3, h4⟩
    exact ⟨⟨h1, by linarith [h2.2], by linarith [h2.1]⟩, by linarith, by linarith⟩
  · rintro ⟨⟨h1, h2, h2'⟩, h3, h4⟩
    exact ⟨h1, ⟨by linarith, by linarith⟩, by linarith, by linarith⟩

theorem WfIn.impNeg {self : Bounds α} {x y : Opd α} (h : WfIn self [x, y]) :
    WfIn (negB self) [x, y.neg] := by
  obtain ⟨h1, h2, h3, h4⟩ := h
  have hx := h1 x (by simp)
  have hy := h1 y (by simp)
  refine ⟨?_, ?_, ?_, ?_⟩
  · intro o ho
    simp only [List.mem_cons, List.not_mem_nil, or_false] at ho
    rcases ho with rfl | rfl
    · exact hx
    · simp only [Opd.neg]
      exact ⟨hy.1, by linarith [hy.2.2.2], by linarith [hy.2.2.1], by linarith [hy.2.1]⟩
  all_goals simp only [negB_lo, negB_hi]; linarith

/-- feasible Implies assignments `(vx, vy)` correspond to the feasible assignments `[vx, 1 - vy]` of
the dual And problem -/
theorem exists_impFeasible_iff (b : α) (self : Bounds α) (x y : Opd α) (P : α → α → Prop) :
    (∃ vx vy, ImpFeasible b self x y vx vy ∧ P vx vy)
      ↔ ∃ ys, Feasible b (negB self) [x, y.neg] ys ∧ ∃ a c, ys = [a, c] ∧ P a (1 - c) := by
  constructor
  · rintro ⟨vx, vy, h, hp⟩
    exact ⟨[vx, 1 - vy], (impFeasible_iff b self x y vx vy).mp h, vx, 1 - vy, rfl, by
      rwa [sub_sub_cancel]⟩
  · rintro ⟨ys, h, a, c, rfl, hp⟩
    refine ⟨a, 1 - c, (impFeasible_iff b self x y a (1 - c)).mpr ?_, hp⟩
    rwa [sub_sub_cancel]

theorem feasible_pair (b : α) (s : Bounds α) (p q : Opd α) (ys : List α)
    (h : Feasible b s [p, q] ys) : ∃ a c, ys = [a, c] := by
  obtain ⟨h1, _⟩ := h
  unfold InBounds at h1
  cases h1 with
  | cons _ h2 =>
    cases h2 with
    | cons _ h3 =>
      cases h3
      exact ⟨_, _, rfl⟩

theorem exists_impFeasible_iff' (b : α) (self : Bounds α) (x y : Opd α) :
    (∃ vx vy, ImpFeasible b self x y vx vy) ↔ ∃ ys, Feasible b (negB self) [x, y.neg] ys := by
  have := exists_impFeasible_iff b self x y (fun _ _ => True)
  simp only [and_true] at this
  rw [this]
  constructor
  · rintro ⟨ys, h, _⟩; exact ⟨ys, h⟩
  · rintro ⟨ys, h⟩
    obtain ⟨a, c, rfl⟩ := feasible_pair b _ x y.neg ys h
    exact ⟨_, h, a, c, rfl⟩

/-- **C03, Implies, the connective itself.** -/
theorem _root_.LNN.C03_implies_operator_hull
    (b : α) (self : Bounds α) (x y : Opd α) (hwf : WfIn self [x, y])
    (hfeas : ∃ vx vy, ImpFeasible b self x y vx vy) :
    let r := (impliesUpDown b self x y).1
    (∀ vx vy, ImpFeasible b self x y vx vy →
        r.lo ≤ impVal b x y vx vy ∧ impVal b x y vx vy ≤ r.hi) ∧
    (∃ vx vy, ImpFeasible b self x y vx vy ∧ impVal b x y vx vy = r.lo) ∧
    (∃ vx vy, ImpFeasible b self x y vx vy ∧ impVal b x y vx vy = r.hi) := by
  have hfeas' := (exists_impFeasible_iff' b self x y).mp hfeas
  obtain ⟨k1, k2, k3⟩ := C03_and_operator_hull b (negB self) [x, y.neg] hwf.impNeg hfeas'
  obtain ⟨rx, ry, _, heq⟩ := impliesUpDown_eq b self x y
  rw [heq]
  simp only [negB_lo, negB_hi]
  refine ⟨?_, ?_, ?_⟩
  · intro vx vy hf
    have := k1 _ ((impFeasible_iff b self x y vx vy).mp hf)
    rw [impVal_eq]
    constructor <;> linarith [this.1, this.2]
  · rw [exists_impFeasible_iff b self x y
      (fun vx vy => impVal b x y vx vy = 1 - (andUpDown b (negB self) [x, y.neg]).1.hi)]
    obtain ⟨ys, hf, hv⟩ := k3
    obtain ⟨a, c, rfl⟩ := feasible_pair b _ x y.neg ys hf
    exact ⟨_, hf, a, c, rfl, by rw [impVal_eq, sub_sub_cancel, hv]⟩
  · rw [exists_impFeasible_iff b self x y
      (fun vx vy => impVal b x y vx vy = 1 - (andUpDown b (negB self) [x, y.neg]).1.lo)]
    obtain ⟨ys, hf, hv⟩ := k2
    obtain ⟨a, c, rfl⟩ := feasible_pair b _ x y.neg ys hf
    exact ⟨_, hf, a, c, rfl, by rw [impVal_eq, sub_sub_cancel, hv]⟩

/-- **C03, Implies, no feasible assignment**: the upward step crosses the bounds of the
connective. -/
theorem _root_.LNN.C03_implies_infeasible
    (b : α) (self : Bounds α) (x y : Opd α) (hwf : WfIn self [x, y])
    (hinf : ¬ ∃ vx vy, ImpFeasible b self x y vx vy) :
    (impliesUpDown b self x y).1.lo > (impliesUpDown b self x y).1.hi ∧
      isContra 1 (impliesUpDown b self x y).1 = true := by
  have hinf' : ¬ ∃ ys, Feasible b (negB self) [x, y.neg] ys :=
    fun h => hinf ((exists_impFeasible_iff' b self x y).mpr h)
  have h := (C03_and_infeasible b (negB self) [x, y.neg] hwf.impNeg hinf').1
  have hfst := andUpDown_fst b (negB self) [x, y.neg] hwf.impNeg
  have hm := andUp_mem01 b [x, y.neg]
  obtain ⟨rx, ry, _, heq⟩ := impliesUpDown_eq b self x y
  have hcross : (impliesUpDown b self x y).1.hi < (impliesUpDown b self x y).1.lo := by
    rw [heq]
    simp only [negB_lo, negB_hi]
    linarith
  refine ⟨hcross, isContra_one_of_crossed _ ?_ ?_ hcross⟩
  · rw [heq, hfst]
    simp only [negB_lo, negB_hi, sub_nonneg]
    exact max_le (by linarith [hwf.2.1, hwf.2.2.1]) hm.2.1
  · rw [heq, hfst]
    simp only [negB_lo, negB_hi]
    have : 0 ≤ min (1 - self.lo) (andUp b [x, y.neg]).hi :=
      le_min (by linarith [hwf.2.2.1, hwf.2.2.2]) hm.2.2.1
    linarith

/-- **C03, Implies, the operands**: the downward step returns exactly two bounds `rx`, `ry`; they
contain the values of `x` and `y` in every feasible assignment and all four end points are attained
in feasible assignments. -/
theorem _root_.LNN.C03_implies_operand_hull
    (b : α) (self : Bounds α) (x y : Opd α) (hwf : WfIn self [x, y])
    (hfeas : ∃ vx vy, ImpFeasible b self x y vx vy) :
    ∃ rx ry, (impliesUpDown b self x y).2 = [rx, ry] ∧
      (∀ vx vy, ImpFeasible b self x y vx vy →
        (rx.lo ≤ vx ∧ vx ≤ rx.hi) ∧ (ry.lo ≤ vy ∧ vy ≤ ry.hi)) ∧
      (∃ vx vy, ImpFeasible b self x y vx vy ∧ vx = rx.lo) ∧
      (∃ vx vy, ImpFeasible b self x y vx vy ∧ vx = rx.hi) ∧
      (∃ vx vy, ImpFeasible b self x y vx vy ∧ vy = ry.lo) ∧
      (∃ vx vy, ImpFeasible b self x y vx vy ∧ vy = ry.hi) := by
  have hfeas' := (exists_impFeasible_iff' b self x y).mp hfeas
  obtain ⟨rx, ry, hand, heq⟩ := impliesUpDown_eq b self x y
  obtain ⟨x1, x2, x3⟩ := C03_and_operand_hull b (negB self) [x, y.neg] hwf.impNeg hfeas' 0 rx
    (by rw [hand]; rfl)
  obtain ⟨y1, y2, y3⟩ := C03_and_operand_hull b (negB self) [x, y.neg] hwf.impNeg hfeas' 1 ry
    (by rw [hand]; rfl)
  refine ⟨rx, negB ry, by rw [heq], ?_, ?_, ?_, ?_, ?_⟩
  · intro vx vy hf
    have hf' := (impFeasible_iff b self x y vx vy).mp hf
    have hx := x1 _ vx hf' rfl
    have hy := y1 _ (1 - vy) hf' rfl
    simp only [negB_lo, negB_hi]
    exact ⟨hx, by linarith [hy.2], by linarith [hy.1]⟩
  · rw [exists_impFeasible_iff b self x y (fun vx _ => vx = rx.lo)]
    obtain ⟨ys, hf, hv⟩ := x2
    obtain ⟨a, c, rfl⟩ := feasible_pair b _ x y.neg ys hf
    exact ⟨_, hf, a, c, rfl, by simpa using hv⟩
  · rw [exists_impFeasible_iff b self x y (fun vx _ => vx = rx.hi)]
    obtain ⟨ys, hf, hv⟩ := x3
    obtain ⟨a, c, rfl⟩ := feasible_pair b _ x y.neg ys hf
    exact ⟨_, hf, a, c, rfl, by simpa using hv⟩
  · rw [exists_impFeasible_iff b self x y (fun _ vy => vy = (negB ry).lo)]
    obtain ⟨ys, hf, hv⟩ := y3
    obtain ⟨a, c, rfl⟩ := feasible_pair b _ x y.neg ys hf
    refine ⟨_, hf, a, c, rfl, ?_⟩
    have : c = ry.hi := by simpa using hv
    simp [this]
  · rw [exists_impFeasible_iff b self x y (fun _ vy => vy = (negB ry).hi)]
    obtain ⟨ys, hf, hv⟩ := y2
    obtain ⟨a, c, rfl⟩ := feasible_pair b _ x y.neg ys hf
    refine ⟨_, hf, a, c, rfl, ?_⟩
    have : c = ry.lo := by simpa using hv
    simp [this]

/-! ## given bounds that are already crossed

`WfIn` asks for non-empty given intervals. If all given bounds lie in `[0,1]` but some given interval
is empty (crossed), there is trivially no feasible assignment, and the contradiction is already
present at that operand or at the connective before any step. Together with the `*_infeasible`
theorems: whenever no feasible assignment exists, a contradiction is reported at the connective or at
one of its operands. -/

/-- all given bounds lie in `[0,1]`, weights are non-negative; intervals may be crossed -/
def In01 (self : Bounds α) (ops : List (Opd α)) : Prop :=
  (∀ o ∈ ops, 0 ≤ o.w ∧ 0 ≤ o.lo ∧ o.lo ≤ 1 ∧ 0 ≤ o.hi ∧ o.hi ≤ 1) ∧
    0 ≤ self.lo ∧ self.lo ≤ 1 ∧ 0 ≤ self.hi ∧ self.hi ≤ 1

theorem wfIn_or_crossed (self : Bounds α) (ops : List (Opd α)) (h : In01 self ops) :
    WfIn self ops ∨ isContra 1 self = true ∨ ∃ o ∈ ops, isContra 1 (⟨o.lo, o.hi⟩ : Bounds α) = true := by
  obtain ⟨ho, s0, s1, s2, s3⟩ := h
  by_cases hs : self.lo ≤ self.hi
  · by_cases hc : ∀ o ∈ ops, o.lo ≤ o.hi
    · exact Or.inl ⟨fun o hm => ⟨(ho o hm).1, (ho o hm).2.1, hc o hm, (ho o hm).2.2.2.2⟩, s0, hs, s3⟩
    · push Not at hc
      obtain ⟨o, hm, hlt⟩ := hc
      exact Or.inr (Or.inr ⟨o, hm, isContra_one_of_crossed _ (ho o hm).2.2.2.1 (ho o hm).2.2.1 hlt⟩)
  · exact Or.inr (Or.inl (isContra_one_of_crossed _ s2 s1 (not_le.mp hs)))

/-- **C03, And, no feasible assignment, crossed inputs allowed**: a contradiction is reported at an
operand, at the connective as given, or at the connective after the upward step. -/
theorem _root_.LNN.C03_and_infeasible_reported (b : α) (self : Bounds α) (ops : List (Opd α))
    (h01 : In01 self ops) (hinf : ¬ ∃ xs, Feasible b self ops xs) :
    (∃ o ∈ ops, isContra 1 (⟨o.lo, o.hi⟩ : Bounds α) = true) ∨ isContra 1 self = true ∨
      isContra 1 (andUpDown b self ops).1 = true := by
  rcases wfIn_or_crossed self ops h01 with h | h | h
  · exact Or.inr (Or.inr (C03_and_infeasible b self ops h hinf).2)
  · exact Or.inr (Or.inl h)
  · exact Or.inl h

theorem _root_.LNN.C03_or_infeasible_reported
    (t : Bool) (b : α) (self : Bounds α) (ops : List (Opd α))
    (h01 : In01 self ops) (hinf : ¬ ∃ xs, OrFeasible b self ops xs) :
    (∃ o ∈ ops, isContra 1 (⟨o.lo, o.hi⟩ : Bounds α) = true) ∨ isContra 1 self = true ∨
      isContra 1 (orUpDown t b self ops).1 = true := by
  rcases wfIn_or_crossed self ops h01 with h | h | h
  · exact Or.inr (Or.inr (C03_or_infeasible t b self ops h hinf).2)
  · exact Or.inr (Or.inl h)
  · exact Or.inl h

theorem _root_.LNN.C03_implies_infeasible_reported (b : α) (self : Bounds α) (x y : Opd α)
    (h01 : In01 self [x, y]) (hinf : ¬ ∃ vx vy, ImpFeasible b self x y vx vy) :
    (∃ o ∈ [x, y], isContra 1 (⟨o.lo, o.hi⟩ : Bounds α) = true) ∨ isContra 1 self = true ∨
      isContra 1 (impliesUpDown b self x y).1 = true := by
  rcases wfIn_or_crossed self [x, y] h01 with h | h | h
  · exact Or.inr (Or.inr (C03_implies_infeasible b self x y h hinf).2)
  · exact Or.inr (Or.inl h)
  · exact Or.inl h


/-! ## link to the engine model: `andUpDown` is what `stepUp` followed by `stepDown` computes -/

section engine

variable {ι : Type} [DecidableEq ι]

theorem writeOps_other (l : List (Nat × ι × Bounds α)) (s : State ι α) (j : ι)
    (h : ∀ e ∈ l, e.2.1 ≠ j) : (writeOps l none s).1 j = s j := by
  induction l generalizing s with
  | nil => simp [writeOps]
  | cons e rest ih =>
    obtain ⟨k, j', p⟩ := e
    unfold writeOps
    simp only [true_or, if_true]
    rw [ih _ (fun e' he' => h e' (List.mem_cons_of_mem _ he'))]
    have : j' ≠ j := h (k, j', p) (List.mem_cons_self ..)
    simp [Function.update, this.symm]

/-- with pairwise distinct operands, each operand receives exactly the aggregation of its own
proposal with its previous bounds -/
theorem writeOps_nodup (js : List ι) (ps : List (Bounds α)) (k : Nat) (s : State ι α)
    (hnd : js.Nodup) (m : Nat) (hm : m < js.length) (hp : m < ps.length) :
    (writeOps (enumFrom k (List.zip js ps)) none s).1 js[m] = (aggregate .both (s js[m]) ps[m]).1 := by
  induction js generalizing ps k s m with
  | nil => simp at hm
  | cons j js ih =>
    cases ps with
    | nil => simp at hp
    | cons p ps =>
      have hj : j ∉ js := (List.nodup_cons.mp hnd).1
      simp only [List.zip_cons_cons, enumFrom]
      unfold writeOps
      simp only [true_or, if_true]
      cases m with
      | zero =>
        simp only [List.getElem_cons_zero]
        rw [writeOps_other]
        · simp
        · intro e he hej
          have := mem_enumFrom _ _ e he
          exact hj (hej ▸ (List.of_mem_zip this).1)
      | succ m =>
        simp only [List.getElem_cons_succ]
        have hm' : m < js.length := by simpa using hm
        have hp' : m < ps.length := by simpa using hp
        rw [ih ps (k + 1) _ (List.nodup_cons.mp hnd).2 m hm' hp']
        have hne : js[m] ≠ j := fun h => hj (h ▸ List.getElem_mem hm')
        simp [Function.update, hne]

theorem opds_congr (n : Node ι α) (s s' : State ι α) (h : ∀ j ∈ n.ops, s j = s' j) :
    opds n s = opds n s' := by
  unfold opds
  generalize n.ws = ws
  generalize n.ops = js at h
  induction js generalizing ws with
  | nil => simp
  | cons j js ih =>
    cases ws with
    | nil => simp
    | cons w ws =>
      simp only [List.zipWith_cons_cons, h j (List.mem_cons_self ..)]
      rw [ih ws (fun j' hj' => h j' (List.mem_cons_of_mem _ hj'))]

theorem actDown_congr (n : Node ι α) (self : Bounds α) (s s' : State ι α)
    (h : opds n s = opds n s') : actDown n self s = actDown n self s' := by
  unfold actDown; rw [h]

/-- a connective node (And, Or, Implies) -/
def IsConn (n : Node ι α) : Prop := n.kind = .and ∨ n.kind = .or ∨ n.kind = .implies

/-- **One upward and one downward step of the engine on a connective** with pairwise distinct
operands different from the node itself, from a state where the node is not arrested: `stepUp`
aggregates the upward activation into the node; if the node is still not arrested, `stepDown`
leaves it alone and aggregates the `m`-th downward proposal into the `m`-th operand. -/
theorem stepUp_stepDown_conn (kb : KB ι α) (i : ι) (s : State ι α) (hk : IsConn (kb i))
    (hnd : (kb i).ops.Nodup) (hi : i ∉ (kb i).ops) (h1 : arrested kb s i = false) :
    let s1 := (stepUp kb i s).1
    let s2 := (stepDown kb i none s1).1
    let self' := (aggregate .both (s i) (actUp (kb i) s)).1
    let props := actDown (kb i) self' s
    s1 i = self' ∧
    (arrested kb s1 i = false → s2 i = self' ∧
      ∀ m (hm : m < (kb i).ops.length) (hp : m < props.length),
        s2 ((kb i).ops[m]) = (aggregate .both (s ((kb i).ops[m])) props[m]).1) := by
  intro s1 s2 self' props
  have hs1 : s1 = Function.update s i self' := by
    rcases hk with hk | hk | hk <;> simp only [s1, stepUp, hk, h1] <;> rfl
  have hops : opds (kb i) s1 = opds (kb i) s := by
    apply opds_congr
    intro j hj
    have : j ≠ i := fun h => hi (h ▸ hj)
    simp [hs1, this]
  have hs1i : s1 i = self' := by simp [hs1]
  refine ⟨hs1i, fun h2 => ?_⟩
  have hs2 : s2 = (writeOps (enumFrom 0 (List.zip (kb i).ops props)) none s1).1 := by
    have hp : actDown (kb i) (s1 i) s1 = props := by
      rw [hs1i]; exact actDown_congr _ _ _ _ hops
    rcases hk with hk | hk | hk <;> simp only [s2, stepDown, hk, h2, hp] <;> rfl
  constructor
  · rw [hs2, writeOps_other, hs1i]
    intro e he hej
    have := mem_enumFrom _ _ e he
    exact hi (hej ▸ (List.of_mem_zip this).1)
  · intro m hm hp
    rw [hs2, writeOps_nodup _ _ 0 s1 hnd m hm hp]
    have hne : (kb i).ops[m] ≠ i := by
      intro h
      have hmem := List.getElem_mem hm
      rw [h] at hmem
      exact hi hmem
    have hs1m : s1 (kb i).ops[m] = s (kb i).ops[m] := by simp [hs1, hne]
    rw [hs1m]

/-- a node whose own bounds are contradictory is arrested: `stepDown` changes nothing -/
theorem stepDown_arrested (kb : KB ι α) (i : ι) (s : State ι α) (hk : IsConn (kb i))
    (hc : isContra (kb i).alpha (s i) = true) :
    arrested kb s i = true ∧ stepDown kb i none s = (s, 0) := by
  have harr : arrested kb s i = true := by
    unfold arrested
    simp [hc]
  refine ⟨harr, ?_⟩
  rcases hk with hk | hk | hk <;> simp [stepDown, hk, harr]

theorem zipWith_writeBack_get (n : Node ι α) (s : State ι α) (props : List (Bounds α)) (m : Nat)
    (hm : m < n.ops.length) (hm' : m < n.ws.length) (hp : m < props.length) :
    (List.zipWith writeBack (opds n s) props)[m]?
      = some (aggregate .both (s (n.ops[m])) props[m]).1 := by
  have hol : m < (opds n s).length := by simp [opds, hm, hm']
  simp only [List.getElem?_zipWith, List.getElem?_eq_getElem hol, List.getElem?_eq_getElem hp]
  simp [writeBack, opds]

/-- the same with the operand results collected in a list, for any description `self'`, `props`
of the two activations -/
theorem stepUp_stepDown_list (kb : KB ι α) (i : ι) (s : State ι α) (hk : IsConn (kb i))
    (hlen : (kb i).ops.length = (kb i).ws.length) (hnd : (kb i).ops.Nodup) (hi : i ∉ (kb i).ops)
    (h1 : arrested kb s i = false) (self' : Bounds α) (props : List (Bounds α))
    (hself : (aggregate .both (s i) (actUp (kb i) s)).1 = self')
    (hprops : actDown (kb i) self' s = props) :
    (stepUp kb i s).1 i = self' ∧
    (arrested kb (stepUp kb i s).1 i = false →
      (stepDown kb i none (stepUp kb i s).1).1 i = self' ∧
      ∀ m (hm : m < (kb i).ops.length), m < props.length →
        (List.zipWith writeBack (opds (kb i) s) props)[m]?
          = some ((stepDown kb i none (stepUp kb i s).1).1 ((kb i).ops[m]))) := by
  subst hself
  subst hprops
  obtain ⟨k1, k2⟩ := stepUp_stepDown_conn kb i s hk hnd hi h1
  refine ⟨k1, fun h2 => ⟨(k2 h2).1, fun m hm hp => ?_⟩⟩
  rw [(k2 h2).2 m hm hp]
  exact zipWith_writeBack_get (kb i) s _ m hm (hlen ▸ hm) hp

/-- **`andUpDown` is the engine** on an And node at alpha = 1 with as many weights as operands:
`stepUp` writes `(andUpDown …).1` on the node and, unless that arrests the node, `stepDown` writes
`(andUpDown …).2[m]` on the `m`-th operand. -/
theorem _root_.LNN.C03_engine_and (kb : KB ι α) (i : ι) (s : State ι α)
    (hk : (kb i).kind = .and) (ha : (kb i).alpha = 1)
    (hlen : (kb i).ops.length = (kb i).ws.length) (hnd : (kb i).ops.Nodup) (hi : i ∉ (kb i).ops)
    (h1 : arrested kb s i = false) :
    let s1 := (stepUp kb i s).1
    let s2 := (stepDown kb i none s1).1
    let res := andUpDown (kb i).bias (s i) (opds (kb i) s)
    s1 i = res.1 ∧
    (arrested kb s1 i = false → s2 i = res.1 ∧
      ∀ m (hm : m < (kb i).ops.length), res.2[m]? = some (s2 ((kb i).ops[m]))) := by
  intro s1 s2 res
  obtain ⟨k1, k2⟩ := stepUp_stepDown_list kb i s (Or.inl hk) hlen hnd hi h1 res.1
    (andDown (kb i).bias 1 res.1.lo res.1.hi (opds (kb i) s))
    (by simp only [actUp, hk]; rfl) (by simp only [actDown, hk, ha])
  refine ⟨k1, fun h2 => ⟨(k2 h2).1, fun m hm => (k2 h2).2 m hm ?_⟩⟩
  simp [andDown, opds, hm, hlen ▸ hm]

/-- **`orUpDown` is the engine** on an Or node (either activation variant). -/
theorem _root_.LNN.C03_engine_or (kb : KB ι α) (i : ι) (s : State ι α)
    (hk : (kb i).kind = .or) (ha : (kb i).alpha = 1)
    (hlen : (kb i).ops.length = (kb i).ws.length) (hnd : (kb i).ops.Nodup) (hi : i ∉ (kb i).ops)
    (h1 : arrested kb s i = false) :
    let s1 := (stepUp kb i s).1
    let s2 := (stepDown kb i none s1).1
    let res := orUpDown (kb i).transparent (kb i).bias (s i) (opds (kb i) s)
    s1 i = res.1 ∧
    (arrested kb s1 i = false → s2 i = res.1 ∧
      ∀ m (hm : m < (kb i).ops.length), res.2[m]? = some (s2 ((kb i).ops[m]))) := by
  intro s1 s2 res
  obtain ⟨k1, k2⟩ := stepUp_stepDown_list kb i s (Or.inr (Or.inl hk)) hlen hnd hi h1 res.1
    (orDown (kb i).bias 1 res.1.lo res.1.hi (opds (kb i) s))
    (by simp only [actUp, hk]; rfl) (by simp only [actDown, hk, ha])
  refine ⟨k1, fun h2 => ⟨(k2 h2).1, fun m hm => (k2 h2).2 m hm ?_⟩⟩
  simp [orDown, andDown, opds, hm, hlen ▸ hm]

/-- **`impliesUpDown` is the engine** on an Implies node whose operands are seen as `[x, y]`. -/
theorem _root_.LNN.C03_engine_implies (kb : KB ι α) (i : ι) (s : State ι α) (x y : Opd α)
    (hk : (kb i).kind = .implies) (ha : (kb i).alpha = 1) (hxy : opds (kb i) s = [x, y])
    (hlen : (kb i).ops.length = (kb i).ws.length) (hnd : (kb i).ops.Nodup) (hi : i ∉ (kb i).ops)
    (h1 : arrested kb s i = false) :
    let s1 := (stepUp kb i s).1
    let s2 := (stepDown kb i none s1).1
    let res := impliesUpDown (kb i).bias (s i) x y
    s1 i = res.1 ∧
    (arrested kb s1 i = false → s2 i = res.1 ∧
      ∀ m (hm : m < (kb i).ops.length), res.2[m]? = some (s2 ((kb i).ops[m]))) := by
  intro s1 s2 res
  obtain ⟨k1, k2⟩ := stepUp_stepDown_list kb i s (Or.inr (Or.inr hk)) hlen hnd hi h1 res.1
    (impliesDown (kb i).bias 1 res.1.lo res.1.hi [x, y])
    (by simp only [actUp, hk, hxy]; rfl) (by simp only [actDown, hk, ha, hxy])
  rw [hxy] at k2
  refine ⟨k1, fun h2 => ⟨(k2 h2).1, fun m hm => (k2 h2).2 m hm ?_⟩⟩
  have hl : (kb i).ops.length = 2 := by
    have : (opds (kb i) s).length = 2 := by rw [hxy]; rfl
    simp only [opds, List.length_zipWith, ← hlen, min_self] at this
    exact this
  obtain ⟨px, py, h⟩ := andDown_pair (kb i).bias 1 (1 - res.1.hi) (1 - res.1.lo) x y.neg
  have : (impliesDown (kb i).bias 1 res.1.lo res.1.hi [x, y]).length = 2 := by
    simp [impliesDown, h]
  omega

/-- when the given bounds allow no assignment the node is arrested after `stepUp`, so `stepDown`
changes nothing: the contradiction is reported at the connective (And) -/
theorem _root_.LNN.C03_engine_arrest_and (kb : KB ι α) (i : ι) (s : State ι α)
    (hk : (kb i).kind = .and) (ha : (kb i).alpha = 1) (h1 : arrested kb s i = false)
    (hwf : WfIn (s i) (opds (kb i) s))
    (hinf : ¬ ∃ xs, Feasible (kb i).bias (s i) (opds (kb i) s) xs) :
    let s1 := (stepUp kb i s).1
    isContra 1 (s1 i) = true ∧ arrested kb s1 i = true ∧ stepDown kb i none s1 = (s1, 0) := by
  intro s1
  have hs1 : s1 i = (andUpDown (kb i).bias (s i) (opds (kb i) s)).1 := by
    simp only [s1, stepUp, hk, h1, actUp, andUpDown]
    simp
  have hc := (C03_and_infeasible (kb i).bias (s i) (opds (kb i) s) hwf hinf).2
  rw [← hs1] at hc
  exact ⟨hc, stepDown_arrested kb i s1 (Or.inl hk) (by rw [ha]; exact hc)⟩

theorem _root_.LNN.C03_engine_arrest_or (kb : KB ι α) (i : ι) (s : State ι α)
    (hk : (kb i).kind = .or) (ha : (kb i).alpha = 1) (h1 : arrested kb s i = false)
    (hwf : WfIn (s i) (opds (kb i) s))
    (hinf : ¬ ∃ xs, OrFeasible (kb i).bias (s i) (opds (kb i) s) xs) :
    let s1 := (stepUp kb i s).1
    isContra 1 (s1 i) = true ∧ arrested kb s1 i = true ∧ stepDown kb i none s1 = (s1, 0) := by
  intro s1
  have hs1 : s1 i = (orUpDown (kb i).transparent (kb i).bias (s i) (opds (kb i) s)).1 := by
    simp only [s1, stepUp, hk, h1, actUp, orUpDown]
    simp
  have hc := (C03_or_infeasible (kb i).transparent (kb i).bias (s i) (opds (kb i) s) hwf hinf).2
  rw [← hs1] at hc
  exact ⟨hc, stepDown_arrested kb i s1 (Or.inr (Or.inl hk)) (by rw [ha]; exact hc)⟩

theorem _root_.LNN.C03_engine_arrest_implies (kb : KB ι α) (i : ι) (x y : Opd α) (s : State ι α)
    (hk : (kb i).kind = .implies) (ha : (kb i).alpha = 1) (h1 : arrested kb s i = false)
    (hops : opds (kb i) s = [x, y]) (hwf : WfIn (s i) [x, y])
    (hinf : ¬ ∃ vx vy, ImpFeasible (kb i).bias (s i) x y vx vy) :
    let s1 := (stepUp kb i s).1
    isContra 1 (s1 i) = true ∧ arrested kb s1 i = true ∧ stepDown kb i none s1 = (s1, 0) := by
  intro s1
  have hs1 : s1 i = (impliesUpDown (kb i).bias (s i) x y).1 := by
    simp only [s1, stepUp, hk, h1, actUp, impliesUpDown, hops]
    simp
  have hc := (C03_implies_infeasible (kb i).bias (s i) x y hwf hinf).2
  rw [← hs1] at hc
  exact ⟨hc, stepDown_arrested kb i s1 (Or.inr (Or.inr hk)) (by rw [ha]; exact hc)⟩

end engine


/-! ## non-vacuity: concrete instances over ℚ meet every hypothesis, and the two steps really
tighten bounds -/

/-- weights (1/2, 1, 2) — operands `[1/4,3/4]`, `[1/2,1]`, `[0,1]` -/
def exOps : List (Opd ℚ) := [⟨1/2, 1/4, 3/4⟩, ⟨1, 1/2, 1⟩, ⟨2, 0, 1⟩]

def exSelf : Bounds ℚ := ⟨1/2, 3/4⟩

example : WfIn exSelf exOps := by
  unfold WfIn exSelf exOps
  simp; norm_num

/-- a feasible assignment: `1 - 1/2·(1/2) - 1·0 - 2·(1/8) = 1/2` -/
example : Feasible 1 exSelf exOps [1/2, 1, 7/8] := by
  simp [Feasible, InBounds, exSelf, exOps, andVal, andPre, wsum, clamp01]; norm_num

/-- bias 1, operator bounds `[1/2, 3/4]`: the connective keeps `[1/2,3/4]` (upward gives `[0,7/8]`),
operand 1 keeps `[1/4,3/4]`, operand 2 is tightened to `[5/8,1]`, operand 3 to `[13/16,1]` -/
theorem exAnd_eq :
    andUpDown 1 exSelf exOps = (⟨1/2, 3/4⟩, [⟨1/4, 3/4⟩, ⟨5/8, 1⟩, ⟨13/16, 1⟩]) := by
  simp [andUpDown, writeBack, aggregate, andUp, andDown, exSelf, exOps, termLo, termHi, sumW, clamp01]
  norm_num

/-- an infeasible instance: upward gives `[0,7/8]`, the operator is claimed to be in `[15/16,1]` -/
example : ¬ ∃ xs, Feasible 1 (⟨15/16, 1⟩ : Bounds ℚ) exOps xs := by
  rw [exists_feasible_iff 1 _ exOps (by unfold WfIn exOps; simp; norm_num)]
  simp [andUpDown, aggregate, andUp, exOps, termLo, termHi, clamp01]
  norm_num

example : (andUpDown 1 (⟨15/16, 1⟩ : Bounds ℚ) exOps).1 = ⟨15/16, 7/8⟩ := by
  simp [andUpDown, aggregate, andUp, exOps, termLo, termHi, clamp01]
  norm_num

/-- a weight-0 operand is left alone while the other one is tightened to `[1/2,1]` -/
example : andUpDown 1 (⟨1/2, 1⟩ : Bounds ℚ) [⟨0, 1/4, 1/2⟩, ⟨1, 0, 1⟩]
    = (⟨1/2, 1⟩, [⟨1/4, 1/2⟩, ⟨1/2, 1⟩]) := by
  simp [andUpDown, writeBack, aggregate, andUp, andDown, termLo, termHi, sumW, clamp01]
  norm_num

example : OrFeasible 1 exSelf exOps [1/4, 1/2, 0] := by
  simp [OrFeasible, InBounds, exSelf, exOps, orVal, psum, clamp01]; norm_num

/-- Or with the same data: upward gives `[5/8,1]`, so the connective becomes `[5/8,3/4]` and every
operand is tightened from above -/
example : orUpDown true 1 exSelf exOps
    = (⟨5/8, 3/4⟩, [⟨1/4, 1/2⟩, ⟨1/2, 5/8⟩, ⟨0, 1/16⟩]) := by
  simp [orUpDown, writeBack, aggregate, orUp, orDown, andDown, negB, Opd.neg, exSelf, exOps, termLo,
    termHi, sumW, clamp01]
  norm_num

example : WfIn exSelf [(⟨1, 1/2, 1⟩ : Opd ℚ), ⟨2, 0, 1⟩] := by
  unfold WfIn exSelf
  simp; norm_num

example : ImpFeasible 1 exSelf (⟨1, 1/2, 1⟩ : Opd ℚ) ⟨2, 0, 1⟩ 1 (1/4) := by
  simp [ImpFeasible, exSelf, impVal, clamp01]; norm_num

/-- Implies `x → y` with weights (1, 2): `y` is tightened from `[0,1]` to `[0,3/8]` -/
example : impliesUpDown 1 exSelf (⟨1, 1/2, 1⟩ : Opd ℚ) ⟨2, 0, 1⟩
    = (⟨1/2, 3/4⟩, [⟨1/2, 1⟩, ⟨0, 3/8⟩]) := by
  simp [impliesUpDown, writeBack, aggregate, impliesUp, impliesDown, andDown, negB, Opd.neg, exSelf,
    termLo, termHi, sumW, clamp01]
  norm_num

/-- the And example as a knowledge base: node 3 = And(0, 1, 2), weights (1/2, 1, 2), bias 1 -/
def exKB3 : KB Nat ℚ := fun i =>
  match i with
  | 3 => { kind := .and, ops := [0, 1, 2], ws := [1/2, 1, 2], bias := 1, alpha := 1 }
  | _ => { kind := .atom, bias := 1, alpha := 1 }

def exS3 : State Nat ℚ := fun i =>
  match i with
  | 0 => ⟨1/4, 3/4⟩ | 1 => ⟨1/2, 1⟩ | 2 => ⟨0, 1⟩ | 3 => ⟨1/2, 3/4⟩ | _ => ⟨0, 1⟩

example : opds (exKB3 3) exS3 = exOps ∧ exS3 3 = exSelf := by
  simp [opds, exKB3, exS3, exOps, exSelf]

/-- the hypotheses of `C03_engine_and` hold (nothing is arrested before or after `stepUp`), so
the engine itself tightens operand 2 to `[13/16, 1]` -/
example : (stepDown exKB3 3 none (stepUp exKB3 3 exS3).1).1 2 = ⟨13/16, 1⟩ := by
  have h1 : arrested exKB3 exS3 3 = false := by
    simp [arrested, exKB3, isContra]
    simp [exS3]
    norm_num
  have h2 : arrested exKB3 (stepUp exKB3 3 exS3).1 3 = false := by
    simp only [stepUp, h1]
    simp [arrested, actUp, opds, andUp, aggregate, clamp01, termLo, termHi, exKB3, isContra,
      Function.update]
    simp [exS3]
    norm_num
  have h := ((C03_engine_and exKB3 3 exS3 rfl rfl rfl (by simp [exKB3]) (by simp [exKB3])
    h1).2 h2).2 2 (by simp [exKB3])
  have e1 : opds (exKB3 3) exS3 = exOps := by simp [opds, exKB3, exS3, exOps]
  have e2 : exS3 3 = exSelf := rfl
  have e3 : (exKB3 3).bias = 1 := rfl
  simp only [e1, e2, e3, exAnd_eq] at h
  simpa [exKB3] using h.symm

end LNN.C03
