/-
C06 (first-order half of "Model.infer() returns") and C13 (first-order amounts, quantitatively).

`Props/C06.lean` proves termination for propositional knowledge bases and, for first-order ones,
that a *converged* `infer()` leaves a genuine fixpoint — with convergence as a hypothesis. This
file removes that hypothesis: on a knowledge base with finitely many constants the first-order
loop converges within an explicit number of sweeps.

The argument (all proofs in `Lemmas/FolTerm.lean`):
* the reported amount of every call — connectives with either grounding-management branch and
  duplicate merging, Not, quantifiers with their single-bound selection — EQUALS the drop of the
  potential `Φ U s = Σ_{(i,g) ∈ U} width(what a query of grounding g of formula i returns)` over any
  finite universe `U` that contains the stored groundings (`C13_fol_amount_eq_potential_drop`);
* a sweep that does not converge either creates a row (at most `|U|` times: rows are never
  removed, each grounding is stored once) or reports more than `eps` (at most `(Φ + |U|)/eps`
  times, `Φ ≥ -|U|` because bounds stay in [0,1] even when crossed);
* the universe of all tuples over the constant set is closed under every call
  (`C06_fol_terminates_constants`): joins, projections and quantifier groups only rearrange
  constants that are already there.
-/
import LnnVerif.Lemmas.FolTerm
import LnnVerif.Lemmas.PendTerm
import LnnVerif.Props.C06

set_option linter.unusedSectionVars false

namespace LNN

open FolAmount FolFix FolTerm PendTerm

variable {ι : Type} [DecidableEq ι] {α : Type} [Field α] [LinearOrder α] [IsStrictOrderedRing α]

/-- the amount a list of first-order calls reports is exactly the drop of the total interval width
read over any finite universe containing the stored groundings -/
theorem C13_fol_amount_eq_potential_drop (kb : FKB ι α) (hw : WorldsInUnit kb) {U : List (ι × Gr)}
    (hU : U.Nodup) (cs : List (FCall ι)) (s : FState ι α) (hs : SInUnit s)
    (hin : Inside U (runFCalls kb cs s).1) :
    (runFCalls kb cs s).2 = Φ U kb s - Φ U kb (runFCalls kb cs s).1 :=
  runFCalls_amount_eq kb hw hU cs s hs hin

/-- **first-order `infer()` returns**: over any finite universe `U` of groundings that the
scheduled calls do not leave, the loop converges within `|U| - (rows present) + N` sweeps, where
`N·eps` exceeds `Φ + |U|` -/
theorem C06_fol_terminates (kb : FKB ι α) (hw : WorldsInUnit kb) (nodes : List ι) (hnd : nodes.Nodup)
    (up down : List (FCall ι)) (eps : α) {U : List (ι × Gr)} (hU : U.Nodup)
    (hcl : ∀ c ∈ up ++ down, ∀ t, SInUnit t → SNodup t → Inside U t → Inside U (runFCall kb c t).1)
    (s : FState ι α) (hs : SInUnit s) (hn : SNodup s) (hin : Inside U s) (N fuel : Nat)
    (hN : Φ U kb s + U.length < N * eps)
    (hfuel : U.length - nGroundings nodes s + N < fuel) :
    (fInfer kb nodes up down eps fuel s).converged = true :=
  fInfer_terminates kb hw nodes hnd up down eps hU hcl s hs hn hin N fuel hN hfuel

/-- **finitely many constants**: the universe of all tuples over the constant list `C` is closed
under every call on a well-formed formula (any kind, quantifiers included), so `infer()` returns
on every first-order knowledge base whose data mention only constants of `C` -/
theorem C06_fol_terminates_constants (kb : FKB ι α) (hw : WorldsInUnit kb) (nodes : List ι)
    (hnd : nodes.Nodup) (up down : List (FCall ι)) (eps : α) (ar : ι → Nat) (C : List Nat)
    (hC : C.Nodup) (h0 : 0 ∈ C)
    (hwf : ∀ c ∈ up ++ down, CallWF kb nodes ar (cnode c))
    (s : FState ι α) (hs : SInUnit s) (hn : SNodup s) (hin : SAll (QC nodes ar C) s)
    (N fuel : Nat) (hN : Φ (CU nodes ar C) kb s + (CU nodes ar C).length < N * eps)
    (hfuel : (CU nodes ar C).length - nGroundings nodes s + N < fuel) :
    (fInfer kb nodes up down eps fuel s).converged = true :=
  fInfer_terminates_constants kb hw nodes hnd up down eps ar C hC h0 hwf s hs hn hin N fuel hN hfuel

/-- over ℚ or ℝ a sufficient step limit exists for every threshold `eps > 0` -/
theorem C06_fol_terminates_exists [Archimedean α] (kb : FKB ι α) (hw : WorldsInUnit kb)
    (nodes : List ι) (hnd : nodes.Nodup) (up down : List (FCall ι)) (eps : α) (heps : 0 < eps)
    (ar : ι → Nat) (C : List Nat) (hC : C.Nodup) (h0 : 0 ∈ C)
    (hwf : ∀ c ∈ up ++ down, CallWF kb nodes ar (cnode c))
    (s : FState ι α) (hs : SInUnit s) (hn : SNodup s) (hin : SAll (QC nodes ar C) s) :
    ∃ fuel, (fInfer kb nodes up down eps fuel s).converged = true :=
  fInfer_terminates_constants_exists kb hw nodes hnd up down eps heps ar C hC h0 hwf s hs hn hin

/-- **C06 for first-order knowledge bases, both halves**: `infer()` returns, and in the state it
leaves every scheduled upward or downward call is the identity and reports 0 (given exactly
representable bounds: `RunExact`) -/
theorem C06_fol_returns_at_fixpoint [Archimedean α] (kb : FKB ι α) (hw : WorldsInUnit kb)
    (nodes : List ι) (hnd : nodes.Nodup) (up down : List (FCall ι)) (eps : α) (heps : 0 < eps)
    (ar : ι → Nat) (C : List Nat) (hC : C.Nodup) (h0 : 0 ∈ C)
    (hwf : ∀ c ∈ up ++ down, CallWF kb nodes ar (cnode c))
    (s : FState ι α) (hs : SInUnit s) (hn : SNodup s) (hin : SAll (QC nodes ar C) s)
    (hexact : RunExact kb up down eps s) :
    ∃ fuel, (fInfer kb nodes up down eps fuel s).converged = true ∧
      ∀ c ∈ up ++ down, CallFix kb c (fInfer kb nodes up down eps fuel s).state := by
  obtain ⟨fuel, hconv⟩ :=
    C06_fol_terminates_exists kb hw nodes hnd up down eps heps ar C hC h0 hwf s hs hn hin
  refine ⟨fuel, hconv, ?_⟩
  exact C06_fol_fixpoint kb hw nodes up down eps fuel s hs hn hconv hexact
    (fun c hc => ⟨(hwf c hc).node, (hwf c hc).ops⟩)

/-! non-vacuity: the hypotheses of `C06_fol_terminates_constants` hold together on a concrete
knowledge base (`FolAmount.exKB`: P and ¬P over the constant 0; the run creates the row ¬P(0),
reports 1 = the loss of potential, and converges in the second sweep — evaluated in
`Lemmas/FolTerm.lean`, section examples) -/
example : (fInfer exKB [0, 1] [.up 0, .up 1] [.down 1 none, .down 0 none] (1/10) 33
    exS).converged = true := by
  apply C06_fol_terminates_constants exKB exKB_worlds [0, 1] (by decide) _ _ (1/10) (fun _ => 1)
    [0] (by decide) (by simp) exKB_wf exS exS_inUnit exS_snodup
    (fun i g hg => mem_CU.mp (exCU ▸ exS_inside i g hg)) 31 33
  · rw [exCU, exS_phi]; simp [exU]; norm_num
  · rw [exCU]; simp [nGroundings, exS, FState.get, exU]

/-! ### the EXECUTED loop: `pInfer`, with grounding propagation through partially quantified sub-formulae

`pInfer` (what the driver runs against the implementation) layers `_Quantifier._add_groundings` /
`_propagate_groundings` over the plain calls. Its convergence test is the same; pending groundings
act only by creating world-default rows (which the row count sees) and cannot keep the loop alive.
Proofs in `Lemmas/PendTerm.lean`. -/

/-- the amount a list of LAYERED calls reports equals the drop of the potential (propagation
contributes 0: it changes no reading) -/
theorem C13_layer_amount_eq_potential_drop (kb : FKB ι α) (hw : WorldsInUnit kb) {U : List (ι × Gr)}
    (hU : U.Nodup) (cs : List (FCall ι)) (p : PState ι α) (hs : SInUnit p.st)
    (hin : Inside U (runPCalls kb cs p).1.st) :
    (runPCalls kb cs p).2 = Φ U kb p.st - Φ U kb (runPCalls kb cs p).1.st :=
  runPCalls_amount_eq kb hw hU cs p hs hin

/-- **the executed first-order `infer()` returns** on every knowledge base over finitely many
constants, partially quantified operands included, whatever is pending at the start (as long as
the pending groundings are tuples over the constants) -/
theorem C06_layer_terminates_constants (kb : FKB ι α) (hw : WorldsInUnit kb) (nodes : List ι)
    (hnd : nodes.Nodup) (up down : List (FCall ι)) (eps : α) (ar : ι → Nat) (C : List Nat)
    (hC : C.Nodup) (h0 : 0 ∈ C)
    (hwf : ∀ c ∈ up ++ down, CallWF kb nodes ar (cnode c))
    (p : PState ι α) (hs : SInUnit p.st) (hn : SNodup p.st) (hin : SAll (QC nodes ar C) p.st)
    (hpend : PAll (QC nodes ar C) p)
    (N fuel : Nat) (hN : Φ (CU nodes ar C) kb p.st + (CU nodes ar C).length < N * eps)
    (hfuel : (CU nodes ar C).length - nGroundings nodes p.st + N < fuel) :
    (pInfer kb nodes up down eps fuel p).converged = true :=
  pInfer_terminates_constants kb hw nodes hnd up down eps ar C hC h0 hwf p hs hn hin hpend N fuel hN hfuel

/-- with a query, the loop converges or leaves through the early exit (which by definition reports
`converged = false`: `PendTerm.pInferQ_stop_not_converged`) -/
theorem C06_layer_query_terminates (kb : FKB ι α) (hw : WorldsInUnit kb) (nodes : List ι)
    (hnd : nodes.Nodup) (up down : List (FCall ι)) (eps : α) {U : List (ι × Gr)} (hU : U.Nodup)
    (hcl : ∀ c ∈ up ++ down, ∀ q : PState ι α, SInUnit q.st → SNodup q.st → Inside U q.st →
      Inside U (runPCall kb c q).1.st)
    (query : Option ι) (p : PState ι α) (hs : SInUnit p.st) (hn : SNodup p.st) (hin : Inside U p.st)
    (N fuel : Nat) (hN : Φ U kb p.st + U.length < N * eps)
    (hfuel : U.length - nGroundings nodes p.st + N < fuel) :
    (pInferQ kb nodes up down eps query fuel p).converged = true ∨
      fQueryStop kb query (pInferQ kb nodes up down eps query fuel p).state.st = true :=
  pInferQ_terminates kb hw nodes hnd up down eps hU query hcl p hs hn hin N fuel hN hfuel

end LNN
