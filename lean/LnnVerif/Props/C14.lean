/-
C14 — World assumptions define the default of everything not asserted.

A grounding that has never been asserted reads as its formula's world default (OPEN: unknown
`⟨0,1⟩`, CLOSED: false `⟨0,0⟩`, AXIOM: true `⟨1,1⟩`), both when queried directly (`Table.getD`) and
when a join or a downward step introduces it into a table (`Table.addg`, `addAll`, `groundings`):
rows are only ever *created* at the world default, in leaf and working bounds alike. Querying an
unknown grounding does not create it: the model's read is a function of the table and returns no
table (the implementation is tied to this by the correspondence stream, which flags CREATED-ROW).
Formulae added as axioms start TRUE and stay TRUE unless contradicted: from `⟨1,1⟩` every
aggregation — single (`aggregate`, `aggRow`) or merged (`writeMerged`) — yields `⟨1,1⟩` again or
crossed bounds; dually for CLOSED/FALSE.

Nothing here needs a hypothesis on the table; the invariant "a grounding is stored at most once"
(`Table.NodupKeys`) is preserved by every operation (last section) and turns the membership
statements (`r ∈ t`) into statements about what is read (`Table.find?`).
-/
import LnnVerif.Lemmas.TableLemmas
import LnnVerif.Lemmas.Arith
import Mathlib.Algebra.Order.Field.Rat
import LnnVerif.Lemmas.PendLemmas

set_option linter.unusedSectionVars false

namespace LNN

/-! ### reading -/

section reading

variable {ι : Type} [DecidableEq ι] {α : Type}

/-- a grounding that is not stored reads as the world default -/
theorem C14_get_missing (w : Bounds α) (t : Table α) (g : Gr) (h : Table.find? t g = none) :
    Table.getD w t g = w :=
  Table.getD_of_none h

theorem C14_get_missing' (w : Bounds α) (t : Table α) (g : Gr) (h : Table.has t g = false) :
    Table.getD w t g = w :=
  Table.getD_of_none (Table.has_eq_false_iff.mp h)

theorem C14_get_missing'' (w : Bounds α) (t : Table α) (g : Gr) (h : g ∉ Table.keys t) :
    Table.getD w t g = w :=
  Table.getD_of_none (Table.find?_eq_none_iff.mpr h)

/-- a stored grounding reads as its working bounds -/
theorem C14_get_present (w : Bounds α) (t : Table α) (g : Gr) (r : Row α)
    (h : Table.find? t g = some r) : Table.getD w t g = r.b :=
  Table.getD_of_some h

/-- the model's query operation (`get_data` / `state` on a grounding): returns the state it was
given and the bounds read through the formula's world default -/
def query (s : FState ι α) (kb : FKB ι α) (i : ι) (g : Gr) : FState ι α × Bounds α :=
  (s, Table.getD (kb i).world (s.get i) g)

/-- querying writes nothing — in particular querying an unknown grounding does not create it -/
theorem C14_query_pure (s : FState ι α) (kb : FKB ι α) (i : ι) (g : Gr) : (query s kb i g).1 = s := rfl

/-- after a query of a grounding that is not stored, it is still not stored (and the answer was the
world default) -/
theorem C14_query_unknown (s : FState ι α) (kb : FKB ι α) (i : ι) (g : Gr)
    (h : Table.has (s.get i) g = false) :
    (query s kb i g).2 = (kb i).world ∧ Table.has ((query s kb i g).1.get i) g = false :=
  ⟨C14_get_missing' _ _ _ h, h⟩

end reading

/-! ### row creation -/

section creation

variable {ι : Type} [DecidableEq ι] {α : Type}

/-- rows created by joins / propagation start at the world default in BOTH leaf and working bounds -/
theorem C14_addg_new_row (w : Bounds α) (t : Table α) (gs : List Gr) (g : Gr) (hg : g ∈ gs)
    (h : Table.has t g = false) : Table.find? (Table.addg w t gs) g = some ⟨g, w, w⟩ :=
  Table.addg_new_row hg h

/-- rows that exist are not touched -/
theorem C14_addg_keeps (w : Bounds α) (t : Table α) (gs : List Gr) (g : Gr) (r : Row α)
    (h : Table.find? t g = some r) : Table.find? (Table.addg w t gs) g = some r :=
  Table.addg_keeps gs h

theorem C14_addg_keys (w : Bounds α) (t : Table α) (gs : List Gr) (g : Gr) :
    g ∈ Table.keys (Table.addg w t gs) ↔ g ∈ Table.keys t ∨ g ∈ gs :=
  Table.mem_keys_addg

theorem C14_addg_only_world (w : Bounds α) (t : Table α) (gs : List Gr) :
    ∀ r ∈ Table.addg w t gs, r ∈ t ∨ r = ⟨r.g, w, w⟩ :=
  Table.addg_only_world w t gs

/-- all three in one: what is read at any grounding after row creation -/
theorem C14_addg_find (w : Bounds α) (t : Table α) (gs : List Gr) (g : Gr) :
    Table.find? (Table.addg w t gs) g =
      match Table.find? t g with
      | some r => some r
      | none => if g ∈ gs then some ⟨g, w, w⟩ else none :=
  Table.find?_addg w t gs g

/-- introducing a grounding into a table does not change what a query of it returns: the value read
through the world default is the same before and after -/
theorem C14_addg_read_unchanged (w : Bounds α) (t : Table α) (gs : List Gr) (g : Gr) :
    Table.getD w (Table.addg w t gs) g = Table.getD w t g :=
  Table.getD_addg w t gs g

end creation

section groundings

variable {ι : Type} [DecidableEq ι] {α : Type} [Field α] [LinearOrder α]

theorem C14_addAll_only_world (kb : FKB ι α) (s : FState ι α) (pairs : List (ι × List Gr)) :
    ∀ j, ∀ r ∈ (addAll kb s pairs).get j,
      r ∈ s.get j ∨ r = ⟨r.g, (kb j).world, (kb j).world⟩ := by
  apply addAll_induct kb
    (fun j t => ∀ r ∈ t, r ∈ s.get j ∨ r = ⟨r.g, (kb j).world, (kb j).world⟩)
  · intro j t gs ht r hr
    rcases Table.addg_only_world _ t gs r hr with h | h
    · exact ht r h
    · exact Or.inr h
  · intro j r hr; exact Or.inl hr

/-- the grounding management of a connective (joins, upward and downward) only ever adds, to any
formula's table, rows at THAT formula's world default -/
theorem C14_groundings_only_world (kb : FKB ι α) (i : ι) (down : Bool) (s : FState ι α) :
    ∀ j, ∀ r ∈ (groundings kb i down s).1.get j,
      r ∈ s.get j ∨ r = ⟨r.g, (kb j).world, (kb j).world⟩ := by
  apply groundings_induct kb
    (fun j t => ∀ r ∈ t, r ∈ s.get j ∨ r = ⟨r.g, (kb j).world, (kb j).world⟩)
  · intro j t gs ht r hr
    rcases Table.addg_only_world _ t gs r hr with h | h
    · exact ht r h
    · exact Or.inr h
  · intro j r hr; exact Or.inl hr

/-- … and keeps every stored row as it is -/
theorem C14_groundings_keeps (kb : FKB ι α) (i : ι) (down : Bool) (s : FState ι α) :
    ∀ j g r, Table.find? (s.get j) g = some r →
      Table.find? ((groundings kb i down s).1.get j) g = some r := by
  intro j g r h
  revert j
  apply groundings_induct kb
    (fun j t => Table.find? (s.get j) g = some r → Table.find? t g = some r)
  · intro j t gs ht h; exact Table.addg_keeps gs (ht h)
  · intro j h; exact h

/-- hence the value a query returns for any grounding of any formula is not changed by grounding
management: a grounding introduced by a join reads exactly as it read when it was absent -/
theorem C14_groundings_read_unchanged (kb : FKB ι α) (i : ι) (down : Bool) (s : FState ι α) :
    ∀ j g, Table.getD (kb j).world ((groundings kb i down s).1.get j) g
      = Table.getD (kb j).world (s.get j) g := by
  intro j g
  revert j
  apply groundings_induct kb
    (fun j t => Table.getD (kb j).world t g = Table.getD (kb j).world (s.get j) g)
  · intro j t gs ht; rw [Table.getD_addg, ht]
  · intro j; rfl

end groundings

/-! ### axioms start TRUE and stay TRUE unless contradicted -/

section axioms

variable {α : Type} [Field α] [LinearOrder α] [IsStrictOrderedRing α]

/-- a row created in a formula whose world is AXIOM reads TRUE -/
theorem C14_axiom_start (t : Table α) (gs : List Gr) (g : Gr) (hg : g ∈ gs)
    (h : Table.has t g = false) : Table.getD ⟨1, 1⟩ (Table.addg ⟨1, 1⟩ t gs) g = ⟨1, 1⟩ :=
  Table.getD_of_some (Table.addg_new_row hg h)

/-- … and so does one that was never created -/
theorem C14_axiom_start' (t : Table α) (g : Gr) (h : Table.has t g = false) :
    Table.getD ⟨1, 1⟩ t g = ⟨1, 1⟩ :=
  C14_get_missing' _ _ _ h

/-- "TRUE or contradicted": lower bound 1 (then `hi = 1` is TRUE and `hi < 1` is crossed) -/
def TrueOrCrossed (b : Bounds α) : Prop := b.lo = 1 ∧ b.hi ≤ 1

/-- "FALSE or contradicted": upper bound 0 -/
def FalseOrCrossed (b : Bounds α) : Prop := b.hi = 0 ∧ 0 ≤ b.lo

theorem TrueOrCrossed.cases {b : Bounds α} (h : TrueOrCrossed b) : b = ⟨1, 1⟩ ∨ b.lo > b.hi := by
  obtain ⟨lo, hi⟩ := b
  obtain ⟨h1, h2⟩ := h
  simp only at h1 h2
  subst h1
  rcases eq_or_lt_of_le h2 with e | e
  · left; rw [e]
  · right; exact e

theorem FalseOrCrossed.cases {b : Bounds α} (h : FalseOrCrossed b) : b = ⟨0, 0⟩ ∨ b.lo > b.hi := by
  obtain ⟨lo, hi⟩ := b
  obtain ⟨h1, h2⟩ := h
  simp only at h1 h2
  subst h1
  rcases eq_or_lt_of_le h2 with e | e
  · left; rw [← e]
  · right; exact e

theorem trueOrCrossed_true : TrueOrCrossed (⟨1, 1⟩ : Bounds α) := ⟨rfl, le_rfl⟩
theorem falseOrCrossed_false : FalseOrCrossed (⟨0, 0⟩ : Bounds α) := ⟨rfl, le_rfl⟩

/-- once TRUE-or-contradicted, always TRUE-or-contradicted: no aggregation, whatever the proposal
and the selected bound, lowers the lower bound 1 -/
theorem TrueOrCrossed.aggregate (sel : BoundSel) (prev new : Bounds α) (h : TrueOrCrossed prev) :
    TrueOrCrossed (aggregate sel prev new).1 := by
  refine ⟨?_, clamp01_le_one _⟩
  show clamp01 (if sel = .upper then prev.lo else max prev.lo new.lo) = 1
  apply clamp01_of_one_le
  rw [h.1]
  split
  · exact le_rfl
  · exact le_max_left _ _

theorem FalseOrCrossed.aggregate (sel : BoundSel) (prev new : Bounds α) (h : FalseOrCrossed prev) :
    FalseOrCrossed (aggregate sel prev new).1 := by
  refine ⟨?_, clamp01_nonneg _⟩
  show clamp01 (if sel = .lower then prev.hi else min prev.hi new.hi) = 0
  apply clamp01_of_nonpos
  rw [h.1]
  split
  · exact le_rfl
  · exact min_le_left _ _

theorem TrueOrCrossed.mergeB {a b : Bounds α} (ha : TrueOrCrossed a) (hb : TrueOrCrossed b) :
    TrueOrCrossed (mergeB a b) := by
  refine ⟨?_, le_trans (min_le_left _ _) ha.2⟩
  show max a.lo b.lo = 1
  rw [ha.1, hb.1, max_self]

theorem FalseOrCrossed.mergeB {a b : Bounds α} (ha : FalseOrCrossed a) (hb : FalseOrCrossed b) :
    FalseOrCrossed (mergeB a b) := by
  refine ⟨?_, le_trans ha.2 (le_max_left _ _)⟩
  show min a.hi b.hi = 0
  rw [ha.1, hb.1, min_self]

/-- **An axiom stays TRUE unless contradicted**: aggregating any proposal onto `⟨1,1⟩` gives
`⟨1,1⟩` again or crossed bounds. -/
theorem C14_axiom_stays (sel : BoundSel) (prev new : Bounds α) (h : prev = ⟨1, 1⟩) :
    let r := (aggregate sel prev new).1
    r = ⟨1, 1⟩ ∨ r.lo > r.hi :=
  (TrueOrCrossed.aggregate sel prev new (h ▸ trueOrCrossed_true)).cases

/-- dually a CLOSED-world default stays FALSE unless contradicted -/
theorem C14_closed_stays (sel : BoundSel) (prev new : Bounds α) (h : prev = ⟨0, 0⟩) :
    let r := (aggregate sel prev new).1
    r = ⟨0, 0⟩ ∨ r.lo > r.hi :=
  (FalseOrCrossed.aggregate sel prev new (h ▸ falseOrCrossed_false)).cases

/-- on a table: the row of `g` holds TRUE; after any upward-style write `aggRow` (to `g` or to any
other grounding `g'`) it holds TRUE or crossed bounds -/
theorem C14_axiom_stays_aggRow (t : Table α) (g : Gr) (r : Row α) (h : Table.find? t g = some r)
    (hb : r.b = ⟨1, 1⟩) (g' : Gr) (sel : BoundSel) (new : Bounds α) :
    ∃ r', Table.find? (aggRow t g' sel new).1 g = some r' ∧ (r'.b = ⟨1, 1⟩ ∨ r'.b.lo > r'.b.hi) := by
  obtain ⟨r', h1, h2⟩ := Table.RowSat.aggRow (Q := TrueOrCrossed) TrueOrCrossed.aggregate
    ⟨r, h, hb ▸ trueOrCrossed_true⟩ g' sel new
  exact ⟨r', h1, h2.cases⟩

theorem C14_closed_stays_aggRow (t : Table α) (g : Gr) (r : Row α) (h : Table.find? t g = some r)
    (hb : r.b = ⟨0, 0⟩) (g' : Gr) (sel : BoundSel) (new : Bounds α) :
    ∃ r', Table.find? (aggRow t g' sel new).1 g = some r' ∧ (r'.b = ⟨0, 0⟩ ∨ r'.b.lo > r'.b.hi) := by
  obtain ⟨r', h1, h2⟩ := Table.RowSat.aggRow (Q := FalseOrCrossed) FalseOrCrossed.aggregate
    ⟨r, h, hb ▸ falseOrCrossed_false⟩ g' sel new
  exact ⟨r', h1, h2.cases⟩

/-- the same for the merged downward write of a connective -/
theorem C14_axiom_stays_writeMerged (t : Table α) (g : Gr) (r : Row α)
    (h : Table.find? t g = some r) (hb : r.b = ⟨1, 1⟩) (props : List (Gr × Bounds α)) :
    ∃ r', Table.find? (writeMerged t props).1 g = some r' ∧ (r'.b = ⟨1, 1⟩ ∨ r'.b.lo > r'.b.hi) := by
  obtain ⟨r', h1, h2⟩ := Table.RowSat.writeMerged (Q := TrueOrCrossed) TrueOrCrossed.aggregate
    (fun _ _ => TrueOrCrossed.mergeB) ⟨r, h, hb ▸ trueOrCrossed_true⟩ props
  exact ⟨r', h1, h2.cases⟩

theorem C14_closed_stays_writeMerged (t : Table α) (g : Gr) (r : Row α)
    (h : Table.find? t g = some r) (hb : r.b = ⟨0, 0⟩) (props : List (Gr × Bounds α)) :
    ∃ r', Table.find? (writeMerged t props).1 g = some r' ∧ (r'.b = ⟨0, 0⟩ ∨ r'.b.lo > r'.b.hi) := by
  obtain ⟨r', h1, h2⟩ := Table.RowSat.writeMerged (Q := FalseOrCrossed) FalseOrCrossed.aggregate
    (fun _ _ => FalseOrCrossed.mergeB) ⟨r, h, hb ▸ falseOrCrossed_false⟩ props
  exact ⟨r', h1, h2.cases⟩

/-- and for ever: the invariant form, usable along any sequence of `aggRow` / `writeMerged` writes -/
theorem C14_axiom_invariant (t : Table α) (g : Gr) (h : Table.RowSat TrueOrCrossed t g) :
    (∀ g' sel new, Table.RowSat TrueOrCrossed (aggRow t g' sel new).1 g) ∧
    (∀ props, Table.RowSat TrueOrCrossed (writeMerged t props).1 g) ∧
    (∀ gs w, Table.RowSat TrueOrCrossed (Table.addg w t gs) g) :=
  ⟨fun g' sel new => Table.RowSat.aggRow TrueOrCrossed.aggregate h g' sel new,
   fun props => Table.RowSat.writeMerged TrueOrCrossed.aggregate (fun _ _ => TrueOrCrossed.mergeB) h props,
   fun gs _ => by obtain ⟨r, hr, hq⟩ := h; exact ⟨r, Table.addg_keeps gs hr, hq⟩⟩

end axioms

/-! ### a grounding is stored at most once: preserved by every table operation -/

section nodup

variable {ι : Type} [DecidableEq ι] {α : Type} [Field α] [LinearOrder α]

theorem C14_nodupKeys_preserved (t : Table α) (h : Table.NodupKeys t) :
    (∀ w gs, Table.NodupKeys (Table.addg w t gs)) ∧
    (∀ g b, Table.NodupKeys (Table.setB t g b)) ∧
    (∀ w g b, Table.NodupKeys (Table.addData w t g b)) ∧
    Table.NodupKeys (Table.resetBounds t) ∧
    (∀ b, Table.NodupKeys (Table.flushB b t)) ∧
    (∀ g sel new, Table.NodupKeys (aggRow t g sel new).1) ∧
    (∀ props, Table.NodupKeys (writeMerged t props).1) :=
  ⟨fun w gs => h.addg w gs, fun g b => h.setB g b, fun w g b => h.addData w g b, h.resetBounds,
   fun b => h.flushB b, fun g sel new => h.aggRow g sel new, fun props => h.writeMerged props⟩

theorem C14_nodupKeys_nil : Table.NodupKeys ([] : Table α) := List.nodup_nil

theorem C14_nodupKeys_groundings (kb : FKB ι α) (i : ι) (down : Bool) (s : FState ι α)
    (h : ∀ j, Table.NodupKeys (s.get j)) : ∀ j, Table.NodupKeys ((groundings kb i down s).1.get j) :=
  groundings_induct kb (fun _ t => Table.NodupKeys t) (fun _ _ gs ht => ht.addg _ gs) i down s h

/-- in terms of what is read (no hypothesis needed): whatever row a grounding has after grounding
management is the one it had, or — if it had none — the world default of its formula -/
theorem C14_groundings_find (kb : FKB ι α) (i : ι) (down : Bool) (s : FState ι α)
    (j : ι) (g : Gr) (r : Row α)
    (hr : Table.find? ((groundings kb i down s).1.get j) g = some r) :
    Table.find? (s.get j) g = some r ∨
      (Table.find? (s.get j) g = none ∧ r = ⟨g, (kb j).world, (kb j).world⟩) := by
  cases hf : Table.find? (s.get j) g with
  | some r0 =>
    left
    rw [C14_groundings_keeps kb i down s j g r0 hf] at hr
    exact hr
  | none =>
    right
    refine ⟨rfl, ?_⟩
    obtain ⟨hm, hg⟩ := Table.find?_some hr
    rcases C14_groundings_only_world kb i down s j r hm with h | h
    · exact absurd (Table.mem_keys.mpr ⟨r, h, hg⟩) (Table.find?_eq_none_iff.mp hf)
    · rw [h, hg]

end nodup

/-! ### non-vacuity: a CLOSED predicate with two facts, an AXIOM formula, a join -/

/-- a CLOSED-world predicate holding two facts -/
def exClosed : Table ℚ := Table.addData ⟨0, 0⟩ (Table.addData ⟨0, 0⟩ [] [0] ⟨1, 1⟩) [1] ⟨1, 1⟩

/-- an asserted grounding reads as asserted, an absent one as FALSE, and stays absent -/
example : Table.getD ⟨0, 0⟩ exClosed [1] = ⟨1, 1⟩ ∧ Table.getD ⟨0, 0⟩ exClosed [2] = ⟨0, 0⟩ ∧
    Table.has exClosed [2] = false ∧ Table.keys exClosed = [[0], [1]] := ⟨rfl, rfl, rfl, rfl⟩

/-- the same absent grounding under the OPEN and the AXIOM assumption -/
example : Table.getD (⟨0, 1⟩ : Bounds ℚ) exClosed [2] = ⟨0, 1⟩ ∧
    Table.getD (⟨1, 1⟩ : Bounds ℚ) exClosed [2] = ⟨1, 1⟩ := ⟨rfl, rfl⟩

/-- `addg` creates the missing row at the world default, keeps the stored one -/
example : Table.find? (Table.addg ⟨0, 0⟩ exClosed [[2], [0]]) [2] = some ⟨[2], ⟨0, 0⟩, ⟨0, 0⟩⟩ ∧
    Table.find? (Table.addg ⟨0, 0⟩ exClosed [[2], [0]]) [0] = some ⟨[0], ⟨1, 1⟩, ⟨1, 1⟩⟩ ∧
    Table.keys (Table.addg ⟨0, 0⟩ exClosed [[2], [0]]) = [[0], [1], [2]] := ⟨rfl, rfl, rfl⟩

/-- `P(x) ∧ Q(x)` (node 2) over a CLOSED `P` (node 0) knowing `[0]` and an OPEN `Q` (node 1) knowing
`[1]`: grounding management creates `[1]` in `P` as FALSE, `[0]` in `Q` as UNKNOWN, and both in the
conjunction (OPEN) as UNKNOWN. -/
def exKB14 : FKB Nat ℚ := fun i =>
  match i with
  | 0 => { kind := .pred, bias := 1, alpha := 1, world := ⟨0, 0⟩ }
  | 2 => { kind := .and, ops := [0, 1], ws := [1, 1], bias := 1, alpha := 1, opmap := [[0], [0]],
           world := ⟨0, 1⟩ }
  | _ => { kind := .pred, bias := 1, alpha := 1, world := ⟨0, 1⟩ }

def exS14 : FState Nat ℚ :=
  (({} : FState Nat ℚ).set 0 (Table.addData ⟨0, 0⟩ [] [0] ⟨1, 1⟩)).set 1
    (Table.addData ⟨0, 1⟩ [] [1] ⟨1, 1⟩)

example :
    Table.find? ((groundings exKB14 2 false exS14).1.get 0) [1] = some ⟨[1], ⟨0, 0⟩, ⟨0, 0⟩⟩ ∧
    Table.find? ((groundings exKB14 2 false exS14).1.get 1) [0] = some ⟨[0], ⟨0, 1⟩, ⟨0, 1⟩⟩ ∧
    Table.find? ((groundings exKB14 2 false exS14).1.get 0) [0] = some ⟨[0], ⟨1, 1⟩, ⟨1, 1⟩⟩ ∧
    Table.keys ((groundings exKB14 2 false exS14).1.get 2) = [[0], [1]] ∧
    Table.has (exS14.get 0) [1] = false := ⟨rfl, rfl, rfl, rfl, rfl⟩

/-- an axiom is really contradicted by a proposal below 1, and unmoved by a vacuous one -/
example : (aggregate .both (⟨1, 1⟩ : Bounds ℚ) ⟨0, 1/2⟩).1 = ⟨1, 1/2⟩ ∧
    (aggregate .both (⟨1, 1⟩ : Bounds ℚ) ⟨0, 1⟩).1 = ⟨1, 1⟩ := by
  constructor
  · simp [aggregate, clamp01]; norm_num
  · simp [aggregate, clamp01]

/-! ### rows created by grounding propagation through a partially quantified formula -/

section pend

variable {ι : Type} [DecidableEq ι] {α : Type} [Field α] [LinearOrder α]

/-- `_propagate_groundings` (a quantifier with free variables instantiating its body at the
groundings its parent gave it) creates rows only in the body, only at the body's world default,
data and working bound alike -/
theorem C14_propagate_only_world (kb : FKB ι α) (i : ι) (p : PState ι α) (k : ι) :
    ∀ r ∈ (propagateQ kb i p).st.get k, r ∈ p.st.get k ∨ r = ⟨r.g, (kb k).world, (kb k).world⟩ :=
  propagateQ_only_world kb i p k

/-- … and no query of any formula sees it -/
theorem C14_propagate_read_unchanged (kb : FKB ι α) (i : ι) (p : PState ι α) (k : ι) (g : Gr) :
    Table.getD (kb k).world ((propagateQ kb i p).st.get k) g = Table.getD (kb k).world (p.st.get k) g :=
  propagateQ_read kb i p k g

end pend

end LNN
