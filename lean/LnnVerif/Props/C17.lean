/-
C17 — Bounds stay in `[0,1]`; a contradiction means crossed bounds; `state()` is total.

* every aggregation result is clamped, so whatever the knowledge base (weights of any sign, any
  bias, any alpha, any graph shape) every sequence of public inference calls keeps all bounds in
  `[0,1]`;
* `is_contradiction` holds exactly for crossed bounds that are not both in the classical FALSE
  region nor both in the classical TRUE region; at `alpha = 1` it is exactly `L > U`;
* for `alpha > 1/2` every pair of bounds is mapped by `state()` to one of the eight documented
  states (never the `"0.0"` fall-through), and the classification table is proved row by row.

Remark on strength: `C17_region_pos` needs no hypothesis at all, the contradiction and state
characterisations only need `1/2 < alpha` (not `alpha ≤ 1`, not bounds in `[0,1]`);
`C17_contradiction_alpha_one` does use that the bounds lie in `[0,1]`.
-/
import LnnVerif.Lemmas.Basic
import Mathlib.Algebra.Order.Field.Rat
import Mathlib.Tactic.NormNum
import LnnVerif.Lemmas.FolMono

set_option linter.unusedSectionVars false

namespace LNN

variable {ι : Type} [DecidableEq ι] {α : Type} [Field α] [LinearOrder α] [IsStrictOrderedRing α]

/-! ### range -/

/-- `aggregate_bounds` always returns bounds in `[0,1]`, whatever it is given. -/
theorem C17_aggregate_range (sel : BoundSel) (prev new : Bounds α) :
    InUnit (aggregate sel prev new).1 :=
  aggregate_inUnit sel prev new

theorem C17_range_stepUp (kb : KB ι α) (i : ι) (s : State ι α) (hs : StateInUnit s) :
    StateInUnit (stepUp kb i s).1 :=
  (stepUp_writes kb i s).inUnit hs

theorem C17_range_stepDown (kb : KB ι α) (i : ι) (idx : Option Nat) (s : State ι α)
    (hs : StateInUnit s) : StateInUnit (stepDown kb i idx s).1 :=
  (stepDown_writes kb i idx s).inUnit hs

theorem C17_range_steps (kb : KB ι α) (steps : List (Step ι)) (s : State ι α)
    (hs : StateInUnit s) : StateInUnit (runSteps kb steps s).1 :=
  (runSteps_writes kb steps s).inUnit hs

theorem C17_range_pass (kb : KB ι α) (sched : List (Call ι)) (s : State ι α)
    (hs : StateInUnit s) : StateInUnit (runPass kb sched s).1 :=
  (runPass_writes kb sched s).inUnit hs

theorem C17_range_infer (kb : KB ι α) (cfg : InferCfg ι α) (fuel : Nat) (s : State ι α)
    (hs : StateInUnit s) : StateInUnit (infer kb cfg fuel s).state :=
  (infer_writes kb cfg fuel s).inUnit hs

/-- **Range.** For every knowledge base — no hypothesis on weights, biases, alphas or the graph —
every finite sequence of public calls (node-level upward/downward with or without operand index,
passes over any schedule, `infer` with any configuration and step limit) keeps every bound of
every node in `[0,1]`. -/
theorem C17_range (kb : KB ι α) (s : State ι α) (hs : StateInUnit s) (ops : List (Op ι α)) :
    StateInUnit (run kb ops s) := by
  obtain ⟨_, h⟩ := run_writes kb ops s
  exact h.inUnit hs

/-! ### regions -/

/-- `output_regions` never yields the "infeasible" sentinel `0` (for any `alpha` and any value). -/
theorem C17_region_pos (a y : α) : 1 ≤ region a y ∧ region a y ≤ 5 :=
  region_range a y

/-- the five classical regions, for `alpha > 1/2` -/
theorem C17_region_iff {a : α} (ha : 1/2 < a) (y : α) :
    (region a y = 1 ↔ y ≤ 1 - a) ∧ (region a y = 2 ↔ 1 - a < y ∧ y < 1/2) ∧
    (region a y = 3 ↔ y = 1/2) ∧ (region a y = 4 ↔ 1/2 < y ∧ y < a) ∧ (region a y = 5 ↔ a ≤ y) :=
  ⟨region_eq_one_iff ha y, region_eq_two_iff ha y, region_eq_three_iff ha y,
    region_eq_four_iff ha y, region_eq_five_iff ha y⟩

/-! ### contradiction -/

/-- **Contradiction.** A node is contradictory exactly when its bounds are crossed and are neither
both classically FALSE (`≤ 1 - alpha`) nor both classically TRUE (`≥ alpha`). -/
theorem C17_contradiction_iff {a : α} (ha : 1/2 < a) (b : Bounds α) :
    isContra a b = true ↔
      (b.lo > b.hi ∧ ¬ (b.lo ≤ 1 - a ∧ b.hi ≤ 1 - a) ∧ ¬ (a ≤ b.lo ∧ a ≤ b.hi)) :=
  isContra_iff ha b

/-- in particular a contradiction always has crossed bounds (any `alpha`) -/
theorem C17_contradiction_crossed (a : α) (b : Bounds α) (h : isContra a b = true) :
    b.lo > b.hi :=
  ((isContra_iff_region a b).mp h).1

/-- at `alpha = 1` and bounds in `[0,1]`, contradiction is exactly `L > U` -/
theorem C17_contradiction_alpha_one {b : Bounds α} (hb : InUnit b) :
    isContra 1 b = true ↔ b.lo > b.hi := by
  obtain ⟨h0, h1, h2, h3⟩ := hb
  have ha : (1:α)/2 < 1 := by linarith [one_pos (α := α)]
  rw [isContra_iff ha]
  constructor
  · exact fun h => h.1
  · intro h
    refine ⟨h, ?_, ?_⟩
    · rintro ⟨c1, c2⟩; linarith
    · rintro ⟨c1, c2⟩; linarith

/-- `Model.has_contradiction` is the disjunction of the node tests -/
theorem C17_hasContra_iff (kb : KB ι α) (nodes : List ι) (s : State ι α) :
    hasContra kb nodes s = true ↔ ∃ i ∈ nodes, isContra (kb i).alpha (s i) = true := by
  unfold hasContra
  rw [List.any_eq_true]

/-! ### state -/

/-- **`state()` is total.** No pair of bounds falls through the `np.where` cascade to the `"0.0"`
sentinel. -/
theorem C17_state_total {a : α} (ha : 1/2 < a) (b : Bounds α) : state a b ≠ St.bad := by
  intro h
  rw [state_eq_iff_of_ne_C a b _ (by decide)] at h
  obtain ⟨hc, ht⟩ := h
  have h3 := (stTable_bad (region_lt_six a b.lo) (region_lt_six a b.hi)).mp ht
  have p1 := region_range a b.lo
  have p2 := region_range a b.hi
  rcases h3 with h0 | h0 | h0
  · omega
  · omega
  · have hlt := region_lt_imp ha h0
    have : isContra a b = true := (isContra_iff_region a b).mpr ⟨hlt, by omega, by omega⟩
    rw [this] at hc
    exact Bool.noConfusion hc

/-- the state is one of the eight documented ones -/
theorem C17_state_cases {a : α} (ha : 1/2 < a) (b : Bounds α) :
    state a b = St.U ∨ state a b = St.T ∨ state a b = St.F ∨ state a b = St.C ∨
    state a b = St.aF ∨ state a b = St.aU ∨ state a b = St.eU ∨ state a b = St.aT := by
  have := C17_state_total ha b
  cases h : state a b <;> simp_all

/-- CONTRADICTION row (any `alpha`) -/
theorem C17_state_C (a : α) (b : Bounds α) : state a b = St.C ↔ isContra a b = true :=
  state_eq_C_iff a b

/-- TRUE row: both bounds at least `alpha` (crossed or not) -/
theorem C17_state_T {a : α} (ha : 1/2 < a) (b : Bounds α) :
    state a b = St.T ↔ (a ≤ b.lo ∧ a ≤ b.hi) := by
  rw [state_eq_iff_of_ne_C a b _ (by decide),
    stTable_T (region_lt_six a b.lo) (region_lt_six a b.hi), isContra_eq_false_iff ha,
    region_eq_five_iff ha, region_eq_five_iff ha]
  tauto

/-- FALSE row: both bounds at most `1 - alpha` (crossed or not) -/
theorem C17_state_F {a : α} (ha : 1/2 < a) (b : Bounds α) :
    state a b = St.F ↔ (b.lo ≤ 1 - a ∧ b.hi ≤ 1 - a) := by
  rw [state_eq_iff_of_ne_C a b _ (by decide),
    stTable_F (region_lt_six a b.lo) (region_lt_six a b.hi), isContra_eq_false_iff ha,
    region_eq_one_iff ha, region_eq_one_iff ha]
  tauto

/-- UNKNOWN row -/
theorem C17_state_U {a : α} (ha : 1/2 < a) (b : Bounds α) :
    state a b = St.U ↔ (b.lo ≤ 1 - a ∧ a ≤ b.hi) := by
  rw [state_eq_iff_of_ne_C a b _ (by decide),
    stTable_U (region_lt_six a b.lo) (region_lt_six a b.hi), isContra_eq_false_iff ha,
    region_eq_one_iff ha, region_eq_five_iff ha]
  constructor
  · exact fun h => h.2
  · intro h
    exact ⟨Or.inl (by linarith [h.1, h.2, ha]), h⟩

/-- EXACT_UNKNOWN row -/
theorem C17_state_eU {a : α} (ha : 1/2 < a) (b : Bounds α) :
    state a b = St.eU ↔ (b.lo = 1/2 ∧ b.hi = 1/2) := by
  rw [state_eq_iff_of_ne_C a b _ (by decide),
    stTable_eU (region_lt_six a b.lo) (region_lt_six a b.hi), isContra_eq_false_iff ha,
    region_eq_three_iff ha, region_eq_three_iff ha]
  constructor
  · exact fun h => h.2
  · intro h
    exact ⟨Or.inl (by rw [h.1, h.2]), h⟩

/-- APPROX_FALSE row -/
theorem C17_state_aF {a : α} (ha : 1/2 < a) (b : Bounds α) :
    state a b = St.aF ↔ (b.lo ≤ b.hi ∧ b.lo < 1/2 ∧ 1 - a < b.hi ∧ b.hi < 1/2) := by
  rw [state_eq_iff_of_ne_C a b _ (by decide),
    stTable_aF (region_lt_six a b.lo) (region_lt_six a b.hi), isContra_eq_false_iff ha,
    region_eq_one_iff ha, region_eq_two_iff ha, region_eq_two_iff ha]
  constructor
  · rintro ⟨hc, hl, h1, h2⟩
    have hl' : b.lo < 1/2 := by
      rcases hl with h | h
      · linarith
      · exact h.2
    refine ⟨?_, hl', h1, h2⟩
    rcases hc with h | ⟨_, h⟩ | ⟨h, _⟩
    · exact h
    · linarith
    · linarith
  · rintro ⟨h0, hl, h1, h2⟩
    refine ⟨Or.inl h0, ?_, h1, h2⟩
    rcases le_or_gt b.lo (1 - a) with h | h
    · exact Or.inl h
    · exact Or.inr ⟨h, hl⟩

/-- APPROX_TRUE row -/
theorem C17_state_aT {a : α} (ha : 1/2 < a) (b : Bounds α) :
    state a b = St.aT ↔ (b.lo ≤ b.hi ∧ 1/2 < b.lo ∧ b.lo < a ∧ 1/2 < b.hi) := by
  rw [state_eq_iff_of_ne_C a b _ (by decide),
    stTable_aT (region_lt_six a b.lo) (region_lt_six a b.hi), isContra_eq_false_iff ha,
    region_eq_four_iff ha, region_eq_four_iff ha, region_eq_five_iff ha]
  constructor
  · rintro ⟨hc, ⟨l1, l2⟩, hu⟩
    have hu' : 1/2 < b.hi := by
      rcases hu with h | h
      · exact h.1
      · linarith
    refine ⟨?_, l1, l2, hu'⟩
    rcases hc with h | ⟨h, _⟩ | ⟨h, _⟩
    · exact h
    · linarith
    · linarith
  · rintro ⟨h0, l1, l2, hu⟩
    refine ⟨Or.inl h0, ⟨l1, l2⟩, ?_⟩
    rcases lt_or_ge b.hi a with h | h
    · exact Or.inl ⟨hu, h⟩
    · exact Or.inr h

/-- APPROX_UNKNOWN row -/
theorem C17_state_aU {a : α} (ha : 1/2 < a) (b : Bounds α) :
    state a b = St.aU ↔
      ((b.lo ≤ 1 - a ∧ 1/2 ≤ b.hi ∧ b.hi < a) ∨ (1 - a < b.lo ∧ b.lo < 1/2 ∧ 1/2 ≤ b.hi)
        ∨ (b.lo = 1/2 ∧ 1/2 < b.hi)) := by
  rw [state_eq_iff_of_ne_C a b _ (by decide),
    stTable_aU (region_lt_six a b.lo) (region_lt_six a b.hi), isContra_eq_false_iff ha,
    region_eq_one_iff ha, region_eq_two_iff ha, region_eq_three_iff ha, region_eq_three_iff ha,
    region_eq_four_iff ha, region_eq_five_iff ha]
  constructor
  · rintro ⟨_, h | h | h⟩
    · refine Or.inl ⟨h.1, ?_⟩
      rcases h.2 with e | e
      · rw [e]; exact ⟨le_rfl, ha⟩
      · exact ⟨e.1.le, e.2⟩
    · refine Or.inr (Or.inl ⟨h.1.1, h.1.2, ?_⟩)
      rcases h.2 with e | e | e
      · rw [e]
      · exact e.1.le
      · linarith
    · refine Or.inr (Or.inr ⟨h.1, ?_⟩)
      rcases h.2 with e | e
      · exact e.1
      · linarith
  · intro h
    rcases h with ⟨h1, h2, h3⟩ | ⟨h1, h2, h3⟩ | ⟨h1, h2⟩
    · refine ⟨Or.inl (by linarith), Or.inl ⟨h1, ?_⟩⟩
      rcases eq_or_lt_of_le h2 with e | e
      · exact Or.inl e.symm
      · exact Or.inr ⟨e, h3⟩
    · refine ⟨Or.inl (by linarith), Or.inr (Or.inl ⟨⟨h1, h2⟩, ?_⟩)⟩
      rcases eq_or_lt_of_le h3 with e | e
      · exact Or.inl e.symm
      · rcases lt_or_ge b.hi a with e' | e'
        · exact Or.inr (Or.inl ⟨e, e'⟩)
        · exact Or.inr (Or.inr e')
    · refine ⟨Or.inl (by linarith), Or.inr (Or.inr ⟨h1, ?_⟩)⟩
      rcases lt_or_ge b.hi a with e' | e'
      · exact Or.inl ⟨h2, e'⟩
      · exact Or.inr e'

/-! ### non-vacuity over `ℚ` -/

/-- nodes 0,1 atoms; node 2 = And(0,1) with weights (1/2, 2), bias 1; node 3 = Not(2);
node 4 = Or(0,1) with a *negative* weight and a bias outside `[0,1]` (nothing is assumed) -/
def c17KB : KB Nat ℚ := fun i =>
  match i with
  | 2 => { kind := .and, ops := [0, 1], ws := [1/2, 2], bias := 1, alpha := 1 }
  | 3 => { kind := .neg, ops := [2], bias := 1, alpha := 1 }
  | 4 => { kind := .or, ops := [0, 1], ws := [-3, 5], bias := 7, alpha := 3/4 }
  | _ => { kind := .atom, bias := 1, alpha := 1 }

def c17S : State Nat ℚ := fun i =>
  match i with
  | 0 => ⟨1/2, 1/2⟩ | 1 => ⟨1/2, 1⟩ | 2 => ⟨1/4, 1⟩ | _ => ⟨0, 1⟩

/-- the hypothesis of `C17_range` is satisfiable -/
example : StateInUnit c17S := by
  intro i
  unfold c17S InUnit
  split <;> norm_num

/-- and the run it speaks about really changes bounds: operand 1 goes from `[1/2,1]` to `[3/4,1]` -/
example : (run c17KB [Op.call (Call.down 2 none)] c17S 1) = ⟨3/4, 1⟩ := by
  simp [run, runOp, Call.steps, callDown, runSteps, runStep, stepDown, c17KB, c17S, arrested,
    isContra, region, actDown, andDown, opds, writeOps, enumFrom, aggregate, clamp01, termHi, sumW,
    Function.update]
  norm_num

/-- crossed bounds in `[0,1]` at `alpha = 1` are a contradiction ... -/
example : InUnit (⟨3/4, 1/4⟩ : Bounds ℚ) ∧ isContra (1:ℚ) ⟨3/4, 1/4⟩ = true := by
  refine ⟨by unfold InUnit; norm_num, ?_⟩
  rw [C17_contradiction_alpha_one (by unfold InUnit; norm_num)]
  norm_num

/-- ... while at `alpha = 3/4` crossed bounds inside the FALSE region are tolerated, and the state
is FALSE -/
example : isContra (3/4:ℚ) ⟨1/8, 1/16⟩ = false ∧ state (3/4:ℚ) ⟨1/8, 1/16⟩ = St.F := by
  have ha : (1:ℚ)/2 < 3/4 := by norm_num
  refine ⟨?_, ?_⟩
  · rw [isContra_eq_false_iff ha]; norm_num
  · rw [C17_state_F ha]; norm_num

/-- crossed bounds straddling regions at `alpha = 3/4`: CONTRADICTION -/
example : state (3/4:ℚ) ⟨1/2, 1/4⟩ = St.C := by
  rw [C17_state_C, C17_contradiction_iff (by norm_num)]
  norm_num

example : state (3/4:ℚ) ⟨1/8, 7/8⟩ = St.U ∧ state (3/4:ℚ) ⟨7/8, 1⟩ = St.T
    ∧ state (3/4:ℚ) ⟨1/2, 1/2⟩ = St.eU ∧ state (3/4:ℚ) ⟨1/8, 3/8⟩ = St.aF
    ∧ state (3/4:ℚ) ⟨5/8, 1⟩ = St.aT ∧ state (3/4:ℚ) ⟨3/8, 5/8⟩ = St.aU := by
  have ha : (1:ℚ)/2 < 3/4 := by norm_num
  refine ⟨?_, ?_, ?_, ?_, ?_, ?_⟩
  · rw [C17_state_U ha]; norm_num
  · rw [C17_state_T ha]; norm_num
  · rw [C17_state_eU ha]; norm_num
  · rw [C17_state_aF ha]; norm_num
  · rw [C17_state_aT ha]; norm_num
  · rw [C17_state_aU ha]; norm_num

/-! ### first-order tables: every reachable bound of every grounding lies in [0,1] -/

section fol

variable {ι : Type} [DecidableEq ι] {α : Type} [Field α] [LinearOrder α] [IsStrictOrderedRing α]

/-- from a state with all bounds in [0,1] (e.g. validated data and world defaults), any sequence of
first-order calls — any node kinds and parameters, grounding propagation included — ends with all
bounds of all groundings in [0,1] -/
theorem C17_fol_range (kb : FKB ι α) (hw : WorldsInUnit kb) (cs : List (FCall ι)) (p : PState ι α)
    (hs : FState.InUnit p.st) : FState.InUnit (runPCalls kb cs p).1.st :=
  (runPCalls_tightens kb hw cs p hs).2

theorem C17_fol_range_infer (kb : FKB ι α) (hw : WorldsInUnit kb) (nodes : List ι) (up down : List (FCall ι))
    (eps : α) (query : Option ι) (fuel : Nat) (p : PState ι α) (hs : FState.InUnit p.st) :
    FState.InUnit (pInferQ kb nodes up down eps query fuel p).state.st :=
  (pInferQ_tightens kb hw nodes up down eps query fuel p hs).2

end fol

end LNN
