/-
C10, whole runs — "running the same program always yields the same bounds for every formula and
grounding, whatever … order the facts appear in".

`Props/C10.lean` shows that tables denote finite maps and that table operations, the join and the
upward steps are functions of the denoted maps. This file finishes the job for the whole engine
(proofs in `Lemmas/FolCongr.lean`): the downward step of a connective — operator groundings listed
in another order and with other multiplicities, several of them projecting onto one operand row,
proposals merged per row —, both quantifier steps, every call, every call list and the `infer` loop
map states that denote the same finite maps (`SEq`: tables filled in any order) to states that
denote the same finite maps, and report the same amounts, sweep counts and convergence flag.

The quantifier steps iterate over the ROWS of the body's table, so for them "each grounding is
stored once" (`SNodup`, an invariant of every call: `FolFix.runFCalls_snodup`) is needed on both
sides; `C10_quant_needs_nodup` is the counterexample without it (a shadowed duplicate row, which
the engine never produces, would be read).
-/
import LnnVerif.Lemmas.FolCongr

set_option linter.unusedSectionVars false

namespace LNN

open Join FolFix FolCongr

variable {ι : Type} [DecidableEq ι] {α : Type} [Field α] [LinearOrder α] [IsStrictOrderedRing α]

/-- DOWNWARD INFERENCE OVER A CONNECTIVE IS ORDER-FREE (tables and reported amount) -/
theorem C10_fDownConn_congr (kb : FKB ι α) (i : ι) (idx : Option Nat) {s s' : FState ι α}
    (h : SEq s s') (hslots : ∀ m ∈ (kb i).opmap, ∀ c ∈ m, c < numVars (kb i)) :
    SEq (fDownConn kb i idx s).1 (fDownConn kb i idx s').1 ∧
      (fDownConn kb i idx s).2 = (fDownConn kb i idx s').2 :=
  fDownConn_congr kb i idx h hslots

/-- the duplicate merge depends only on the SET of proposals and on the map the table denotes -/
theorem C10_writeMerged_congr {t t' : Table α} (h : TEq t t') {props props' : List (Gr × Bounds α)}
    (hset : ∀ x, x ∈ props ↔ x ∈ props') :
    TEq (writeMerged t props).1 (writeMerged t' props').1 ∧
      (writeMerged t props).2 = (writeMerged t' props').2 :=
  writeMerged_congr h hset

theorem C10_fUpQuant_congr (kb : FKB ι α) (i : ι) {s s' : FState ι α} (h : SEq s s')
    (hn : ∀ j ∈ (kb i).ops, Table.NodupKeys (s.get j))
    (hn' : ∀ j ∈ (kb i).ops, Table.NodupKeys (s'.get j)) :
    SEq (fUpQuant kb i s).1 (fUpQuant kb i s').1 ∧ (fUpQuant kb i s).2 = (fUpQuant kb i s').2 :=
  fUpQuant_congr kb i h hn hn'

theorem C10_fDownQuant_congr (kb : FKB ι α) (i : ι) {s s' : FState ι α} (h : SEq s s')
    (hn : ∀ j ∈ (kb i).ops, Table.NodupKeys (s.get j))
    (hn' : ∀ j ∈ (kb i).ops, Table.NodupKeys (s'.get j)) :
    SEq (fDownQuant kb i s).1 (fDownQuant kb i s').1 ∧ (fDownQuant kb i s).2 = (fDownQuant kb i s').2 :=
  fDownQuant_congr kb i h hn hn'

/-- **any program of node-level calls** (all node kinds, index restrictions) computes the same
finite maps and reports the same total, whatever order the tables were filled in -/
theorem C10_runFCalls_congr (kb : FKB ι α) (hs : KBSlots kb) (cs : List (FCall ι))
    {s s' : FState ι α} (h : SEq s s') (hn : SNodup s) (hn' : SNodup s') :
    SEq (runFCalls kb cs s).1 (runFCalls kb cs s').1 ∧ (runFCalls kb cs s).2 = (runFCalls kb cs s').2 :=
  runFCalls_congr kb hs cs h hn hn'

/-- **`infer`**: same tables (as finite maps), same number of sweeps, same total, same
convergence verdict -/
theorem C10_fInfer_congr (kb : FKB ι α) (hs : KBSlots kb) (nodes : List ι) (up down : List (FCall ι))
    (eps : α) (fuel : Nat) {s s' : FState ι α} (h : SEq s s') (hn : SNodup s) (hn' : SNodup s') :
    SEq (fInfer kb nodes up down eps fuel s).state (fInfer kb nodes up down eps fuel s').state ∧
      (fInfer kb nodes up down eps fuel s).steps = (fInfer kb nodes up down eps fuel s').steps ∧
      (fInfer kb nodes up down eps fuel s).total = (fInfer kb nodes up down eps fuel s').total ∧
      (fInfer kb nodes up down eps fuel s).converged = (fInfer kb nodes up down eps fuel s').converged :=
  fInfer_congr kb hs nodes up down eps fuel h hn hn'

/-- without "each grounding stored once" the quantifier steps are NOT functions of the denoted map
(an artefact of association-list tables: a shadowed duplicate row is read); the hypothesis of
`C10_fUpQuant_congr` / `C10_fDownQuant_congr` cannot be dropped -/
theorem C10_quant_needs_nodup :
    SEq cxS cxS' ∧ (fUpQuant cxKB 1 cxS).2 = 1/4 ∧ (fUpQuant cxKB 1 cxS').2 = 0 ∧
      (fDownQuant cxKB 1 cxS).2 = 0 ∧ (fDownQuant cxKB 1 cxS').2 = 1/2 :=
  quant_counterexample

/-! non-vacuity: two states that store the same facts in different row orders (`c10S`, `c10S'` of
`Props/C10.lean`), a knowledge base with a join conjunction and a quantifier over it, a call list
with upward, downward and index-restricted downward calls -/
example :
    SEq (runFCalls exKB [.up 2, .up 3, .down 3 none, .down 2 none, .down 2 (some 1)] c10S).1
        (runFCalls exKB [.up 2, .up 3, .down 3 none, .down 2 none, .down 2 (some 1)] c10S').1 :=
  (C10_runFCalls_congr exKB exKB_slots _ c10S_SEq c10S_snodup.1 c10S_snodup.2).1

end LNN
