/-
C12 — Quantifier downward inference is sound instantiation.

A universal formula's lower bound is passed to every known instance (an axiom Forall makes each
instance TRUE) and an existential formula's upper bound is passed to every instance; beyond that,
an instance is only tightened when the bounds of all the other instances force it. In particular a
FALSE Forall does not make all instances FALSE and a TRUE Exists does not make all instances TRUE,
so a table that has a consistent reading keeps it.

Layers:
* §1 soundness of `qDown` for every reading of the instances (values `vs` inside the instance
  bounds whose Łukasiewicz conjunction / disjunction lies inside the quantifier's bounds),
* §2 what is passed unconditionally (Forall: lower bound, Exists: upper bound),
* §3 the other bound: exact closed form, "only when forced",
* §4 FALSE Forall / TRUE Exists,
* §5 the engine `fDownQuant`: frame, own table, the rows of the operand table — for ANY set of
  free variables (the fully quantified case is a corollary) — and engine-level soundness.
-/
import LnnVerif.Lemmas.Quant
import Mathlib.Algebra.Order.Field.Rat

set_option linter.unusedSectionVars false

namespace LNN

open Quant

variable {ι : Type} [DecidableEq ι] {α : Type} [Field α] [LinearOrder α] [IsStrictOrderedRing α]

/-! ## §1 soundness -/

/-- every reading of the instances that is consistent with the Forall (read as the conjunction of
its known instances) satisfies every proposed instance interval -/
theorem C12_sound_forall (self : Bounds α) (bs : List (Bounds α)) (vs : List α)
    (hbox : List.Forall₂ (fun b x => b.lo ≤ x ∧ x ≤ b.hi) bs vs) (hv : ∀ x ∈ vs, 0 ≤ x ∧ x ≤ 1)
    (hL : self.lo ≤ Lconj vs) (hU : Lconj vs ≤ self.hi) :
    List.Forall₂ (fun p x => p.lo ≤ x ∧ x ≤ p.hi) (qDown true self bs) vs := by
  unfold qDown
  simp only [if_true]
  apply andDown_sound 1 1 _ _ _ _ le_rfl (inBox_unit hbox) hv
  · rw [andVal_unit hbox]; exact hL
  · rw [andVal_unit hbox]; exact hU

/-- the same for Exists, read as the disjunction of its known instances -/
theorem C12_sound_exists (self : Bounds α) (bs : List (Bounds α)) (vs : List α)
    (hbox : List.Forall₂ (fun b x => b.lo ≤ x ∧ x ≤ b.hi) bs vs) (hv : ∀ x ∈ vs, 0 ≤ x ∧ x ≤ 1)
    (hL : self.lo ≤ Ldisj vs) (hU : Ldisj vs ≤ self.hi) :
    List.Forall₂ (fun p x => p.lo ≤ x ∧ x ≤ p.hi) (qDown false self bs) vs := by
  unfold qDown
  simp only [Bool.false_eq_true, if_false]
  apply orDown_sound 1 1 _ _ _ _ le_rfl (inBox_unit hbox) hv
  · rw [orVal_unit hbox]; exact hL
  · rw [orVal_unit hbox]; exact hU

/-- the value of a quantifier over a list of instance values -/
def qVal (isAll : Bool) (vs : List α) : α := if isAll then Lconj vs else Ldisj vs

theorem C12_sound (isAll : Bool) (self : Bounds α) (bs : List (Bounds α)) (vs : List α)
    (hbox : List.Forall₂ (fun b x => b.lo ≤ x ∧ x ≤ b.hi) bs vs) (hv : ∀ x ∈ vs, 0 ≤ x ∧ x ≤ 1)
    (hL : self.lo ≤ qVal isAll vs) (hU : qVal isAll vs ≤ self.hi) :
    List.Forall₂ (fun p x => p.lo ≤ x ∧ x ≤ p.hi) (qDown isAll self bs) vs := by
  cases isAll
  · exact C12_sound_exists self bs vs hbox hv hL hU
  · exact C12_sound_forall self bs vs hbox hv hL hU

/-- a consistent reading of the instances is still one after the proposals are aggregated -/
theorem C12_keeps_reading (isAll : Bool) (self : Bounds α) (bs : List (Bounds α)) (vs : List α)
    (hbox : List.Forall₂ (fun b x => b.lo ≤ x ∧ x ≤ b.hi) bs vs) (hv : ∀ x ∈ vs, 0 ≤ x ∧ x ≤ 1)
    (hL : self.lo ≤ qVal isAll vs) (hU : qVal isAll vs ≤ self.hi) :
    List.Forall₂ (fun b x => b.lo ≤ x ∧ x ≤ b.hi)
      (List.zipWith (fun b p => (aggregate .both b p).1) bs (qDown isAll self bs)) vs :=
  forall₂_zipWith_agg hbox (C12_sound isAll self bs vs hbox hv hL hU) hv

/-! ## §2 what is passed unconditionally -/

/-- one proposal per instance -/
theorem C12_length (isAll : Bool) (self : Bounds α) (bs : List (Bounds α)) :
    (qDown isAll self bs).length = bs.length := qDown_length isAll self bs

/-- the universal's lower bound reaches every known instance -/
theorem C12_lower_passes (self : Bounds α) (bs : List (Bounds α)) (hself : self.lo ≤ 1)
    (hbs : ∀ b ∈ bs, b.hi ≤ 1) : ∀ p ∈ qDown true self bs, self.lo ≤ p.lo := by
  intro p hp
  obtain ⟨b, hb, rfl⟩ := mem_qDown_forall hp
  simp only [allProp]
  by_cases h : 0 < self.lo
  · simp only [h, if_true]
    apply le_clamp01_of_le hself
    have := term_le_sum (fun c => 1 - c.hi) bs (fun c hc => by have := hbs c hc; linarith) hb
    linarith
  · simp only [h, if_false]
    exact not_lt.mp h

/-- an axiom Forall (`L = 1`) makes each known instance TRUE: every proposal has lower bound 1,
and so has every instance after aggregation (whatever it carried before) -/
theorem C12_axiom_instances_true (self : Bounds α) (bs : List (Bounds α)) (hs : self.lo = 1)
    (hbs : ∀ b ∈ bs, b.hi ≤ 1) :
    ∀ p ∈ qDown true self bs, p.lo = 1 ∧ ∀ b : Bounds α, ((aggregate .both b p).1).lo = 1 := by
  intro p hp
  have h1 : 1 ≤ p.lo := hs ▸ C12_lower_passes self bs (le_of_eq hs) hbs p hp
  have h2 : p.lo ≤ 1 := by
    obtain ⟨b, _, rfl⟩ := mem_qDown_forall hp
    simp only [allProp]
    split
    · exact clamp01_le_one _
    · exact zero_le_one
  refine ⟨le_antisymm h2 h1, fun b => ?_⟩
  simp only [aggregate, reduceCtorEq, if_false]
  exact clamp01_of_one_le (le_trans h1 (le_max_right _ _))

/-- the existential's upper bound reaches every known instance -/
theorem C12_upper_passes (self : Bounds α) (bs : List (Bounds α)) (hself : 0 ≤ self.hi)
    (hbs : ∀ b ∈ bs, 0 ≤ b.lo) : ∀ p ∈ qDown false self bs, p.hi ≤ self.hi := by
  intro p hp
  obtain ⟨b, hb, rfl⟩ := mem_qDown_exists hp
  simp only [exProp]
  by_cases h : self.hi < 1
  · simp only [h, if_true]
    apply clamp01_le_of_le hself
    have := term_le_sum (fun c => c.lo) bs hbs hb
    linarith
  · simp only [h, if_false]
    exact not_lt.mp h

/-- a FALSE Exists (`U = 0`) makes each known instance FALSE -/
theorem C12_false_exists_instances_false (self : Bounds α) (bs : List (Bounds α)) (hs : self.hi = 0)
    (hbs : ∀ b ∈ bs, 0 ≤ b.lo) :
    ∀ p ∈ qDown false self bs, p.hi = 0 ∧ ∀ b : Bounds α, ((aggregate .both b p).1).hi = 0 := by
  intro p hp
  have h1 : p.hi ≤ 0 := hs ▸ C12_upper_passes self bs (le_of_eq hs.symm) hbs p hp
  have h2 : 0 ≤ p.hi := by
    obtain ⟨b, _, rfl⟩ := mem_qDown_exists hp
    simp only [exProp]
    split
    · exact clamp01_nonneg _
    · exact zero_le_one
  refine ⟨le_antisymm h1 h2, fun b => ?_⟩
  simp only [aggregate, reduceCtorEq, if_false]
  exact clamp01_of_nonpos (le_trans (min_le_right _ _) h1)

/-! ## §3 the other bound: only when forced

Positions are given by a split `bs = pre ++ b :: post`; the instance `b` sits at index
`pre.length` and `pre ++ post` are the OTHER instances. -/

/-- Forall: the exact proposal for one instance. Lower: the Forall's lower bound plus the slack
`Σ (1 - Uⱼ)` of the other instances (nothing if `L ≤ 0`); upper: the Forall's upper bound plus
`Σ (1 - Lⱼ)` over the other instances (nothing if `U ≥ 1`). -/
theorem C12_forall_proposal (self : Bounds α) (pre post : List (Bounds α)) (b : Bounds α) :
    (qDown true self (pre ++ b :: post))[pre.length]? = some
      ⟨if 0 < self.lo then clamp01 (self.lo + ((pre ++ post).map fun c => 1 - c.hi).sum) else 0,
       if self.hi < 1 then clamp01 (self.hi + ((pre ++ post).map fun c => 1 - c.lo).sum) else 1⟩ :=
  qDown_forall_at self pre post b

/-- Forall: an instance's upper bound is proposed below 1 only when the lower bounds of ALL the
other instances force it: `U + Σ_{j≠k} (1 - Lⱼ) < 1` -/
theorem C12_only_when_forced (self : Bounds α) (pre post : List (Bounds α)) (b p : Bounds α)
    (hp : (qDown true self (pre ++ b :: post))[pre.length]? = some p) :
    p.hi = (if self.hi < 1 then clamp01 (self.hi + ((pre ++ post).map fun c => 1 - c.lo).sum) else 1)
    ∧ (p.hi < 1 → self.hi + ((pre ++ post).map fun c => 1 - c.lo).sum < 1) := by
  rw [C12_forall_proposal] at hp
  cases hp
  refine ⟨rfl, ?_⟩
  simp only
  intro h
  by_contra hc
  by_cases hU : self.hi < 1
  · simp only [hU, if_true] at h
    rw [clamp01_of_one_le (not_lt.mp hc)] at h
    exact lt_irrefl _ h
  · simp only [hU, if_false] at h
    exact lt_irrefl _ h

/-- Forall: when no other instance has an upper bound below 1, exactly the Forall's lower bound
is passed (nothing more) -/
theorem C12_forall_lower_exact (self : Bounds α) (pre post : List (Bounds α)) (b p : Bounds α)
    (h0 : 0 ≤ self.lo) (h1 : self.lo ≤ 1) (hoth : ∀ c ∈ pre ++ post, c.hi = 1)
    (hp : (qDown true self (pre ++ b :: post))[pre.length]? = some p) : p.lo = self.lo := by
  rw [C12_forall_proposal] at hp
  cases hp
  simp only
  have hz : ((pre ++ post).map fun c => 1 - c.hi).sum = 0 := by
    apply List.sum_eq_zero
    intro x hx
    obtain ⟨c, hc, rfl⟩ := List.mem_map.mp hx
    rw [hoth c hc]; ring
  rw [hz, add_zero]
  by_cases h : 0 < self.lo
  · simp only [h, if_true]; exact clamp01_of_mem h0 h1
  · simp only [h, if_false]; exact le_antisymm h0 (not_lt.mp h)

/-- Exists: the exact proposal for one instance. Upper: the Exists' upper bound minus `Σ Lⱼ` over
the other instances (nothing if `U ≥ 1`); lower: the Exists' lower bound minus `Σ Uⱼ` over the other
instances (nothing if `L ≤ 0`) — the `max(0, L - Σ_{j≠k} Uⱼ)` of the n-ary Or inverse. -/
theorem C12_exists_proposal (self : Bounds α) (pre post : List (Bounds α)) (b : Bounds α) :
    (qDown false self (pre ++ b :: post))[pre.length]? = some
      ⟨if 0 < self.lo then clamp01 (self.lo - ((pre ++ post).map fun c => c.hi).sum) else 0,
       if self.hi < 1 then clamp01 (self.hi - ((pre ++ post).map fun c => c.lo).sum) else 1⟩ :=
  qDown_exists_at self pre post b

/-- Exists: an instance's lower bound is proposed above 0 only when the upper bounds of ALL the
other instances force it: `Σ_{j≠k} Uⱼ < L` -/
theorem C12_only_when_forced_exists (self : Bounds α) (pre post : List (Bounds α)) (b p : Bounds α)
    (hp : (qDown false self (pre ++ b :: post))[pre.length]? = some p) :
    p.lo = (if 0 < self.lo then clamp01 (self.lo - ((pre ++ post).map fun c => c.hi).sum) else 0)
    ∧ (0 < p.lo → ((pre ++ post).map fun c => c.hi).sum < self.lo) := by
  rw [C12_exists_proposal] at hp
  cases hp
  refine ⟨rfl, ?_⟩
  simp only
  intro h
  by_contra hc
  by_cases hL : 0 < self.lo
  · simp only [hL, if_true] at h
    rw [clamp01_of_nonpos (by linarith [not_lt.mp hc])] at h
    exact lt_irrefl _ h
  · simp only [hL, if_false] at h
    exact lt_irrefl _ h

/-- Exists: when no other instance has a lower bound above 0, exactly the Exists' upper bound is
passed (nothing more) -/
theorem C12_exists_upper_exact (self : Bounds α) (pre post : List (Bounds α)) (b p : Bounds α)
    (h0 : 0 ≤ self.hi) (h1 : self.hi ≤ 1) (hoth : ∀ c ∈ pre ++ post, c.lo = 0)
    (hp : (qDown false self (pre ++ b :: post))[pre.length]? = some p) : p.hi = self.hi := by
  rw [C12_exists_proposal] at hp
  cases hp
  simp only
  have hz : ((pre ++ post).map fun c => c.lo).sum = 0 := by
    apply List.sum_eq_zero
    intro x hx
    obtain ⟨c, hc, rfl⟩ := List.mem_map.mp hx
    exact hoth c hc
  rw [hz, sub_zero]
  by_cases h : self.hi < 1
  · simp only [h, if_true]; exact clamp01_of_mem h0 h1
  · simp only [h, if_false]; exact le_antisymm (not_lt.mp h) h1

/-! ## §4 a FALSE Forall does not make all instances FALSE, a TRUE Exists not all TRUE -/

/-- A Forall whose lower bound is 0 (in particular a FALSE one): if some OTHER instance has lower
bound 0 (is not known TRUE), the proposal for this instance is the unknown interval. -/
theorem C12_false_forall_not_all_false (self : Bounds α) (pre post : List (Bounds α)) (b : Bounds α)
    (hL : self.lo ≤ 0) (hU : 0 ≤ self.hi) (hoth : ∀ c ∈ pre ++ post, c.lo ≤ 1)
    (hopen : ∃ c ∈ pre ++ post, c.lo = 0) :
    (qDown true self (pre ++ b :: post))[pre.length]? = some ⟨0, 1⟩ := by
  rw [C12_forall_proposal]
  have hL' : ¬ 0 < self.lo := not_lt.mpr hL
  obtain ⟨c, hc, hc0⟩ := hopen
  have hsum : 1 ≤ ((pre ++ post).map fun c => 1 - c.lo).sum := by
    have := term_le_sum (fun c => 1 - c.lo) (pre ++ post)
      (fun d hd => by have := hoth d hd; linarith) hc
    simp only [hc0] at this
    linarith
  simp only [hL', if_false]
  congr 2
  split
  · exact clamp01_of_one_le (by linarith)
  · rfl

/-- the FALSE Forall itself -/
theorem C12_false_forall_not_all_false' (pre post : List (Bounds α)) (b : Bounds α)
    (hoth : ∀ c ∈ pre ++ post, c.lo ≤ 1) (hopen : ∃ c ∈ pre ++ post, c.lo = 0) :
    (qDown true ⟨0, 0⟩ (pre ++ b :: post))[pre.length]? = some ⟨0, 1⟩ :=
  C12_false_forall_not_all_false ⟨0, 0⟩ pre post b le_rfl le_rfl hoth hopen

/-- with two or more instances that are not known TRUE, a Forall with lower bound 0 (in particular
a FALSE one) tightens nothing at all -/
theorem C12_false_forall_two_open (self : Bounds α) (hL : self.lo ≤ 0) (hU : 0 ≤ self.hi)
    (l₁ l₂ l₃ : List (Bounds α)) (a c : Bounds α)
    (hbs : ∀ b ∈ l₁ ++ a :: (l₂ ++ c :: l₃), 0 ≤ b.lo ∧ b.lo ≤ 1)
    (ha : a.lo = 0) (hc : c.lo = 0) :
    ∀ p ∈ qDown true self (l₁ ++ a :: (l₂ ++ c :: l₃)), p = ⟨0, 1⟩ := by
  intro p hp
  obtain ⟨b, hb, rfl⟩ := mem_qDown_forall hp
  have hL' : ¬ 0 < self.lo := not_lt.mpr hL
  have hnn : ∀ l : List (Bounds α), (∀ b ∈ l, b ∈ l₁ ++ a :: (l₂ ++ c :: l₃)) →
      0 ≤ (l.map fun b => 1 - b.lo).sum := by
    intro l hl
    apply sum_nonneg'
    intro x hx
    obtain ⟨d, hd, rfl⟩ := List.mem_map.mp hx
    have := (hbs d (hl d hd)).2
    linarith
  have h1 := hnn l₁ (fun b hb => by simp [hb])
  have h2 := hnn l₂ (fun b hb => by simp [hb])
  have h3 := hnn l₃ (fun b hb => by simp [hb])
  have hsum : ((l₁ ++ a :: (l₂ ++ c :: l₃)).map fun b => 1 - b.lo).sum
      = (l₁.map fun b => 1 - b.lo).sum + (1 + ((l₂.map fun b => 1 - b.lo).sum
          + (1 + (l₃.map fun b => 1 - b.lo).sum))) := by
    simp [List.sum_append, ha, hc]
  have hb0 := (hbs b hb).1
  simp only [allProp, hL', if_false]
  congr 1
  split
  · apply clamp01_of_one_le
    rw [hsum]; linarith
  · rfl

/-- A Exists whose upper bound is 1 (in particular a TRUE one): if some OTHER instance has upper
bound 1 (is not known FALSE), the proposal for this instance is the unknown interval. -/
theorem C12_true_exists_not_all_true (self : Bounds α) (pre post : List (Bounds α)) (b : Bounds α)
    (hL : self.lo ≤ 1) (hU : 1 ≤ self.hi) (hoth : ∀ c ∈ pre ++ post, 0 ≤ c.hi)
    (hopen : ∃ c ∈ pre ++ post, c.hi = 1) :
    (qDown false self (pre ++ b :: post))[pre.length]? = some ⟨0, 1⟩ := by
  rw [C12_exists_proposal]
  have hU' : ¬ self.hi < 1 := not_lt.mpr hU
  obtain ⟨c, hc, hc1⟩ := hopen
  have hsum : 1 ≤ ((pre ++ post).map fun c => c.hi).sum := by
    have := term_le_sum (fun c => c.hi) (pre ++ post) hoth hc
    simp only [hc1] at this
    exact this
  simp only [hU', if_false]
  congr 2
  split
  · exact clamp01_of_nonpos (by linarith)
  · rfl

/-- the TRUE Exists itself -/
theorem C12_true_exists_not_all_true' (pre post : List (Bounds α)) (b : Bounds α)
    (hoth : ∀ c ∈ pre ++ post, 0 ≤ c.hi) (hopen : ∃ c ∈ pre ++ post, c.hi = 1) :
    (qDown false ⟨1, 1⟩ (pre ++ b :: post))[pre.length]? = some ⟨0, 1⟩ :=
  C12_true_exists_not_all_true ⟨1, 1⟩ pre post b le_rfl le_rfl hoth hopen

/-- with two or more instances that are not known FALSE, an Exists with upper bound 1 (in
particular a TRUE one) tightens nothing at all -/
theorem C12_true_exists_two_open (self : Bounds α) (hL : self.lo ≤ 1) (hU : 1 ≤ self.hi)
    (l₁ l₂ l₃ : List (Bounds α)) (a c : Bounds α)
    (hbs : ∀ b ∈ l₁ ++ a :: (l₂ ++ c :: l₃), 0 ≤ b.hi ∧ b.hi ≤ 1)
    (ha : a.hi = 1) (hc : c.hi = 1) :
    ∀ p ∈ qDown false self (l₁ ++ a :: (l₂ ++ c :: l₃)), p = ⟨0, 1⟩ := by
  intro p hp
  obtain ⟨b, hb, rfl⟩ := mem_qDown_exists hp
  have hU' : ¬ self.hi < 1 := not_lt.mpr hU
  have hnn : ∀ l : List (Bounds α), (∀ b ∈ l, b ∈ l₁ ++ a :: (l₂ ++ c :: l₃)) →
      0 ≤ (l.map fun b => b.hi).sum := by
    intro l hl
    apply sum_nonneg'
    intro x hx
    obtain ⟨d, hd, rfl⟩ := List.mem_map.mp hx
    exact (hbs d (hl d hd)).1
  have h1 := hnn l₁ (fun b hb => by simp [hb])
  have h2 := hnn l₂ (fun b hb => by simp [hb])
  have h3 := hnn l₃ (fun b hb => by simp [hb])
  have hsum : ((l₁ ++ a :: (l₂ ++ c :: l₃)).map fun b => b.hi).sum
      = (l₁.map fun b => b.hi).sum + (1 + ((l₂.map fun b => b.hi).sum
          + (1 + (l₃.map fun b => b.hi).sum))) := by
    simp [List.sum_append, ha, hc]
  have hb1 := (hbs b hb).2
  simp only [exProp, hU', if_false]
  congr 1
  split
  · apply clamp01_of_nonpos
    rw [hsum]; linarith
  · rfl

/-! ## §5 the engine -/

/-- `fDownQuant` writes only the quantifier's own table and the operand's table -/
theorem C12_engine_frame (kb : FKB ι α) (i : ι) (s : FState ι α) (j' : ι) (hi : j' ≠ i)
    (hj : ∀ j rest, (kb i).ops = j :: rest → j' ≠ j) :
    (fDownQuant kb i s).1.get j' = s.get j' := fDownQuant_frame kb i s j' hi hj

/-- the quantifier's own table: stored rows are kept as they are, the missing group keys are
created at the world default — so every grounding reads the same bounds as before -/
theorem C12_engine_own (kb : FKB ι α) (i j : ι) (rest : List ι) (s : FState ι α)
    (hops : (kb i).ops = j :: rest) (hij : i ≠ j) (g : Gr) :
    ((fDownQuant kb i s).1.get i).find? g
      = ((s.get i).find? g).or
          (if g ∈ (s.get j).map (fun r => groupKey (kb i).free r.g)
            then some ⟨g, (kb i).world, (kb i).world⟩ else none)
    ∧ Table.getD (kb i).world ((fDownQuant kb i s).1.get i) g
        = Table.getD (kb i).world (s.get i) g := by
  by_cases hne : (s.get j).isEmpty = true
  · have hnil : s.get j = [] := List.isEmpty_iff.mp hne
    have : fDownQuant kb i s = (s, 0) := by
      unfold fDownQuant
      simp only [hops, hne, if_true]
    rw [this, hnil]
    simp
  · have hne' : (s.get j).isEmpty = false := by simpa using hne
    rw [fDownQuant_own kb i j rest s hops hne' hij, getD_addg, find?_addg]
    simp only [mem_dedupKeepFirst]
    exact ⟨rfl, trivial⟩

/-- **The operand table, row by row (any free variables, any table).** The row stored for `g`
keeps its grounding and leaf, and its bounds receive — in order, by `aggregate .both` — exactly the
`qDown` proposals addressed to `g`; no row appears or disappears. `downProps` is the list of
addressed proposals: for each group key `k`, `qDown` of the quantifier's bounds at `k` on the
group's instances, zipped with the group's groundings. -/
theorem C12_engine_rows (kb : FKB ι α) (i j : ι) (rest : List ι) (s : FState ι α)
    (hops : (kb i).ops = j :: rest) (hne : s.get j ≠ []) (hij : i ≠ j) (g : Gr) :
    ((fDownQuant kb i s).1.get j).find? g
      = ((s.get j).find? g).map (fun r => { r with b :=
          (aggAll r.b ((downProps (kb i) (s.get j) (s.get i)).filter (fun p => p.1 == g))) }) := by
  have hne' : (s.get j).isEmpty = false := by
    cases h : s.get j with
    | nil => exact absurd h hne
    | cons _ _ => rfl
  exact fDownQuant_find? kb i j rest s hops hne' hij g

/-- **Per instance.** If the operand table stores every grounding once, the row at position `m` of
group `k` ends with `aggregate .both` of its previous bounds and the `m`-th proposal of `qDown`
applied to the quantifier's bounds at `k` and the group's instances. -/
theorem C12_engine_instance (kb : FKB ι α) (i j : ι) (rest : List ι) (s : FState ι α)
    (hops : (kb i).ops = j :: rest) (hij : i ≠ j) (hnd : ((s.get j).map (·.g)).Nodup)
    (k : Gr) (m : Nat) (r : Row α) (p : Bounds α)
    (hr : ((s.get j).filter fun r => groupKey (kb i).free r.g == k)[m]? = some r)
    (hp : (qDown (decide ((kb i).kind = .all)) (Table.getD (kb i).world (s.get i) k)
            (((s.get j).filter fun r => groupKey (kb i).free r.g == k).map (·.b)))[m]? = some p) :
    ((fDownQuant kb i s).1.get j).find? r.g = some { r with b := (aggregate .both r.b p).1 } :=
  fDownQuant_row kb i j rest s hops hij hnd k m r p hr hp

/-- fully quantified: one group, the `m`-th row of the operand table gets the `m`-th proposal of
`qDown` on all rows -/
theorem C12_engine_fully_quantified (kb : FKB ι α) (i j : ι) (rest : List ι) (s : FState ι α)
    (hops : (kb i).ops = j :: rest) (hfree : (kb i).free = []) (hij : i ≠ j)
    (hnd : ((s.get j).map (·.g)).Nodup) (m : Nat) (r : Row α) (p : Bounds α)
    (hr : (s.get j)[m]? = some r)
    (hp : (qDown (decide ((kb i).kind = .all)) (Table.getD (kb i).world (s.get i) [])
            ((s.get j).map (·.b)))[m]? = some p) :
    ((fDownQuant kb i s).1.get j).find? r.g = some { r with b := (aggregate .both r.b p).1 } := by
  apply C12_engine_instance kb i j rest s hops hij hnd [] m r p
  · rw [hfree]
    have := grp_nil (s.get j)
    unfold grp at this
    rw [this]; exact hr
  · rw [hfree]
    have := grp_nil (s.get j)
    unfold grp at this
    rw [this]; exact hp

private theorem exists_getElem?_of_lt {β : Type} {l : List β} {m : Nat} (h : m < l.length) :
    ∃ p, l[m]? = some p := ⟨l[m], List.getElem?_eq_getElem h⟩

/-- **Engine-level soundness: a table that has a consistent reading keeps it.** Let `v` assign a
truth value in `[0,1]` to every grounding of the body such that every stored row contains its
value and, for every group, the quantifier's bounds contain the conjunction (Forall) resp.
disjunction (Exists) of the group's values. Then after `fDownQuant` every stored row of the body
still contains its value. -/
theorem C12_engine_sound (kb : FKB ι α) (i j : ι) (rest : List ι) (s : FState ι α)
    (hops : (kb i).ops = j :: rest) (hij : i ≠ j) (hnd : ((s.get j).map (·.g)).Nodup)
    (v : Gr → α) (hv : ∀ g, 0 ≤ v g ∧ v g ≤ 1)
    (hrows : ∀ r ∈ s.get j, r.b.lo ≤ v r.g ∧ v r.g ≤ r.b.hi)
    (hself : ∀ k ∈ (s.get j).map (fun r => groupKey (kb i).free r.g),
      (Table.getD (kb i).world (s.get i) k).lo
          ≤ qVal (decide ((kb i).kind = .all))
              (((s.get j).filter fun r => groupKey (kb i).free r.g == k).map fun r => v r.g)
      ∧ qVal (decide ((kb i).kind = .all))
              (((s.get j).filter fun r => groupKey (kb i).free r.g == k).map fun r => v r.g)
          ≤ (Table.getD (kb i).world (s.get i) k).hi)
    (g : Gr) (r' : Row α) (hr' : ((fDownQuant kb i s).1.get j).find? g = some r') :
    r'.b.lo ≤ v g ∧ v g ≤ r'.b.hi := by
  -- the row existed before
  have hne : s.get j ≠ [] := by
    intro h
    have : fDownQuant kb i s = (s, 0) := by
      unfold fDownQuant
      simp only [hops, h, List.isEmpty_nil, if_true]
    rw [this, h] at hr'
    simp [Table.find?] at hr'
  have hr0 := hr'
  rw [C12_engine_rows kb i j rest s hops hne hij g] at hr'
  cases hold : (s.get j).find? g with
  | none => rw [hold] at hr'; simp at hr'
  | some r =>
    have hrg : r.g = g := find?_some_g hold
    have hrmem : r ∈ s.get j := by
      unfold Table.find? at hold
      exact List.mem_of_find?_eq_some hold
    -- its group and position
    let k := groupKey (kb i).free r.g
    have hrk : r ∈ grp (kb i).free (s.get j) k := mem_grp.mpr ⟨hrmem, rfl⟩
    obtain ⟨m, hm⟩ := List.mem_iff_getElem?.mp hrk
    have hlen : m < (qDown (decide ((kb i).kind = .all)) (Table.getD (kb i).world (s.get i) k)
        (inst (kb i).free (s.get j) k)).length := by
      rw [qDown_length]; unfold inst; rw [List.length_map]
      exact (List.getElem?_eq_some_iff.mp hm).1
    obtain ⟨p, hp⟩ := exists_getElem?_of_lt hlen
    have hrow := fDownQuant_row kb i j rest s hops hij hnd k m r p hm hp
    rw [hrg, hr0] at hrow
    have hrb : r'.b = (aggregate .both r.b p).1 := by
      have := Option.some.inj hrow
      rw [this]
    -- the proposal contains the value
    have hk : k ∈ (s.get j).map (fun r => groupKey (kb i).free r.g) :=
      List.mem_map.mpr ⟨r, hrmem, rfl⟩
    have hs := hself k hk
    have hgrp : ((s.get j).filter fun r => groupKey (kb i).free r.g == k)
        = grp (kb i).free (s.get j) k := rfl
    rw [hgrp] at hs
    have hbox : List.Forall₂ (fun b x => b.lo ≤ x ∧ x ≤ b.hi) (inst (kb i).free (s.get j) k)
        ((grp (kb i).free (s.get j) k).map fun r => v r.g) := by
      unfold inst
      rw [List.forall₂_map_left_iff, List.forall₂_map_right_iff, List.forall₂_same]
      intro x hx
      exact hrows x (mem_grp.mp hx).1
    have hvs : ∀ x ∈ (grp (kb i).free (s.get j) k).map (fun r => v r.g), 0 ≤ x ∧ x ≤ 1 := by
      intro x hx
      obtain ⟨r0, _, rfl⟩ := List.mem_map.mp hx
      exact hv r0.g
    have hsound := C12_sound _ _ _ _ hbox hvs hs.1 hs.2
    have hvm : ((grp (kb i).free (s.get j) k).map fun r => v r.g)[m]? = some (v r.g) := by
      rw [List.getElem?_map, hm]; rfl
    have hpv := forall₂_getElem? hsound m hp hvm
    have := aggregate_both_keeps r.b p (v r.g) (hv _).1 (hv _).2 (hrows r hrmem) hpv
    rw [hrb, ← hrg]
    exact this

/-! ## non-vacuity and concrete numbers over ℚ -/

/-- Forall FALSE, instances [TRUE, UNKNOWN, UNKNOWN]: nothing is tightened -/
example : qDown true (⟨0, 0⟩ : Bounds ℚ) [⟨1, 1⟩, ⟨0, 1⟩, ⟨0, 1⟩] = [⟨0, 1⟩, ⟨0, 1⟩, ⟨0, 1⟩] := by
  rw [qDown_forall_eq]; simp [allProp, clamp01]

/-- Forall FALSE, instances [TRUE, TRUE, UNKNOWN]: the third is forced FALSE -/
example : qDown true (⟨0, 0⟩ : Bounds ℚ) [⟨1, 1⟩, ⟨1, 1⟩, ⟨0, 1⟩] = [⟨0, 1⟩, ⟨0, 1⟩, ⟨0, 0⟩] := by
  rw [qDown_forall_eq]; simp [allProp, clamp01]

/-- Exists TRUE, instances [FALSE, UNKNOWN, UNKNOWN]: nothing is tightened -/
example : qDown false (⟨1, 1⟩ : Bounds ℚ) [⟨0, 0⟩, ⟨0, 1⟩, ⟨0, 1⟩] = [⟨0, 1⟩, ⟨0, 1⟩, ⟨0, 1⟩] := by
  rw [qDown_exists_eq]; simp [exProp, clamp01]

/-- Exists TRUE, instances [FALSE, FALSE, UNKNOWN]: the third is forced TRUE -/
example : qDown false (⟨1, 1⟩ : Bounds ℚ) [⟨0, 0⟩, ⟨0, 0⟩, ⟨0, 1⟩] = [⟨0, 1⟩, ⟨0, 1⟩, ⟨1, 1⟩] := by
  rw [qDown_exists_eq]; simp [exProp, clamp01]

/-- an axiom Forall makes every instance TRUE -/
example : qDown true (⟨1, 1⟩ : Bounds ℚ) [⟨0, 1⟩, ⟨0, 1⟩, ⟨1/2, 1⟩] = [⟨1, 1⟩, ⟨1, 1⟩, ⟨1, 1⟩] := by
  rw [qDown_forall_eq]; simp [allProp, clamp01]

/-- graded: the lower bound 1/2 is passed to all; no upper bound is forced
(`3/4 + Σ_{j≠k} (1 - Lⱼ) ≥ 1` for every `k`) -/
example : qDown true (⟨1/2, 3/4⟩ : Bounds ℚ) [⟨1/2, 1⟩, ⟨3/4, 1⟩, ⟨0, 1⟩]
    = [⟨1/2, 1⟩, ⟨1/2, 1⟩, ⟨1/2, 1⟩] := by
  rw [qDown_forall_eq]; simp [allProp, clamp01]; norm_num

/-- the hypotheses of `C12_sound_forall` are satisfiable -/
example : List.Forall₂ (fun p x => p.lo ≤ x ∧ x ≤ p.hi)
    (qDown true (⟨1/4, 1/4⟩ : Bounds ℚ) [⟨1/2, 1⟩, ⟨0, 1⟩]) [3/4, 1/2] := by
  apply C12_sound_forall
  · refine List.Forall₂.cons ?_ (List.Forall₂.cons ?_ List.Forall₂.nil) <;> norm_num
  · intro x hx; simp at hx; rcases hx with rfl | rfl <;> norm_num
  · simp [Lconj, clamp01]; norm_num
  · simp [Lconj, clamp01]; norm_num

/-- … and the proposals of that example really tighten: `[1/2,1] ↦ [1/4,1]`, `[0,1] ↦ [1/4,3/4]` -/
example : qDown true (⟨1/4, 1/4⟩ : Bounds ℚ) [⟨1/2, 1⟩, ⟨0, 1⟩] = [⟨1/4, 1⟩, ⟨1/4, 3/4⟩] := by
  rw [qDown_forall_eq]; simp [allProp, clamp01]; norm_num

/-- `0 = P(x)`, `1 = ∀x P(x)` -/
def exKB12 : FKB Nat ℚ := fun i =>
  match i with
  | 1 => { kind := .all, ops := [0], bias := 1, alpha := 1, world := ⟨0, 1⟩, free := [] }
  | _ => { kind := .pred, bias := 1, alpha := 1, world := ⟨0, 1⟩ }

/-- `P(0), P(1)` TRUE, `P(2)` UNKNOWN, `∀x P(x)` FALSE -/
def exS12 : FState Nat ℚ :=
  ⟨[(0, [⟨[0], ⟨1, 1⟩, ⟨1, 1⟩⟩, ⟨[1], ⟨1, 1⟩, ⟨1, 1⟩⟩, ⟨[2], ⟨0, 1⟩, ⟨0, 1⟩⟩]),
    (1, [⟨[], ⟨0, 0⟩, ⟨0, 0⟩⟩])]⟩

/-- the engine forces `P(2)` FALSE (the only instance that is not TRUE) -/
example : ((fDownQuant exKB12 1 exS12).1.get 0).find? [2] = some ⟨[2], ⟨0, 1⟩, ⟨0, 0⟩⟩ := by
  have h := C12_engine_fully_quantified exKB12 1 0 [] exS12 rfl rfl (by decide) (by decide) 2
    ⟨[2], ⟨0, 1⟩, ⟨0, 1⟩⟩ ⟨0, 0⟩ (by simp [exS12, FState.get])
    (by
      change (qDown true _ _)[2]? = _
      rw [qDown_forall_eq]
      simp [exS12, FState.get, Table.getD, Table.find?, allProp, clamp01])
  rw [h]
  simp [aggregate, clamp01]

/-- a reading of the body consistent with the table `exS12` -/
def exV12 : Gr → ℚ := fun g => if g = [2] then 0 else 1

/-- the hypotheses of `C12_engine_sound` are satisfiable -/
example : ∀ g r', ((fDownQuant exKB12 1 exS12).1.get 0).find? g = some r' →
    r'.b.lo ≤ exV12 g ∧ exV12 g ≤ r'.b.hi := by
  intro g r' h
  refine C12_engine_sound exKB12 1 0 [] exS12 rfl (by decide) (by decide) exV12 ?_ ?_ ?_ g r' h
  · intro g; unfold exV12; split <;> norm_num
  · simp [exS12, FState.get, exV12]
  · simp [exKB12, exS12, FState.get, exV12, groupKey, qVal, Lconj, clamp01, Table.getD, Table.find?]
end LNN
