/-
C20, first-order verdict finality — "… a query that has been resolved to TRUE or FALSE is final:
no further inference changes it (on data with a consistent reading)".

`Props/C20.lean` proves this for propositional theories. For quantifier-free first-order theories
it is a corollary of two theorems proved elsewhere: inference only tightens (`C05_fol_plain`) and is
sound for every model of the ground theory (`C02_sound`): a row that reads TRUE (or FALSE) can only
be tightened, and a tightened TRUE row would be crossed, which soundness excludes as long as the
ground theory has a model inside the bounds.
-/
import LnnVerif.Props.C02
import LnnVerif.Props.C05

set_option linter.unusedSectionVars false

namespace LNN

variable {ι : Type} [DecidableEq ι] {α : Type} [Field α] [LinearOrder α] [IsStrictOrderedRing α]

/-- **A classical verdict is final.** On data that has a consistent reading (`v` is a model of the
ground theory inside the current bounds), a stored grounding whose bounds are exactly TRUE or exactly
FALSE keeps exactly those bounds under any further quantifier-free first-order inference: node-level
calls, passes, `infer`, restricted or not, in any order. -/
theorem C20_fol_verdict_final (kb : FKB ι α) (ar : ι → Nat) (hwf : FWF kb ar) (hw : WorldsInUnit kb)
    (v : ι → Gr → α) (hv : FConsistent kb ar v) (calls : List (FCall ι)) (hq : ∀ c ∈ calls, QF kb c)
    (s : FState ι α) (ha : Arity ar s) (hs : FSat kb v s) (hu : FState.InUnit s)
    (i : ι) (g : Gr) (r : Row α) (hr : Table.find? (s.get i) g = some r)
    (hb : r.b = ⟨1, 1⟩ ∨ r.b = ⟨0, 0⟩) :
    ∃ r', Table.find? ((runFCalls kb calls s).1.get i) g = some r' ∧ r'.b = r.b := by
  obtain ⟨r', hr', hlo, hhi, _⟩ := (C05_fol_plain kb hw calls s hu).1 i g r hr
  refine ⟨r', hr', ?_⟩
  have hsat := C02_sound kb ar hwf v hv calls hq s ha hs
  obtain ⟨hmem, hg⟩ := FolSound.find?_some hr'
  have hv' := (hsat i).1 r' hmem
  rcases hb with h | h
  · rw [h] at hlo hhi ⊢
    simp only at hlo hhi
    exact Bounds.ext' (by simp only; linarith [hv'.1, hv'.2]) (by simp only; linarith [hv'.1, hv'.2])
  · rw [h] at hlo hhi ⊢
    simp only at hlo hhi
    exact Bounds.ext' (by simp only; linarith [hv'.1, hv'.2]) (by simp only; linarith [hv'.1, hv'.2])

/-! non-vacuity: on the concrete knowledge base of `Props/C02.lean` (predicates P, Q, R; `And(P(x),Q(x))`
without a join, `And(P(x),R(x,y))` with one) with its ground model and data, the row `P(0) = TRUE`
meets every hypothesis: whatever quantifier-free calls follow, it still reads TRUE -/
namespace C20FolEx

open C02Ex

theorem wf : FWF kb ar := by
  constructor
  · intro i; unfold kb; split <;> simp
  · intro i; unfold kb; split <;> simp
  · intro i; unfold kb; split <;> simp [FKind.isConn]
  · intro i; unfold kb; split <;> simp [FKind.isConn, ar]
  · intro i; unfold kb; split <;> simp [FKind.isConn, ar, numVars, dedup]
  · intro i; unfold kb; split <;> simp [FKind.isConn, ar]
  · intro i; unfold kb; split <;> simp [FKind.isConn, ar, isHomogeneous]
  · intro i; unfold kb; split <;> simp
  · intro i; unfold kb; split <;> simp [ar]

theorem cons : FConsistent kb ar v := by
  intro i g
  refine ⟨(v_01 i g).1, (v_01 i g).2, ?_⟩
  intro _ y hy
  match i with
  | 0 => simp [kb, fNodeVal] at hy
  | 1 => simp [kb, fNodeVal] at hy
  | 2 =>
    simp [kb, fNodeVal, connVal, fOpVals] at hy
    rw [← hy]
    simp [v]
  | 3 => simp [kb, fNodeVal] at hy
  | 4 =>
    simp [kb, fNodeVal, connVal, fOpVals] at hy
    rw [← hy]
    simp [v]
  | (n + 5) => simp [kb, fNodeVal] at hy

theorem arity : Arity ar s := by
  intro i r hr
  rw [s_get] at hr
  match i with
  | 0 => simp at hr; rcases hr with rfl | rfl <;> rfl
  | 1 => simp at hr; subst hr; rfl
  | 2 => simp at hr
  | 3 => simp at hr; subst hr; rfl
  | (n + 4) => simp at hr

theorem sat : FSat kb v s := by
  intro i
  have hw : (kb i).world = ⟨0, 1⟩ := by unfold kb; split <;> rfl
  refine ⟨?_, fun g _ => by rw [hw]; exact v_01 i g⟩
  intro r hr
  rw [s_get] at hr
  match i with
  | 0 => simp at hr; rcases hr with rfl | rfl <;> simp [v, vP]
  | 1 => simp at hr; subst hr; simp [v, vQ]
  | 2 => simp at hr
  | 3 => simp at hr; subst hr; simp [v, vR]
  | (n + 4) => simp at hr

theorem worlds : WorldsInUnit kb := by
  intro i
  have hw : (kb i).world = ⟨0, 1⟩ := by unfold kb; split <;> rfl
  rw [hw]; norm_num

theorem inUnit : FState.InUnit s := by
  intro i
  rw [s_get]
  match i with
  | 0 => intro r hr; simp at hr; rcases hr with rfl | rfl <;> norm_num
  | 1 => intro r hr; simp at hr; subst hr; norm_num
  | 2 => intro r hr; simp at hr
  | 3 => intro r hr; simp at hr; subst hr; norm_num
  | (n + 4) => intro r hr; simp at hr

example (calls : List (FCall Nat)) (hq : ∀ c ∈ calls, QF kb c) :
    ∃ r', Table.find? ((runFCalls kb calls s).1.get 0) [0] = some r' ∧ r'.b = ⟨1, 1⟩ :=
  C20_fol_verdict_final kb ar wf worlds v cons calls hq s arity sat inUnit 0 [0]
    ⟨[0], ⟨1, 1⟩, ⟨1, 1⟩⟩ rfl (Or.inl rfl)

end C20FolEx

end LNN
