/-
C15 — Asserted data is stored, returned and validated faithfully.

`add_data` makes `get_data` return exactly the asserted bounds for exactly the asserted groundings
(later assertions overwrite earlier ones, other groundings are untouched) — for Facts, booleans,
floats and (lower, upper) pairs alike — and `reset_bounds()` returns to exactly that data whatever
inference wrote in between. Bounds outside `[0,1]`, pairs of the wrong length and values of the
wrong type for the formula are rejected with an error that leaves the formula's table unchanged:
in the model (as in `Model.add_data`) the validation of *every* entry (`List.mapM`) precedes the
first mutation (`List.foldl`), and an error result carries no table.
-/
import LnnVerif.Lemmas.TableLemmas
import Mathlib.Algebra.Order.Field.Rat
import Mathlib.Tactic.NormNum
import Mathlib.Data.List.Nodup

set_option linter.unusedSectionVars false

namespace LNN

/-! ### storing and reading one assertion -/

section store

variable {α : Type}

/-- `get_data` after `add_data` returns exactly the asserted bounds -/
theorem C15_get_after_add (w : Bounds α) (t : Table α) (g : Gr) (b : Bounds α) :
    Table.getD w (Table.addData w t g b) g = b :=
  Table.getD_addData_self w t g b

/-- the stored row: the grounding, with the asserted bounds as leaf (the data `reset_bounds`
returns to) and as working bounds -/
theorem C15_leaf_after_add (w : Bounds α) (t : Table α) (g : Gr) (b : Bounds α) :
    Table.find? (Table.addData w t g b) g = some ⟨g, b, b⟩ :=
  Table.find?_addData_self w t g b

theorem C15_leaf_after_add' (w : Bounds α) (t : Table α) (g : Gr) (b : Bounds α) :
    (Table.find? (Table.addData w t g b) g).map (·.leaf) = some b := by
  rw [C15_leaf_after_add]; rfl

/-- every other grounding is untouched: same row (leaf and working bounds), or still absent -/
theorem C15_add_other_untouched_find (w : Bounds α) (t : Table α) (g g' : Gr) (b : Bounds α)
    (h : g' ≠ g) : Table.find? (Table.addData w t g b) g' = Table.find? t g' :=
  Table.find?_addData_of_ne w t b h

theorem C15_add_other_untouched (w : Bounds α) (t : Table α) (g g' : Gr) (b : Bounds α)
    (h : g' ≠ g) : Table.getD w (Table.addData w t g b) g' = Table.getD w t g' :=
  Table.getD_addData_of_ne w t b h

/-- a later assertion overwrites an earlier one -/
theorem C15_add_overwrites (w : Bounds α) (t : Table α) (g : Gr) (b₁ b₂ : Bounds α) :
    Table.getD w (Table.addData w (Table.addData w t g b₁) g b₂) g = b₂ :=
  Table.getD_addData_self w _ g b₂

theorem C15_add_overwrites_find (w : Bounds α) (t : Table α) (g : Gr) (b₁ b₂ : Bounds α) :
    Table.find? (Table.addData w (Table.addData w t g b₁) g b₂) g = some ⟨g, b₂, b₂⟩ :=
  Table.find?_addData_self w _ g b₂

/-- exactly the asserted grounding becomes stored -/
theorem C15_add_keys (w : Bounds α) (t : Table α) (g : Gr) (b : Bounds α) (g' : Gr) :
    g' ∈ Table.keys (Table.addData w t g b) ↔ g' ∈ Table.keys t ∨ g' = g :=
  Table.mem_keys_addData

/-- re-asserting a stored grounding does not add a row -/
theorem C15_add_keys_stored (w : Bounds α) (t : Table α) (g : Gr) (b : Bounds α)
    (h : Table.has t g = true) : Table.keys (Table.addData w t g b) = Table.keys t := by
  unfold Table.addData
  rw [Table.keys_map _ (Table.addData_keyPres g b)]
  unfold Table.addg
  rw [if_pos h]; rfl

/-- a grounding stays stored at most once -/
theorem C15_add_nodup (w : Bounds α) (t : Table α) (g : Gr) (b : Bounds α) (h : Table.NodupKeys t) :
    Table.NodupKeys (Table.addData w t g b) :=
  h.addData w g b

end store

/-! ### inference never touches the asserted data -/

section leaves

variable {α : Type} [Field α] [LinearOrder α]

theorem C15_setB_keeps_leaves (t : Table α) (g : Gr) (b : Bounds α) :
    (∀ g', (Table.find? (Table.setB t g b) g').map (·.leaf) = (Table.find? t g').map (·.leaf)) ∧
      Table.keys (Table.setB t g b) = Table.keys t :=
  ⟨Table.leaf_setB t g b, Table.keys_setB t g b⟩

theorem C15_aggRow_keeps_leaves (t : Table α) (g : Gr) (sel : BoundSel) (new : Bounds α) :
    (∀ g', (Table.find? (aggRow t g sel new).1 g').map (·.leaf) = (Table.find? t g').map (·.leaf)) ∧
      Table.keys (aggRow t g sel new).1 = Table.keys t := by
  rcases Table.aggRow_cases t g sel new with e | ⟨b, e⟩ <;> rw [e]
  · exact ⟨fun _ => rfl, rfl⟩
  · exact C15_setB_keeps_leaves t g b

theorem C15_writeMerged_keeps_leaves (t : Table α) (props : List (Gr × Bounds α)) :
    (∀ g', (Table.find? (writeMerged t props).1 g').map (·.leaf) = (Table.find? t g').map (·.leaf)) ∧
      Table.keys (writeMerged t props).1 = Table.keys t := by
  apply Table.writeMerged_induct
    (fun acc => (∀ g', (Table.find? acc g').map (·.leaf) = (Table.find? t g').map (·.leaf)) ∧
      Table.keys acc = Table.keys t)
  · intro acc g b h
    exact ⟨fun g' => by rw [Table.leaf_setB, h.1], by rw [Table.keys_setB, h.2]⟩
  · exact ⟨fun _ => rfl, rfl⟩

theorem C15_flushB_keeps_leaves (t : Table α) (b : Bounds α) :
    (∀ g', (Table.find? (Table.flushB b t) g').map (·.leaf) = (Table.find? t g').map (·.leaf)) ∧
      Table.keys (Table.flushB b t) = Table.keys t := by
  refine ⟨fun g' => ?_, Table.keys_flushB b t⟩
  rw [Table.find?_flushB, Option.map_map]; rfl

/-- **Inference keeps the leaves.** `setB`, `aggRow`, `writeMerged`, `flushB` — the only ways
inference writes a table besides `addg`, which only adds world-default rows (C14) — never change
any row's leaf nor which groundings are stored. -/
theorem C15_inference_keeps_leaves (t : Table α) (g' : Gr) :
    (∀ g b, (Table.find? (Table.setB t g b) g').map (·.leaf) = (Table.find? t g').map (·.leaf)) ∧
    (∀ g sel new, (Table.find? (aggRow t g sel new).1 g').map (·.leaf) = (Table.find? t g').map (·.leaf)) ∧
    (∀ props, (Table.find? (writeMerged t props).1 g').map (·.leaf) = (Table.find? t g').map (·.leaf)) ∧
    (∀ b, (Table.find? (Table.flushB b t) g').map (·.leaf) = (Table.find? t g').map (·.leaf)) :=
  ⟨fun g b => (C15_setB_keeps_leaves t g b).1 g', fun g sel new => (C15_aggRow_keeps_leaves t g sel new).1 g',
   fun props => (C15_writeMerged_keeps_leaves t props).1 g', fun b => (C15_flushB_keeps_leaves t b).1 g'⟩

/-- `addg` keeps the leaves of the stored rows and gives the new ones the world default as leaf -/
theorem C15_addg_leaves (w : Bounds α) (t : Table α) (gs : List Gr) (g' : Gr) :
    (Table.find? (Table.addg w t gs) g').map (·.leaf) =
      match Table.find? t g' with
      | some r => some r.leaf
      | none => if g' ∈ gs then some w else none := by
  rw [Table.find?_addg]
  cases Table.find? t g' with
  | some r => rfl
  | none => simp only; split_ifs <;> rfl

/-! ### `reset_bounds()` returns to exactly the data -/

theorem C15_reset_returns_data (t : Table α) (g : Gr) :
    Table.find? (Table.resetBounds t) g = (Table.find? t g).map fun r => ⟨r.g, r.leaf, r.leaf⟩ :=
  Table.find?_resetBounds t g

/-- what a query returns after `reset_bounds()`: the leaf, or the world default -/
theorem C15_reset_read (w : Bounds α) (t : Table α) (g : Gr) :
    Table.getD w (Table.resetBounds t) g = ((Table.find? t g).map (·.leaf)).getD w := by
  unfold Table.getD
  rw [C15_reset_returns_data]
  cases Table.find? t g <;> rfl

/-- everything inference can do to the table of a formula whose world default is `w`: overwrite
working bounds (`setB`), aggregate onto a row (`aggRow`), the merged downward write
(`writeMerged`), create rows at the world default (`addg`), overwrite all working bounds
(`flushB`) — in any number and order -/
inductive InferenceWrites (w : Bounds α) : Table α → Table α → Prop
  | refl (t : Table α) : InferenceWrites w t t
  | setB (t t' : Table α) (g : Gr) (b : Bounds α) :
      InferenceWrites w (Table.setB t g b) t' → InferenceWrites w t t'
  | aggRow (t t' : Table α) (g : Gr) (sel : BoundSel) (new : Bounds α) :
      InferenceWrites w (aggRow t g sel new).1 t' → InferenceWrites w t t'
  | writeMerged (t t' : Table α) (props : List (Gr × Bounds α)) :
      InferenceWrites w (writeMerged t props).1 t' → InferenceWrites w t t'
  | addg (t t' : Table α) (gs : List Gr) :
      InferenceWrites w (Table.addg w t gs) t' → InferenceWrites w t t'
  | flushB (t t' : Table α) (b : Bounds α) :
      InferenceWrites w (Table.flushB b t) t' → InferenceWrites w t t'

theorem InferenceWrites.trans {w : Bounds α} {t u v : Table α} (h1 : InferenceWrites w t u)
    (h2 : InferenceWrites w u v) : InferenceWrites w t v := by
  induction h1 with
  | refl t => exact h2
  | setB t t' g b _ ih => exact .setB t v g b (ih h2)
  | aggRow t t' g sel new _ ih => exact .aggRow t v g sel new (ih h2)
  | writeMerged t t' props _ ih => exact .writeMerged t v props (ih h2)
  | addg t t' gs _ ih => exact .addg t v gs (ih h2)
  | flushB t t' b _ ih => exact .flushB t v b (ih h2)

theorem leaf_step {t u : Table α} {g : Gr} {r : Row α} (hr : Table.find? t g = some r)
    (hu : (Table.find? u g).map (·.leaf) = (Table.find? t g).map (·.leaf)) :
    ∃ r', Table.find? u g = some r' ∧ r'.leaf = r.leaf := by
  rw [hr] at hu
  cases hf : Table.find? u g with
  | none => rw [hf] at hu; cases hu
  | some r' => rw [hf] at hu; exact ⟨r', rfl, by simpa using hu⟩

/-- stored rows stay stored, with the same leaf -/
theorem InferenceWrites.leaf_kept {w : Bounds α} {t t' : Table α} (h : InferenceWrites w t t')
    (g : Gr) (r : Row α) (hr : Table.find? t g = some r) :
    ∃ r', Table.find? t' g = some r' ∧ r'.leaf = r.leaf := by
  induction h generalizing r with
  | refl t => exact ⟨r, hr, rfl⟩
  | setB t t' g' b _ ih =>
    obtain ⟨r1, h1, e1⟩ := leaf_step hr ((C15_setB_keeps_leaves t g' b).1 g)
    obtain ⟨r2, h2, e2⟩ := ih r1 h1
    exact ⟨r2, h2, e2.trans e1⟩
  | aggRow t t' g' sel new _ ih =>
    obtain ⟨r1, h1, e1⟩ := leaf_step hr ((C15_aggRow_keeps_leaves t g' sel new).1 g)
    obtain ⟨r2, h2, e2⟩ := ih r1 h1
    exact ⟨r2, h2, e2.trans e1⟩
  | writeMerged t t' props _ ih =>
    obtain ⟨r1, h1, e1⟩ := leaf_step hr ((C15_writeMerged_keeps_leaves t props).1 g)
    obtain ⟨r2, h2, e2⟩ := ih r1 h1
    exact ⟨r2, h2, e2.trans e1⟩
  | addg t t' gs _ ih => exact ih r (Table.addg_keeps gs hr)
  | flushB t t' b _ ih =>
    obtain ⟨r1, h1, e1⟩ := leaf_step hr ((C15_flushB_keeps_leaves t b).1 g)
    obtain ⟨r2, h2, e2⟩ := ih r1 h1
    exact ⟨r2, h2, e2.trans e1⟩

/-- **`reset_bounds()` returns to exactly the data, for every grounding**: after any inference,
what a query returns after `reset_bounds()` is what it returned on the data alone — the asserted
leaf where one was asserted, the world default everywhere else (also for the rows inference
created). -/
theorem C15_reset_after_inference (w : Bounds α) (t t' : Table α) (h : InferenceWrites w t t')
    (g : Gr) : Table.getD w (Table.resetBounds t') g = Table.getD w (Table.resetBounds t) g := by
  induction h with
  | refl t => rfl
  | setB t t' g' b _ ih => rw [ih, C15_reset_read, C15_reset_read, (C15_setB_keeps_leaves t g' b).1]
  | aggRow t t' g' sel new _ ih =>
    rw [ih, C15_reset_read, C15_reset_read, (C15_aggRow_keeps_leaves t g' sel new).1]
  | writeMerged t t' props _ ih =>
    rw [ih, C15_reset_read, C15_reset_read, (C15_writeMerged_keeps_leaves t props).1]
  | addg t t' gs _ ih =>
    rw [ih, C15_reset_read, C15_reset_read, C15_addg_leaves]
    cases Table.find? t g with
    | some r => rfl
    | none => simp only; split_ifs <;> rfl
  | flushB t t' b _ ih => rw [ih, C15_reset_read, C15_reset_read, (C15_flushB_keeps_leaves t b).1]

/-- corollary: assert `b` for `g`, run any inference, `reset_bounds()`: `get_data` returns `b` -/
theorem C15_reset_returns_assertion (w : Bounds α) (t t' : Table α) (g : Gr) (b : Bounds α)
    (h : InferenceWrites w (Table.addData w t g b) t') :
    Table.getD w (Table.resetBounds t') g = b := by
  rw [C15_reset_after_inference w _ _ h, C15_reset_read, C15_leaf_after_add]; rfl

/-- … and the stored row is again exactly the asserted one -/
theorem C15_reset_returns_assertion_row (w : Bounds α) (t t' : Table α) (g : Gr) (b : Bounds α)
    (h : InferenceWrites w (Table.addData w t g b) t') :
    Table.find? (Table.resetBounds t') g = some ⟨g, b, b⟩ := by
  obtain ⟨r', h1, h2⟩ := h.leaf_kept g _ (C15_leaf_after_add w t g b)
  rw [C15_reset_returns_data, h1]
  simp only [Option.map_some] at h2 ⊢
  rw [(Table.find?_some h1).2, h2]

/-! ### `flush()` and `reset_world()` assert every stored row -/

/-- `flush()` / `reset_world(b)`: the same groundings are stored, each asserted to be `b` — data
(leaf) and working bounds alike -/
theorem C15_assertAll_rows (b : Bounds α) (t : Table α) (g : Gr) :
    Table.find? (Table.assertAll b t) g = (Table.find? t g).map (fun r => ⟨r.g, b, b⟩) ∧
      Table.keys (Table.assertAll b t) = Table.keys t :=
  ⟨Table.find?_assertAll b t g, Table.keys_assertAll b t⟩

/-- after `reset_world(w)` every grounding — stored or not — reads as the new default `w` -/
theorem C15_resetWorld_reads_world (w : Bounds α) (t : Table α) (g : Gr) :
    Table.getD w (resetWorldTable w t) g = w := by
  unfold Table.getD resetWorldTable
  rw [Table.find?_assertAll]
  cases Table.find? t g <;> rfl

/-- … and keeps doing so after any inference followed by `reset_bounds()`: no row remembers the
previous world default or an earlier fact (the leaves are rewritten too) -/
theorem C15_resetWorld_then_reset (w : Bounds α) (t t' : Table α)
    (h : InferenceWrites w (resetWorldTable w t) t') (g : Gr) :
    Table.getD w (Table.resetBounds t') g = w := by
  rw [C15_reset_after_inference w _ _ h, C15_reset_read]
  unfold resetWorldTable
  rw [Table.find?_assertAll]
  cases Table.find? t g <;> rfl

/-- `flush()`: every stored grounding reads UNKNOWN, immediately and after inference followed by
`reset_bounds()`; a grounding that is not stored keeps reading as the world default -/
theorem C15_flush_reads (w : Bounds α) (t t' : Table α) (h : InferenceWrites w (flushTable t) t')
    (g : Gr) :
    Table.getD w (flushTable t) g = (if Table.has t g then ⟨0, 1⟩ else w) ∧
      Table.getD w (Table.resetBounds t') g = (if Table.has t g then ⟨0, 1⟩ else w) := by
  refine ⟨?_, ?_⟩
  · unfold Table.getD flushTable Table.has
    rw [Table.find?_assertAll]
    cases Table.find? t g <;> rfl
  · rw [C15_reset_after_inference w _ _ h, C15_reset_read]
    unfold flushTable Table.has
    rw [Table.find?_assertAll]
    cases Table.find? t g <;> rfl

end leaves

/-! ### encodings -/

section encodings

variable {α : Type} [Field α] [LinearOrder α]

theorem C15_enc_fact (f : FactE) : (Val.fact f : Val α).toBounds = .ok f.bounds := rfl

theorem C15_enc_fact_values :
    (FactE.true_.bounds : Bounds α) = ⟨1, 1⟩ ∧ (FactE.false_.bounds : Bounds α) = ⟨0, 0⟩ ∧
    (FactE.unknown.bounds : Bounds α) = ⟨0, 1⟩ ∧ (FactE.contradiction.bounds : Bounds α) = ⟨1, 0⟩ :=
  ⟨rfl, rfl, rfl, rfl⟩

theorem C15_enc_bool (b : Bool) :
    (Val.bool b : Val α).toBounds = .ok (if b then ⟨1, 1⟩ else ⟨0, 0⟩) := rfl

theorem C15_enc_bool_values :
    (Val.bool true : Val α).toBounds = .ok ⟨1, 1⟩ ∧ (Val.bool false : Val α).toBounds = .ok ⟨0, 0⟩ :=
  ⟨rfl, rfl⟩

theorem C15_enc_float (x : α) (h0 : 0 ≤ x) (h1 : x ≤ 1) : (Val.num x).toBounds = .ok ⟨x, x⟩ := by
  show (if 0 ≤ x ∧ x ≤ 1 then _ else _) = _
  rw [if_pos ⟨h0, h1⟩]

theorem C15_enc_pair (l u : α) (hl0 : 0 ≤ l) (hl1 : l ≤ 1) (hu0 : 0 ≤ u) (hu1 : u ≤ 1) :
    (Val.tuple [l, u]).toBounds = .ok ⟨l, u⟩ := by
  show (if 0 ≤ l ∧ l ≤ 1 ∧ 0 ≤ u ∧ u ≤ 1 then _ else _) = _
  rw [if_pos ⟨hl0, hl1, hu0, hu1⟩]

/-! ### validation -/

/-- the values the API accepts for one formula / grounding -/
def Val.Valid : Val α → Prop
  | .fact _ => True
  | .bool _ => True
  | .num x => 0 ≤ x ∧ x ≤ 1
  | .tuple xs => ∃ l u, xs = [l, u] ∧ 0 ≤ l ∧ l ≤ 1 ∧ 0 ≤ u ∧ u ≤ 1
  | .other => False

/-- the arguments the API accepts for one formula: a single value for a propositional formula, a
dict grounding ↦ value for a first-order one, every value valid -/
def DataArg.Valid (propositional : Bool) : DataArg α → Prop
  | .single v => propositional = true ∧ v.Valid
  | .perGrounding es => propositional = false ∧ ∀ e ∈ es, e.2.Valid

theorem C15_err_float (x : α) (h : ¬ (0 ≤ x ∧ x ≤ 1)) :
    (Val.num x).toBounds = .error .indexError := by
  show (if 0 ≤ x ∧ x ≤ 1 then _ else _) = _
  rw [if_neg h]

theorem C15_err_pair (l u : α) (h : ¬ (0 ≤ l ∧ l ≤ 1 ∧ 0 ≤ u ∧ u ≤ 1)) :
    (Val.tuple [l, u]).toBounds = .error .indexError := by
  show (if 0 ≤ l ∧ l ≤ 1 ∧ 0 ≤ u ∧ u ≤ 1 then _ else _) = _
  rw [if_neg h]

theorem C15_err_len (xs : List α) (h : xs.length ≠ 2) :
    (Val.tuple xs).toBounds = .error .indexError := by
  match xs, h with
  | [], _ => rfl
  | [_], _ => rfl
  | [_, _], h => exact absurd rfl h
  | _ :: _ :: _ :: _, _ => rfl

theorem C15_err_type : (Val.other : Val α).toBounds = .error .typeError := rfl

/-- the error raised for a value that is not valid -/
def Val.errKind : Val α → Err
  | .other => .typeError
  | _ => .indexError

theorem C15_toBounds_of_valid (v : Val α) (h : v.Valid) : ∃ b, v.toBounds = .ok b := by
  cases v with
  | fact f => exact ⟨_, rfl⟩
  | bool b => exact ⟨_, rfl⟩
  | num x => exact ⟨_, C15_enc_float x h.1 h.2⟩
  | tuple xs =>
    obtain ⟨l, u, rfl, h1, h2, h3, h4⟩ := h
    exact ⟨_, C15_enc_pair l u h1 h2 h3 h4⟩
  | other => exact absurd h id

theorem C15_toBounds_of_invalid (v : Val α) (h : ¬ v.Valid) : v.toBounds = .error v.errKind := by
  cases v with
  | fact f => exact absurd trivial h
  | bool b => exact absurd trivial h
  | num x => exact C15_err_float x h
  | tuple xs =>
    by_cases hl : xs.length = 2
    · match xs, hl with
      | [l, u], _ =>
        apply C15_err_pair
        intro h'
        exact h ⟨l, u, rfl, h'⟩
    · exact C15_err_len xs hl
  | other => rfl

/-- a value is accepted exactly when it is valid -/
theorem C15_toBounds_ok_iff (v : Val α) : (∃ b, v.toBounds = .ok b) ↔ v.Valid := by
  constructor
  · rintro ⟨b, hb⟩
    by_contra h
    rw [C15_toBounds_of_invalid v h] at hb
    cases hb
  · exact C15_toBounds_of_valid v

/-- what the accepted value is stored as -/
theorem C15_toBounds_value (v : Val α) (b : Bounds α) (h : v.toBounds = .ok b) :
    (∃ f, v = .fact f ∧ b = f.bounds) ∨ (v = .bool true ∧ b = ⟨1, 1⟩) ∨ (v = .bool false ∧ b = ⟨0, 0⟩) ∨
    (∃ x, v = .num x ∧ b = ⟨x, x⟩) ∨ (∃ l u, v = .tuple [l, u] ∧ b = ⟨l, u⟩) := by
  have hv := (C15_toBounds_ok_iff v).mp ⟨b, h⟩
  cases v with
  | fact f => cases h; exact Or.inl ⟨f, rfl, rfl⟩
  | bool c =>
    cases c
    · cases h; exact Or.inr (Or.inr (Or.inl ⟨rfl, rfl⟩))
    · cases h; exact Or.inr (Or.inl ⟨rfl, rfl⟩)
  | num x =>
    rw [C15_enc_float x hv.1 hv.2] at h; cases h
    exact Or.inr (Or.inr (Or.inr (Or.inl ⟨x, rfl, rfl⟩)))
  | tuple xs =>
    obtain ⟨l, u, rfl, h1, h2, h3, h4⟩ := hv
    rw [C15_enc_pair l u h1 h2 h3 h4] at h; cases h
    exact Or.inr (Or.inr (Or.inr (Or.inr ⟨l, u, rfl, rfl⟩)))
  | other => exact absurd hv id

/-! ### `Model.add_data` for one formula -/

/-- validation of one entry of the dict -/
def entryBounds (e : Gr × Val α) : Except Err (Gr × Bounds α) := do
  let b ← e.2.toBounds
  pure (e.1, b)

theorem entryBounds_ok_iff (e : Gr × Val α) (p : Gr × Bounds α) :
    entryBounds e = .ok p ↔ p.1 = e.1 ∧ e.2.toBounds = .ok p.2 := by
  unfold entryBounds
  cases h : e.2.toBounds with
  | error err =>
    constructor
    · intro h'; cases h'
    · rintro ⟨_, h'⟩; cases h'
  | ok b =>
    constructor
    · intro h'
      have : (e.1, b) = p := by cases h'; rfl
      rw [← this]; exact ⟨rfl, rfl⟩
    · rintro ⟨h1, h2⟩
      cases h2
      obtain ⟨p1, p2⟩ := p
      simp only at h1
      rw [h1]; rfl

theorem entryBounds_isOk_iff (e : Gr × Val α) : (∃ p, entryBounds e = .ok p) ↔ e.2.Valid := by
  rw [← C15_toBounds_ok_iff]
  constructor
  · rintro ⟨p, hp⟩; exact ⟨p.2, ((entryBounds_ok_iff e p).mp hp).2⟩
  · rintro ⟨b, hb⟩; exact ⟨(e.1, b), (entryBounds_ok_iff e (e.1, b)).mpr ⟨rfl, hb⟩⟩

theorem addDataChecked_single (w : Bounds α) (t : Table α) (v : Val α) :
    addDataChecked true w t (.single v) =
      match v.toBounds with
      | .ok b => .ok (Table.addData w t [] b)
      | .error e => .error e := by
  show (v.toBounds >>= fun b => Except.ok (Table.addData w t [] b)) = _
  cases v.toBounds <;> rfl

theorem addDataChecked_perGrounding (w : Bounds α) (t : Table α) (es : List (Gr × Val α)) :
    addDataChecked false w t (.perGrounding es) =
      match es.mapM entryBounds with
      | .ok bs => .ok (bs.foldl (fun t e => Table.addData w t e.1 e.2) t)
      | .error e => .error e := by
  show (es.mapM entryBounds >>= fun bs =>
    Except.ok (bs.foldl (fun t e => Table.addData w t e.1 e.2) t)) = _
  cases es.mapM entryBounds <;> rfl

/-- **`add_data` accepts exactly the valid arguments.** -/
theorem C15_accept_iff (p : Bool) (w : Bounds α) (t : Table α) (d : DataArg α) :
    (∃ t', addDataChecked p w t d = .ok t') ↔ d.Valid p := by
  cases d with
  | single v =>
    cases p with
    | false =>
      constructor
      · rintro ⟨t', h⟩; cases h
      · rintro ⟨h, _⟩; cases h
    | true =>
      rw [addDataChecked_single]
      show _ ↔ (true = true ∧ v.Valid)
      rw [← C15_toBounds_ok_iff]
      cases v.toBounds with
      | ok b => exact ⟨fun _ => ⟨rfl, b, rfl⟩, fun _ => ⟨_, rfl⟩⟩
      | error e =>
        constructor
        · rintro ⟨t', h⟩; cases h
        · rintro ⟨_, b, h⟩; cases h
  | perGrounding es =>
    cases p with
    | true =>
      constructor
      · rintro ⟨t', h⟩; cases h
      · rintro ⟨h, _⟩; cases h
    | false =>
      rw [addDataChecked_perGrounding]
      show _ ↔ (false = false ∧ ∀ e ∈ es, e.2.Valid)
      have key := mapM_except_isOk_iff entryBounds es
      simp only [entryBounds_isOk_iff] at key
      rw [← key]
      cases es.mapM entryBounds with
      | ok bs => exact ⟨fun _ => ⟨rfl, bs, rfl⟩, fun _ => ⟨_, rfl⟩⟩
      | error e =>
        constructor
        · rintro ⟨t', h⟩; cases h
        · rintro ⟨_, b, h⟩; cases h

/-- **Invalid arguments are rejected.** The result of a rejected `add_data` is an error and
nothing else: `addDataChecked` returns `Except Err (Table α)`, an error value carries no table, so
the caller keeps the table it had — the formula's table is unchanged. This is faithful to the
implementation because there, too, every entry is validated before the first row is written; in
the model this is the order `List.mapM` (validation of all entries, stopping at the first error)
before `List.foldl` (the writes), see `addDataChecked_perGrounding`. -/
theorem C15_reject (p : Bool) (w : Bounds α) (t : Table α) (d : DataArg α) (h : ¬ d.Valid p) :
    ∃ e, addDataChecked p w t d = .error e := by
  rcases except_ok_or_error (addDataChecked p w t d) with ⟨t', h'⟩ | h'
  · exact absurd ((C15_accept_iff p w t d).mp ⟨t', h'⟩) h
  · exact h'

/-- wrong type for the formula: a dict for a propositional formula is a `TypeError`, a non-dict
for a first-order formula a plain `Exception` -/
theorem C15_reject_kind (w : Bounds α) (t : Table α) :
    (∀ es, addDataChecked true w t (.perGrounding es) = .error .typeError) ∧
    (∀ v, addDataChecked false w t (.single v) = .error .exception) :=
  ⟨fun _ => rfl, fun _ => rfl⟩

/-- the error raised for an invalid value given to a propositional formula -/
theorem C15_reject_kind_single (w : Bounds α) (t : Table α) (v : Val α) (h : ¬ v.Valid) :
    addDataChecked true w t (.single v) = .error v.errKind := by
  rw [addDataChecked_single, C15_toBounds_of_invalid v h]

/-- an invalid value anywhere in the dict makes the whole call fail: no entry is stored, not even
the valid ones that precede it -/
theorem C15_reject_entry (w : Bounds α) (t : Table α) (es : List (Gr × Val α)) (e : Gr × Val α)
    (he : e ∈ es) (h : ¬ e.2.Valid) :
    ∃ err, addDataChecked false w t (.perGrounding es) = .error err :=
  C15_reject false w t _ (fun hv => h (hv.2 e he))

/-- … and the error is that of the first invalid entry: `IndexError` for an out-of-range float or
pair and for a tuple of the wrong length, `TypeError` for a value of an unsupported type -/
theorem C15_reject_kind_entry (w : Bounds α) (t : Table α) (pre post : List (Gr × Val α))
    (e : Gr × Val α) (hpre : ∀ x ∈ pre, x.2.Valid) (he : ¬ e.2.Valid) :
    addDataChecked false w t (.perGrounding (pre ++ e :: post)) = .error e.2.errKind := by
  rw [addDataChecked_perGrounding, mapM_except_first_error entryBounds pre e post e.2.errKind
    (fun x hx => (entryBounds_isOk_iff x).mpr (hpre x hx))]
  unfold entryBounds
  rw [C15_toBounds_of_invalid e.2 he]; rfl

/-- a propositional formula: the accepted value is what `get_data` returns -/
theorem C15_checked_spec_single (w : Bounds α) (t t' : Table α) (v : Val α)
    (h : addDataChecked true w t (.single v) = .ok t') :
    ∃ b, v.toBounds = .ok b ∧ t' = Table.addData w t [] b ∧ Table.getD w t' [] = b := by
  rw [addDataChecked_single] at h
  cases hv : v.toBounds with
  | error e => rw [hv] at h; cases h
  | ok b =>
    rw [hv] at h
    cases h
    exact ⟨b, rfl, rfl, C15_get_after_add w t [] b⟩

/-- **What an accepted first-order `add_data` stores.** Every value was valid; a grounding that
does not occur in the dict reads as before (same row, or still absent); a grounding that occurs
reads as the bounds of its LAST entry; exactly the groundings of the dict become stored. -/
theorem C15_checked_spec (w : Bounds α) (t t' : Table α) (es : List (Gr × Val α))
    (h : addDataChecked false w t (.perGrounding es) = .ok t') :
    (∀ e ∈ es, ∃ b, e.2.toBounds = .ok b) ∧
    (∀ g, g ∉ es.map (·.1) → Table.find? t' g = Table.find? t g ∧ Table.getD w t' g = Table.getD w t g) ∧
    (∀ g e, es.reverse.find? (fun e => e.1 == g) = some e →
      ∃ b, e.2.toBounds = .ok b ∧ Table.find? t' g = some ⟨g, b, b⟩ ∧ Table.getD w t' g = b) ∧
    (∀ g, g ∈ Table.keys t' ↔ g ∈ Table.keys t ∨ g ∈ es.map (·.1)) := by
  rw [addDataChecked_perGrounding] at h
  cases hm : es.mapM entryBounds with
  | error e => rw [hm] at h; cases h
  | ok bs =>
    rw [hm] at h
    cases h
    have hf := (mapM_except_ok_iff entryBounds es bs).mp hm
    have hkey : ∀ (e : Gr × Val α) (p : Gr × Bounds α), entryBounds e = .ok p → p.1 = e.1 :=
      fun e p hp => ((entryBounds_ok_iff e p).mp hp).1
    have hkeys : bs.map (·.1) = es.map (·.1) := map_fst_of_forall₂ hkey hf
    refine ⟨?_, ?_, ?_, ?_⟩
    · intro e he
      obtain ⟨p, hp⟩ := (mapM_except_isOk_iff entryBounds es).mp ⟨bs, hm⟩ e he
      exact ⟨p.2, ((entryBounds_ok_iff e p).mp hp).2⟩
    · intro g hg
      have hn : Table.lastFor bs g = none := Table.lastFor_eq_none_iff.mpr (hkeys ▸ hg)
      constructor
      · rw [Table.leaf_foldl_addData, hn]
      · rw [Table.getD_foldl_addData, hn]; rfl
    · intro g e he
      obtain ⟨p, hp, hr⟩ := find?_key_of_forall₂ hkey (List.forall₂_reverse_iff.mpr hf) g e he
      have hl : Table.lastFor bs g = some p.2 := by unfold Table.lastFor; rw [hp]; rfl
      refine ⟨p.2, ((entryBounds_ok_iff e p).mp hr).2, ?_, ?_⟩
      · rw [Table.leaf_foldl_addData, hl]
      · rw [Table.getD_foldl_addData, hl]; rfl
    · intro g
      rw [Table.mem_keys_foldl_addData, hkeys]

/-- the version for a dict with pairwise distinct groundings (a python dict): every entry reads
back as given -/
theorem C15_checked_spec_distinct (w : Bounds α) (t t' : Table α) (es : List (Gr × Val α))
    (hd : (es.map (·.1)).Nodup)
    (h : addDataChecked false w t (.perGrounding es) = .ok t') :
    ∀ e ∈ es, ∃ b, e.2.toBounds = .ok b ∧ Table.find? t' e.1 = some ⟨e.1, b, b⟩ ∧
      Table.getD w t' e.1 = b := by
  intro e he
  have hd' : (es.reverse.map (·.1)).Nodup := by
    rw [List.map_reverse]; exact List.nodup_reverse.mpr hd
  exact (C15_checked_spec w t t' es h).2.2.1 e.1 e
    (find?_key_of_nodup hd' (List.mem_reverse.mpr he))

theorem C15_checked_nodup (p : Bool) (w : Bounds α) (t t' : Table α) (d : DataArg α)
    (hn : Table.NodupKeys t) (h : addDataChecked p w t d = .ok t') : Table.NodupKeys t' := by
  cases d with
  | single v =>
    cases p with
    | false => cases h
    | true =>
      obtain ⟨b, _, rfl, _⟩ := C15_checked_spec_single w t t' v h
      exact hn.addData w [] b
  | perGrounding es =>
    cases p with
    | true => cases h
    | false =>
      rw [addDataChecked_perGrounding] at h
      cases hm : es.mapM entryBounds with
      | error e => rw [hm] at h; cases h
      | ok bs => rw [hm] at h; cases h; exact hn.foldl_addData w bs

end encodings

/-! ### non-vacuity -/

/-- a CLOSED predicate given two facts, one of them re-asserted -/
def exT15 : Table ℚ :=
  Table.addData ⟨0, 0⟩ (Table.addData ⟨0, 0⟩ (Table.addData ⟨0, 0⟩ [] [0] ⟨1, 1⟩) [1] ⟨1/4, 3/4⟩) [0] ⟨0, 1⟩

example : Table.getD ⟨0, 0⟩ exT15 [0] = ⟨0, 1⟩ ∧ Table.getD ⟨0, 0⟩ exT15 [1] = ⟨1/4, 3/4⟩ ∧
    Table.getD ⟨0, 0⟩ exT15 [2] = ⟨0, 0⟩ ∧ Table.keys exT15 = [[0], [1]] := ⟨rfl, rfl, rfl, rfl⟩

/-- `reset_world(AXIOM)` on it, a tightening, `reset_bounds()`: both the fact and the row read TRUE;
`flush()` instead: stored rows UNKNOWN, the absent one still FALSE -/
example : Table.getD ⟨1, 1⟩ (Table.resetBounds (aggRow (resetWorldTable ⟨1, 1⟩ exT15) [1] .both ⟨0, 1/2⟩).1) [1] = ⟨1, 1⟩ ∧
    Table.getD ⟨1, 1⟩ (resetWorldTable ⟨1, 1⟩ exT15) [0] = ⟨1, 1⟩ ∧
    Table.getD ⟨0, 0⟩ (Table.resetBounds (flushTable exT15)) [1] = ⟨0, 1⟩ ∧
    Table.getD ⟨0, 0⟩ (flushTable exT15) [2] = ⟨0, 0⟩ := by
  refine ⟨?_, ?_, ?_, ?_⟩ <;> simp [exT15, resetWorldTable, flushTable, Table.assertAll, Table.addData, Table.addg,
    Table.getD, Table.find?, Table.has, Table.resetBounds, aggRow, aggregate, Table.setB]

/-- inference really moves a working bound, `reset_bounds()` really restores the data -/
example : Table.getD ⟨0, 0⟩ (aggRow exT15 [1] .both ⟨1/2, 1⟩).1 [1] = ⟨1/2, 3/4⟩ ∧
    Table.getD ⟨0, 0⟩ (Table.resetBounds (aggRow exT15 [1] .both ⟨1/2, 1⟩).1) [1] = ⟨1/4, 3/4⟩ := by
  constructor
  · simp [exT15, aggRow, Table.getD, Table.find?, Table.addData, Table.addg, Table.has, Table.setB,
      aggregate, clamp01]
    norm_num
  · rw [C15_reset_after_inference ⟨0, 0⟩ exT15 _ (.aggRow _ _ [1] .both ⟨1/2, 1⟩ (.refl _))]
    rfl

/-- a dict with a Fact, a pair, a float and a boolean -/
def exDict : List (Gr × Val ℚ) :=
  [([0], .fact .true_), ([1], .tuple [1/4, 3/4]), ([2], .num (1/2)), ([3], .bool false)]

/-- it is valid, hence accepted, and every entry reads back as given; a grounding that was not
asserted reads FALSE (CLOSED world) and is not stored -/
example : ∃ t', addDataChecked false ⟨0, 0⟩ ([] : Table ℚ) (.perGrounding exDict) = .ok t' ∧
    Table.getD ⟨0, 0⟩ t' [0] = ⟨1, 1⟩ ∧ Table.getD ⟨0, 0⟩ t' [1] = ⟨1/4, 3/4⟩ ∧
    Table.getD ⟨0, 0⟩ t' [2] = ⟨1/2, 1/2⟩ ∧ Table.getD ⟨0, 0⟩ t' [3] = ⟨0, 0⟩ ∧
    Table.getD ⟨0, 0⟩ t' [4] = ⟨0, 0⟩ ∧ Table.find? t' [4] = none := by
  have hv : DataArg.Valid false (.perGrounding exDict) := by
    refine ⟨rfl, ?_⟩
    intro e he
    simp only [exDict, List.mem_cons, List.not_mem_nil, or_false] at he
    rcases he with rfl | rfl | rfl | rfl
    · trivial
    · exact ⟨1/4, 3/4, rfl, by norm_num, by norm_num, by norm_num, by norm_num⟩
    · exact ⟨by norm_num, by norm_num⟩
    · trivial
  obtain ⟨t', ht'⟩ := (C15_accept_iff false ⟨0, 0⟩ ([] : Table ℚ) _).mpr hv
  have hd : (exDict.map (·.1)).Nodup := by decide
  have spec := C15_checked_spec_distinct _ _ _ _ hd ht'
  have other := (C15_checked_spec _ _ _ _ ht').2.1 [4] (by decide)
  refine ⟨t', ht', ?_, ?_, ?_, ?_, other.2, other.1⟩
  · obtain ⟨b, hb, _, hg⟩ := spec ([0], .fact .true_) (by simp [exDict])
    cases hb; exact hg
  · obtain ⟨b, hb, _, hg⟩ := spec ([1], .tuple [1/4, 3/4]) (by simp [exDict])
    rw [C15_enc_pair _ _ (by norm_num) (by norm_num) (by norm_num) (by norm_num)] at hb
    cases hb; exact hg
  · obtain ⟨b, hb, _, hg⟩ := spec ([2], .num (1/2)) (by simp [exDict])
    rw [C15_enc_float _ (by norm_num) (by norm_num)] at hb
    cases hb; exact hg
  · obtain ⟨b, hb, _, hg⟩ := spec ([3], .bool false) (by simp [exDict])
    cases hb; exact hg

/-- an out-of-range float, a triple, an out-of-range pair and a string are rejected -/
example : (Val.num (3/2 : ℚ)).toBounds = .error .indexError ∧
    (Val.tuple [(0 : ℚ), 1/2, 1]).toBounds = .error .indexError ∧
    (Val.tuple [(1/2 : ℚ), 2]).toBounds = .error .indexError ∧
    (Val.other : Val ℚ).toBounds = .error .typeError ∧ ¬ (Val.num (3/2 : ℚ)).Valid := by
  refine ⟨C15_err_float _ (by norm_num), C15_err_len _ (by simp), C15_err_pair _ _ (by norm_num), rfl, ?_⟩
  intro h; exact absurd h.2 (by norm_num)

/-- … also inside a dict whose first entry is valid: the call fails with `IndexError` and returns
no table, so `[5]` is not stored either -/
example : addDataChecked false ⟨0, 0⟩ exT15 (.perGrounding [([5], .bool true), ([6], .num (3/2))])
    = .error .indexError :=
  C15_reject_kind_entry ⟨0, 0⟩ exT15 [([5], .bool true)] [] ([6], .num (3/2))
    (by intro x hx; rw [List.mem_singleton.mp hx]; trivial) (fun h => absurd h.2 (by norm_num))

end LNN
