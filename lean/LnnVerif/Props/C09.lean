/-
C09 — Groundings with asserted operand facts are always evaluated (presence part).

After upward inference over a first-order connective, every grounding for which all the operand
facts it depends on are stored — every tuple of the NATURAL JOIN of the operand tables — is a row
of the connective's table.

A tuple of the natural join is given by an assignment `σ : Nat → Nat` of constants to variable
slots whose restriction `m.map σ` to every operand's variable map `m` is a key of that operand's
table. The implementation does not compute a natural join but pandas' `_full_outer_join`
(`foj`), which for shared columns emits, for EVERY pair of rows, both the row that takes the shared
columns from the left and the one that takes them from the right. The theorems show that this
relation always CONTAINS the natural join (completeness); the examples at the end show that it is
in general a strict superset (this is how the implementation propagates groundings to operands).

Strength: no well-formedness of the relations is needed for completeness (neither distinct column
names nor aligned rows): `Rel.val` reads the first occurrence of a column and in the row of an
assignment every occurrence carries the same constant. Well-formedness is shown to be preserved
separately (`C09_foj_wf`, `C09_foldJoin_wf`).

The value part of C09 (the stored bounds are the truth function of the operand facts) is proved
elsewhere; `C09_join_aligned` provides the link: the row index at which the grounding is evaluated
reads exactly the operand groundings `m.map σ`.
-/
import LnnVerif.Lemmas.Join
import Mathlib.Algebra.Order.Field.Rat

namespace LNN

open Join

variable {ι : Type} [DecidableEq ι] {α : Type}

/-! ### relations -/

/-- Reading slot `c` from the row `cols.map σ` of an assignment gives `σ c`. -/
theorem C09_val_assignment (σ : Nat → Nat) (cols : List Nat) (c : Nat) (h : c ∈ cols) :
    Rel.val cols (cols.map σ) c = some (σ c) :=
  val_map_of_mem σ h

/-- A slot that is not a column reads as missing. -/
theorem C09_val_missing (cols row : List Nat) (c : Nat) (h : c ∉ cols) : Rel.val cols row c = none :=
  val_of_not_mem h

theorem C09_mem_dedupKeepFirst (l : List (List Nat)) (x : List Nat) : x ∈ dedupKeepFirst l ↔ x ∈ l :=
  mem_dedupKeepFirst

theorem C09_nodup_dedupKeepFirst (l : List (List Nat)) : (dedupKeepFirst l).Nodup :=
  nodup_dedupKeepFirst l

/-- One join step is complete: if both inputs hold the row of `σ`, so does the join. The columns
of the join are exactly the union of the input columns. -/
theorem C09_foj_complete (σ : Nat → Nat) (T1 T2 : Rel)
    (h1 : T1.cols.map σ ∈ T1.rows) (h2 : T2.cols.map σ ∈ T2.rows) :
    (foj T1 T2).cols.map σ ∈ (foj T1 T2).rows ∧
      ∀ c, c ∈ (foj T1 T2).cols ↔ c ∈ T1.cols ∨ c ∈ T2.cols :=
  ⟨foj_complete σ T1 T2 h1 h2, mem_foj_cols T1 T2⟩

/-- The join of well-formed relations (distinct columns, aligned rows) is well-formed; holds in all
three branches of `foj`, including the degenerate "one side empty" branch. -/
theorem C09_foj_wf (T1 T2 : Rel) (w1 : WfRel T1) (w2 : WfRel T2) : WfRel (foj T1 T2) :=
  foj_wf w1 w2

/-- The requested bundled form. -/
theorem C09_foj_complete_wf (σ : Nat → Nat) (T1 T2 : Rel) (w1 : WfRel T1) (w2 : WfRel T2)
    (h1 : T1.cols.map σ ∈ T1.rows) (h2 : T2.cols.map σ ∈ T2.rows) :
    (foj T1 T2).cols.map σ ∈ (foj T1 T2).rows ∧
      (∀ c, c ∈ (foj T1 T2).cols ↔ c ∈ T1.cols ∨ c ∈ T2.cols) ∧ WfRel (foj T1 T2) :=
  ⟨foj_complete σ T1 T2 h1 h2, mem_foj_cols T1 T2, foj_wf w1 w2⟩

/-- The n-ary join is complete: if every relation holds the row of `σ` then the fold of joins
exists, holds the row of `σ`, and its columns are the union of all columns. -/
theorem C09_foldJoin_complete (σ : Nat → Nat) (rels : List Rel) (hne : rels ≠ [])
    (h : ∀ R ∈ rels, R.cols.map σ ∈ R.rows) :
    ∃ J, foldJoin rels = some J ∧ J.cols.map σ ∈ J.rows ∧
      ∀ c, c ∈ J.cols ↔ ∃ R ∈ rels, c ∈ R.cols :=
  foldJoin_complete σ rels hne h

theorem C09_foldJoin_wf (rels : List Rel) (J : Rel) (hJ : foldJoin rels = some J)
    (h : ∀ R ∈ rels, WfRel R) : WfRel J :=
  foldJoin_wf hJ h

/-! ### engine level: heterogeneous variable maps (the join branch of `groundings`) -/

/-- The hypothesis "`σ` is a tuple of the natural join of the operand tables of `i` in `s`": for
every operand position the projected grounding is stored in that operand's table. -/
def InNatJoin (kb : FKB ι α) (i : ι) (s : FState ι α) (σ : Nat → Nat) : Prop :=
  ∀ (p : Nat) (j : ι) (m : List Nat),
    (kb i).ops[p]? = some j → (kb i).opmap[p]? = some m → m.map σ ∈ (s.get j).keys

/-- The variable slots are numbered `0 … numVars - 1` and there is one variable map per operand. -/
def SlotsCovered (n : FNode ι α) : Prop :=
  n.ops.length = n.opmap.length ∧ ∀ c < numVars n, c ∈ n.opmap.flatten

theorem InNatJoin.zip {kb : FKB ι α} {i : ι} {s : FState ι α} {σ : Nat → Nat}
    (h : InNatJoin kb i s σ) :
    ∀ p ∈ List.zip (kb i).ops (kb i).opmap, p.2.map σ ∈ (s.get p.1).keys := by
  intro p hp
  obtain ⟨k, hk⟩ := List.mem_iff_getElem?.mp hp
  rw [List.getElem?_zip_eq_some] at hk
  exact h k p.1 p.2 hk.1 hk.2

/-- the joined relation of the operand tables: exists, is non-empty, holds `σ`'s row, and has
every slot as a column -/
theorem C09_join_exists (kb : FKB ι α) (i : ι) (s : FState ι α) (σ : Nat → Nat)
    (hh : isHomogeneous (kb i) = false) (hc : SlotsCovered (kb i)) (hσ : InNatJoin kb i s σ) :
    ∃ J, foldJoin (relsOf kb i s) = some J ∧ J.rows.isEmpty = false ∧ J.cols.map σ ∈ J.rows ∧
      (∀ m ∈ (kb i).opmap, ∀ c ∈ m, c ∈ J.cols) ∧ (∀ c < numVars (kb i), c ∈ J.cols) := by
  have hR : ∀ R ∈ relsOf kb i s, R.cols.map σ ∈ R.rows := by
    intro R hR
    obtain ⟨p, hp, rfl⟩ := mem_relsOf.mp hR
    exact hσ.zip p hp
  obtain ⟨J, hJ, hrow, hcols⟩ := foldJoin_complete σ _ (relsOf_ne_nil s hh hc.1) hR
  have hm : ∀ m ∈ (kb i).opmap, ∀ c ∈ m, c ∈ J.cols := by
    intro m hm c hcm
    obtain ⟨j, hj⟩ := exists_mem_zip_of_mem_right hc.1 hm
    exact (hcols c).mpr ⟨_, mem_relsOf.mpr ⟨(j, m), hj, rfl⟩, hcm⟩
  refine ⟨J, hJ, ?_, hrow, hm, ?_⟩
  · cases h : J.rows with
    | nil => rw [h] at hrow; cases hrow
    | cons _ _ => rfl
  · intro c hlt
    obtain ⟨m, hm', hcm⟩ := List.mem_flatten.mp (hc.2 c hlt)
    exact hm m hm' c hcm

/-- JOIN COMPLETENESS at engine level. If the grounding `σ` has all its operand facts stored, then
grounding management returns the operator grounding `(σ 0, …, σ (numVars-1))` for evaluation and
creates its row in the operator's table. (`down` is irrelevant in this branch.) -/
theorem C09_join_complete (kb : FKB ι α) (i : ι) (down : Bool) (s : FState ι α) (σ : Nat → Nat)
    (hh : isHomogeneous (kb i) = false) (hc : SlotsCovered (kb i)) (hσ : InNatJoin kb i s σ) :
    ∃ ogs per, (groundings kb i down s).2 = some (ogs, per) ∧
      (List.range (numVars (kb i))).map σ ∈ ogs ∧
      (List.range (numVars (kb i))).map σ ∈ ((groundings kb i down s).1.get i).keys := by
  obtain ⟨J, hJ, hne, hrow, _, hslots⟩ := C09_join_exists kb i s σ hh hc hσ
  have hogs : (List.range (numVars (kb i))).map σ ∈ ogsOf (kb i) J := by
    refine List.mem_map.mpr ⟨_, hrow, project_map σ ?_⟩
    intro c hcr
    exact hslots c (List.mem_range.mp hcr)
  rw [groundings_hetero kb i down s hh hJ hne]
  refine ⟨_, _, rfl, hogs, ?_⟩
  rw [mem_keys_addAll]
  exact .inr ⟨_, List.mem_singleton.mpr rfl, rfl, hogs⟩

/-- Alignment: there is a row index `k` at which the operator grounding is `σ`'s and at which the
operand groundings read by `fUpConn`/`fDownConn` (`rowsOf per k`) are exactly the projections
`m.map σ`, operand by operand. -/
theorem C09_join_aligned (kb : FKB ι α) (i : ι) (down : Bool) (s : FState ι α) (σ : Nat → Nat)
    (hh : isHomogeneous (kb i) = false) (hc : SlotsCovered (kb i)) (hσ : InNatJoin kb i s σ) :
    ∃ ogs per k, (groundings kb i down s).2 = some (ogs, per) ∧ k < ogs.length ∧
      ogs.getD k [] = (List.range (numVars (kb i))).map σ ∧
      rowsOf per k = (kb i).opmap.map fun m => m.map σ := by
  obtain ⟨J, hJ, hne, hrow, hm, hslots⟩ := C09_join_exists kb i s σ hh hc hσ
  obtain ⟨k, hk, hJk⟩ := List.mem_iff_getElem.mp hrow
  rw [groundings_hetero kb i down s hh hJ hne]
  refine ⟨_, _, k, rfl, by simpa [ogsOf] using hk, ?_, ?_⟩
  · simp only [ogsOf, List.getD_eq_getElem?_getD, List.getElem?_map, List.getElem?_eq_getElem hk,
      Option.map_some, Option.getD_some, hJk]
    exact project_map σ fun c hcr => hslots c (List.mem_range.mp hcr)
  · simp only [rowsOf, perOf, List.map_map]
    apply List.map_congr_left
    intro m hmm
    simp only [Function.comp, List.getD_eq_getElem?_getD, List.getElem?_map,
      List.getElem?_eq_getElem hk, Option.map_some, Option.getD_some, hJk]
    exact project_map σ (hm m hmm)

/-- The operands' tables also hold their projections afterwards (they did before; nothing is ever
removed). -/
theorem C09_operands_kept (kb : FKB ι α) (i : ι) (down : Bool) (s : FState ι α) (j : ι) (g : Gr)
    (h : g ∈ (s.get j).keys) : g ∈ ((groundings kb i down s).1.get j).keys :=
  groundings_keys_mono kb i down s j g h

/-! ### engine level: homogeneous variable maps (union propagation) -/

/-- All operands share one variable tuple: the groundings are the union of all operand keys; every
stored operand grounding becomes a row of the operator AND of every operand. -/
theorem C09_homogeneous_complete (kb : FKB ι α) (i : ι) (down : Bool) (s : FState ι α)
    (hh : isHomogeneous (kb i) = true) (j : ι) (hj : j ∈ (kb i).ops) (g : Gr)
    (hg : g ∈ (s.get j).keys) :
    (∃ gs per, (groundings kb i down s).2 = some (gs, per) ∧ g ∈ gs) ∧
      g ∈ ((groundings kb i down s).1.get i).keys ∧
      ∀ j' ∈ (kb i).ops, g ∈ ((groundings kb i down s).1.get j').keys := by
  have hgs : g ∈ homGs kb i down s := by
    unfold homGs
    rw [mem_unionKeys]
    exact ⟨(s.get j).keys, List.mem_append_left _ (List.mem_map.mpr ⟨j, hj, rfl⟩), hg⟩
  rw [groundings_homog kb i down s hh]
  refine ⟨⟨_, _, rfl, hgs⟩, ?_, ?_⟩
  · rw [mem_keys_addAll]
    exact .inr ⟨_, List.mem_singleton.mpr rfl, rfl, hgs⟩
  · intro j' hj'
    rw [mem_keys_addAll, mem_keys_addAll]
    exact .inl (.inr ⟨(j', homGs kb i down s), List.mem_map.mpr ⟨j', hj', rfl⟩, rfl, hgs⟩)

/-! ### after the upward pass -/

section Up
variable [Field α] [LinearOrder α]

/-- `fUpConn` creates rows only through `groundings` and afterwards only rewrites bounds: every
table has exactly the keys grounding management gave it. -/
theorem C09_upward_keys (kb : FKB ι α) (i : ι) (s : FState ι α) (j : ι) :
    ((fUpConn kb i s).1.get j).keys = ((groundings kb i false s).1.get j).keys :=
  fUpConn_keys kb i s j

/-- C09 (presence), join branch: after upward inference the operator's table has the row of every
grounding all of whose operand facts are stored. -/
theorem C09_upward_present (kb : FKB ι α) (i : ι) (s : FState ι α) (σ : Nat → Nat)
    (hh : isHomogeneous (kb i) = false) (hc : SlotsCovered (kb i)) (hσ : InNatJoin kb i s σ) :
    Table.has ((fUpConn kb i s).1.get i) ((List.range (numVars (kb i))).map σ) = true := by
  rw [has_iff_mem_keys, fUpConn_keys]
  obtain ⟨_, _, _, _, h⟩ := C09_join_complete kb i false s σ hh hc hσ
  exact h

/-- C09 (presence), homogeneous branch: every grounding stored for some operand is a row of the
operator (and of every operand) after upward inference. -/
theorem C09_upward_present_homogeneous (kb : FKB ι α) (i : ι) (s : FState ι α)
    (hh : isHomogeneous (kb i) = true) (j : ι) (hj : j ∈ (kb i).ops) (g : Gr)
    (hg : g ∈ (s.get j).keys) :
    Table.has ((fUpConn kb i s).1.get i) g = true ∧
      ∀ j' ∈ (kb i).ops, Table.has ((fUpConn kb i s).1.get j') g = true := by
  obtain ⟨_, h1, h2⟩ := C09_homogeneous_complete kb i false s hh j hj g hg
  refine ⟨?_, ?_⟩
  · rw [has_iff_mem_keys, fUpConn_keys]; exact h1
  · intro j' hj'
    rw [has_iff_mem_keys, fUpConn_keys]; exact h2 j' hj'

/-- Upward inference never removes a row of any table. -/
theorem C09_upward_keeps_rows (kb : FKB ι α) (i : ι) (s : FState ι α) (j : ι) (g : Gr)
    (h : g ∈ (s.get j).keys) : g ∈ ((fUpConn kb i s).1.get j).keys := by
  rw [fUpConn_keys]
  exact groundings_keys_mono kb i false s j g h

end Up

/-! ### non-vacuity and the shape of the implementation's join -/

/-- `P(x,y)` with facts (1,2),(3,4); `Q(y,z)` with facts (2,5),(4,6). Columns of the join are
`uniq ++ shared = [x, z, y]`. -/
def c09T1 : Rel := ⟨[0, 1], [[1, 2], [3, 4]]⟩
def c09T2 : Rel := ⟨[1, 2], [[2, 5], [4, 6]]⟩

example : (foj c09T1 c09T2).cols = [0, 2, 1] ∧
    (foj c09T1 c09T2).rows = [[1, 5, 2], [1, 6, 2], [3, 5, 4], [3, 6, 4], [1, 6, 4], [3, 5, 2]] := by
  decide

example : WfRel c09T1 ∧ WfRel c09T2 := by
  unfold WfRel c09T1 c09T2
  decide

/-- the assignment x↦1, y↦2, z↦5 (a member of the natural join) -/
def c09σ : Nat → Nat := fun c => match c with | 0 => 1 | 1 => 2 | 2 => 5 | _ => 0

/-- it meets the hypotheses of `C09_foj_complete` … -/
example : c09T1.cols.map c09σ ∈ c09T1.rows ∧ c09T2.cols.map c09σ ∈ c09T2.rows := by decide

/-- … and its row `[x, z, y] = [1, 5, 2]` is in the join, as is the other natural-join tuple -/
example : (foj c09T1 c09T2).cols.map c09σ = [1, 5, 2] ∧ [1, 5, 2] ∈ (foj c09T1 c09T2).rows ∧
    [3, 6, 4] ∈ (foj c09T1 c09T2).rows := by decide

/-- STRICT SUPERSET: `[x,z,y] = [1,6,2]` is in the implementation's join although `Q(2,6)` is not
a fact (left copy of the pair `P(1,2)`, `Q(4,6)`), and `[1,6,4]` although `P(1,4)` is not (right
copy of the same pair). Its projections create the new operand groundings `Q(2,6)`, `P(1,4)`. -/
example : [1, 6, 2] ∈ (foj c09T1 c09T2).rows ∧ [2, 6] ∉ c09T2.rows ∧
    [1, 6, 4] ∈ (foj c09T1 c09T2).rows ∧ [1, 4] ∉ c09T1.rows := by decide

/-- no shared column: plain cross product -/
example : (foj ⟨[0], [[1], [2]]⟩ ⟨[1], [[7], [8]]⟩).cols = [0, 1] ∧
    (foj ⟨[0], [[1], [2]]⟩ ⟨[1], [[7], [8]]⟩).rows = [[1, 7], [1, 8], [2, 7], [2, 8]] := by decide

/-- three-way join `P(x,y) ∧ Q(y,z) ∧ R(z,x)` through `foldJoin`: the natural-join tuple
x↦1, y↦2, z↦5 is present -/
example : (foldJoin [c09T1, c09T2, ⟨[2, 0], [[5, 1]]⟩]).map (fun J => (J.cols, J.cols.map c09σ ∈ J.rows))
    = some ([1, 0, 2], True) := by
  simp only [foldJoin, List.foldl, Option.map_some, Option.some.injEq, Prod.mk.injEq, eq_iff_iff,
    iff_true]
  decide

/-- engine level: And(P(x,y), Q(y,z)) as node 2 over predicates 0, 1 -/
def c09KB : FKB Nat ℚ := fun i =>
  match i with
  | 2 => { kind := .and, ops := [0, 1], ws := [1, 1], bias := 1, alpha := 1,
           opmap := [[0, 1], [1, 2]], world := ⟨0, 1⟩ }
  | _ => { kind := .pred, bias := 1, alpha := 1, world := ⟨0, 1⟩ }

def c09S : FState Nat ℚ :=
  ⟨[(0, [⟨[1, 2], ⟨1, 1⟩, ⟨1, 1⟩⟩, ⟨[3, 4], ⟨1, 1⟩, ⟨1, 1⟩⟩]),
    (1, [⟨[2, 5], ⟨1, 1⟩, ⟨1, 1⟩⟩, ⟨[4, 6], ⟨1, 1⟩, ⟨1, 1⟩⟩])]⟩

theorem c09KB_hetero : isHomogeneous (c09KB 2) = false := by decide

theorem c09KB_covered : SlotsCovered (c09KB 2) := by
  refine ⟨rfl, ?_⟩
  have : numVars (c09KB 2) = 3 := by decide
  rw [this]
  intro c hc
  have : (c09KB 2).opmap.flatten = [0, 1, 1, 2] := rfl
  rw [this]
  have h3 : c = 0 ∨ c = 1 ∨ c = 2 := by omega
  rcases h3 with rfl | rfl | rfl <;> decide

theorem c09S_natJoin : InNatJoin c09KB 2 c09S c09σ := by
  unfold InNatJoin
  intro p j m hj hm
  have ho : (c09KB 2).ops = [0, 1] := rfl
  have hmm : (c09KB 2).opmap = [[0, 1], [1, 2]] := rfl
  rw [ho] at hj
  rw [hmm] at hm
  match p with
  | 0 =>
    simp only [List.getElem?_cons_zero, Option.some.injEq] at hj hm
    subst hj hm
    decide
  | 1 =>
    simp only [List.getElem?_cons_succ, List.getElem?_cons_zero, Option.some.injEq] at hj hm
    subst hj hm
    decide
  | (p + 2) => simp at hj

/-- the theorem applied: after `fUpConn` the conjunction has the row `(x,y,z) = (1,2,5)` -/
example : Table.has ((fUpConn c09KB 2 c09S).1.get 2) [1, 2, 5] = true :=
  C09_upward_present c09KB 2 c09S c09σ c09KB_hetero c09KB_covered c09S_natJoin

end LNN
