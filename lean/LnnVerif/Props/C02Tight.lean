/-
C02 (second half) — "… it is never tighter than what exhaustive bounds propagation over those
ground instances yields, with unasserted ground atoms starting at their predicate's world default."

`Props/C02.lean` proves soundness for every *model* of the ground theory. That bounds the hull of
all models, but bounds propagation is incomplete, so the ground fixpoint can be looser than that
hull and a first-order engine could, in principle, sit strictly between the two. This file closes
the gap: the invariant is stated for an arbitrary ground *bound assignment* `G` that no ground step
tightens (`GClosed`: a post-fixpoint of every un-arrested upward/downward step of every ground
instance), and "G is at least as tight as the first-order state" (`SLe`: every stored row is looser
than G, every absent row's world default is looser than G) is preserved by every quantifier-free
first-order call, pass and infer. Taking for `G` the fixpoint the *propositional* engine
(`Model/PropEngine.lean`, the engine of C01/C03–C07) reaches on the ground instantiation
`groundKB kb` gives the property's clause verbatim.

All proofs are in `Lemmas/FolTight.lean`; this file holds the property-level statements only.
-/
import LnnVerif.Lemmas.FolTight
import LnnVerif.Lemmas.PendLemmas

set_option linter.unusedSectionVars false

namespace LNN

open FolTight Mono

variable {ι : Type} [DecidableEq ι] {α : Type} [Field α] [LinearOrder α] [IsStrictOrderedRing α]

/-- one quantifier-free call (any node kind, index restriction, either grounding-management
branch, duplicate merging, contradiction filtering) keeps the state looser than every closed
ground assignment -/
theorem C02_never_tighter_call (kb : FKB ι α) (ar : ι → Nat) (hwf : FWF kb ar)
    (G : ι → Gr → Bounds α) (hc : GClosed kb ar G) (c : FCall ι) (hq : QF kb c) (s : FState ι α)
    (ha : Arity ar s) (hs : SLe kb s G) : SLe kb (runFCall kb c s).1 G :=
  C02_not_tighter_call kb ar hwf G hc c hq s ha hs

/-- … any sequence of calls -/
theorem C02_never_tighter (kb : FKB ι α) (ar : ι → Nat) (hwf : FWF kb ar)
    (G : ι → Gr → Bounds α) (hc : GClosed kb ar G) (calls : List (FCall ι))
    (hq : ∀ c ∈ calls, QF kb c) (s : FState ι α) (ha : Arity ar s) (hs : SLe kb s G) :
    SLe kb (runFCalls kb calls s).1 G :=
  C02_not_tighter kb ar hwf G hc calls hq s ha hs

/-- … and `infer` with any schedule, threshold and step limit: what any query returns afterwards
(stored row or world default) is never tighter than `G` -/
theorem C02_never_tighter_infer (kb : FKB ι α) (ar : ι → Nat) (hwf : FWF kb ar)
    (G : ι → Gr → Bounds α) (hc : GClosed kb ar G) (nodes : List ι) (up down : List (FCall ι))
    (hup : ∀ c ∈ up, QF kb c) (hdown : ∀ c ∈ down, QF kb c) (eps : α) (fuel : Nat)
    (s : FState ι α) (ha : Arity ar s) (hs : SLe kb s G) (i : ι) (g : Gr) :
    BLe (Table.getD (kb i).world ((fInfer kb nodes up down eps fuel s).state.get i) g) (G i g) :=
  C02_not_tighter_query kb ar hwf G hc nodes up down hup hdown eps fuel s ha hs i g

/-- the EXECUTED loop (`pInfer`, what the driver replays against the implementation) on a
quantifier-free knowledge base is the plain loop (`C06_pInfer_is_fInfer`), so the theorem applies to
it verbatim -/
theorem C02_never_tighter_executed (kb : FKB ι α) (ar : ι → Nat) (hwf : FWF kb ar)
    (G : ι → Gr → Bounds α) (hc : GClosed kb ar G) (hnp : NoQuantParent kb) (nodes : List ι)
    (up down : List (FCall ι)) (hup : ∀ c ∈ up, QF kb c) (hdown : ∀ c ∈ down, QF kb c) (eps : α)
    (fuel : Nat) (s : FState ι α) (ha : Arity ar s) (hs : SLe kb s G) (i : ι) (g : Gr) :
    BLe (Table.getD (kb i).world ((pInfer kb nodes up down eps fuel ⟨s, []⟩).state.st.get i) g)
      (G i g) := by
  rw [(pInfer_of_noParent hnp nodes up down eps fuel s).1]
  exact C02_never_tighter_infer kb ar hwf G hc nodes up down hup hdown eps fuel s ha hs i g

/-- `GClosed` is exactly "no un-arrested step of the propositional engine on the ground
instantiation tightens it" -/
theorem C02_closed_iff_ground (kb : FKB ι α) (ar : ι → Nat) (hwf : FWF kb ar)
    (G : ι → Gr → Bounds α) :
    GClosed kb ar G ↔ UnitState (toState G) ∧
      ∀ st : Step (ι × Gr), (Mono.node st).2.length = ar (Mono.node st).1 →
        Le (ustep (groundKB kb) st (toState G)) (toState G) :=
  gClosed_iff_ground kb ar hwf G

/-- **Never tighter than exhaustive ground propagation.** Let `Gs` be a state of the propositional
engine on the ground instantiation of the knowledge base in which nothing is arrested and which
every upward and downward step of every ground instance leaves unchanged (what exhaustive
propagation over the ground instances of a consistent ground theory ends in). If the first-order
state starts looser than `Gs` (asserted facts are the ground atoms' data, everything else reads its
world default), then after any quantifier-free first-order calls every grounding of every formula
reads bounds that are looser than or equal to `Gs`'s. -/
theorem C02_never_tighter_than_ground_fixpoint (kb : FKB ι α) (ar : ι → Nat) (hwf : FWF kb ar)
    (Gs : State (ι × Gr) α) (hu : UnitState Gs)
    (hfree : ∀ p, arrested (groundKB kb) Gs p = false)
    (hfix : ∀ st : Step (ι × Gr), (runStep (groundKB kb) st Gs).1 = Gs)
    (calls : List (FCall ι)) (hq : ∀ c ∈ calls, QF kb c) (s : FState ι α) (ha : Arity ar s)
    (hs : SLe kb s (ofState Gs)) (i : ι) (g : Gr) :
    BLe (Table.getD (kb i).world ((runFCalls kb calls s).1.get i) g) (Gs (i, g)) := by
  refine C02_not_tighter_ground kb ar hwf Gs hu (fun st => ?_) calls hq s ha hs i g
  rw [← runStep_of_free (groundKB kb) st Gs (hfree _)]
  exact hfix st

/-- the interval theorem subsumes point soundness: a model of the ground theory is a (degenerate)
closed assignment -/
theorem C02_point_is_closed (kb : FKB ι α) (ar : ι → Nat) (hwf : FWF kb ar) (v : ι → Gr → α)
    (hv : FConsistent kb ar v) : GClosed kb ar (pointG v) :=
  point_closed kb ar hwf v hv

/-! non-vacuity: the concrete knowledge base of `FolTightEx` (P, Q, And(P,Q), Not(P)) with the
NON-degenerate closed assignment P=[3/4,1], Q=[1/2,1], And=[1/2,1], Not=[0,1/4] and a concrete
state satisfies every hypothesis of `C02_never_tighter` at once -/
example (calls : List (FCall Nat)) (hq : ∀ c ∈ calls, QF FolTightEx.kb c) :
    SLe FolTightEx.kb (runFCalls FolTightEx.kb calls FolTightEx.s).1 FolTightEx.G :=
  C02_never_tighter FolTightEx.kb FolTightEx.ar FolTightEx.wf FolTightEx.G FolTightEx.closed calls hq
    FolTightEx.s FolTightEx.s_arity FolTightEx.s_le

end LNN
