/-
C11 — Quantifiers aggregate their instances exactly and respect the open world.

Upward inference gives a universal formula an upper bound equal to the Łukasiewicz conjunction of
the upper bounds of its known instances and, unless declared fully grounded, never raises its lower
bound; an existential formula dually gets the disjunction of the instance lower bounds and never has
its upper bound lowered. Finitely many positive instances never prove a Forall, finitely many
negative ones never refute an Exists, one FALSE instance refutes a Forall, one TRUE instance proves
an Exists; with free variables all of this holds per grounding of the free variables.

Layers:
* §1 the activation `qUp` in closed form (`Lconj`, `Ldisj`),
* §2 what `aggregate (qSel n)` lets through (open world),
* §3 consequences (never prove / never refute / one counterexample / one witness),
* §4 the engine: the table written by `fUpQuant`, per group key — for ANY set of free variables
  (the fully quantified case is the corollary `C11_engine_fully_quantified`).
-/
import LnnVerif.Lemmas.Quant
import Mathlib.Algebra.Order.Field.Rat

set_option linter.unusedSectionVars false

namespace LNN

open Quant

variable {ι : Type} [DecidableEq ι] {α : Type} [Field α] [LinearOrder α] [IsStrictOrderedRing α]

/-! ## §1 the activation -/

/-- Forall: both bounds are the Łukasiewicz conjunction `clamp(1 - Σ (1 - ·))` of the instance
bounds -/
theorem C11_qUp_forall (bs : List (Bounds α)) :
    qUp true bs = ⟨Lconj (bs.map (·.lo)), Lconj (bs.map (·.hi))⟩ := qUp_forall bs

/-- Exists: both bounds are the Łukasiewicz disjunction `clamp(Σ ·)` of the instance bounds -/
theorem C11_qUp_exists (bs : List (Bounds α)) :
    qUp false bs = ⟨Ldisj (bs.map (·.lo)), Ldisj (bs.map (·.hi))⟩ := qUp_exists bs

/-! ## §2 which bound may move -/

theorem C11_qSel_forall (n : FNode ι α) (hk : n.kind = .all) (hf : n.fullyGrounded = false) :
    qSel n = .upper := by
  unfold qSel; simp [hk, hf]

theorem C11_qSel_exists (n : FNode ι α) (hk : n.kind = .ex) (hf : n.fullyGrounded = false) :
    qSel n = .lower := by
  unfold qSel; simp [hk, hf]

theorem C11_qSel_fully_grounded (n : FNode ι α) (hf : n.fullyGrounded = true) : qSel n = .both := by
  unfold qSel; simp [hf]

/-- Forall, not fully grounded: the lower bound is the previous one, the upper bound is intersected
with the conjunction of the instance upper bounds -/
theorem C11_forall_upper (prev : Bounds α) (bs : List (Bounds α)) :
    (aggregate .upper prev (qUp true bs)).1
      = ⟨clamp01 prev.lo, clamp01 (min prev.hi (Lconj (bs.map (·.hi))))⟩ := by
  rw [qUp_forall]; simp [aggregate]

/-- … and on bounds in `[0,1]` no clamp is visible -/
theorem C11_forall_upper_unit (prev : Bounds α) (bs : List (Bounds α)) (h : InUnit prev) :
    (aggregate .upper prev (qUp true bs)).1 = ⟨prev.lo, min prev.hi (Lconj (bs.map (·.hi)))⟩ := by
  obtain ⟨h1, h2, h3, h4⟩ := h
  rw [C11_forall_upper, clamp01_of_mem h1 h2,
    clamp01_of_mem (le_min h3 (Lconj_nonneg _)) (le_trans (min_le_left _ _) h4)]

/-- Exists, not fully grounded: the upper bound is the previous one, the lower bound is joined with
the disjunction of the instance lower bounds -/
theorem C11_exists_lower (prev : Bounds α) (bs : List (Bounds α)) :
    (aggregate .lower prev (qUp false bs)).1
      = ⟨clamp01 (max prev.lo (Ldisj (bs.map (·.lo)))), clamp01 prev.hi⟩ := by
  rw [qUp_exists]; simp [aggregate]

theorem C11_exists_lower_unit (prev : Bounds α) (bs : List (Bounds α)) (h : InUnit prev) :
    (aggregate .lower prev (qUp false bs)).1 = ⟨max prev.lo (Ldisj (bs.map (·.lo))), prev.hi⟩ := by
  obtain ⟨h1, h2, h3, h4⟩ := h
  rw [C11_exists_lower, clamp01_of_mem h3 h4,
    clamp01_of_mem (le_trans h1 (le_max_left _ _)) (max_le h2 (Ldisj_le_one _))]

/-- fully grounded Forall: both bounds are aggregated -/
theorem C11_fully_grounded_forall (prev : Bounds α) (bs : List (Bounds α)) :
    (aggregate .both prev (qUp true bs)).1
      = ⟨clamp01 (max prev.lo (Lconj (bs.map (·.lo)))),
         clamp01 (min prev.hi (Lconj (bs.map (·.hi))))⟩ := by
  rw [qUp_forall]; simp [aggregate]

/-- fully grounded Exists: both bounds are aggregated -/
theorem C11_fully_grounded_exists (prev : Bounds α) (bs : List (Bounds α)) :
    (aggregate .both prev (qUp false bs)).1
      = ⟨clamp01 (max prev.lo (Ldisj (bs.map (·.lo)))),
         clamp01 (min prev.hi (Ldisj (bs.map (·.hi))))⟩ := by
  rw [qUp_exists]; simp [aggregate]

/-- the same, phrased with the node's selector -/
theorem C11_fully_grounded (n : FNode ι α) (hf : n.fullyGrounded = true) (isAll : Bool)
    (prev : Bounds α) (bs : List (Bounds α)) :
    (aggregate (qSel n) prev (qUp isAll bs)).1
      = ⟨clamp01 (max prev.lo (qUp isAll bs).lo), clamp01 (min prev.hi (qUp isAll bs).hi)⟩ := by
  rw [C11_qSel_fully_grounded n hf]; simp [aggregate]

/-! ## §3 open world -/

/-- whatever the instances are — even all TRUE — a Forall that is not fully grounded never gets
its lower bound raised -/
theorem C11_positives_never_prove (prev : Bounds α) (bs : List (Bounds α)) (h : InUnit prev) :
    ((aggregate .upper prev (qUp true bs)).1).lo = prev.lo := by
  rw [C11_forall_upper_unit prev bs h]

/-- whatever the instances are — even all FALSE — an Exists that is not fully grounded never gets
its upper bound lowered -/
theorem C11_negatives_never_refute (prev : Bounds α) (bs : List (Bounds α)) (h : InUnit prev) :
    ((aggregate .lower prev (qUp false bs)).1).hi = prev.hi := by
  rw [C11_exists_lower_unit prev bs h]

/-- an UNKNOWN Forall all of whose known instances are TRUE stays UNKNOWN -/
theorem C11_all_true_stays_unknown (bs : List (Bounds α)) (h : ∀ b ∈ bs, b = ⟨1, 1⟩) :
    (aggregate .upper ⟨0, 1⟩ (qUp true bs)).1 = ⟨0, 1⟩ := by
  have hu : InUnit (⟨0, 1⟩ : Bounds α) := ⟨le_rfl, zero_le_one, zero_le_one, le_rfl⟩
  rw [C11_forall_upper_unit _ bs hu, Lconj_all_one]
  · simp
  · intro u hu
    obtain ⟨b, hb, rfl⟩ := List.mem_map.mp hu
    rw [h b hb]

/-- an UNKNOWN Exists all of whose known instances are FALSE stays UNKNOWN -/
theorem C11_all_false_stays_unknown (bs : List (Bounds α)) (h : ∀ b ∈ bs, b = ⟨0, 0⟩) :
    (aggregate .lower ⟨0, 1⟩ (qUp false bs)).1 = ⟨0, 1⟩ := by
  have hu : InUnit (⟨0, 1⟩ : Bounds α) := ⟨le_rfl, zero_le_one, zero_le_one, le_rfl⟩
  rw [C11_exists_lower_unit _ bs hu, Ldisj_all_zero]
  · simp
  · intro u hu
    obtain ⟨b, hb, rfl⟩ := List.mem_map.mp hu
    rw [h b hb]

/-- one FALSE instance makes the conjunction of the upper bounds `0` (only `hi ≤ 1` is needed of
the other instances) -/
theorem C11_one_false_refutes (bs : List (Bounds α)) (h : ∀ b ∈ bs, b.hi ≤ 1)
    (h0 : ∃ b ∈ bs, b.hi = 0) : Lconj (bs.map (·.hi)) = 0 := by
  apply Lconj_eq_zero
  · intro u hu
    obtain ⟨b, hb, rfl⟩ := List.mem_map.mp hu
    exact h b hb
  · obtain ⟨b, hb, hb0⟩ := h0
    exact ⟨b.hi, List.mem_map.mpr ⟨b, hb, rfl⟩, hb0⟩

/-- … hence the Forall's upper bound becomes `0` -/
theorem C11_one_false_refutes_agg (prev : Bounds α) (bs : List (Bounds α)) (hp : InUnit prev)
    (h : ∀ b ∈ bs, b.hi ≤ 1) (h0 : ∃ b ∈ bs, b.hi = 0) :
    (aggregate .upper prev (qUp true bs)).1 = ⟨prev.lo, 0⟩ := by
  rw [C11_forall_upper_unit prev bs hp, C11_one_false_refutes bs h h0, min_eq_right hp.2.2.1]

/-- one TRUE instance makes the disjunction of the lower bounds `1` (only `0 ≤ lo` is needed of
the other instances) -/
theorem C11_one_true_proves (bs : List (Bounds α)) (h : ∀ b ∈ bs, 0 ≤ b.lo)
    (h1 : ∃ b ∈ bs, b.lo = 1) : Ldisj (bs.map (·.lo)) = 1 := by
  apply Ldisj_eq_one
  · intro u hu
    obtain ⟨b, hb, rfl⟩ := List.mem_map.mp hu
    exact h b hb
  · obtain ⟨b, hb, hb1⟩ := h1
    exact ⟨b.lo, List.mem_map.mpr ⟨b, hb, rfl⟩, hb1⟩

/-- … hence the Exists' lower bound becomes `1` -/
theorem C11_one_true_proves_agg (prev : Bounds α) (bs : List (Bounds α)) (hp : InUnit prev)
    (h : ∀ b ∈ bs, 0 ≤ b.lo) (h1 : ∃ b ∈ bs, b.lo = 1) :
    (aggregate .lower prev (qUp false bs)).1 = ⟨1, prev.hi⟩ := by
  rw [C11_exists_lower_unit prev bs hp, C11_one_true_proves bs h h1, max_eq_right hp.2.1]

/-! ## §4 the engine, per grounding of the free variables -/

/-- **Per group.** Let `i` be a quantifier over the body `j`. For every group key `k` occurring in
the body table, after `fUpQuant` the row of `k` exists in the quantifier's table and carries
`aggregate (qSel n) prev (qUp isAll inst)`, where `inst` are the working bounds of exactly the
body rows of group `k` and `prev` the previous bounds of row `k` (world default if the row did
not exist). No restriction on the free variables. -/
theorem C11_engine_group (kb : FKB ι α) (i j : ι) (rest : List ι) (s : FState ι α)
    (hops : (kb i).ops = j :: rest) (k : Gr)
    (hk : k ∈ (s.get j).map (fun r => groupKey (kb i).free r.g)) :
    ((fUpQuant kb i s).1.get i).has k = true ∧
    Table.getD (kb i).world ((fUpQuant kb i s).1.get i) k
      = (aggregate (qSel (kb i)) (Table.getD (kb i).world (s.get i) k)
          (qUp (decide ((kb i).kind = .all))
            (((s.get j).filter fun r => groupKey (kb i).free r.g == k).map (·.b)))).1 := by
  have hne : (s.get j).isEmpty = false := by
    cases h : s.get j with
    | nil => rw [h] at hk; simp at hk
    | cons _ _ => rfl
  have hk' : k ∈ gkeys (kb i).free (s.get j) := hk
  have key := fUpQuant_find? kb i j rest s hops hne k
  rw [if_pos hk'] at key
  unfold Table.has Table.getD
  rw [key]
  refine ⟨rfl, ?_⟩
  cases (s.get i).find? k with
  | some r => rfl
  | none => rfl

/-- rows of the quantifier's table that are not a group key of the body table are untouched
(same row, same leaf, same bounds; absent rows stay absent) -/
theorem C11_engine_other_groups (kb : FKB ι α) (i j : ι) (rest : List ι) (s : FState ι α)
    (hops : (kb i).ops = j :: rest) (g : Gr)
    (hg : g ∉ (s.get j).map (fun r => groupKey (kb i).free r.g)) :
    ((fUpQuant kb i s).1.get i).find? g = (s.get i).find? g := by
  by_cases hne : (s.get j).isEmpty = true
  · unfold fUpQuant
    simp only [hops, hne, if_true]
  · have hne' : (s.get j).isEmpty = false := by simpa using hne
    have hg' : g ∉ gkeys (kb i).free (s.get j) := hg
    rw [fUpQuant_find? kb i j rest s hops hne' g, if_neg hg']

/-- the body table and every other table are unchanged -/
theorem C11_engine_frame (kb : FKB ι α) (i : ι) (s : FState ι α) (j' : ι) (h : j' ≠ i) :
    (fUpQuant kb i s).1.get j' = s.get j' := fUpQuant_frame kb i s j' h

/-- fully quantified: one group (key `[]`), the instances are all rows of the body table -/
theorem C11_engine_fully_quantified (kb : FKB ι α) (i j : ι) (rest : List ι) (s : FState ι α)
    (hops : (kb i).ops = j :: rest) (hfree : (kb i).free = []) (hne : s.get j ≠ []) :
    Table.getD (kb i).world ((fUpQuant kb i s).1.get i) []
      = (aggregate (qSel (kb i)) (Table.getD (kb i).world (s.get i) [])
          (qUp (decide ((kb i).kind = .all)) ((s.get j).map (·.b)))).1 := by
  have hk : ([] : Gr) ∈ (s.get j).map (fun r => groupKey (kb i).free r.g) := by
    obtain ⟨r, hr⟩ := List.exists_mem_of_ne_nil _ hne
    exact List.mem_map.mpr ⟨r, hr, by rw [hfree]; rfl⟩
  have key := (C11_engine_group kb i j rest s hops [] hk).2
  have hall : ((s.get j).filter fun r => groupKey (kb i).free r.g == []) = s.get j := by
    rw [hfree]; exact grp_nil (s.get j)
  rw [hall] at key
  exact key

/-- Forall, not fully grounded, per grounding `k` of the free variables: the lower bound stays,
the upper bound is met with the conjunction of the upper bounds of the group's instances -/
theorem C11_engine_forall (kb : FKB ι α) (i j : ι) (rest : List ι) (s : FState ι α)
    (hops : (kb i).ops = j :: rest) (hkind : (kb i).kind = .all)
    (hfg : (kb i).fullyGrounded = false) (k : Gr)
    (hk : k ∈ (s.get j).map (fun r => groupKey (kb i).free r.g))
    (hprev : InUnit (Table.getD (kb i).world (s.get i) k)) :
    Table.getD (kb i).world ((fUpQuant kb i s).1.get i) k
      = ⟨(Table.getD (kb i).world (s.get i) k).lo,
         min (Table.getD (kb i).world (s.get i) k).hi
           (Lconj (((s.get j).filter fun r => groupKey (kb i).free r.g == k).map (·.b.hi)))⟩ := by
  rw [(C11_engine_group kb i j rest s hops k hk).2, C11_qSel_forall _ hkind hfg]
  simp only [hkind, decide_true]
  rw [C11_forall_upper_unit _ _ hprev, List.map_map]
  rfl

/-- Exists, not fully grounded, per grounding `k` of the free variables: the upper bound stays,
the lower bound is joined with the disjunction of the lower bounds of the group's instances -/
theorem C11_engine_exists (kb : FKB ι α) (i j : ι) (rest : List ι) (s : FState ι α)
    (hops : (kb i).ops = j :: rest) (hkind : (kb i).kind = .ex)
    (hfg : (kb i).fullyGrounded = false) (k : Gr)
    (hk : k ∈ (s.get j).map (fun r => groupKey (kb i).free r.g))
    (hprev : InUnit (Table.getD (kb i).world (s.get i) k)) :
    Table.getD (kb i).world ((fUpQuant kb i s).1.get i) k
      = ⟨max (Table.getD (kb i).world (s.get i) k).lo
           (Ldisj (((s.get j).filter fun r => groupKey (kb i).free r.g == k).map (·.b.lo))),
         (Table.getD (kb i).world (s.get i) k).hi⟩ := by
  rw [(C11_engine_group kb i j rest s hops k hk).2, C11_qSel_exists _ hkind hfg]
  have : decide ((kb i).kind = FKind.all) = false := by rw [hkind]; rfl
  rw [this, C11_exists_lower_unit _ _ hprev, List.map_map]
  rfl

/-! ## non-vacuity and concrete numbers over ℚ -/

/-- three TRUE instances: the activation itself says TRUE … -/
example : qUp true [(⟨1, 1⟩ : Bounds ℚ), ⟨1, 1⟩, ⟨1, 1⟩] = ⟨1, 1⟩ := by
  rw [C11_qUp_forall]; simp [Lconj, clamp01]

/-- … but the Forall (not fully grounded) stays UNKNOWN -/
example : (aggregate .upper ⟨0, 1⟩ (qUp true [(⟨1, 1⟩ : Bounds ℚ), ⟨1, 1⟩, ⟨1, 1⟩])).1 = ⟨0, 1⟩ :=
  C11_all_true_stays_unknown _ (by simp)

/-- graded instances: `1 - (1/2 + 1/2) = 0`, `1 - (1/4 + 1/2) = 1/4` -/
example : qUp true [(⟨1/2, 3/4⟩ : Bounds ℚ), ⟨1/2, 1/2⟩] = ⟨0, 1/4⟩ := by
  rw [C11_qUp_forall]; simp [Lconj, clamp01]; norm_num

example : qUp false [(⟨1/4, 1/2⟩ : Bounds ℚ), ⟨1/4, 1/4⟩] = ⟨1/2, 3/4⟩ := by
  rw [C11_qUp_exists]; simp [Ldisj, clamp01]; norm_num

/-- `0 = P(x)`, `1 = ∀x P(x)`, `2 = ∃x P(x)`, `3 = Q(x,y)`, `4 = ∀y Q(x,y)` (free variable `x`,
slot 0 of the body's variable tuple) -/
def exKB11 : FKB Nat ℚ := fun i =>
  match i with
  | 1 => { kind := .all, ops := [0], bias := 1, alpha := 1, world := ⟨0, 1⟩, free := [] }
  | 2 => { kind := .ex, ops := [0], bias := 1, alpha := 1, world := ⟨0, 1⟩, free := [] }
  | 4 => { kind := .all, ops := [3], bias := 1, alpha := 1, world := ⟨0, 1⟩, free := [0] }
  | _ => { kind := .pred, bias := 1, alpha := 1, world := ⟨0, 1⟩ }

/-- `P(0), P(1)` TRUE, `P(2)` UNKNOWN; `Q(0,0)` TRUE, `Q(0,1)` FALSE, `Q(1,0)` TRUE; the
quantifiers have no row yet (they are created at the world default) -/
def exS11 : FState Nat ℚ :=
  ⟨[(0, [⟨[0], ⟨1, 1⟩, ⟨1, 1⟩⟩, ⟨[1], ⟨1, 1⟩, ⟨1, 1⟩⟩, ⟨[2], ⟨0, 1⟩, ⟨0, 1⟩⟩]),
    (3, [⟨[0, 0], ⟨1, 1⟩, ⟨1, 1⟩⟩, ⟨[0, 1], ⟨0, 0⟩, ⟨0, 0⟩⟩, ⟨[1, 0], ⟨1, 1⟩, ⟨1, 1⟩⟩])]⟩

/-- per grounding of the free variable: `x = 0` has the FALSE instance `Q(0,1)` — refuted -/
example : Table.getD (exKB11 4).world ((fUpQuant exKB11 4 exS11).1.get 4) [0] = ⟨0, 0⟩ := by
  rw [C11_engine_forall exKB11 4 3 [] exS11 rfl rfl rfl [0] (by decide)
    (by simp [exKB11, exS11, FState.get, Table.getD, Table.find?, InUnit])]
  simp [exKB11, exS11, FState.get, Table.getD, Table.find?, groupKey, Lconj, clamp01]

/-- `x = 1` has only the TRUE instance `Q(1,0)` — not proved, stays UNKNOWN -/
example : Table.getD (exKB11 4).world ((fUpQuant exKB11 4 exS11).1.get 4) [1] = ⟨0, 1⟩ := by
  rw [C11_engine_forall exKB11 4 3 [] exS11 rfl rfl rfl [1] (by decide)
    (by simp [exKB11, exS11, FState.get, Table.getD, Table.find?, InUnit])]
  simp [exKB11, exS11, FState.get, Table.getD, Table.find?, groupKey, Lconj, clamp01]

/-- `∀x P(x)` with instances TRUE, TRUE, UNKNOWN stays UNKNOWN -/
example : Table.getD (exKB11 1).world ((fUpQuant exKB11 1 exS11).1.get 1) [] = ⟨0, 1⟩ := by
  rw [C11_engine_forall exKB11 1 0 [] exS11 rfl rfl rfl [] (by decide)
    (by simp [exKB11, exS11, FState.get, Table.getD, Table.find?, InUnit])]
  simp [exKB11, exS11, FState.get, Table.getD, Table.find?, groupKey, Lconj, clamp01]

/-- `∃x P(x)` is proved by one TRUE instance -/
example : Table.getD (exKB11 2).world ((fUpQuant exKB11 2 exS11).1.get 2) [] = ⟨1, 1⟩ := by
  rw [C11_engine_exists exKB11 2 0 [] exS11 rfl rfl rfl [] (by decide)
    (by simp [exKB11, exS11, FState.get, Table.getD, Table.find?, InUnit])]
  simp [exKB11, exS11, FState.get, Table.getD, Table.find?, groupKey, Ldisj, clamp01]
end LNN
