/-
C08 — Every sub-formula object is a full member of the model (registry part).

Every sub-formula object of every root passed to `add_knowledge` is registered in the model exactly
once under its own formula number, and everything a model-wide operation iterates over (the graph
nodes, `Model.nodes.values()`) contains that very object, exactly once.  Objects are identified by
identity (`ObjId`); the model never looks at structure, so the statements hold verbatim when
structurally equal sub-formulae occur as separate objects, in one or several roots: such objects are
simply different ids and the theorems give them different numbers and separate `nodes` entries.

Model: `LnnVerif.Model.Registry` (transcription of `Model._add_knowledge` and
`Formula.set_formula_number` of the repaired repository).  Proofs: `LnnVerif.Lemmas.RegistryLemmas`.

Two layers of statements.
* `C08_*` : the roots are added one call each (`addKnowledge`, `for f in roots:
  model.add_knowledge(f)`), as requested; here the numbers are moreover dense (`C08_numbers_dense`).
* `C08_calls` : an arbitrary history of calls `add_knowledge(*call)` with several roots per call
  (`addKnowledgeCalls`).  Everything except density holds (`FullMembers`).  Density is FALSE there,
  and the model reproduces the Python behaviour exactly: `Model.nodes` is refreshed only at the end
  of a call, so a root that was numbered earlier IN THE SAME CALL (as a sub-formula of a previous
  root, or the same root passed twice) fails the guard `self.nodes.get(f.formula_number) is f` and
  is given a second, fresh number; its old number stays unused (see the last example:
  `add_knowledge(Or(f, A), f)` yields `nodes = {0: Or, 4: f, 2: A, 3: B}`, `num_formulae = 5`, as
  observed on the repository).  The object is still registered exactly once, under its current
  number, so C08 itself is not affected.

What is not covered here: the effect of the model-wide operations on bounds (other properties) and
"attaching data never makes a later operation fail" (checked on the Python side).
-/
import LnnVerif.Lemmas.RegistryLemmas
import Mathlib.Data.List.Perm.Basic

namespace LNN

/-- `o` is one of the roots or a sub-formula object of one of them -/
def Reachable (ops : ObjId → List ObjId) (roots : List ObjId) (o : ObjId) : Prop :=
  ∃ root ∈ roots, Desc ops root o

/-- **C08, bundled**: what it means for the registry `R` that the objects reachable from `roots`
are full members of the model. -/
structure FullMembers (ops : ObjId → List ObjId) (roots : List ObjId) (R : Reg) : Prop where
  /-- every reachable object has a formula number -/
  every_object_numbered : ∀ o, Reachable ops roots o → ∃ n, numOf R o = some n
  /-- only reachable objects have one -/
  numbered_reachable : ∀ o n, numOf R o = some n → Reachable ops roots o
  /-- no two objects share a number -/
  numbers_injective : ∀ o₁ o₂ n, numOf R o₁ = some n → numOf R o₂ = some n → o₁ = o₂
  /-- every number is below `num_formulae` -/
  number_lt_next : ∀ o n, numOf R o = some n → n < R.next
  /-- every reachable object occurs in `nodes` under exactly one key -/
  registered_once : ∀ o, Reachable ops roots o → ∃! n, (n, o) ∈ R.nodes
  /-- that key is its own formula number -/
  nodes_own_number : ∀ n o, (n, o) ∈ R.nodes → numOf R o = some n
  /-- a key holds one object -/
  nodes_functional : ∀ n o₁ o₂, (n, o₁) ∈ R.nodes → (n, o₂) ∈ R.nodes → o₁ = o₂
  /-- looking up the number of an object returns this very object -/
  nodes_lookup : ∀ o n, numOf R o = some n → assoc R.nodes n = some o
  /-- `nodes` holds exactly the reachable objects -/
  nodes_exactly_reachable : ∀ o, (∃ n, (n, o) ∈ R.nodes) ↔ Reachable ops roots o
  /-- the graph holds exactly the reachable objects -/
  graph_exactly_reachable : ∀ o, o ∈ R.graph ↔ Reachable ops roots o
  /-- … each once: a traversal of the graph visits every reachable object exactly once -/
  graph_nodup : R.graph.Nodup
  /-- `nodes.values()` holds exactly the reachable objects -/
  values_exactly_reachable : ∀ o, o ∈ R.values ↔ Reachable ops roots o
  /-- … each once -/
  values_nodup : R.values.Nodup
  /-- `nodes.values()` and the graph nodes are the same objects up to order -/
  values_perm_graph : R.values.Perm R.graph

/-- the invariant of the registry yields all of C08 -/
theorem fullMembers_of_inv {ops : ObjId → List ObjId} {roots : List ObjId} {R : Reg}
    (hI : Inv ops R) (hG : ∀ o, o ∈ R.graph ↔ Reachable ops roots o) :
    FullMembers ops roots R := by
  have hmem : ∀ n o, (n, o) ∈ R.nodes ↔ assoc R.nodes n = some o :=
    fun n o => Reg.mem_iff_assoc hI.nodeKeys
  have hval : ∀ o, o ∈ R.values ↔ Reachable ops roots o := by
    intro o
    rw [← hG, hI.graph_iff]
    unfold Reg.values
    constructor
    · intro h
      obtain ⟨⟨n, o'⟩, hp, rfl⟩ := List.mem_map.mp h
      exact ⟨n, hI.nodes_sound n o' ((hmem n o').mp hp)⟩
    · rintro ⟨n, hn⟩
      exact List.mem_map.mpr ⟨(n, o), (hmem n o).mpr (hI.nodes_complete o n hn), rfl⟩
  have hvnd : R.values.Nodup := by
    unfold Reg.values
    refine List.Nodup.map_on ?_ (List.Nodup.of_map Prod.fst hI.nodeKeys)
    rintro ⟨n₁, o₁⟩ h₁ ⟨n₂, o₂⟩ h₂ (e : o₁ = o₂)
    subst e
    have e₁ := hI.nodes_sound _ _ ((hmem _ _).mp h₁)
    have e₂ := hI.nodes_sound _ _ ((hmem _ _).mp h₂)
    rw [e₁] at e₂
    cases e₂; rfl
  exact
    { every_object_numbered := fun o h => (hI.graph_iff o).mp ((hG o).mpr h)
      numbered_reachable := fun o n h => (hG o).mp ((hI.graph_iff o).mpr ⟨n, h⟩)
      numbers_injective := hI.good.1
      number_lt_next := hI.good.2
      registered_once := by
        intro o h
        obtain ⟨n, hn⟩ := (hI.graph_iff o).mp ((hG o).mpr h)
        refine ⟨n, (hmem n o).mpr (hI.nodes_complete o n hn), ?_⟩
        intro n' h'
        have := hI.nodes_sound n' o ((hmem n' o).mp h')
        rw [hn] at this
        cases this; rfl
      nodes_own_number := fun n o h => hI.nodes_sound n o ((hmem n o).mp h)
      nodes_functional := by
        intro n o₁ o₂ h₁ h₂
        have := (hmem n o₁).mp h₁
        rw [(hmem n o₂).mp h₂] at this
        cases this; rfl
      nodes_lookup := hI.nodes_complete
      nodes_exactly_reachable := by
        intro o
        rw [← hG, hI.graph_iff]
        constructor
        · rintro ⟨n, h⟩
          exact ⟨n, hI.nodes_sound n o ((hmem n o).mp h)⟩
        · rintro ⟨n, h⟩
          exact ⟨n, (hmem n o).mpr (hI.nodes_complete o n h)⟩
      graph_exactly_reachable := hG
      graph_nodup := hI.graphNodup
      values_exactly_reachable := hval
      values_nodup := hvnd
      values_perm_graph :=
        (List.perm_ext_iff_of_nodup hvnd hI.graphNodup).mpr (fun o => by rw [hval, hG]) }

section

variable {ops : ObjId → List ObjId} {rank : ObjId → Nat} {fuel : Nat}

/-- with enough fuel `reach` — what `add_node(f)` and `add_edges_from(f.edge_list)` put into the
graph — lists exactly the root and its sub-formula objects -/
theorem C08_reach_iff (hrank : ∀ o, ∀ c ∈ ops o, rank c < rank o) {root : ObjId}
    (hfuel : rank root < fuel) (o : ObjId) : o ∈ reach ops fuel root ↔ Desc ops root o :=
  Reg.mem_reach_iff hrank hfuel o

/-- **C08 for an arbitrary history of `add_knowledge(*call)` calls** on a fresh model. -/
theorem C08_calls (hrank : ∀ o, ∀ c ∈ ops o, rank c < rank o) (calls : List (List ObjId))
    (hfuel : ∀ call ∈ calls, ∀ root ∈ call, rank root < fuel) :
    FullMembers ops calls.flatten (addKnowledgeCalls ops fuel Reg.empty calls) := by
  obtain ⟨hI, hG⟩ := Reg.addKnowledgeCalls_inv hrank calls Reg.empty hfuel (Reg.empty_inv ops)
  refine fullMembers_of_inv hI (fun o => ?_)
  rw [hG]
  simp only [Reg.empty, List.not_mem_nil, false_or, Reachable, List.mem_flatten]
  constructor
  · rintro ⟨call, hc, f, hf, hd⟩
    exact ⟨f, ⟨call, hc, hf⟩, hd⟩
  · rintro ⟨f, ⟨call, hc, hf⟩, hd⟩
    exact ⟨call, hc, f, hf, hd⟩

/-- … and the invariant that carries it -/
theorem C08_calls_inv (hrank : ∀ o, ∀ c ∈ ops o, rank c < rank o) (calls : List (List ObjId))
    (hfuel : ∀ call ∈ calls, ∀ root ∈ call, rank root < fuel) :
    Inv ops (addKnowledgeCalls ops fuel Reg.empty calls) :=
  (Reg.addKnowledgeCalls_inv hrank calls Reg.empty hfuel (Reg.empty_inv ops)).1

variable (hrank : ∀ o, ∀ c ∈ ops o, rank c < rank o) (roots : List ObjId)
  (hfuel : ∀ root ∈ roots, rank root < fuel)

include hrank hfuel

/-- **C08 for roots added one call each**, bundled -/
theorem C08_full_members : FullMembers ops roots (addKnowledge ops fuel Reg.empty roots) := by
  rw [Reg.addKnowledge_eq_calls]
  have h := C08_calls (fuel := fuel) hrank (roots.map fun f => [f]) (by
    intro call hc root hr
    obtain ⟨f, hf, rfl⟩ := List.mem_map.mp hc
    rw [List.mem_singleton] at hr
    subst hr; exact hfuel _ hf)
  have e : ∀ l : List ObjId, (l.map fun f => [f]).flatten = l := by
    intro l
    induction l with
    | nil => rfl
    | cons a l ih => simp [ih]
  rwa [e] at h

theorem C08_inv : Inv ops (addKnowledge ops fuel Reg.empty roots) := by
  rw [Reg.addKnowledge_eq_calls]
  refine C08_calls_inv hrank _ ?_
  intro call hc root hr
  obtain ⟨f, hf, rfl⟩ := List.mem_map.mp hc
  rw [List.mem_singleton] at hr
  subst hr; exact hfuel _ hf

/-- every sub-formula object of every root gets a formula number -/
theorem C08_every_object_numbered {o : ObjId} (h : Reachable ops roots o) :
    ∃ n, numOf (addKnowledge ops fuel Reg.empty roots) o = some n :=
  (C08_full_members hrank roots hfuel).every_object_numbered o h

/-- no two objects share a number; in particular two distinct objects of equal structure get two
numbers -/
theorem C08_numbers_injective {o₁ o₂ : ObjId} {n : Nat}
    (h₁ : numOf (addKnowledge ops fuel Reg.empty roots) o₁ = some n)
    (h₂ : numOf (addKnowledge ops fuel Reg.empty roots) o₂ = some n) : o₁ = o₂ :=
  (C08_full_members hrank roots hfuel).numbers_injective o₁ o₂ n h₁ h₂

/-- every reachable object is registered in `Model.nodes` exactly once -/
theorem C08_registered_once {o : ObjId} (h : Reachable ops roots o) :
    ∃! n, (n, o) ∈ (addKnowledge ops fuel Reg.empty roots).nodes :=
  (C08_full_members hrank roots hfuel).registered_once o h

/-- … under its own formula number -/
theorem C08_nodes_own_number {n : Nat} {o : ObjId}
    (h : (n, o) ∈ (addKnowledge ops fuel Reg.empty roots).nodes) :
    numOf (addKnowledge ops fuel Reg.empty roots) o = some n :=
  (C08_full_members hrank roots hfuel).nodes_own_number n o h

/-- one key, one object -/
theorem C08_nodes_functional {n : Nat} {o₁ o₂ : ObjId}
    (h₁ : (n, o₁) ∈ (addKnowledge ops fuel Reg.empty roots).nodes)
    (h₂ : (n, o₂) ∈ (addKnowledge ops fuel Reg.empty roots).nodes) : o₁ = o₂ :=
  (C08_full_members hrank roots hfuel).nodes_functional n o₁ o₂ h₁ h₂

/-- `model.nodes[o.formula_number] is o` -/
theorem C08_nodes_lookup {o : ObjId} {n : Nat}
    (h : numOf (addKnowledge ops fuel Reg.empty roots) o = some n) :
    assoc (addKnowledge ops fuel Reg.empty roots).nodes n = some o :=
  (C08_full_members hrank roots hfuel).nodes_lookup o n h

/-- `Model.nodes` holds exactly the sub-formula objects of the roots -/
theorem C08_nodes_exactly_reachable (o : ObjId) :
    (∃ n, (n, o) ∈ (addKnowledge ops fuel Reg.empty roots).nodes) ↔ Reachable ops roots o :=
  (C08_full_members hrank roots hfuel).nodes_exactly_reachable o

/-- every model-wide traversal of the graph visits exactly the sub-formula objects of the roots … -/
theorem C08_graph_exactly_reachable (o : ObjId) :
    o ∈ (addKnowledge ops fuel Reg.empty roots).graph ↔ Reachable ops roots o :=
  (C08_full_members hrank roots hfuel).graph_exactly_reachable o

/-- … each of them once -/
theorem C08_graph_nodup : (addKnowledge ops fuel Reg.empty roots).graph.Nodup :=
  (C08_full_members hrank roots hfuel).graph_nodup

/-- every model-wide operation that iterates over `nodes.values()` visits exactly the sub-formula
objects of the roots … -/
theorem C08_values_exactly_reachable (o : ObjId) :
    o ∈ (addKnowledge ops fuel Reg.empty roots).values ↔ Reachable ops roots o :=
  (C08_full_members hrank roots hfuel).values_exactly_reachable o

/-- … each of them once -/
theorem C08_values_nodup : (addKnowledge ops fuel Reg.empty roots).values.Nodup :=
  (C08_full_members hrank roots hfuel).values_nodup

/-- Adding a root, a sub-formula of a root, or any list of already registered objects again
changes nothing at all: not the numbers, not `nodes`, not `num_formulae`, not the graph. -/
theorem C08_readd_keeps_number (again : List ObjId) (h : ∀ f ∈ again, Reachable ops roots f) :
    addCall ops fuel (addKnowledge ops fuel Reg.empty roots) again
      = addKnowledge ops fuel Reg.empty roots :=
  Reg.addCall_id (C08_inv hrank roots hfuel) again
    (fun f hf => (C08_full_members hrank roots hfuel).every_object_numbered f (h f hf))

/-- the single-root form: `add_knowledge(f)` / `set_query(f)` on a registered object -/
theorem C08_readd_root {f : ObjId} (h : Reachable ops roots f) :
    addRoot ops fuel (addKnowledge ops fuel Reg.empty roots) f
      = addKnowledge ops fuel Reg.empty roots :=
  C08_readd_keeps_number hrank roots hfuel [f] (by simpa using h)

/-- in particular the numbers, `nodes` and `num_formulae` are unchanged -/
theorem C08_readd_root_numbers {f : ObjId} (h : Reachable ops roots f) (o : ObjId) :
    numOf (addRoot ops fuel (addKnowledge ops fuel Reg.empty roots) f) o
        = numOf (addKnowledge ops fuel Reg.empty roots) o ∧
      (addRoot ops fuel (addKnowledge ops fuel Reg.empty roots) f).nodes
        = (addKnowledge ops fuel Reg.empty roots).nodes ∧
      (addRoot ops fuel (addKnowledge ops fuel Reg.empty roots) f).next
        = (addKnowledge ops fuel Reg.empty roots).next := by
  rw [C08_readd_root hrank roots hfuel h]
  exact ⟨rfl, rfl, rfl⟩

/-- With one root per call the numbers in use are exactly `0 … num_formulae - 1`.
(False for several roots in one call, see the header and the last example.) -/
theorem C08_numbers_dense (n : Nat) :
    n < (addKnowledge ops fuel Reg.empty roots).next ↔
      ∃ o, numOf (addKnowledge ops fuel Reg.empty roots) o = some n := by
  constructor
  · have key : ∀ (l : List ObjId) (r : Reg), (∀ f ∈ l, rank f < fuel) → Inv ops r → Dense r →
        Dense (addKnowledge ops fuel r l) := by
      intro l
      induction l with
      | nil => intro r _ _ hd; exact hd
      | cons f fs ih =>
        intro r hf hI hd
        unfold addKnowledge
        rw [List.foldl_cons]
        exact ih _ (fun f' hf' => hf f' (List.mem_cons_of_mem _ hf'))
          (Reg.addCall_inv hrank (roots := [f]) (by simpa using hf f List.mem_cons_self) hI).1
          (Reg.addRoot_dense hrank (hf f List.mem_cons_self) hI hd)
    exact key roots Reg.empty hfuel (Reg.empty_inv ops)
      (fun n hn => absurd hn (Nat.not_lt_zero n)) n
  · rintro ⟨o, ho⟩
    exact (C08_full_members hrank roots hfuel).number_lt_next o n ho

end

/-! ### non-vacuity -/

/-- `Or(And₁(A, B), Not(And₂(A, B)))` with TWO distinct `And` objects of equal structure:
`A = 0, B = 1, And₁ = 2, And₂ = 3, Not = 4, Or = 5` -/
def exOps : ObjId → List ObjId
  | 2 => [0, 1]
  | 3 => [0, 1]
  | 4 => [3]
  | 5 => [2, 4]
  | _ => []

/-- a rank function for `exOps` (the hypotheses of the theorems are satisfiable) -/
def exRank : ObjId → Nat
  | 2 => 1
  | 3 => 1
  | 4 => 2
  | 5 => 3
  | _ => 0

example : ∀ o, ∀ c ∈ exOps o, exRank c < exRank o := by
  intro o c hc
  match o with
  | 0 | 1 => simp [exOps] at hc
  | 2 | 3 => simp [exOps] at hc; rcases hc with rfl | rfl <;> simp [exRank]
  | 4 => simp [exOps] at hc; subst hc; simp [exRank]
  | 5 => simp [exOps] at hc; rcases hc with rfl | rfl <;> simp [exRank]
  | (n + 6) => simp [exOps] at hc

example : ∀ root ∈ [5], exRank root < 4 := by decide

/-- the registry after `add_knowledge(Or)`: six objects, six distinct numbers `0 … 5`, both `And`
objects registered (`And₁ ↦ 1`, `And₂ ↦ 5`), exactly as the repository numbers them -/
example : addKnowledge exOps 4 Reg.empty [5] =
    { num := [(3, 5), (4, 4), (1, 3), (0, 2), (2, 1), (5, 0)]
      next := 6
      nodes := [(0, 5), (1, 2), (2, 0), (3, 1), (4, 4), (5, 3)]
      graph := [5, 2, 0, 1, 4, 3] } := by decide

example : numOf (addKnowledge exOps 4 Reg.empty [5]) 2 = some 1 ∧
    numOf (addKnowledge exOps 4 Reg.empty [5]) 3 = some 5 := by decide

example : (addKnowledge exOps 4 Reg.empty [5]).values = [5, 2, 0, 1, 4, 3] := by decide

/-- the sub-formula objects really are reachable in the sense of the theorems -/
example : Reachable exOps [5] 3 :=
  ⟨5, by simp, Desc.step (c := 4) (by simp [exOps]) (Desc.step (c := 3) (by simp [exOps]) (Desc.refl 3))⟩

/-- Two roots sharing the sub-formula OBJECT `And₁ = 2`, then a root that is a sub-formula of an
earlier one: `P = Or(And₁, Not(And₂)) = 5`, `Q = Not'(And₁) = 6`, then `And₂ = 3` added as a root
afterwards: the shared object keeps number 1, `And₂` keeps number 5, `num_formulae` stays 7. -/
def exOps2 : ObjId → List ObjId
  | 6 => [2]
  | o => exOps o

example : addKnowledge exOps2 4 Reg.empty [5, 6] =
    { num := [(6, 6), (3, 5), (4, 4), (1, 3), (0, 2), (2, 1), (5, 0)]
      next := 7
      nodes := [(0, 5), (1, 2), (2, 0), (3, 1), (4, 4), (5, 3), (6, 6)]
      graph := [5, 2, 0, 1, 4, 3, 6] } := by decide

example : addKnowledge exOps2 4 Reg.empty [5, 6, 3] = addKnowledge exOps2 4 Reg.empty [5, 6] := by
  decide

/-- the sub-formula first, the enclosing root afterwards: the sub-formula is not renumbered -/
example : addKnowledge exOps2 4 Reg.empty [3, 5] =
    { num := [(4, 5), (2, 4), (5, 3), (1, 2), (0, 1), (3, 0)]
      next := 6
      nodes := [(0, 3), (1, 0), (2, 1), (3, 5), (4, 2), (5, 4)]
      graph := [3, 0, 1, 5, 2, 4] } := by decide

/-- Several roots in ONE call: `g = Or(f, A)`, `f = And(A, B)`, `add_knowledge(g, f)` with
`A = 0, B = 1, f = 2, g = 3`.  `f` is numbered 1 as a sub-formula of `g`, then — `nodes` not having
been refreshed yet — renumbered 4 as a root.  It is registered once, under 4; number 1 is unused and
`num_formulae = 5`.  This is the behaviour of the repository
(`nodes = {0: g, 4: f, 2: A, 3: B}`), and the reason why density is only claimed for one root per
call. -/
def exOps3 : ObjId → List ObjId
  | 2 => [0, 1]
  | 3 => [2, 0]
  | _ => []

example : addKnowledgeCalls exOps3 3 Reg.empty [[3, 2]] =
    { num := [(2, 4), (1, 3), (0, 2), (3, 0)]
      next := 5
      nodes := [(0, 3), (4, 2), (2, 0), (3, 1)]
      graph := [3, 2, 0, 1] } := by decide

example : ¬ Dense (addKnowledgeCalls exOps3 3 Reg.empty [[3, 2]]) := by
  intro h
  obtain ⟨o, ho⟩ := h 1 (by decide)
  have hm := Reg.mem_of_assoc ho
  rw [show (addKnowledgeCalls exOps3 3 Reg.empty [[3, 2]]).num = [(2, 4), (1, 3), (0, 2), (3, 0)]
    from by decide] at hm
  simp at hm

/-- the same two roots in two calls: nothing is renumbered -/
example : addKnowledgeCalls exOps3 3 Reg.empty [[3], [2]] =
    { num := [(1, 3), (0, 2), (2, 1), (3, 0)]
      next := 4
      nodes := [(0, 3), (1, 2), (2, 0), (3, 1)]
      graph := [3, 2, 0, 1] } := by decide

end LNN
