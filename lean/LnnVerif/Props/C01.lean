/-
C01 — Propositional inference is sound for every real-valued interpretation.

Full strength: every knowledge base (no shape restriction at all), every non-negative weights,
every bias, every alpha ≤ 1, both activation variants, every interpretation that solves the local
truth-function equations, every finite sequence of node-level calls, model-level passes over an
arbitrary schedule, and `infer` runs with arbitrary sweep schedules, threshold and step limit.
-/
import LnnVerif.Lemmas.Engine
import Mathlib.Algebra.Order.Field.Rat

namespace LNN

variable {ι : Type} [DecidableEq ι] {α : Type} [Field α] [LinearOrder α] [IsStrictOrderedRing α]

/-- An interpretation consistent with the knowledge base and inside the bounds stays inside the
bounds of every formula after any amount of inference. -/
theorem C01_sound (kb : KB ι α) (hwf : WF kb) (v : ι → α) (hv : Consistent kb v)
    (s : State ι α) (hs : Sat v s) (ops : List (Op ι α)) : Sat v (run kb ops s) :=
  run_sound kb v ops s hwf hv hs

/-- The same for one `infer` run with any schedules, threshold, query and step limit. -/
theorem C01_sound_infer (kb : KB ι α) (hwf : WF kb) (v : ι → α) (hv : Consistent kb v)
    (s : State ι α) (hs : Sat v s) (cfg : InferCfg ι α) (fuel : Nat) :
    Sat v (infer kb cfg fuel s).state :=
  infer_sound kb v cfg fuel s hwf hv hs

/-- Data that has a consistent reading is never driven to a contradiction: after any amount of
inference no formula is reported contradictory (under any alpha). -/
theorem C01_no_contradiction (kb : KB ι α) (hwf : WF kb) (v : ι → α) (hv : Consistent kb v)
    (s : State ι α) (hs : Sat v s) (ops : List (Op ι α)) (a : α) (i : ι) :
    isContra a (run kb ops s i) = false := by
  have h := C01_sound kb hwf v hv s hs ops i
  have : ¬ ((run kb ops s i).lo > (run kb ops s i).hi) := not_lt.mpr (le_trans h.1 h.2)
  unfold isContra
  simp [this]

theorem C01_no_model_contradiction (kb : KB ι α) (hwf : WF kb) (v : ι → α) (hv : Consistent kb v)
    (s : State ι α) (hs : Sat v s) (ops : List (Op ι α)) (nodes : List ι) :
    hasContra kb nodes (run kb ops s) = false := by
  unfold hasContra
  rw [List.any_eq_false]
  intro i _
  simp [C01_no_contradiction kb hwf v hv s hs ops]

/-! ### non-vacuity: a concrete weighted knowledge base, interpretation and state meet every
hypothesis, and inference on it does tighten bounds (so the theorem is not about nothing). -/

/-- nodes 0,1 atoms; node 2 = And(0,1) with weights (1/2, 2), bias 1; node 3 = Not(2) -/
def exKB : KB Nat ℚ := fun i =>
  match i with
  | 2 => { kind := .and, ops := [0, 1], ws := [1/2, 2], bias := 1, alpha := 1 }
  | 3 => { kind := .neg, ops := [2], bias := 1, alpha := 1 }
  | _ => { kind := .atom, bias := 1, alpha := 1 }

def exV : Nat → ℚ := fun i =>
  match i with
  | 0 => 1/2 | 1 => 3/4 | 2 => 1/4 | 3 => 3/4 | _ => 0

def exS : State Nat ℚ := fun i =>
  match i with
  | 0 => ⟨1/2, 1/2⟩ | 1 => ⟨1/2, 1⟩ | 2 => ⟨1/4, 1⟩ | _ => ⟨0, 1⟩

example : WF exKB := by
  intro i
  unfold exKB
  split <;> simp <;> norm_num

example : Consistent exKB exV := by
  intro i
  match i with
  | 0 => simp [exKB, exV, nodeVal]; norm_num
  | 1 => simp [exKB, exV, nodeVal]; norm_num
  | 2 => simp [exKB, exV, nodeVal, clamp01]; norm_num
  | 3 => simp [exKB, exV, nodeVal]; norm_num
  | (n + 4) => simp [exKB, exV, nodeVal]

example : Sat exV exS := by
  intro i
  match i with
  | 0 => simp [exV, exS]
  | 1 => simp [exV, exS]; norm_num
  | 2 => simp [exV, exS]; norm_num
  | 3 => simp [exV, exS]; norm_num
  | (n + 4) => simp [exV, exS]

/-- downward inference on the example really tightens operand 1 from `[1/2,1]` to `[3/4,1]` -/
example : (run exKB [Op.call (Call.down 2 none)] exS 1) = ⟨3/4, 1⟩ := by
  simp [run, runOp, Call.steps, callDown, runSteps, runStep, stepDown, exKB, exS, arrested, isContra,
    region, actDown, andDown, opds, writeOps, enumFrom, aggregate, clamp01, termHi, sumW,
    Function.update]
  norm_num

end LNN
