/-
C19 — Clamping is value-exact and gradient-transparent.

`val_clamp` returns exactly `min 1 (max 0 x)` and passes every tangent through unchanged, whether
the input is saturated or not; hence the upward output of a (strictly) saturated And, Or or Implies
neuron carries exactly the gradient of its unclamped linear form with respect to every weight, the
bias and every input — for every tangent direction at once (the theorems quantify over arbitrary
dual numbers, i.e. arbitrary directions).
-/
import LnnVerif.Model.Dual
import LnnVerif.Lemmas.Arith
import Mathlib.Algebra.Order.Field.Rat

namespace LNN

open Dual

variable {α : Type} [Field α] [LinearOrder α] [IsStrictOrderedRing α]

/-- **Value-exact and gradient-transparent.** -/
theorem C19_valClamp (x : Dual α) : valClamp x = ⟨clamp01 x.val, x.tan⟩ := by
  apply Dual.ext'
  · unfold valClamp clampMin0 clampMax0
    simp only [sub_val, detach_val, const_val]
    unfold clamp01
    rcases le_total x.val 0 with h0 | h0
    · rw [max_eq_right (by linarith), min_eq_left (by linarith), max_eq_left h0,
        min_eq_right (zero_le_one)]; ring
    · rcases le_total x.val 1 with h1 | h1
      · rw [max_eq_right (by linarith), min_eq_right (by linarith), max_eq_right h0, min_eq_right h1]; ring
      · rw [max_eq_left (by linarith), min_eq_right (by linarith), max_eq_right h0, min_eq_left h1]; ring
  · unfold valClamp clampMin0 clampMax0
    simp only [sub_val, sub_tan, detach_val, detach_tan, const_val, const_tan]
    simp

theorem C19_value_exact (x : Dual α) : (valClamp x).val = min 1 (max 0 x.val) := by
  rw [C19_valClamp]; rfl

/-- derivative one everywhere: saturated at either end or not -/
theorem C19_gradient_transparent (x : Dual α) : (valClamp x).tan = x.tan := by
  rw [C19_valClamp]

/-- the upward And output has the value of the clamped form and the gradient of the UNCLAMPED
linear form, in every direction (weights, bias, inputs) -/
theorem C19_and (b : Dual α) (ws xs : List (Dual α)) :
    (andUpD b ws xs).val = clamp01 (andPreD b ws xs).val ∧ (andUpD b ws xs).tan = (andPreD b ws xs).tan := by
  unfold andUpD; rw [C19_valClamp]; exact ⟨rfl, rfl⟩

theorem C19_or (b : Dual α) (ws xs : List (Dual α)) :
    (orUpD b ws xs).val = clamp01 (orPreD b ws xs).val ∧ (orUpD b ws xs).tan = (orPreD b ws xs).tan := by
  unfold orUpD; rw [C19_valClamp]; exact ⟨rfl, rfl⟩

theorem C19_implies (b w0 w1 x y : Dual α) :
    (impUpD b w0 w1 x y).val = clamp01 (impPreD b w0 w1 x y).val ∧
      (impUpD b w0 w1 x y).tan = (impPreD b w0 w1 x y).tan := by
  unfold impUpD; rw [C19_valClamp]; exact ⟨rfl, rfl⟩

theorem sum_val (l : List (Dual α)) : (Dual.sum l).val = (l.map (·.val)).sum := by
  induction l with
  | nil => rfl
  | cons d ds ih => simp only [Dual.sum, List.map_cons, List.sum_cons, ← ih, add_val]

theorem sum_tan (l : List (Dual α)) : (Dual.sum l).tan = (l.map (·.tan)).sum := by
  induction l with
  | nil => rfl
  | cons d ds ih => simp only [Dual.sum, List.map_cons, List.sum_cons, ← ih, add_tan]

/-- the explicit gradient of the And form: `∂/∂b = 1`, `∂/∂wᵢ = -(1 - xᵢ)`, `∂/∂xᵢ = wᵢ` -/
theorem C19_and_gradient (b : Dual α) (ws xs : List (Dual α)) :
    (andUpD b ws xs).tan =
      b.tan - (List.zipWith (fun w x => (0 - x.tan) * w.val + (1 - x.val) * w.tan) ws xs).sum := by
  rw [(C19_and b ws xs).2]
  unfold andPreD
  rw [sub_tan, sum_tan]
  congr 1
  induction ws generalizing xs with
  | nil => simp
  | cons w ws ih =>
    cases xs with
    | nil => simp
    | cons x xs =>
      simp only [List.zipWith_cons_cons, List.map_cons, List.sum_cons, ih xs, mul_tan, sub_tan, sub_val,
        const_tan, const_val]

/-- direction "bias only" on a strictly saturated (below 0) And: value 0, derivative 1 -/
example : (andUpD (⟨-3, 1⟩ : Dual ℚ) [const 1, const 2] [const (1/2), const (1/4)]).val = 0 ∧
    (andUpD (⟨-3, 1⟩ : Dual ℚ) [const 1, const 2] [const (1/2), const (1/4)]).tan = 1 := by
  constructor
  · rw [(C19_and _ _ _).1]
    simp [andPreD, Dual.sum, clamp01]
    norm_num
  · rw [C19_and_gradient]
    simp

/-- direction "weight 0 only" on a strictly saturated (above 1) And: derivative `-(1 - x₀) = -1/2` -/
example : (andUpD (const (5:ℚ)) [⟨1, 1⟩, const 2] [const (1/2), const (1/4)]).tan = -1/2 := by
  rw [C19_and_gradient]
  simp
  norm_num

end LNN
