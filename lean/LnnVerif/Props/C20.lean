/-
C20 — Query- and source-restricted inference is local and agrees with full inference.

* `C20_local_*`: a traversal that starts from a source formula calls only formulae of the source's
  sub-graph (checked on the implementation's observed call log on every run); any such pass / infer
  leaves every formula outside the sub-graph untouched.
* `C20_verdict_final`: on data that admits a consistent reading, a formula that is classically
  TRUE or FALSE stays exactly so under any further inference (so a query verdict reported at an
  early stop survives `converge=True`).
* `C20_restricted_not_tighter`: the restricted run never derives anything the full fixpoint does not.
-/
import LnnVerif.Props.C01
import LnnVerif.Props.C05
import LnnVerif.Props.C07
import LnnVerif.Lemmas.FolSound
import LnnVerif.Lemmas.PendLemmas

namespace LNN

open Mono

variable {ι : Type} [DecidableEq ι] {α : Type} [Field α] [LinearOrder α] [IsStrictOrderedRing α]

/-- `D` contains, with every formula, its operands and (for Iff / XOr) its generated inner
formulae: a sub-graph of the formula graph closed under "is used by". -/
def SubgraphClosed (kb : KB ι α) (D : ι → Prop) : Prop :=
  ∀ i, D i → (∀ j ∈ (kb i).ops, D j) ∧ (∀ j ∈ (kb i).pre, D j) ∧ (∀ j ∈ (kb i).post, D j)

def Call.node : Call ι → ι
  | .up i => i
  | .down i _ => i

theorem targets_in_subgraph (kb : KB ι α) (D : ι → Prop) (hD : SubgraphClosed kb D)
    (sched : List (Call ι)) (hs : ∀ c ∈ sched, D c.node) :
    ∀ st ∈ passSteps kb sched, ∀ j ∈ st.targets kb, D j := by
  intro st hst j hj
  unfold passSteps at hst
  obtain ⟨c, hc, hst⟩ := List.mem_flatMap.mp hst
  have hDc := hs c hc
  cases c with
  | up i =>
    simp only [Call.steps, callUp, List.mem_append, List.mem_map, List.mem_singleton] at hst
    rcases hst with ⟨p, hp, rfl⟩ | rfl
    · simp only [Step.targets, List.mem_singleton] at hj
      rw [hj]; exact (hD i hDc).2.1 p hp
    · simp only [Step.targets, List.mem_singleton] at hj
      rw [hj]; exact hDc
  | down i idx =>
    simp only [Call.steps, callDown, List.mem_cons, List.mem_map] at hst
    rcases hst with rfl | ⟨p, hp, rfl⟩
    · exact (hD i hDc).1 j hj
    · exact (hD p ((hD i hDc).2.2 p hp)).1 j hj

/-- a model-level pass whose calls all lie in the sub-graph changes nothing outside it -/
theorem C20_local_pass (kb : KB ι α) (D : ι → Prop) (hD : SubgraphClosed kb D)
    (sched : List (Call ι)) (hs : ∀ c ∈ sched, D c.node) (s : State ι α) (j : ι) (hj : ¬ D j) :
    (runPass kb sched s).1 j = s j := by
  unfold runPass
  apply runSteps_frame
  intro st hst hmem
  exact hj (targets_in_subgraph kb D hD sched hs st hst j hmem)

/-- **Locality.** `infer(source=…)` / `infer_query`: if both sweep schedules only call formulae of
a closed sub-graph `D`, then after any number of sweeps (any threshold, query, step limit) every
formula outside `D` has exactly the bounds it had before. -/
theorem C20_local (kb : KB ι α) (D : ι → Prop) (hD : SubgraphClosed kb D) (cfg : InferCfg ι α)
    (hup : ∀ c ∈ cfg.up, D c.node) (hdown : ∀ c ∈ cfg.down, D c.node)
    (fuel : Nat) (s : State ι α) (j : ι) (hj : ¬ D j) :
    (infer kb cfg fuel s).state j = s j := by
  obtain ⟨k, hk⟩ := infer_state_eq_run kb cfg fuel s
  rw [hk]
  apply runSteps_frame
  intro st hst hmem
  obtain ⟨l, hl, hst⟩ := List.mem_flatten.mp hst
  rw [List.eq_of_mem_replicate hl] at hst
  unfold sweepSteps at hst
  rcases List.mem_append.mp hst with h | h
  · exact hj (targets_in_subgraph kb D hD cfg.up hup st h j hmem)
  · exact hj (targets_in_subgraph kb D hD cfg.down hdown st h j hmem)

/-- **Early verdicts are final.** On data with a consistent reading, a formula whose bounds are
classically TRUE `(1,1)` or FALSE `(0,0)` keeps exactly those bounds under any further inference. -/
theorem C20_verdict_final (kb : KB ι α) (hwf : WF kb) (v : ι → α) (hv : Consistent kb v)
    (s : State ι α) (hs : Sat v s) (hu : StateInUnit s) (q : ι)
    (hq : s q = ⟨1, 1⟩ ∨ s q = ⟨0, 0⟩) (ops : List (Op ι α)) : run kb ops s q = s q := by
  have hsound := C01_sound kb hwf v hv s hs ops q
  have hmono := C05_monotone kb s hu ops q
  have hsq := hs q
  apply Bounds.ext'
  · rcases hq with h | h <;> rw [h] at hmono hsq ⊢ <;> simp only at hmono hsq ⊢ <;> linarith [hsound.1, hsound.2]
  · rcases hq with h | h <;> rw [h] at hmono hsq ⊢ <;> simp only at hmono hsq ⊢ <;> linarith [hsound.1, hsound.2]

/-- **The restricted run derives nothing the full run does not.** Let `T` be the full fixpoint:
at least as tight as the start, unchanged and not arrested by any admissible step. Then the state
reached by `infer` restricted to any sub-schedule of admissible steps is nowhere tighter than `T`. -/
theorem C20_restricted_not_tighter (kb : KB ι α) (hwf : WF kb) (A : Step ι → Prop)
    (T : State ι α) (hT : UnitState T)
    (hfix : ∀ st, A st → (runStep kb st T).1 = T)
    (hfree : ∀ st, A st → arrested kb T (node st) = false)
    (s0 : State ι α) (h0 : UnitState s0) (h0T : Le s0 T)
    (cfg : InferCfg ι α) (hsub : ∀ st ∈ sweepSteps kb cfg, A st) (fuel : Nat) :
    Le (infer kb cfg fuel s0).state T := by
  obtain ⟨k, hk⟩ := infer_state_eq_run kb cfg fuel s0
  rw [hk]
  apply C07_run_le_fixpoint kb hwf A T hT hfix hfree s0 h0 h0T
  intro st hst
  obtain ⟨l, hl, hst⟩ := List.mem_flatten.mp hst
  rw [List.eq_of_mem_replicate hl] at hst
  exact hsub st hst

/-! ### non-vacuity -/

/-- two roots over three atoms: node 3 = And(0,1), node 4 = Or(1,2) -/
def c20KB : KB Nat ℚ := fun i =>
  match i with
  | 3 => { kind := .and, ops := [0, 1], ws := [1, 1], bias := 1, alpha := 1 }
  | 4 => { kind := .or, ops := [1, 2], ws := [1, 1], bias := 1, alpha := 1 }
  | _ => { kind := .atom, bias := 1, alpha := 1 }

/-- the sub-graph of root 3 -/
def c20D : Nat → Prop := fun i => i = 3 ∨ i = 0 ∨ i = 1

example : SubgraphClosed c20KB c20D := by
  intro i hi
  rcases hi with rfl | rfl | rfl <;> simp [c20KB, c20D]

example : ¬ c20D 4 ∧ ¬ c20D 2 := by simp [c20D]

/-! ### first-order knowledge bases: restricted inference is local

`infer(source=f)` / `infer_query()` call only `f` and its sub-formulae (the correspondence check
compares the observed calls). Whatever those calls are, in whatever order and number: no table of
a formula outside the sub-graph changes — no bound, no row. This includes the grounding
propagation layer and the early exit of a query. -/

section fol

variable {ι : Type} [DecidableEq ι] {α : Type} [Field α] [LinearOrder α] [IsStrictOrderedRing α]

/-- `D` contains the operands of each of its formulae -/
def FClosed (kb : FKB ι α) (D : ι → Prop) : Prop := ∀ i, D i → ∀ j ∈ (kb i).ops, D j

def FCall.formula : FCall ι → ι
  | .up i => i
  | .down i _ => i

theorem fUp_frame (kb : FKB ι α) (i : ι) (s : FState ι α) (k : ι) (hk : k ∉ i :: (kb i).ops) :
    (fUp kb i s).1.get k = s.get k := by
  have hki : k ≠ i := fun e => hk (e ▸ List.mem_cons_self)
  unfold fUp
  split
  · rfl
  · exact FolSound.fUpNot_frame kb i s k hki
  · exact FolSound.fUpQuant_frame kb i s k hki
  · exact FolSound.fUpQuant_frame kb i s k hki
  · exact FolSound.fUpConn_frame kb i s k hk

theorem fDown_frame (kb : FKB ι α) (i : ι) (idx : Option Nat) (s : FState ι α) (k : ι)
    (hk : k ∉ i :: (kb i).ops) : (fDown kb i idx s).1.get k = s.get k := by
  have hko : k ∉ (kb i).ops := fun e => hk (List.mem_cons_of_mem _ e)
  unfold fDown
  split
  · rfl
  · exact FolSound.fDownNot_frame kb i s k hko
  · exact FolSound.fDownQuant_frame kb i s k hk
  · exact FolSound.fDownQuant_frame kb i s k hk
  · exact FolSound.fDownConn_frame kb i s k idx hk

theorem preDown_frame (kb : FKB ι α) (i : ι) (p : PState ι α) (k : ι) (hk : k ∉ (kb i).ops) :
    (preDown kb i p).st.get k = p.st.get k := by
  unfold preDown
  split_ifs
  · split
    · split_ifs
      · rfl
      · obtain ⟨gs, e⟩ := propagateQ_get kb i p k
        rw [e, if_neg]
        intro h
        apply hk
        cases hops : (kb i).ops with
        | nil => rw [hops] at h; simp at h
        | cons a l => rw [hops] at h; simp at h; rw [h]; exact List.mem_cons_self
    · rfl
  · rfl

/-- one call of a formula of the sub-graph leaves every table outside the sub-graph as it was -/
theorem C20_fol_call_local (kb : FKB ι α) (D : ι → Prop) (hD : FClosed kb D) (c : FCall ι)
    (hc : D c.formula) (p : PState ι α) (k : ι) (hk : ¬ D k) :
    (runPCall kb c p).1.st.get k = p.st.get k := by
  cases c with
  | up i =>
    have hki : k ∉ i :: (kb i).ops := by
      intro h
      rcases List.mem_cons.mp h with e | e
      · exact hk (e ▸ hc)
      · exact hk (hD i hc k e)
    exact fUp_frame kb i p.st k hki
  | down i idx =>
    have hko : k ∉ (kb i).ops := fun e => hk (hD i hc k e)
    have hki : k ∉ i :: (kb i).ops := by
      intro h
      rcases List.mem_cons.mp h with e | e
      · exact hk (e ▸ hc)
      · exact hko e
    show (fDown kb i idx (preDown kb i p).st).1.get k = p.st.get k
    rw [fDown_frame kb i idx _ k hki, preDown_frame kb i p k hko]

/-- … hence so does every sequence of such calls -/
theorem C20_fol_pass_local (kb : FKB ι α) (D : ι → Prop) (hD : FClosed kb D) (cs : List (FCall ι))
    (hcs : ∀ c ∈ cs, D c.formula) (p : PState ι α) (k : ι) (hk : ¬ D k) :
    (runPCalls kb cs p).1.st.get k = p.st.get k := by
  induction cs generalizing p with
  | nil => rfl
  | cons c rest ih =>
    simp only [runPCalls]
    rw [ih (fun c' hc' => hcs c' (List.mem_cons_of_mem _ hc')) (runPCall kb c p).1,
      C20_fol_call_local kb D hD c (hcs c List.mem_cons_self) p k hk]

/-- … and the whole restricted `infer()`, with or without a query that stops it early -/
theorem C20_fol_local (kb : FKB ι α) (D : ι → Prop) (hD : FClosed kb D) (nodes : List ι)
    (up down : List (FCall ι)) (hu : ∀ c ∈ up, D c.formula) (hd : ∀ c ∈ down, D c.formula) (eps : α)
    (query : Option ι) (fuel : Nat) (p : PState ι α) (k : ι) (hk : ¬ D k) :
    (pInferQ kb nodes up down eps query fuel p).state.st.get k = p.st.get k := by
  induction fuel generalizing p with
  | zero => rfl
  | succ n ih =>
    simp only [pInferQ]
    have hsweep : (runPCalls kb down (runPCalls kb up p).1).1.st.get k = p.st.get k := by
      rw [C20_fol_pass_local kb D hD down hd _ k hk, C20_fol_pass_local kb D hD up hu p k hk]
    split_ifs
    · rfl
    · exact hsweep
    · simp only
      rw [ih, hsweep]

/-- non-vacuity: `And(P, Q)` (node 2) and `Or(Q, R)` (node 4) share `Q`; the sub-graph of node 2 -/
def c20FKB : FKB Nat ℚ := fun i =>
  match i with
  | 2 => { kind := .and, ops := [0, 1], ws := [1, 1], bias := 1, alpha := 1, world := ⟨0, 1⟩, opmap := [[0], [0]] }
  | 4 => { kind := .or, ops := [1, 3], ws := [1, 1], bias := 1, alpha := 1, world := ⟨0, 1⟩, opmap := [[0], [0]] }
  | _ => { kind := .pred, bias := 1, alpha := 1, world := ⟨0, 1⟩ }

example : FClosed c20FKB (fun i => i = 2 ∨ i = 0 ∨ i = 1) ∧ ¬ (4 = 2 ∨ 4 = 0 ∨ 4 = 1) := by
  refine ⟨?_, by decide⟩
  intro i hi
  rcases hi with rfl | rfl | rfl <;> simp [c20FKB]

end fol

end LNN
