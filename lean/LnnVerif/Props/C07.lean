/-
C07 — The result of inference does not depend on the order of the work.

"For data that does not lead to a contradiction, the bounds reached by inference are the same
whatever order the root formulae were added in, whatever order operands and sub-formulae are
visited in, and whether the user runs infer() or any fair interleaving of node-level upward and
downward calls until nothing changes. Whether a contradiction is found at all is likewise
independent of the order."

Reading. A *schedule* is any finite list of primitive steps (`Step.up i`, `Step.down i idx` — the
latter with `idx = none` for all operands or `some k` for one operand) drawn from a set `A` of
admissible steps (e.g. all upward and downward steps of all formulae of the model). The order in
which formulae were added, the traversal order of `infer`, the order in which operands are visited
one by one and the choice between `infer` and hand-made node-level calls all only change *which
list over `A`* is executed, so "for every two lists over `A`" covers them all.

* "until nothing changes": the end state is left unchanged by every step of `A`
  (`hfix`). Quiescence is judged on the state, not on reported amounts.
* "does not lead to a contradiction": in the end state no node of a step of `A` is arrested
  (`hfree`), i.e. neither the node nor an operand is contradictory.

Full strength: every knowledge base (any shape, shared sub-formulae, cycles), all five node kinds,
every non-negative weights, every bias, every `alpha ≤ 1` (for the persistence of contradictions
every alpha whatsoever), both activation variants, every initial state with bounds in `[0,1]`.
-/
import LnnVerif.Lemmas.Mono
import Mathlib.Algebra.Order.Field.Rat

namespace LNN

open Mono

variable {ι : Type} [DecidableEq ι] {α : Type} [Field α] [LinearOrder α] [IsStrictOrderedRing α]

/-- **Least fixpoint.** Let `T` be any state with bounds in `[0,1]` that is at least as tight as
the initial state, that no step of `A` changes and in which no step of `A` is arrested. Then *every*
schedule over `A` — exhaustive or not, arrested on the way or not — stays below `T`: inference never
derives more than `T`. -/
theorem C07_run_le_fixpoint (kb : KB ι α) (hwf : WF kb) (A : Step ι → Prop)
    (T : State ι α) (hT : UnitState T)
    (hfix : ∀ st, A st → (runStep kb st T).1 = T)
    (hfree : ∀ st, A st → arrested kb T (node st) = false)
    (s0 : State ι α) (h0 : UnitState s0) (h0T : Le s0 T)
    (l : List (Step ι)) (hl : ∀ st ∈ l, A st) :
    Le (runSteps kb l s0).1 T := by
  rw [runSteps_fst]
  refine Chaotic.run_le_fix Le UnitState A (ustep kb) _ (runStep_cases kb)
    (fun st s _ hs => ustep_unit kb st hs) (fun st s t _ _ _ h => ustep_mono kb hwf st h)
    T hT ?_ l hl s0 h0 h0T
  intro st hst
  rw [← runStep_of_free kb st T (hfree st hst)]
  exact hfix st hst

/-- One exhaustive, contradiction-free schedule dominates every other schedule from the same
initial state. -/
theorem C07_run_le_run (kb : KB ι α) (hwf : WF kb) (A : Step ι → Prop)
    (s0 : State ι α) (h0 : UnitState s0)
    (l₁ l₂ : List (Step ι)) (hl₂ : ∀ st ∈ l₂, A st)
    (hfix₁ : ∀ st, A st → (runStep kb st (runSteps kb l₁ s0).1).1 = (runSteps kb l₁ s0).1)
    (hfree₁ : ∀ st, A st → arrested kb (runSteps kb l₁ s0).1 (node st) = false) :
    Le (runSteps kb l₂ s0).1 (runSteps kb l₁ s0).1 :=
  C07_run_le_fixpoint kb hwf A _ (runSteps_unit kb l₁ h0) hfix₁ hfree₁ s0 h0
    (runSteps_infl kb l₁ h0) l₂ hl₂

/-- **C07, confluence.** Two schedules over the same admissible steps, from the same initial state,
that both run until nothing changes and both end without an arrested node, end in *the same
state*. -/
theorem C07_confluent (kb : KB ι α) (hwf : WF kb) (A : Step ι → Prop)
    (s0 : State ι α) (h0 : UnitState s0)
    (l₁ l₂ : List (Step ι)) (hl₁ : ∀ st ∈ l₁, A st) (hl₂ : ∀ st ∈ l₂, A st)
    (hfix₁ : ∀ st, A st → (runStep kb st (runSteps kb l₁ s0).1).1 = (runSteps kb l₁ s0).1)
    (hfix₂ : ∀ st, A st → (runStep kb st (runSteps kb l₂ s0).1).1 = (runSteps kb l₂ s0).1)
    (hfree₁ : ∀ st, A st → arrested kb (runSteps kb l₁ s0).1 (node st) = false)
    (hfree₂ : ∀ st, A st → arrested kb (runSteps kb l₂ s0).1 (node st) = false) :
    (runSteps kb l₁ s0).1 = (runSteps kb l₂ s0).1 :=
  Le.antisymm
    (C07_run_le_run kb hwf A s0 h0 l₂ l₁ hl₁ hfix₂ hfree₂)
    (C07_run_le_run kb hwf A s0 h0 l₁ l₂ hl₂ hfix₁ hfree₁)

/-- **C07, contradictions.** If one schedule runs until nothing changes and ends without an
arrested node, then no schedule over the same steps — exhaustive or not — ever shows a
contradiction, at any node and under any alpha, that the first one does not show in its end state.
Contrapositive: a contradiction met by some schedule is present at the end of every exhaustive
schedule (which therefore cannot end contradiction-free). -/
theorem C07_contradiction_invariant (kb : KB ι α) (hwf : WF kb) (A : Step ι → Prop)
    (s0 : State ι α) (h0 : UnitState s0)
    (l₁ l₂ : List (Step ι)) (hl₂ : ∀ st ∈ l₂, A st)
    (hfix₁ : ∀ st, A st → (runStep kb st (runSteps kb l₁ s0).1).1 = (runSteps kb l₁ s0).1)
    (hfree₁ : ∀ st, A st → arrested kb (runSteps kb l₁ s0).1 (node st) = false) :
    Le (runSteps kb l₂ s0).1 (runSteps kb l₁ s0).1 ∧
    (∀ a j, isContra a ((runSteps kb l₁ s0).1 j) = false →
      isContra a ((runSteps kb l₂ s0).1 j) = false) ∧
    (∀ i, arrested kb (runSteps kb l₁ s0).1 i = false →
      arrested kb (runSteps kb l₂ s0).1 i = false) ∧
    (∀ nodes, hasContra kb nodes (runSteps kb l₁ s0).1 = false →
      hasContra kb nodes (runSteps kb l₂ s0).1 = false) := by
  have hle := C07_run_le_run kb hwf A s0 h0 l₁ l₂ hl₂ hfix₁ hfree₁
  refine ⟨hle, fun a j h => isContra_false_of_le a (hle j) h,
    fun i h => arrested_false_of_le kb i hle h, ?_⟩
  intro nodes h
  unfold hasContra at h ⊢
  rw [List.any_eq_false] at h ⊢
  intro i hi
  have := h i hi
  simp only [Bool.not_eq_true] at this ⊢
  exact isContra_false_of_le _ (hle i) this

/-- **C07, whether a contradiction is found does not depend on the order.** For two schedules that
both run until nothing changes: one ends with some admissible step arrested by a contradiction if
and only if the other does. -/
theorem C07_contradiction_iff (kb : KB ι α) (hwf : WF kb) (A : Step ι → Prop)
    (s0 : State ι α) (h0 : UnitState s0)
    (l₁ l₂ : List (Step ι)) (hl₁ : ∀ st ∈ l₁, A st) (hl₂ : ∀ st ∈ l₂, A st)
    (hfix₁ : ∀ st, A st → (runStep kb st (runSteps kb l₁ s0).1).1 = (runSteps kb l₁ s0).1)
    (hfix₂ : ∀ st, A st → (runStep kb st (runSteps kb l₂ s0).1).1 = (runSteps kb l₂ s0).1) :
    (∃ st, A st ∧ arrested kb (runSteps kb l₁ s0).1 (node st) = true) ↔
    (∃ st, A st ∧ arrested kb (runSteps kb l₂ s0).1 (node st) = true) := by
  have key : ∀ (l l' : List (Step ι)), (∀ st ∈ l, A st) →
      (∀ st, A st → (runStep kb st (runSteps kb l' s0).1).1 = (runSteps kb l' s0).1) →
      (∃ st, A st ∧ arrested kb (runSteps kb l s0).1 (node st) = true) →
      (∃ st, A st ∧ arrested kb (runSteps kb l' s0).1 (node st) = true) := by
    intro l l' hl hfix' ⟨st, hst, harr⟩
    by_contra hno
    have hfree' : ∀ st, A st → arrested kb (runSteps kb l' s0).1 (node st) = false := by
      intro st' hst'
      cases h : arrested kb (runSteps kb l' s0).1 (node st') with
      | false => rfl
      | true => exact absurd ⟨st', hst', h⟩ hno
    have hle := C07_run_le_run kb hwf A s0 h0 l' l hl hfix' hfree'
    have := arrested_mono kb (node st) hle harr
    rw [hfree' st hst] at this
    exact absurd this (by simp)
  exact ⟨key l₁ l₂ hl₁ hfix₂, key l₂ l₁ hl₂ hfix₁⟩

/-- Crossed bounds are the only source of contradictions: a version of the confluence theorem whose
"no contradiction" hypothesis is simply that no bounds are crossed in the two end states. -/
theorem C07_confluent_uncrossed (kb : KB ι α) (hwf : WF kb) (A : Step ι → Prop)
    (s0 : State ι α) (h0 : UnitState s0)
    (l₁ l₂ : List (Step ι)) (hl₁ : ∀ st ∈ l₁, A st) (hl₂ : ∀ st ∈ l₂, A st)
    (hfix₁ : ∀ st, A st → (runStep kb st (runSteps kb l₁ s0).1).1 = (runSteps kb l₁ s0).1)
    (hfix₂ : ∀ st, A st → (runStep kb st (runSteps kb l₂ s0).1).1 = (runSteps kb l₂ s0).1)
    (hok₁ : ∀ j, ((runSteps kb l₁ s0).1 j).lo ≤ ((runSteps kb l₁ s0).1 j).hi)
    (hok₂ : ∀ j, ((runSteps kb l₂ s0).1 j).lo ≤ ((runSteps kb l₂ s0).1 j).hi) :
    (runSteps kb l₁ s0).1 = (runSteps kb l₂ s0).1 :=
  C07_confluent kb hwf A s0 h0 l₁ l₂ hl₁ hl₂ hfix₁ hfix₂
    (fun st _ => arrested_false_of_uncrossed kb (node st) hok₁)
    (fun st _ => arrested_false_of_uncrossed kb (node st) hok₂)

/-- **C07, `infer` against any interleaving of node-level calls.** An `infer` run with threshold
`0` that reports convergence and ends without an arrested node reaches exactly the state reached by
*any* schedule of the same primitive steps (any order, any repetition, operands visited one by one
or together) that was continued until nothing changes and ends without an arrested node. -/
theorem C07_infer_vs_schedule (kb : KB ι α) (hwf : WF kb) (cfg : InferCfg ι α) (heps : cfg.eps ≤ 0)
    (fuel : Nat) (s0 : State ι α) (h0 : UnitState s0)
    (hconv : (infer kb cfg fuel s0).converged = true)
    (hfreeI : ∀ st ∈ sweepSteps kb cfg,
      arrested kb (infer kb cfg fuel s0).state (node st) = false)
    (l : List (Step ι)) (hl : ∀ st ∈ l, st ∈ sweepSteps kb cfg)
    (hfix : ∀ st ∈ sweepSteps kb cfg, (runStep kb st (runSteps kb l s0).1).1 = (runSteps kb l s0).1)
    (hfree : ∀ st ∈ sweepSteps kb cfg, arrested kb (runSteps kb l s0).1 (node st) = false) :
    (infer kb cfg fuel s0).state = (runSteps kb l s0).1 := by
  have hfixI := infer_converged_fix kb cfg heps fuel s0 hconv
  obtain ⟨k, hk⟩ := infer_state_eq_run kb cfg fuel s0
  rw [hk] at hfixI hfreeI ⊢
  refine C07_confluent kb hwf (fun st => st ∈ sweepSteps kb cfg) s0 h0 _ l ?_ hl hfixI hfix
    hfreeI hfree
  intro st hst
  obtain ⟨l', hl', hm⟩ := List.mem_flatten.mp hst
  rw [List.eq_of_mem_replicate hl'] at hm
  exact hm

/-- Two `infer` runs with different sweep schedules over the same primitive steps (e.g. after the
root formulae were added in a different order), both with threshold `0`, both converged and
contradiction-free, return the same bounds. -/
theorem C07_infer_vs_infer (kb : KB ι α) (hwf : WF kb) (cfg₁ cfg₂ : InferCfg ι α)
    (heps₁ : cfg₁.eps ≤ 0) (heps₂ : cfg₂.eps ≤ 0)
    (hsame : ∀ st, st ∈ sweepSteps kb cfg₁ ↔ st ∈ sweepSteps kb cfg₂)
    (fuel₁ fuel₂ : Nat) (s0 : State ι α) (h0 : UnitState s0)
    (hconv₁ : (infer kb cfg₁ fuel₁ s0).converged = true)
    (hconv₂ : (infer kb cfg₂ fuel₂ s0).converged = true)
    (hfree₁ : ∀ st ∈ sweepSteps kb cfg₁,
      arrested kb (infer kb cfg₁ fuel₁ s0).state (node st) = false)
    (hfree₂ : ∀ st ∈ sweepSteps kb cfg₂,
      arrested kb (infer kb cfg₂ fuel₂ s0).state (node st) = false) :
    (infer kb cfg₁ fuel₁ s0).state = (infer kb cfg₂ fuel₂ s0).state := by
  have hfix₂ := infer_converged_fix kb cfg₂ heps₂ fuel₂ s0 hconv₂
  obtain ⟨k, hk⟩ := infer_state_eq_run kb cfg₂ fuel₂ s0
  rw [hk] at hfix₂ hfree₂ ⊢
  refine C07_infer_vs_schedule kb hwf cfg₁ heps₁ fuel₁ s0 h0 hconv₁ hfree₁ _ ?_
    (fun st hst => hfix₂ st ((hsame st).mp hst)) (fun st hst => hfree₂ st ((hsame st).mp hst))
  intro st hst
  obtain ⟨l', hl', hm⟩ := List.mem_flatten.mp hst
  rw [List.eq_of_mem_replicate hl'] at hm
  exact (hsame st).mpr hm

end LNN
