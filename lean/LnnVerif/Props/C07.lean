/-
C07 — The result of inference does not depend on the order of the work.

"For data that does not lead to a contradiction, the bounds reached by inference are the same
whatever order the root formulae were added in, whatever order operands and sub-formulae are
visited in, and whether the user runs infer() or any fair interleaving of node-level upward and
downward calls until nothing changes. Whether a contradiction is found at all is likewise
independent of the order."

Reading. A *schedule* is any finite list of primitive steps (`Step.up i`, `Step.down i idx` — the
latter with `idx = none` for all operands or `some k` for one operand) drawn from a set `A` of
admissible steps (e.g. all upward and downward steps of all formulae of the model). The order in
which formulae were added, the traversal order of `infer`, the order in which operands are visited
one by one and the choice between `infer` and hand-made node-level calls all only change *which
list over `A`* is executed, so "for every two lists over `A`" covers them all.

* "until nothing changes": the end state is left unchanged by every step of `A`
  (`hfix`). Quiescence is judged on the state, not on reported amounts.
* "does not lead to a contradiction": in the end state no node of a step of `A` is arrested
  (`hfree`), i.e. neither the node nor an operand is contradictory.

Full strength: every knowledge base (any shape, shared sub-formulae, cycles), all five node kinds,
every non-negative weights, every bias, every `alpha ≤ 1` (for the persistence of contradictions
every alpha whatsoever), both activation variants, every initial state with bounds in `[0,1]`.
-/
import LnnVerif.Lemmas.Mono
import Mathlib.Algebra.Order.Field.Rat

namespace LNN

open Mono

variable {ι : Type} [DecidableEq ι] {α : Type} [Field α] [LinearOrder α] [IsStrictOrderedRing α]

/-- **Least fixpoint.** Let `T` be any state with bounds in `[0,1]` that is at least as tight as
the initial state, that no step of `A` changes and in which no step of `A` is arrested. Then *every*
schedule over `A` — exhaustive or not, arrested on the way or not — stays below `T`: inference never
derives more than `T`. -/
theorem C07_run_le_fixpoint (kb : KB ι α) (hwf : WF kb) (A : Step ι → Prop)
    (T : State ι α) (hT : UnitState T)
    (hfix : ∀ st, A st → (runStep kb st T).1 = T)
    (hfree : ∀ st, A st → arrested kb T (node st) = false)
    (s0 : State ι α) (h0 : UnitState s0) (h0T : Le s0 T)
    (l : List (Step ι)) (hl : ∀ st ∈ l, A st) :
    Le (runSteps kb l s0).1 T := by
  rw [runSteps_fst]
  refine Chaotic.run_le_fix Le UnitState A (ustep kb) _ (runStep_cases kb)
    (fun st s _ hs => ustep_unit kb st hs) (fun st s t _ _ _ h => ustep_mono kb hwf st h)
    T hT ?_ l hl s0 h0 h0T
  intro st hst
  rw [← runStep_of_free kb st T (hfree st hst)]
  exact hfix st hst

/-- One exhaustive, contradiction-free schedule dominates every other schedule from the same
initial state. -/
theorem C07_run_le_run (kb : KB ι α) (hwf : WF kb) (A : Step ι → Prop)
    (s0 : State ι α) (h0 : UnitState s0)
    (l₁ l₂ : List (Step ι)) (hl₂ : ∀ st ∈ l₂, A st)
    (hfix₁ : ∀ st, A st → (runStep kb st (runSteps kb l₁ s0).1).1 = (runSteps kb l₁ s0).1)
    (hfree₁ : ∀ st, A st → arrested kb (runSteps kb l₁ s0).1 (node st) = false) :
    Le (runSteps kb l₂ s0).1 (runSteps kb l₁ s0).1 :=
  C07_run_le_fixpoint kb hwf A _ (runSteps_unit kb l₁ h0) hfix₁ hfree₁ s0 h0
    (runSteps_infl kb l₁ h0) l₂ hl₂

/-- **C07, confluence.** Two schedules over the same admissible steps, from the same initial state,
that both run until nothing changes and both end without an arrested node, end in *the same
state*. -/
theorem C07_confluent (kb : KB ι α) (hwf : WF kb) (A : Step ι → Prop)
    (s0 : State ι α) (h0 : UnitState s0)
    (l₁ l₂ : List (Step ι)) (hl₁ : ∀ st ∈ l₁, A st) (hl₂ : ∀ st ∈ l₂, A st)
    (hfix₁ : ∀ st, A st → (runStep kb st (runSteps kb l₁ s0).1).1 = (runSteps kb l₁ s0).1)
    (hfix₂ : ∀ st, A st → (runStep kb st (runSteps kb l₂ s0).1).1 = (runSteps kb l₂ s0).1)
    (hfree₁ : ∀ st, A st → arrested kb (runSteps kb l₁ s0).1 (node st) = false)
    (hfree₂ : ∀ st, A st → arrested kb (runSteps kb l₂ s0).1 (node st) = false) :
    (runSteps kb l₁ s0).1 = (runSteps kb l₂ s0).1 :=
  Le.antisymm
    (C07_run_le_run kb hwf A s0 h0 l₂ l₁ hl₁ hfix₂ hfree₂)
    (C07_run_le_run kb hwf A s0 h0 l₁ l₂ hl₂ hfix₁ hfree₁)

/-- **C07, contradictions.** If one schedule runs until nothing changes and ends without an
arrested node, then no schedule over the same steps — exhaustive or not — ever shows a
contradiction, at any node and under any alpha, that the first one does not show in its end state.
Contrapositive: a contradiction met by some schedule is present at the end of every exhaustive
schedule (which therefore cannot end contradiction-free). -/
theorem C07_contradiction_invariant (kb : KB ι α) (hwf : WF kb) (A : Step ι → Prop)
    (s0 : State ι α) (h0 : UnitState s0)
    (l₁ l₂ : List (Step ι)) (hl₂ : ∀ st ∈ l₂, A st)
    (hfix₁ : ∀ st, A st → (runStep kb st (runSteps kb l₁ s0).1).1 = (runSteps kb l₁ s0).1)
    (hfree₁ : ∀ st, A st → arrested kb (runSteps kb l₁ s0).1 (node st) = false) :
    Le (runSteps kb l₂ s0).1 (runSteps kb l₁ s0).1 ∧
    (∀ a j, isContra a ((runSteps kb l₁ s0).1 j) = false →
      isContra a ((runSteps kb l₂ s0).1 j) = false) ∧
    (∀ i, arrested kb (runSteps kb l₁ s0).1 i = false →
      arrested kb (runSteps kb l₂ s0).1 i = false) ∧
    (∀ nodes, hasContra kb nodes (runSteps kb l₁ s0).1 = false →
      hasContra kb nodes (runSteps kb l₂ s0).1 = false) := by
  have hle := C07_run_le_run kb hwf A s0 h0 l₁ l₂ hl₂ hfix₁ hfree₁
  refine ⟨hle, fun a j h => isContra_false_of_le a (hle j) h,
    fun i h => arrested_false_of_le kb i hle h, ?_⟩
  intro nodes h
  unfold hasContra at h ⊢
  rw [List.any_eq_false] at h ⊢
  intro i hi
  have := h i hi
  simp only [Bool.not_eq_true] at this ⊢
  exact isContra_false_of_le _ (hle i) this

/-- **C07, whether a contradiction is found does not depend on the order.** For two schedules that
both run until nothing changes: one ends with some admissible step arrested by a contradiction if
and only if the other does. -/
theorem C07_contradiction_iff (kb : KB ι α) (hwf : WF kb) (A : Step ι → Prop)
    (s0 : State ι α) (h0 : UnitState s0)
    (l₁ l₂ : List (Step ι)) (hl₁ : ∀ st ∈ l₁, A st) (hl₂ : ∀ st ∈ l₂, A st)
    (hfix₁ : ∀ st, A st → (runStep kb st (runSteps kb l₁ s0).1).1 = (runSteps kb l₁ s0).1)
    (hfix₂ : ∀ st, A st → (runStep kb st (runSteps kb l₂ s0).1).1 = (runSteps kb l₂ s0).1) :
    (∃ st, A st ∧ arrested kb (runSteps kb l₁ s0).1 (node st) = true) ↔
    (∃ st, A st ∧ arrested kb (runSteps kb l₂ s0).1 (node st) = true) := by
  have key : ∀ (l l' : List (Step ι)), (∀ st ∈ l, A st) →
      (∀ st, A st → (runStep kb st (runSteps kb l' s0).1).1 = (runSteps kb l' s0).1) →
      (∃ st, A st ∧ arrested kb (runSteps kb l s0).1 (node st) = true) →
      (∃ st, A st ∧ arrested kb (runSteps kb l' s0).1 (node st) = true) := by
    intro l l' hl hfix' ⟨st, hst, harr⟩
    by_contra hno
    have hfree' : ∀ st, A st → arrested kb (runSteps kb l' s0).1 (node st) = false := by
      intro st' hst'
      cases h : arrested kb (runSteps kb l' s0).1 (node st') with
      | false => rfl
      | true => exact absurd ⟨st', hst', h⟩ hno
    have hle := C07_run_le_run kb hwf A s0 h0 l' l hl hfix' hfree'
    have := arrested_mono kb (node st) hle harr
    rw [hfree' st hst] at this
    exact absurd this (by simp)
  exact ⟨key l₁ l₂ hl₁ hfix₂, key l₂ l₁ hl₂ hfix₁⟩

/-- Crossed bounds are the only source of contradictions: a version of the confluence theorem whose
"no contradiction" hypothesis is simply that no bounds are crossed in the two end states. -/
theorem C07_confluent_uncrossed (kb : KB ι α) (hwf : WF kb) (A : Step ι → Prop)
    (s0 : State ι α) (h0 : UnitState s0)
    (l₁ l₂ : List (Step ι)) (hl₁ : ∀ st ∈ l₁, A st) (hl₂ : ∀ st ∈ l₂, A st)
    (hfix₁ : ∀ st, A st → (runStep kb st (runSteps kb l₁ s0).1).1 = (runSteps kb l₁ s0).1)
    (hfix₂ : ∀ st, A st → (runStep kb st (runSteps kb l₂ s0).1).1 = (runSteps kb l₂ s0).1)
    (hok₁ : ∀ j, ((runSteps kb l₁ s0).1 j).lo ≤ ((runSteps kb l₁ s0).1 j).hi)
    (hok₂ : ∀ j, ((runSteps kb l₂ s0).1 j).lo ≤ ((runSteps kb l₂ s0).1 j).hi) :
    (runSteps kb l₁ s0).1 = (runSteps kb l₂ s0).1 :=
  C07_confluent kb hwf A s0 h0 l₁ l₂ hl₁ hl₂ hfix₁ hfix₂
    (fun st _ => arrested_false_of_uncrossed kb (node st) hok₁)
    (fun st _ => arrested_false_of_uncrossed kb (node st) hok₂)

/-- **C07, `infer` against any interleaving of node-level calls.** An `infer` run with threshold
`0` that reports convergence and ends without an arrested node reaches exactly the state reached by
*any* schedule of the same primitive steps (any order, any repetition, operands visited one by one
or together) that was continued until nothing changes and ends without an arrested node. -/
theorem C07_infer_vs_schedule (kb : KB ι α) (hwf : WF kb) (cfg : InferCfg ι α) (heps : cfg.eps ≤ 0)
    (fuel : Nat) (s0 : State ι α) (h0 : UnitState s0)
    (hconv : (infer kb cfg fuel s0).converged = true)
    (hfreeI : ∀ st ∈ sweepSteps kb cfg,
      arrested kb (infer kb cfg fuel s0).state (node st) = false)
    (l : List (Step ι)) (hl : ∀ st ∈ l, st ∈ sweepSteps kb cfg)
    (hfix : ∀ st ∈ sweepSteps kb cfg, (runStep kb st (runSteps kb l s0).1).1 = (runSteps kb l s0).1)
    (hfree : ∀ st ∈ sweepSteps kb cfg, arrested kb (runSteps kb l s0).1 (node st) = false) :
    (infer kb cfg fuel s0).state = (runSteps kb l s0).1 := by
  have hfixI := infer_converged_fix kb cfg heps fuel s0 hconv
  obtain ⟨k, hk⟩ := infer_state_eq_run kb cfg fuel s0
  rw [hk] at hfixI hfreeI ⊢
  refine C07_confluent kb hwf (fun st => st ∈ sweepSteps kb cfg) s0 h0 _ l ?_ hl hfixI hfix
    hfreeI hfree
  intro st hst
  obtain ⟨l', hl', hm⟩ := List.mem_flatten.mp hst
  rw [List.eq_of_mem_replicate hl'] at hm
  exact hm

/-- Two `infer` runs with different sweep schedules over the same primitive steps (e.g. after the
root formulae were added in a different order), both with threshold `0`, both converged and
contradiction-free, return the same bounds. -/
theorem C07_infer_vs_infer (kb : KB ι α) (hwf : WF kb) (cfg₁ cfg₂ : InferCfg ι α)
    (heps₁ : cfg₁.eps ≤ 0) (heps₂ : cfg₂.eps ≤ 0)
    (hsame : ∀ st, st ∈ sweepSteps kb cfg₁ ↔ st ∈ sweepSteps kb cfg₂)
    (fuel₁ fuel₂ : Nat) (s0 : State ι α) (h0 : UnitState s0)
    (hconv₁ : (infer kb cfg₁ fuel₁ s0).converged = true)
    (hconv₂ : (infer kb cfg₂ fuel₂ s0).converged = true)
    (hfree₁ : ∀ st ∈ sweepSteps kb cfg₁,
      arrested kb (infer kb cfg₁ fuel₁ s0).state (node st) = false)
    (hfree₂ : ∀ st ∈ sweepSteps kb cfg₂,
      arrested kb (infer kb cfg₂ fuel₂ s0).state (node st) = false) :
    (infer kb cfg₁ fuel₁ s0).state = (infer kb cfg₂ fuel₂ s0).state := by
  have hfix₂ := infer_converged_fix kb cfg₂ heps₂ fuel₂ s0 hconv₂
  obtain ⟨k, hk⟩ := infer_state_eq_run kb cfg₂ fuel₂ s0
  rw [hk] at hfix₂ hfree₂ ⊢
  refine C07_infer_vs_schedule kb hwf cfg₁ heps₁ fuel₁ s0 h0 hconv₁ hfree₁ _ ?_
    (fun st hst => hfix₂ st ((hsame st).mp hst)) (fun st hst => hfree₂ st ((hsame st).mp hst))
  intro st hst
  obtain ⟨l', hl', hm⟩ := List.mem_flatten.mp hst
  rw [List.eq_of_mem_replicate hl'] at hm
  exact (hsame st).mpr hm

/-! ### non-vacuity

A concrete weighted knowledge base over `ℚ`: atoms `0`, `1`; node `2 = And(0, 1)` with weights
`(1, 2)`, bias `1`; node `3 = Not(1)`; alpha `3/4` everywhere. All hypotheses of the theorems are
met by concrete schedules that differ in order, in repetition and in visiting operands one by one
or together, and by a concrete `infer` run; before quiescence the order *does* matter; and on
contradictory data the end states of two exhaustive schedules really differ (so the
"no contradiction" hypothesis of `C07_confluent` cannot be dropped) while both are arrested. -/

namespace C07ex

def kb : KB Nat ℚ := fun i =>
  match i with
  | 2 => { kind := .and, ops := [0, 1], ws := [1, 2], bias := 1, alpha := 3/4 }
  | 3 => { kind := .neg, ops := [1], bias := 1, alpha := 3/4 }
  | _ => { kind := .atom, bias := 1, alpha := 3/4 }

/-- initial state: `0` is true, the conjunction is at least `1/2` -/
def S0 : State Nat ℚ := fun i =>
  if i = 0 then ⟨1, 1⟩ else if i = 2 then ⟨1/2, 1⟩ else ⟨0, 1⟩

/-- after the downward step of the conjunction -/
def S1 : State Nat ℚ := fun i =>
  if i = 0 then ⟨1, 1⟩ else if i = 1 then ⟨3/4, 1⟩ else if i = 2 then ⟨1/2, 1⟩ else ⟨0, 1⟩

/-- the common end state -/
def T : State Nat ℚ := fun i =>
  if i = 0 then ⟨1, 1⟩ else if i = 1 then ⟨3/4, 1⟩ else if i = 2 then ⟨1/2, 1⟩
  else if i = 3 then ⟨0, 1/4⟩ else ⟨0, 1⟩

/-- contradictory data: the conjunction is true, operand `0` is false -/
def C0 : State Nat ℚ := fun i =>
  if i = 0 then ⟨0, 0⟩ else if i = 2 then ⟨1, 1⟩ else ⟨0, 1⟩

def CA1 : State Nat ℚ := fun i =>
  if i = 0 then ⟨1, 0⟩ else if i = 1 then ⟨1, 1⟩ else if i = 2 then ⟨1, 1⟩ else ⟨0, 1⟩

/-- end state on the contradictory data when the conjunction is first run downward -/
def CA : State Nat ℚ := fun i =>
  if i = 0 then ⟨1, 0⟩ else if i = 1 then ⟨1, 1⟩ else if i = 2 then ⟨1, 1⟩
  else if i = 3 then ⟨0, 0⟩ else ⟨0, 1⟩

/-- end state on the contradictory data when the conjunction is first run upward -/
def CB : State Nat ℚ := fun i =>
  if i = 0 then ⟨0, 0⟩ else if i = 2 then ⟨1, 0⟩ else ⟨0, 1⟩

/-- the admissible steps: everything the two connectives can do, operands together or one by one -/
def steps : List (Step Nat) :=
  [.up 2, .down 2 none, .down 2 (some 0), .down 2 (some 1), .up 3, .down 3 none]

def L1 : List (Step Nat) := [.down 2 none, .up 3]
def L2 : List (Step Nat) :=
  [.up 3, .up 2, .down 2 (some 0), .down 2 (some 1), .down 3 none, .up 3]
def L3 : List (Step Nat) := [.up 3, .down 2 none, .down 3 none, .up 2, .up 3]

theorem wf : WF kb := by
  intro i
  unfold kb
  split <;> simp <;> norm_num

theorem unit0 : UnitState S0 := by
  intro i
  unfold S0 UnitB
  split_ifs <;> norm_num

theorem unitC : UnitState C0 := by
  intro i
  unfold C0 UnitB
  split_ifs <;> norm_num

/-- evaluate the state component of one step at one node -/
local macro "c07_eval" : tactic => `(tactic|
  (simp [runStep, stepDown, stepUp, kb, S0, S1, T, C0, CA1, CA, CB, arrested, isContra, region,
      actDown, actUp, andDown, andUp, opds, writeOps, enumFrom, aggregate_both, clamp01, termHi,
      termLo, sumW, negB, Function.update] <;>
   norm_num [runStep, stepDown, stepUp, kb, S0, S1, T, C0, CA1, CA, CB, arrested, isContra, region,
      actDown, actUp, andDown, andUp, opds, writeOps, enumFrom, aggregate_both, clamp01, termHi,
      termLo, sumW, negB, Function.update]))

/-- evaluate the state component of one step -/
local macro "c07_step" : tactic => `(tactic|
  (funext i
   match i with
   | 0 => c07_eval
   | 1 => c07_eval
   | 2 => c07_eval
   | 3 => c07_eval
   | (n + 4) => c07_eval <;> simp))

/-- evaluate the amount reported by one step -/
local macro "c07_amt" : tactic => `(tactic|
  (simp [runStep, stepDown, stepUp, kb, S0, S1, T, arrested, isContra, region, actDown, actUp,
      andDown, andUp, opds, writeOps, enumFrom, aggregate, clamp01, termHi, termLo, sumW, negB,
      Function.update] <;>
   norm_num [runStep, stepDown, stepUp, kb, S0, S1, T, arrested, isContra, region, actDown, actUp,
      andDown, andUp, opds, writeOps, enumFrom, aggregate, clamp01, termHi, termLo, sumW, negB,
      Function.update]))

theorem s_a : (runStep kb (.down 2 none) S0).1 = S1 := by c07_step
theorem s_b : (runStep kb (.up 3) S1).1 = T := by c07_step
theorem s_c : (runStep kb (.up 3) S0).1 = S0 := by c07_step
theorem s_d : (runStep kb (.up 2) S0).1 = S0 := by c07_step
theorem s_e : (runStep kb (.down 2 (some 0)) S0).1 = S0 := by c07_step
theorem s_f : (runStep kb (.down 2 (some 1)) S0).1 = S1 := by c07_step
theorem s_g : (runStep kb (.down 3 none) S1).1 = S1 := by c07_step
theorem s_h : (runStep kb (.up 2) S1).1 = S1 := by c07_step

theorem run1 : (runSteps kb L1 S0).1 = T := by
  simp only [L1, runSteps, s_a, s_b]

theorem run2 : (runSteps kb L2 S0).1 = T := by
  simp only [L2, runSteps, s_c, s_d, s_e, s_f, s_g, s_b]

theorem run3 : (runSteps kb L3 S0).1 = T := by
  simp only [L3, runSteps, s_c, s_a, s_g, s_h, s_b]

theorem fix1 : (runStep kb (.up 2) T).1 = T := by c07_step
theorem fix2 : (runStep kb (.down 2 none) T).1 = T := by c07_step
theorem fix3 : (runStep kb (.down 2 (some 0)) T).1 = T := by c07_step
theorem fix4 : (runStep kb (.down 2 (some 1)) T).1 = T := by c07_step
theorem fix5 : (runStep kb (.up 3) T).1 = T := by c07_step
theorem fix6 : (runStep kb (.down 3 none) T).1 = T := by c07_step

/-- nothing changes any more in `T` -/
theorem fixT : ∀ st, st ∈ steps → (runStep kb st T).1 = T := by
  simp only [steps, List.mem_cons, List.not_mem_nil, or_false, forall_eq_or_imp, forall_eq]
  exact ⟨fix1, fix2, fix3, fix4, fix5, fix6⟩

/-- no node is arrested in `T` -/
theorem freeT : ∀ st, st ∈ steps → arrested kb T (node st) = false := by
  simp only [steps, List.mem_cons, List.not_mem_nil, or_false, forall_eq_or_imp, forall_eq]
  norm_num [node, arrested, isContra, kb, T, region]

/-- `L1` and `L2` differ in order, repetition and in visiting the operands of the conjunction one by
one; every hypothesis of `C07_confluent` holds for them -/
example : (runSteps kb L1 S0).1 = (runSteps kb L2 S0).1 :=
  C07_confluent kb wf (· ∈ steps) S0 unit0 L1 L2
    (by simp [L1, steps]) (by simp [L2, steps])
    (by rw [run1]; exact fixT) (by rw [run2]; exact fixT)
    (by rw [run1]; exact freeT) (by rw [run2]; exact freeT)

/-- the common end state really is tighter than the initial one -/
example : (runSteps kb L1 S0).1 1 = ⟨3/4, 1⟩ ∧ (runSteps kb L1 S0).1 3 = ⟨0, 1/4⟩ := by
  rw [run1]; norm_num [T]

/-- before quiescence the order does matter -/
example : (runSteps kb [.up 3, .down 2 none] S0).1 3 = ⟨0, 1⟩ ∧
    (runSteps kb [.down 2 none, .up 3] S0).1 3 = ⟨0, 1/4⟩ := by
  simp only [runSteps, s_c, s_a, s_b]
  norm_num [S1, T]

/-! `infer` on the example -/

def cfg : InferCfg Nat ℚ :=
  { up := [.up 2, .up 3], down := [.down 2 none, .down 3 none], eps := 0 }

theorem passUp : passSteps kb cfg.up = [.up 2, .up 3] := by
  simp [passSteps, Call.steps, callUp, kb, cfg]

theorem passDown : passSteps kb cfg.down = [.down 2 none, .down 3 none] := by
  simp [passSteps, Call.steps, callDown, kb, cfg]

theorem sweepSteps_eq : sweepSteps kb cfg = [.up 2, .up 3, .down 2 none, .down 3 none] := by
  simp [sweepSteps, passUp, passDown]

theorem a_a : (runStep kb (.up 2) S0).2 = 0 := by c07_amt
theorem a_b : (runStep kb (.up 3) S0).2 = 0 := by c07_amt
theorem a_c : (runStep kb (.down 2 none) S0).2 = 3/4 := by c07_amt
theorem a_d : (runStep kb (.down 3 none) S1).2 = 0 := by c07_amt
theorem a_e : (runStep kb (.up 2) S1).2 = 0 := by c07_amt
theorem a_f : (runStep kb (.up 3) S1).2 = 3/4 := by c07_amt
theorem a_g : (runStep kb (.down 2 none) T).2 = 0 := by c07_amt
theorem a_h : (runStep kb (.down 3 none) T).2 = 0 := by c07_amt
theorem a_i : (runStep kb (.up 2) T).2 = 0 := by c07_amt
theorem a_j : (runStep kb (.up 3) T).2 = 0 := by c07_amt

theorem sweep0 : sweep kb cfg S0 = (S1, 3/4) := by
  simp only [sweep, runPass, passUp, passDown, runSteps, s_d, s_c, s_a, s_g, a_a, a_b, a_c, a_d]
  norm_num

theorem sweep1 : sweep kb cfg S1 = (T, 3/4) := by
  simp only [sweep, runPass, passUp, passDown, runSteps, s_h, s_b, fix2, fix6, a_e, a_f, a_g, a_h]
  norm_num

theorem sweep2 : sweep kb cfg T = (T, 0) := by
  simp only [sweep, runPass, passUp, passDown, runSteps, fix1, fix5, fix2, fix6, a_i, a_j, a_g, a_h]
  norm_num

/-- `infer` needs three sweeps, reports convergence and ends in `T` -/
theorem infer_eq : (infer kb cfg 5 S0).state = T ∧
    (infer kb cfg 5 S0).converged = true ∧ (infer kb cfg 5 S0).steps = 3 := by
  have hq : ∀ s, queryStop cfg s = false := fun s => rfl
  have e : cfg.eps = 0 := rfl
  simp only [infer, hq, sweep0, sweep1, sweep2, e]
  norm_num

/-- every hypothesis of `C07_infer_vs_schedule` holds for this `infer` run and the hand-made
schedule `L3` of node-level calls (a different order from the sweeps of `infer`) -/
example : (infer kb cfg 5 S0).state = (runSteps kb L3 S0).1 :=
  C07_infer_vs_schedule kb wf cfg (le_of_eq rfl) 5 S0 unit0 infer_eq.2.1
    (by rw [infer_eq.1, sweepSteps_eq]; intro st hst; exact freeT st (by revert hst; simp [steps]; tauto))
    L3 (by rw [sweepSteps_eq]; simp [L3])
    (by rw [run3, sweepSteps_eq]; intro st hst; exact fixT st (by revert hst; simp [steps]; tauto))
    (by rw [run3, sweepSteps_eq]; intro st hst; exact freeT st (by revert hst; simp [steps]; tauto))

/-! contradictory data -/

def LA : List (Step Nat) := [.down 2 none, .up 3]
def LB : List (Step Nat) := [.up 2, .up 3]

theorem c_a : (runStep kb (.down 2 none) C0).1 = CA1 := by c07_step
theorem c_b : (runStep kb (.up 3) CA1).1 = CA := by c07_step
theorem c_c : (runStep kb (.up 2) C0).1 = CB := by c07_step

theorem runA : (runSteps kb LA C0).1 = CA := by
  simp only [LA, runSteps, c_a, c_b]

theorem fixA1 : (runStep kb (.up 2) CA).1 = CA := by c07_step
theorem fixA2 : (runStep kb (.down 2 none) CA).1 = CA := by c07_step
theorem fixA3 : (runStep kb (.down 2 (some 0)) CA).1 = CA := by c07_step
theorem fixA4 : (runStep kb (.down 2 (some 1)) CA).1 = CA := by c07_step
theorem fixA5 : (runStep kb (.up 3) CA).1 = CA := by c07_step
theorem fixA6 : (runStep kb (.down 3 none) CA).1 = CA := by c07_step

theorem fixB1 : (runStep kb (.up 2) CB).1 = CB := by c07_step
theorem fixB2 : (runStep kb (.down 2 none) CB).1 = CB := by c07_step
theorem fixB3 : (runStep kb (.down 2 (some 0)) CB).1 = CB := by c07_step
theorem fixB4 : (runStep kb (.down 2 (some 1)) CB).1 = CB := by c07_step
theorem fixB5 : (runStep kb (.up 3) CB).1 = CB := by c07_step
theorem fixB6 : (runStep kb (.down 3 none) CB).1 = CB := by c07_step

theorem runB : (runSteps kb LB C0).1 = CB := by
  simp only [LB, runSteps, c_c, fixB5]

theorem fixCA : ∀ st, st ∈ steps → (runStep kb st CA).1 = CA := by
  simp only [steps, List.mem_cons, List.not_mem_nil, or_false, forall_eq_or_imp, forall_eq]
  exact ⟨fixA1, fixA2, fixA3, fixA4, fixA5, fixA6⟩

theorem fixCB : ∀ st, st ∈ steps → (runStep kb st CB).1 = CB := by
  simp only [steps, List.mem_cons, List.not_mem_nil, or_false, forall_eq_or_imp, forall_eq]
  exact ⟨fixB1, fixB2, fixB3, fixB4, fixB5, fixB6⟩

/-- every hypothesis of `C07_contradiction_iff` holds for the two exhaustive schedules on the
contradictory data -/
example : (∃ st, st ∈ steps ∧ arrested kb (runSteps kb LA C0).1 (node st) = true) ↔
    (∃ st, st ∈ steps ∧ arrested kb (runSteps kb LB C0).1 (node st) = true) :=
  C07_contradiction_iff kb wf (· ∈ steps) C0 unitC LA LB
    (by simp [LA, steps]) (by simp [LB, steps])
    (by rw [runA]; exact fixCA) (by rw [runB]; exact fixCB)

/-- both schedules end with the conjunction arrested, but in different states: with a contradiction
the bounds do depend on the order, only the fact that there is one does not -/
example : arrested kb (runSteps kb LA C0).1 2 = true ∧ arrested kb (runSteps kb LB C0).1 2 = true ∧
    (runSteps kb LA C0).1 1 = ⟨1, 1⟩ ∧ (runSteps kb LB C0).1 1 = ⟨0, 1⟩ := by
  rw [runA, runB]
  norm_num [arrested, isContra, kb, CA, CB, region]

end C07ex

end LNN
