/-
C04 — Point inputs evaluate to the weighted Łukasiewicz truth function; `{0,1}` inputs reproduce
the classical truth tables, `{FALSE, UNKNOWN, TRUE}` inputs the strong Kleene tables, for nested
formulae of all kinds (Iff and exactly-one XOr are And-nodes over generated inner nodes, so they are
ordinary knowledge bases); logically dual formulations give identical bounds upward and downward.

Contents
  §4  dualities               `C04_dual_*`, `C04_negB_negB`, `C04_neg_neg`      (all intervals, all weights)
  §2  classical tables        `C04_classical_*`                                 (any arity, XOr any n)
  §3  strong Kleene tables    `C04_kleene_*`, `C04_aggregate_unknown`, `C04_stepUp_unknown`
  §1  point evaluation        `C04_point`, `C04_point_gen`, `C04_point_call`, `C04_point_local`
  non-vacuity examples over ℚ (weighted nested formula, Iff and XOr through the public call,
  a three-valued engine run, the tables on concrete lists, a counterexample for negative weights)
-/
import LnnVerif.Lemmas.Truth
import Mathlib.Algebra.Order.Field.Rat
import Mathlib.Tactic.NormNum

set_option linter.unusedSectionVars false

namespace LNN

variable {ι : Type} [DecidableEq ι] {α : Type} [Field α] [LinearOrder α] [IsStrictOrderedRing α]

/-! ## §4 Dualities — for all interval inputs, all weights and biases -/

theorem C04_negB_negB (b : Bounds α) : negB (negB b) = b := negB_negB b

theorem C04_neg_neg (o : Opd α) : o.neg.neg = o := Opd.neg_neg o

/-- Or upward = negated And upward of the negated operands. The plain Łukasiewicz activation
(`t = false`) needs no hypothesis at all. -/
theorem C04_dual_or_up_plain (b : α) (ops : List (Opd α)) :
    orUp false b ops = negB (andUp b (ops.map Opd.neg)) := orUp_false_eq b ops

/-- Or upward = negated And upward of the negated operands, for both activation variants, when
the weights are non-negative (the transparent variant differs for negative weights, see the
counterexample at the end of the file). -/
theorem C04_dual_or_up (t : Bool) (b : α) (ops : List (Opd α)) (h : ∀ o ∈ ops, 0 ≤ o.w) :
    orUp t b ops = negB (andUp b (ops.map Opd.neg)) := by
  cases t with
  | false => exact orUp_false_eq b ops
  | true => rw [orUp_variant_eq b ops h]; exact orUp_false_eq b ops

/-- Or downward = And downward on the negated operator bounds and negated operands, negated back. -/
theorem C04_dual_or_down (b a L U : α) (ops : List (Opd α)) :
    orDown b a L U ops = (andDown b a (1 - U) (1 - L) (ops.map Opd.neg)).map negB := rfl

/-- And downward = Or downward on the negated operator bounds and negated operands, negated back
(the converse reading of the same duality). -/
theorem C04_dual_and_down (b a L U : α) (ops : List (Opd α)) :
    andDown b a L U ops = (orDown b a (1 - U) (1 - L) (ops.map Opd.neg)).map negB := by
  unfold orDown
  rw [map_neg_neg, List.map_map]
  have : (negB ∘ negB : Bounds α → Bounds α) = id := by funext p; simp [negB_negB]
  rw [this, List.map_id]
  simp

/-- Implies upward = Or upward with a negated antecedent. -/
theorem C04_dual_implies_up (b : α) (x y : Opd α) :
    impliesUp b [x, y] = orUp false b [x.neg, y] := by
  unfold impliesUp orUp
  simp only [Bool.false_eq_true, if_false, List.map_cons, List.map_nil, List.sum_cons, List.sum_nil,
    Opd.neg]
  congr 2 <;> ring

/-- the same against either Or variant, for non-negative weights -/
theorem C04_dual_implies_up' (t : Bool) (b : α) (x y : Opd α) (hx : 0 ≤ x.w) (hy : 0 ≤ y.w) :
    impliesUp b [x, y] = orUp t b [x.neg, y] := by
  rw [C04_dual_implies_up]
  cases t with
  | false => rfl
  | true =>
    rw [orUp_variant_eq]
    intro o ho
    simp only [List.mem_cons, List.not_mem_nil, or_false] at ho
    rcases ho with rfl | rfl
    · exact hx
    · exact hy

/-- Implies downward = Or downward with a negated antecedent: the proposal for `x` obtained as a
proposal for `¬x` and negated back is the one Implies computes, the proposals for `y` coincide. -/
theorem C04_dual_implies_down (b a L U : α) (x y : Opd α) :
    impliesDown b a L U [x, y] =
      (match orDown b a L U [x.neg, y] with
        | [px, py] => [negB px, py]
        | r => r) := by
  unfold impliesDown orDown
  simp only [List.map_cons, List.map_nil, Opd.neg_neg]
  have hlen : (andDown b a (1 - U) (1 - L) [x, y.neg]).length = 2 := by
    unfold andDown; simp
  match hm : andDown b a (1 - U) (1 - L) [x, y.neg], hlen with
  | [px, py], _ => simp [negB_negB]

/-! ## §2 Classical truth tables — unit weights, bias 1 -/

/-- And with unit weights and bias 1: `clamp(1 - Σ (1 - xᵢ))` -/
def andVal1 (xs : List α) : α := clamp01 (1 - (xs.map (1 - ·)).sum)
/-- Or with unit weights and bias 1: `clamp(Σ xᵢ)` -/
def orVal1 (xs : List α) : α := clamp01 xs.sum
/-- Implies with unit weights and bias 1: `clamp(1 - x + y)` -/
def impVal1 (x y : α) : α := clamp01 (1 - x + y)
/-- Not -/
def notVal (x : α) : α := 1 - x
/-- Iff as the implementation builds it: And over the two generated implications -/
def iffVal (x y : α) : α := andVal1 [impVal1 x y, impVal1 y x]

/-- all unordered pairs in list order (`itertools.combinations(xs, 2)`) -/
def pairs {β : Type} : List β → List (β × β)
  | [] => []
  | x :: xs => xs.map (fun y => (x, y)) ++ pairs xs

/-- exactly-one XOr as the implementation builds it: And over the negated pairwise conjunctions and
the disjunction of all operands -/
def xorVal (xs : List α) : α :=
  andVal1 ((pairs xs).map (fun p => notVal (andVal1 [p.1, p.2])) ++ [orVal1 xs])

/-- n-ary classical And, any arity -/
theorem C04_classical_and (xs : List α) (h : ∀ x ∈ xs, x = 0 ∨ x = 1) :
    andVal1 xs = if ∀ x ∈ xs, x = 1 then 1 else 0 := by
  have h' : ∀ y ∈ xs.map (1 - ·), y = 0 ∨ y = 1 := by
    intro y hy
    obtain ⟨x, hx, rfl⟩ := List.mem_map.mp hy
    rcases h x hx with rfl | rfl <;> simp
  unfold andVal1
  split
  next hall =>
    rw [sum_all_zero]
    · exact clamp01_of_one_le (by simp)
    · intro y hy
      obtain ⟨x, hx, rfl⟩ := List.mem_map.mp hy
      rw [hall x hx]; simp
  next hn =>
    have hex : ∃ y ∈ xs.map (1 - ·), y = 1 := by
      by_contra hc
      apply hn
      intro x hx
      rcases h x hx with rfl | rfl
      · exact absurd ⟨1 - 0, List.mem_map.mpr ⟨0, hx, rfl⟩, by simp⟩ hc
      · rfl
    have := sum01_one_le _ h' hex
    exact clamp01_of_nonpos (by linarith)

/-- n-ary classical Or, any arity -/
theorem C04_classical_or (xs : List α) (h : ∀ x ∈ xs, x = 0 ∨ x = 1) :
    orVal1 xs = if ∃ x ∈ xs, x = 1 then 1 else 0 := by
  unfold orVal1
  split
  next hex => exact clamp01_of_one_le (sum01_one_le xs h hex)
  next hn =>
    rw [sum_all_zero]
    · exact clamp01_of_nonpos le_rfl
    · intro x hx
      rcases h x hx with h0 | h1
      · exact h0
      · exact absurd ⟨x, hx, h1⟩ hn

theorem C04_classical_implies (x y : α) (hx : x = 0 ∨ x = 1) (hy : y = 0 ∨ y = 1) :
    impVal1 x y = if x = 1 ∧ y = 0 then 0 else 1 := by
  rcases hx with rfl | rfl <;> rcases hy with rfl | rfl <;> norm_num [impVal1, clamp01]

theorem C04_classical_not (x : α) (hx : x = 0 ∨ x = 1) :
    notVal x = if x = 1 then 0 else 1 := by
  rcases hx with rfl | rfl <;> norm_num [notVal]

theorem C04_classical_iff (x y : α) (hx : x = 0 ∨ x = 1) (hy : y = 0 ∨ y = 1) :
    iffVal x y = if x = y then 1 else 0 := by
  rcases hx with rfl | rfl <;> rcases hy with rfl | rfl <;>
    norm_num [iffVal, andVal1, impVal1, clamp01]

/-- the truth functions keep `{0,1}` (so the tables compose through nested formulae) -/
theorem C04_classical_closed (xs : List α) (h : ∀ x ∈ xs, x = 0 ∨ x = 1) :
    (andVal1 xs = 0 ∨ andVal1 xs = 1) ∧ (orVal1 xs = 0 ∨ orVal1 xs = 1) := by
  rw [C04_classical_and xs h, C04_classical_or xs h]
  constructor <;> split <;> simp

/-! auxiliary facts about `pairs` -/

theorem mem_pairs {β : Type} {xs : List β} {p : β × β} (h : p ∈ pairs xs) : p.1 ∈ xs ∧ p.2 ∈ xs := by
  induction xs with
  | nil => simp [pairs] at h
  | cons x xs ih =>
    simp only [pairs, List.mem_append, List.mem_map] at h
    rcases h with ⟨y, hy, rfl⟩ | h
    · exact ⟨List.mem_cons_self .., List.mem_cons_of_mem _ hy⟩
    · exact ⟨List.mem_cons_of_mem _ (ih h).1, List.mem_cons_of_mem _ (ih h).2⟩

/-- no pair of positions carries `c` twice iff `c` occurs at most once -/
theorem pairs_count {β : Type} [DecidableEq β] (xs : List β) (c : β) :
    (∀ p ∈ pairs xs, ¬ (p.1 = c ∧ p.2 = c)) ↔ xs.count c ≤ 1 := by
  induction xs with
  | nil => simp [pairs]
  | cons x xs ih =>
    by_cases hx : x = c
    · subst hx
      rw [List.count_cons_self]
      constructor
      · intro h
        have h0 : xs.count x = 0 := by
          rw [List.count_eq_zero]
          intro hm
          exact h (x, x) (by simp only [pairs, List.mem_append, List.mem_map]; exact Or.inl ⟨x, hm, rfl⟩)
            ⟨rfl, rfl⟩
        omega
      · intro h p hp
        have h0 : xs.count x = 0 := by omega
        have hnm := List.count_eq_zero.mp h0
        simp only [pairs, List.mem_append, List.mem_map] at hp
        rcases hp with ⟨y, hy, rfl⟩ | hp
        · rintro ⟨_, h2⟩
          simp only at h2
          subst h2
          exact hnm hy
        · rintro ⟨h1, _⟩
          exact hnm (h1 ▸ (mem_pairs hp).1)
    · rw [List.count_cons_of_ne hx, ← ih]
      constructor
      · intro h p hp
        exact h p (by simp only [pairs, List.mem_append]; exact Or.inr hp)
      · intro h p hp
        simp only [pairs, List.mem_append, List.mem_map] at hp
        rcases hp with ⟨y, _, rfl⟩ | hp
        · rintro ⟨h1, _⟩; exact hx h1
        · exact h p hp

theorem notAnd2 (a b : α) (ha : a = 0 ∨ a = 1) (hb : b = 0 ∨ b = 1) :
    notVal (andVal1 [a, b]) = if a = 1 ∧ b = 1 then 0 else 1 := by
  rcases ha with rfl | rfl <;> rcases hb with rfl | rfl <;> norm_num [notVal, andVal1, clamp01]

/-- exactly-one XOr, any number of operands: the value is `1` iff exactly one operand is `1` -/
theorem C04_classical_xor (xs : List α) (h : ∀ x ∈ xs, x = 0 ∨ x = 1) :
    xorVal xs = if xs.count 1 = 1 then 1 else 0 := by
  have hp : ∀ p ∈ pairs xs, notVal (andVal1 [p.1, p.2]) = if p.1 = 1 ∧ p.2 = 1 then 0 else 1 :=
    fun p hp => notAnd2 p.1 p.2 (h _ (mem_pairs hp).1) (h _ (mem_pairs hp).2)
  have hL : ∀ z ∈ (pairs xs).map (fun p => notVal (andVal1 [p.1, p.2])) ++ [orVal1 xs],
      z = 0 ∨ z = 1 := by
    intro z hz
    simp only [List.mem_append, List.mem_map, List.mem_cons, List.not_mem_nil, or_false] at hz
    rcases hz with ⟨p, hpm, rfl⟩ | rfl
    · rw [hp p hpm]; split <;> simp
    · exact (C04_classical_closed xs h).2
  have hiff : (∀ z ∈ (pairs xs).map (fun p => notVal (andVal1 [p.1, p.2])) ++ [orVal1 xs], z = 1) ↔
      xs.count 1 = 1 := by
    have h1 : (∀ z ∈ (pairs xs).map (fun p => notVal (andVal1 [p.1, p.2])), z = 1) ↔
        xs.count 1 ≤ 1 := by
      rw [← pairs_count]
      constructor
      · intro hz p hpm hc
        have := hz _ (List.mem_map.mpr ⟨p, hpm, rfl⟩)
        rw [hp p hpm, if_pos hc] at this
        exact zero_ne_one this
      · intro hz z hzm
        obtain ⟨p, hpm, rfl⟩ := List.mem_map.mp hzm
        rw [hp p hpm, if_neg (hz p hpm)]
    have h2 : orVal1 xs = 1 ↔ 0 < xs.count 1 := by
      rw [C04_classical_or xs h, List.count_pos_iff]
      constructor
      · intro hh
        split at hh
        next hex => obtain ⟨x, hx, rfl⟩ := hex; exact hx
        next => exact absurd hh zero_ne_one
      · intro hm
        rw [if_pos ⟨1, hm, rfl⟩]
    constructor
    · intro hz
      have a1 := h1.mp (fun z hzm => hz z (List.mem_append_left _ hzm))
      have a2 := h2.mp (hz _ (List.mem_append_right _ (List.mem_singleton_self _)))
      omega
    · intro hc z hzm
      rcases List.mem_append.mp hzm with hzm | hzm
      · exact h1.mpr (by omega) z hzm
      · rw [List.mem_singleton.mp hzm]; exact h2.mpr (by omega)
  unfold xorVal
  rw [C04_classical_and _ hL]
  by_cases hc : xs.count 1 = 1
  · rw [if_pos hc, if_pos (hiff.mpr hc)]
  · rw [if_neg hc, if_neg (fun hz => hc (hiff.mp hz))]

/-! ### the unit-weight truth functions are what `nodeVal` computes -/

theorem zipWith_replicate {β γ δ : Type} (f : β → γ → δ) (l : List β) (c : γ) :
    List.zipWith f l (List.replicate l.length c) = l.map (fun j => f j c) := by
  induction l with
  | nil => simp
  | cons x xs ih => simp [List.replicate_succ, ih]

theorem C04_nodeVal_and_unit (n : Node ι α) (v : ι → α) (hk : n.kind = .and) (hb : n.bias = 1)
    (hw : n.ws = List.replicate n.ops.length 1) : nodeVal n v = some (andVal1 (n.ops.map v)) := by
  unfold nodeVal andVal1
  rw [hk]
  simp only
  rw [hb, hw, zipWith_replicate]
  simp [List.map_map, Function.comp_def]

theorem C04_nodeVal_or_unit (n : Node ι α) (v : ι → α) (hk : n.kind = .or) (hb : n.bias = 1)
    (hw : n.ws = List.replicate n.ops.length 1) : nodeVal n v = some (orVal1 (n.ops.map v)) := by
  unfold nodeVal orVal1
  rw [hk]
  simp only
  rw [hb, hw, zipWith_replicate]
  simp

theorem C04_nodeVal_implies_unit (n : Node ι α) (v : ι → α) (x y : ι) (hk : n.kind = .implies)
    (hb : n.bias = 1) (ho : n.ops = [x, y]) (hw : n.ws = [1, 1]) :
    nodeVal n v = some (impVal1 (v x) (v y)) := by
  unfold nodeVal impVal1
  rw [hk, hb, ho, hw]
  simp

theorem C04_nodeVal_not (n : Node ι α) (v : ι → α) (x : ι) (hk : n.kind = .neg)
    (ho : n.ops = [x]) : nodeVal n v = some (notVal (v x)) := by
  unfold nodeVal notVal
  rw [hk, ho]

/-! ## §3 Strong Kleene tables on bounds — unit weights, bias 1 -/

def FALSE : Bounds α := ⟨0, 0⟩
def UNKNOWN : Bounds α := ⟨0, 1⟩
def TRUE : Bounds α := ⟨1, 1⟩

/-- the bounds an operand carries -/
def Opd.bnd (o : Opd α) : Bounds α := ⟨o.lo, o.hi⟩

/-- a three-valued operand of unit weight -/
def Opd.K3 (o : Opd α) : Prop := o.w = 1 ∧ (o.bnd = FALSE ∨ o.bnd = UNKNOWN ∨ o.bnd = TRUE)

theorem bnd_FALSE (o : Opd α) : o.bnd = FALSE ↔ o.lo = 0 ∧ o.hi = 0 := by
  simp [Opd.bnd, FALSE]
theorem bnd_UNKNOWN (o : Opd α) : o.bnd = UNKNOWN ↔ o.lo = 0 ∧ o.hi = 1 := by
  simp [Opd.bnd, UNKNOWN]
theorem bnd_TRUE (o : Opd α) : o.bnd = TRUE ↔ o.lo = 1 ∧ o.hi = 1 := by
  simp [Opd.bnd, TRUE]

/-- with unit weights and bias 1 the And activation is the classical And on each bound -/
theorem andUp_unit (ops : List (Opd α)) (h : ∀ o ∈ ops, o.w = 1) :
    andUp 1 ops = ⟨andVal1 (ops.map (·.lo)), andVal1 (ops.map (·.hi))⟩ := by
  unfold andUp andVal1
  simp only [List.map_map]
  have h1 : ops.map termLo = ops.map ((fun x => 1 - x) ∘ fun o => o.lo) :=
    List.map_congr_left (fun o ho => by simp [termLo, h o ho])
  have h2 : ops.map termHi = ops.map ((fun x => 1 - x) ∘ fun o => o.hi) :=
    List.map_congr_left (fun o ho => by simp [termHi, h o ho])
  rw [h1, h2]

/-- with unit weights and bias 1 the Or activation (either variant) is the classical Or on each
bound -/
theorem orUp_unit (t : Bool) (ops : List (Opd α)) (h : ∀ o ∈ ops, o.w = 1) :
    orUp t 1 ops = ⟨orVal1 (ops.map (·.lo)), orVal1 (ops.map (·.hi))⟩ := by
  rw [orUp_variant_eq_any t 1 ops (fun o ho => by rw [h o ho]; exact zero_le_one)]
  unfold orUp orVal1
  have h1 : ops.map (fun o => o.w * o.lo) = ops.map (·.lo) :=
    List.map_congr_left (fun o ho => by simp [h o ho])
  have h2 : ops.map (fun o => o.w * o.hi) = ops.map (·.hi) :=
    List.map_congr_left (fun o ho => by simp [h o ho])
  simp [h1, h2]

private theorem k3_lo (ops : List (Opd α)) (h : ∀ o ∈ ops, o.K3) :
    ∀ x ∈ ops.map (·.lo), x = 0 ∨ x = 1 := by
  intro x hx
  obtain ⟨o, ho, rfl⟩ := List.mem_map.mp hx
  rcases (h o ho).2 with hb | hb | hb
  · exact Or.inl ((bnd_FALSE o).mp hb).1
  · exact Or.inl ((bnd_UNKNOWN o).mp hb).1
  · exact Or.inr ((bnd_TRUE o).mp hb).1

private theorem k3_hi (ops : List (Opd α)) (h : ∀ o ∈ ops, o.K3) :
    ∀ x ∈ ops.map (·.hi), x = 0 ∨ x = 1 := by
  intro x hx
  obtain ⟨o, ho, rfl⟩ := List.mem_map.mp hx
  rcases (h o ho).2 with hb | hb | hb
  · exact Or.inl ((bnd_FALSE o).mp hb).2
  · exact Or.inr ((bnd_UNKNOWN o).mp hb).2
  · exact Or.inr ((bnd_TRUE o).mp hb).2

/-- strong Kleene conjunction, any arity: FALSE if some operand is FALSE, TRUE if all are TRUE,
UNKNOWN otherwise (no FALSE but some UNKNOWN) -/
theorem C04_kleene_and (ops : List (Opd α)) (h : ∀ o ∈ ops, o.K3) :
    ((∃ o ∈ ops, o.bnd = FALSE) → andUp 1 ops = FALSE) ∧
    ((∀ o ∈ ops, o.bnd = TRUE) → andUp 1 ops = TRUE) ∧
    ((∀ o ∈ ops, o.bnd ≠ FALSE) → (∃ o ∈ ops, o.bnd = UNKNOWN) → andUp 1 ops = UNKNOWN) := by
  rw [andUp_unit ops (fun o ho => (h o ho).1), C04_classical_and _ (k3_lo ops h),
    C04_classical_and _ (k3_hi ops h)]
  simp only [List.forall_mem_map]
  refine ⟨?_, ?_, ?_⟩
  · rintro ⟨o, ho, hb⟩
    obtain ⟨hl, hu⟩ := (bnd_FALSE o).mp hb
    rw [if_neg (fun hall => zero_ne_one (hl.symm.trans (hall o ho))),
      if_neg (fun hall => zero_ne_one (hu.symm.trans (hall o ho)))]
    rfl
  · intro hall
    rw [if_pos (fun o ho => ((bnd_TRUE o).mp (hall o ho)).1),
      if_pos (fun o ho => ((bnd_TRUE o).mp (hall o ho)).2)]
    rfl
  · rintro hnf ⟨o, ho, hb⟩
    obtain ⟨hl, _⟩ := (bnd_UNKNOWN o).mp hb
    rw [if_neg (fun hall => zero_ne_one (hl.symm.trans (hall o ho))), if_pos]
    · rfl
    · intro o' ho'
      rcases (h o' ho').2 with hb' | hb' | hb'
      · exact absurd hb' (hnf o' ho')
      · exact ((bnd_UNKNOWN o').mp hb').2
      · exact ((bnd_TRUE o').mp hb').2

/-- strong Kleene disjunction, any arity, both activation variants: TRUE if some operand is TRUE,
FALSE if all are FALSE, UNKNOWN otherwise (no TRUE but some UNKNOWN) -/
theorem C04_kleene_or (t : Bool) (ops : List (Opd α)) (h : ∀ o ∈ ops, o.K3) :
    ((∃ o ∈ ops, o.bnd = TRUE) → orUp t 1 ops = TRUE) ∧
    ((∀ o ∈ ops, o.bnd = FALSE) → orUp t 1 ops = FALSE) ∧
    ((∀ o ∈ ops, o.bnd ≠ TRUE) → (∃ o ∈ ops, o.bnd = UNKNOWN) → orUp t 1 ops = UNKNOWN) := by
  rw [orUp_unit t ops (fun o ho => (h o ho).1), C04_classical_or _ (k3_lo ops h),
    C04_classical_or _ (k3_hi ops h)]
  simp only [exists_mem_map_iff]
  refine ⟨?_, ?_, ?_⟩
  · rintro ⟨o, ho, hb⟩
    obtain ⟨hl, hu⟩ := (bnd_TRUE o).mp hb
    rw [if_pos ⟨o, ho, hl⟩, if_pos ⟨o, ho, hu⟩]
    rfl
  · intro hall
    rw [if_neg, if_neg]
    · rfl
    · rintro ⟨o, ho, hu⟩
      exact zero_ne_one (((bnd_FALSE o).mp (hall o ho)).2.symm.trans hu)
    · rintro ⟨o, ho, hl⟩
      exact zero_ne_one (((bnd_FALSE o).mp (hall o ho)).1.symm.trans hl)
  · rintro hnt ⟨o, ho, hb⟩
    obtain ⟨_, hu⟩ := (bnd_UNKNOWN o).mp hb
    rw [if_neg, if_pos ⟨o, ho, hu⟩]
    · rfl
    · rintro ⟨o', ho', hl'⟩
      rcases (h o' ho').2 with hb' | hb' | hb'
      · exact zero_ne_one (((bnd_FALSE o').mp hb').1.symm.trans hl')
      · exact zero_ne_one (((bnd_UNKNOWN o').mp hb').1.symm.trans hl')
      · exact hnt o' ho' hb'

/-- strong Kleene negation -/
theorem C04_kleene_not :
    negB (FALSE : Bounds α) = TRUE ∧ negB (UNKNOWN : Bounds α) = UNKNOWN ∧
      negB (TRUE : Bounds α) = FALSE := by
  simp [negB, FALSE, UNKNOWN, TRUE]

/-- negating an operand negates its bounds (so `Opd.neg` acts on K3 operands as Kleene negation) -/
theorem C04_bnd_neg (o : Opd α) : o.neg.bnd = negB o.bnd := rfl

theorem K3_neg {o : Opd α} (h : o.K3) : o.neg.K3 := by
  refine ⟨h.1, ?_⟩
  rw [C04_bnd_neg]
  rcases h.2 with hb | hb | hb <;> rw [hb]
  · exact Or.inr (Or.inr C04_kleene_not.1)
  · exact Or.inr (Or.inl C04_kleene_not.2.1)
  · exact Or.inl C04_kleene_not.2.2

/-- strong Kleene implication: `x → y` is the Kleene disjunction of `¬x` and `y`; explicitly TRUE if
`x` is FALSE or `y` is TRUE, FALSE if `x` is TRUE and `y` FALSE, UNKNOWN in the remaining cases -/
theorem C04_kleene_implies (x y : Opd α) (hx : x.K3) (hy : y.K3) :
    impliesUp 1 [x, y] = orUp false 1 [x.neg, y] ∧
    (x.bnd = FALSE ∨ y.bnd = TRUE → impliesUp 1 [x, y] = TRUE) ∧
    (x.bnd = TRUE → y.bnd = FALSE → impliesUp 1 [x, y] = FALSE) ∧
    (x.bnd ≠ FALSE → y.bnd ≠ TRUE → (x.bnd = UNKNOWN ∨ y.bnd = UNKNOWN) →
      impliesUp 1 [x, y] = UNKNOWN) := by
  refine ⟨C04_dual_implies_up 1 x y, ?_⟩
  have hK : ∀ o ∈ [x.neg, y], o.K3 := by
    intro o ho
    simp only [List.mem_cons, List.not_mem_nil, or_false] at ho
    rcases ho with rfl | rfl
    · exact K3_neg hx
    · exact hy
  obtain ⟨k1, k2, k3⟩ := C04_kleene_or false [x.neg, y] hK
  rw [C04_dual_implies_up]
  have hnegF : x.neg.bnd = FALSE ↔ x.bnd = TRUE := by
    rw [C04_bnd_neg]
    constructor
    · intro hh; rw [← negB_negB x.bnd, hh]; exact C04_kleene_not.1
    · intro hh; rw [hh]; exact C04_kleene_not.2.2
  have hnegT : x.neg.bnd = TRUE ↔ x.bnd = FALSE := by
    rw [C04_bnd_neg]
    constructor
    · intro hh; rw [← negB_negB x.bnd, hh]; exact C04_kleene_not.2.2
    · intro hh; rw [hh]; exact C04_kleene_not.1
  have hnegU : x.neg.bnd = UNKNOWN ↔ x.bnd = UNKNOWN := by
    rw [C04_bnd_neg]
    constructor
    · intro hh; rw [← negB_negB x.bnd, hh]; exact C04_kleene_not.2.1
    · intro hh; rw [hh]; exact C04_kleene_not.2.1
  refine ⟨?_, ?_, ?_⟩
  · rintro (hxf | hyt)
    · exact k1 ⟨x.neg, by simp, hnegT.mpr hxf⟩
    · exact k1 ⟨y, by simp, hyt⟩
  · intro hxt hyf
    apply k2
    intro o ho
    simp only [List.mem_cons, List.not_mem_nil, or_false] at ho
    rcases ho with rfl | rfl
    · exact hnegF.mpr hxt
    · exact hyf
  · intro hxnf hynt hu
    apply k3
    · intro o ho
      simp only [List.mem_cons, List.not_mem_nil, or_false] at ho
      rcases ho with rfl | rfl
      · exact fun hh => hxnf (hnegT.mp hh)
      · exact hynt
    · rcases hu with hxu | hyu
      · exact ⟨x.neg, by simp, hnegU.mpr hxu⟩
      · exact ⟨y, by simp, hyu⟩

/-- the UNKNOWN interval is neutral for proof aggregation inside the unit square: an
UNKNOWN-initialised connective simply takes the bounds its activation computes -/
theorem C04_aggregate_unknown (x : Bounds α) (hl0 : 0 ≤ x.lo) (hl1 : x.lo ≤ 1) (hu0 : 0 ≤ x.hi)
    (hu1 : x.hi ≤ 1) : (aggregate .both UNKNOWN x).1 = x := by
  unfold UNKNOWN
  rw [aggregate_unknown x hl0 hl1 hu0 hu1]

/-- every upward activation lies in the unit square -/
theorem actUp_unit_square (n : Node ι α) (s : State ι α) :
    0 ≤ (actUp n s).lo ∧ (actUp n s).lo ≤ 1 ∧ 0 ≤ (actUp n s).hi ∧ (actUp n s).hi ≤ 1 := by
  unfold actUp
  cases n.kind with
  | atom => simp
  | neg => simp
  | and => exact ⟨clamp01_nonneg _, clamp01_le_one _, clamp01_nonneg _, clamp01_le_one _⟩
  | or => exact ⟨clamp01_nonneg _, clamp01_le_one _, clamp01_nonneg _, clamp01_le_one _⟩
  | implies =>
    simp only
    unfold impliesUp
    split
    · exact ⟨clamp01_nonneg _, clamp01_le_one _, clamp01_nonneg _, clamp01_le_one _⟩
    · simp

/-- Composition step for nested formulae: `upward` on an UNKNOWN-initialised connective whose
operands carry uncrossed bounds (in particular three-valued ones) stores exactly the activation of
the operands' current bounds. Together with the tables above and the fact that sub-formulae are
evaluated first this gives the Kleene table of every nested formula. -/
theorem C04_stepUp_unknown (kb : KB ι α) (s : State ι α) (i : ι)
    (hk : (kb i).kind ≠ .atom ∧ (kb i).kind ≠ .neg) (hi : s i = UNKNOWN)
    (hops : ∀ j ∈ (kb i).ops, (s j).lo ≤ (s j).hi) :
    (stepUp kb i s).1 = Function.update s i (actUp (kb i) s) := by
  have hc : ∀ a j, j ∈ (kb i).ops → isContra a (s j) = false :=
    fun a j hj => isContra_of_le a _ (hops j hj)
  have harr : arrested kb s i = false := by
    unfold arrested
    simp only [Bool.or_eq_false_iff, List.any_eq_false]
    refine ⟨⟨?_, ?_⟩, ?_⟩
    · rw [hi]; exact isContra_of_le _ _ (by simp [UNKNOWN])
    · intro j hj; simp [hc _ j hj]
    · intro j hj; simp [hc _ j (List.mem_of_mem_take hj)]
  obtain ⟨a1, a2, a3, a4⟩ := actUp_unit_square (kb i) s
  have hagg := C04_aggregate_unknown (actUp (kb i) s) a1 a2 a3 a4
  unfold stepUp
  simp only
  cases hkind : (kb i).kind with
  | atom => exact absurd hkind hk.1
  | neg => exact absurd hkind hk.2
  | and => simp only [harr, Bool.false_eq_true, if_false, hi, hagg]
  | or => simp only [harr, Bool.false_eq_true, if_false, hi, hagg]
  | implies => simp only [harr, Bool.false_eq_true, if_false, hi, hagg]

/-- the same for Not -/
theorem C04_stepUp_unknown_not (kb : KB ι α) (s : State ι α) (i j : ι) (rest : List ι)
    (hk : (kb i).kind = .neg) (ho : (kb i).ops = j :: rest) (hi : s i = UNKNOWN)
    (hj : 0 ≤ (s j).lo ∧ (s j).hi ≤ 1 ∧ (s j).lo ≤ (s j).hi) :
    (stepUp kb i s).1 = Function.update s i (negB (s j)) := by
  have hagg := C04_aggregate_unknown (negB (s j)) (by simp only [negB]; linarith)
    (by simp only [negB]; linarith) (by simp only [negB]; linarith) (by simp only [negB]; linarith)
  unfold stepUp
  simp only [hk, ho, hi, hagg]

/-! ## §1 Point evaluation on the engine -/

/-- node `i` sits at the point `v i` -/
def IsPoint (s : State ι α) (v : ι → α) (i : ι) : Prop := s i = ⟨v i, v i⟩

/-- every node of the schedule has each operand in `done`, earlier in the schedule, or already at
its point value in `s` -/
def ChildrenFirstFrom (kb : KB ι α) (s : State ι α) (v : ι → α) : List ι → List ι → Prop
  | _, [] => True
  | done, i :: rest =>
    (∀ j ∈ (kb i).ops, j ∈ done ∨ IsPoint s v j) ∧ ChildrenFirstFrom kb s v (i :: done) rest

/-- the schedule lists sub-formulae before the formulae that use them (operands that are not in the
schedule must already be points, e.g. atoms carrying data) -/
def ChildrenFirst (kb : KB ι α) (s : State ι α) (v : ι → α) (sched : List ι) : Prop :=
  ChildrenFirstFrom kb s v [] sched

theorem childrenFirstFrom_iff (kb : KB ι α) (s : State ι α) (v : ι → α) (done sched : List ι) :
    ChildrenFirstFrom kb s v done sched ↔
      ∀ pre i post, sched = pre ++ i :: post →
        ∀ j ∈ (kb i).ops, j ∈ done ∨ j ∈ pre ∨ IsPoint s v j := by
  induction sched generalizing done with
  | nil =>
    simp only [ChildrenFirstFrom, true_iff]
    intro pre i post h
    simp at h
  | cons k rest ih =>
    simp only [ChildrenFirstFrom]
    rw [ih]
    constructor
    · rintro ⟨h1, h2⟩ pre i post hsplit j hj
      cases pre with
      | nil =>
        simp only [List.nil_append, List.cons.injEq] at hsplit
        obtain ⟨rfl, _⟩ := hsplit
        rcases h1 j hj with h | h
        · exact Or.inl h
        · exact Or.inr (Or.inr h)
      | cons p pre' =>
        simp only [List.cons_append, List.cons.injEq] at hsplit
        obtain ⟨rfl, hrest⟩ := hsplit
        rcases h2 pre' i post hrest j hj with h | h | h
        · rcases List.mem_cons.mp h with rfl | h
          · exact Or.inr (Or.inl (List.mem_cons_self ..))
          · exact Or.inl h
        · exact Or.inr (Or.inl (List.mem_cons_of_mem _ h))
        · exact Or.inr (Or.inr h)
    · intro h
      constructor
      · intro j hj
        rcases h [] k rest rfl j hj with h | h | h
        · exact Or.inl h
        · simp at h
        · exact Or.inr h
      · intro pre i post hsplit j hj
        rcases h (k :: pre) i post (by rw [hsplit]; rfl) j hj with h | h | h
        · exact Or.inl (List.mem_cons_of_mem _ h)
        · rcases List.mem_cons.mp h with rfl | h
          · exact Or.inl (List.mem_cons_self ..)
          · exact Or.inr (Or.inl h)
        · exact Or.inr (Or.inr h)

/-- `ChildrenFirst` in closed form: at every position of the schedule, each operand of the node
there occurs earlier in the schedule or is a point of the initial state -/
theorem childrenFirst_iff (kb : KB ι α) (s : State ι α) (v : ι → α) (sched : List ι) :
    ChildrenFirst kb s v sched ↔
      ∀ pre i post, sched = pre ++ i :: post → ∀ j ∈ (kb i).ops, j ∈ pre ∨ IsPoint s v j := by
  unfold ChildrenFirst
  rw [childrenFirstFrom_iff]
  simp

/-- what `nodeVal` needs in order to be defined on a non-atom: a Not has an operand, an Implies
has exactly two weighted operands (And/Or need nothing: operands beyond the weights are ignored by
model and truth function alike) -/
def Shaped (n : Node ι α) : Prop :=
  match n.kind with
  | .neg => n.ops ≠ []
  | .implies => (List.zip n.ops n.ws).length = 2
  | _ => True

theorem nodeVal_isSome (n : Node ι α) (v : ι → α) (hk : n.kind ≠ .atom) (hs : Shaped n) :
    (nodeVal n v).isSome := by
  unfold Shaped at hs
  unfold nodeVal
  cases hkind : n.kind with
  | atom => exact absurd hkind hk
  | neg =>
    rw [hkind] at hs
    simp only at hs ⊢
    cases hops : n.ops with
    | nil => exact absurd hops hs
    | cons j rest => simp
  | and => simp
  | or => simp
  | implies =>
    rw [hkind] at hs
    simp only at hs ⊢
    match hz : List.zip n.ops n.ws, hs with
    | [(x, wx), (y, wy)], _ => simp

private theorem point_run (kb : KB ι α) (hwf : WF kb) (v : ι → α) (hv : Consistent kb v)
    (s0 : State ι α) (sched : List ι) :
    ∀ (done : List ι) (s : State ι α), Sat v s →
      (∀ j, j ∈ done ∨ IsPoint s0 v j → IsPoint s v j) →
      ChildrenFirstFrom kb s0 v done sched →
      (∀ i ∈ sched, IsPoint s0 v i ∨ (nodeVal (kb i) v).isSome) →
      ∀ i ∈ sched, IsPoint (runSteps kb (sched.map Step.up) s).1 v i := by
  induction sched with
  | nil => intro _ _ _ _ _ _ i hi; simp at hi
  | cons i rest ih =>
    intro done s hs hinv hcf hnode k hk
    obtain ⟨hops, hcf'⟩ := hcf
    have hs1 := stepUp_sound kb v s i hwf hv hs
    have hkeep : ∀ j, IsPoint s v j → IsPoint (stepUp kb i s).1 v j :=
      fun j hj => stepUp_keeps_point kb v s i hwf hv hs j hj
    have hi1 : IsPoint (stepUp kb i s).1 v i := by
      rcases hnode i (List.mem_cons_self ..) with hp | hsome
      · exact hkeep i (hinv i (Or.inr hp))
      · unfold IsPoint
        rw [stepUp_point kb v s i hwf hv hs (fun j hj => hinv j (hops j hj)) hsome]
        simp
    have hinv1 : ∀ j, j ∈ i :: done ∨ IsPoint s0 v j → IsPoint (stepUp kb i s).1 v j := by
      rintro j (hj | hj)
      · rcases List.mem_cons.mp hj with rfl | hj
        · exact hi1
        · exact hkeep j (hinv j (Or.inl hj))
      · exact hkeep j (hinv j (Or.inr hj))
    simp only [List.map_cons, runSteps, runStep]
    rcases List.mem_cons.mp hk with rfl | hk
    · exact runSteps_up_keeps_point kb v rest _ hwf hv hs1 k hi1
    · exact ih (i :: done) _ hs1 hinv1 hcf'
        (fun i' hi' => hnode i' (List.mem_cons_of_mem _ hi')) k hk

/-- **Point evaluation, general form.** The schedule may also contain nodes that already sit at
their point (atoms, or formulae evaluated before); every other scheduled node needs a defined truth
function. -/
theorem C04_point_gen (kb : KB ι α) (hwf : WF kb) (v : ι → α) (hv : Consistent kb v)
    (s : State ι α) (hs : Sat v s) (sched : List ι) (hcf : ChildrenFirst kb s v sched)
    (hnode : ∀ i ∈ sched, IsPoint s v i ∨ (nodeVal (kb i) v).isSome) :
    ∀ i ∈ sched, IsPoint (runSteps kb (sched.map Step.up) s).1 v i :=
  point_run kb hwf v hv s sched [] s hs (fun j hj => hj.elim (fun h => by simp at h) id) hcf hnode

/-- **Point evaluation.** When every operand that a schedule of upward steps meets is either
evaluated earlier in the schedule or carries a point value, each scheduled formula ends at the
point value of its weighted Łukasiewicz truth function (`v i`, which `Consistent` ties to
`nodeVal`) — for arbitrary nesting, sharing, weights ≥ 0, biases and both Or variants. -/
theorem C04_point (kb : KB ι α) (hwf : WF kb) (v : ι → α) (hv : Consistent kb v)
    (s : State ι α) (hs : Sat v s) (sched : List ι) (hcf : ChildrenFirst kb s v sched)
    (hnonatom : ∀ i ∈ sched, (kb i).kind ≠ .atom) (hshape : ∀ i ∈ sched, Shaped (kb i)) :
    ∀ i ∈ sched, IsPoint (runSteps kb (sched.map Step.up) s).1 v i :=
  C04_point_gen kb hwf v hv s hs sched hcf
    (fun i hi => Or.inr (nodeVal_isSome (kb i) v (hnonatom i hi) (hshape i hi)))

/-- the nodes whose `upward` a schedule of public calls runs, in order: each call first runs the
generated inner nodes (`pre`) of a composite formula (Iff, XOr) -/
def expandUp (kb : KB ι α) (sched : List ι) : List ι := sched.flatMap (fun i => (kb i).pre ++ [i])

theorem passSteps_up (kb : KB ι α) (sched : List ι) :
    passSteps kb (sched.map Call.up) = (expandUp kb sched).map Step.up := by
  unfold passSteps expandUp
  induction sched with
  | nil => rfl
  | cons i rest ih =>
    simp only [List.map_cons, List.flatMap_cons, List.map_append, ih, Call.steps, callUp,
      List.map_nil]

theorem subset_expandUp (kb : KB ι α) (sched : List ι) : ∀ i ∈ sched, i ∈ expandUp kb sched := by
  intro i hi
  unfold expandUp
  rw [List.mem_flatMap]
  exact ⟨i, hi, by simp⟩

/-- **Point evaluation through the public API**: an upward pass `_traverse_execute` over `sched`
(composite formulae run their inner formulae first). -/
theorem C04_point_call (kb : KB ι α) (hwf : WF kb) (v : ι → α) (hv : Consistent kb v)
    (s : State ι α) (hs : Sat v s) (sched : List ι)
    (hcf : ChildrenFirst kb s v (expandUp kb sched))
    (hnode : ∀ i ∈ expandUp kb sched, IsPoint s v i ∨ (nodeVal (kb i) v).isSome) :
    ∀ i ∈ expandUp kb sched, IsPoint (runPass kb (sched.map Call.up) s).1 v i := by
  unfold runPass
  rw [passSteps_up]
  exact C04_point_gen kb hwf v hv s hs _ hcf hnode

/-! ### local form: `v` need only solve the equations of the scheduled nodes -/

/-- the knowledge base with every node outside `sched` turned into an atom (same parameters) -/
def restrictKB (kb : KB ι α) (sched : List ι) : KB ι α :=
  fun j => if j ∈ sched then kb j else { kb j with kind := .atom }

theorem restrictKB_mem (kb : KB ι α) (sched : List ι) {j : ι} (h : j ∈ sched) :
    restrictKB kb sched j = kb j := if_pos h

theorem restrictKB_ops (kb : KB ι α) (sched : List ι) (j : ι) :
    (restrictKB kb sched j).ops = (kb j).ops := by
  unfold restrictKB; split <;> rfl

theorem restrictKB_alpha (kb : KB ι α) (sched : List ι) (j : ι) :
    (restrictKB kb sched j).alpha = (kb j).alpha := by
  unfold restrictKB; split <;> rfl

theorem stepUp_restrict (kb : KB ι α) (sched : List ι) (s : State ι α) {i : ι} (hi : i ∈ sched) :
    stepUp (restrictKB kb sched) i s = stepUp kb i s := by
  have harr : arrested (restrictKB kb sched) s i = arrested kb s i := by
    unfold arrested
    simp only [restrictKB_mem kb sched hi, restrictKB_alpha]
  unfold stepUp
  simp only [harr, restrictKB_mem kb sched hi]

theorem runSteps_restrict (kb : KB ι α) (sched : List ι) (l : List ι) (hl : ∀ i ∈ l, i ∈ sched)
    (s : State ι α) :
    runSteps (restrictKB kb sched) (l.map Step.up) s = runSteps kb (l.map Step.up) s := by
  induction l generalizing s with
  | nil => rfl
  | cons i rest ih =>
    simp only [List.map_cons, runSteps, runStep, stepUp_restrict kb sched s (hl i (List.mem_cons_self ..))]
    rw [ih (fun k hk => hl k (List.mem_cons_of_mem _ hk))]

/-- **Point evaluation, local form.** `v` has to obey the truth functions of the scheduled nodes
only; whatever else the knowledge base contains (cycles, unsatisfiable parts) is irrelevant. -/
theorem C04_point_local (kb : KB ι α) (hwf : WF kb) (v : ι → α) (hv01 : ∀ i, 0 ≤ v i ∧ v i ≤ 1)
    (s : State ι α) (hs : Sat v s) (sched : List ι)
    (hloc : ∀ i ∈ sched, ∀ y, nodeVal (kb i) v = some y → v i = y)
    (hcf : ChildrenFirst kb s v sched)
    (hnode : ∀ i ∈ sched, IsPoint s v i ∨ (nodeVal (kb i) v).isSome) :
    ∀ i ∈ sched, IsPoint (runSteps kb (sched.map Step.up) s).1 v i := by
  have hwf' : WF (restrictKB kb sched) := by
    intro j
    unfold restrictKB
    split
    · exact hwf j
    · exact hwf j
  have hv' : Consistent (restrictKB kb sched) v := by
    intro j
    refine ⟨(hv01 j).1, (hv01 j).2, ?_⟩
    by_cases hj : j ∈ sched
    · rw [restrictKB_mem kb sched hj]; exact hloc j hj
    · intro y hy
      unfold restrictKB at hy
      rw [if_neg hj] at hy
      simp [nodeVal] at hy
  have hcf' : ChildrenFirst (restrictKB kb sched) s v sched := by
    rw [childrenFirst_iff] at hcf ⊢
    simpa only [restrictKB_ops] using hcf
  have hnode' : ∀ i ∈ sched, IsPoint s v i ∨ (nodeVal (restrictKB kb sched i) v).isSome := by
    intro i hi
    rw [restrictKB_mem kb sched hi]
    exact hnode i hi
  rw [← runSteps_restrict kb sched sched (fun i hi => hi) s]
  exact C04_point_gen (restrictKB kb sched) hwf' v hv' s hs sched hcf' hnode'

/-! ## Non-vacuity over ℚ -/

/-- atoms 0,1,2; node 3 = And(0,1) with weights (1/2, 2); node 4 = Implies(3,2); node 5 = Not(4) -/
def c04KB : KB Nat ℚ := fun i =>
  match i with
  | 3 => { kind := .and, ops := [0, 1], ws := [1/2, 2], bias := 1, alpha := 1 }
  | 4 => { kind := .implies, ops := [3, 2], ws := [1, 1], bias := 1, alpha := 1 }
  | 5 => { kind := .neg, ops := [4], bias := 1, alpha := 1 }
  | _ => { kind := .atom, bias := 1, alpha := 1 }

def c04V : Nat → ℚ := fun i =>
  match i with
  | 0 => 1/2 | 1 => 3/4 | 2 => 1/8 | 3 => 1/4 | 4 => 7/8 | 5 => 1/8 | _ => 0

/-- atoms at point values, every connective UNKNOWN -/
def c04S : State Nat ℚ := fun i =>
  match i with
  | 0 => ⟨1/2, 1/2⟩ | 1 => ⟨3/4, 3/4⟩ | 2 => ⟨1/8, 1/8⟩ | _ => ⟨0, 1⟩

theorem c04_wf : WF c04KB := by
  intro i
  unfold c04KB
  split <;> simp

theorem c04_consistent : Consistent c04KB c04V := by
  intro i
  match i with
  | 0 => simp [c04KB, c04V, nodeVal]; norm_num
  | 1 => simp [c04KB, c04V, nodeVal]; norm_num
  | 2 => simp [c04KB, c04V, nodeVal]; norm_num
  | 3 => simp [c04KB, c04V, nodeVal, clamp01]; norm_num
  | 4 => simp [c04KB, c04V, nodeVal, clamp01]; norm_num
  | 5 => simp [c04KB, c04V, nodeVal]; norm_num
  | (n + 6) => simp [c04KB, c04V, nodeVal]

theorem c04_sat : Sat c04V c04S := by
  intro i
  match i with
  | 0 => simp [c04V, c04S]
  | 1 => simp [c04V, c04S]
  | 2 => simp [c04V, c04S]
  | 3 => simp [c04V, c04S]; norm_num
  | 4 => simp [c04V, c04S]; norm_num
  | 5 => simp [c04V, c04S]; norm_num
  | (n + 6) => simp [c04V, c04S]

theorem c04_cf : ChildrenFirst c04KB c04S c04V [3, 4, 5] := by
  simp [ChildrenFirst, ChildrenFirstFrom, c04KB, IsPoint, c04S, c04V]

theorem c04_nonatom : ∀ i ∈ [3, 4, 5], (c04KB i).kind ≠ .atom := by
  simp [c04KB]

theorem c04_shaped : ∀ i ∈ [3, 4, 5], Shaped (c04KB i) := by
  simp [c04KB, Shaped]

/-- the theorem applies: Not(Implies(And(0,1),2)) is evaluated to the point `1/8` -/
example : (runSteps c04KB ([3, 4, 5].map Step.up) c04S).1 5 = ⟨1/8, 1/8⟩ :=
  C04_point c04KB c04_wf c04V c04_consistent c04S c04_sat [3, 4, 5] c04_cf c04_nonatom c04_shaped
    5 (by simp)

example : (runSteps c04KB ([3, 4, 5].map Step.up) c04S).1 3 = ⟨1/4, 1/4⟩ :=
  C04_point c04KB c04_wf c04V c04_consistent c04S c04_sat [3, 4, 5] c04_cf c04_nonatom c04_shaped
    3 (by simp)

/-- Iff(0,1) as the implementation builds it: node 4 = And(2,3) over the generated inner nodes
2 = (0 → 1) and 3 = (1 → 0), which `upward` of node 4 runs first (`pre`) -/
def iffKB : KB Nat ℚ := fun i =>
  match i with
  | 2 => { kind := .implies, ops := [0, 1], ws := [1, 1], bias := 1, alpha := 1 }
  | 3 => { kind := .implies, ops := [1, 0], ws := [1, 1], bias := 1, alpha := 1 }
  | 4 => { kind := .and, ops := [2, 3], ws := [1, 1], bias := 1, alpha := 1, pre := [2, 3] }
  | _ => { kind := .atom, bias := 1, alpha := 1 }

/-- classical reading: 0 is true, 1 is false, so `0 ↔ 1` is false -/
def iffV : Nat → ℚ := fun i =>
  match i with
  | 0 => 1 | 1 => 0 | 2 => 0 | 3 => 1 | 4 => 0 | _ => 0

def iffS : State Nat ℚ := fun i =>
  match i with
  | 0 => ⟨1, 1⟩ | 1 => ⟨0, 0⟩ | _ => ⟨0, 1⟩

theorem iff_wf : WF iffKB := by
  intro i
  unfold iffKB
  split <;> simp

theorem iff_consistent : Consistent iffKB iffV := by
  intro i
  match i with
  | 0 => simp [iffKB, iffV, nodeVal]
  | 1 => simp [iffKB, iffV, nodeVal]
  | 2 => simp [iffKB, iffV, nodeVal, clamp01]
  | 3 => simp [iffKB, iffV, nodeVal, clamp01]
  | 4 => simp [iffKB, iffV, nodeVal, clamp01]
  | (n + 5) => simp [iffKB, iffV, nodeVal]

theorem iff_sat : Sat iffV iffS := by
  intro i
  match i with
  | 0 => simp [iffV, iffS]
  | 1 => simp [iffV, iffS]
  | 2 => simp [iffV, iffS]
  | 3 => simp [iffV, iffS]
  | 4 => simp [iffV, iffS]
  | (n + 5) => simp [iffV, iffS]

example : expandUp iffKB [4] = [2, 3, 4] := by simp [expandUp, iffKB]

/-- the public call `Iff.upward()` evaluates the classical table entry `1 ↔ 0 = 0` -/
example : (runPass iffKB ([4].map Call.up) iffS).1 4 = ⟨iffVal 1 0, iffVal 1 0⟩ := by
  have h := C04_point_call iffKB iff_wf iffV iff_consistent iffS iff_sat [4]
    (by simp [expandUp, ChildrenFirst, ChildrenFirstFrom, iffKB, IsPoint, iffS, iffV])
    (by simp [expandUp, iffKB, nodeVal]) 4 (by simp [expandUp])
  rw [C04_classical_iff 1 0 (Or.inr rfl) (Or.inl rfl)]
  simpa [IsPoint, iffV] using h

/-- three-valued run of the same formula: `UNKNOWN ↔ TRUE` is UNKNOWN (computed by the model) -/
example :
    (runPass iffKB ([4].map Call.up)
      (fun i => match i with | 0 => UNKNOWN | 1 => TRUE | _ => UNKNOWN)).1 4 = UNKNOWN := by
  norm_num [runPass, passSteps, Call.steps, callUp, runSteps, runStep, stepUp, iffKB, arrested,
    isContra, region, actUp, andUp, impliesUp, opds, aggregate, clamp01, termLo, termHi,
    Function.update, UNKNOWN, TRUE]

/-- exactly-one XOr(0,1) as the implementation builds it: node 5 = And(3,4) over the generated inner
nodes 2 = And(0,1), 3 = Not(2), 4 = Or(0,1), all run first by `upward` of node 5 -/
def xorKB : KB Nat ℚ := fun i =>
  match i with
  | 2 => { kind := .and, ops := [0, 1], ws := [1, 1], bias := 1, alpha := 1 }
  | 3 => { kind := .neg, ops := [2], bias := 1, alpha := 1 }
  | 4 => { kind := .or, ops := [0, 1], ws := [1, 1], bias := 1, alpha := 1 }
  | 5 => { kind := .and, ops := [3, 4], ws := [1, 1], bias := 1, alpha := 1, pre := [2, 3, 4] }
  | _ => { kind := .atom, bias := 1, alpha := 1 }

def xorV : Nat → ℚ := fun i =>
  match i with
  | 0 => 1 | 1 => 0 | 2 => 0 | 3 => 1 | 4 => 1 | 5 => 1 | _ => 0

theorem xor_wf : WF xorKB := by
  intro i
  unfold xorKB
  split <;> simp

theorem xor_consistent : Consistent xorKB xorV := by
  intro i
  match i with
  | 0 => simp [xorKB, xorV, nodeVal]
  | 1 => simp [xorKB, xorV, nodeVal]
  | 2 => simp [xorKB, xorV, nodeVal, clamp01]
  | 3 => simp [xorKB, xorV, nodeVal]
  | 4 => simp [xorKB, xorV, nodeVal, clamp01]
  | 5 => simp [xorKB, xorV, nodeVal, clamp01]
  | (n + 6) => simp [xorKB, xorV, nodeVal]

theorem xor_sat : Sat xorV iffS := by
  intro i
  match i with
  | 0 => simp [xorV, iffS]
  | 1 => simp [xorV, iffS]
  | 2 => simp [xorV, iffS]
  | 3 => simp [xorV, iffS]
  | 4 => simp [xorV, iffS]
  | 5 => simp [xorV, iffS]
  | (n + 6) => simp [xorV, iffS]

/-- the public call `XOr.upward()` evaluates the classical table entry `xor(1, 0) = 1` -/
example : (runPass xorKB ([5].map Call.up) iffS).1 5 = ⟨xorVal [1, 0], xorVal [1, 0]⟩ := by
  have h := C04_point_call xorKB xor_wf xorV xor_consistent iffS xor_sat [5]
    (by simp [expandUp, ChildrenFirst, ChildrenFirstFrom, xorKB, IsPoint, iffS, xorV])
    (by simp [expandUp, xorKB, nodeVal]) 5 (by simp [expandUp])
  rw [C04_classical_xor [1, 0] (by simp)]
  simpa [IsPoint, xorV] using h

/-! the classical tables on concrete lists -/

example : andVal1 [(1:ℚ), 1, 1] = 1 := by
  rw [C04_classical_and _ (by simp)]; simp
example : andVal1 [(1:ℚ), 0, 1] = 0 := by
  rw [C04_classical_and _ (by simp)]; simp
example : orVal1 [(0:ℚ), 0, 1] = 1 := by
  rw [C04_classical_or _ (by simp)]; simp
example : xorVal [(0:ℚ), 1, 0] = 1 := by
  rw [C04_classical_xor _ (by simp)]; simp
example : xorVal [(1:ℚ), 1, 0] = 0 := by
  rw [C04_classical_xor _ (by simp)]; simp
example : xorVal [(0:ℚ), 0, 0, 0] = 0 := by
  rw [C04_classical_xor _ (by simp)]; simp
example : pairs [1, 2, 3] = [(1, 2), (1, 3), (2, 3)] := rfl

/-! the Kleene tables on concrete lists -/

example : ∀ o ∈ [(⟨1, 1, 1⟩ : Opd ℚ), ⟨1, 0, 1⟩, ⟨1, 0, 0⟩], o.K3 := by
  simp [Opd.K3, Opd.bnd, FALSE, UNKNOWN, TRUE]

example : andUp (1:ℚ) [⟨1, 1, 1⟩, ⟨1, 0, 1⟩, ⟨1, 1, 1⟩] = UNKNOWN :=
  (C04_kleene_and _ (by simp [Opd.K3, Opd.bnd, FALSE, UNKNOWN, TRUE])).2.2
    (by simp [Opd.bnd, FALSE]) ⟨⟨1, 0, 1⟩, by simp, by simp [Opd.bnd, UNKNOWN]⟩

example : andUp (1:ℚ) [⟨1, 1, 1⟩, ⟨1, 0, 1⟩, ⟨1, 0, 0⟩] = FALSE :=
  (C04_kleene_and _ (by simp [Opd.K3, Opd.bnd, FALSE, UNKNOWN, TRUE])).1
    ⟨⟨1, 0, 0⟩, by simp, by simp [Opd.bnd, FALSE]⟩

example : orUp true (1:ℚ) [⟨1, 0, 0⟩, ⟨1, 0, 1⟩, ⟨1, 1, 1⟩] = TRUE :=
  (C04_kleene_or true _ (by simp [Opd.K3, Opd.bnd, FALSE, UNKNOWN, TRUE])).1
    ⟨⟨1, 1, 1⟩, by simp, by simp [Opd.bnd, TRUE]⟩

example : impliesUp (1:ℚ) [⟨1, 0, 1⟩, ⟨1, 0, 0⟩] = UNKNOWN :=
  (C04_kleene_implies _ _ (by simp [Opd.K3, Opd.bnd, FALSE, UNKNOWN, TRUE])
    (by simp [Opd.K3, Opd.bnd, FALSE, UNKNOWN, TRUE])).2.2.2
    (by simp [Opd.bnd, FALSE]) (by simp [Opd.bnd, TRUE]) (Or.inl (by simp [Opd.bnd, UNKNOWN]))

/-! the dualities on proper intervals with non-unit weights, and the necessity of the weight
hypothesis for the transparent Or variant -/

example : orUp true (3/4 : ℚ) [⟨1/2, 1/4, 1/2⟩, ⟨2, 0, 1/3⟩] = ⟨3/8, 1⟩ := by
  norm_num [orUp, clamp01]

example : negB (andUp (3/4 : ℚ) ([⟨1/2, 1/4, 1/2⟩, ⟨2, 0, 1/3⟩].map Opd.neg)) = ⟨3/8, 1⟩ := by
  norm_num [negB, andUp, Opd.neg, termLo, termHi, clamp01]

/-- with a negative weight the transparent Or activation is *not* the negated And of negations -/
example : orUp true (1:ℚ) [⟨-1, 0, 0⟩] ≠ negB (andUp 1 ([⟨-1, 0, 0⟩].map Opd.neg)) := by
  norm_num [orUp, negB, andUp, Opd.neg, termLo, termHi, clamp01]

end LNN
