/-
C10 — Results are deterministic and independent of hash seed and fact order.

The model is a pure function, so determinism in the sense "same input, same output" holds by
construction. The content of C10 is ORDER INDEPENDENCE. The model's tables are association lists
whose order records the order in which rows were created; everything the driver prints is sorted
by grounding, i.e. only the FINITE MAP `Table.denote : grounding ↦ (leaf bounds, working bounds)`
denoted by a table is observable. `TEq` (tables) and `SEq` (states) say "denote the same finite
maps". The theorems show that the table and grounding-management operations are functions of the
denoted maps and of the SETS of groundings / facts / rows / proposals they are given:

* tables: `addg` (= `_add_groundings`) depends only on the set of requested groundings;
  `addg`, `setB`, `addData`, `resetBounds`, `flushB`, `getD`, `has` respect `TEq`; any
  reordering of the rows of a duplicate-free table denotes the same map;
* facts: `add_data` for different groundings commutes; loading a dictionary of facts gives the same
  map for every order of its entries;
* duplicate merge: `mergeB` is commutative and associative, the merge of a non-empty list of
  candidates is invariant under permutation, and `writeMerged` (the downward write-back onto an
  operand table) returns the same table and the same amount for every order of the proposals;
* joins: membership in the rows of `foj` / `foldJoin` is determined by the membership predicates
  of the input rows (columns do not depend on the rows beyond emptiness);
* grounding management: `groundings` maps `SEq` states to `SEq` states and returns the same set
  of operator groundings;
* complete node-level calls: upward inference over a connective (`fUpConn`) and first-order
  negation in both directions (`fUpNot`, `fDownNot`) map `SEq` states to `SEq` states and report
  the same amount of change.

NOT covered by theorems:
* the implementation's hash function, `PYTHONHASHSEED`, dict / set iteration order and pandas'
  row order themselves. These are not modelled; the tie between the implementation and this
  order-free reading is the correspondence run, executed under several `PYTHONHASHSEED` values and
  several fact orders against the model's output sorted by grounding;
* a `SEq`-congruence for the downward pass of a connective (`fDownConn`), for the quantifiers
  and hence for `fInfer` as a whole: for `fDownConn` the order-sensitive ingredients are proved
  (grounding management `C10_groundings_congr`, and the write-back `C10_writeMerged_perm`, which is
  invariant under permutation of the proposals), not their composition; the quantifiers are not
  treated here.
-/
import LnnVerif.Lemmas.Join
import Mathlib.Algebra.Order.Field.Rat
import Mathlib.Tactic.NormNum

namespace LNN

open Join

variable {ι : Type} [DecidableEq ι] {α : Type}

/-! ### `TEq` is an equivalence; what it preserves -/

theorem C10_TEq_refl (t : Table α) : TEq t t := TEq.refl t
theorem C10_TEq_symm {t t' : Table α} (h : TEq t t') : TEq t' t := h.symm
theorem C10_TEq_trans {t t' t'' : Table α} (h : TEq t t') (h' : TEq t' t'') : TEq t t'' := h.trans h'

/-- the same groundings are stored -/
theorem C10_keys_congr {t t' : Table α} (h : TEq t t') (g : Gr) : g ∈ t.keys ↔ g ∈ t'.keys :=
  h.mem_keys g

theorem C10_has_congr {t t' : Table α} (h : TEq t t') (g : Gr) : t.has g = t'.has g := h.has g

/-- `get_data` reads the same bounds -/
theorem C10_getD_congr {t t' : Table α} (h : TEq t t') (w : Bounds α) (g : Gr) :
    Table.getD w t g = Table.getD w t' g := h.getD w g

/-- Reordering the rows of a table without duplicate keys does not change the map it denotes. -/
theorem C10_perm_TEq {t t' : Table α} (h : t.Perm t') (hn : t.keys.Nodup) : TEq t t' := by
  induction h with
  | nil => exact TEq.refl _
  | cons x _ ih =>
    intro g
    simp only [Table.keys, List.map_cons, List.nodup_cons] at hn
    rw [denote_cons, denote_cons, ih hn.2 g]
  | swap x y l =>
    intro g
    simp only [Table.keys, List.map_cons, List.nodup_cons, List.mem_cons, not_or] at hn
    rw [denote_cons, denote_cons, denote_cons, denote_cons]
    by_cases hx : x.g = g
    · have hy : ¬ y.g = g := fun e => hn.1.1 (e.trans hx.symm)
      simp [hx, hy]
    · simp [hx]
  | trans h1 _ ih1 ih2 =>
    have hn2 : (Table.keys _).Nodup := (List.Perm.nodup_iff (h1.map (fun r : Row α => r.g))).mp hn
    exact (ih1 hn).trans (ih2 hn2)

/-! ### the table operations as map operations -/

/-- `_add_groundings`: stored entries win; missing requested groundings appear at the world
default; only membership in `gs` enters. -/
theorem C10_denote_addg (w : Bounds α) (t : Table α) (gs : List Gr) (g : Gr) :
    Table.denote (Table.addg w t gs) g =
      (Table.denote t g).or (if g ∈ gs then some (w, w) else none) :=
  denote_addg w g gs t

/-- `add_data`: plain update of the map at `g`. -/
theorem C10_denote_addData (w : Bounds α) (t : Table α) (g : Gr) (b : Bounds α) (g' : Gr) :
    Table.denote (Table.addData w t g b) g' = if g' = g then some (b, b) else Table.denote t g' :=
  denote_addData w t g b g'

theorem C10_denote_setB (t : Table α) (g : Gr) (b : Bounds α) (g' : Gr) :
    Table.denote (t.setB g b) g' =
      if g' = g then (Table.denote t g').map (fun x => (x.1, b)) else Table.denote t g' :=
  denote_setB t g b g'

/-! ### creation of rows -/

/-- The order in which groundings are created is irrelevant. -/
theorem C10_addg_perm (w : Bounds α) (t : Table α) {gs gs' : List Gr} (h : gs.Perm gs') :
    TEq (Table.addg w t gs) (Table.addg w t gs') :=
  (TEq.refl t).addg w fun _ => h.mem_iff

/-- Stronger: only the SET of requested groundings matters (duplicates, too, are irrelevant),
together with congruence in the table. -/
theorem C10_addg_set (w : Bounds α) {t t' : Table α} (h : TEq t t') {gs gs' : List Gr}
    (hg : ∀ g, g ∈ gs ↔ g ∈ gs') : TEq (Table.addg w t gs) (Table.addg w t' gs') :=
  h.addg w hg

theorem C10_addg_congr (w : Bounds α) {t t' : Table α} (h : TEq t t') (gs : List Gr) :
    TEq (Table.addg w t gs) (Table.addg w t' gs) :=
  h.addg w fun _ => Iff.rfl

theorem C10_setB_congr {t t' : Table α} (h : TEq t t') (g : Gr) (b : Bounds α) :
    TEq (t.setB g b) (t'.setB g b) := h.setB g b

theorem C10_addData_congr (w : Bounds α) {t t' : Table α} (h : TEq t t') (g : Gr) (b : Bounds α) :
    TEq (Table.addData w t g b) (Table.addData w t' g b) := h.addData w g b

theorem C10_resetBounds_congr {t t' : Table α} (h : TEq t t') : TEq t.resetBounds t'.resetBounds :=
  h.resetBounds

theorem C10_flushB_congr {t t' : Table α} (h : TEq t t') (b : Bounds α) :
    TEq (Table.flushB b t) (Table.flushB b t') := h.flushB b

/-- `flush()` / `reset_world()` -/
theorem C10_assertAll_congr {t t' : Table α} (h : TEq t t') (b : Bounds α) :
    TEq (Table.assertAll b t) (Table.assertAll b t') := h.assertAll b

/-! ### facts -/

/-- Facts for different groundings commute: the order of the entries of a data dict is
irrelevant. -/
theorem C10_addData_comm (w : Bounds α) (t : Table α) {g₁ g₂ : Gr} (hne : g₁ ≠ g₂) (b₁ b₂ : Bounds α) :
    TEq (Table.addData w (Table.addData w t g₁ b₁) g₂ b₂)
      (Table.addData w (Table.addData w t g₂ b₂) g₁ b₁) := by
  intro g
  simp only [denote_addData]
  by_cases h1 : g = g₁
  · simp [h1, hne]
  · simp [h1]

/-- A fact for the same grounding overwrites: the last one wins (so distinctness IS needed for
commutation). -/
theorem C10_addData_overwrite (w : Bounds α) (t : Table α) (g : Gr) (b₁ b₂ : Bounds α) :
    TEq (Table.addData w (Table.addData w t g b₁) g b₂) (Table.addData w t g b₂) := by
  intro g'
  simp only [denote_addData]
  split <;> rfl

/-- The map after loading a dictionary of facts (pairwise distinct groundings). -/
theorem C10_denote_load (w : Bounds α) (t : Table α) (fs : List (Gr × Bounds α))
    (hn : (fs.map (·.1)).Nodup) (g : Gr) :
    (∀ b, (g, b) ∈ fs → Table.denote (loadFacts w t fs) g = some (b, b)) ∧
      (g ∉ fs.map (·.1) → Table.denote (loadFacts w t fs) g = Table.denote t g) :=
  ⟨fun b hb => denote_loadFacts_of_mem w g b fs t hn hb, denote_loadFacts_of_not_mem w g fs t⟩

/-- Loading the same facts in any order gives the same table (as a map). -/
theorem C10_load_perm (w : Bounds α) (t : Table α) {fs fs' : List (Gr × Bounds α)}
    (hn : (fs.map (·.1)).Nodup) (hp : fs.Perm fs') :
    TEq (fs.foldl (fun t f => Table.addData w t f.1 f.2) t)
      (fs'.foldl (fun t f => Table.addData w t f.1 f.2) t) := by
  intro g
  show Table.denote (loadFacts w t fs) g = Table.denote (loadFacts w t fs') g
  have hn' : (fs'.map (·.1)).Nodup := (List.Perm.nodup_iff (hp.map _)).mp hn
  by_cases hg : g ∈ fs.map (·.1)
  · obtain ⟨f, hf, rfl⟩ := List.mem_map.mp hg
    rw [denote_loadFacts_of_mem w f.1 f.2 fs t hn hf,
      denote_loadFacts_of_mem w f.1 f.2 fs' t hn' (hp.mem_iff.mp hf)]
  · have hg' : g ∉ fs'.map (·.1) := fun h => hg ((hp.map _).mem_iff.mpr h)
    rw [denote_loadFacts_of_not_mem w g fs t hg, denote_loadFacts_of_not_mem w g fs' t hg']

/-- … also starting from tables that are only `TEq`. -/
theorem C10_load_perm_congr (w : Bounds α) {t t' : Table α} (h : TEq t t')
    {fs fs' : List (Gr × Bounds α)} (hn : (fs.map (·.1)).Nodup) (hp : fs.Perm fs') :
    TEq (loadFacts w t fs) (loadFacts w t' fs') :=
  (C10_load_perm w t hn hp).trans (loadFacts_congr w fs' h)

/-! ### the duplicate merge of the downward write-back -/

section Merge
variable [LinearOrder α]

theorem C10_mergeB_comm (a b : Bounds α) : mergeB a b = mergeB b a := mergeB_comm a b

theorem C10_mergeB_assoc (a b c : Bounds α) : mergeB (mergeB a b) c = mergeB a (mergeB b c) :=
  mergeB_assoc a b c

/-- common first element: the remaining candidates may come in any order -/
theorem C10_foldl_mergeB_perm {cands cands' : List (Bounds α)} (h : cands.Perm cands')
    (c : Bounds α) : cands.foldl mergeB c = cands'.foldl mergeB c :=
  foldl_mergeB_perm h c

/-- symmetric formulation: `mergeAll (c :: cs) = some (cs.foldl mergeB c)` is invariant under
every permutation of the whole non-empty candidate list (the first element may change). -/
theorem C10_mergeAll_perm {l l' : List (Bounds α)} (h : l.Perm l') : mergeAll l = mergeAll l' :=
  mergeAll_perm h

theorem C10_mergeB_comm_assoc :
    (∀ a b : Bounds α, mergeB a b = mergeB b a) ∧
      (∀ a b c : Bounds α, mergeB (mergeB a b) c = mergeB a (mergeB b c)) ∧
      (∀ l l' : List (Bounds α), l.Perm l' → mergeAll l = mergeAll l') :=
  ⟨mergeB_comm, mergeB_assoc, fun _ _ h => mergeAll_perm h⟩

end Merge

/-- `writeMerged` — the complete write-back of downward proposals onto one operand table, with the
`duplicates=True` merge — returns the same table (as a value) and the same amount for every
order of the proposals. -/
theorem C10_writeMerged_perm [Field α] [LinearOrder α] (t : Table α)
    {props props' : List (Gr × Bounds α)} (h : props.Perm props') :
    writeMerged t props = writeMerged t props' :=
  writeMerged_perm t h

/-! ### joins -/

/-- Permuting the rows of the left input keeps the set of rows (and the columns) of the join. -/
theorem C10_foj_rows_perm (c1 : List Nat) {rows1 rows1' : List (List Nat)} (T2 : Rel)
    (h : rows1.Perm rows1') :
    (foj ⟨c1, rows1⟩ T2).cols = (foj ⟨c1, rows1'⟩ T2).cols ∧
      ∀ r, r ∈ (foj ⟨c1, rows1⟩ T2).rows ↔ r ∈ (foj ⟨c1, rows1'⟩ T2).rows :=
  foj_congr (T1 := ⟨c1, rows1⟩) (T1' := ⟨c1, rows1'⟩) ⟨rfl, RowsEq.of_perm h⟩ (RelEq.refl T2)

/-- Stronger, both sides: membership in the rows of a join is determined by the membership
predicates of the inputs. `RelEq R R' := R.cols = R'.cols ∧ ∀ r, r ∈ R.rows ↔ r ∈ R'.rows`. -/
theorem C10_foj_congr {T1 T1' T2 T2' : Rel} (h1 : RelEq T1 T1') (h2 : RelEq T2 T2') :
    RelEq (foj T1 T2) (foj T1' T2') :=
  foj_congr h1 h2

/-- The n-ary join: same shape, same columns, same set of rows. -/
theorem C10_foldJoin_congr {rs rs' : List Rel} (h : List.Forall₂ RelEq rs rs') :
    (foldJoin rs = none ∧ foldJoin rs' = none) ∨
      ∃ J J', foldJoin rs = some J ∧ foldJoin rs' = some J' ∧ RelEq J J' :=
  foldJoin_congr h

/-! ### grounding management -/

theorem C10_set_congr {s s' : FState ι α} (h : SEq s s') (i : ι) {t t' : Table α} (ht : TEq t t') :
    SEq (s.set i t) (s'.set i t') := h.set i ht

/-- Grounding management of a connective (both the union branch and the join branch, upward and
downward) is a function of the denoted maps: `SEq` states go to `SEq` states, both calls agree on
whether there is something to do, and they return the same SET of operator groundings. -/
theorem C10_groundings_congr (kb : FKB ι α) (i : ι) (down : Bool) {s s' : FState ι α}
    (h : SEq s s') :
    SEq (groundings kb i down s).1 (groundings kb i down s').1 ∧
      (((groundings kb i down s).2 = none ∧ (groundings kb i down s').2 = none) ∨
        ∃ ogs per ogs' per', (groundings kb i down s).2 = some (ogs, per) ∧
          (groundings kb i down s').2 = some (ogs', per') ∧ ∀ g, g ∈ ogs ↔ g ∈ ogs') :=
  groundings_congr kb i down h

/-! ### complete node-level calls -/

section Calls
variable [Field α] [LinearOrder α] [IsStrictOrderedRing α]

/-- UPWARD INFERENCE OVER A CONNECTIVE IS ORDER-FREE. On states that denote the same finite maps
(tables filled in any order) `fUpConn` produces states that denote the same finite maps and reports
the same amount. Covers both branches (union and join), the creation of rows, the contradiction
filter, the activation and the aggregation; operator groundings may even be listed with different
multiplicities. `hslots`: the variable maps only use the slots `0 … numVars-1`. -/
theorem C10_fUpConn_congr (kb : FKB ι α) (i : ι) {s s' : FState ι α} (h : SEq s s')
    (hslots : ∀ m ∈ (kb i).opmap, ∀ c ∈ m, c < numVars (kb i)) :
    SEq (fUpConn kb i s).1 (fUpConn kb i s').1 ∧ (fUpConn kb i s).2 = (fUpConn kb i s').2 :=
  fUpConn_congr kb i h hslots

theorem C10_fUpNot_congr (kb : FKB ι α) (i : ι) {s s' : FState ι α} (h : SEq s s') :
    SEq (fUpNot kb i s).1 (fUpNot kb i s').1 ∧ (fUpNot kb i s).2 = (fUpNot kb i s').2 :=
  fUpNot_congr kb i h

theorem C10_fDownNot_congr (kb : FKB ι α) (i : ι) {s s' : FState ι α} (h : SEq s s') :
    SEq (fDownNot kb i s).1 (fDownNot kb i s').1 ∧ (fDownNot kb i s).2 = (fDownNot kb i s').2 :=
  fDownNot_congr kb i h

/-- The aggregation fold used by the upward passes: if every grounding always carries the same
proposal, the result (table and amount, as values) depends only on the SET of proposals. -/
theorem C10_aggregation_fold_set {l l' : List (Gr × Bounds α)}
    (hfun : ∀ x ∈ l, ∀ y ∈ l, x.1 = y.1 → x = y) (hset : ∀ y, y ∈ l ↔ y ∈ l')
    (z : Table α × α) : l.foldl stepA z = l'.foldl stepA z :=
  foldl_stepA_set hfun hset z

end Calls

/-! ### examples: two insertion orders, one map -/

def c10w : Bounds ℚ := ⟨0, 1⟩

/-- P(1,2) := TRUE then P(3,4) := FALSE … -/
def c10tA : Table ℚ := loadFacts c10w [] [([1, 2], ⟨1, 1⟩), ([3, 4], ⟨0, 0⟩)]
/-- … and in the other order -/
def c10tB : Table ℚ := loadFacts c10w [] [([3, 4], ⟨0, 0⟩), ([1, 2], ⟨1, 1⟩)]

/-- the association lists really differ … -/
example : c10tA.keys = [[1, 2], [3, 4]] ∧ c10tB.keys = [[3, 4], [1, 2]] := by
  simp [c10tA, c10tB, loadFacts, Table.addData, Table.addg, Table.has, Table.find?, Table.keys]

/-- … but denote the same map (by the theorem) … -/
example : TEq c10tA c10tB :=
  C10_load_perm c10w [] (by decide) (List.Perm.swap _ _ _)

/-- … with the expected entries -/
example : Table.denote c10tA [3, 4] = some (⟨0, 0⟩, ⟨0, 0⟩) ∧
    Table.denote c10tB [3, 4] = some (⟨0, 0⟩, ⟨0, 0⟩) ∧ Table.denote c10tB [5, 6] = none := by
  refine ⟨?_, ?_, ?_⟩
  · exact (C10_denote_load c10w [] _ (by decide) [3, 4]).1 _ (by simp)
  · exact (C10_denote_load c10w [] _ (by decide) [3, 4]).1 _ (by simp)
  · rw [c10tB, (C10_denote_load c10w [] _ (by decide) [5, 6]).2 (by decide)]
    rfl

/-- rows created in two orders -/
example : TEq (Table.addg c10w c10tA [[7, 8], [1, 2], [9, 9]])
    (Table.addg c10w c10tB [[9, 9], [7, 8], [1, 2], [7, 8]]) :=
  C10_addg_set c10w (C10_load_perm c10w [] (by decide) (List.Perm.swap _ _ _))
    (by intro g; simp only [List.mem_cons, List.not_mem_nil, or_false]; tauto)

/-- the merge of three candidates in two orders -/
example : mergeAll [(⟨0, 1⟩ : Bounds ℚ), ⟨1/4, 3/4⟩, ⟨1/2, 1⟩] = some ⟨1/2, 3/4⟩ ∧
    mergeAll [(⟨1/2, 1⟩ : Bounds ℚ), ⟨0, 1⟩, ⟨1/4, 3/4⟩] = some ⟨1/2, 3/4⟩ := by
  constructor <;> simp [mergeAll, mergeB] <;> norm_num

/-- a join with the rows of both inputs reordered: same set of rows, different order -/
example : (foj ⟨[0, 1], [[3, 4], [1, 2]]⟩ ⟨[1, 2], [[4, 6], [2, 5]]⟩).rows =
      [[3, 6, 4], [3, 5, 4], [1, 6, 2], [1, 5, 2], [3, 5, 2], [1, 6, 4]] ∧
    (foj ⟨[0, 1], [[1, 2], [3, 4]]⟩ ⟨[1, 2], [[2, 5], [4, 6]]⟩).rows =
      [[1, 5, 2], [1, 6, 2], [3, 5, 4], [3, 6, 4], [1, 6, 4], [3, 5, 2]] := by decide

/-- engine level: And(P(x,y), Q(y,z)) as node 2 over the predicates 0 and 1; the same facts
stored in two different row orders -/
def c10KB : FKB Nat ℚ := fun i =>
  match i with
  | 2 => { kind := .and, ops := [0, 1], ws := [1, 1], bias := 1, alpha := 1,
           opmap := [[0, 1], [1, 2]], world := ⟨0, 1⟩ }
  | _ => { kind := .pred, bias := 1, alpha := 1, world := ⟨0, 1⟩ }

def c10S : FState Nat ℚ :=
  ⟨[(0, [⟨[1, 2], ⟨1, 1⟩, ⟨1, 1⟩⟩, ⟨[3, 4], ⟨1/2, 1⟩, ⟨1/2, 1⟩⟩]),
    (1, [⟨[2, 5], ⟨1, 1⟩, ⟨1, 1⟩⟩, ⟨[4, 6], ⟨0, 1/4⟩, ⟨0, 1/4⟩⟩])]⟩

def c10S' : FState Nat ℚ :=
  ⟨[(1, [⟨[4, 6], ⟨0, 1/4⟩, ⟨0, 1/4⟩⟩, ⟨[2, 5], ⟨1, 1⟩, ⟨1, 1⟩⟩]),
    (0, [⟨[3, 4], ⟨1/2, 1⟩, ⟨1/2, 1⟩⟩, ⟨[1, 2], ⟨1, 1⟩, ⟨1, 1⟩⟩])]⟩

theorem c10S_SEq : SEq c10S c10S' := by
  intro j
  by_cases h0 : j = 0
  · subst h0
    exact C10_perm_TEq (List.Perm.swap _ _ _) (by decide)
  · by_cases h1 : j = 1
    · subst h1
      exact C10_perm_TEq (List.Perm.swap _ _ _) (by decide)
    · have e : c10S.get j = [] := by
        simp [FState.get, c10S, Ne.symm h0, Ne.symm h1]
      have e' : c10S'.get j = [] := by
        simp [FState.get, c10S', Ne.symm h0, Ne.symm h1]
      rw [e, e']
      exact TEq.refl _

theorem c10KB_slots : ∀ m ∈ (c10KB 2).opmap, ∀ c ∈ m, c < numVars (c10KB 2) := by decide

/-- the upward pass over the conjunction gives the same maps and the same amount from both
row orders -/
example : SEq (fUpConn c10KB 2 c10S).1 (fUpConn c10KB 2 c10S').1 ∧
    (fUpConn c10KB 2 c10S).2 = (fUpConn c10KB 2 c10S').2 :=
  C10_fUpConn_congr c10KB 2 c10S_SEq c10KB_slots

end LNN
