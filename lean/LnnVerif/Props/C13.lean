/-
C13 — Reported amounts are zero exactly when nothing changed.

Every public call returns the summed `|ΔL| + |ΔU|` of all aggregations it performed. For every
knowledge base and every state with bounds in `[0,1]`:

* the amount is never negative;
* it is `0` if and only if the call left the state unchanged — for one aggregation, one primitive
  upward/downward step (also when one operand occurs several times and is therefore written
  several times), any list of steps (every public node-level call incl. Iff/XOr composites, every
  pass over any schedule), a sweep and a whole `infer` run;
* hence a pass over an unchanged model reports zero;
* the amount is exactly the loss of the potential `Φ = Σ (U - L)` over any duplicate-free list of
  nodes outside which the call changed nothing, and at least that loss over any duplicate-free list.

"if" needs the range hypothesis (it uses that inference only tightens, C05): with bounds outside
`[0,1]` two successive writes to the same operand could cancel.
-/
import LnnVerif.Lemmas.Basic
import Mathlib.Algebra.Order.Field.Rat
import Mathlib.Tactic.NormNum
import LnnVerif.Lemmas.PendLemmas
import LnnVerif.Lemmas.FolAmount
import LnnVerif.Lemmas.FolRestrict

set_option linter.unusedSectionVars false

namespace LNN

variable {ι : Type} [DecidableEq ι] {α : Type} [Field α] [LinearOrder α] [IsStrictOrderedRing α]

/-! ### one aggregation (no hypothesis) -/

theorem C13_aggregate_nonneg (sel : BoundSel) (prev new : Bounds α) :
    0 ≤ (aggregate sel prev new).2 :=
  aggregate_amount_nonneg sel prev new

theorem C13_aggregate_zero_iff (sel : BoundSel) (prev new : Bounds α) :
    (aggregate sel prev new).2 = 0 ↔ (aggregate sel prev new).1 = prev :=
  aggregate_amount_zero_iff sel prev new

/-! ### steps, calls, passes, sweeps, infer -/

theorem C13_step_nonneg (kb : KB ι α) (st : Step ι) (s : State ι α) : 0 ≤ (runStep kb st s).2 :=
  (runStep_writes kb st s).nonneg

/-- one primitive step (`node.upward()`, `node.downward(index)`) -/
theorem C13_step (kb : KB ι α) (st : Step ι) (s : State ι α) (hs : StateInUnit s) :
    (runStep kb st s).2 = 0 ↔ (runStep kb st s).1 = s :=
  (runStep_writes kb st s).zero_iff hs

theorem C13_steps_nonneg (kb : KB ι α) (steps : List (Step ι)) (s : State ι α) :
    0 ≤ (runSteps kb steps s).2 :=
  (runSteps_writes kb steps s).nonneg

/-- any list of primitive steps -/
theorem C13_steps (kb : KB ι α) (steps : List (Step ι)) (s : State ι α) (hs : StateInUnit s) :
    (runSteps kb steps s).2 = 0 ↔ (runSteps kb steps s).1 = s :=
  (runSteps_writes kb steps s).zero_iff hs

/-- every public node-level call, composite formulae (Iff, XOr) included -/
theorem C13_call (kb : KB ι α) (c : Call ι) (s : State ι α) (hs : StateInUnit s) :
    (runSteps kb (c.steps kb) s).2 = 0 ↔ (runSteps kb (c.steps kb) s).1 = s :=
  C13_steps kb _ s hs

theorem C13_pass_nonneg (kb : KB ι α) (sched : List (Call ι)) (s : State ι α) :
    0 ≤ (runPass kb sched s).2 :=
  (runPass_writes kb sched s).nonneg

/-- a model-level pass over any schedule -/
theorem C13_pass (kb : KB ι α) (sched : List (Call ι)) (s : State ι α) (hs : StateInUnit s) :
    (runPass kb sched s).2 = 0 ↔ (runPass kb sched s).1 = s :=
  (runPass_writes kb sched s).zero_iff hs

theorem C13_sweep_nonneg (kb : KB ι α) (cfg : InferCfg ι α) (s : State ι α) :
    0 ≤ (sweep kb cfg s).2 :=
  (sweep_writes kb cfg s).nonneg

theorem C13_sweep (kb : KB ι α) (cfg : InferCfg ι α) (s : State ι α) (hs : StateInUnit s) :
    (sweep kb cfg s).2 = 0 ↔ (sweep kb cfg s).1 = s :=
  (sweep_writes kb cfg s).zero_iff hs

theorem C13_infer_nonneg (kb : KB ι α) (cfg : InferCfg ι α) (fuel : Nat) (s : State ι α) :
    0 ≤ (infer kb cfg fuel s).total :=
  (infer_writes kb cfg fuel s).nonneg

/-- the total reported by `infer` -/
theorem C13_infer (kb : KB ι α) (cfg : InferCfg ι α) (fuel : Nat) (s : State ι α)
    (hs : StateInUnit s) : (infer kb cfg fuel s).total = 0 ↔ (infer kb cfg fuel s).state = s :=
  (infer_writes kb cfg fuel s).zero_iff hs

/-- a pass that changes nothing reports zero -/
theorem C13_second_pass_zero (kb : KB ι α) (sched : List (Call ι)) (s : State ι α)
    (hs : StateInUnit s) (h : (runPass kb sched s).1 = s) : (runPass kb sched s).2 = 0 :=
  (C13_pass kb sched s hs).mpr h

/-- "a second identical pass over an unchanged model reports zero" -/
theorem C13_second_pass_zero' (kb : KB ι α) (sched : List (Call ι)) (s : State ι α)
    (hs : StateInUnit s)
    (h : (runPass kb sched (runPass kb sched s).1).1 = (runPass kb sched s).1) :
    (runPass kb sched (runPass kb sched s).1).2 = 0 :=
  C13_second_pass_zero kb sched _ ((runPass_writes kb sched s).inUnit hs) h

/-- a zero-amount step list is a fixpoint of each of its steps, and conversely -/
theorem C13_steps_zero_iff_each (kb : KB ι α) (steps : List (Step ι)) (s : State ι α)
    (hs : StateInUnit s) :
    (runSteps kb steps s).2 = 0 ↔ ∀ st ∈ steps, (runStep kb st s).2 = 0 := by
  rw [C13_steps kb steps s hs, runSteps_eq_self_iff kb steps s hs]
  constructor
  · intro h st hst; exact (C13_step kb st s hs).mpr (h st hst)
  · intro h st hst; exact (C13_step kb st s hs).mp (h st hst)

/-! ### the amount as a loss of potential -/

/-- over any duplicate-free node list the reported amount is at least the loss of potential -/
theorem C13_amount_ge_potential_drop (kb : KB ι α) (steps : List (Step ι)) (s : State ι α)
    (hs : StateInUnit s) (nodes : List ι) (hnd : nodes.Nodup) :
    (runSteps kb steps s).2 ≥ Phi nodes s - Phi nodes (runSteps kb steps s).1 :=
  (runSteps_writes kb steps s).potential_le hs nodes hnd

/-- ... and exactly that loss when nothing changed outside the list — even when a node is written
several times (by several steps, or as a repeated operand within one downward step) -/
theorem C13_amount_eq_potential_drop (kb : KB ι α) (steps : List (Step ι)) (s : State ι α)
    (hs : StateInUnit s) (nodes : List ι) (hnd : nodes.Nodup)
    (hframe : ∀ j, j ∉ nodes → (runSteps kb steps s).1 j = s j) :
    (runSteps kb steps s).2 = Phi nodes s - Phi nodes (runSteps kb steps s).1 :=
  (runSteps_writes kb steps s).potential_eq hs nodes hnd hframe

/-- a syntactic sufficient condition for the frame hypothesis: the list contains the node of every
upward step and the operands of every downward step -/
theorem C13_amount_eq_potential_drop' (kb : KB ι α) (steps : List (Step ι)) (s : State ι α)
    (hs : StateInUnit s) (nodes : List ι) (hnd : nodes.Nodup)
    (hall : ∀ st ∈ steps, ∀ j ∈ st.targets kb, j ∈ nodes) :
    (runSteps kb steps s).2 = Phi nodes s - Phi nodes (runSteps kb steps s).1 :=
  C13_amount_eq_potential_drop kb steps s hs nodes hnd
    (fun j hj => runSteps_frame kb steps s j (fun st hst hmem => hj (hall st hst j hmem)))

/-! ### non-vacuity over `ℚ` -/

def c13KB : KB Nat ℚ := fun i =>
  match i with
  | 2 => { kind := .and, ops := [0, 1], ws := [1/2, 2], bias := 1, alpha := 1 }
  | _ => { kind := .atom, bias := 1, alpha := 1 }

def c13S : State Nat ℚ := fun i =>
  match i with
  | 0 => ⟨1/2, 1/2⟩ | 1 => ⟨1/2, 1⟩ | 2 => ⟨1/4, 1⟩ | _ => ⟨0, 1⟩

example : StateInUnit c13S := by
  intro i
  unfold c13S InUnit
  split <;> norm_num

/-- the first downward call changes operand 1 (`[1/2,1]` to `[3/4,1]`) and reports `1/4` ... -/
example : (runPass c13KB [Call.down 2 none] c13S).2 = 1/4 := by
  simp [runPass, passSteps, Call.steps, callDown, runSteps, runStep, stepDown, c13KB, c13S,
    arrested, isContra, region, actDown, andDown, opds, writeOps, enumFrom, aggregate, clamp01,
    termHi, sumW, Function.update]
  norm_num

/-- the state after that call -/
def c13T : State Nat ℚ := fun i =>
  match i with
  | 0 => ⟨1/2, 1/2⟩ | 1 => ⟨3/4, 1⟩ | 2 => ⟨1/4, 1⟩ | _ => ⟨0, 1⟩

example : (runPass c13KB [Call.down 2 none] c13S).1 1 = c13T 1 := by
  simp [runPass, passSteps, Call.steps, callDown, runSteps, runStep, stepDown, c13KB, c13S, c13T,
    arrested, isContra, region, actDown, andDown, opds, writeOps, enumFrom, aggregate, clamp01,
    termHi, sumW, Function.update]
  norm_num

/-- ... on the resulting state the same call reports zero ... -/
theorem c13T_zero : (runPass c13KB [Call.down 2 none] c13T).2 = 0 := by
  simp [runPass, passSteps, Call.steps, callDown, runSteps, runStep, stepDown, c13KB, c13T,
    arrested, isContra, region, actDown, andDown, opds, writeOps, enumFrom, aggregate, clamp01,
    termHi, sumW, Function.update]
  norm_num

theorem c13T_unit : StateInUnit c13T := by
  intro i
  unfold c13T InUnit
  split <;> norm_num

/-- ... and hence (by `C13_pass`) changes nothing -/
example : (runPass c13KB [Call.down 2 none] c13T).1 = c13T :=
  (C13_pass _ _ _ c13T_unit).mp c13T_zero

/-- the reported `1/4` is the loss of potential -/
example : Phi [0, 1, 2] c13S - Phi [0, 1, 2] c13T = 1/4 := by
  simp [Phi, c13S, c13T]; norm_num
/-! ### grounding propagation through a partially quantified formula reports nothing and moves nothing -/

section pend

variable {ι : Type} [DecidableEq ι] {α : Type} [Field α] [LinearOrder α]

/-- the amount a layered call reports is the amount of the plain call, made on a state in which
every grounding of every formula reads exactly as before the propagation step -/
theorem C13_layer_amount (kb : FKB ι α) (i : ι) (idx : Option Nat) (p : PState ι α) :
    (pUp kb i p).2 = (fUp kb i p.st).2 ∧
    (pDown kb i idx p).2 = (fDown kb i idx (preDown kb i p).st).2 ∧
    ∀ k g, Table.getD (kb k).world ((preDown kb i p).st.get k) g = Table.getD (kb k).world (p.st.get k) g :=
  ⟨rfl, rfl, fun k g => preDown_read kb i p k g⟩

end pend

/-! ### first-order tables and quantifiers: the reported amount is zero exactly when no query changed

`reads kb s i g` is what `get_data(g)` of formula `i` returns (the stored bounds, else the world
default). For every first-order knowledge base with world defaults in [0,1], every state in [0,1]
and every node kind: a call — and any sequence of calls — reports a non-negative amount, and
reports 0 if and only if every grounding of every formula reads exactly as before (rows created
at their world default change no read). -/

section fol

variable {ι : Type} [DecidableEq ι] {α : Type} [Field α] [LinearOrder α] [IsStrictOrderedRing α]

open FolAmount

theorem C13_fol_nonneg (kb : FKB ι α) (cs : List (FCall ι)) (s : FState ι α) :
    0 ≤ (runFCalls kb cs s).2 :=
  runFCalls_amount_nonneg kb cs s

theorem C13_fol_up_zero_iff (kb : FKB ι α) (hw : FolAmount.WorldsInUnit kb) (i : ι) (s : FState ι α)
    (hs : SInUnit s) : (fUp kb i s).2 = 0 ↔ SameReads kb s (fUp kb i s).1 :=
  fUp_amount_zero_iff kb hw i s hs

theorem C13_fol_down_zero_iff (kb : FKB ι α) (hw : FolAmount.WorldsInUnit kb) (i : ι) (idx : Option Nat)
    (s : FState ι α) (hs : SInUnit s) : (fDown kb i idx s).2 = 0 ↔ SameReads kb s (fDown kb i idx s).1 :=
  fDown_amount_zero_iff kb hw i idx s hs

/-- a whole pass (any schedule) -/
theorem C13_fol_pass_zero_iff (kb : FKB ι α) (hw : FolAmount.WorldsInUnit kb) (cs : List (FCall ι))
    (s : FState ι α) (hs : SInUnit s) :
    (runFCalls kb cs s).2 = 0 ↔ SameReads kb s (runFCalls kb cs s).1 :=
  runFCalls_amount_zero_iff kb hw cs s hs

end fol

/-! ### grounding-restricted node-level calls report 0 exactly when no read changed -/

section restricted

variable {ι : Type} [DecidableEq ι] {α : Type} [Field α] [LinearOrder α] [IsStrictOrderedRing α]

theorem C13_fol_restricted (kb : FKB ι α) (hw : FolAmount.WorldsInUnit kb) (i : ι) (idx : Option Nat)
    (restrict : Option (List Gr)) (p : PState ι α) (hs : FolAmount.SInUnit p.st) :
    ((pUpR kb i restrict p).2 = 0 ↔ FolAmount.SameReads kb p.st (pUpR kb i restrict p).1.st) ∧
    ((pDownR kb i idx restrict p).2 = 0 ↔ FolAmount.SameReads kb p.st (pDownR kb i idx restrict p).1.st) :=
  ⟨FolRestrict.pUpR_amount_zero_iff kb hw i restrict p hs,
   FolRestrict.pDownR_amount_zero_iff kb hw i idx restrict p hs⟩

end restricted

end LNN
