/-
C18 — Training preserves facts, keeps parameters admissible, ends in an inferred state.

`Model.train()` is modelled in `Model/Train.lean` with the optimiser abstracted to an ARBITRARY
function `cfg.opt` of the epoch number, the current parameters and the inferred bounds (so any
gradient rule, any learning rate, also updates that are negative or huge), an arbitrary number of
optimiser steps and an arbitrary knowledge-base skeleton (any graph, any alphas, any schedules).

* facts: the asserted facts (`leaves`) are never changed. Labels are not part of the mutable
  training state at all (`TrainState` has the fields `params`, `leaves`, `cur` only; labels only
  occur as an argument of the supervised loss), so there is nothing training could change;
* parameters: after every epoch that takes an optimiser step, and hence after every run with at
  least one step, operand weights are non-negative (unless negative weights were requested for
  that neuron, in which case the projection leaves them exactly as the optimiser set them), biases
  are non-negative, and the number of weights of every neuron is unchanged by the projection.
  With zero steps the parameters are the initial ones, so the statement needs the initial
  parameters to be admissible. "All parameters are finite" holds by construction: parameters are
  elements of an ordered field, which has no infinities or NaN (the theorems do not speak about
  floating-point overflow);
* final state: the bounds left behind are exactly `reset_bounds(); infer()` under the final
  parameters on the original facts;
* losses: each reported loss term is non-negative (contradiction, supervised; uncertainty for
  ordered bounds), the contradiction loss is zero exactly when no formula is flagged contradictory
  (at `alpha = 1`: exactly when no bounds cross) and the supervised loss is zero exactly when
  labelled bounds equal their labels.

Two honest limits, both proved below by concrete rational counterexamples:
`C18_contradiction_loss_alpha_gap` (for `alpha < 1` bounds crossing inside one classical region are
not flagged and contribute 0 to the contradiction loss) and `C18_uncertainty_loss_can_be_negative`
(for such bounds the uncertainty term `U - L` is negative).
-/
import LnnVerif.Lemmas.TrainLemmas
import LnnVerif.Props.C17
import Mathlib.Algebra.Order.Field.Rat
import Mathlib.Tactic.NormNum
import Mathlib.Tactic.Positivity
import Mathlib.Tactic.Linarith

set_option linter.unusedSectionVars false

namespace LNN

variable {ι : Type} [DecidableEq ι] {α : Type} [Field α] [LinearOrder α] [IsStrictOrderedRing α]

/-! ### facts -/

/-- **Facts are preserved.** Whatever the optimiser does and however many steps are taken, the
asserted facts after `train` are the asserted facts before it. (Labels are not part of the mutable
state `TrainState` at all, so they cannot change either.) -/
theorem C18_facts_preserved (cfg : TrainCfg ι α) (steps : Nat) (t : TrainState ι α) :
    (train cfg steps t).leaves = t.leaves :=
  Train.train_leaves cfg steps t

/-- the same after every epoch -/
theorem C18_facts_preserved_epochs (cfg : TrainCfg ι α) (e k : Nat) (t : TrainState ι α) :
    (epochs cfg e k t).leaves = t.leaves :=
  Train.epochs_leaves cfg e k t

/-! ### projection -/

/-- the projection never changes the number of weights of a neuron -/
theorem C18_shape_preserved (negW : ι → Bool) (p : Params ι α) (i : ι) :
    ((project negW p).w i).length = (p.w i).length :=
  Train.project_length negW p i

/-- where negative weights were requested the projection leaves the weights exactly as the
optimiser set them -/
theorem C18_negative_weights_free (negW : ι → Bool) (p : Params ι α) {i : ι}
    (h : negW i = true) : (project negW p).w i = p.w i :=
  Train.project_w_of_negW negW p h

/-- the projection returns admissible parameters whatever it is given ... -/
theorem C18_project_admissible (negW : ι → Bool) (p : Params ι α) :
    (∀ i, negW i = false → ∀ w ∈ (project negW p).w i, 0 ≤ w) ∧ ∀ i, 0 ≤ (project negW p).b i :=
  Train.project_admissible negW p

/-- ... and does not disturb parameters that already are admissible -/
theorem C18_project_fixes_admissible (negW : ι → Bool) (p : Params ι α)
    (hw : ∀ i, negW i = false → ∀ w ∈ p.w i, 0 ≤ w) (hb : ∀ i, 0 ≤ p.b i) :
    project negW p = p :=
  Train.project_of_admissible ⟨hw, hb⟩

/-! ### parameters after every epoch -/

/-- after every epoch (`k ≥ 1` optimiser steps starting at any epoch number `e`, from any
parameters, with any optimiser) the weights are non-negative wherever negative weights were not
requested -/
theorem C18_weights_nonneg_epochs (cfg : TrainCfg ι α) (e : Nat) {k : Nat} (hk : 1 ≤ k)
    (t : TrainState ι α) (i : ι) (hi : cfg.negW i = false) :
    ∀ w ∈ (epochs cfg e k t).params.w i, 0 ≤ w :=
  (Train.epochs_admissible_of_pos cfg e hk t).1 i hi

/-- after every epoch the biases are non-negative -/
theorem C18_bias_nonneg_epochs (cfg : TrainCfg ι α) (e : Nat) {k : Nat} (hk : 1 ≤ k)
    (t : TrainState ι α) (i : ι) : 0 ≤ (epochs cfg e k t).params.b i :=
  (Train.epochs_admissible_of_pos cfg e hk t).2 i

/-- admissibility is an invariant of the loop (also for `k = 0`) -/
theorem C18_weights_nonneg_epochs_of_init (cfg : TrainCfg ι α) (e k : Nat) (t : TrainState ι α)
    (hw : ∀ i, cfg.negW i = false → ∀ w ∈ t.params.w i, 0 ≤ w) (hb : ∀ i, 0 ≤ t.params.b i)
    (i : ι) (hi : cfg.negW i = false) : ∀ w ∈ (epochs cfg e k t).params.w i, 0 ≤ w :=
  (Train.epochs_admissible cfg e k t ⟨hw, hb⟩).1 i hi

theorem C18_bias_nonneg_epochs_of_init (cfg : TrainCfg ι α) (e k : Nat) (t : TrainState ι α)
    (hw : ∀ i, cfg.negW i = false → ∀ w ∈ t.params.w i, 0 ≤ w) (hb : ∀ i, 0 ≤ t.params.b i)
    (i : ι) : 0 ≤ (epochs cfg e k t).params.b i :=
  (Train.epochs_admissible cfg e k t ⟨hw, hb⟩).2 i

/-! ### parameters after `train` -/

/-- **Weights are non-negative after training** (at least one optimiser step; arbitrary initial
parameters, arbitrary optimiser). -/
theorem C18_weights_nonneg (cfg : TrainCfg ι α) {steps : Nat} (hs : 0 < steps)
    (t : TrainState ι α) (i : ι) (hi : cfg.negW i = false) :
    ∀ w ∈ (train cfg steps t).params.w i, 0 ≤ w :=
  C18_weights_nonneg_epochs cfg 0 hs t i hi

/-- **Biases are non-negative after training** (at least one optimiser step). -/
theorem C18_bias_nonneg (cfg : TrainCfg ι α) {steps : Nat} (hs : 0 < steps)
    (t : TrainState ι α) (i : ι) : 0 ≤ (train cfg steps t).params.b i :=
  C18_bias_nonneg_epochs cfg 0 hs t i

/-- any number of steps (also none: `loss.grad_fn` absent in the first epoch), admissible initial
parameters -/
theorem C18_weights_nonneg_of_init (cfg : TrainCfg ι α) (steps : Nat) (t : TrainState ι α)
    (hw : ∀ i, cfg.negW i = false → ∀ w ∈ t.params.w i, 0 ≤ w) (hb : ∀ i, 0 ≤ t.params.b i)
    (i : ι) (hi : cfg.negW i = false) : ∀ w ∈ (train cfg steps t).params.w i, 0 ≤ w :=
  C18_weights_nonneg_epochs_of_init cfg 0 steps t hw hb i hi

theorem C18_bias_nonneg_of_init (cfg : TrainCfg ι α) (steps : Nat) (t : TrainState ι α)
    (hw : ∀ i, cfg.negW i = false → ∀ w ∈ t.params.w i, 0 ≤ w) (hb : ∀ i, 0 ≤ t.params.b i)
    (i : ι) : 0 ≤ (train cfg steps t).params.b i :=
  C18_bias_nonneg_epochs_of_init cfg 0 steps t hw hb i

/-- with zero steps the parameters are untouched (so the hypothesis on the initial parameters in
the `_of_init` versions cannot be dropped) -/
theorem C18_zero_steps_params (cfg : TrainCfg ι α) (t : TrainState ι α) :
    (train cfg 0 t).params = t.params := rfl

/-! ### the final state -/

/-- **The final bounds are the inferred ones.** The working bounds `train` leaves behind are exactly
what `reset_bounds(); infer()` computes under the final parameters from the facts of the final
state ... -/
theorem C18_final_inferred (cfg : TrainCfg ι α) (steps : Nat) (t : TrainState ι α) :
    (train cfg steps t).cur =
      (infer (kbOf cfg.skel (train cfg steps t).params) cfg.infer cfg.fuel
        (train cfg steps t).leaves).state := rfl

/-- ... which are the original facts -/
theorem C18_final_inferred_facts (cfg : TrainCfg ι α) (steps : Nat) (t : TrainState ι α) :
    (train cfg steps t).cur =
      (infer (kbOf cfg.skel (train cfg steps t).params) cfg.infer cfg.fuel t.leaves).state := by
  rw [C18_final_inferred, C18_facts_preserved]

/-- in particular the result does not depend on the working bounds the model had before training -/
theorem C18_final_independent_of_cur (cfg : TrainCfg ι α) (steps : Nat) (t : TrainState ι α)
    (c : State ι α) : train cfg steps { t with cur := c } = train cfg steps t := by
  have h : ∀ (k e : Nat) (t : TrainState ι α), 0 < k →
      epochs cfg e k { t with cur := c } = epochs cfg e k t := by
    intro k e t hk
    obtain ⟨k, rfl⟩ := Nat.exists_eq_succ_of_ne_zero (Nat.pos_iff_ne_zero.mp hk)
    rfl
  rcases Nat.eq_zero_or_pos steps with h0 | h0
  · subst h0; rfl
  · unfold train
    rw [h steps 0 t h0]

/-- and the final bounds are in `[0,1]` whenever the facts are (range theorem C17 applied to the
final inference; no hypothesis on the learnt parameters is needed) -/
theorem C18_final_in_range (cfg : TrainCfg ι α) (steps : Nat) (t : TrainState ι α)
    (h : StateInUnit t.leaves) : StateInUnit (train cfg steps t).cur := by
  rw [C18_final_inferred_facts]
  exact C17_range_infer _ _ _ _ h

/-! ### contradiction loss -/

theorem C18_contradiction_loss_nonneg {coeff : α} (hc : 0 ≤ coeff) (a : α) (b : Bounds α) :
    0 ≤ contradictionLoss coeff a b := by
  unfold contradictionLoss
  split
  · rename_i h
    have hx := C17_contradiction_crossed a b h
    exact mul_nonneg hc (sub_nonneg.mpr hx.le)
  · exact le_rfl

/-- the contradiction loss of a formula is zero exactly when the formula is not flagged
contradictory -/
theorem C18_contradiction_loss_zero_iff {coeff : α} (hc : 0 < coeff) (a : α) (b : Bounds α) :
    contradictionLoss coeff a b = 0 ↔ isContra a b = false := by
  unfold contradictionLoss
  cases h : isContra a b with
  | false => simp
  | true =>
    have hx := C17_contradiction_crossed a b h
    have hpos : 0 < coeff * (b.lo - b.hi) := mul_pos hc (sub_pos.mpr hx)
    simp [hpos.ne']

theorem C18_total_contradiction_loss_nonneg {coeff : α} (hc : 0 ≤ coeff) (kb : KB ι α)
    (nodes : List ι) (s : State ι α) : 0 ≤ totalContradictionLoss coeff kb nodes s :=
  Train.sum_map_nonneg nodes _ fun i _ => C18_contradiction_loss_nonneg hc (kb i).alpha (s i)

/-- **The contradiction loss is zero exactly when no formula is contradictory.**

Honesty note: "contradictory" is `is_contradiction`, which for `alpha < 1` does *not* flag bounds
that cross inside one classical region (both `≤ 1 - alpha` or both `≥ alpha`): such formulae
contribute 0, see `C18_contradiction_loss_alpha_gap`. For `alpha = 1` and bounds in `[0,1]` it is
literally "no bounds cross", see `C18_total_contradiction_loss_zero_iff_no_cross`. -/
theorem C18_total_contradiction_loss_zero_iff {coeff : α} (hc : 0 < coeff) (kb : KB ι α)
    (nodes : List ι) (s : State ι α) :
    totalContradictionLoss coeff kb nodes s = 0 ↔
      ∀ i ∈ nodes, isContra (kb i).alpha (s i) = false := by
  unfold totalContradictionLoss
  rw [Train.sum_map_eq_zero_iff nodes _
    fun i _ => C18_contradiction_loss_nonneg hc.le (kb i).alpha (s i)]
  exact forall₂_congr fun i _ => C18_contradiction_loss_zero_iff hc (kb i).alpha (s i)

/-- equivalently: exactly when `Model.has_contradiction` is false -/
theorem C18_total_contradiction_loss_zero_iff_hasContra {coeff : α} (hc : 0 < coeff) (kb : KB ι α)
    (nodes : List ι) (s : State ι α) :
    totalContradictionLoss coeff kb nodes s = 0 ↔ hasContra kb nodes s = false := by
  rw [C18_total_contradiction_loss_zero_iff hc]
  unfold hasContra
  rw [List.any_eq_false]
  exact forall₂_congr fun i _ => by rw [Bool.not_eq_true]

/-- at `alpha = 1` with bounds in `[0,1]`: the contradiction loss is zero exactly when no bounds
cross -/
theorem C18_total_contradiction_loss_zero_iff_no_cross {coeff : α} (hc : 0 < coeff) (kb : KB ι α)
    (nodes : List ι) (s : State ι α) (h : ∀ i ∈ nodes, (kb i).alpha = 1 ∧ InUnit (s i)) :
    totalContradictionLoss coeff kb nodes s = 0 ↔ ∀ i ∈ nodes, (s i).lo ≤ (s i).hi := by
  rw [C18_total_contradiction_loss_zero_iff hc]
  refine forall₂_congr fun i hi => ?_
  obtain ⟨ha, hu⟩ := h i hi
  rw [ha, ← Bool.not_eq_true, C17_contradiction_alpha_one hu, not_lt]

/-- **The alpha gap.** For `alpha < 1` crossed bounds inside one classical region are not a
contradiction for `is_contradiction` and the contradiction loss does not see them:
`alpha = 3/4`, bounds `(1/8, 1/16)` are crossed, yet the loss is 0. -/
theorem C18_contradiction_loss_alpha_gap :
    (⟨1/8, 1/16⟩ : Bounds ℚ).lo > (⟨1/8, 1/16⟩ : Bounds ℚ).hi ∧
      contradictionLoss (1:ℚ) (3/4) ⟨1/8, 1/16⟩ = 0 := by
  refine ⟨by norm_num, ?_⟩
  rw [C18_contradiction_loss_zero_iff one_pos, isContra_eq_false_iff (by norm_num)]
  norm_num

/-! ### supervised loss -/

theorem C18_supervised_loss_nonneg {coeff : α} (hc : 0 ≤ coeff) (b label : Bounds α) :
    0 ≤ supervisedLoss coeff b label := by
  unfold supervisedLoss
  exact mul_nonneg hc (by positivity)

/-- the supervised loss of a formula is zero exactly when its bounds equal the label -/
theorem C18_supervised_loss_zero_iff {coeff : α} (hc : 0 < coeff) (b label : Bounds α) :
    supervisedLoss coeff b label = 0 ↔ b = label := by
  unfold supervisedLoss
  constructor
  · intro h
    have h1 : ((b.lo - label.lo) ^ 2 + (b.hi - label.hi) ^ 2) / 2 = 0 :=
      (mul_eq_zero.mp h).resolve_left hc.ne'
    have h2 : (b.lo - label.lo) ^ 2 + (b.hi - label.hi) ^ 2 = 0 :=
      (div_eq_zero_iff.mp h1).resolve_right two_ne_zero
    obtain ⟨e1, e2⟩ := (add_eq_zero_iff_of_nonneg (sq_nonneg _) (sq_nonneg _)).mp h2
    have e1' : b.lo = label.lo := sub_eq_zero.mp (pow_eq_zero_iff two_ne_zero |>.mp e1)
    have e2' : b.hi = label.hi := sub_eq_zero.mp (pow_eq_zero_iff two_ne_zero |>.mp e2)
    cases b; cases label
    simp only at e1' e2'
    rw [e1', e2']
  · rintro rfl
    simp

theorem C18_total_supervised_loss_nonneg {coeff : α} (hc : 0 ≤ coeff)
    (labels : List (ι × Bounds α)) (s : State ι α) : 0 ≤ totalSupervisedLoss coeff labels s :=
  Train.sum_map_nonneg labels _ fun p _ => C18_supervised_loss_nonneg hc (s p.1) p.2

/-- **The supervised loss is zero exactly when every labelled formula has its label as bounds.** -/
theorem C18_total_supervised_loss_zero_iff {coeff : α} (hc : 0 < coeff)
    (labels : List (ι × Bounds α)) (s : State ι α) :
    totalSupervisedLoss coeff labels s = 0 ↔ ∀ p ∈ labels, s p.1 = p.2 := by
  unfold totalSupervisedLoss
  rw [Train.sum_map_eq_zero_iff labels _
    fun p _ => C18_supervised_loss_nonneg hc.le (s p.1) p.2]
  exact forall₂_congr fun p _ => C18_supervised_loss_zero_iff hc (s p.1) p.2

/-! ### uncertainty loss -/

/-- the uncertainty loss of a formula with ordered bounds is non-negative -/
theorem C18_uncertainty_loss_nonneg_when_ordered {coeff : α} (hc : 0 ≤ coeff) (a : α)
    {b : Bounds α} (hb : b.lo ≤ b.hi) : 0 ≤ uncertaintyLoss coeff a b := by
  unfold uncertaintyLoss
  split
  · exact le_rfl
  · exact mul_nonneg hc (sub_nonneg.mpr hb)

/-- at `alpha = 1` with bounds in `[0,1]` it is non-negative without the ordering hypothesis
(crossed bounds are a contradiction there and are masked out) -/
theorem C18_uncertainty_loss_nonneg_alpha_one {coeff : α} (hc : 0 ≤ coeff) {b : Bounds α}
    (hb : InUnit b) : 0 ≤ uncertaintyLoss coeff 1 b := by
  rcases le_or_gt b.lo b.hi with h | h
  · exact C18_uncertainty_loss_nonneg_when_ordered hc 1 h
  · have : isContra 1 b = true := (C17_contradiction_alpha_one hb).mpr h
    simp [uncertaintyLoss, this]

theorem C18_total_uncertainty_loss_nonneg_when_ordered {coeff : α} (hc : 0 ≤ coeff) (kb : KB ι α)
    (nodes : List ι) (s : State ι α) (h : ∀ i ∈ nodes, (s i).lo ≤ (s i).hi) :
    0 ≤ totalUncertaintyLoss coeff kb nodes s :=
  Train.sum_map_nonneg nodes _ fun i hi =>
    C18_uncertainty_loss_nonneg_when_ordered hc (kb i).alpha (h i hi)

/-- **The uncertainty loss can be negative.** The same-region crossing of
`C18_contradiction_loss_alpha_gap` is not a contradiction, so its `U - L < 0` is reported:
the "each reported loss is non-negative" claim fails for the uncertainty loss when `alpha < 1`. -/
theorem C18_uncertainty_loss_can_be_negative :
    uncertaintyLoss (1:ℚ) (3/4) ⟨1/8, 1/16⟩ < 0 := by
  have h : isContra (3/4:ℚ) ⟨1/8, 1/16⟩ = false := by
    rw [isContra_eq_false_iff (by norm_num)]; norm_num
  simp only [uncertaintyLoss, h]
  norm_num

/-! ### non-vacuity over `ℚ` -/

/-- nodes 0,1 atoms; node 2 = And(0,1) (weights and bias come from the parameters) -/
def c18Skel : KB Nat ℚ := fun i =>
  match i with
  | 2 => { kind := .and, ops := [0, 1], bias := 1, alpha := 1 }
  | _ => { kind := .atom, bias := 1, alpha := 1 }

/-- an optimiser that subtracts 5 from every weight and every bias: every step leaves the
admissible region, so the projection really has to clamp -/
def c18Opt : Nat → Params Nat ℚ → State Nat ℚ → Params Nat ℚ :=
  fun _ p _ => ⟨fun i => (p.w i).map (· - 5), fun i => p.b i - 5⟩

def c18Cfg : TrainCfg Nat ℚ where
  skel := c18Skel
  negW := fun _ => false
  infer := { up := [Call.up 2], down := [Call.down 2 none], eps := 0 }
  fuel := 3
  opt := c18Opt

/-- the same model, but negative weights requested for the And neuron -/
def c18CfgNeg : TrainCfg Nat ℚ := { c18Cfg with negW := fun i => i == 2 }

/-- initial parameters: weights (1,1) and bias 1 for the And; facts: both atoms TRUE -/
def c18T : TrainState Nat ℚ where
  params := ⟨fun i => if i = 2 then [1, 1] else [], fun _ => 1⟩
  leaves := fun i => if i = 0 ∨ i = 1 then ⟨1, 1⟩ else ⟨0, 1⟩
  cur := fun _ => ⟨0, 1⟩

/-- the optimiser really produces inadmissible parameters: weights (-4,-4), bias -4 -/
example : (c18Opt 0 c18T.params c18T.cur).w 2 = [-4, -4] ∧ (c18Opt 0 c18T.params c18T.cur).b 2 = -4 := by
  refine ⟨?_, ?_⟩ <;> norm_num [c18Opt, c18T]

/-- after 2 steps the weights are `[0, 0]` and the bias is `0` -/
example : (train c18Cfg 2 c18T).params.w 2 = [0, 0] ∧ (train c18Cfg 2 c18T).params.b 2 = 0 := by
  refine ⟨?_, ?_⟩ <;>
    norm_num [train, epochs, epoch, project, c18Cfg, c18Opt, c18T]

/-- with negative weights requested the weights are what the optimiser made them, the bias is
still clamped -/
example : (train c18CfgNeg 2 c18T).params.w 2 = [-9, -9] ∧ (train c18CfgNeg 2 c18T).params.b 2 = 0 := by
  refine ⟨?_, ?_⟩ <;>
    norm_num [train, epochs, epoch, project, c18CfgNeg, c18Cfg, c18Opt, c18T]

/-- the facts are untouched -/
example : (train c18Cfg 2 c18T).leaves = c18T.leaves := rfl

/-- the right-hand side of `C18_final_inferred` is what `train` returns -/
example : (train c18Cfg 2 c18T).cur =
    (infer (kbOf c18Skel (train c18Cfg 2 c18T).params) c18Cfg.infer 3 c18T.leaves).state := rfl

private theorem both_ne_upper : (BoundSel.both = BoundSel.upper) = False := by simp
private theorem both_ne_lower : (BoundSel.both = BoundSel.lower) = False := by simp

/-- and that inference is a real one under the *learnt* parameters: with both atoms TRUE the And is
TRUE under the initial parameters (weights (1,1), bias 1) but FALSE under the final ones
(weights (0,0), bias 0) -/
example : (infer (kbOf c18Skel c18T.params) c18Cfg.infer 3 c18T.leaves).state 2 = ⟨1, 1⟩ ∧
    (train c18Cfg 2 c18T).cur 2 = ⟨0, 0⟩ := by
  refine ⟨?_, ?_⟩
  · norm_num [infer, sweep, runPass, passSteps, Call.steps, callUp, callDown, runSteps, runStep,
      stepUp, stepDown, queryStop, kbOf, c18Skel, c18Cfg, c18T, arrested, isContra, region, actUp,
      actDown, andUp, andDown, opds, writeOps, enumFrom, aggregate, clamp01, termLo, termHi, sumW,
      Function.update, both_ne_upper, both_ne_lower]
  · norm_num [train, epochs, epoch, project, c18Opt, infer, sweep, runPass, passSteps, Call.steps,
      callUp, callDown, runSteps, runStep, stepUp, stepDown, queryStop, kbOf, c18Skel, c18Cfg, c18T,
      arrested, isContra, region, actUp, actDown, andUp, andDown, opds, writeOps, enumFrom,
      aggregate, clamp01, termLo, termHi, sumW, Function.update, both_ne_upper, both_ne_lower]

/-- the loss characterisations on concrete values: a contradictory formula has a positive
contradiction loss, a wrong label a positive supervised loss, and both vanish when they should -/
example : contradictionLoss (1:ℚ) 1 ⟨3/4, 1/4⟩ = 1/2 ∧ contradictionLoss (1:ℚ) 1 ⟨1/4, 3/4⟩ = 0
    ∧ supervisedLoss (1:ℚ) ⟨0, 1⟩ ⟨1, 1⟩ = 1/2 ∧ supervisedLoss (1:ℚ) ⟨1, 1⟩ ⟨1, 1⟩ = 0
    ∧ uncertaintyLoss (1:ℚ) 1 ⟨1/4, 3/4⟩ = 1/2 := by
  have h1 : isContra (1:ℚ) ⟨3/4, 1/4⟩ = true := by
    rw [C17_contradiction_alpha_one (by unfold InUnit; norm_num)]; norm_num
  have h2 : isContra (1:ℚ) ⟨1/4, 3/4⟩ = false := by
    rw [← Bool.not_eq_true, C17_contradiction_alpha_one (by unfold InUnit; norm_num)]; norm_num
  refine ⟨?_, ?_, ?_, ?_, ?_⟩
  · simp only [contradictionLoss, h1]; norm_num
  · simp only [contradictionLoss, h2]; norm_num
  · norm_num [supervisedLoss]
  · norm_num [supervisedLoss]
  · simp only [uncertaintyLoss, h2]; norm_num

end LNN
