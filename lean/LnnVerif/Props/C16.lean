/-
C16 — Inference is a function of knowledge, data and parameters, not of history
(propositional layer; the first-order layer is tied by correspondence, see DESIGN.md).

The model state of a session is the asserted data (`leaves`, what `add_data` stored) and the
working bounds (`cur`). Inference only ever writes working bounds; `reset_bounds()` copies the
leaves back; printing and state queries write nothing. Hence whatever happened before a
`reset_bounds()`, the bounds inferred afterwards are those of a freshly built model.
-/
import LnnVerif.Model.PropEngine
import Mathlib.Algebra.Order.Field.Rat
import LnnVerif.Lemmas.FolReset

namespace LNN

variable {ι : Type} [DecidableEq ι] {α : Type} [Field α] [LinearOrder α]

structure Session (ι α : Type) where
  leaves : State ι α
  cur : State ι α

/-- a freshly built model holding the data `L` -/
def Session.fresh (L : State ι α) : Session ι α := ⟨L, L⟩

/-- what a user can do between two data updates -/
inductive HOp (ι α : Type) where
  | inference (o : Op ι α)      -- any node-level call, pass or infer
  | resetBounds                 -- `Model.reset_bounds()`
  | observe                     -- print, state(), get_data(): no effect on the model

def Session.apply (kb : KB ι α) (p : Session ι α) : HOp ι α → Session ι α
  | .inference o => { p with cur := runOp kb o p.cur }
  | .resetBounds => { p with cur := p.leaves }
  | .observe => p

def Session.applyAll (kb : KB ι α) (p : Session ι α) (h : List (HOp ι α)) : Session ι α :=
  h.foldl (Session.apply kb) p

/-- no history ever changes the asserted data -/
theorem C16_leaves_invariant (kb : KB ι α) (p : Session ι α) (h : List (HOp ι α)) :
    (p.applyAll kb h).leaves = p.leaves := by
  induction h generalizing p with
  | nil => rfl
  | cons o rest ih =>
    simp only [Session.applyAll, List.foldl_cons] at ih ⊢
    rw [ih]
    cases o <;> rfl

/-- `reset_bounds()` after an arbitrary history restores exactly the asserted data -/
theorem C16_reset_restores (kb : KB ι α) (L : State ι α) (h : List (HOp ι α)) :
    (((Session.fresh L).applyAll kb h).apply kb .resetBounds).cur = L := by
  simp only [Session.apply]
  rw [C16_leaves_invariant]
  rfl

/-- **History independence.** After any history followed by `reset_bounds()`, any sequence of
inference calls yields exactly the bounds it yields on a freshly built model with the same
knowledge, data and parameters. -/
theorem C16_rerun_equal (kb : KB ι α) (L : State ι α) (h : List (HOp ι α)) (ops : List (Op ι α)) :
    ((((Session.fresh L).applyAll kb h).apply kb .resetBounds).applyAll kb
        (ops.map HOp.inference)).cur = run kb ops L := by
  have hcur : ∀ (p : Session ι α), (p.applyAll kb (ops.map HOp.inference)).cur = run kb ops p.cur := by
    induction ops with
    | nil => intro p; rfl
    | cons o rest ih =>
      intro p
      simp only [Session.applyAll, List.map_cons, List.foldl_cons, run] at ih ⊢
      rw [ih]
      rfl
  rw [hcur, C16_reset_restores]

/-- in particular the second of two identical runs separated by `reset_bounds()` reproduces the
first one -/
theorem C16_second_run (kb : KB ι α) (L : State ι α) (ops : List (Op ι α)) :
    ((((Session.fresh L).applyAll kb (ops.map HOp.inference)).apply kb .resetBounds).applyAll kb
        (ops.map HOp.inference)).cur
      = ((Session.fresh L).applyAll kb (ops.map HOp.inference)).cur := by
  rw [C16_rerun_equal]
  have : ∀ (p : Session ι α), (p.applyAll kb (ops.map HOp.inference)).cur = run kb ops p.cur := by
    induction ops with
    | nil => intro p; rfl
    | cons o rest ih =>
      intro p
      simp only [Session.applyAll, List.map_cons, List.foldl_cons, run] at ih ⊢
      rw [ih]
      rfl
  rw [this]
  rfl

/-! non-vacuity: a history that really moves bounds before the reset -/
example :
    let kb : KB Nat ℚ := fun i => match i with
      | 2 => { kind := .neg, ops := [0], bias := 1, alpha := 1 }
      | _ => { kind := .atom, bias := 1, alpha := 1 }
    let L : State Nat ℚ := fun i => if i = 0 then ⟨1, 1⟩ else ⟨0, 1⟩
    ((Session.fresh L).applyAll kb [HOp.inference (Op.call (Call.up 2))]).cur 2 = ⟨0, 0⟩ ∧ L 2 = ⟨0, 1⟩ := by
  simp [Session.fresh, Session.applyAll, Session.apply, runOp, Call.steps, callUp, runSteps, runStep,
    stepUp, aggregate, negB, clamp01]

/-! ### first-order knowledge bases: no inference pass leaves a trace in the data

For every first-order knowledge base and every sequence of calls (any node kinds, index or
grounding restrictions, grounding propagation, `infer` with any arguments): the data (leaf) of
every stored grounding is untouched, every row inference creates carries its formula's world
default as data, and therefore `reset_bounds()` afterwards reads — for stored, created and absent
groundings alike — exactly as `reset_bounds()` before: nothing an earlier pass proved survives.
(What a *second run* then infers can still differ from the first because the created rows remain:
known findings D11 / D14.) -/

section fol

variable {ι : Type} [DecidableEq ι] {α : Type} [Field α] [LinearOrder α] [IsStrictOrderedRing α]

open FolReset

theorem C16_fol_data_untouched (kb : FKB ι α) (i : ι) (g : Gr) (cs : List (FCall ι)) (p : PState ι α) :
    dataOf kb (runPCalls kb cs p).1.st i g = dataOf kb p.st i g :=
  dataOf_runPCalls kb i g cs p

theorem C16_fol_reset_after_inference (kb : FKB ι α) (i : ι) (g : Gr) (cs : List (FCall ι)) (p : PState ι α) :
    Table.getD (kb i).world ((resetAll (runPCalls kb cs p).1.st).get i) g =
      Table.getD (kb i).world ((resetAll p.st).get i) g :=
  reset_after_inference kb i g cs p

theorem C16_fol_reset_after_infer (kb : FKB ι α) (i : ι) (g : Gr) (nodes : List ι) (up down : List (FCall ι))
    (eps : α) (query : Option ι) (fuel : Nat) (p : PState ι α) :
    Table.getD (kb i).world ((resetAll (pInferQ kb nodes up down eps query fuel p).state.st).get i) g =
      Table.getD (kb i).world ((resetAll p.st).get i) g :=
  reset_after_pInferQ kb i g nodes up down eps query fuel p

/-- after `reset_bounds()` every query returns the data: the leaf, or the world default -/
theorem C16_fol_reset_reads_data (kb : FKB ι α) (s : FState ι α) (i : ι) (g : Gr) :
    Table.getD (kb i).world ((resetAll s).get i) g = dataOf kb s i g :=
  reset_reads_data kb s i g

/-- what `reset_bounds()` after inference returns, table by table: the tables `reset_bounds()` gives on the
start state, followed by the rows inference created, each at its formula's world default in data
and bounds. This is the whole trace inference leaves: the second run starts from the fresh model
PLUS the world-default rows of the groundings the first run discovered. -/
theorem C16_fol_reset_is_fresh_plus_rows (kb : FKB ι α) (cs : List (FCall ι)) (s : FState ι α) (i : ι) :
    ∃ ex : Table α, (resetAll (runFCalls kb cs s).1).get i = (resetAll s).get i ++ ex ∧
      ∀ r ∈ ex, r = ⟨r.g, (kb i).world, (kb i).world⟩ :=
  (sevW_runFCalls kb cs s).reset_tables i

/-- **History independence, exactly**, whenever the earlier calls created no grounding (all
groundings were present from the data — in particular for every knowledge base whose facts cover
the groundings it reasons about): `reset_bounds()` returns the very tables of the start state's
`reset_bounds()`, and any call sequence afterwards produces the same tables and reports the same
amounts as on the freshly reset start state. (With growth the two can differ: known findings
D11 / D14.) -/
theorem C16_fol_reset_exact_of_no_growth (kb : FKB ι α) (cs : List (FCall ι)) (s : FState ι α)
    (hlen : ∀ i, ((runFCalls kb cs s).1.get i).length = (s.get i).length) :
    FolFix.SG (resetAll (runFCalls kb cs s).1) (resetAll s) := by
  intro i
  obtain ⟨ex, he, _⟩ := C16_fol_reset_is_fresh_plus_rows kb cs s i
  have h1 : ((resetAll (runFCalls kb cs s).1).get i).length = ((resetAll s).get i).length := by
    rw [resetAll_get, resetAll_get]
    simp only [Table.resetBounds, List.length_map]
    exact hlen i
  rw [he, List.length_append] at h1
  have : ex = [] := List.eq_nil_of_length_eq_zero (by omega)
  rw [he, this, List.append_nil]

theorem C16_fol_rerun_equal_of_no_growth (kb : FKB ι α) (cs cs' : List (FCall ι)) (s : FState ι α)
    (hlen : ∀ i, ((runFCalls kb cs s).1.get i).length = (s.get i).length) :
    FolFix.PG (runFCalls kb cs' (resetAll (runFCalls kb cs s).1)) (runFCalls kb cs' (resetAll s)) :=
  FolFix.runFCalls_congr kb cs' (C16_fol_reset_exact_of_no_growth kb cs s hlen)

/-- the same for the EXECUTED calls (with grounding propagation through partially quantified
sub-formulae): what `reset_bounds()` returns afterwards is the reset start state plus world-default
rows for the discovered groundings -/
theorem C16_layer_reset_is_fresh_plus_rows (kb : FKB ι α) (cs : List (FCall ι)) (p : PState ι α) (i : ι) :
    ∃ ex : Table α, (resetAll (runPCalls kb cs p).1.st).get i = (resetAll p.st).get i ++ ex ∧
      ∀ r ∈ ex, r = ⟨r.g, (kb i).world, (kb i).world⟩ :=
  (sevW_runPCalls kb cs p).reset_tables i

end fol

end LNN
