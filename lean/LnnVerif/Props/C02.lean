/-
C02 — First-order inference is justified by the ground instances.

For a first-order knowledge base over predicates with finitely many constants, every bound stored
for any grounding of any (quantifier-free) formula is implied by the propositional theory obtained
by instantiating each formula at its groundings, with unasserted ground atoms starting at their
predicate's world default. Facts never leak between groundings, and data whose ground theory is
consistent is never driven to a contradiction.

Formalisation.
* A ground interpretation `v : ι → Gr → α` gives every formula a truth value at every grounding.
* `FConsistent kb ar v`: all values lie in `[0,1]`, and at every grounding of the formula's arity
  the value obeys the weighted Łukasiewicz truth function of the formula, operand `j` being read
  at the projection of the operator grounding through its operand map (`proj`). This is exactly
  "`v` is a model of the ground (propositional) theory".
* `FSat kb v s`: every stored row contains the value of its grounding, and the world default
  contains the value of every grounding that is not stored.
* `FWF kb ar`: weights `≥ 0`, `alpha ≤ 1`, and the shape of the operand maps (see there).
* `Arity ar s`: every stored grounding of formula `i` is a tuple of length `ar i`. It is an
  invariant of quantifier-free inference (`C02_arity`), so it only has to hold for the data.

Nothing is assumed about the graph of formulae (sharing, structurally equal copies, cycles), about
the order or number of calls, or about which groundings are stored. Both grounding-management
branches are covered: identical operand maps (no join) and the full outer join, whose result is
used only through `Rel.project`; no property of the join itself is needed.
-/
import LnnVerif.Lemmas.FolSound
import Mathlib.Algebra.Order.Field.Rat

set_option linter.unusedSectionVars false

namespace LNN

open FolSound

variable {ι : Type} [DecidableEq ι] {α : Type} [Field α] [LinearOrder α] [IsStrictOrderedRing α]

/-! ### specification vocabulary -/

/-- the grounding an operand with operand map `m` reads when the operator is at grounding `g`
(`operand_map` projection; it is what `Rel.project` computes on a joined row, `proj_project`) -/
def proj (m : List Nat) (g : Gr) : Gr := m.map fun k => g.getD k 0

/-- the ground values of the operands of `n` at operator grounding `g` -/
def fOpVals (n : FNode ι α) (v : ι → Gr → α) (g : Gr) : List α :=
  List.zipWith (fun j m => v j (proj m g)) n.ops n.opmap

/-- the weighted Łukasiewicz truth function of a connective on operand values `xs`
* And:     `clamp(b - Σ wⱼ (1 - xⱼ))`
* Or:      `clamp(1 - b + Σ wⱼ xⱼ)`
* Implies: `clamp(1 - b + w₀ (1 - x) + w₁ y)` -/
def connVal (n : FNode ι α) (xs : List α) : Option α :=
  match n.kind with
  | .and => some (clamp01 (n.bias - (List.zipWith (fun w x => w * (1 - x)) n.ws xs).sum))
  | .or => some (clamp01 (1 - n.bias + (List.zipWith (fun w x => w * x) n.ws xs).sum))
  | .implies =>
    match n.ws, xs with
    | [wx, wy], [x, y] => some (clamp01 (1 - n.bias + wx * (1 - x) + wy * y))
    | _, _ => none
  | _ => none

/-- the truth function of formula `n` at grounding `g`: connectives read operand `j` at the
projection of `g`, Not reads its operand at the same grounding, predicates are free (`none`);
quantifiers are outside C02 (`none`) -/
def fNodeVal (n : FNode ι α) (v : ι → Gr → α) (g : Gr) : Option α :=
  match n.kind with
  | .neg =>
    match n.ops with
    | j :: _ => some (1 - v j g)
    | [] => none
  | .and | .or | .implies => connVal n (fOpVals n v g)
  | _ => none

/-- `v` is a model of the ground theory: every ground instance of every formula (every tuple of
the formula's arity) obeys the formula's truth function; all values are truth values -/
def FConsistent (kb : FKB ι α) (ar : ι → Nat) (v : ι → Gr → α) : Prop :=
  ∀ i g, 0 ≤ v i g ∧ v i g ≤ 1 ∧
    (g.length = ar i → ∀ y, fNodeVal (kb i) v g = some y → v i g = y)

/-- the interpretation lies inside every stored row, and inside the world default of every
grounding that is not stored ("unasserted ground atoms start at the world default") -/
def FSat (kb : FKB ι α) (v : ι → Gr → α) (s : FState ι α) : Prop :=
  ∀ i, (∀ r ∈ s.get i, r.b.lo ≤ v i r.g ∧ v i r.g ≤ r.b.hi) ∧
    (∀ g, g ∉ (s.get i).keys → (kb i).world.lo ≤ v i g ∧ v i g ≤ (kb i).world.hi)

def FKind.isConn : FKind → Bool
  | .and | .or | .implies => true
  | _ => false

/-- admissible first-order knowledge bases, with `ar i` the number of variables of formula `i` -/
structure FWF (kb : FKB ι α) (ar : ι → Nat) : Prop where
  ws_nonneg : ∀ i, ∀ w ∈ (kb i).ws, 0 ≤ w
  alpha_le : ∀ i, (kb i).alpha ≤ 1
  /-- one weight per operand -/
  ws_len : ∀ i, (kb i).kind.isConn = true → (kb i).ws.length = (kb i).ops.length
  /-- one operand map per operand, naming as many slots as the operand has variables -/
  shape : ∀ i, (kb i).kind.isConn = true →
    List.Forall₂ (fun j m => List.length m = ar j) (kb i).ops (kb i).opmap
  /-- the slots of a connective are numbered `0 … ar i - 1` -/
  nvars : ∀ i, (kb i).kind.isConn = true → numVars (kb i) = ar i
  slots : ∀ i, (kb i).kind.isConn = true → ∀ m ∈ (kb i).opmap, ∀ c ∈ m, c < ar i
  /-- when all operand maps coincide the engine skips the join and uses the operand groundings
  as operator groundings: the common map then has to be the identity (in LNN it always is: the
  operator's variable tuple is the de-duplicated concatenation of the operands' tuples) -/
  homog : ∀ i, (kb i).kind.isConn = true → isHomogeneous (kb i) = true →
    ∀ m ∈ (kb i).opmap, m = List.range (ar i)
  implies2 : ∀ i, (kb i).kind = .implies → (kb i).ops.length = 2
  /-- Not has the variables of its operand -/
  neg_ar : ∀ i, (kb i).kind = .neg → ∀ j rest, (kb i).ops = j :: rest → ar j = ar i

/-- every stored grounding of formula `i` has `ar i` components -/
def Arity (ar : ι → Nat) (s : FState ι α) : Prop := ∀ i, ∀ r ∈ s.get i, r.g.length = ar i

def FCall.node : FCall ι → ι
  | .up i => i
  | .down i _ => i

/-- the called formula is quantifier-free -/
def QF (kb : FKB ι α) (c : FCall ι) : Prop :=
  (kb c.node).kind ≠ .all ∧ (kb c.node).kind ≠ .ex

/-! ### bridges to the helper vocabulary -/

theorem fSat_iff (kb : FKB ι α) (v : ι → Gr → α) (s : FState ι α) : FSat kb v s ↔ SSat kb s v := by
  unfold FSat SSat TSat Bounds.Has
  refine forall_congr' fun i => and_congr Iff.rfl (forall_congr' fun g => ?_)
  have : g ∉ (s.get i).keys ↔ ∀ r ∈ s.get i, r.g ≠ g := by simp [Table.keys]
  rw [this]

theorem arity_iff (ar : ι → Nat) (s : FState ι α) : Arity ar s ↔ SAr ar s := Iff.rfl

/-- on a joined row, reading through an operand map is the projection of the operator grounding -/
theorem proj_project (cols r : List Nat) (nv : Nat) (m : List Nat) (hm : ∀ c ∈ m, c < nv) :
    proj m (Rel.project cols r (List.range nv)) = Rel.project cols r m :=
  (project_eq cols r nv m hm).symm

/-- what `get_data` reads — the stored row, or the world default — contains the value -/
theorem FSat.reads {kb : FKB ι α} {v : ι → Gr → α} {s : FState ι α} (h : FSat kb v s) (i : ι)
    (g : Gr) : (Table.getD (kb i).world (s.get i) g).lo ≤ v i g ∧
      v i g ≤ (Table.getD (kb i).world (s.get i) g).hi :=
  ((fSat_iff kb v s).mp h i).getD g

/-! ### the per-grounding activations against the ground theory -/

section act
variable {kb : FKB ι α} {ar : ι → Nat} {v : ι → Gr → α} (hwf : FWF kb ar)
  (hv : FConsistent kb ar v)
include hwf hv

theorem opVals_len (i : ι) (hk : (kb i).kind.isConn = true) (g : Gr) :
    (kb i).ws.length = (opVals (kb i) v g).length := by
  unfold opVals
  rw [List.length_zipWith, ← (hwf.shape i hk).length_eq, Nat.min_self]
  exact hwf.ws_len i hk

theorem opVals_01 (i : ι) (g : Gr) : ∀ x ∈ opVals (kb i) v g, 0 ≤ x ∧ x ≤ 1 := by
  intro x hx
  unfold opVals at hx
  rw [← List.map_uncurry_zip_eq_zipWith] at hx
  obtain ⟨p, _, rfl⟩ := List.mem_map.mp hx
  exact ⟨(hv _ _).1, (hv _ _).2.1⟩

/-- shape of a well-formed Implies at a grounding -/
theorem implies_shape_fol (i : ι) (hkind : (kb i).kind = .implies) (g : Gr) :
    ∃ wx wy x y, (kb i).ws = [wx, wy] ∧ opVals (kb i) v g = [x, y] ∧
      (g.length = ar i → v i g = clamp01 (1 - (kb i).bias + wx * (1 - x) + wy * y)) := by
  have hk : (kb i).kind.isConn = true := by rw [hkind]; rfl
  have h2 := hwf.implies2 i hkind
  have hl := opVals_len hwf hv i hk g
  obtain ⟨wx, wy, hws⟩ := List.length_eq_two.mp ((hwf.ws_len i hk).trans h2)
  obtain ⟨x, y, hxs⟩ := List.length_eq_two.mp (hl.symm.trans ((hwf.ws_len i hk).trans h2))
  refine ⟨wx, wy, x, y, hws, hxs, fun hg => ?_⟩
  apply (hv i g).2.2 hg
  unfold fNodeVal
  rw [hkind]
  simp only
  have : fOpVals (kb i) v g = [x, y] := hxs
  unfold connVal
  rw [hkind, this, hws]

theorem actUp_has_fol (i : ι) (hk : (kb i).kind.isConn = true) (g : Gr) (hg : g.length = ar i)
    (bs : List (Bounds α))
    (hb : List.Forall₂ (fun b x => Bounds.Has b x) bs (opVals (kb i) v g)) :
    (fActUp (kb i) bs).Has (v i g) := by
  have hl := opVals_len hwf hv i hk g
  cases hkind : (kb i).kind with
  | pred => rw [hkind] at hk; exact absurd hk (by decide)
  | neg => rw [hkind] at hk; exact absurd hk (by decide)
  | all => rw [hkind] at hk; exact absurd hk (by decide)
  | ex => rw [hkind] at hk; exact absurd hk (by decide)
  | and =>
    have : v i g = clamp01 ((kb i).bias -
        (List.zipWith (fun w x => w * (1 - x)) (kb i).ws (opVals (kb i) v g)).sum) := by
      apply (hv i g).2.2 hg
      unfold fNodeVal connVal
      rw [hkind]; rfl
    rw [this]
    exact fActUp_and (kb i) bs _ (hwf.ws_nonneg i) hb hl hkind
  | or =>
    have : v i g = clamp01 (1 - (kb i).bias +
        (List.zipWith (fun w x => w * x) (kb i).ws (opVals (kb i) v g)).sum) := by
      apply (hv i g).2.2 hg
      unfold fNodeVal connVal
      rw [hkind]; rfl
    rw [this]
    exact fActUp_or (kb i) bs _ (hwf.ws_nonneg i) hb hl hkind
  | implies =>
    obtain ⟨wx, wy, x, y, hws, hxs, heq⟩ := implies_shape_fol hwf hv i hkind g
    rw [hxs] at hb
    obtain ⟨bx, by', hbs⟩ := List.length_eq_two.mp (by rw [hb.length_eq]; rfl : bs.length = 2)
    subst hbs
    cases hb with
    | cons hx hrest =>
      cases hrest with
      | cons hy _ =>
        rw [heq hg]
        exact fActUp_implies (kb i) hkind wx wy hws (hwf.ws_nonneg i) bx by' x y hx hy

theorem actDown_has_fol (i : ι) (hk : (kb i).kind.isConn = true) (g : Gr) (hg : g.length = ar i)
    (self : Bounds α) (bs : List (Bounds α)) (hself : self.Has (v i g))
    (hb : List.Forall₂ (fun b x => Bounds.Has b x) bs (opVals (kb i) v g)) :
    List.Forall₂ (fun b x => Bounds.Has b x) (fActDown (kb i) self bs) (opVals (kb i) v g) := by
  have hl := opVals_len hwf hv i hk g
  have h01 := opVals_01 hwf hv i g
  cases hkind : (kb i).kind with
  | pred => rw [hkind] at hk; exact absurd hk (by decide)
  | neg => rw [hkind] at hk; exact absurd hk (by decide)
  | all => rw [hkind] at hk; exact absurd hk (by decide)
  | ex => rw [hkind] at hk; exact absurd hk (by decide)
  | and =>
    have : v i g = clamp01 ((kb i).bias -
        (List.zipWith (fun w x => w * (1 - x)) (kb i).ws (opVals (kb i) v g)).sum) := by
      apply (hv i g).2.2 hg
      unfold fNodeVal connVal
      rw [hkind]; rfl
    rw [this] at hself
    exact fActDown_and (kb i) bs _ (hwf.ws_nonneg i) hb hl hkind self (hwf.alpha_le i) h01 hself
  | or =>
    have : v i g = clamp01 (1 - (kb i).bias +
        (List.zipWith (fun w x => w * x) (kb i).ws (opVals (kb i) v g)).sum) := by
      apply (hv i g).2.2 hg
      unfold fNodeVal connVal
      rw [hkind]; rfl
    rw [this] at hself
    exact fActDown_or (kb i) bs _ (hwf.ws_nonneg i) hb hl hkind self (hwf.alpha_le i) h01 hself
  | implies =>
    obtain ⟨wx, wy, x, y, hws, hxs, heq⟩ := implies_shape_fol hwf hv i hkind g
    rw [hxs] at hb h01 ⊢
    obtain ⟨bx, by', hbs⟩ := List.length_eq_two.mp (by rw [hb.length_eq]; rfl : bs.length = 2)
    subst hbs
    cases hb with
    | cons hx hrest =>
      cases hrest with
      | cons hy _ =>
        rw [heq hg] at hself
        exact fActDown_implies (kb i) hkind wx wy hws (hwf.ws_nonneg i) (hwf.alpha_le i) self bx by'
          x y hx hy (h01 x (by simp)) (h01 y (by simp)) hself

end act

/-! ### C02: soundness of every quantifier-free node-level call -/

section main
variable (kb : FKB ι α) (ar : ι → Nat) (hwf : FWF kb ar) (v : ι → Gr → α)
  (hv : FConsistent kb ar v)
include hwf

/-- `Arity` is an invariant of quantifier-free inference. -/
theorem C02_arity_call (c : FCall ι) (hq : QF kb c) (s : FState ι α) (ha : Arity ar s) :
    Arity ar (runFCall kb c s).1 := by
  cases c with
  | up i =>
    simp only [runFCall, fUp]
    cases hkind : (kb i).kind with
    | pred => exact ha
    | neg => exact fUpNot_sar kb i s ar ha (hwf.neg_ar i hkind)
    | all => exact absurd hkind hq.1
    | ex => exact absurd hkind hq.2
    | and =>
      have hk : (kb i).kind.isConn = true := by rw [hkind]; rfl
      exact fUpConn_sar kb ar i s (hwf.shape i hk) (hwf.nvars i hk) (hwf.slots i hk)
        (hwf.homog i hk) ha
    | or =>
      have hk : (kb i).kind.isConn = true := by rw [hkind]; rfl
      exact fUpConn_sar kb ar i s (hwf.shape i hk) (hwf.nvars i hk) (hwf.slots i hk)
        (hwf.homog i hk) ha
    | implies =>
      have hk : (kb i).kind.isConn = true := by rw [hkind]; rfl
      exact fUpConn_sar kb ar i s (hwf.shape i hk) (hwf.nvars i hk) (hwf.slots i hk)
        (hwf.homog i hk) ha
  | down i idx =>
    simp only [runFCall, fDown]
    cases hkind : (kb i).kind with
    | pred => exact ha
    | neg => exact fDownNot_sar kb i s ar ha (hwf.neg_ar i hkind)
    | all => exact absurd hkind hq.1
    | ex => exact absurd hkind hq.2
    | and =>
      have hk : (kb i).kind.isConn = true := by rw [hkind]; rfl
      exact fDownConn_sar kb ar i s (hwf.shape i hk) (hwf.nvars i hk) (hwf.slots i hk)
        (hwf.homog i hk) ha idx
    | or =>
      have hk : (kb i).kind.isConn = true := by rw [hkind]; rfl
      exact fDownConn_sar kb ar i s (hwf.shape i hk) (hwf.nvars i hk) (hwf.slots i hk)
        (hwf.homog i hk) ha idx
    | implies =>
      have hk : (kb i).kind.isConn = true := by rw [hkind]; rfl
      exact fDownConn_sar kb ar i s (hwf.shape i hk) (hwf.nvars i hk) (hwf.slots i hk)
        (hwf.homog i hk) ha idx

include hv

/-- **One call.** A model of the ground theory that lies inside the stored rows (and inside the
world defaults of the rows that are not stored) still does after any upward or downward call —
with or without an operand index — on any quantifier-free formula.

Per-row justification: every write is `aggregate` (for downward duplicates: the `(max L, min U)`
merge of such aggregates) of the previous content of the row at grounding `g'` of formula `j` with
a proposal computed by the neuron's activation from the rows named by the projections of ONE
operator grounding `g` with `g' = proj mⱼ g`; the proof shows that each such proposal contains
`v j g'` because the ground instance of the formula at `g` holds in `v`. No other row's content
enters. The contradiction filters only drop proposals. -/
theorem C02_sound_call (c : FCall ι) (hq : QF kb c) (s : FState ι α) (ha : Arity ar s)
    (hs : FSat kb v s) : FSat kb v (runFCall kb c s).1 := by
  rw [fSat_iff] at hs ⊢
  have f01 : ∀ j g, 0 ≤ v j g ∧ v j g ≤ 1 := fun j g => ⟨(hv j g).1, (hv j g).2.1⟩
  cases c with
  | up i =>
    simp only [runFCall, fUp]
    have conn : (kb i).kind.isConn = true → SSat kb (fUpConn kb i s).1 v := fun hk =>
      fUpConn_ssat kb ar i s v (hwf.shape i hk) (hwf.nvars i hk) (hwf.slots i hk)
        (hwf.homog i hk) ha hs f01 (actUp_has_fol hwf hv i hk)
    cases hkind : (kb i).kind with
    | pred => exact hs
    | neg =>
      apply fUpNot_ssat kb i s v hs f01
      intro j rest hops g hg
      apply (hv i g).2.2
      · rw [← hwf.neg_ar i hkind j rest hops]; exact TAr.keys (ha j) g hg
      · unfold fNodeVal; rw [hkind, hops]
    | all => exact absurd hkind hq.1
    | ex => exact absurd hkind hq.2
    | and => exact conn (by rw [hkind]; rfl)
    | or => exact conn (by rw [hkind]; rfl)
    | implies => exact conn (by rw [hkind]; rfl)
  | down i idx =>
    simp only [runFCall, fDown]
    have conn : (kb i).kind.isConn = true → SSat kb (fDownConn kb i idx s).1 v := fun hk =>
      fDownConn_ssat kb ar i s v (hwf.shape i hk) (hwf.nvars i hk) (hwf.slots i hk)
        (hwf.homog i hk) ha idx hs f01 (actDown_has_fol hwf hv i hk)
    cases hkind : (kb i).kind with
    | pred => exact hs
    | neg =>
      apply fDownNot_ssat kb i s v hs f01
      intro j rest hops g hg
      apply (hv i g).2.2
      · exact TAr.keys (ha i) g hg
      · unfold fNodeVal; rw [hkind, hops]
    | all => exact absurd hkind hq.1
    | ex => exact absurd hkind hq.2
    | and => exact conn (by rw [hkind]; rfl)
    | or => exact conn (by rw [hkind]; rfl)
    | implies => exact conn (by rw [hkind]; rfl)

omit hv in
theorem C02_arity (calls : List (FCall ι)) (hq : ∀ c ∈ calls, QF kb c) (s : FState ι α)
    (ha : Arity ar s) : Arity ar (runFCalls kb calls s).1 := by
  induction calls generalizing s with
  | nil => exact ha
  | cons c rest ih =>
    simp only [runFCalls]
    exact ih (fun c' hc' => hq c' (List.mem_cons_of_mem _ hc')) _
      (C02_arity_call kb ar hwf c (hq c (List.mem_cons_self ..)) s ha)

/-- **Any sequence of calls** (any order, any repetition, index restrictions included). -/
theorem C02_sound (calls : List (FCall ι)) (hq : ∀ c ∈ calls, QF kb c) (s : FState ι α)
    (ha : Arity ar s) (hs : FSat kb v s) : FSat kb v (runFCalls kb calls s).1 := by
  induction calls generalizing s with
  | nil => exact hs
  | cons c rest ih =>
    simp only [runFCalls]
    exact ih (fun c' hc' => hq c' (List.mem_cons_of_mem _ hc')) _
      (C02_arity_call kb ar hwf c (hq c (List.mem_cons_self ..)) s ha)
      (C02_sound_call kb ar hwf v hv c (hq c (List.mem_cons_self ..)) s ha hs)

/-- both invariants through `infer` -/
theorem C02_infer_inv (nodes : List ι) (up down : List (FCall ι))
    (hup : ∀ c ∈ up, QF kb c) (hdown : ∀ c ∈ down, QF kb c) (eps : α) (fuel : Nat)
    (s : FState ι α) (ha : Arity ar s) (hs : FSat kb v s) :
    FSat kb v (fInfer kb nodes up down eps fuel s).state ∧
      Arity ar (fInfer kb nodes up down eps fuel s).state := by
  induction fuel generalizing s with
  | zero => exact ⟨hs, ha⟩
  | succ n ih =>
    have ha1 := C02_arity kb ar hwf up hup s ha
    have hs1 := C02_sound kb ar hwf v hv up hup s ha hs
    have ha2 := C02_arity kb ar hwf down hdown _ ha1
    have hs2 := C02_sound kb ar hwf v hv down hdown _ ha1 hs1
    unfold fInfer
    simp only
    split
    · exact ⟨hs2, ha2⟩
    · exact ih _ ha2 hs2

/-- **`infer`** with any sweep schedules, threshold, step limit and registered node list. -/
theorem C02_sound_infer (nodes : List ι) (up down : List (FCall ι))
    (hup : ∀ c ∈ up, QF kb c) (hdown : ∀ c ∈ down, QF kb c) (eps : α) (fuel : Nat)
    (s : FState ι α) (ha : Arity ar s) (hs : FSat kb v s) :
    FSat kb v (fInfer kb nodes up down eps fuel s).state :=
  (C02_infer_inv kb ar hwf v hv nodes up down hup hdown eps fuel s ha hs).1

end main

/-! ### no contradiction -/

/-- a row that contains a value is not crossed, hence not contradictory under any alpha -/
theorem C02_no_contradiction (kb : FKB ι α) (v : ι → Gr → α) (s : FState ι α) (hs : FSat kb v s)
    (a : α) (i : ι) : ∀ r ∈ s.get i, isContra a r.b = false := by
  intro r hr
  have h := (hs i).1 r hr
  have : ¬ (r.b.lo > r.b.hi) := not_lt.mpr (le_trans h.1 h.2)
  unfold isContra
  simp [this]

theorem FSat.no_contra {kb : FKB ι α} {v : ι → Gr → α} {s : FState ι α} (hs : FSat kb v s)
    (nodes : List ι) : fHasContra kb nodes s = false := by
  unfold fHasContra
  rw [List.any_eq_false]
  intro i _
  rw [Bool.not_eq_true, List.any_eq_false]
  intro r hr
  rw [C02_no_contradiction kb v s hs _ i r hr]
  simp

/-- Data whose ground theory has a model is never driven to a contradiction, by any amount of
quantifier-free inference. -/
theorem C02_no_model_contradiction (kb : FKB ι α) (ar : ι → Nat) (hwf : FWF kb ar)
    (v : ι → Gr → α) (hv : FConsistent kb ar v) (calls : List (FCall ι))
    (hq : ∀ c ∈ calls, QF kb c) (s : FState ι α) (ha : Arity ar s) (hs : FSat kb v s)
    (nodes : List ι) : fHasContra kb nodes (runFCalls kb calls s).1 = false :=
  (C02_sound kb ar hwf v hv calls hq s ha hs).no_contra nodes

theorem C02_no_model_contradiction_infer (kb : FKB ι α) (ar : ι → Nat) (hwf : FWF kb ar)
    (v : ι → Gr → α) (hv : FConsistent kb ar v) (nodes : List ι) (up down : List (FCall ι))
    (hup : ∀ c ∈ up, QF kb c) (hdown : ∀ c ∈ down, QF kb c) (eps : α) (fuel : Nat)
    (s : FState ι α) (ha : Arity ar s) (hs : FSat kb v s) (nodes' : List ι) :
    fHasContra kb nodes' (fInfer kb nodes up down eps fuel s).state = false :=
  (C02_sound_infer kb ar hwf v hv nodes up down hup hdown eps fuel s ha hs).no_contra nodes'

/-! ### no leak (frame) -/

/-- An upward call on formula `i` can only touch the table of `i` and — by creating rows at the
world default — the tables of its operands; a downward call only the tables of its operands and
(row creation) of `i`. Every other table is literally unchanged. No hypothesis at all: any kind
(quantifiers included), any knowledge base. Inside a touched table each row is justified
separately, see `C02_sound_call`. -/
theorem C02_no_leak (kb : FKB ι α) (c : FCall ι) (s : FState ι α) (j : ι)
    (hj : j ∉ c.node :: (kb c.node).ops) : (runFCall kb c s).1.get j = s.get j := by
  have hji : j ≠ c.node := fun e => hj (by rw [e]; exact List.mem_cons_self ..)
  have hjo : j ∉ (kb c.node).ops := fun e => hj (List.mem_cons_of_mem _ e)
  cases c with
  | up i =>
    simp only [runFCall, fUp]
    cases (kb i).kind with
    | pred => rfl
    | neg => exact fUpNot_frame kb i s j hji
    | all => exact fUpQuant_frame kb i s j hji
    | ex => exact fUpQuant_frame kb i s j hji
    | and => exact fUpConn_frame kb i s j hj
    | or => exact fUpConn_frame kb i s j hj
    | implies => exact fUpConn_frame kb i s j hj
  | down i idx =>
    simp only [runFCall, fDown]
    cases (kb i).kind with
    | pred => rfl
    | neg => exact fDownNot_frame kb i s j hjo
    | all => exact fDownQuant_frame kb i s j hj
    | ex => exact fDownQuant_frame kb i s j hj
    | and => exact fDownConn_frame kb i s j idx hj
    | or => exact fDownConn_frame kb i s j idx hj
    | implies => exact fDownConn_frame kb i s j idx hj

/-- … and the rows created on the way sit at the world default, i.e. what any grounding READS is
unchanged: an upward call on `i` changes no reading of any other formula (operands included), a
downward call changes no reading outside its operands (the operator included, unless it is its own
operand). -/
theorem C02_no_leak_reads (kb : FKB ι α) (c : FCall ι) (s : FState ι α) (j : ι) (g : Gr)
    (hj : match c with
      | .up i => j ≠ i
      | .down i _ => j ∉ (kb i).ops) :
    Table.getD (kb j).world ((runFCall kb c s).1.get j) g = Table.getD (kb j).world (s.get j) g := by
  cases c with
  | up i =>
    simp only at hj
    simp only [runFCall, fUp]
    cases (kb i).kind with
    | pred => rfl
    | neg => rw [fUpNot_frame kb i s j hj]
    | all => rw [fUpQuant_frame kb i s j hj]
    | ex => rw [fUpQuant_frame kb i s j hj]
    | and => exact fUpConn_reads kb i s j g hj
    | or => exact fUpConn_reads kb i s j g hj
    | implies => exact fUpConn_reads kb i s j g hj
  | down i idx =>
    simp only at hj
    simp only [runFCall, fDown]
    cases (kb i).kind with
    | pred => rfl
    | neg => rw [fDownNot_frame kb i s j hj]
    | all => exact fDownQuant_reads kb i s j g hj
    | ex => exact fDownQuant_reads kb i s j g hj
    | and => exact fDownConn_reads kb i s j g idx hj
    | or => exact fDownConn_reads kb i s j g idx hj
    | implies => exact fDownConn_reads kb i s j g idx hj

/-! ### the hypotheses hold for loaded data -/

/-- the empty state (every grounding unasserted) contains every interpretation that respects the
world defaults -/
theorem FSat_empty (kb : FKB ι α) (v : ι → Gr → α)
    (h : ∀ i g, (kb i).world.lo ≤ v i g ∧ v i g ≤ (kb i).world.hi) : FSat kb v ⟨[]⟩ := by
  intro i
  have : (⟨[]⟩ : FState ι α).get i = [] := rfl
  rw [this]
  exact ⟨fun _ hr => by simp at hr, fun g _ => h i g⟩

theorem Arity_empty (ar : ι → Nat) : Arity ar (⟨[]⟩ : FState ι α) := by
  intro i r hr
  have : (⟨[]⟩ : FState ι α).get i = [] := rfl
  rw [this] at hr
  simp at hr

/-- asserting a fact (`add_data`) that is true in `v` keeps `v` inside the state -/
theorem FSat.addData {kb : FKB ι α} {v : ι → Gr → α} {s : FState ι α} (h : FSat kb v s) (i : ι)
    (g : Gr) (b : Bounds α) (hb : b.lo ≤ v i g ∧ v i g ≤ b.hi) :
    FSat kb v (s.set i (Table.addData (kb i).world (s.get i) g b)) := by
  rw [fSat_iff] at h ⊢
  exact h.set i _ ((h i).addData g b hb)

theorem Arity.addData {ar : ι → Nat} {s : FState ι α} (h : Arity ar s) (kb : FKB ι α) (i : ι)
    (g : Gr) (b : Bounds α) (hg : g.length = ar i) :
    Arity ar (s.set i (Table.addData (kb i).world (s.get i) g b)) :=
  SAr.set h i _ (TAr.addData (h i) _ g b hg)


/-! ### non-vacuity: a concrete first-order knowledge base, ground model and data meet every
hypothesis — with one connective in each grounding-management branch — and calls on it really
create groundings and tighten bounds -/

namespace C02Ex

/-- predicates `P(x)` (0), `Q(x)` (1), `R(x,y)` (3); formula 2 is `And(P(x), Q(x))` (identical
operand maps: no join), formula 4 is `And(P(x), R(x,y))` (different operand maps: join) -/
def kb : FKB Nat ℚ := fun i =>
  match i with
  | 2 => { kind := .and, ops := [0, 1], ws := [1, 1], bias := 1, alpha := 1, opmap := [[0], [0]],
           world := ⟨0, 1⟩ }
  | 4 => { kind := .and, ops := [0, 3], ws := [1, 1], bias := 1, alpha := 1,
           opmap := [[0], [0, 1]], world := ⟨0, 1⟩ }
  | _ => { kind := .pred, bias := 1, alpha := 1, world := ⟨0, 1⟩ }

def ar : Nat → Nat := fun i =>
  match i with
  | 3 => 2
  | 4 => 2
  | _ => 1

def vP (g : Gr) : ℚ := match g with | [0] => 1 | [1] => 1/2 | _ => 0
def vQ (g : Gr) : ℚ := match g with | [0] => 3/4 | [1] => 1/2 | _ => 0
def vR (g : Gr) : ℚ := match g with | [0, 1] => 1/2 | _ => 0

/-- two constants `0`, `1`: `P(0) = 1`, `P(1) = 1/2`, `Q(0) = 3/4`, `Q(1) = 1/2`, `R(0,1) = 1/2`,
every other ground atom `0`; the conjunctions take the values their truth functions dictate -/
def v : Nat → Gr → ℚ := fun i g =>
  match i with
  | 0 => vP g
  | 1 => vQ g
  | 2 => clamp01 (1 - (1 * (1 - vP (proj [0] g)) + (1 * (1 - vQ (proj [0] g)) + 0)))
  | 3 => vR g
  | 4 => clamp01 (1 - (1 * (1 - vP (proj [0] g)) + (1 * (1 - vR (proj [0, 1] g)) + 0)))
  | _ => 0

/-- `P(0) = [1,1]`, `P(1) = [1/2,1/2]`, `Q(0) = [3/4,3/4]`, `R(0,1) = [1/2,1/2]`; `Q(1)` and all
other ground atoms are not asserted -/
def s : FState Nat ℚ :=
  ⟨[(0, [⟨[0], ⟨1, 1⟩, ⟨1, 1⟩⟩, ⟨[1], ⟨1/2, 1/2⟩, ⟨1/2, 1/2⟩⟩]),
    (1, [⟨[0], ⟨3/4, 3/4⟩, ⟨3/4, 3/4⟩⟩]),
    (3, [⟨[0, 1], ⟨1/2, 1/2⟩, ⟨1/2, 1/2⟩⟩])]⟩

example : FWF kb ar := by
  constructor
  · intro i; unfold kb; split <;> simp
  · intro i; unfold kb; split <;> simp
  · intro i; unfold kb; split <;> simp [FKind.isConn]
  · intro i; unfold kb; split <;> simp [FKind.isConn, ar]
  · intro i; unfold kb; split <;> simp [FKind.isConn, ar, numVars, dedup]
  · intro i; unfold kb; split <;> simp [FKind.isConn, ar]
  · intro i; unfold kb; split <;> simp [FKind.isConn, ar, isHomogeneous]
  · intro i; unfold kb; split <;> simp
  · intro i; unfold kb; split <;> simp [ar]

theorem vP_01 (g : Gr) : 0 ≤ vP g ∧ vP g ≤ 1 := by unfold vP; split <;> norm_num
theorem vQ_01 (g : Gr) : 0 ≤ vQ g ∧ vQ g ≤ 1 := by unfold vQ; split <;> norm_num
theorem vR_01 (g : Gr) : 0 ≤ vR g ∧ vR g ≤ 1 := by unfold vR; split <;> norm_num

theorem v_01 (i : Nat) (g : Gr) : 0 ≤ v i g ∧ v i g ≤ 1 := by
  unfold v
  split
  · exact vP_01 g
  · exact vQ_01 g
  · exact ⟨clamp01_nonneg _, clamp01_le_one _⟩
  · exact vR_01 g
  · exact ⟨clamp01_nonneg _, clamp01_le_one _⟩
  · norm_num

example : FConsistent kb ar v := by
  intro i g
  refine ⟨(v_01 i g).1, (v_01 i g).2, ?_⟩
  intro _ y hy
  match i with
  | 0 => simp [kb, fNodeVal] at hy
  | 1 => simp [kb, fNodeVal] at hy
  | 2 =>
    simp [kb, fNodeVal, connVal, fOpVals] at hy
    rw [← hy]
    simp [v]
  | 3 => simp [kb, fNodeVal] at hy
  | 4 =>
    simp [kb, fNodeVal, connVal, fOpVals] at hy
    rw [← hy]
    simp [v]
  | (n + 5) => simp [kb, fNodeVal] at hy

theorem s_get (i : Nat) : s.get i =
    match i with
    | 0 => [⟨[0], ⟨1, 1⟩, ⟨1, 1⟩⟩, ⟨[1], ⟨1/2, 1/2⟩, ⟨1/2, 1/2⟩⟩]
    | 1 => [⟨[0], ⟨3/4, 3/4⟩, ⟨3/4, 3/4⟩⟩]
    | 3 => [⟨[0, 1], ⟨1/2, 1/2⟩, ⟨1/2, 1/2⟩⟩]
    | _ => [] := by
  match i with
  | 0 => rfl
  | 1 => rfl
  | 2 => rfl
  | 3 => rfl
  | (n + 4) => simp [s, FState.get]

example : Arity ar s := by
  intro i r hr
  rw [s_get] at hr
  match i with
  | 0 => simp at hr; rcases hr with rfl | rfl <;> rfl
  | 1 => simp at hr; subst hr; rfl
  | 2 => simp at hr
  | 3 => simp at hr; subst hr; rfl
  | (n + 4) => simp at hr

example : FSat kb v s := by
  intro i
  have hw : (kb i).world = ⟨0, 1⟩ := by unfold kb; split <;> rfl
  refine ⟨?_, fun g _ => by rw [hw]; exact v_01 i g⟩
  intro r hr
  rw [s_get] at hr
  match i with
  | 0 => simp at hr; rcases hr with rfl | rfl <;> simp [v, vP]
  | 1 => simp at hr; subst hr; simp [v, vQ]
  | 2 => simp at hr
  | 3 => simp at hr; subst hr; simp [v, vR]
  | (n + 4) => simp at hr

/-- the state after the grounding management of formula 2: `Q(1)` and both instances of the
conjunction exist, at their world defaults -/
def s2 : FState Nat ℚ :=
  ⟨[(2, [⟨[0], ⟨0, 1⟩, ⟨0, 1⟩⟩, ⟨[1], ⟨0, 1⟩, ⟨0, 1⟩⟩]),
    (1, [⟨[0], ⟨3/4, 3/4⟩, ⟨3/4, 3/4⟩⟩, ⟨[1], ⟨0, 1⟩, ⟨0, 1⟩⟩]),
    (0, [⟨[0], ⟨1, 1⟩, ⟨1, 1⟩⟩, ⟨[1], ⟨1/2, 1/2⟩, ⟨1/2, 1/2⟩⟩]),
    (3, [⟨[0, 1], ⟨1/2, 1/2⟩, ⟨1/2, 1/2⟩⟩])]⟩

theorem groundings2 : groundings kb 2 false s =
    (s2, some ([[0], [1]], [[[0], [1]], [[0], [1]]])) := by
  rfl

/-- the upward call on `And(P(x), Q(x))` creates both ground instances and tightens them:
`And(0) = [3/4, 3/4]` and — with the unasserted `Q(1)` read at its world default `[0,1]` —
`And(1) = [0, 1/2]`; nothing of constant `0` leaks into the instance at constant `1` -/
example : (runFCall kb (.up 2) s).1.get 2 =
    [⟨[0], ⟨0, 1⟩, ⟨3/4, 3/4⟩⟩, ⟨[1], ⟨0, 1⟩, ⟨0, 1/2⟩⟩] := by
  have h0 : s2.get 0 = [⟨[0], ⟨1, 1⟩, ⟨1, 1⟩⟩, ⟨[1], ⟨1/2, 1/2⟩, ⟨1/2, 1/2⟩⟩] := rfl
  have h1 : s2.get 1 = [⟨[0], ⟨3/4, 3/4⟩, ⟨3/4, 3/4⟩⟩, ⟨[1], ⟨0, 1⟩, ⟨0, 1⟩⟩] := rfl
  have h2 : s2.get 2 = [⟨[0], ⟨0, 1⟩, ⟨0, 1⟩⟩, ⟨[1], ⟨0, 1⟩, ⟨0, 1⟩⟩] := rfl
  have hk : (kb 2).kind = .and := rfl
  have hops : (kb 2).ops = [0, 1] := rfl
  have hws : (kb 2).ws = [1, 1] := rfl
  have hb : (kb 2).bias = 1 := rfl
  have ha : (kb 2).alpha = 1 := rfl
  have hw0 : (kb 0).world = ⟨0, 1⟩ := rfl
  have hw1 : (kb 1).world = ⟨0, 1⟩ := rfl
  simp only [runFCall, fUp, hk, fUpConn, groundings2, get_set_self]
  simp [List.range_succ, hops, hws, hb, ha, hw0, hw1, h0, h1, h2, rowsOf, Table.getD, Table.find?,
    Table.setB, isContra, region, fActUp, hk, andUp, termLo, termHi, aggRow, aggregate, clamp01]
  norm_num

/-- the state after the grounding management of formula 4: the (pandas-style) outer join of `P(x)`
and `R(x,y)` on `x` yields the operator groundings `(0,1)` and `(1,1)`; `R(1,1)` is created at its
world default -/
def s4 : FState Nat ℚ :=
  ⟨[(4, [⟨[0, 1], ⟨0, 1⟩, ⟨0, 1⟩⟩, ⟨[1, 1], ⟨0, 1⟩, ⟨0, 1⟩⟩]),
    (3, [⟨[0, 1], ⟨1/2, 1/2⟩, ⟨1/2, 1/2⟩⟩, ⟨[1, 1], ⟨0, 1⟩, ⟨0, 1⟩⟩]),
    (0, [⟨[0], ⟨1, 1⟩, ⟨1, 1⟩⟩, ⟨[1], ⟨1/2, 1/2⟩, ⟨1/2, 1/2⟩⟩]),
    (1, [⟨[0], ⟨3/4, 3/4⟩, ⟨3/4, 3/4⟩⟩])]⟩

theorem groundings4 : groundings kb 4 false s =
    (s4, some ([[0, 1], [1, 1]], [[[0], [1]], [[0, 1], [1, 1]]])) := by
  rfl

/-- the join branch: the upward call on `And(P(x), R(x,y))` computes the instance at `(0,1)` from
`P(0)` and `R(0,1)` — `[1/2, 1/2]` — and the instance at `(1,1)` from `P(1)` and the unasserted
`R(1,1)` — `[0, 1/2]` -/
example : (runFCall kb (.up 4) s).1.get 4 =
    [⟨[0, 1], ⟨0, 1⟩, ⟨1/2, 1/2⟩⟩, ⟨[1, 1], ⟨0, 1⟩, ⟨0, 1/2⟩⟩] := by
  have h0 : s4.get 0 = [⟨[0], ⟨1, 1⟩, ⟨1, 1⟩⟩, ⟨[1], ⟨1/2, 1/2⟩, ⟨1/2, 1/2⟩⟩] := rfl
  have h3 : s4.get 3 = [⟨[0, 1], ⟨1/2, 1/2⟩, ⟨1/2, 1/2⟩⟩, ⟨[1, 1], ⟨0, 1⟩, ⟨0, 1⟩⟩] := rfl
  have h4 : s4.get 4 = [⟨[0, 1], ⟨0, 1⟩, ⟨0, 1⟩⟩, ⟨[1, 1], ⟨0, 1⟩, ⟨0, 1⟩⟩] := rfl
  have hk : (kb 4).kind = .and := rfl
  have hops : (kb 4).ops = [0, 3] := rfl
  have hws : (kb 4).ws = [1, 1] := rfl
  have hb : (kb 4).bias = 1 := rfl
  have ha : (kb 4).alpha = 1 := rfl
  have hw0 : (kb 0).world = ⟨0, 1⟩ := rfl
  have hw3 : (kb 3).world = ⟨0, 1⟩ := rfl
  simp only [runFCall, fUp, hk, fUpConn, groundings4, get_set_self]
  simp [List.range_succ, hops, hws, hb, ha, hw0, hw3, h0, h3, h4, rowsOf, Table.getD, Table.find?,
    Table.setB, isContra, region, fActUp, hk, andUp, termLo, termHi, aggRow, aggregate, clamp01]
  norm_num

end C02Ex

end LNN
