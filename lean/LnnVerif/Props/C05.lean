/-
C05 — Inference only ever tightens.

For every knowledge base (no hypothesis on weights, biases, alphas, graph shape) and every state
with bounds in `[0,1]`, every public inference call — node-level upward/downward with or without an
operand index, composite (Iff/XOr) calls, passes over any schedule, `infer` with any configuration
and step limit, and any finite sequence of those — leaves every lower bound at least as large and
every upper bound at least as small as before.

The hypothesis `StateInUnit s` is needed: `aggregate_bounds` clamps, so a stored lower bound above
`1` (or an upper bound below `0`) would be *loosened* by the clamp (`C05_needs_range` below).
-/
import LnnVerif.Lemmas.Basic
import Mathlib.Algebra.Order.Field.Rat
import Mathlib.Tactic.NormNum
import LnnVerif.Lemmas.PendLemmas
import LnnVerif.Lemmas.FolMono
import LnnVerif.Lemmas.FolRestrict

set_option linter.unusedSectionVars false

namespace LNN

variable {ι : Type} [DecidableEq ι] {α : Type} [Field α] [LinearOrder α] [IsStrictOrderedRing α]

/-- one aggregation never loosens bounds that lie in `[0,1]` -/
theorem C05_aggregate_tightens (sel : BoundSel) (prev new : Bounds α) (h : InUnit prev) :
    prev.lo ≤ (aggregate sel prev new).1.lo ∧ (aggregate sel prev new).1.hi ≤ prev.hi :=
  aggregate_tightens sel new h

theorem C05_stepUp (kb : KB ι α) (i : ι) (s : State ι α) (hs : StateInUnit s) :
    Tighter s (stepUp kb i s).1 :=
  (stepUp_writes kb i s).tighter hs

theorem C05_stepDown (kb : KB ι α) (i : ι) (idx : Option Nat) (s : State ι α)
    (hs : StateInUnit s) : Tighter s (stepDown kb i idx s).1 :=
  (stepDown_writes kb i idx s).tighter hs

theorem C05_step (kb : KB ι α) (st : Step ι) (s : State ι α) (hs : StateInUnit s) :
    Tighter s (runStep kb st s).1 :=
  (runStep_writes kb st s).tighter hs

theorem C05_steps (kb : KB ι α) (steps : List (Step ι)) (s : State ι α) (hs : StateInUnit s) :
    Tighter s (runSteps kb steps s).1 :=
  (runSteps_writes kb steps s).tighter hs

/-- a public node-level call (composite formulae included) -/
theorem C05_call (kb : KB ι α) (c : Call ι) (s : State ι α) (hs : StateInUnit s) :
    Tighter s (runSteps kb (c.steps kb) s).1 :=
  C05_steps kb _ s hs

theorem C05_pass (kb : KB ι α) (sched : List (Call ι)) (s : State ι α) (hs : StateInUnit s) :
    Tighter s (runPass kb sched s).1 :=
  (runPass_writes kb sched s).tighter hs

theorem C05_sweep (kb : KB ι α) (cfg : InferCfg ι α) (s : State ι α) (hs : StateInUnit s) :
    Tighter s (sweep kb cfg s).1 :=
  (sweep_writes kb cfg s).tighter hs

theorem C05_infer (kb : KB ι α) (cfg : InferCfg ι α) (fuel : Nat) (s : State ι α)
    (hs : StateInUnit s) : Tighter s (infer kb cfg fuel s).state :=
  (infer_writes kb cfg fuel s).tighter hs

/-- **Monotonicity.** Any sequence of public inference calls, on any knowledge base, only
tightens. -/
theorem C05_monotone (kb : KB ι α) (s : State ι α) (hs : StateInUnit s) (ops : List (Op ι α))
    (i : ι) : (s i).lo ≤ (run kb ops s i).lo ∧ (run kb ops s i).hi ≤ (s i).hi := by
  obtain ⟨_, h⟩ := run_writes kb ops s
  exact h.tighter hs i

/-- the same as a statement about states, and monotone along prefixes of the call sequence -/
theorem C05_monotone_append (kb : KB ι α) (s : State ι α) (hs : StateInUnit s)
    (ops more : List (Op ι α)) : Tighter (run kb ops s) (run kb (ops ++ more) s) := by
  have e : run kb (ops ++ more) s = run kb more (run kb ops s) := by
    unfold run; rw [List.foldl_append]
  obtain ⟨_, h⟩ := run_writes kb ops s
  obtain ⟨_, h'⟩ := run_writes kb more (run kb ops s)
  rw [e]
  exact h'.tighter (h.inUnit hs)

/-! ### non-vacuity, and why the range hypothesis is there -/

def c05KB : KB Nat ℚ := fun i =>
  match i with
  | 2 => { kind := .and, ops := [0, 1], ws := [1/2, 2], bias := 1, alpha := 1 }
  | 3 => { kind := .neg, ops := [2], bias := 1, alpha := 1 }
  | _ => { kind := .atom, bias := 1, alpha := 1 }

def c05S : State Nat ℚ := fun i =>
  match i with
  | 0 => ⟨1/2, 1/2⟩ | 1 => ⟨1/2, 1⟩ | 2 => ⟨1/4, 1⟩ | _ => ⟨0, 1⟩

example : StateInUnit c05S := by
  intro i
  unfold c05S InUnit
  split <;> norm_num

/-- the tightening is strict on this instance: `[1/2,1]` becomes `[3/4,1]` -/
example : (run c05KB [Op.call (Call.down 2 none)] c05S 1) = ⟨3/4, 1⟩ := by
  simp [run, runOp, Call.steps, callDown, runSteps, runStep, stepDown, c05KB, c05S, arrested,
    isContra, region, actDown, andDown, opds, writeOps, enumFrom, aggregate, clamp01, termHi, sumW,
    Function.update]
  norm_num

/-- without the range hypothesis the clamp loosens: a stored lower bound `2` is clamped to `1` -/
theorem C05_needs_range :
    ¬ ((⟨2, 3⟩ : Bounds ℚ).lo ≤ (aggregate .both (⟨2, 3⟩ : Bounds ℚ) ⟨0, 1⟩).1.lo) := by
  simp [aggregate, clamp01]

/-! ### grounding propagation through a partially quantified formula

The driver runs the first-order calls through the pending-grounding layer (`Model/FolPend.lean`).
The layer never touches a stored row, and without partially quantified operands it is the plain run. -/

section pend

variable {ι : Type} [DecidableEq ι] {α : Type} [Field α] [LinearOrder α]

/-- the step that precedes the `downward` of a partially quantified formula keeps every stored
row of every formula exactly as it was: nothing is loosened, no grounding disappears -/
theorem C05_propagate_keeps (kb : FKB ι α) (i : ι) (p : PState ι α) (k : ι) (g : Gr) (r : Row α)
    (h : Table.find? (p.st.get k) g = some r) :
    Table.find? ((preDown kb i p).st.get k) g = some r :=
  preDown_keeps kb i p k g r h

/-- the layered calls compute what the plain calls compute (on the state after that step) -/
theorem C05_layer_calls (kb : FKB ι α) (i : ι) (idx : Option Nat) (p : PState ι α) :
    (pUp kb i p).1.st = (fUp kb i p.st).1 ∧
      (pDown kb i idx p).1.st = (fDown kb i idx (preDown kb i p).st).1 :=
  ⟨rfl, rfl⟩

/-- no formula with a partially quantified operand: the layered run IS the plain run -/
theorem C05_layer_is_plain {kb : FKB ι α} (h : NoQuantParent kb) (cs : List (FCall ι))
    (s : FState ι α) :
    runPCalls kb cs ⟨s, []⟩ = (⟨(runFCalls kb cs s).1, []⟩, (runFCalls kb cs s).2) :=
  runPCalls_of_noParent h cs s

end pend

/-! ### first-order tables and quantifiers: every call only tightens

For every first-order knowledge base whose world defaults are bounds in [0,1] — no hypothesis on
node kinds, weights, bias, alpha, variable maps — and every state with bounds in [0,1]: after any
node-level call (any `index`), any sequence of calls (a pass over any schedule), any `infer` with
any step limit, with or without a query, including the grounding propagation through partially
quantified sub-formulae, every grounding that was stored is still stored, its lower bound is not
lower, its upper bound not higher, its data (leaf) untouched, and all bounds are again in [0,1]. -/

section fol

variable {ι : Type} [DecidableEq ι] {α : Type} [Field α] [LinearOrder α] [IsStrictOrderedRing α]

theorem C05_fol_call (kb : FKB ι α) (hw : WorldsInUnit kb) (c : FCall ι) (p : PState ι α)
    (hs : FState.InUnit p.st) :
    FState.Tightens p.st (runPCall kb c p).1.st ∧ FState.InUnit (runPCall kb c p).1.st :=
  runPCall_tightens kb hw c p hs

theorem C05_fol_calls (kb : FKB ι α) (hw : WorldsInUnit kb) (cs : List (FCall ι)) (p : PState ι α)
    (hs : FState.InUnit p.st) :
    FState.Tightens p.st (runPCalls kb cs p).1.st ∧ FState.InUnit (runPCalls kb cs p).1.st :=
  runPCalls_tightens kb hw cs p hs

theorem C05_fol_infer (kb : FKB ι α) (hw : WorldsInUnit kb) (nodes : List ι) (up down : List (FCall ι))
    (eps : α) (query : Option ι) (fuel : Nat) (p : PState ι α) (hs : FState.InUnit p.st) :
    FState.Tightens p.st (pInferQ kb nodes up down eps query fuel p).state.st ∧
      FState.InUnit (pInferQ kb nodes up down eps query fuel p).state.st :=
  pInferQ_tightens kb hw nodes up down eps query fuel p hs

/-- the plain calls (what the layer runs underneath) -/
theorem C05_fol_plain (kb : FKB ι α) (hw : WorldsInUnit kb) (cs : List (FCall ι)) (s : FState ι α)
    (hs : FState.InUnit s) :
    FState.Tightens s (runFCalls kb cs s).1 ∧ FState.InUnit (runFCalls kb cs s).1 :=
  runFCalls_tightens kb hw cs s hs

end fol

/-! ### node-level calls restricted to given groundings (`upward(groundings=…)`, `downward(index=…, groundings=…)`) -/

section restricted

variable {ι : Type} [DecidableEq ι] {α : Type} [Field α] [LinearOrder α] [IsStrictOrderedRing α]

/-- with any grounding restriction (honoured by join-free connectives, ignored by everything else)
and any operand index, a node-level call only tightens -/
theorem C05_fol_restricted (kb : FKB ι α) (hw : WorldsInUnit kb) (i : ι) (idx : Option Nat)
    (restrict : Option (List Gr)) (p : PState ι α) (hs : FState.InUnit p.st) :
    (FState.Tightens p.st (pUpR kb i restrict p).1.st ∧ FState.InUnit (pUpR kb i restrict p).1.st) ∧
    (FState.Tightens p.st (pDownR kb i idx restrict p).1.st ∧ FState.InUnit (pDownR kb i idx restrict p).1.st) :=
  ⟨FolRestrict.pUpR_tightens kb hw i restrict p hs, FolRestrict.pDownR_tightens kb hw i idx restrict p hs⟩

end restricted

end LNN
