/-
The amount reported by the calls of the FIRST-ORDER engine (`Model/Fol.lean`): it is non-negative,
and it is zero exactly when nothing a query can see has changed.

* `Step rd ok s s' a` : the generic shape of one (or several) engine steps seen through a reading
  function `rd` — the reported amount is non-negative, the invariant `ok` is kept, every reading
  only tightens, and the amount is zero iff every reading is the same. Steps compose
  (`Step.trans`): because readings only tighten, a reading cannot move away and come back.
* tables read through `Table.getD w`: `aggRow`, folds of `aggRow`, `writeMerged`, `Table.addg w`
  are steps;
* states read through `reads kb`: grounding management, every node-level call, every list of calls
  are steps.

Everything lives in the namespace `LNN.FolAmount`.
-/
import LnnVerif.Model.Fol
import LnnVerif.Lemmas.Basic
import LnnVerif.Lemmas.TableLemmas
import LnnVerif.Lemmas.FolSound
import LnnVerif.Lemmas.Quant
import Mathlib.Algebra.Order.Field.Rat
import Mathlib.Tactic.NormNum

set_option linter.unusedSectionVars false

namespace LNN
namespace FolAmount

variable {ι : Type} [DecidableEq ι] {α : Type} [Field α] [LinearOrder α] [IsStrictOrderedRing α]

/-! ## vocabulary -/

/-- every stored working bound lies in [0,1] (crossed bounds allowed) -/
def TInUnit (t : Table α) : Prop :=
  ∀ r ∈ t, 0 ≤ r.b.lo ∧ r.b.lo ≤ 1 ∧ 0 ≤ r.b.hi ∧ r.b.hi ≤ 1

def SInUnit (s : FState ι α) : Prop := ∀ i, TInUnit (s.get i)

def WorldsInUnit (kb : FKB ι α) : Prop :=
  ∀ i, 0 ≤ (kb i).world.lo ∧ (kb i).world.lo ≤ 1 ∧ 0 ≤ (kb i).world.hi ∧ (kb i).world.hi ≤ 1

/-- what every query returns: the stored bounds, or the formula's world default for a grounding
that is not stored -/
def reads (kb : FKB ι α) (s : FState ι α) (i : ι) (g : Gr) : Bounds α :=
  Table.getD (kb i).world (s.get i) g

/-- nothing a query can see has changed -/
def SameReads (kb : FKB ι α) (s s' : FState ι α) : Prop :=
  ∀ i g, reads kb s' i g = reads kb s i g

/-- `b'` is at least as tight as `b` -/
def BTight (b b' : Bounds α) : Prop := b.lo ≤ b'.lo ∧ b'.hi ≤ b.hi

/-- every query on `s'` returns bounds at least as tight as on `s` -/
def ReadsTighter (kb : FKB ι α) (s s' : FState ι α) : Prop :=
  ∀ i g, BTight (reads kb s i g) (reads kb s' i g)

theorem BTight.refl (b : Bounds α) : BTight b b := ⟨le_rfl, le_rfl⟩

theorem BTight.trans {a b c : Bounds α} (h1 : BTight a b) (h2 : BTight b c) : BTight a c :=
  ⟨le_trans h1.1 h2.1, le_trans h2.2 h1.2⟩

/-- bounds that are the same at both ends of a tightening chain are the same in the middle -/
theorem BTight.squeeze {a b c : Bounds α} (h1 : BTight a b) (h2 : BTight b c) (h : c = a) :
    b = a := by
  subst h
  exact Bounds.ext' (le_antisymm h2.1 h1.1) (le_antisymm h1.2 h2.2)

theorem SameReads.refl (kb : FKB ι α) (s : FState ι α) : SameReads kb s s := fun _ _ => rfl

theorem SameReads.trans {kb : FKB ι α} {s t u : FState ι α} (h1 : SameReads kb s t)
    (h2 : SameReads kb t u) : SameReads kb s u := fun i g => by rw [h2 i g, h1 i g]

theorem ReadsTighter.refl (kb : FKB ι α) (s : FState ι α) : ReadsTighter kb s s :=
  fun _ _ => BTight.refl _

theorem ReadsTighter.trans {kb : FKB ι α} {s t u : FState ι α} (h1 : ReadsTighter kb s t)
    (h2 : ReadsTighter kb t u) : ReadsTighter kb s u := fun i g => (h1 i g).trans (h2 i g)

/-! ## steps, generically -/

/-- One or several engine steps from `s` to `s'` reporting `a`, seen through the readings `rd`:
the amount is non-negative, the invariant is kept, readings only tighten, and the amount is zero
exactly when no reading changed. -/
structure Step {S K : Type} (rd : S → K → Bounds α) (ok : S → Prop) (s s' : S) (a : α) : Prop where
  nonneg : 0 ≤ a
  keeps : ok s → ok s'
  tight : ok s → ∀ k, BTight (rd s k) (rd s' k)
  zero_iff : ok s → (a = 0 ↔ ∀ k, rd s' k = rd s k)

section generic

variable {S K : Type} {rd : S → K → Bounds α} {ok : S → Prop}

theorem Step.refl (rd : S → K → Bounds α) (ok : S → Prop) (s : S) : Step rd ok s s 0 where
  nonneg := le_rfl
  keeps := id
  tight := fun _ _ => BTight.refl _
  zero_iff := fun _ => ⟨fun _ _ => rfl, fun _ => rfl⟩

/-- a step that changes no reading (row creation) reports nothing -/
theorem Step.of_same {s s' : S} (hk : ok s → ok s') (h : ∀ k, rd s' k = rd s k) :
    Step rd ok s s' 0 where
  nonneg := le_rfl
  keeps := hk
  tight := fun _ k => by rw [h k]; exact BTight.refl _
  zero_iff := fun _ => ⟨fun _ => h, fun _ => rfl⟩

theorem Step.cast {s s' : S} {a b : α} (h : Step rd ok s s' a) (e : a = b) : Step rd ok s s' b :=
  e ▸ h

/-- steps compose; the amounts add up -/
theorem Step.trans {s t u : S} {a b : α} (h1 : Step rd ok s t a) (h2 : Step rd ok t u b) :
    Step rd ok s u (a + b) where
  nonneg := add_nonneg h1.nonneg h2.nonneg
  keeps := fun h => h2.keeps (h1.keeps h)
  tight := fun h k => (h1.tight h k).trans (h2.tight (h1.keeps h) k)
  zero_iff := fun h => by
    constructor
    · intro h0 k
      obtain ⟨ha, hb⟩ := (add_eq_zero_iff_of_nonneg h1.nonneg h2.nonneg).mp h0
      rw [(h2.zero_iff (h1.keeps h)).mp hb k, (h1.zero_iff h).mp ha k]
    · intro he
      have e1 : ∀ k, rd t k = rd s k := fun k =>
        (h1.tight h k).squeeze (h2.tight (h1.keeps h) k) (he k)
      have ha := (h1.zero_iff h).mpr e1
      have hb := (h2.zero_iff (h1.keeps h)).mpr (fun k => by rw [he k, e1 k])
      rw [ha, hb, add_zero]

end generic

/-! ## tables -/

/-- the invariant of a table read through the world default `w` -/
def TOk (w : Bounds α) (t : Table α) : Prop := InUnit w ∧ TInUnit t

/-- a step on one table, read through the world default `w` -/
abbrev TStep (w : Bounds α) (t t' : Table α) (a : α) : Prop := Step (Table.getD w) (TOk w) t t' a

theorem TInUnit.setB {t : Table α} (h : TInUnit t) (g : Gr) {b : Bounds α} (hb : InUnit b) :
    TInUnit (Table.setB t g b) := by
  intro r hr
  obtain ⟨r0, hr0, _, hc⟩ := FolSound.mem_setB hr
  rcases hc with ⟨_, h2⟩ | ⟨_, h2⟩
  · rw [h2]; exact hb
  · rw [h2]; exact h r0 hr0

theorem TInUnit.addg {t : Table α} (h : TInUnit t) {w : Bounds α} (hw : InUnit w) (gs : List Gr) :
    TInUnit (Table.addg w t gs) := by
  intro r hr
  rcases FolSound.mem_addg w gs t r hr with h1 | ⟨_, h2, _⟩
  · exact h r h1
  · rw [h2]; exact hw

theorem getD_setB_self (w : Bounds α) {t : Table α} {g : Gr} {r : Row α}
    (hr : Table.find? t g = some r) (b : Bounds α) : Table.getD w (Table.setB t g b) g = b := by
  unfold Table.getD
  rw [Table.find?_setB_self, hr]
  rfl

theorem getD_setB_of_ne (w : Bounds α) (t : Table α) {g k : Gr} (b : Bounds α) (h : k ≠ g) :
    Table.getD w (Table.setB t g b) k = Table.getD w t k := by
  unfold Table.getD
  rw [Table.find?_setB_of_ne t b h]

/-- overwriting the bounds of a stored row by tighter ones, reporting the sum of the absolute
changes -/
theorem tstep_setB (w : Bounds α) {t : Table α} {g : Gr} {r : Row α}
    (hr : Table.find? t g = some r) {m : Bounds α} (hm : InUnit m)
    (ht : InUnit r.b → BTight r.b m) :
    TStep w t (Table.setB t g m) (|m.lo - r.b.lo| + |m.hi - r.b.hi|) where
  nonneg := add_nonneg (abs_nonneg _) (abs_nonneg _)
  keeps := fun h => ⟨h.1, h.2.setB g hm⟩
  tight := fun h k => by
    by_cases hk : k = g
    · subst hk
      rw [getD_setB_self w hr, Table.getD_of_some hr]
      exact ht (h.2 r (Table.find?_some hr).1)
    · rw [getD_setB_of_ne w t m hk]; exact BTight.refl _
  zero_iff := fun _ => by
    constructor
    · intro h0 k
      have h' := (add_eq_zero_iff_of_nonneg (abs_nonneg _) (abs_nonneg _)).mp h0
      have e : m = r.b :=
        Bounds.ext' (sub_eq_zero.mp (abs_eq_zero.mp h'.1)) (sub_eq_zero.mp (abs_eq_zero.mp h'.2))
      by_cases hk : k = g
      · subst hk
        rw [getD_setB_self w hr, Table.getD_of_some hr, e]
      · rw [getD_setB_of_ne w t m hk]
    · intro he
      have e := he g
      rw [getD_setB_self w hr, Table.getD_of_some hr] at e
      rw [e]; simp

theorem tstep_aggRow (w : Bounds α) (t : Table α) (g : Gr) (sel : BoundSel) (p : Bounds α) :
    TStep w t (aggRow t g sel p).1 (aggRow t g sel p).2 := by
  unfold aggRow
  cases hf : Table.find? t g with
  | none => exact Step.refl _ _ t
  | some r =>
    exact tstep_setB w hf (aggregate_inUnit sel r.b p) (fun h => aggregate_tightens sel p h)

theorem tstep_addg (w : Bounds α) (t : Table α) (gs : List Gr) :
    TStep w t (Table.addg w t gs) 0 :=
  Step.of_same (fun h => ⟨h.1, h.2.addg h.1 gs⟩) (fun g => Table.getD_addg w t gs g)

/-- a fold of `aggRow` steps (the upward write of every node kind, the downward write of Not and of
the quantifiers) -/
theorem tstep_foldAgg {β : Type} (w : Bounds α) (key : β → Gr) (pr : β → Bounds α) (sel : BoundSel)
    (l : List β) (t0 : Table α) (acc : Table α × α) (h : TStep w t0 acc.1 acc.2) :
    TStep w t0
      (l.foldl (fun (acc : Table α × α) x =>
        let a := aggRow acc.1 (key x) sel (pr x)
        (a.1, acc.2 + a.2)) acc).1
      (l.foldl (fun (acc : Table α × α) x =>
        let a := aggRow acc.1 (key x) sel (pr x)
        (a.1, acc.2 + a.2)) acc).2 := by
  apply FolSound.foldl_inv (fun acc : Table α × α => TStep w t0 acc.1 acc.2) _ _ _ h
  intro b hb x _
  exact hb.trans (tstep_aggRow w b.1 (key x) sel (pr x))

/-- the merge of a non-empty list of aggregations against `b` is in range and at least as tight
as `b` -/
theorem merged_ok (b : Bounds α) (c : Bounds α) (cs : List (Bounds α))
    (hx : ∀ x ∈ c :: cs, ∃ p, x = (aggregate .both b p).1) :
    InUnit (cs.foldl mergeB c) ∧ (InUnit b → BTight b (cs.foldl mergeB c)) := by
  apply Table.foldl_mergeB_induct (fun m : Bounds α => InUnit m ∧ (InUnit b → BTight b m))
  · rintro x y ⟨hx1, hx2⟩ ⟨hy1, hy2⟩
    refine ⟨⟨le_max_of_le_left hx1.1, max_le hx1.2.1 hy1.2.1, le_min hx1.2.2.1 hy1.2.2.1,
      min_le_of_left_le hx1.2.2.2⟩, fun hb => ?_⟩
    exact ⟨le_max_of_le_left (hx2 hb).1, min_le_of_left_le (hx2 hb).2⟩
  · intro x hx'
    obtain ⟨p, rfl⟩ := hx x hx'
    exact ⟨aggregate_inUnit _ _ _, fun hb => aggregate_tightens .both p hb⟩

/-- the merged downward write of a connective -/
theorem tstep_writeMerged (w : Bounds α) (t : Table α) (props : List (Gr × Bounds α)) :
    TStep w t (writeMerged t props).1 (writeMerged t props).2 := by
  unfold writeMerged
  simp only
  have hnd := Quant.nodup_dedupKeepFirst (props.map (·.1))
  generalize dedupKeepFirst (props.map (·.1)) = ks at hnd
  suffices H : ∀ (acc : Table α × α), (∀ g ∈ ks, Table.find? acc.1 g = Table.find? t g) →
      TStep w t acc.1 acc.2 →
      TStep w t (ks.foldl (fun (acc : Table α × α) g =>
        match Table.find? t g with
        | none => acc
        | some r =>
          match (props.filter (·.1 == g)).map fun p => (aggregate .both r.b p.2).1 with
          | [] => acc
          | c :: cs =>
            (acc.1.setB g (cs.foldl mergeB c),
              acc.2 + (|(cs.foldl mergeB c).lo - r.b.lo| + |(cs.foldl mergeB c).hi - r.b.hi|))) acc).1
        (ks.foldl (fun (acc : Table α × α) g =>
        match Table.find? t g with
        | none => acc
        | some r =>
          match (props.filter (·.1 == g)).map fun p => (aggregate .both r.b p.2).1 with
          | [] => acc
          | c :: cs =>
            (acc.1.setB g (cs.foldl mergeB c),
              acc.2 + (|(cs.foldl mergeB c).lo - r.b.lo| + |(cs.foldl mergeB c).hi - r.b.hi|))) acc).2 from
    H (t, 0) (fun _ _ => rfl) (Step.refl _ _ t)
  induction ks with
  | nil => intro acc _ ha; exact ha
  | cons k ks ih =>
    rw [List.nodup_cons] at hnd
    intro acc hfind ha
    rw [List.foldl_cons]
    have hk := hfind k (List.mem_cons_self ..)
    have hrest : ∀ g ∈ ks, Table.find? acc.1 g = Table.find? t g :=
      fun g hg => hfind g (List.mem_cons_of_mem _ hg)
    apply ih hnd.2
    · intro g hg
      split
      · exact hrest g hg
      · split
        · exact hrest g hg
        · have hgk : g ≠ k := fun e => hnd.1 (e ▸ hg)
          simp only
          rw [Table.find?_setB_of_ne _ _ hgk]
          exact hrest g hg
    · split
      · exact ha
      · next r hr =>
        split
        · exact ha
        · next c cs hc =>
          have hx : ∀ x ∈ c :: cs, ∃ p, x = (aggregate .both r.b p).1 := by
            intro x hx
            rw [← hc, List.mem_map] at hx
            obtain ⟨p, _, e⟩ := hx
            exact ⟨p.2, e.symm⟩
          obtain ⟨hm, ht⟩ := merged_ok r.b c cs hx
          rw [← hk] at hr
          exact ha.trans (tstep_setB w hr hm ht)

/-! ## states -/

/-- the invariant of a state -/
def SOk (kb : FKB ι α) (s : FState ι α) : Prop := WorldsInUnit kb ∧ SInUnit s

/-- all readings of a state, indexed by formula and grounding -/
def rd (kb : FKB ι α) (s : FState ι α) (k : ι × Gr) : Bounds α := reads kb s k.1 k.2

/-- a step on the state -/
abbrev SStep (kb : FKB ι α) (s s' : FState ι α) (a : α) : Prop := Step (rd kb) (SOk kb) s s' a

/-- replacing one table by the result of a table step is a state step -/
theorem sstep_set (kb : FKB ι α) (s : FState ι α) (i : ι) {t' : Table α} {a : α}
    (h : TStep (kb i).world (s.get i) t' a) : SStep kb s (s.set i t') a where
  nonneg := h.nonneg
  keeps := fun h0 => ⟨h0.1, fun j => by
    rw [FState.get_set]
    split
    · exact (h.keeps ⟨h0.1 i, h0.2 i⟩).2
    · exact h0.2 j⟩
  tight := fun h0 k => by
    obtain ⟨j, g⟩ := k
    unfold rd reads
    simp only
    rw [FState.get_set]
    split
    · next e => subst e; exact h.tight ⟨h0.1 j, h0.2 j⟩ g
    · exact BTight.refl _
  zero_iff := fun h0 => by
    rw [h.zero_iff ⟨h0.1 i, h0.2 i⟩]
    constructor
    · intro he k
      obtain ⟨j, g⟩ := k
      unfold rd reads
      simp only
      rw [FState.get_set]
      split
      · next e => subst e; exact he g
      · rfl
    · intro he g
      have := he (i, g)
      unfold rd reads at this
      simp only at this
      rw [FState.get_set_self] at this
      exact this

/-- grounding management only creates rows at world defaults -/
theorem sstep_groundings (kb : FKB ι α) (i : ι) (down : Bool) (s : FState ι α) :
    SStep kb s (groundings kb i down s).1 0 :=
  Step.of_same
    (fun h => ⟨h.1, groundings_induct kb (fun _ t => TInUnit t)
      (fun j _ gs ht => ht.addg (h.1 j) gs) i down s h.2⟩)
    (fun k => FolSound.groundings_reads kb i down s k.1 k.2)

/-! ## the node-level calls are steps -/

section calls

variable (kb : FKB ι α) (i : ι) (s : FState ι α)

theorem sstep_fUpConn : SStep kb s (fUpConn kb i s).1 (fUpConn kb i s).2 := by
  have hg := sstep_groundings kb i false s
  unfold fUpConn
  simp only
  split
  next s1 hgr => rw [hgr] at hg; exact hg
  next s1 ogs per hgr =>
    rw [hgr] at hg
    simp only at hg ⊢
    refine (hg.trans (sstep_set kb s1 i ?_)).cast (zero_add _)
    exact tstep_foldAgg _ (fun it : Gr × Bounds α => it.1) (fun it => it.2) .both _ _ (_, 0)
      (Step.refl _ _ _)

theorem sstep_fDownConn (idx : Option Nat) :
    SStep kb s (fDownConn kb i idx s).1 (fDownConn kb i idx s).2 := by
  have hg := sstep_groundings kb i true s
  unfold fDownConn
  simp only
  split
  next s1 hgr => rw [hgr] at hg; exact hg
  next s1 ogs per hgr =>
    rw [hgr] at hg
    simp only at hg
    split
    · exact hg
    · apply FolSound.foldl_inv (fun acc : FState ι α × α => SStep kb s acc.1 acc.2) _ _ _ hg
      intro acc hacc p _
      split
      · exact hacc.trans (sstep_set kb acc.1 p.2 (tstep_writeMerged _ _ _))
      · exact hacc

theorem sstep_fUpNot : SStep kb s (fUpNot kb i s).1 (fUpNot kb i s).2 := by
  unfold fUpNot
  split
  · exact Step.refl _ _ s
  next j rest hops =>
    simp only
    split
    · exact Step.refl _ _ s
    · apply sstep_set
      exact tstep_foldAgg _ (fun g => g) (fun g => negB (Table.getD (kb j).world (s.get j) g)) .both
        _ _ (_, 0) (tstep_addg _ _ _)

theorem sstep_fDownNot : SStep kb s (fDownNot kb i s).1 (fDownNot kb i s).2 := by
  unfold fDownNot
  split
  · exact Step.refl _ _ s
  next j rest hops =>
    simp only
    split
    · exact Step.refl _ _ s
    · apply sstep_set
      exact tstep_foldAgg _ (fun g => g) (fun g => negB (Table.getD (kb i).world (s.get i) g)) .both
        _ _ (_, 0) (tstep_addg _ _ _)

theorem sstep_fUpQuant : SStep kb s (fUpQuant kb i s).1 (fUpQuant kb i s).2 := by
  unfold fUpQuant
  simp only
  split
  · exact Step.refl _ _ s
  next j rest hops =>
    split
    · exact Step.refl _ _ s
    · apply sstep_set
      apply FolSound.foldl_inv
        (fun acc : Table α × α => TStep (kb i).world (s.get i) acc.1 acc.2) _ _ _ (tstep_addg _ _ _)
      intro b hb k _
      exact hb.trans (tstep_aggRow _ _ _ _ _)

theorem sstep_fDownQuant : SStep kb s (fDownQuant kb i s).1 (fDownQuant kb i s).2 := by
  unfold fDownQuant
  simp only
  split
  · exact Step.refl _ _ s
  next j rest hops =>
    split
    · exact Step.refl _ _ s
    · refine ((sstep_set kb s i (tstep_addg _ _ _)).trans (sstep_set kb _ j ?_)).cast (zero_add _)
      exact tstep_foldAgg _ (fun p : Gr × Bounds α => p.1) (fun p => p.2) .both _ _ (_, 0)
        (Step.refl _ _ _)

theorem sstep_fUp : SStep kb s (fUp kb i s).1 (fUp kb i s).2 := by
  unfold fUp
  split
  · exact Step.refl _ _ s
  · exact sstep_fUpNot kb i s
  · exact sstep_fUpQuant kb i s
  · exact sstep_fUpQuant kb i s
  · exact sstep_fUpConn kb i s

theorem sstep_fDown (idx : Option Nat) : SStep kb s (fDown kb i idx s).1 (fDown kb i idx s).2 := by
  unfold fDown
  split
  · exact Step.refl _ _ s
  · exact sstep_fDownNot kb i s
  · exact sstep_fDownQuant kb i s
  · exact sstep_fDownQuant kb i s
  · exact sstep_fDownConn kb i s idx

theorem sstep_runFCall (c : FCall ι) : SStep kb s (runFCall kb c s).1 (runFCall kb c s).2 := by
  cases c with
  | up i => exact sstep_fUp kb i s
  | down i idx => exact sstep_fDown kb i s idx

theorem sstep_runFCalls (cs : List (FCall ι)) :
    SStep kb s (runFCalls kb cs s).1 (runFCalls kb cs s).2 := by
  induction cs generalizing s with
  | nil => exact Step.refl _ _ s
  | cons c rest ih => exact (sstep_runFCall kb s c).trans (ih _)

end calls

/-! ## results -/

/-! ### 1. one aggregation onto a row -/

theorem aggRow_of_none {t : Table α} {g : Gr} (h : Table.find? t g = none) (sel : BoundSel)
    (new : Bounds α) : aggRow t g sel new = (t, 0) := by
  unfold aggRow; rw [h]

theorem aggRow_of_some {t : Table α} {g : Gr} {r : Row α} (h : Table.find? t g = some r)
    (sel : BoundSel) (new : Bounds α) :
    aggRow t g sel new = (Table.setB t g (aggregate sel r.b new).1, (aggregate sel r.b new).2) := by
  unfold aggRow; rw [h]

theorem row_with_b_eq_iff (r : Row α) (b : Bounds α) : ({ r with b := b } : Row α) = r ↔ b = r.b := by
  cases r
  simp

/-- The amount of one `aggRow` is non-negative; it is zero exactly when the table reads the same
at `g`; no other grounding is ever changed. No hypothesis is needed. -/
theorem aggRow_amount (t : Table α) (g : Gr) (sel : BoundSel) (new : Bounds α) :
    0 ≤ (aggRow t g sel new).2 ∧
    ((aggRow t g sel new).2 = 0 ↔ Table.find? (aggRow t g sel new).1 g = Table.find? t g) ∧
    (∀ g', g' ≠ g → Table.find? (aggRow t g sel new).1 g' = Table.find? t g') := by
  refine ⟨?_, ?_, fun g' hg' => Table.find?_aggRow_of_ne t sel new hg'⟩
  · cases hf : Table.find? t g with
    | none => rw [aggRow_of_none hf]
    | some r => rw [aggRow_of_some hf]; exact aggregate_amount_nonneg _ _ _
  · cases hf : Table.find? t g with
    | none => rw [aggRow_of_none hf]; simp [hf]
    | some r =>
      rw [Table.find?_aggRow_self hf, aggRow_of_some hf]
      simp only [Option.some.injEq]
      rw [row_with_b_eq_iff, aggregate_amount_zero_iff]

/-- in terms of readings -/
theorem aggRow_amount_reads (w : Bounds α) (hw : InUnit w) (t : Table α) (ht : TInUnit t) (g : Gr)
    (sel : BoundSel) (new : Bounds α) :
    (aggRow t g sel new).2 = 0 ↔
      ∀ g', Table.getD w (aggRow t g sel new).1 g' = Table.getD w t g' :=
  (tstep_aggRow w t g sel new).zero_iff ⟨hw, ht⟩

/-! ### 2. the merged downward write -/

/-- the step function of `writeMerged` -/
def wmStep (t : Table α) (props : List (Gr × Bounds α)) (acc : Table α × α) (g : Gr) : Table α × α :=
  match Table.find? t g with
  | none => acc
  | some r =>
    match (props.filter (·.1 == g)).map fun p => (aggregate .both r.b p.2).1 with
    | [] => acc
    | c :: cs =>
      (acc.1.setB g (cs.foldl mergeB c),
        acc.2 + (|(cs.foldl mergeB c).lo - r.b.lo| + |(cs.foldl mergeB c).hi - r.b.hi|))

theorem writeMerged_eq (t : Table α) (props : List (Gr × Bounds α)) :
    writeMerged t props = (dedupKeepFirst (props.map (·.1))).foldl (wmStep t props) (t, 0) := rfl

theorem wmStep_cases (t : Table α) (props : List (Gr × Bounds α)) (acc : Table α × α) (g : Gr) :
    wmStep t props acc g = acc ∨ ∃ r m, Table.find? t g = some r ∧
      wmStep t props acc g = (acc.1.setB g m, acc.2 + (|m.lo - r.b.lo| + |m.hi - r.b.hi|)) := by
  unfold wmStep
  split
  · exact Or.inl rfl
  · next r hr =>
    split
    · exact Or.inl rfl
    · exact Or.inr ⟨r, _, hr, rfl⟩

/-- one step of `writeMerged` on a row that still reads as in the table the call started from -/
theorem wmStep_spec (t : Table α) (props : List (Gr × Bounds α)) (acc : Table α × α) (k : Gr)
    (hk : Table.find? acc.1 k = Table.find? t k) :
    acc.2 ≤ (wmStep t props acc k).2 ∧
    ((wmStep t props acc k).2 = acc.2 ↔
      ∀ g, Table.find? (wmStep t props acc k).1 g = Table.find? acc.1 g) ∧
    (∀ g, g ≠ k → Table.find? (wmStep t props acc k).1 g = Table.find? acc.1 g) := by
  rcases wmStep_cases t props acc k with e | ⟨r, m, hr, e⟩ <;> rw [e]
  · exact ⟨le_rfl, ⟨fun _ _ => rfl, fun _ => rfl⟩, fun _ _ => rfl⟩
  · rw [← hk] at hr
    have hne : ∀ g, g ≠ k → Table.find? (Table.setB acc.1 k m) g = Table.find? acc.1 g :=
      fun g hg => Table.find?_setB_of_ne acc.1 m hg
    have hself : Table.find? (Table.setB acc.1 k m) k = some { r with b := m } := by
      rw [Table.find?_setB_self, hr]; rfl
    refine ⟨?_, ?_, hne⟩
    · have : 0 ≤ |m.lo - r.b.lo| + |m.hi - r.b.hi| := add_nonneg (abs_nonneg _) (abs_nonneg _)
      simp only
      linarith
    · simp only
      rw [add_eq_left]
      constructor
      · intro h0 g
        have h' := (add_eq_zero_iff_of_nonneg (abs_nonneg _) (abs_nonneg _)).mp h0
        have em : m = r.b :=
          Bounds.ext' (sub_eq_zero.mp (abs_eq_zero.mp h'.1)) (sub_eq_zero.mp (abs_eq_zero.mp h'.2))
        by_cases hg : g = k
        · subst hg
          rw [hself, hr, em]
        · exact hne g hg
      · intro he
        have e1 := he k
        rw [hself, hr, Option.some.injEq, row_with_b_eq_iff] at e1
        rw [e1]; simp

theorem foldl_wmStep_spec (t : Table α) (props : List (Gr × Bounds α)) (ks : List Gr)
    (hnd : ks.Nodup) (acc : Table α × α) (hfind : ∀ g ∈ ks, Table.find? acc.1 g = Table.find? t g) :
    acc.2 ≤ (ks.foldl (wmStep t props) acc).2 ∧
    ((ks.foldl (wmStep t props) acc).2 = acc.2 ↔
      ∀ g, Table.find? (ks.foldl (wmStep t props) acc).1 g = Table.find? acc.1 g) ∧
    (∀ g, g ∉ ks → Table.find? (ks.foldl (wmStep t props) acc).1 g = Table.find? acc.1 g) := by
  induction ks generalizing acc with
  | nil => exact ⟨le_rfl, ⟨fun _ _ => rfl, fun _ => rfl⟩, fun _ _ => rfl⟩
  | cons k ks ih =>
    rw [List.nodup_cons] at hnd
    rw [List.foldl_cons]
    obtain ⟨a1, a2, a3⟩ := wmStep_spec t props acc k (hfind k (List.mem_cons_self ..))
    have hfind' : ∀ g ∈ ks, Table.find? (wmStep t props acc k).1 g = Table.find? t g := by
      intro g hg
      rw [a3 g (fun e => hnd.1 (e ▸ hg))]
      exact hfind g (List.mem_cons_of_mem _ hg)
    obtain ⟨b1, b2, b3⟩ := ih hnd.2 (wmStep t props acc k) hfind'
    refine ⟨le_trans a1 b1, ?_, ?_⟩
    · constructor
      · intro h0 g
        have e1 : (wmStep t props acc k).2 = acc.2 := le_antisymm (by rw [← h0]; exact b1) a1
        rw [b2.mp (by rw [h0, e1]) g, a2.mp e1 g]
      · intro he
        have hk : Table.find? (wmStep t props acc k).1 k = Table.find? acc.1 k := by
          rw [← b3 k hnd.1, he k]
        have hall : ∀ g, Table.find? (wmStep t props acc k).1 g = Table.find? acc.1 g := by
          intro g
          by_cases hg : g = k
          · rw [hg]; exact hk
          · exact a3 g hg
        have e1 := a2.mpr hall
        rw [b2.mpr (fun g => by rw [he g, hall g]), e1]
    · intro g hg
      rw [List.mem_cons, not_or] at hg
      rw [b3 g hg.2, a3 g hg.1]

/-- The amount of the merged downward write is non-negative, and it is zero exactly when no
grounding reads differently. No hypothesis is needed: every addressed row is written once, and its
contribution is the sum of the absolute changes of its two bounds. -/
theorem writeMerged_amount (t : Table α) (props : List (Gr × Bounds α)) :
    0 ≤ (writeMerged t props).2 ∧
    ((writeMerged t props).2 = 0 ↔
      ∀ g, Table.find? (writeMerged t props).1 g = Table.find? t g) := by
  rw [writeMerged_eq]
  obtain ⟨h1, h2, _⟩ := foldl_wmStep_spec t props _ (Quant.nodup_dedupKeepFirst _) (t, 0)
    (fun _ _ => rfl)
  exact ⟨h1, h2⟩

/-- in terms of readings -/
theorem writeMerged_amount_reads (w : Bounds α) (hw : InUnit w) (t : Table α) (ht : TInUnit t)
    (props : List (Gr × Bounds α)) :
    (writeMerged t props).2 = 0 ↔
      ∀ g, Table.getD w (writeMerged t props).1 g = Table.getD w t g :=
  (tstep_writeMerged w t props).zero_iff ⟨hw, ht⟩

/-! ### 3.–5. calls and lists of calls -/

theorem Step.sameReads_iff {kb : FKB ι α} {s s' : FState ι α} {a : α} (h : SStep kb s s' a)
    (hw : WorldsInUnit kb) (hs : SInUnit s) : a = 0 ↔ SameReads kb s s' := by
  rw [h.zero_iff ⟨hw, hs⟩]
  exact ⟨fun he i g => he (i, g), fun he k => he k.1 k.2⟩

theorem Step.inUnit {kb : FKB ι α} {s s' : FState ι α} {a : α} (h : SStep kb s s' a)
    (hw : WorldsInUnit kb) (hs : SInUnit s) : SInUnit s' :=
  (h.keeps ⟨hw, hs⟩).2

theorem Step.readsTighter {kb : FKB ι α} {s s' : FState ι α} {a : α} (h : SStep kb s s' a)
    (hw : WorldsInUnit kb) (hs : SInUnit s) : ReadsTighter kb s s' :=
  fun i g => h.tight ⟨hw, hs⟩ (i, g)

section main

variable (kb : FKB ι α)

theorem fUp_amount_nonneg (i : ι) (s : FState ι α) : 0 ≤ (fUp kb i s).2 :=
  (sstep_fUp kb i s).nonneg

theorem fDown_amount_nonneg (i : ι) (idx : Option Nat) (s : FState ι α) :
    0 ≤ (fDown kb i idx s).2 :=
  (sstep_fDown kb i s idx).nonneg

/-- the in-range invariant is kept by every call, so that the statements below compose -/
theorem fUp_inUnit (hw : WorldsInUnit kb) (i : ι) (s : FState ι α) (hs : SInUnit s) :
    SInUnit (fUp kb i s).1 :=
  (sstep_fUp kb i s).inUnit hw hs

theorem fDown_inUnit (hw : WorldsInUnit kb) (i : ι) (idx : Option Nat) (s : FState ι α)
    (hs : SInUnit s) : SInUnit (fDown kb i idx s).1 :=
  (sstep_fDown kb i s idx).inUnit hw hs

/-- every call only tightens what a query returns -/
theorem fUp_readsTighter (hw : WorldsInUnit kb) (i : ι) (s : FState ι α) (hs : SInUnit s) :
    ReadsTighter kb s (fUp kb i s).1 :=
  (sstep_fUp kb i s).readsTighter hw hs

theorem fDown_readsTighter (hw : WorldsInUnit kb) (i : ι) (idx : Option Nat) (s : FState ι α)
    (hs : SInUnit s) : ReadsTighter kb s (fDown kb i idx s).1 :=
  (sstep_fDown kb i s idx).readsTighter hw hs

/-- MAIN (upward): the reported amount is zero exactly when no query sees a change -/
theorem fUp_amount_zero_iff (hw : WorldsInUnit kb) (i : ι) (s : FState ι α) (hs : SInUnit s) :
    (fUp kb i s).2 = 0 ↔ SameReads kb s (fUp kb i s).1 :=
  (sstep_fUp kb i s).sameReads_iff hw hs

/-- MAIN (downward) -/
theorem fDown_amount_zero_iff (hw : WorldsInUnit kb) (i : ι) (idx : Option Nat) (s : FState ι α)
    (hs : SInUnit s) : (fDown kb i idx s).2 = 0 ↔ SameReads kb s (fDown kb i idx s).1 :=
  (sstep_fDown kb i s idx).sameReads_iff hw hs

/-! the same, kind by kind -/

theorem fUpConn_amount_nonneg (i : ι) (s : FState ι α) : 0 ≤ (fUpConn kb i s).2 :=
  (sstep_fUpConn kb i s).nonneg
theorem fDownConn_amount_nonneg (i : ι) (idx : Option Nat) (s : FState ι α) :
    0 ≤ (fDownConn kb i idx s).2 :=
  (sstep_fDownConn kb i s idx).nonneg
theorem fUpNot_amount_nonneg (i : ι) (s : FState ι α) : 0 ≤ (fUpNot kb i s).2 :=
  (sstep_fUpNot kb i s).nonneg
theorem fDownNot_amount_nonneg (i : ι) (s : FState ι α) : 0 ≤ (fDownNot kb i s).2 :=
  (sstep_fDownNot kb i s).nonneg
theorem fUpQuant_amount_nonneg (i : ι) (s : FState ι α) : 0 ≤ (fUpQuant kb i s).2 :=
  (sstep_fUpQuant kb i s).nonneg
theorem fDownQuant_amount_nonneg (i : ι) (s : FState ι α) : 0 ≤ (fDownQuant kb i s).2 :=
  (sstep_fDownQuant kb i s).nonneg

theorem fUpConn_amount_zero_iff (hw : WorldsInUnit kb) (i : ι) (s : FState ι α) (hs : SInUnit s) :
    (fUpConn kb i s).2 = 0 ↔ SameReads kb s (fUpConn kb i s).1 :=
  (sstep_fUpConn kb i s).sameReads_iff hw hs
theorem fDownConn_amount_zero_iff (hw : WorldsInUnit kb) (i : ι) (idx : Option Nat)
    (s : FState ι α) (hs : SInUnit s) :
    (fDownConn kb i idx s).2 = 0 ↔ SameReads kb s (fDownConn kb i idx s).1 :=
  (sstep_fDownConn kb i s idx).sameReads_iff hw hs
theorem fUpNot_amount_zero_iff (hw : WorldsInUnit kb) (i : ι) (s : FState ι α) (hs : SInUnit s) :
    (fUpNot kb i s).2 = 0 ↔ SameReads kb s (fUpNot kb i s).1 :=
  (sstep_fUpNot kb i s).sameReads_iff hw hs
theorem fDownNot_amount_zero_iff (hw : WorldsInUnit kb) (i : ι) (s : FState ι α) (hs : SInUnit s) :
    (fDownNot kb i s).2 = 0 ↔ SameReads kb s (fDownNot kb i s).1 :=
  (sstep_fDownNot kb i s).sameReads_iff hw hs
theorem fUpQuant_amount_zero_iff (hw : WorldsInUnit kb) (i : ι) (s : FState ι α) (hs : SInUnit s) :
    (fUpQuant kb i s).2 = 0 ↔ SameReads kb s (fUpQuant kb i s).1 :=
  (sstep_fUpQuant kb i s).sameReads_iff hw hs
theorem fDownQuant_amount_zero_iff (hw : WorldsInUnit kb) (i : ι) (s : FState ι α)
    (hs : SInUnit s) : (fDownQuant kb i s).2 = 0 ↔ SameReads kb s (fDownQuant kb i s).1 :=
  (sstep_fDownQuant kb i s).sameReads_iff hw hs

/-! one call, any list of calls -/

theorem runFCall_amount_nonneg (c : FCall ι) (s : FState ι α) : 0 ≤ (runFCall kb c s).2 :=
  (sstep_runFCall kb s c).nonneg

theorem runFCall_inUnit (hw : WorldsInUnit kb) (c : FCall ι) (s : FState ι α) (hs : SInUnit s) :
    SInUnit (runFCall kb c s).1 :=
  (sstep_runFCall kb s c).inUnit hw hs

theorem runFCall_readsTighter (hw : WorldsInUnit kb) (c : FCall ι) (s : FState ι α)
    (hs : SInUnit s) : ReadsTighter kb s (runFCall kb c s).1 :=
  (sstep_runFCall kb s c).readsTighter hw hs

theorem runFCall_amount_zero_iff (hw : WorldsInUnit kb) (c : FCall ι) (s : FState ι α)
    (hs : SInUnit s) : (runFCall kb c s).2 = 0 ↔ SameReads kb s (runFCall kb c s).1 :=
  (sstep_runFCall kb s c).sameReads_iff hw hs

theorem runFCalls_amount_nonneg (cs : List (FCall ι)) (s : FState ι α) :
    0 ≤ (runFCalls kb cs s).2 :=
  (sstep_runFCalls kb s cs).nonneg

theorem runFCalls_inUnit (hw : WorldsInUnit kb) (cs : List (FCall ι)) (s : FState ι α)
    (hs : SInUnit s) : SInUnit (runFCalls kb cs s).1 :=
  (sstep_runFCalls kb s cs).inUnit hw hs

/-- the monotonicity fact behind the list statement: along any list of calls, what a query returns
only tightens -/
theorem runFCalls_readsTighter (hw : WorldsInUnit kb) (cs : List (FCall ι)) (s : FState ι α)
    (hs : SInUnit s) : ReadsTighter kb s (runFCalls kb cs s).1 :=
  (sstep_runFCalls kb s cs).readsTighter hw hs

/-- the total reported by a list of calls is zero exactly when no query sees a difference between
the start and the end state -/
theorem runFCalls_amount_zero_iff (hw : WorldsInUnit kb) (cs : List (FCall ι)) (s : FState ι α)
    (hs : SInUnit s) : (runFCalls kb cs s).2 = 0 ↔ SameReads kb s (runFCalls kb cs s).1 :=
  (sstep_runFCalls kb s cs).sameReads_iff hw hs

/-- … and then every single call of the list reported zero and changed nothing a query can see -/
theorem runFCalls_zero_head (hw : WorldsInUnit kb) (c : FCall ι) (rest : List (FCall ι))
    (s : FState ι α) (hs : SInUnit s) (h : (runFCalls kb (c :: rest) s).2 = 0) :
    (runFCall kb c s).2 = 0 ∧ SameReads kb s (runFCall kb c s).1 ∧
      (runFCalls kb rest (runFCall kb c s).1).2 = 0 := by
  have h' := (add_eq_zero_iff_of_nonneg (runFCall_amount_nonneg kb c s)
    (runFCalls_amount_nonneg kb rest _)).mp h
  exact ⟨h'.1, (runFCall_amount_zero_iff kb hw c s hs).mp h'.1, h'.2⟩

end main

/-! ### 6. non-vacuity -/

/-- a table over ℚ with two stored groundings -/
def exT : Table ℚ := [⟨[0], ⟨0, 1⟩, ⟨0, 1⟩⟩, ⟨[1], ⟨0, 1⟩, ⟨1/4, 3/4⟩⟩]

/-- a proposal that moves a stored bound reports a positive amount, and the row reads differently -/
example : (aggRow exT [1] .both ⟨1/2, 1⟩).2 = 1/4 ∧ 0 < (aggRow exT [1] .both ⟨1/2, 1⟩).2 ∧
    Table.find? (aggRow exT [1] .both ⟨1/2, 1⟩).1 [1] ≠ Table.find? exT [1] := by
  have h : (aggRow exT [1] .both ⟨1/2, 1⟩).2 = 1/4 := by
    simp [exT, aggRow, Table.find?, aggregate, clamp01]
    norm_num
  refine ⟨h, by rw [h]; norm_num, fun e => ?_⟩
  have := (aggRow_amount exT [1] .both ⟨1/2, 1⟩).2.1.mpr e
  rw [h] at this
  norm_num at this

/-- a proposal that is no tighter than what is stored reports zero, and the row reads the same -/
example : (aggRow exT [1] .both ⟨0, 1⟩).2 = 0 ∧
    Table.find? (aggRow exT [1] .both ⟨0, 1⟩).1 [1] = Table.find? exT [1] := by
  have h : (aggRow exT [1] .both ⟨0, 1⟩).2 = 0 := by
    simp [exT, aggRow, Table.find?, aggregate, clamp01]
    norm_num
  exact ⟨h, (aggRow_amount exT [1] .both ⟨0, 1⟩).2.1.mp h⟩

/-- a proposal for a grounding that is not stored reports zero and changes nothing -/
example : aggRow exT [7] .both ⟨1, 1⟩ = (exT, 0) := by
  simp [exT, aggRow, Table.find?]

/-- engine level: node 1 is `Not(node 0)`, node 0 a predicate; world defaults UNKNOWN -/
def exKB : FKB Nat ℚ := fun i =>
  match i with
  | 1 => { kind := .neg, ops := [0], bias := 1, alpha := 1, world := ⟨0, 1⟩ }
  | _ => { kind := .pred, bias := 1, alpha := 1, world := ⟨0, 1⟩ }

/-- `P(0)` is TRUE, the negation has no row yet -/
def exS : FState Nat ℚ := ⟨[(0, [⟨[0], ⟨1, 1⟩, ⟨1, 1⟩⟩])]⟩

theorem exKB_worlds : WorldsInUnit exKB := by
  intro i
  unfold exKB
  split <;> norm_num

theorem exS_inUnit : SInUnit exS := by
  intro i r hr
  by_cases hi : i = 0
  · subst hi
    simp [exS, FState.get] at hr
    subst hr
    norm_num
  · have : ¬ 0 = i := fun e => hi e.symm
    simp [exS, FState.get, this] at hr

/-- the first upward call of the negation creates its row and moves it to FALSE: it reports 1, and
queries see the change; … -/
example : (fUp exKB 1 exS).2 = 1 ∧ ¬ SameReads exKB exS (fUp exKB 1 exS).1 := by
  have h : (fUp exKB 1 exS).2 = 1 := by
    simp [fUp, fUpNot, exKB, exS, FState.get, FState.set, Table.keys, Table.addg, Table.has,
      Table.find?, Table.getD, aggRow, aggregate, negB, clamp01, Table.setB]
  refine ⟨h, fun hsame => ?_⟩
  have := (fUp_amount_zero_iff exKB exKB_worlds 1 exS exS_inUnit).mpr hsame
  rw [h] at this
  norm_num at this

/-- … the second one reports 0, and no query sees a change -/
example : (fUp exKB 1 (fUp exKB 1 exS).1).2 = 0 ∧
    SameReads exKB (fUp exKB 1 exS).1 (fUp exKB 1 (fUp exKB 1 exS).1).1 := by
  have h : (fUp exKB 1 (fUp exKB 1 exS).1).2 = 0 := by
    simp [fUp, fUpNot, exKB, exS, FState.get, FState.set, Table.keys, Table.addg, Table.has,
      Table.find?, Table.getD, aggRow, aggregate, negB, clamp01, Table.setB]
  exact ⟨h, (fUp_amount_zero_iff exKB exKB_worlds 1 _
    (fUp_inUnit exKB exKB_worlds 1 exS exS_inUnit)).mp h⟩

/-- the negation stores an UNKNOWN row for a grounding the predicate does not store -/
def exS' : FState Nat ℚ := ⟨[(1, [⟨[5], ⟨0, 1⟩, ⟨0, 1⟩⟩])]⟩

theorem exS'_inUnit : SInUnit exS' := by
  intro i r hr
  by_cases hi : i = 1
  · subst hi
    simp [exS', FState.get] at hr
    subst hr
    norm_num
  · have : ¬ 1 = i := fun e => hi e.symm
    simp [exS', FState.get, this] at hr

/-- a call that only creates a row (at the world default): the predicate's table changes, the call
reports 0, and no query sees a change -/
example : (fDown exKB 1 none exS').2 = 0 ∧
    ((fDown exKB 1 none exS').1.get 0).length ≠ (exS'.get 0).length ∧
    SameReads exKB exS' (fDown exKB 1 none exS').1 := by
  have h : (fDown exKB 1 none exS').2 = 0 := by
    simp [fDown, fDownNot, exKB, exS', FState.get, FState.set, Table.keys, Table.addg, Table.has,
      Table.find?, Table.getD, aggRow, aggregate, negB, clamp01, Table.setB]
  refine ⟨h, ?_, (fDown_amount_zero_iff exKB exKB_worlds 1 none exS' exS'_inUnit).mp h⟩
  simp [fDown, fDownNot, exKB, exS', FState.get, FState.set, Table.keys, Table.addg, Table.has,
    Table.find?, Table.getD, aggRow, aggregate, negB, clamp01, Table.setB]

end FolAmount
end LNN
