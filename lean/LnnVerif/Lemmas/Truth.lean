/-
Helper lemmas for C04 (truth tables, point evaluation, dualities). No definitions live here: every
notion used in the statements of `Props/C04.lean` is defined there or in `Model/`, `Spec/`.
-/
import LnnVerif.Lemmas.Engine

set_option linter.unusedSectionVars false

namespace LNN

variable {ι : Type} [DecidableEq ι] {α : Type} [Field α] [LinearOrder α] [IsStrictOrderedRing α]

/-! ### negation is an involution -/

theorem negB_negB (b : Bounds α) : negB (negB b) = b := by
  cases b; simp [negB]

theorem Opd.neg_neg (o : Opd α) : o.neg.neg = o := by
  cases o; simp [Opd.neg]

theorem map_neg_neg (ops : List (Opd α)) : (ops.map Opd.neg).map Opd.neg = ops := by
  rw [List.map_map]
  conv_rhs => rw [← List.map_id ops]
  apply List.map_congr_left
  intro o _
  simp [Opd.neg_neg]

/-! ### the And terms of negated operands are the Or terms -/

theorem sum_termLo_neg (ops : List (Opd α)) :
    ((ops.map Opd.neg).map termLo).sum = (ops.map (fun o => o.w * o.hi)).sum := by
  rw [List.map_map]
  congr 1
  apply List.map_congr_left
  intro o _
  simp [termLo, Opd.neg]

theorem sum_termHi_neg (ops : List (Opd α)) :
    ((ops.map Opd.neg).map termHi).sum = (ops.map (fun o => o.w * o.lo)).sum := by
  rw [List.map_map]
  congr 1
  apply List.map_congr_left
  intro o _
  simp [termHi, Opd.neg]

/-- the plain (non-transparent) Or activation is the negated And activation of the negated operands,
for all weights -/
theorem orUp_false_eq (b : α) (ops : List (Opd α)) :
    orUp false b ops = negB (andUp b (ops.map Opd.neg)) := by
  unfold orUp andUp negB
  simp only [Bool.false_eq_true, if_false, sum_termLo_neg, sum_termHi_neg, ← clamp01_one_sub]
  congr 2 <;> ring

/-- for non-negative weights either Or variant is the plain one -/
theorem orUp_variant_eq_any (t : Bool) (b : α) (ops : List (Opd α)) (h : ∀ o ∈ ops, 0 ≤ o.w) :
    orUp t b ops = orUp false b ops := by
  cases t with
  | false => rfl
  | true => exact orUp_variant_eq b ops h

theorem exists_mem_map_iff {β γ : Type} (f : β → γ) (l : List β) (P : γ → Prop) :
    (∃ y ∈ l.map f, P y) ↔ ∃ x ∈ l, P (f x) := by
  simp

/-! ### sums of `{0,1}`-lists -/

theorem sum01_nonneg (ys : List α) (h : ∀ y ∈ ys, y = 0 ∨ y = 1) : 0 ≤ ys.sum := by
  apply List.sum_nonneg
  intro y hy
  rcases h y hy with rfl | rfl
  · exact le_rfl
  · exact zero_le_one

theorem sum01_one_le (ys : List α) (h : ∀ y ∈ ys, y = 0 ∨ y = 1) (h1 : ∃ y ∈ ys, y = 1) :
    1 ≤ ys.sum := by
  obtain ⟨y, hy, rfl⟩ := h1
  apply List.single_le_sum _ _ hy
  intro y hy
  rcases h y hy with rfl | rfl
  · exact le_rfl
  · exact zero_le_one

theorem sum_all_zero (ys : List α) (h : ∀ y ∈ ys, y = 0) : ys.sum = 0 :=
  List.sum_eq_zero h

theorem exists_one_of_not_all_zero (ys : List α) (h : ∀ y ∈ ys, y = 0 ∨ y = 1)
    (hn : ¬ ∀ y ∈ ys, y = 0) : ∃ y ∈ ys, y = 1 := by
  by_contra hc
  apply hn
  intro y hy
  rcases h y hy with h0 | h1
  · exact h0
  · exact absurd ⟨y, hy, h1⟩ hc

/-- `clamp(1 - Σ y)` over a `{0,1}`-list: `1` if every entry is `0`, else `0` -/
theorem clamp_one_sub_sum01 (ys : List α) (h : ∀ y ∈ ys, y = 0 ∨ y = 1) :
    clamp01 (1 - ys.sum) = if ∀ y ∈ ys, y = 0 then 1 else 0 := by
  split
  next hall => rw [sum_all_zero ys hall]; exact clamp01_of_one_le (by simp)
  next hn =>
    have := sum01_one_le ys h (exists_one_of_not_all_zero ys h hn)
    exact clamp01_of_nonpos (by linarith)

/-- `clamp(Σ y)` over a `{0,1}`-list: `0` if every entry is `0`, else `1` -/
theorem clamp_sum01 (ys : List α) (h : ∀ y ∈ ys, y = 0 ∨ y = 1) :
    clamp01 ys.sum = if ∀ y ∈ ys, y = 0 then 0 else 1 := by
  split
  next hall => rw [sum_all_zero ys hall]; exact clamp01_of_nonpos le_rfl
  next hn => exact clamp01_of_one_le (sum01_one_le ys h (exists_one_of_not_all_zero ys h hn))

/-! ### engine: contradiction arresting never fires on satisfiable bounds -/

theorem isContra_of_le (a : α) (b : Bounds α) (h : b.lo ≤ b.hi) : isContra a b = false := by
  have : ¬ (b.lo > b.hi) := not_lt.mpr h
  unfold isContra
  simp [this]

theorem arrested_of_sat (kb : KB ι α) (v : ι → α) (s : State ι α) (hs : Sat v s) (i : ι) :
    arrested kb s i = false := by
  have hc : ∀ a j, isContra a (s j) = false :=
    fun a j => isContra_of_le a _ (le_trans (hs j).1 (hs j).2)
  unfold arrested
  simp [hc]

/-! ### engine: aggregation with points -/

theorem aggregate_to_point (prev : Bounds α) (x : α) (h0 : 0 ≤ x) (h1 : x ≤ 1) (hp : prev.Has x) :
    (aggregate .both prev ⟨x, x⟩).1 = ⟨x, x⟩ := by
  unfold aggregate
  simp only [reduceCtorEq, if_false]
  rw [max_eq_right hp.1, min_eq_right hp.2, clamp01_of_mem h0 h1]

theorem aggregate_from_point (new : Bounds α) (x : α) (h0 : 0 ≤ x) (h1 : x ≤ 1) (hn : new.Has x) :
    (aggregate .both ⟨x, x⟩ new).1 = ⟨x, x⟩ := by
  unfold aggregate
  simp only [reduceCtorEq, if_false]
  rw [max_eq_left hn.1, min_eq_left hn.2, clamp01_of_mem h0 h1]

/-- aggregating onto a point whose value survives leaves the point unchanged, whatever is proposed -/
theorem aggregate_from_point' (p : Bounds α) (x : α) (h0 : 0 ≤ x) (h1 : x ≤ 1)
    (h : (aggregate .both ⟨x, x⟩ p).1.Has x) : (aggregate .both ⟨x, x⟩ p).1 = ⟨x, x⟩ := by
  unfold aggregate Bounds.Has at *
  simp only [reduceCtorEq, if_false] at *
  have hl : clamp01 (max x p.lo) = x :=
    le_antisymm h.1 (le_clamp01_of_le h1 (le_max_left _ _))
  have hu : clamp01 (min x p.hi) = x :=
    le_antisymm (clamp01_le_of_le h0 (min_le_left _ _)) h.2
  rw [hl, hu]

/-- the unknown interval is neutral for aggregation inside the unit square -/
theorem aggregate_unknown (x : Bounds α) (hl0 : 0 ≤ x.lo) (hl1 : x.lo ≤ 1) (hu0 : 0 ≤ x.hi)
    (hu1 : x.hi ≤ 1) : aggregate .both ⟨0, 1⟩ x = (x, |x.lo - 0| + |x.hi - 1|) := by
  unfold aggregate
  simp only [reduceCtorEq, if_false]
  rw [max_eq_right hl0, min_eq_right hu1, clamp01_of_mem hl0 hl1, clamp01_of_mem hu0 hu1]

/-! ### engine: activations on point operands -/

theorem opds_point (n : Node ι α) (s : State ι α) (v : ι → α)
    (h : ∀ j ∈ n.ops, s j = ⟨v j, v j⟩) :
    opds n s = List.zipWith (fun j w => (⟨w, v j, v j⟩ : Opd α)) n.ops n.ws := by
  unfold opds
  generalize n.ws = ws
  generalize n.ops = ops at *
  induction ops generalizing ws with
  | nil => simp
  | cons j ops ih =>
    cases ws with
    | nil => simp
    | cons w ws =>
      simp only [List.zipWith_cons_cons]
      rw [h j (List.mem_cons_self ..), ih ws (fun k hk => h k (List.mem_cons_of_mem _ hk))]

/-- on point operands the upward activation of a connective is the point of its truth function -/
theorem actUp_point (n : Node ι α) (s : State ι α) (v : ι → α) (hs : Sat v s)
    (hw : ∀ w ∈ n.ws, 0 ≤ w) (h : ∀ j ∈ n.ops, s j = ⟨v j, v j⟩)
    (hk : n.kind ≠ .neg) (y : α) (hy : nodeVal n v = some y) : actUp n s = ⟨y, y⟩ := by
  unfold nodeVal at hy
  unfold actUp
  cases hkind : n.kind with
  | atom => rw [hkind] at hy; simp at hy
  | neg => exact absurd hkind hk
  | and =>
    rw [hkind] at hy
    simp only [Option.some.injEq] at hy
    simp only
    rw [opds_point n s v h]
    unfold andUp
    simp only [List.map_zipWith, termLo, termHi, hy]
  | or =>
    rw [hkind] at hy
    simp only [Option.some.injEq] at hy
    simp only
    have hz := minw_sum_zero (opds n s) (inBox_opds n s v hs hw).weights
    unfold orUp
    simp only
    have hc : (if n.transparent = true then ((opds n s).map (fun o => min o.w 0)).sum else (0:α)) = 0 := by
      split <;> simp [hz]
    rw [hc, opds_point n s v h]
    simp only [List.map_zipWith, sub_zero, hy]
  | implies =>
    rw [hkind] at hy
    simp only at hy
    split at hy
    next x wx z wz hz =>
      obtain ⟨ho, _⟩ := implies_shape n s v x z wx wz hz
      have hx : x ∈ n.ops := (List.of_mem_zip (by rw [hz]; simp : (x, wx) ∈ List.zip n.ops n.ws)).1
      have hzm : z ∈ n.ops := (List.of_mem_zip (by rw [hz]; simp : (z, wz) ∈ List.zip n.ops n.ws)).1
      simp only [Option.some.injEq] at hy
      simp only
      rw [ho, h x hx, h z hzm]
      unfold impliesUp
      simp only [hy]
    next => simp at hy

/-! ### engine: one upward step -/

/-- a node with a defined truth function whose operands are all at their point value is set to its
own point value by `upward` -/
theorem stepUp_point (kb : KB ι α) (v : ι → α) (s : State ι α) (i : ι)
    (hwf : WF kb) (hv : Consistent kb v) (hs : Sat v s)
    (h : ∀ j ∈ (kb i).ops, s j = ⟨v j, v j⟩) (hsome : (nodeVal (kb i) v).isSome) :
    (stepUp kb i s).1 = Function.update s i ⟨v i, v i⟩ := by
  obtain ⟨y, hy⟩ := Option.isSome_iff_exists.mp hsome
  obtain ⟨h0, h1, hval⟩ := hv i
  have hvy : v i = y := hval y hy
  have conn : (kb i).kind ≠ .neg →
      (if arrested kb s i then (s, (0:α)) else
        (Function.update s i (aggregate .both (s i) (actUp (kb i) s)).1,
          (aggregate .both (s i) (actUp (kb i) s)).2)).1 = Function.update s i ⟨v i, v i⟩ := by
    intro hk
    rw [arrested_of_sat kb v s hs i]
    simp only [Bool.false_eq_true, if_false]
    rw [actUp_point (kb i) s v hs (hwf i).1 h hk y hy, ← hvy, aggregate_to_point _ _ h0 h1 (hs i)]
  unfold stepUp
  simp only
  cases hkind : (kb i).kind with
  | atom => unfold nodeVal at hy; rw [hkind] at hy; simp at hy
  | neg =>
    simp only
    cases hops : (kb i).ops with
    | nil => unfold nodeVal at hy; rw [hkind, hops] at hy; simp at hy
    | cons j rest =>
      simp only
      have hj : s j = ⟨v j, v j⟩ := h j (by rw [hops]; exact List.mem_cons_self ..)
      have : v i = 1 - v j := by apply hval; unfold nodeVal; rw [hkind, hops]
      rw [hj]
      unfold negB
      simp only
      rw [← this, aggregate_to_point _ _ h0 h1 (hs i)]
  | and => simpa using conn (by simp [hkind])
  | or => simpa using conn (by simp [hkind])
  | implies => simpa using conn (by simp [hkind])

/-- `upward` either leaves the state alone or aggregates one proposal onto the node itself -/
theorem stepUp_form (kb : KB ι α) (i : ι) (s : State ι α) :
    (stepUp kb i s).1 = s ∨
      ∃ p, (stepUp kb i s).1 = Function.update s i (aggregate .both (s i) p).1 := by
  unfold stepUp
  simp only
  cases (kb i).kind with
  | atom => left; rfl
  | neg =>
    simp only
    cases (kb i).ops with
    | nil => left; rfl
    | cons j rest => right; exact ⟨_, rfl⟩
  | and =>
    simp only
    split
    · left; rfl
    · right; exact ⟨_, rfl⟩
  | or =>
    simp only
    split
    · left; rfl
    · right; exact ⟨_, rfl⟩
  | implies =>
    simp only
    split
    · left; rfl
    · right; exact ⟨_, rfl⟩

/-- a node at its point value never moves again -/
theorem stepUp_keeps_point (kb : KB ι α) (v : ι → α) (s : State ι α) (i : ι)
    (hwf : WF kb) (hv : Consistent kb v) (hs : Sat v s) (j : ι) (hj : s j = ⟨v j, v j⟩) :
    (stepUp kb i s).1 j = ⟨v j, v j⟩ := by
  have hs' := stepUp_sound kb v s i hwf hv hs
  rcases stepUp_form kb i s with h | ⟨p, h⟩
  · rw [h]; exact hj
  · by_cases hji : j = i
    · subst hji
      have hsat := hs' j
      rw [h] at hsat ⊢
      simp only [Function.update_self] at hsat ⊢
      rw [hj] at hsat ⊢
      exact aggregate_from_point' p (v j) (hv j).1 (hv j).2.1 hsat
    · rw [h, Function.update_of_ne hji]; exact hj

theorem runSteps_up_keeps_point (kb : KB ι α) (v : ι → α) (sched : List ι) (s : State ι α)
    (hwf : WF kb) (hv : Consistent kb v) (hs : Sat v s) (j : ι) (hj : s j = ⟨v j, v j⟩) :
    (runSteps kb (sched.map Step.up) s).1 j = ⟨v j, v j⟩ := by
  induction sched generalizing s with
  | nil => simpa [runSteps] using hj
  | cons i rest ih =>
    simp only [List.map_cons, runSteps, runStep]
    exact ih _ (stepUp_sound kb v s i hwf hv hs) (stepUp_keeps_point kb v s i hwf hv hs j hj)

end LNN
