/-
Helper lemmas for C04 (truth tables, point evaluation, dualities). No definitions live here: every
notion used in the statements of `Props/C04.lean` is defined there or in `Model/`, `Spec/`.
-/
import LnnVerif.Lemmas.Engine

set_option linter.unusedSectionVars false

namespace LNN

variable {ι : Type} [DecidableEq ι] {α : Type} [Field α] [LinearOrder α] [IsStrictOrderedRing α]

/-! ### negation is an involution -/

theorem negB_negB (b : Bounds α) : negB (negB b) = b := by
  cases b; simp [negB]

theorem Opd.neg_neg (o : Opd α) : o.neg.neg = o := by
  cases o; simp [Opd.neg]

theorem map_neg_neg (ops : List (Opd α)) : (ops.map Opd.neg).map Opd.neg = ops := by
  rw [List.map_map]
  conv_rhs => rw [← List.map_id ops]
  apply List.map_congr_left
  intro o _
  simp [Opd.neg_neg]

/-! ### the And terms of negated operands are the Or terms -/

theorem sum_termLo_neg (ops : List (Opd α)) :
    ((ops.map Opd.neg).map termLo).sum = (ops.map (fun o => o.w * o.hi)).sum := by
  rw [List.map_map]
  congr 1
  apply List.map_congr_left
  intro o _
  simp [termLo, Opd.neg]

theorem sum_termHi_neg (ops : List (Opd α)) :
    ((ops.map Opd.neg).map termHi).sum = (ops.map (fun o => o.w * o.lo)).sum := by
  rw [List.map_map]
  congr 1
  apply List.map_congr_left
  intro o _
  simp [termHi, Opd.neg]

/-- the plain (non-transparent) Or activation is the negated And activation of the negated operands,
for all weights -/
theorem orUp_false_eq (b : α) (ops : List (Opd α)) :
    orUp false b ops = negB (andUp b (ops.map Opd.neg)) := by
  unfold orUp andUp negB
  simp only [Bool.false_eq_true, if_false, sum_termLo_neg, sum_termHi_neg, ← clamp01_one_sub]
  congr 2 <;> ring

/-! ### sums of `{0,1}`-lists -/

theorem sum01_nonneg (ys : List α) (h : ∀ y ∈ ys, y = 0 ∨ y = 1) : 0 ≤ ys.sum := by
  apply List.sum_nonneg
  intro y hy
  rcases h y hy with rfl | rfl
  · exact le_rfl
  · exact zero_le_one

theorem sum01_one_le (ys : List α) (h : ∀ y ∈ ys, y = 0 ∨ y = 1) (h1 : ∃ y ∈ ys, y = 1) :
    1 ≤ ys.sum := by
  obtain ⟨y, hy, rfl⟩ := h1
  apply List.single_le_sum _ _ hy
  intro y hy
  rcases h y hy with rfl | rfl
  · exact le_rfl
  · exact zero_le_one

theorem sum_all_zero (ys : List α) (h : ∀ y ∈ ys, y = 0) : ys.sum = 0 :=
  List.sum_eq_zero h

theorem exists_one_of_not_all_zero (ys : List α) (h : ∀ y ∈ ys, y = 0 ∨ y = 1)
    (hn : ¬ ∀ y ∈ ys, y = 0) : ∃ y ∈ ys, y = 1 := by
  by_contra hc
  apply hn
  intro y hy
  rcases h y hy with h0 | h1
  · exact h0
  · exact absurd ⟨y, hy, h1⟩ hc

/-- `clamp(1 - Σ y)` over a `{0,1}`-list: `1` if every entry is `0`, else `0` -/
theorem clamp_one_sub_sum01 (ys : List α) (h : ∀ y ∈ ys, y = 0 ∨ y = 1) :
    clamp01 (1 - ys.sum) = if ∀ y ∈ ys, y = 0 then 1 else 0 := by
  split
  next hall => rw [sum_all_zero ys hall]; exact clamp01_of_one_le (by simp)
  next hn =>
    have := sum01_one_le ys h (exists_one_of_not_all_zero ys h hn)
    exact clamp01_of_nonpos (by linarith)

/-- `clamp(Σ y)` over a `{0,1}`-list: `0` if every entry is `0`, else `1` -/
theorem clamp_sum01 (ys : List α) (h : ∀ y ∈ ys, y = 0 ∨ y = 1) :
    clamp01 ys.sum = if ∀ y ∈ ys, y = 0 then 0 else 1 := by
  split
  next hall => rw [sum_all_zero ys hall]; exact clamp01_of_nonpos le_rfl
  next hn => exact clamp01_of_one_le (sum01_one_le ys h (exists_one_of_not_all_zero ys h hn))

end LNN
