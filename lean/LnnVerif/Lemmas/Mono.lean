/-
Monotonicity of the engine with respect to the "at least as tight" order on states.

* `Mono.BLe b b'` : the interval `b'` is at least as tight as `b`; `Mono.Le s t` pointwise.
* every activation (And / Or / Implies, upward and downward) is monotone: tighter inputs give
  tighter outputs (non-negative weights, `alpha ≤ 1`);
* `ustepUp` / `ustepDown`: the engine's primitive steps without the contradiction arrest; they are
  monotone, inflationary on unit states and preserve unit states;
* the real steps are either the identity or the un-arrested step;
* contradictions (and hence arrests) persist under tightening.

Everything lives in the namespace `LNN.Mono`.
-/
import LnnVerif.Spec.Semantics
import LnnVerif.Lemmas.ArithOr
import LnnVerif.Lemmas.Chaotic

set_option linter.unusedSectionVars false

namespace LNN
namespace Mono

variable {ι : Type} [DecidableEq ι] {α : Type} [Field α] [LinearOrder α] [IsStrictOrderedRing α]

/-! ### the order -/

/-- `b'` is at least as tight as `b` -/
def BLe (b b' : Bounds α) : Prop := b.lo ≤ b'.lo ∧ b'.hi ≤ b.hi

/-- both bounds lie in `[0,1]` (nothing is said about their relative position) -/
def UnitB (b : Bounds α) : Prop := 0 ≤ b.lo ∧ b.lo ≤ 1 ∧ 0 ≤ b.hi ∧ b.hi ≤ 1

/-- `t` is at least as tight as `s`, at every node -/
def Le (s t : State ι α) : Prop := ∀ i, BLe (s i) (t i)

def UnitState (s : State ι α) : Prop := ∀ i, UnitB (s i)

theorem BLe.refl (b : Bounds α) : BLe b b := ⟨le_rfl, le_rfl⟩

theorem BLe.trans {a b c : Bounds α} (h₁ : BLe a b) (h₂ : BLe b c) : BLe a c :=
  ⟨le_trans h₁.1 h₂.1, le_trans h₂.2 h₁.2⟩

theorem BLe.antisymm {a b : Bounds α} (h₁ : BLe a b) (h₂ : BLe b a) : a = b := by
  cases a; cases b
  simp only [BLe] at h₁ h₂
  simp only [Bounds.mk.injEq]
  exact ⟨le_antisymm h₁.1 h₂.1, le_antisymm h₂.2 h₁.2⟩

theorem Le.refl (s : State ι α) : Le s s := fun i => BLe.refl (s i)

theorem Le.trans {s t u : State ι α} (h₁ : Le s t) (h₂ : Le t u) : Le s u :=
  fun i => (h₁ i).trans (h₂ i)

theorem Le.antisymm {s t : State ι α} (h₁ : Le s t) (h₂ : Le t s) : s = t :=
  funext fun i => (h₁ i).antisymm (h₂ i)

theorem Le.update {s t : State ι α} (h : Le s t) (j : ι) {r r' : Bounds α} (hr : BLe r r') :
    Le (Function.update s j r) (Function.update t j r') := by
  intro k
  by_cases hk : k = j
  · subst hk; simpa using hr
  · simpa [Function.update_of_ne hk] using h k

theorem UnitState.update {s : State ι α} (h : UnitState s) (j : ι) {r : Bounds α} (hr : UnitB r) :
    UnitState (Function.update s j r) := by
  intro k
  by_cases hk : k = j
  · subst hk; simpa using hr
  · simpa [Function.update_of_ne hk] using h k

theorem le_update_self {s : State ι α} (j : ι) {r : Bounds α} (hr : BLe (s j) r) :
    Le s (Function.update s j r) := by
  intro k
  by_cases hk : k = j
  · subst hk; simpa using hr
  · simpa [Function.update_of_ne hk] using BLe.refl (s k)

theorem BLe.negB {b b' : Bounds α} (h : BLe b b') : BLe (negB b) (negB b') := by
  simp only [BLe, LNN.negB] at *
  exact ⟨by linarith [h.2], by linarith [h.1]⟩

/-! ### aggregation -/

theorem aggregate_both (prev new : Bounds α) :
    (aggregate .both prev new).1 = ⟨clamp01 (max prev.lo new.lo), clamp01 (min prev.hi new.hi)⟩ := by
  simp [aggregate]

/-- tighter previous bounds and a tighter proposal aggregate to tighter bounds -/
theorem aggregate_mono {prev prev' new new' : Bounds α} (hp : BLe prev prev') (hn : BLe new new') :
    BLe (aggregate .both prev new).1 (aggregate .both prev' new').1 := by
  rw [aggregate_both, aggregate_both]
  exact ⟨clamp01_mono (max_le_max hp.1 hn.1), clamp01_mono (min_le_min hp.2 hn.2)⟩

theorem aggregate_unit (prev new : Bounds α) : UnitB (aggregate .both prev new).1 := by
  rw [aggregate_both]
  exact ⟨clamp01_nonneg _, clamp01_le_one _, clamp01_nonneg _, clamp01_le_one _⟩

/-- on unit bounds aggregation only tightens -/
theorem aggregate_infl {prev : Bounds α} (new : Bounds α) (hp : UnitB prev) :
    BLe prev (aggregate .both prev new).1 := by
  rw [aggregate_both]
  exact ⟨le_clamp01_of_le hp.2.1 (le_max_left _ _), clamp01_le_of_le hp.2.2.1 (min_le_left _ _)⟩

/-! ### operand lists -/

/-- same weight (non-negative), tighter bounds -/
def OpdLe (o o' : Opd α) : Prop := o.w = o'.w ∧ 0 ≤ o.w ∧ o.lo ≤ o'.lo ∧ o'.hi ≤ o.hi

theorem OpdLe.neg {o o' : Opd α} (h : OpdLe o o') : OpdLe o.neg o'.neg := by
  simp only [OpdLe, Opd.neg] at *
  exact ⟨h.1, h.2.1, by linarith [h.2.2.2], by linarith [h.2.2.1]⟩

theorem OpdLe.termLo {o o' : Opd α} (h : OpdLe o o') : termLo o' ≤ termLo o := by
  unfold LNN.termLo
  rw [← h.1]
  exact mul_le_mul_of_nonneg_left (by linarith [h.2.2.1]) h.2.1

theorem OpdLe.termHi {o o' : Opd α} (h : OpdLe o o') : termHi o ≤ termHi o' := by
  unfold LNN.termHi
  rw [← h.1]
  exact mul_le_mul_of_nonneg_left (by linarith [h.2.2.2]) h.2.1

theorem sumLo_mono {ops ops' : List (Opd α)} (h : List.Forall₂ OpdLe ops ops') :
    (ops'.map termLo).sum ≤ (ops.map termLo).sum := by
  induction h with
  | nil => simp
  | cons ho _ ih =>
    simp only [List.map_cons, List.sum_cons]
    linarith [ho.termLo]

theorem sumHi_mono {ops ops' : List (Opd α)} (h : List.Forall₂ OpdLe ops ops') :
    (ops.map termHi).sum ≤ (ops'.map termHi).sum := by
  induction h with
  | nil => simp
  | cons ho _ ih =>
    simp only [List.map_cons, List.sum_cons]
    linarith [ho.termHi]

theorem minw_eq {ops ops' : List (Opd α)} (h : List.Forall₂ OpdLe ops ops') :
    (ops.map (fun o => min o.w 0)).sum = (ops'.map (fun o => min o.w 0)).sum := by
  induction h with
  | nil => simp
  | cons ho _ ih =>
    simp only [List.map_cons, List.sum_cons]
    rw [ih, ho.1]

theorem psumLo_mono {ops ops' : List (Opd α)} (h : List.Forall₂ OpdLe ops ops') :
    (ops.map (fun o => o.w * o.lo)).sum ≤ (ops'.map (fun o => o.w * o.lo)).sum := by
  induction h with
  | nil => simp
  | @cons o o' _ _ ho _ ih =>
    simp only [List.map_cons, List.sum_cons]
    have : o.w * o.lo ≤ o'.w * o'.lo := by
      rw [← ho.1]; exact mul_le_mul_of_nonneg_left ho.2.2.1 ho.2.1
    linarith

theorem psumHi_mono {ops ops' : List (Opd α)} (h : List.Forall₂ OpdLe ops ops') :
    (ops'.map (fun o => o.w * o.hi)).sum ≤ (ops.map (fun o => o.w * o.hi)).sum := by
  induction h with
  | nil => simp
  | @cons o o' _ _ ho _ ih =>
    simp only [List.map_cons, List.sum_cons]
    have : o'.w * o'.hi ≤ o.w * o.hi := by
      rw [← ho.1]; exact mul_le_mul_of_nonneg_left ho.2.2.2 ho.2.1
    linarith

/-- per operand: the sum over the *other* operands moves the right way -/
theorem others_mono {ops ops' : List (Opd α)} (h : List.Forall₂ OpdLe ops ops') :
    List.Forall₂ (fun o o' => OpdLe o o' ∧
      (ops.map termHi).sum - termHi o ≤ (ops'.map termHi).sum - termHi o' ∧
      (ops'.map termLo).sum - termLo o' ≤ (ops.map termLo).sum - termLo o) ops ops' := by
  induction h with
  | nil => exact List.Forall₂.nil
  | @cons o o' ops ops' ho hrest ih =>
    have h1 := sumHi_mono hrest
    have h2 := sumLo_mono hrest
    refine List.Forall₂.cons ⟨ho, ?_, ?_⟩ ?_
    · simp only [List.map_cons, List.sum_cons]; linarith
    · simp only [List.map_cons, List.sum_cons]; linarith
    · refine List.Forall₂.imp ?_ ih
      intro p p' hp
      refine ⟨hp.1, ?_, ?_⟩
      · simp only [List.map_cons, List.sum_cons]; linarith [hp.2.1, ho.termHi]
      · simp only [List.map_cons, List.sum_cons]; linarith [hp.2.2, ho.termLo]

/-! ### upward activations -/

theorem andUp_mono (b : α) {ops ops' : List (Opd α)} (h : List.Forall₂ OpdLe ops ops') :
    BLe (andUp b ops) (andUp b ops') := by
  unfold andUp BLe
  exact ⟨clamp01_mono (by linarith [sumLo_mono h]), clamp01_mono (by linarith [sumHi_mono h])⟩

theorem orUp_mono (tr : Bool) (b : α) {ops ops' : List (Opd α)} (h : List.Forall₂ OpdLe ops ops') :
    BLe (orUp tr b ops) (orUp tr b ops') := by
  unfold orUp BLe
  simp only
  rw [minw_eq h]
  exact ⟨clamp01_mono (by linarith [psumLo_mono h]), clamp01_mono (by linarith [psumHi_mono h])⟩

theorem impliesUp_mono (b : α) {ops ops' : List (Opd α)} (h : List.Forall₂ OpdLe ops ops') :
    BLe (impliesUp b ops) (impliesUp b ops') := by
  cases h with
  | nil => exact BLe.refl _
  | @cons x x' _ _ hx h =>
    cases h with
    | nil => exact BLe.refl _
    | @cons y y' _ _ hy h =>
      cases h with
      | nil =>
        simp only [impliesUp, BLe]
        obtain ⟨hxw, hxw0, hxl, hxh⟩ := hx
        obtain ⟨hyw, hyw0, hyl, hyh⟩ := hy
        rw [← hxw, ← hyw]
        have h1 : x.w * (1 - x.hi) ≤ x.w * (1 - x'.hi) :=
          mul_le_mul_of_nonneg_left (by linarith) hxw0
        have h2 : x.w * (1 - x'.lo) ≤ x.w * (1 - x.lo) :=
          mul_le_mul_of_nonneg_left (by linarith) hxw0
        have h3 : y.w * y.lo ≤ y.w * y'.lo := mul_le_mul_of_nonneg_left hyl hyw0
        have h4 : y.w * y'.hi ≤ y.w * y.hi := mul_le_mul_of_nonneg_left hyh hyw0
        exact ⟨clamp01_mono (by linarith), clamp01_mono (by linarith)⟩
      | cons _ _ => exact BLe.refl _

/-! ### downward activations -/

/-- **The And inverse is monotone**: a tighter operator interval and tighter operands give, for
every operand, a tighter proposal. The alpha gates only open under tightening, and an open gate
switches the `f_inv` offset off. -/
theorem andDown_mono (b a : α) {L U L' U' : α} (ha : a ≤ 1) (hL : L ≤ L') (hU : U' ≤ U)
    {ops ops' : List (Opd α)} (h : List.Forall₂ OpdLe ops ops') :
    List.Forall₂ BLe (andDown b a L U ops) (andDown b a L' U' ops') := by
  unfold andDown
  simp only
  rw [List.forall₂_map_left_iff, List.forall₂_map_right_iff]
  refine List.Forall₂.imp ?_ (others_mono h)
  rintro o o' ⟨⟨hw, hw0, _, _⟩, h1, h2⟩
  rw [← hw]
  by_cases hz : o.w = 0
  · simp only [hz, if_true]; exact BLe.refl _
  · simp only [hz, if_false]
    have hwpos : 0 < o.w := lt_of_le_of_ne hw0 (Ne.symm hz)
    rw [max_eq_left hw0]
    constructor
    · show (if 1 - a < L then _ else _) ≤ (if 1 - a < L' then _ else _)
      by_cases hg : 1 - a < L
      · have hg' : 1 - a < L' := lt_of_lt_of_le hg hL
        have hn : ¬ L ≤ 0 := not_le.mpr (by linarith)
        have hn' : ¬ L' ≤ 0 := not_le.mpr (by linarith)
        simp only [hg, hg', hn, hn', if_true, if_false, add_zero]
        apply clamp01_mono
        have : (L - b + ((ops.map termHi).sum - termHi o)) / o.w
            ≤ (L' - b + ((ops'.map termHi).sum - termHi o')) / o.w :=
          div_le_div_of_nonneg_right (by linarith) hwpos.le
        linarith
      · simp only [hg, if_false]
        split
        · exact clamp01_nonneg _
        · exact le_rfl
    · show (if U' < a then _ else _) ≤ (if U < a then _ else _)
      by_cases hg : U < a
      · have hg' : U' < a := lt_of_le_of_lt hU hg
        have hn : ¬ 1 ≤ U := not_le.mpr (by linarith)
        have hn' : ¬ 1 ≤ U' := not_le.mpr (by linarith)
        simp only [hg, hg', hn, hn', if_true, if_false, add_zero]
        apply clamp01_mono
        have : (U' - b + ((ops'.map termLo).sum - termLo o')) / o.w
            ≤ (U - b + ((ops.map termLo).sum - termLo o)) / o.w :=
          div_le_div_of_nonneg_right (by linarith) hwpos.le
        linarith
      · simp only [hg, if_false]
        split
        · exact clamp01_le_one _
        · exact le_rfl

theorem andDown_length (b a L U : α) (ops : List (Opd α)) :
    (andDown b a L U ops).length = ops.length := by
  unfold andDown; simp

theorem map_neg_mono {ops ops' : List (Opd α)} (h : List.Forall₂ OpdLe ops ops') :
    List.Forall₂ OpdLe (ops.map Opd.neg) (ops'.map Opd.neg) := by
  rw [List.forall₂_map_left_iff, List.forall₂_map_right_iff]
  exact List.Forall₂.imp (fun _ _ h => h.neg) h

theorem orDown_mono (b a : α) {L U L' U' : α} (ha : a ≤ 1) (hL : L ≤ L') (hU : U' ≤ U)
    {ops ops' : List (Opd α)} (h : List.Forall₂ OpdLe ops ops') :
    List.Forall₂ BLe (orDown b a L U ops) (orDown b a L' U' ops') := by
  unfold orDown
  rw [List.forall₂_map_left_iff, List.forall₂_map_right_iff]
  refine List.Forall₂.imp (fun _ _ h => BLe.negB h) ?_
  exact andDown_mono b a ha (by linarith) (by linarith) (map_neg_mono h)

theorem impliesDown_two (b a L U : α) (x y : Opd α) :
    ∃ px py, andDown b a (1 - U) (1 - L) [x, y.neg] = [px, py] ∧
      impliesDown b a L U [x, y] = [px, negB py] := by
  have hlen := andDown_length b a (1 - U) (1 - L) [x, y.neg]
  unfold impliesDown
  simp only
  match hm : andDown b a (1 - U) (1 - L) [x, y.neg], hlen with
  | [px, py], _ => exact ⟨px, py, rfl, rfl⟩

theorem impliesDown_mono (b a : α) {L U L' U' : α} (ha : a ≤ 1) (hL : L ≤ L') (hU : U' ≤ U)
    {ops ops' : List (Opd α)} (h : List.Forall₂ OpdLe ops ops') :
    List.Forall₂ BLe (impliesDown b a L U ops) (impliesDown b a L' U' ops') := by
  have triv : ∀ {l l' : List (Opd α)}, List.Forall₂ OpdLe l l' →
      List.Forall₂ BLe (l.map fun _ => (⟨0, 1⟩ : Bounds α)) (l'.map fun _ => (⟨0, 1⟩ : Bounds α)) := by
    intro l l' hl
    rw [List.forall₂_map_left_iff, List.forall₂_map_right_iff]
    exact List.Forall₂.imp (fun _ _ _ => BLe.refl _) hl
  cases h with
  | nil => exact triv List.Forall₂.nil
  | @cons x x' _ _ hx h =>
    cases h with
    | nil => exact triv (List.Forall₂.cons hx List.Forall₂.nil)
    | @cons y y' _ _ hy h =>
      cases h with
      | nil =>
        obtain ⟨px, py, e1, e2⟩ := impliesDown_two b a L U x y
        obtain ⟨px', py', e1', e2'⟩ := impliesDown_two b a L' U' x' y'
        have key := andDown_mono b a (L := 1 - U) (U := 1 - L) (L' := 1 - U') (U' := 1 - L') ha
          (by linarith) (by linarith)
          (List.Forall₂.cons hx (List.Forall₂.cons hy.neg List.Forall₂.nil))
        rw [e1, e1'] at key
        rw [e2, e2']
        cases key with
        | cons k1 k2 =>
          cases k2 with
          | cons k2 _ =>
            exact List.Forall₂.cons k1 (List.Forall₂.cons k2.negB List.Forall₂.nil)
      | cons hz h =>
        exact triv (List.Forall₂.cons hx (List.Forall₂.cons hy (List.Forall₂.cons hz h)))

/-! ### engine level: activations on states -/

theorem opds_mono (n : Node ι α) {s t : State ι α} (h : Le s t) (hw : ∀ w ∈ n.ws, 0 ≤ w) :
    List.Forall₂ OpdLe (opds n s) (opds n t) := by
  unfold opds
  generalize n.ops = ops
  generalize n.ws = ws at hw
  induction ops generalizing ws with
  | nil => simp
  | cons j ops ih =>
    cases ws with
    | nil => simp
    | cons w ws =>
      simp only [List.zipWith_cons_cons]
      refine List.Forall₂.cons ⟨rfl, hw w (List.mem_cons_self ..), (h j).1, (h j).2⟩ ?_
      exact ih ws (fun w' hw' => hw w' (List.mem_cons_of_mem _ hw'))

theorem actUp_mono (n : Node ι α) {s t : State ι α} (h : Le s t) (hw : ∀ w ∈ n.ws, 0 ≤ w) :
    BLe (actUp n s) (actUp n t) := by
  have ho := opds_mono n h hw
  unfold actUp
  cases n.kind with
  | atom => exact BLe.refl _
  | neg => exact BLe.refl _
  | and => exact andUp_mono _ ho
  | or => exact orUp_mono _ _ ho
  | implies => exact impliesUp_mono _ ho

theorem actDown_mono (n : Node ι α) {b b' : Bounds α} {s t : State ι α} (hb : BLe b b')
    (h : Le s t) (hw : ∀ w ∈ n.ws, 0 ≤ w) (ha : n.alpha ≤ 1) :
    List.Forall₂ BLe (actDown n b s) (actDown n b' t) := by
  have ho := opds_mono n h hw
  unfold actDown
  cases n.kind with
  | atom => exact List.Forall₂.nil
  | neg => exact List.Forall₂.nil
  | and => exact andDown_mono _ _ ha hb.1 hb.2 ho
  | or => exact orDown_mono _ _ ha hb.1 hb.2 ho
  | implies => exact impliesDown_mono _ _ ha hb.1 hb.2 ho

/-! ### sequential aggregation of proposals -/

/-- same position, same operand, tighter proposal -/
def EntLe (e e' : Nat × ι × Bounds α) : Prop := e.1 = e'.1 ∧ e.2.1 = e'.2.1 ∧ BLe e.2.2 e'.2.2

theorem entries_mono (ops : List ι) {ps ps' : List (Bounds α)} (h : List.Forall₂ BLe ps ps')
    (k : Nat) :
    List.Forall₂ EntLe (enumFrom k (List.zip ops ps)) (enumFrom k (List.zip ops ps')) := by
  induction ops generalizing ps ps' k with
  | nil => simp [enumFrom]
  | cons j ops ih =>
    cases h with
    | nil => simp [enumFrom]
    | cons hp h =>
      simp only [List.zip_cons_cons, enumFrom]
      exact List.Forall₂.cons ⟨rfl, rfl, hp⟩ (ih h (k + 1))

theorem writeOps_mono {es es' : List (Nat × ι × Bounds α)} (h : List.Forall₂ EntLe es es')
    (idx : Option Nat) {s t : State ι α} (hst : Le s t) :
    Le (writeOps es idx s).1 (writeOps es' idx t).1 := by
  induction h generalizing s t with
  | nil => simpa [writeOps] using hst
  | @cons e e' _ _ he _ ih =>
    obtain ⟨k, j, p⟩ := e
    obtain ⟨k', j', p'⟩ := e'
    simp only [EntLe] at he
    obtain ⟨rfl, rfl, hp⟩ := he
    simp only [writeOps]
    by_cases hc : idx = none ∨ idx = some k
    · simp only [hc, if_true]
      exact ih (hst.update j (aggregate_mono (hst j) hp))
    · simp only [hc, if_false]
      exact ih hst

theorem writeOps_unit (es : List (Nat × ι × Bounds α)) (idx : Option Nat) {s : State ι α}
    (hs : UnitState s) : UnitState (writeOps es idx s).1 := by
  induction es generalizing s with
  | nil => simpa [writeOps] using hs
  | cons e es ih =>
    obtain ⟨k, j, p⟩ := e
    simp only [writeOps]
    by_cases hc : idx = none ∨ idx = some k
    · simp only [hc, if_true]
      exact ih (hs.update j (aggregate_unit _ _))
    · simp only [hc, if_false]
      exact ih hs

theorem writeOps_infl (es : List (Nat × ι × Bounds α)) (idx : Option Nat) {s : State ι α}
    (hs : UnitState s) : Le s (writeOps es idx s).1 := by
  induction es generalizing s with
  | nil => simpa [writeOps] using Le.refl s
  | cons e es ih =>
    obtain ⟨k, j, p⟩ := e
    simp only [writeOps]
    by_cases hc : idx = none ∨ idx = some k
    · simp only [hc, if_true]
      exact (le_update_self j (aggregate_infl p (hs j))).trans
        (ih (hs.update j (aggregate_unit _ _)))
    · simp only [hc, if_false]
      exact ih hs

/-! ### the un-arrested steps -/

/-- `stepUp` without the contradiction arrest (state component only) -/
def ustepUp (kb : KB ι α) (i : ι) (s : State ι α) : State ι α :=
  let n := kb i
  match n.kind with
  | .atom => s
  | .neg =>
    match n.ops with
    | j :: _ => Function.update s i (aggregate .both (s i) (negB (s j))).1
    | [] => s
  | _ => Function.update s i (aggregate .both (s i) (actUp n s)).1

/-- `stepDown` without the contradiction arrest (state component only) -/
def ustepDown (kb : KB ι α) (i : ι) (idx : Option Nat) (s : State ι α) : State ι α :=
  let n := kb i
  match n.kind with
  | .atom => s
  | .neg =>
    match n.ops with
    | j :: _ => Function.update s j (aggregate .both (s j) (negB (s i))).1
    | [] => s
  | _ => (writeOps (enumFrom 0 (List.zip n.ops (actDown n (s i) s))) idx s).1

/-- the un-arrested version of a primitive step -/
def ustep (kb : KB ι α) : Step ι → State ι α → State ι α
  | .up i => ustepUp kb i
  | .down i idx => ustepDown kb i idx

/-- the node a primitive step is called on -/
def node : Step ι → ι
  | .up i => i
  | .down i _ => i

theorem stepUp_of_free (kb : KB ι α) (i : ι) (s : State ι α) (h : arrested kb s i = false) :
    (stepUp kb i s).1 = ustepUp kb i s := by
  unfold stepUp ustepUp
  simp only
  cases (kb i).kind with
  | atom => rfl
  | neg => cases (kb i).ops <;> rfl
  | and => simp [h]
  | or => simp [h]
  | implies => simp [h]

theorem stepDown_of_free (kb : KB ι α) (i : ι) (idx : Option Nat) (s : State ι α)
    (h : arrested kb s i = false) : (stepDown kb i idx s).1 = ustepDown kb i idx s := by
  unfold stepDown ustepDown
  simp only
  cases (kb i).kind with
  | atom => rfl
  | neg => cases (kb i).ops <;> rfl
  | and => simp [h]
  | or => simp [h]
  | implies => simp [h]

theorem stepUp_cases (kb : KB ι α) (i : ι) (s : State ι α) :
    (stepUp kb i s).1 = s ∨ (stepUp kb i s).1 = ustepUp kb i s := by
  cases h : arrested kb s i with
  | false => exact Or.inr (stepUp_of_free kb i s h)
  | true =>
    unfold stepUp ustepUp
    simp only
    cases (kb i).kind with
    | atom => exact Or.inl rfl
    | neg => right; cases (kb i).ops <;> rfl
    | and => left; simp [h]
    | or => left; simp [h]
    | implies => left; simp [h]

theorem stepDown_cases (kb : KB ι α) (i : ι) (idx : Option Nat) (s : State ι α) :
    (stepDown kb i idx s).1 = s ∨ (stepDown kb i idx s).1 = ustepDown kb i idx s := by
  cases h : arrested kb s i with
  | false => exact Or.inr (stepDown_of_free kb i idx s h)
  | true =>
    unfold stepDown ustepDown
    simp only
    cases (kb i).kind with
    | atom => exact Or.inl rfl
    | neg => right; cases (kb i).ops <;> rfl
    | and => left; simp [h]
    | or => left; simp [h]
    | implies => left; simp [h]

/-- a real step whose node is not arrested is the un-arrested step -/
theorem runStep_of_free (kb : KB ι α) (st : Step ι) (s : State ι α)
    (h : arrested kb s (node st) = false) : (runStep kb st s).1 = ustep kb st s := by
  cases st with
  | up i => exact stepUp_of_free kb i s h
  | down i idx => exact stepDown_of_free kb i idx s h

/-- a real step either does nothing or is the un-arrested step -/
theorem runStep_cases (kb : KB ι α) (st : Step ι) (s : State ι α) :
    (runStep kb st s).1 = s ∨ (runStep kb st s).1 = ustep kb st s := by
  cases st with
  | up i => exact stepUp_cases kb i s
  | down i idx => exact stepDown_cases kb i idx s

/-! ### monotone, unit preserving, inflationary -/

theorem ustepUp_mono (kb : KB ι α) (hwf : WF kb) (i : ι) {s t : State ι α} (h : Le s t) :
    Le (ustepUp kb i s) (ustepUp kb i t) := by
  unfold ustepUp
  simp only
  have conn : Le (Function.update s i (aggregate .both (s i) (actUp (kb i) s)).1)
      (Function.update t i (aggregate .both (t i) (actUp (kb i) t)).1) :=
    h.update i (aggregate_mono (h i) (actUp_mono (kb i) h (hwf i).1))
  cases (kb i).kind with
  | atom => exact h
  | neg =>
    cases (kb i).ops with
    | nil => exact h
    | cons j _ => exact h.update i (aggregate_mono (h i) (BLe.negB (h j)))
  | and => exact conn
  | or => exact conn
  | implies => exact conn

theorem ustepDown_mono (kb : KB ι α) (hwf : WF kb) (i : ι) (idx : Option Nat) {s t : State ι α}
    (h : Le s t) : Le (ustepDown kb i idx s) (ustepDown kb i idx t) := by
  unfold ustepDown
  simp only
  have conn : Le (writeOps (enumFrom 0 (List.zip (kb i).ops (actDown (kb i) (s i) s))) idx s).1
      (writeOps (enumFrom 0 (List.zip (kb i).ops (actDown (kb i) (t i) t))) idx t).1 :=
    writeOps_mono (entries_mono _ (actDown_mono (kb i) (h i) h (hwf i).1 (hwf i).2) 0) idx h
  cases (kb i).kind with
  | atom => exact h
  | neg =>
    cases (kb i).ops with
    | nil => exact h
    | cons j _ => exact h.update j (aggregate_mono (h j) (BLe.negB (h i)))
  | and => exact conn
  | or => exact conn
  | implies => exact conn

theorem ustepUp_unit (kb : KB ι α) (i : ι) {s : State ι α} (h : UnitState s) :
    UnitState (ustepUp kb i s) := by
  unfold ustepUp
  simp only
  cases (kb i).kind with
  | atom => exact h
  | neg =>
    cases (kb i).ops with
    | nil => exact h
    | cons j _ => exact h.update i (aggregate_unit _ _)
  | and => exact h.update i (aggregate_unit _ _)
  | or => exact h.update i (aggregate_unit _ _)
  | implies => exact h.update i (aggregate_unit _ _)

theorem ustepDown_unit (kb : KB ι α) (i : ι) (idx : Option Nat) {s : State ι α}
    (h : UnitState s) : UnitState (ustepDown kb i idx s) := by
  unfold ustepDown
  simp only
  cases (kb i).kind with
  | atom => exact h
  | neg =>
    cases (kb i).ops with
    | nil => exact h
    | cons j _ => exact h.update j (aggregate_unit _ _)
  | and => exact writeOps_unit _ idx h
  | or => exact writeOps_unit _ idx h
  | implies => exact writeOps_unit _ idx h

theorem ustepUp_infl (kb : KB ι α) (i : ι) {s : State ι α} (h : UnitState s) :
    Le s (ustepUp kb i s) := by
  unfold ustepUp
  simp only
  cases (kb i).kind with
  | atom => exact Le.refl s
  | neg =>
    cases (kb i).ops with
    | nil => exact Le.refl s
    | cons j _ => exact le_update_self i (aggregate_infl _ (h i))
  | and => exact le_update_self i (aggregate_infl _ (h i))
  | or => exact le_update_self i (aggregate_infl _ (h i))
  | implies => exact le_update_self i (aggregate_infl _ (h i))

theorem ustepDown_infl (kb : KB ι α) (i : ι) (idx : Option Nat) {s : State ι α}
    (h : UnitState s) : Le s (ustepDown kb i idx s) := by
  unfold ustepDown
  simp only
  cases (kb i).kind with
  | atom => exact Le.refl s
  | neg =>
    cases (kb i).ops with
    | nil => exact Le.refl s
    | cons j _ => exact le_update_self j (aggregate_infl _ (h j))
  | and => exact writeOps_infl _ idx h
  | or => exact writeOps_infl _ idx h
  | implies => exact writeOps_infl _ idx h

/-- **The un-arrested steps are monotone**: from a tighter state they lead to a tighter state. -/
theorem ustep_mono (kb : KB ι α) (hwf : WF kb) (st : Step ι) {s t : State ι α} (h : Le s t) :
    Le (ustep kb st s) (ustep kb st t) := by
  cases st with
  | up i => exact ustepUp_mono kb hwf i h
  | down i idx => exact ustepDown_mono kb hwf i idx h

theorem ustep_unit (kb : KB ι α) (st : Step ι) {s : State ι α} (h : UnitState s) :
    UnitState (ustep kb st s) := by
  cases st with
  | up i => exact ustepUp_unit kb i h
  | down i idx => exact ustepDown_unit kb i idx h

/-- on unit states the un-arrested steps only tighten -/
theorem ustep_infl (kb : KB ι α) (st : Step ι) {s : State ι α} (h : UnitState s) :
    Le s (ustep kb st s) := by
  cases st with
  | up i => exact ustepUp_infl kb i h
  | down i idx => exact ustepDown_infl kb i idx h

/-! ### contradictions persist under tightening -/

theorem region_eq_five (a y : α) : region a y = 5 ↔ a ≤ y := by
  unfold region
  simp only
  split_ifs with h5 <;> simp [h5]

theorem region_eq_one (a y : α) : region a y = 1 ↔ y ≤ 1 - a ∧ y < a ∧ y ≠ 1/2 := by
  unfold region
  simp only
  split_ifs with h5 h4 h3 h2 h1
  · simp; intro _ h; exact absurd h5 (not_le.mpr h)
  · simp; intro h _ ; exfalso; linarith [h4.1, h4.2]
  · simp [h3]
  · simp; intro h; exfalso; linarith [h2.1]
  · simp only [true_iff]
    exact ⟨h1, not_le.mp h5, h3⟩
  · simp; intro h; exact absurd h h1

theorem isContra_iff (a : α) (b : Bounds α) :
    isContra a b = true ↔
      b.hi < b.lo ∧ ¬ (region a b.lo = 1 ∧ region a b.hi = 1) ∧ ¬ (a ≤ b.lo ∧ a ≤ b.hi) := by
  unfold isContra
  simp only [Bool.and_eq_true, Bool.not_eq_true', Bool.and_eq_false_iff, beq_eq_false_iff_ne,
    decide_eq_true_eq, gt_iff_lt, ← region_eq_five, ne_eq, and_assoc]
  tauto

/-- **Contradictions persist under tightening** (for every alpha). -/
theorem isContra_mono (a : α) {b b' : Bounds α} (h : BLe b b') (hc : isContra a b = true) :
    isContra a b' = true := by
  rw [isContra_iff] at hc ⊢
  obtain ⟨hx, h1, h5⟩ := hc
  obtain ⟨hlo, hhi⟩ := h
  refine ⟨by linarith, ?_, ?_⟩
  · rintro ⟨hl', hh'⟩
    apply h1
    rw [region_eq_one] at hl' hh' ⊢
    rw [region_eq_one]
    obtain ⟨l1, l2, l3⟩ := hl'
    refine ⟨⟨by linarith, by linarith, ?_⟩, by linarith, by linarith, ?_⟩
    · intro e
      have : 1/2 < b'.lo := lt_of_le_of_ne (by linarith) (Ne.symm l3)
      linarith
    · intro e
      linarith
  · rintro ⟨_, hh'⟩
    exact h5 ⟨by linarith, by linarith⟩

theorem isContra_false_of_le (a : α) {b b' : Bounds α} (h : BLe b b')
    (hc : isContra a b' = false) : isContra a b = false := by
  cases hb : isContra a b with
  | false => rfl
  | true => rw [isContra_mono a h hb] at hc; exact absurd hc (by simp)

/-- bounds that are not crossed are not contradictory -/
theorem isContra_false_of_le_hi (a : α) {b : Bounds α} (h : b.lo ≤ b.hi) : isContra a b = false := by
  cases hb : isContra a b with
  | false => rfl
  | true => rw [isContra_iff] at hb; exact absurd hb.1 (not_lt.mpr h)

/-- **Arrests persist under tightening.** -/
theorem arrested_mono (kb : KB ι α) (i : ι) {s t : State ι α} (h : Le s t)
    (hc : arrested kb s i = true) : arrested kb t i = true := by
  unfold arrested at hc ⊢
  simp only [Bool.or_eq_true, List.any_eq_true] at hc ⊢
  rcases hc with (hc | ⟨j, hj, hc⟩) | ⟨j, hj, hc⟩
  · exact Or.inl (Or.inl (isContra_mono _ (h i) hc))
  · exact Or.inl (Or.inr ⟨j, hj, isContra_mono _ (h j) hc⟩)
  · exact Or.inr ⟨j, hj, isContra_mono _ (h j) hc⟩

theorem arrested_false_of_le (kb : KB ι α) (i : ι) {s t : State ι α} (h : Le s t)
    (hc : arrested kb t i = false) : arrested kb s i = false := by
  cases hb : arrested kb s i with
  | false => rfl
  | true => rw [arrested_mono kb i h hb] at hc; exact absurd hc (by simp)

/-- a state without crossed bounds arrests nothing -/
theorem arrested_false_of_uncrossed (kb : KB ι α) (i : ι) {s : State ι α}
    (h : ∀ j, (s j).lo ≤ (s j).hi) : arrested kb s i = false := by
  unfold arrested
  simp only [Bool.or_eq_false_iff, List.any_eq_false]
  refine ⟨⟨isContra_false_of_le_hi _ (h i), ?_⟩, ?_⟩
  · intro j _; simp [isContra_false_of_le_hi _ (h j)]
  · intro j _; simp [isContra_false_of_le_hi _ (h j)]

/-! ### runs -/

/-- the state component of a run is the left fold of the state components of its steps -/
theorem runSteps_fst (kb : KB ι α) (l : List (Step ι)) (s : State ι α) :
    (runSteps kb l s).1 = Chaotic.runL (fun st s => (runStep kb st s).1) l s := by
  induction l generalizing s with
  | nil => rfl
  | cons st l ih => simp only [runSteps, Chaotic.runL_cons, ih]

theorem runSteps_append (kb : KB ι α) (l₁ l₂ : List (Step ι)) (s : State ι α) :
    (runSteps kb (l₁ ++ l₂) s).1 = (runSteps kb l₂ (runSteps kb l₁ s).1).1 := by
  simp only [runSteps_fst, Chaotic.runL_append]

/-- every run from a unit state ends in a unit state -/
theorem runSteps_unit (kb : KB ι α) (l : List (Step ι)) {s : State ι α} (h : UnitState s) :
    UnitState (runSteps kb l s).1 := by
  rw [runSteps_fst]
  exact Chaotic.run_inv UnitState (fun _ => True) (ustep kb) _ (runStep_cases kb)
    (fun st s _ hs => ustep_unit kb st hs) l (fun _ _ => trivial) s h

/-- every run from a unit state only tightens -/
theorem runSteps_infl (kb : KB ι α) (l : List (Step ι)) {s : State ι α} (h : UnitState s) :
    Le s (runSteps kb l s).1 := by
  rw [runSteps_fst]
  exact Chaotic.le_run Le UnitState (fun _ => True) (ustep kb) _ Le.refl
    (fun _ _ _ => Le.trans) (runStep_cases kb) (fun st s _ hs => ustep_unit kb st hs)
    (fun st s _ hs => ustep_infl kb st hs) l (fun _ _ => trivial) s h

/-! ### quiescence: a run that reports `0` changed nothing, step by step -/

theorem aggregate_amount_nonneg (sel : BoundSel) (p n : Bounds α) : 0 ≤ (aggregate sel p n).2 := by
  unfold aggregate
  exact add_nonneg (abs_nonneg _) (abs_nonneg _)

theorem aggregate_zero (sel : BoundSel) (p n : Bounds α) (h : (aggregate sel p n).2 = 0) :
    (aggregate sel p n).1 = p := by
  unfold aggregate at h ⊢
  simp only at h ⊢
  obtain ⟨h1, h2⟩ := (add_eq_zero_iff_of_nonneg (abs_nonneg _) (abs_nonneg _)).mp h
  rw [abs_eq_zero, sub_eq_zero] at h1 h2
  cases p
  simp only [Bounds.mk.injEq]
  exact ⟨h1, h2⟩

theorem update_aggregate_zero (s : State ι α) (j : ι) (n : Bounds α)
    (h : (aggregate .both (s j) n).2 = 0) :
    Function.update s j (aggregate .both (s j) n).1 = s := by
  rw [aggregate_zero _ _ _ h, Function.update_eq_self]

theorem writeOps_amount_nonneg (es : List (Nat × ι × Bounds α)) (idx : Option Nat)
    (s : State ι α) : 0 ≤ (writeOps es idx s).2 := by
  induction es generalizing s with
  | nil => simp [writeOps]
  | cons e es ih =>
    obtain ⟨k, j, p⟩ := e
    simp only [writeOps]
    by_cases hc : idx = none ∨ idx = some k
    · simp only [hc, if_true]
      exact add_nonneg (aggregate_amount_nonneg _ _ _) (ih _)
    · simp only [hc, if_false]
      exact ih s

theorem writeOps_zero (es : List (Nat × ι × Bounds α)) (idx : Option Nat) (s : State ι α)
    (h : (writeOps es idx s).2 = 0) : (writeOps es idx s).1 = s := by
  induction es generalizing s with
  | nil => simp [writeOps]
  | cons e es ih =>
    obtain ⟨k, j, p⟩ := e
    simp only [writeOps] at h ⊢
    by_cases hc : idx = none ∨ idx = some k
    · simp only [hc, if_true] at h ⊢
      obtain ⟨h1, h2⟩ := (add_eq_zero_iff_of_nonneg (aggregate_amount_nonneg _ _ _)
        (writeOps_amount_nonneg _ _ _)).mp h
      have hu := update_aggregate_zero s j p h1
      rw [hu] at h2 ⊢
      exact ih s h2
    · simp only [hc, if_false] at h ⊢
      exact ih s h

theorem stepUp_amount_nonneg (kb : KB ι α) (i : ι) (s : State ι α) : 0 ≤ (stepUp kb i s).2 := by
  unfold stepUp
  simp only
  have conn : 0 ≤ (if arrested kb s i then (s, (0 : α)) else
      (Function.update s i (aggregate .both (s i) (actUp (kb i) s)).1,
        (aggregate .both (s i) (actUp (kb i) s)).2)).2 := by
    split
    · exact le_rfl
    · exact aggregate_amount_nonneg _ _ _
  cases (kb i).kind with
  | atom => exact le_rfl
  | neg =>
    cases (kb i).ops with
    | nil => exact le_rfl
    | cons j _ => exact aggregate_amount_nonneg _ _ _
  | and => exact conn
  | or => exact conn
  | implies => exact conn

theorem stepUp_zero (kb : KB ι α) (i : ι) (s : State ι α) (h : (stepUp kb i s).2 = 0) :
    (stepUp kb i s).1 = s := by
  unfold stepUp at h ⊢
  simp only at h ⊢
  have conn : (if arrested kb s i then (s, (0 : α)) else
      (Function.update s i (aggregate .both (s i) (actUp (kb i) s)).1,
        (aggregate .both (s i) (actUp (kb i) s)).2)).2 = 0 →
      (if arrested kb s i then (s, (0 : α)) else
      (Function.update s i (aggregate .both (s i) (actUp (kb i) s)).1,
        (aggregate .both (s i) (actUp (kb i) s)).2)).1 = s := by
    split
    · intro _; rfl
    · intro h; exact update_aggregate_zero s i _ h
  cases hk : (kb i).kind with
  | atom => rfl
  | neg =>
    rw [hk] at h
    simp only at h ⊢
    cases hops : (kb i).ops with
    | nil => rfl
    | cons j _ =>
      rw [hops] at h
      exact update_aggregate_zero s i _ h
  | and => rw [hk] at h; exact conn h
  | or => rw [hk] at h; exact conn h
  | implies => rw [hk] at h; exact conn h

theorem stepDown_amount_nonneg (kb : KB ι α) (i : ι) (idx : Option Nat) (s : State ι α) :
    0 ≤ (stepDown kb i idx s).2 := by
  unfold stepDown
  simp only
  have conn : 0 ≤ (if arrested kb s i then (s, (0 : α)) else
      writeOps (enumFrom 0 (List.zip (kb i).ops (actDown (kb i) (s i) s))) idx s).2 := by
    split
    · exact le_rfl
    · exact writeOps_amount_nonneg _ _ _
  cases (kb i).kind with
  | atom => exact le_rfl
  | neg =>
    cases (kb i).ops with
    | nil => exact le_rfl
    | cons j _ => exact aggregate_amount_nonneg _ _ _
  | and => exact conn
  | or => exact conn
  | implies => exact conn

theorem stepDown_zero (kb : KB ι α) (i : ι) (idx : Option Nat) (s : State ι α)
    (h : (stepDown kb i idx s).2 = 0) : (stepDown kb i idx s).1 = s := by
  unfold stepDown at h ⊢
  simp only at h ⊢
  have conn : (if arrested kb s i then (s, (0 : α)) else
      writeOps (enumFrom 0 (List.zip (kb i).ops (actDown (kb i) (s i) s))) idx s).2 = 0 →
      (if arrested kb s i then (s, (0 : α)) else
      writeOps (enumFrom 0 (List.zip (kb i).ops (actDown (kb i) (s i) s))) idx s).1 = s := by
    split
    · intro _; rfl
    · intro h; exact writeOps_zero _ _ _ h
  cases hk : (kb i).kind with
  | atom => rfl
  | neg =>
    rw [hk] at h
    simp only at h ⊢
    cases hops : (kb i).ops with
    | nil => rfl
    | cons j _ =>
      rw [hops] at h
      exact update_aggregate_zero s j _ h
  | and => rw [hk] at h; exact conn h
  | or => rw [hk] at h; exact conn h
  | implies => rw [hk] at h; exact conn h

theorem runStep_amount_nonneg (kb : KB ι α) (st : Step ι) (s : State ι α) :
    0 ≤ (runStep kb st s).2 := by
  cases st with
  | up i => exact stepUp_amount_nonneg kb i s
  | down i idx => exact stepDown_amount_nonneg kb i idx s

theorem runStep_zero (kb : KB ι α) (st : Step ι) (s : State ι α) (h : (runStep kb st s).2 = 0) :
    (runStep kb st s).1 = s := by
  cases st with
  | up i => exact stepUp_zero kb i s h
  | down i idx => exact stepDown_zero kb i idx s h

theorem runSteps_amount_nonneg (kb : KB ι α) (l : List (Step ι)) (s : State ι α) :
    0 ≤ (runSteps kb l s).2 := by
  induction l generalizing s with
  | nil => simp [runSteps]
  | cons st l ih =>
    simp only [runSteps]
    exact add_nonneg (runStep_amount_nonneg kb st s) (ih _)

/-- a run that reports `0` left the state alone, and so does every one of its steps -/
theorem runSteps_zero (kb : KB ι α) (l : List (Step ι)) (s : State ι α)
    (h : (runSteps kb l s).2 = 0) :
    (runSteps kb l s).1 = s ∧ ∀ st ∈ l, (runStep kb st s).1 = s := by
  induction l generalizing s with
  | nil => simp [runSteps]
  | cons st l ih =>
    simp only [runSteps] at h ⊢
    obtain ⟨h1, h2⟩ := (add_eq_zero_iff_of_nonneg (runStep_amount_nonneg kb st s)
      (runSteps_amount_nonneg kb l _)).mp h
    have hs := runStep_zero kb st s h1
    rw [hs] at h2 ⊢
    obtain ⟨e, hall⟩ := ih s h2
    refine ⟨e, ?_⟩
    intro st' hst'
    rcases List.mem_cons.mp hst' with rfl | hm
    · exact hs
    · exact hall st' hm

/-! ### `infer` as a run -/

/-- the primitive steps of one reasoning step of `infer` -/
def sweepSteps (kb : KB ι α) (cfg : InferCfg ι α) : List (Step ι) :=
  passSteps kb cfg.up ++ passSteps kb cfg.down

theorem sweep_fst (kb : KB ι α) (cfg : InferCfg ι α) (s : State ι α) :
    (sweep kb cfg s).1 = (runSteps kb (sweepSteps kb cfg) s).1 := by
  unfold sweep sweepSteps runPass
  rw [runSteps_append]

theorem sweep_amount_zero (kb : KB ι α) (cfg : InferCfg ι α) (s : State ι α)
    (h : (sweep kb cfg s).2 = 0) :
    (sweep kb cfg s).1 = s ∧ ∀ st ∈ sweepSteps kb cfg, (runStep kb st s).1 = s := by
  unfold sweep runPass at h
  simp only at h
  obtain ⟨h1, h2⟩ := (add_eq_zero_iff_of_nonneg (runSteps_amount_nonneg kb _ _)
    (runSteps_amount_nonneg kb _ _)).mp h
  obtain ⟨e1, a1⟩ := runSteps_zero kb _ _ h1
  rw [e1] at h2
  obtain ⟨e2, a2⟩ := runSteps_zero kb _ _ h2
  constructor
  · unfold sweep runPass
    simp only
    rw [e1, e2]
  · intro st hst
    unfold sweepSteps at hst
    rcases List.mem_append.mp hst with hm | hm
    · exact a1 st hm
    · exact a2 st hm

theorem sweep_amount_nonneg (kb : KB ι α) (cfg : InferCfg ι α) (s : State ι α) :
    0 ≤ (sweep kb cfg s).2 := by
  unfold sweep runPass
  exact add_nonneg (runSteps_amount_nonneg kb _ _) (runSteps_amount_nonneg kb _ _)

/-- the final state of `infer` is the end state of a run of whole sweeps -/
theorem infer_state_eq_run (kb : KB ι α) (cfg : InferCfg ι α) (fuel : Nat) (s : State ι α) :
    ∃ k, (infer kb cfg fuel s).state
      = (runSteps kb (List.replicate k (sweepSteps kb cfg)).flatten s).1 := by
  induction fuel generalizing s with
  | zero => exact ⟨0, rfl⟩
  | succ n ih =>
    unfold infer
    split
    · exact ⟨0, rfl⟩
    · simp only
      split
      · refine ⟨1, ?_⟩
        simp only [List.replicate_one, List.flatten_singleton]
        exact sweep_fst kb cfg s
      · obtain ⟨k, hk⟩ := ih (sweep kb cfg s).1
        refine ⟨k + 1, ?_⟩
        simp only [List.replicate_succ, List.flatten_cons]
        rw [runSteps_append, ← sweep_fst, hk]

/-- with threshold `0`, an `infer` run that reports convergence ends in a state that no step of
the sweep changes -/
theorem infer_converged_fix (kb : KB ι α) (cfg : InferCfg ι α) (heps : cfg.eps ≤ 0) (fuel : Nat)
    (s : State ι α) (hc : (infer kb cfg fuel s).converged = true) :
    ∀ st ∈ sweepSteps kb cfg,
      (runStep kb st (infer kb cfg fuel s).state).1 = (infer kb cfg fuel s).state := by
  induction fuel generalizing s with
  | zero => simp [infer] at hc
  | succ n ih =>
    unfold infer at hc ⊢
    split at hc
    · simp at hc
    · rename_i hq
      simp only [hq]
      simp only at hc ⊢
      split at hc
      · rename_i hle
        simp only [hle, if_true]
        have hz : (sweep kb cfg s).2 = 0 :=
          le_antisymm (le_trans hle heps) (sweep_amount_nonneg kb cfg s)
        obtain ⟨e, hall⟩ := sweep_amount_zero kb cfg s hz
        rw [e]
        exact hall
      · rename_i hle
        simp only [hle, if_false]
        exact ih _ hc

end Mono
end LNN
