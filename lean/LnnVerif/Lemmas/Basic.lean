/-
Helper lemmas shared by the range (C17), monotonicity (C05), reported-amount (C13) and
termination (C06) properties.

The central device is the relation `Writes s s' a`: the state `s'` is reached from `s` by a finite
sequence of single-row aggregations `s j := (aggregate sel (s j) p).1` whose reported amounts sum
to `a`. Every state change of the engine (`stepUp`, `stepDown`/`writeOps`, `runSteps`, `runPass`,
`sweep`, `infer`) is such a sequence — whatever the knowledge base, the proposals and the order —
so range, monotonicity, "zero iff unchanged" and the potential identity are proved once, for
`Writes`, and transferred.
-/
import LnnVerif.Model.PropEngine
import LnnVerif.Lemmas.Arith
import Mathlib.Tactic.Tauto

set_option linter.unusedSectionVars false

namespace LNN

variable {ι : Type} [DecidableEq ι] {α : Type} [Field α] [LinearOrder α] [IsStrictOrderedRing α]

/-! ### vocabulary -/

/-- both bounds lie in `[0,1]` (nothing is said about their order) -/
def InUnit (b : Bounds α) : Prop := 0 ≤ b.lo ∧ b.lo ≤ 1 ∧ 0 ≤ b.hi ∧ b.hi ≤ 1

def StateInUnit (s : State ι α) : Prop := ∀ i, InUnit (s i)

/-- `t` is at least as tight as `s` at every node -/
def Tighter (s t : State ι α) : Prop := ∀ i, (s i).lo ≤ (t i).lo ∧ (t i).hi ≤ (s i).hi

/-- the potential: summed interval widths `U - L` over a list of nodes (a width is negative for
crossed bounds) -/
def Phi (nodes : List ι) (s : State ι α) : α := (nodes.map fun i => (s i).hi - (s i).lo).sum

theorem Bounds.ext' {a b : Bounds α} (h1 : a.lo = b.lo) (h2 : a.hi = b.hi) : a = b := by
  cases a; cases b; simp_all

theorem Tighter.refl (s : State ι α) : Tighter s s := fun _ => ⟨le_rfl, le_rfl⟩

theorem Tighter.trans {s t u : State ι α} (h1 : Tighter s t) (h2 : Tighter t u) : Tighter s u :=
  fun i => ⟨le_trans (h1 i).1 (h2 i).1, le_trans (h2 i).2 (h1 i).2⟩

theorem Tighter.antisymm {s t : State ι α} (h1 : Tighter s t) (h2 : Tighter t s) : s = t :=
  funext fun i => Bounds.ext' (le_antisymm (h1 i).1 (h2 i).1) (le_antisymm (h2 i).2 (h1 i).2)

/-- a row that is the same at both ends of a tightening chain is the same in the middle -/
theorem Tighter.squeeze {s t u : State ι α} (h1 : Tighter s t) (h2 : Tighter t u) {k : ι}
    (h : u k = s k) : t k = s k := by
  have hl : (u k).lo = (s k).lo := by rw [h]
  have hh : (u k).hi = (s k).hi := by rw [h]
  apply Bounds.ext'
  · exact le_antisymm (by rw [← hl]; exact (h2 k).1) (h1 k).1
  · exact le_antisymm (h1 k).2 (by rw [← hh]; exact (h2 k).2)

theorem Tighter.squeeze_state {s t u : State ι α} (h1 : Tighter s t) (h2 : Tighter t u)
    (h : u = s) : t = s :=
  funext fun k => h1.squeeze h2 (by rw [h])

/-! ### one aggregation -/

theorem aggregate_inUnit (sel : BoundSel) (prev new : Bounds α) :
    InUnit (aggregate sel prev new).1 :=
  ⟨clamp01_nonneg _, clamp01_le_one _, clamp01_nonneg _, clamp01_le_one _⟩

theorem aggregate_tightens (sel : BoundSel) {prev : Bounds α} (new : Bounds α) (h : InUnit prev) :
    prev.lo ≤ (aggregate sel prev new).1.lo ∧ (aggregate sel prev new).1.hi ≤ prev.hi := by
  obtain ⟨_, h1, h2, _⟩ := h
  unfold aggregate
  simp only
  constructor
  · apply le_clamp01_of_le h1
    split
    · exact le_rfl
    · exact le_max_left _ _
  · apply clamp01_le_of_le h2
    split
    · exact le_rfl
    · exact min_le_left _ _

theorem aggregate_amount_def (sel : BoundSel) (prev new : Bounds α) :
    (aggregate sel prev new).2 = |(aggregate sel prev new).1.lo - prev.lo|
      + |(aggregate sel prev new).1.hi - prev.hi| := rfl

theorem aggregate_amount_nonneg (sel : BoundSel) (prev new : Bounds α) :
    0 ≤ (aggregate sel prev new).2 := by
  rw [aggregate_amount_def]; exact add_nonneg (abs_nonneg _) (abs_nonneg _)

theorem aggregate_amount_zero_iff (sel : BoundSel) (prev new : Bounds α) :
    (aggregate sel prev new).2 = 0 ↔ (aggregate sel prev new).1 = prev := by
  rw [aggregate_amount_def]
  constructor
  · intro h
    have h' := (add_eq_zero_iff_of_nonneg (abs_nonneg _) (abs_nonneg _)).mp h
    exact Bounds.ext' (sub_eq_zero.mp (abs_eq_zero.mp h'.1)) (sub_eq_zero.mp (abs_eq_zero.mp h'.2))
  · intro h
    rw [h]; simp

/-- on bounds in `[0,1]` the reported amount is exactly the loss of width -/
theorem aggregate_amount_eq (sel : BoundSel) {prev : Bounds α} (new : Bounds α) (h : InUnit prev) :
    (aggregate sel prev new).2
      = (prev.hi - prev.lo) - ((aggregate sel prev new).1.hi - (aggregate sel prev new).1.lo) := by
  obtain ⟨h1, h2⟩ := aggregate_tightens sel new h
  rw [aggregate_amount_def, abs_of_nonneg (by linarith), abs_of_nonpos (by linarith)]
  ring

/-! ### updates -/

theorem StateInUnit.update {s : State ι α} (hs : StateInUnit s) (j : ι) {b : Bounds α}
    (hb : InUnit b) : StateInUnit (Function.update s j b) := by
  intro k
  by_cases hk : k = j
  · subst hk; simpa using hb
  · simpa [Function.update_of_ne hk] using hs k

theorem Tighter.update (s : State ι α) (j : ι) {b : Bounds α}
    (hb : (s j).lo ≤ b.lo ∧ b.hi ≤ (s j).hi) : Tighter s (Function.update s j b) := by
  intro k
  by_cases hk : k = j
  · subst hk; simpa using hb
  · simp [Function.update_of_ne hk]

theorem update_eq_self_iff' (s : State ι α) (j : ι) (b : Bounds α) :
    Function.update s j b = s ↔ b = s j := by
  constructor
  · intro h
    have := congrFun h j
    simpa using this
  · intro h
    rw [h]; exact Function.update_eq_self j s

/-! ### the potential -/

theorem Phi_update_of_not_mem (nodes : List ι) (s : State ι α) (j : ι) (b : Bounds α)
    (h : j ∉ nodes) : Phi nodes (Function.update s j b) = Phi nodes s := by
  unfold Phi
  congr 1
  apply List.map_congr_left
  intro i hi
  have : i ≠ j := fun e => h (e ▸ hi)
  simp [Function.update_of_ne this]

theorem Phi_update_of_mem (nodes : List ι) (hnd : nodes.Nodup) (s : State ι α) (j : ι)
    (b : Bounds α) (h : j ∈ nodes) :
    Phi nodes (Function.update s j b) = Phi nodes s - ((s j).hi - (s j).lo) + (b.hi - b.lo) := by
  induction nodes with
  | nil => simp at h
  | cons i rest ih =>
    rw [List.nodup_cons] at hnd
    by_cases hij : i = j
    · subst hij
      have := Phi_update_of_not_mem rest s i b hnd.1
      simp only [Phi, List.map_cons, List.sum_cons, Function.update_self] at this ⊢
      rw [this]; ring
    · have hj : j ∈ rest := by
        rcases List.mem_cons.mp h with e | e
        · exact absurd e.symm hij
        · exact e
      have := ih hnd.2 hj
      simp only [Phi, List.map_cons, List.sum_cons, Function.update_of_ne hij] at this ⊢
      rw [this]; ring

theorem Phi_bounds (nodes : List ι) (s : State ι α) (hs : StateInUnit s) :
    -(nodes.length : α) ≤ Phi nodes s ∧ Phi nodes s ≤ nodes.length := by
  induction nodes with
  | nil => simp [Phi]
  | cons i rest ih =>
    obtain ⟨h0, h1, h2, h3⟩ := hs i
    simp only [Phi, List.map_cons, List.sum_cons, List.length_cons, Nat.cast_add, Nat.cast_one]
      at ih ⊢
    constructor <;> linarith [ih.1, ih.2]

/-- states that agree on `nodes` have the same potential over `nodes` -/
theorem Phi_congr (nodes : List ι) (s t : State ι α) (h : ∀ i ∈ nodes, s i = t i) :
    Phi nodes s = Phi nodes t := by
  unfold Phi
  congr 1
  apply List.map_congr_left
  intro i hi
  rw [h i hi]

/-! ### write sequences -/

/-- `Writes s s' a`: `s'` is obtained from `s` by finitely many single-row aggregations whose
reported amounts sum to `a`. -/
inductive Writes : State ι α → State ι α → α → Prop
  | refl (s : State ι α) : Writes s s 0
  | step (s s' : State ι α) (j : ι) (sel : BoundSel) (p : Bounds α) (a : α) :
      Writes (Function.update s j (aggregate sel (s j) p).1) s' a →
      Writes s s' ((aggregate sel (s j) p).2 + a)

theorem Writes.cast {s s' : State ι α} {a b : α} (h : Writes s s' a) (e : a = b) :
    Writes s s' b := e ▸ h

theorem Writes.single (s : State ι α) (j : ι) (sel : BoundSel) (p : Bounds α) :
    Writes s (Function.update s j (aggregate sel (s j) p).1) (aggregate sel (s j) p).2 :=
  (Writes.step s _ j sel p 0 (Writes.refl _)).cast (add_zero _)

theorem Writes.trans {s t u : State ι α} {a b : α} (h1 : Writes s t a) (h2 : Writes t u b) :
    Writes s u (a + b) := by
  induction h1 with
  | refl s => exact h2.cast (zero_add _).symm
  | step s s' j sel p a _ ih => exact (Writes.step s u j sel p _ (ih h2)).cast (add_assoc _ _ _).symm

theorem Writes.nonneg {s s' : State ι α} {a : α} (h : Writes s s' a) : 0 ≤ a := by
  induction h with
  | refl s => exact le_rfl
  | step s s' j sel p a _ ih => exact add_nonneg (aggregate_amount_nonneg _ _ _) ih

theorem Writes.inUnit {s s' : State ι α} {a : α} (h : Writes s s' a) (hs : StateInUnit s) :
    StateInUnit s' := by
  induction h with
  | refl s => exact hs
  | step s s' j sel p a _ ih => exact ih (hs.update j (aggregate_inUnit _ _ _))

theorem Writes.tighter {s s' : State ι α} {a : α} (h : Writes s s' a) (hs : StateInUnit s) :
    Tighter s s' := by
  induction h with
  | refl s => exact Tighter.refl s
  | step s s' j sel p a _ ih =>
    exact (Tighter.update s j (aggregate_tightens sel p (hs j))).trans
      (ih (hs.update j (aggregate_inUnit _ _ _)))

/-- the reported amount is zero exactly when nothing changed -/
theorem Writes.zero_iff {s s' : State ι α} {a : α} (h : Writes s s' a) (hs : StateInUnit s) :
    a = 0 ↔ s' = s := by
  induction h with
  | refl s => simp
  | step s s' j sel p a hw ih =>
    have hs1 := hs.update j (aggregate_inUnit sel (s j) p)
    have ht1 := Tighter.update s j (aggregate_tightens sel p (hs j))
    have ht2 := hw.tighter hs1
    constructor
    · intro h0
      have h' := (add_eq_zero_iff_of_nonneg (aggregate_amount_nonneg _ _ _) hw.nonneg).mp h0
      have e1 : Function.update s j (aggregate sel (s j) p).1 = s :=
        (update_eq_self_iff' s j _).mpr ((aggregate_amount_zero_iff _ _ _).mp h'.1)
      rw [(ih hs1).mp h'.2, e1]
    · intro he
      have e1 : Function.update s j (aggregate sel (s j) p).1 = s := ht1.squeeze_state ht2 he
      have e2 : (aggregate sel (s j) p).2 = 0 :=
        (aggregate_amount_zero_iff _ _ _).mpr ((update_eq_self_iff' s j _).mp e1)
      have e3 : a = 0 := (ih hs1).mpr (by rw [he, e1])
      rw [e2, e3, add_zero]

/-- the reported amount is at least the loss of potential over any duplicate-free node list -/
theorem Writes.potential_le {s s' : State ι α} {a : α} (h : Writes s s' a) (hs : StateInUnit s)
    (nodes : List ι) (hnd : nodes.Nodup) : Phi nodes s - Phi nodes s' ≤ a := by
  induction h with
  | refl s => simp
  | step s s' j sel p a hw ih =>
    have hs1 := hs.update j (aggregate_inUnit sel (s j) p)
    have h1 := ih hs1
    by_cases hj : j ∈ nodes
    · have := Phi_update_of_mem nodes hnd s j (aggregate sel (s j) p).1 hj
      have := aggregate_amount_eq sel p (hs j)
      linarith
    · have := Phi_update_of_not_mem nodes s j (aggregate sel (s j) p).1 hj
      have := aggregate_amount_nonneg sel (s j) p
      linarith

/-- the reported amount is exactly the loss of potential over a duplicate-free node list outside
which nothing changed -/
theorem Writes.potential_eq {s s' : State ι α} {a : α} (h : Writes s s' a) (hs : StateInUnit s)
    (nodes : List ι) (hnd : nodes.Nodup) (hframe : ∀ j, j ∉ nodes → s' j = s j) :
    a = Phi nodes s - Phi nodes s' := by
  induction h with
  | refl s => simp
  | step s s' j sel p a hw ih =>
    have hs1 := hs.update j (aggregate_inUnit sel (s j) p)
    have ht1 := Tighter.update s j (aggregate_tightens sel p (hs j))
    have ht2 := hw.tighter hs1
    have hmid : ∀ k, k ∉ nodes → Function.update s j (aggregate sel (s j) p).1 k = s k :=
      fun k hk => ht1.squeeze ht2 (hframe k hk)
    have h1 := ih hs1 (fun k hk => by rw [hframe k hk, hmid k hk])
    by_cases hj : j ∈ nodes
    · have := Phi_update_of_mem nodes hnd s j (aggregate sel (s j) p).1 hj
      have := aggregate_amount_eq sel p (hs j)
      linarith
    · have := Phi_update_of_not_mem nodes s j (aggregate sel (s j) p).1 hj
      have e : (aggregate sel (s j) p).1 = s j := by simpa using hmid j hj
      have := (aggregate_amount_zero_iff sel (s j) p).mpr e
      linarith

/-! ### every engine function is a write sequence -/

theorem stepUp_writes (kb : KB ι α) (i : ι) (s : State ι α) :
    Writes s (stepUp kb i s).1 (stepUp kb i s).2 := by
  unfold stepUp
  simp only
  split
  · exact Writes.refl s
  · split
    · exact Writes.single ..
    · exact Writes.refl s
  · split
    · exact Writes.refl s
    · exact Writes.single ..

theorem writeOps_writes (entries : List (Nat × ι × Bounds α)) (idx : Option Nat) (s : State ι α) :
    Writes s (writeOps entries idx s).1 (writeOps entries idx s).2 := by
  induction entries generalizing s with
  | nil => exact Writes.refl s
  | cons e rest ih =>
    obtain ⟨k, j, p⟩ := e
    unfold writeOps
    split
    · exact Writes.step _ _ _ _ _ _ (ih _)
    · exact ih s

theorem stepDown_writes (kb : KB ι α) (i : ι) (idx : Option Nat) (s : State ι α) :
    Writes s (stepDown kb i idx s).1 (stepDown kb i idx s).2 := by
  unfold stepDown
  simp only
  split
  · exact Writes.refl s
  · split
    · exact Writes.single ..
    · exact Writes.refl s
  · split
    · exact Writes.refl s
    · exact writeOps_writes _ _ _

theorem runStep_writes (kb : KB ι α) (st : Step ι) (s : State ι α) :
    Writes s (runStep kb st s).1 (runStep kb st s).2 := by
  cases st with
  | up i => exact stepUp_writes kb i s
  | down i idx => exact stepDown_writes kb i idx s

theorem runSteps_writes (kb : KB ι α) (steps : List (Step ι)) (s : State ι α) :
    Writes s (runSteps kb steps s).1 (runSteps kb steps s).2 := by
  induction steps generalizing s with
  | nil => exact Writes.refl s
  | cons st rest ih => exact (runStep_writes kb st s).trans (ih _)

theorem runPass_writes (kb : KB ι α) (sched : List (Call ι)) (s : State ι α) :
    Writes s (runPass kb sched s).1 (runPass kb sched s).2 :=
  runSteps_writes kb _ s

theorem sweep_writes (kb : KB ι α) (cfg : InferCfg ι α) (s : State ι α) :
    Writes s (sweep kb cfg s).1 (sweep kb cfg s).2 :=
  (runPass_writes kb cfg.up s).trans (runPass_writes kb cfg.down _)

theorem infer_writes (kb : KB ι α) (cfg : InferCfg ι α) (fuel : Nat) (s : State ι α) :
    Writes s (infer kb cfg fuel s).state (infer kb cfg fuel s).total := by
  induction fuel generalizing s with
  | zero => exact Writes.refl s
  | succ n ih =>
    unfold infer
    split
    · exact Writes.refl s
    · simp only
      split
      · exact sweep_writes kb cfg s
      · exact (sweep_writes kb cfg s).trans (ih _)

theorem runOp_writes (kb : KB ι α) (o : Op ι α) (s : State ι α) : ∃ a, Writes s (runOp kb o s) a := by
  cases o with
  | call c => exact ⟨_, runSteps_writes kb _ s⟩
  | pass sched => exact ⟨_, runPass_writes kb sched s⟩
  | infer cfg fuel => exact ⟨_, infer_writes kb cfg fuel s⟩

theorem run_writes (kb : KB ι α) (ops : List (Op ι α)) (s : State ι α) :
    ∃ a, Writes s (run kb ops s) a := by
  induction ops generalizing s with
  | nil => exact ⟨0, Writes.refl s⟩
  | cons o rest ih =>
    obtain ⟨a, ha⟩ := runOp_writes kb o s
    obtain ⟨b, hb⟩ := ih (runOp kb o s)
    exact ⟨a + b, ha.trans hb⟩

/-! ### fixpoints of step lists -/

/-- a list of steps leaves an in-range state unchanged exactly when each of its steps does -/
theorem runSteps_eq_self_iff (kb : KB ι α) (steps : List (Step ι)) (s : State ι α)
    (hs : StateInUnit s) :
    (runSteps kb steps s).1 = s ↔ ∀ st ∈ steps, (runStep kb st s).1 = s := by
  induction steps with
  | nil => simp [runSteps]
  | cons st rest ih =>
    have hw := runStep_writes kb st s
    simp only [runSteps, List.mem_cons, forall_eq_or_imp]
    constructor
    · intro h
      have e : (runStep kb st s).1 = s :=
        (hw.tighter hs).squeeze_state ((runSteps_writes kb rest _).tighter (hw.inUnit hs)) h
      rw [e] at h
      exact ⟨e, ih.mp h⟩
    · rintro ⟨e, h⟩
      rw [e]; exact ih.mpr h

/-! ### which rows a step can write -/

/-- the rows a primitive step may write: the node itself (upward), its operands (downward) -/
def Step.targets (kb : KB ι α) : Step ι → List ι
  | .up i => [i]
  | .down i _ => (kb i).ops

theorem enumFrom_mem_snd {β : Type} (l : List β) (k : Nat) (e : Nat × β) (h : e ∈ enumFrom k l) :
    e.2 ∈ l := by
  induction l generalizing k with
  | nil => simp [enumFrom] at h
  | cons x xs ih =>
    simp only [enumFrom, List.mem_cons] at h
    rcases h with rfl | h
    · simp
    · exact List.mem_cons_of_mem _ (ih _ h)

theorem writeOps_frame (entries : List (Nat × ι × Bounds α)) (idx : Option Nat) (s : State ι α)
    (j : ι) (h : ∀ e ∈ entries, e.2.1 ≠ j) : (writeOps entries idx s).1 j = s j := by
  induction entries generalizing s with
  | nil => rfl
  | cons e rest ih =>
    obtain ⟨k, j', p⟩ := e
    have hj : j ≠ j' := fun e' => h (k, j', p) (List.mem_cons_self ..) e'.symm
    have hrest : ∀ e ∈ rest, e.2.1 ≠ j := fun e he => h e (List.mem_cons_of_mem _ he)
    unfold writeOps
    split
    · simp only
      rw [ih _ hrest, Function.update_of_ne hj]
    · exact ih _ hrest

theorem stepUp_frame (kb : KB ι α) (i : ι) (s : State ι α) (j : ι) (h : j ≠ i) :
    (stepUp kb i s).1 j = s j := by
  unfold stepUp
  simp only
  split
  · rfl
  · split
    · simp [Function.update_of_ne h]
    · rfl
  · split
    · rfl
    · simp [Function.update_of_ne h]

theorem stepDown_frame (kb : KB ι α) (i : ι) (idx : Option Nat) (s : State ι α) (j : ι)
    (h : j ∉ (kb i).ops) : (stepDown kb i idx s).1 j = s j := by
  unfold stepDown
  simp only
  split
  · rfl
  · split
    next j' rest hops =>
      have : j ≠ j' := fun e => h (by rw [hops, e]; exact List.mem_cons_self ..)
      simp [Function.update_of_ne this]
    · rfl
  · split
    · rfl
    · apply writeOps_frame
      intro e he e'
      have := enumFrom_mem_snd _ _ e he
      exact h (e' ▸ (List.of_mem_zip this).1)

theorem runStep_frame (kb : KB ι α) (st : Step ι) (s : State ι α) (j : ι)
    (h : j ∉ st.targets kb) : (runStep kb st s).1 j = s j := by
  cases st with
  | up i => exact stepUp_frame kb i s j (by simpa [Step.targets] using h)
  | down i idx => exact stepDown_frame kb i idx s j h

theorem runSteps_frame (kb : KB ι α) (steps : List (Step ι)) (s : State ι α) (j : ι)
    (h : ∀ st ∈ steps, j ∉ st.targets kb) : (runSteps kb steps s).1 j = s j := by
  induction steps generalizing s with
  | nil => rfl
  | cons st rest ih =>
    simp only [runSteps]
    rw [ih _ (fun st' h' => h st' (List.mem_cons_of_mem _ h')),
      runStep_frame kb st s j (h st (List.mem_cons_self ..))]

/-! ### classical regions, contradiction, state -/

theorem region_def (a y : α) : region a y =
    if a ≤ y then 5 else if 1/2 < y ∧ y < a then 4 else if y = 1/2 then 3
    else if 1 - a < y ∧ y < 1/2 then 2 else if y ≤ 1 - a then 1 else 0 := rfl

theorem region_cases (a y : α) :
    (region a y = 1 ∧ y ≤ 1 - a) ∨ (region a y = 2 ∧ 1 - a < y ∧ y < 1/2) ∨
    (region a y = 3 ∧ y = 1/2) ∨ (region a y = 4 ∧ 1/2 < y ∧ y < a) ∨ (region a y = 5 ∧ a ≤ y) := by
  rw [region_def]
  by_cases h5 : a ≤ y
  · rw [if_pos h5]; exact Or.inr (Or.inr (Or.inr (Or.inr ⟨rfl, h5⟩)))
  · rw [if_neg h5]
    have h5' : y < a := not_le.mp h5
    rcases lt_trichotomy y (1/2) with h | h | h
    · rw [if_neg (fun h' => absurd h'.1 (not_lt.mpr h.le)), if_neg (ne_of_lt h)]
      by_cases h1 : y ≤ 1 - a
      · rw [if_neg (fun h' => absurd h'.1 (not_lt.mpr h1)), if_pos h1]
        exact Or.inl ⟨rfl, h1⟩
      · have h2 : 1 - a < y := not_le.mp h1
        rw [if_pos ⟨h2, h⟩]
        exact Or.inr (Or.inl ⟨rfl, h2, h⟩)
    · rw [if_neg (fun h' => absurd h'.1 (by rw [h]; exact lt_irrefl _)), if_pos h]
      exact Or.inr (Or.inr (Or.inl ⟨rfl, h⟩))
    · rw [if_pos ⟨h, h5'⟩]
      exact Or.inr (Or.inr (Or.inr (Or.inl ⟨rfl, h, h5'⟩)))

local macro "region_iff" ha:ident y:ident : tactic =>
  `(tactic| (rcases region_cases _ $y with ⟨h, c⟩ | ⟨h, c1, c2⟩ | ⟨h, c⟩ | ⟨h, c1, c2⟩ | ⟨h, c⟩ <;> rw [h] <;>
    constructor <;> intro h' <;>
    first | assumption | rfl | (exfalso; omega) | (exfalso; linarith [$ha:ident]) | (exfalso; linarith [$ha:ident, h'.1, h'.2]) | exact ⟨c1, c2⟩))

theorem region_eq_one_iff {a : α} (ha : 1/2 < a) (y : α) : region a y = 1 ↔ y ≤ 1 - a := by
  region_iff ha y
theorem region_eq_two_iff {a : α} (ha : 1/2 < a) (y : α) : region a y = 2 ↔ 1 - a < y ∧ y < 1/2 := by
  region_iff ha y
theorem region_eq_three_iff {a : α} (ha : 1/2 < a) (y : α) : region a y = 3 ↔ y = 1/2 := by
  region_iff ha y
theorem region_eq_four_iff {a : α} (ha : 1/2 < a) (y : α) : region a y = 4 ↔ 1/2 < y ∧ y < a := by
  region_iff ha y
theorem region_eq_five_iff {a : α} (ha : 1/2 < a) (y : α) : region a y = 5 ↔ a ≤ y := by
  region_iff ha y

theorem region_lt_six (a y : α) : region a y < 6 := by
  rcases region_cases a y with ⟨h, _⟩ | ⟨h, _⟩ | ⟨h, _⟩ | ⟨h, _⟩ | ⟨h, _⟩ <;> rw [h] <;> decide

theorem region_range (a y : α) : 1 ≤ region a y ∧ region a y ≤ 5 := by
  rcases region_cases a y with ⟨h, _⟩ | ⟨h, _⟩ | ⟨h, _⟩ | ⟨h, _⟩ | ⟨h, _⟩ <;> rw [h] <;> decide

/-- regions are ordered like the values -/
theorem region_lt_imp {a : α} (ha : 1/2 < a) {x y : α} (h : region a x < region a y) : x < y := by
  rcases region_cases a x with ⟨hx, c⟩ | ⟨hx, c1, c2⟩ | ⟨hx, c⟩ | ⟨hx, c1, c2⟩ | ⟨hx, c⟩ <;>
  rcases region_cases a y with ⟨hy, d⟩ | ⟨hy, d1, d2⟩ | ⟨hy, d⟩ | ⟨hy, d1, d2⟩ | ⟨hy, d⟩ <;>
  rw [hx, hy] at h <;> first | (exfalso; omega) | linarith [ha]

theorem isContra_iff_region (a : α) (b : Bounds α) :
    isContra a b = true ↔ (b.lo > b.hi ∧ ¬ (region a b.lo = 1 ∧ region a b.hi = 1)
      ∧ ¬ (region a b.lo = 5 ∧ region a b.hi = 5)) := by
  unfold isContra
  simp only [Bool.and_eq_true, decide_eq_true_eq, Bool.not_eq_true', Bool.and_eq_false_iff,
    beq_eq_false_iff_ne, ne_eq]
  tauto

theorem isContra_iff {a : α} (ha : 1/2 < a) (b : Bounds α) :
    isContra a b = true ↔ (b.lo > b.hi ∧ ¬ (b.lo ≤ 1 - a ∧ b.hi ≤ 1 - a) ∧ ¬ (a ≤ b.lo ∧ a ≤ b.hi)) := by
  rw [isContra_iff_region, region_eq_one_iff ha, region_eq_one_iff ha, region_eq_five_iff ha,
    region_eq_five_iff ha]

theorem isContra_eq_false_iff {a : α} (ha : 1/2 < a) (b : Bounds α) :
    isContra a b = false ↔ (b.lo ≤ b.hi ∨ (b.lo ≤ 1 - a ∧ b.hi ≤ 1 - a) ∨ (a ≤ b.lo ∧ a ≤ b.hi)) := by
  rw [← Bool.not_eq_true, isContra_iff ha, gt_iff_lt, ← not_le]
  tauto

/-- the `np.where` cascade of `state` without the final contradiction override -/
def stTable (l u : Nat) : St :=
  let r := St.bad
  let r := if l == 1 && u == 5 then St.U else r
  let r := if l == 1 && u == 1 then St.F else r
  let r := if l == 5 && u == 5 then St.T else r
  let r := if l == 3 && u == 3 then St.eU else r
  let r := if (l == 1 || l == 2) && u == 2 then St.aF else r
  let r := if l == 4 && (u == 4 || u == 5) then St.aT else r
  if (l == 1 && (u == 3 || u == 4)) || (l == 2 && (u == 3 || u == 4 || u == 5))
              || (l == 3 && (u == 4 || u == 5)) then St.aU else r

theorem state_def (a : α) (b : Bounds α) :
    state a b = if isContra a b then St.C else stTable (region a b.lo) (region a b.hi) := rfl

theorem stTable_ne_C (l u : Nat) : stTable l u ≠ St.C := by
  unfold stTable
  simp only
  split_ifs <;> simp

private theorem stTable_fin : ∀ l u : Fin 6,
    (stTable l u = St.U ↔ (l.val = 1 ∧ u.val = 5)) ∧
    (stTable l u = St.F ↔ (l.val = 1 ∧ u.val = 1)) ∧
    (stTable l u = St.T ↔ (l.val = 5 ∧ u.val = 5)) ∧
    (stTable l u = St.eU ↔ (l.val = 3 ∧ u.val = 3)) ∧
    (stTable l u = St.aF ↔ ((l.val = 1 ∨ l.val = 2) ∧ u.val = 2)) ∧
    (stTable l u = St.aT ↔ (l.val = 4 ∧ (u.val = 4 ∨ u.val = 5))) ∧
    (stTable l u = St.aU ↔
      ((l.val = 1 ∧ (u.val = 3 ∨ u.val = 4)) ∨ (l.val = 2 ∧ (u.val = 3 ∨ u.val = 4 ∨ u.val = 5))
        ∨ (l.val = 3 ∧ (u.val = 4 ∨ u.val = 5)))) ∧
    (stTable l u = St.bad ↔ (l.val = 0 ∨ u.val = 0 ∨ u.val < l.val)) := by decide

section
variable {l u : Nat} (hl : l < 6) (hu : u < 6)
include hl hu
theorem stTable_U : stTable l u = St.U ↔ (l = 1 ∧ u = 5) := (stTable_fin ⟨l, hl⟩ ⟨u, hu⟩).1
theorem stTable_F : stTable l u = St.F ↔ (l = 1 ∧ u = 1) := (stTable_fin ⟨l, hl⟩ ⟨u, hu⟩).2.1
theorem stTable_T : stTable l u = St.T ↔ (l = 5 ∧ u = 5) := (stTable_fin ⟨l, hl⟩ ⟨u, hu⟩).2.2.1
theorem stTable_eU : stTable l u = St.eU ↔ (l = 3 ∧ u = 3) := (stTable_fin ⟨l, hl⟩ ⟨u, hu⟩).2.2.2.1
theorem stTable_aF : stTable l u = St.aF ↔ ((l = 1 ∨ l = 2) ∧ u = 2) :=
  (stTable_fin ⟨l, hl⟩ ⟨u, hu⟩).2.2.2.2.1
theorem stTable_aT : stTable l u = St.aT ↔ (l = 4 ∧ (u = 4 ∨ u = 5)) :=
  (stTable_fin ⟨l, hl⟩ ⟨u, hu⟩).2.2.2.2.2.1
theorem stTable_aU : stTable l u = St.aU ↔
    ((l = 1 ∧ (u = 3 ∨ u = 4)) ∨ (l = 2 ∧ (u = 3 ∨ u = 4 ∨ u = 5)) ∨ (l = 3 ∧ (u = 4 ∨ u = 5))) :=
  (stTable_fin ⟨l, hl⟩ ⟨u, hu⟩).2.2.2.2.2.2.1
theorem stTable_bad : stTable l u = St.bad ↔ (l = 0 ∨ u = 0 ∨ u < l) :=
  (stTable_fin ⟨l, hl⟩ ⟨u, hu⟩).2.2.2.2.2.2.2
end

theorem state_eq_C_iff (a : α) (b : Bounds α) : state a b = St.C ↔ isContra a b = true := by
  rw [state_def]
  constructor
  · intro h
    by_contra hc
    rw [if_neg hc] at h
    exact stTable_ne_C _ _ h
  · intro h; rw [if_pos h]

theorem state_eq_iff_of_ne_C (a : α) (b : Bounds α) (x : St) (hx : x ≠ St.C) :
    state a b = x ↔ (isContra a b = false ∧ stTable (region a b.lo) (region a b.hi) = x) := by
  rw [state_def]
  cases hc : isContra a b with
  | true => simp [Ne.symm hx]
  | false => simp

end LNN
