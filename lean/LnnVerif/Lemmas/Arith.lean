/-
Helper lemmas about L0 (may be rewritten freely; property theorems live in `Props/`).
-/
import LnnVerif.Model.Arith
import Mathlib.Algebra.Order.BigOperators.Group.List
import Mathlib.Tactic.Linarith
import Mathlib.Tactic.Ring
import Mathlib.Tactic.FieldSimp

set_option linter.unusedSectionVars false

namespace LNN

variable {α : Type} [Field α] [LinearOrder α] [IsStrictOrderedRing α]

theorem clamp01_nonneg (x : α) : 0 ≤ clamp01 x := le_min zero_le_one (le_max_left _ _)
theorem clamp01_le_one (x : α) : clamp01 x ≤ 1 := min_le_left _ _

theorem clamp01_mono {x y : α} (h : x ≤ y) : clamp01 x ≤ clamp01 y :=
  min_le_min le_rfl (max_le_max le_rfl h)

theorem clamp01_of_mem {x : α} (h0 : 0 ≤ x) (h1 : x ≤ 1) : clamp01 x = x := by
  unfold clamp01; rw [max_eq_right h0, min_eq_right h1]

theorem clamp01_of_nonpos {x : α} (h : x ≤ 0) : clamp01 x = 0 := by
  unfold clamp01; rw [max_eq_left h]; exact min_eq_right zero_le_one

theorem clamp01_of_one_le {x : α} (h : 1 ≤ x) : clamp01 x = 1 := by
  unfold clamp01; rw [max_eq_right (le_trans zero_le_one h)]; exact min_eq_left h

theorem clamp01_idem (x : α) : clamp01 (clamp01 x) = clamp01 x :=
  clamp01_of_mem (clamp01_nonneg x) (clamp01_le_one x)

theorem clamp01_one_sub (x : α) : clamp01 (1 - x) = 1 - clamp01 x := by
  rcases le_total x 0 with h | h
  · rw [clamp01_of_nonpos h, clamp01_of_one_le (by linarith)]; ring
  · rcases le_total x 1 with h1 | h1
    · rw [clamp01_of_mem h h1, clamp01_of_mem (by linarith) (by linarith)]
    · rw [clamp01_of_one_le h1, clamp01_of_nonpos (by linarith)]; ring

/-- a value below `v ≥ 0` stays below after clamping -/
theorem clamp01_le_of_le {x v : α} (hv : 0 ≤ v) (h : x ≤ v) : clamp01 x ≤ v :=
  le_trans (min_le_right _ _) (max_le hv h)

/-- a value above `v ≤ 1` stays above after clamping -/
theorem le_clamp01_of_le {x v : α} (hv : v ≤ 1) (h : v ≤ x) : v ≤ clamp01 x :=
  le_min hv (le_trans h (le_max_right _ _))

theorem le_of_pos_le_clamp {L p : α} (hL : 0 < L) (h : L ≤ clamp01 p) : L ≤ p := by
  rcases le_total p 0 with h0 | h0
  · rw [clamp01_of_nonpos h0] at h; linarith
  · exact le_trans h (le_trans (min_le_right _ _) (max_le h0 le_rfl))

theorem le_of_clamp_le_lt_one {U p : α} (hU : U < 1) (h : clamp01 p ≤ U) : p ≤ U := by
  rcases le_total 1 p with h1 | h1
  · rw [clamp01_of_one_le h1] at h; linarith
  · exact le_trans (le_trans (le_max_right 0 p) (by
      have : clamp01 p = max 0 p := by
        unfold clamp01; exact min_eq_right (max_le zero_le_one h1)
      rw [← this])) h

/-! ### boxes -/

/-- the truth values `xs` lie inside the operand boxes and weights are non-negative -/
def InBox (ops : List (Opd α)) (xs : List α) : Prop :=
  List.Forall₂ (fun o x => 0 ≤ o.w ∧ o.lo ≤ x ∧ x ≤ o.hi) ops xs

/-- `Σ wᵢ (1 - xᵢ)` -/
def wsum (ops : List (Opd α)) (xs : List α) : α :=
  (List.zipWith (fun o x => o.w * (1 - x)) ops xs).sum

/-- unclamped And value `b - Σ wᵢ (1 - xᵢ)` -/
def andPre (b : α) (ops : List (Opd α)) (xs : List α) : α := b - wsum ops xs

/-- `Σ wᵢ xᵢ` -/
def psum (ops : List (Opd α)) (xs : List α) : α :=
  (List.zipWith (fun o x => o.w * x) ops xs).sum

theorem sum_hi_le (ops : List (Opd α)) (xs : List α) (h : InBox ops xs) :
    (ops.map termHi).sum ≤ wsum ops xs := by
  unfold wsum
  induction h with
  | nil => simp
  | @cons o x ops xs hox _ ih =>
    simp only [List.map_cons, List.sum_cons, List.zipWith_cons_cons]
    have : termHi o ≤ o.w * (1 - x) := by
      unfold termHi; apply mul_le_mul_of_nonneg_left _ hox.1; linarith [hox.2.2]
    linarith

theorem sum_le_lo (ops : List (Opd α)) (xs : List α) (h : InBox ops xs) :
    wsum ops xs ≤ (ops.map termLo).sum := by
  unfold wsum
  induction h with
  | nil => simp
  | @cons o x ops xs hox _ ih =>
    simp only [List.map_cons, List.sum_cons, List.zipWith_cons_cons]
    have : o.w * (1 - x) ≤ termLo o := by
      unfold termLo; apply mul_le_mul_of_nonneg_left _ hox.1; linarith [hox.2.1]
    linarith

/-- upward And is sound: the clamped value lies between the two computed bounds -/
theorem andUp_sound (b : α) (ops : List (Opd α)) (xs : List α) (h : InBox ops xs) :
    (andUp b ops).lo ≤ clamp01 (andPre b ops xs) ∧ clamp01 (andPre b ops xs) ≤ (andUp b ops).hi := by
  have h1 := sum_hi_le ops xs h
  have h2 := sum_le_lo ops xs h
  unfold andUp andPre
  exact ⟨clamp01_mono (by linarith), clamp01_mono (by linarith)⟩

/-- per operand: own true term plus the others' hi-terms is below the true sum, and own true term
plus the others' lo-terms is above it -/
theorem own_plus_others (ops : List (Opd α)) (xs : List α) (h : InBox ops xs) :
    List.Forall₂ (fun o x => (0 ≤ o.w ∧ o.lo ≤ x ∧ x ≤ o.hi) ∧
      o.w * (1 - x) + ((ops.map termHi).sum - termHi o) ≤ wsum ops xs ∧
      wsum ops xs ≤ o.w * (1 - x) + ((ops.map termLo).sum - termLo o)) ops xs := by
  induction h with
  | nil => exact List.Forall₂.nil
  | @cons o x ops xs hox hrest ih =>
    have hs := sum_hi_le ops xs hrest
    have hs' := sum_le_lo ops xs hrest
    have ho : termHi o ≤ o.w * (1 - x) := by
      unfold termHi; apply mul_le_mul_of_nonneg_left _ hox.1; linarith [hox.2.2]
    have ho' : o.w * (1 - x) ≤ termLo o := by
      unfold termLo; apply mul_le_mul_of_nonneg_left _ hox.1; linarith [hox.2.1]
    refine List.Forall₂.cons ⟨hox, ?_, ?_⟩ ?_
    · simp only [wsum, List.map_cons, List.sum_cons, List.zipWith_cons_cons] at hs ⊢; linarith
    · simp only [wsum, List.map_cons, List.sum_cons, List.zipWith_cons_cons] at hs' ⊢; linarith
    · refine List.Forall₂.imp ?_ ih
      intro o' x' h'
      refine ⟨h'.1, ?_, ?_⟩
      · simp only [wsum, List.map_cons, List.sum_cons, List.zipWith_cons_cons] at h' ⊢
        linarith [h'.2.1]
      · simp only [wsum, List.map_cons, List.sum_cons, List.zipWith_cons_cons] at h' ⊢
        linarith [h'.2.2]

/-- **Soundness of the And inverse.** Every value vector inside the operand boxes (values in
`[0,1]`) whose clamped And value lies in `[L, U]` satisfies every proposed operand interval —
including the alpha gates, the `f_inv` offsets, the clamped divisor and the zero-weight mask. -/
theorem andDown_sound (b alpha L U : α) (ops : List (Opd α)) (xs : List α)
    (hα : alpha ≤ 1) (hbox : InBox ops xs) (hx : ∀ x ∈ xs, 0 ≤ x ∧ x ≤ 1)
    (hL : L ≤ clamp01 (andPre b ops xs)) (hU : clamp01 (andPre b ops xs) ≤ U) :
    List.Forall₂ (fun p x => p.lo ≤ x ∧ x ≤ p.hi) (andDown b alpha L U ops) xs := by
  unfold andDown
  simp only
  rw [List.forall₂_map_left_iff]
  have key := own_plus_others ops xs hbox
  refine (List.forall₂_iff_zip.mpr ⟨(List.forall₂_iff_zip.mp key).1, ?_⟩)
  intro o x hox
  have hk := (List.forall₂_iff_zip.mp key).2 hox
  obtain ⟨hx0, hx1⟩ := hx x (List.of_mem_zip hox).2
  obtain ⟨⟨hw, _, _⟩, hk1, hk2⟩ := hk
  by_cases hw0 : o.w = 0
  · simp [hw0, hx0, hx1]
  · simp only [hw0, if_false]
    have hwpos : 0 < o.w := lt_of_le_of_ne hw (Ne.symm hw0)
    rw [max_eq_left hw]
    constructor
    · by_cases hg : 1 - alpha < L
      · simp only [hg, if_true]
        have hLpos : 0 < L := by linarith
        have hpre : L ≤ andPre b ops xs := le_of_pos_le_clamp hLpos hL
        have hnot : ¬ L ≤ 0 := not_le.mpr hLpos
        simp only [hnot, if_false, add_zero]
        apply clamp01_le_of_le hx0
        unfold andPre at hpre
        have : (L - b + ((ops.map termHi).sum - termHi o)) / o.w ≤ x - 1 := by
          rw [div_le_iff₀ hwpos]; nlinarith
        linarith
      · simp [hg, hx0]
    · by_cases hg : U < alpha
      · simp only [hg, if_true]
        have hU1 : U < 1 := lt_of_lt_of_le hg hα
        have hpre : andPre b ops xs ≤ U := le_of_clamp_le_lt_one hU1 hU
        have hnot : ¬ 1 ≤ U := not_le.mpr hU1
        simp only [hnot, if_false, add_zero]
        apply le_clamp01_of_le hx1
        unfold andPre at hpre
        have : x - 1 ≤ (U - b + ((ops.map termLo).sum - termLo o)) / o.w := by
          rw [le_div_iff₀ hwpos]; nlinarith
        linarith
      · simp [hg, hx1]

end LNN
