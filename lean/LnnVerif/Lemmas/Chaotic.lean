/-
Chaotic iteration, abstractly.

A family `F i` of maps that are monotone and inflationary (with respect to a transitive relation
`r`) on the states satisfying an invariant `P` reaches the same common fixpoint whatever the order
of application. The maps that are really executed, `G i`, are allowed to *skip*: `G i s` is either
`s` or `F i s` (this is how the engine's contradiction arresting enters: an arrested step does
nothing). Only the indices satisfying `A` are used.

No order structure is assumed on `S`: the relation and the facts needed about it are explicit
hypotheses, so the lemma applies to the "at least as tight" relation on engine states without any
instance being declared.
-/

namespace LNN
namespace Chaotic

variable {S ι : Type}

/-- run the maps `G i` for the indices of `l`, left to right -/
def runL (G : ι → S → S) (l : List ι) (s : S) : S := l.foldl (fun s i => G i s) s

@[simp] theorem runL_nil (G : ι → S → S) (s : S) : runL G [] s = s := rfl

@[simp] theorem runL_cons (G : ι → S → S) (i : ι) (l : List ι) (s : S) :
    runL G (i :: l) s = runL G l (G i s) := rfl

theorem runL_append (G : ι → S → S) (l₁ l₂ : List ι) (s : S) :
    runL G (l₁ ++ l₂) s = runL G l₂ (runL G l₁ s) := by
  simp [runL, List.foldl_append]

section
variable (r : S → S → Prop) (P : S → Prop) (A : ι → Prop) (F G : ι → S → S)

/-- the invariant survives every run -/
theorem run_inv
    (hGF : ∀ i s, G i s = s ∨ G i s = F i s)
    (hP : ∀ i s, A i → P s → P (F i s))
    (l : List ι) (hl : ∀ i ∈ l, A i) (s0 : S) (h0 : P s0) : P (runL G l s0) := by
  induction l generalizing s0 with
  | nil => simpa using h0
  | cons i l ih =>
    rw [runL_cons]
    apply ih (fun j hj => hl j (List.mem_cons_of_mem _ hj))
    rcases hGF i s0 with h | h
    · rw [h]; exact h0
    · rw [h]; exact hP i s0 (hl i (List.mem_cons_self ..)) h0

/-- every run from below a common fixpoint of the `F i` stays below it — whether or not the run
itself is exhaustive, and whichever steps it skipped -/
theorem run_le_fix
    (hGF : ∀ i s, G i s = s ∨ G i s = F i s)
    (hP : ∀ i s, A i → P s → P (F i s))
    (hmono : ∀ i s t, A i → P s → P t → r s t → r (F i s) (F i t))
    (fix : S) (hPfix : P fix) (hfix : ∀ i, A i → F i fix = fix)
    (l : List ι) (hl : ∀ i ∈ l, A i) (s0 : S) (hP0 : P s0) (h0 : r s0 fix) :
    r (runL G l s0) fix := by
  induction l generalizing s0 with
  | nil => simpa using h0
  | cons i l ih =>
    rw [runL_cons]
    have hi : A i := hl i (List.mem_cons_self ..)
    have hl' : ∀ j ∈ l, A j := fun j hj => hl j (List.mem_cons_of_mem _ hj)
    rcases hGF i s0 with h | h
    · rw [h]; exact ih hl' s0 hP0 h0
    · rw [h]
      apply ih hl' _ (hP i s0 hi hP0)
      have := hmono i s0 fix hi hP0 hPfix h0
      rwa [hfix i hi] at this

/-- every run ends above its start -/
theorem le_run
    (hrefl : ∀ s, r s s) (htrans : ∀ s t u, r s t → r t u → r s u)
    (hGF : ∀ i s, G i s = s ∨ G i s = F i s)
    (hP : ∀ i s, A i → P s → P (F i s))
    (hinfl : ∀ i s, A i → P s → r s (F i s))
    (l : List ι) (hl : ∀ i ∈ l, A i) (s0 : S) (hP0 : P s0) : r s0 (runL G l s0) := by
  induction l generalizing s0 with
  | nil => simpa using hrefl s0
  | cons i l ih =>
    rw [runL_cons]
    have hi : A i := hl i (List.mem_cons_self ..)
    have hl' : ∀ j ∈ l, A j := fun j hj => hl j (List.mem_cons_of_mem _ hj)
    rcases hGF i s0 with h | h
    · rw [h]; exact ih hl' s0 hP0
    · rw [h]
      exact htrans _ _ _ (hinfl i s0 hi hP0) (ih hl' _ (hP i s0 hi hP0))

/-- a run ending in a common fixpoint of the `F i` dominates every other run from the same start -/
theorem run_le_run
    (hrefl : ∀ s, r s s) (htrans : ∀ s t u, r s t → r t u → r s u)
    (hGF : ∀ i s, G i s = s ∨ G i s = F i s)
    (hP : ∀ i s, A i → P s → P (F i s))
    (hmono : ∀ i s t, A i → P s → P t → r s t → r (F i s) (F i t))
    (hinfl : ∀ i s, A i → P s → r s (F i s))
    (s0 : S) (hP0 : P s0) (l₁ l₂ : List ι) (hl₁ : ∀ i ∈ l₁, A i) (hl₂ : ∀ i ∈ l₂, A i)
    (hfix : ∀ i, A i → F i (runL G l₁ s0) = runL G l₁ s0) :
    r (runL G l₂ s0) (runL G l₁ s0) :=
  run_le_fix r P A F G hGF hP hmono _ (run_inv P A F G hGF hP l₁ hl₁ s0 hP0) hfix l₂ hl₂ s0 hP0
    (le_run r P A F G hrefl htrans hGF hP hinfl l₁ hl₁ s0 hP0)

/-- **Confluence.** Two runs from the same start that both end in common fixpoints end in the same
state. -/
theorem confluent
    (hrefl : ∀ s, r s s) (htrans : ∀ s t u, r s t → r t u → r s u)
    (hanti : ∀ s t, r s t → r t s → s = t)
    (hGF : ∀ i s, G i s = s ∨ G i s = F i s)
    (hP : ∀ i s, A i → P s → P (F i s))
    (hmono : ∀ i s t, A i → P s → P t → r s t → r (F i s) (F i t))
    (hinfl : ∀ i s, A i → P s → r s (F i s))
    (s0 : S) (hP0 : P s0) (l₁ l₂ : List ι) (hl₁ : ∀ i ∈ l₁, A i) (hl₂ : ∀ i ∈ l₂, A i)
    (hfix₁ : ∀ i, A i → F i (runL G l₁ s0) = runL G l₁ s0)
    (hfix₂ : ∀ i, A i → F i (runL G l₂ s0) = runL G l₂ s0) :
    runL G l₁ s0 = runL G l₂ s0 :=
  hanti _ _
    (run_le_run r P A F G hrefl htrans hGF hP hmono hinfl s0 hP0 l₂ l₁ hl₂ hl₁ hfix₂)
    (run_le_run r P A F G hrefl htrans hGF hP hmono hinfl s0 hP0 l₁ l₂ hl₁ hl₂ hfix₁)

end

end Chaotic
end LNN
