/-
Soundness of Or / Implies, upward and downward, by reduction to And through negation.
-/
import LnnVerif.Lemmas.Arith

set_option linter.unusedSectionVars false

namespace LNN

variable {α : Type} [Field α] [LinearOrder α] [IsStrictOrderedRing α]

/-- Or truth function: `clamp(1 - b + Σ wᵢ xᵢ)` -/
def orVal (b : α) (ops : List (Opd α)) (xs : List α) : α := clamp01 (1 - b + psum ops xs)

/-- And truth function -/
def andVal (b : α) (ops : List (Opd α)) (xs : List α) : α := clamp01 (andPre b ops xs)

theorem InBox.neg {ops : List (Opd α)} {xs : List α} (h : InBox ops xs) :
    InBox (ops.map Opd.neg) (xs.map (1 - ·)) := by
  unfold InBox at *
  rw [List.forall₂_map_left_iff, List.forall₂_map_right_iff]
  refine List.Forall₂.imp ?_ h
  intro o x hox
  simp only [Opd.neg]
  exact ⟨hox.1, by linarith [hox.2.2], by linarith [hox.2.1]⟩

theorem wsum_neg (ops : List (Opd α)) (xs : List α) :
    wsum (ops.map Opd.neg) (xs.map (1 - ·)) = psum ops xs := by
  unfold wsum psum
  induction ops generalizing xs with
  | nil => simp
  | cons o ops ih =>
    cases xs with
    | nil => simp
    | cons x xs =>
      simp only [List.map_cons, List.zipWith_cons_cons, List.sum_cons, ih xs, Opd.neg]
      ring

theorem orVal_eq (b : α) (ops : List (Opd α)) (xs : List α) :
    orVal b ops xs = 1 - andVal b (ops.map Opd.neg) (xs.map (1 - ·)) := by
  unfold orVal andVal andPre
  rw [wsum_neg, ← clamp01_one_sub]
  congr 1; ring

theorem minw_sum_zero (ops : List (Opd α)) (h : ∀ o ∈ ops, 0 ≤ o.w) :
    (ops.map (fun o => min o.w 0)).sum = 0 := by
  induction ops with
  | nil => simp
  | cons o ops ih =>
    simp only [List.map_cons, List.sum_cons]
    rw [ih (fun o' ho' => h o' (List.mem_cons_of_mem _ ho')), min_eq_right (h o (List.mem_cons_self ..))]
    ring

theorem InBox.weights {ops : List (Opd α)} {xs : List α} (h : InBox ops xs) : ∀ o ∈ ops, 0 ≤ o.w := by
  induction h with
  | nil => simp
  | @cons o x ops xs hox _ ih =>
    intro o' ho'
    rcases List.mem_cons.mp ho' with rfl | h'
    · exact hox.1
    · exact ih o' h'

theorem psum_bounds (ops : List (Opd α)) (xs : List α) (h : InBox ops xs) :
    (ops.map (fun o => o.w * o.lo)).sum ≤ psum ops xs ∧ psum ops xs ≤ (ops.map (fun o => o.w * o.hi)).sum := by
  unfold psum
  induction h with
  | nil => simp
  | @cons o x ops xs hox _ ih =>
    simp only [List.map_cons, List.sum_cons, List.zipWith_cons_cons]
    have h1 : o.w * o.lo ≤ o.w * x := mul_le_mul_of_nonneg_left hox.2.1 hox.1
    have h2 : o.w * x ≤ o.w * o.hi := mul_le_mul_of_nonneg_left hox.2.2 hox.1
    exact ⟨by linarith [ih.1], by linarith [ih.2]⟩

/-- upward Or is sound, for both activation variants -/
theorem orUp_sound (t : Bool) (b : α) (ops : List (Opd α)) (xs : List α) (h : InBox ops xs) :
    (orUp t b ops).lo ≤ orVal b ops xs ∧ orVal b ops xs ≤ (orUp t b ops).hi := by
  have hz := minw_sum_zero ops h.weights
  have hb := psum_bounds ops xs h
  unfold orUp orVal
  simp only
  have hc : (if t = true then (ops.map (fun o => min o.w 0)).sum else (0:α)) = 0 := by
    split <;> simp [hz]
  rw [hc]
  exact ⟨clamp01_mono (by linarith [hb.1]), clamp01_mono (by linarith [hb.2])⟩

/-- for non-negative weights the two activation variants of Or coincide -/
theorem orUp_variant_eq (b : α) (ops : List (Opd α)) (h : ∀ o ∈ ops, 0 ≤ o.w) :
    orUp true b ops = orUp false b ops := by
  unfold orUp
  simp [minw_sum_zero ops h]

/-- **Soundness of the Or inverse.** -/
theorem orDown_sound (b alpha L U : α) (ops : List (Opd α)) (xs : List α)
    (hα : alpha ≤ 1) (hbox : InBox ops xs) (hx : ∀ x ∈ xs, 0 ≤ x ∧ x ≤ 1)
    (hL : L ≤ orVal b ops xs) (hU : orVal b ops xs ≤ U) :
    List.Forall₂ (fun p x => p.lo ≤ x ∧ x ≤ p.hi) (orDown b alpha L U ops) xs := by
  rw [orVal_eq] at hL hU
  have hx' : ∀ x ∈ xs.map (1 - ·), 0 ≤ x ∧ x ≤ 1 := by
    intro y hy
    obtain ⟨x, hxm, rfl⟩ := List.mem_map.mp hy
    have := hx x hxm
    exact ⟨by linarith [this.2], by linarith [this.1]⟩
  have key := andDown_sound b alpha (1 - U) (1 - L) (ops.map Opd.neg) (xs.map (1 - ·)) hα hbox.neg hx'
    (by unfold andVal at hU; linarith) (by unfold andVal at hL; linarith)
  unfold orDown
  rw [List.forall₂_map_left_iff]
  rw [List.forall₂_map_right_iff] at key
  refine List.Forall₂.imp ?_ key
  intro p x hp
  simp only [negB]
  exact ⟨by linarith [hp.2], by linarith [hp.1]⟩

/-- Implies truth function on `(x, y)` -/
def impVal (b : α) (x y : Opd α) (vx vy : α) : α :=
  clamp01 (1 - b + x.w * (1 - vx) + y.w * vy)

theorem impliesUp_sound (b : α) (x y : Opd α) (vx vy : α)
    (hx : 0 ≤ x.w ∧ x.lo ≤ vx ∧ vx ≤ x.hi) (hy : 0 ≤ y.w ∧ y.lo ≤ vy ∧ vy ≤ y.hi) :
    (impliesUp b [x, y]).lo ≤ impVal b x y vx vy ∧ impVal b x y vx vy ≤ (impliesUp b [x, y]).hi := by
  unfold impliesUp impVal
  simp only
  have h1 : x.w * (1 - x.hi) ≤ x.w * (1 - vx) := mul_le_mul_of_nonneg_left (by linarith [hx.2.2]) hx.1
  have h2 : x.w * (1 - vx) ≤ x.w * (1 - x.lo) := mul_le_mul_of_nonneg_left (by linarith [hx.2.1]) hx.1
  have h3 : y.w * y.lo ≤ y.w * vy := mul_le_mul_of_nonneg_left hy.2.1 hy.1
  have h4 : y.w * vy ≤ y.w * y.hi := mul_le_mul_of_nonneg_left hy.2.2 hy.1
  exact ⟨clamp01_mono (by linarith), clamp01_mono (by linarith)⟩

/-- **Soundness of the Implies inverse.** -/
theorem impliesDown_sound (b alpha L U : α) (x y : Opd α) (vx vy : α) (hα : alpha ≤ 1)
    (hx : 0 ≤ x.w ∧ x.lo ≤ vx ∧ vx ≤ x.hi) (hy : 0 ≤ y.w ∧ y.lo ≤ vy ∧ vy ≤ y.hi)
    (hvx : 0 ≤ vx ∧ vx ≤ 1) (hvy : 0 ≤ vy ∧ vy ≤ 1)
    (hL : L ≤ impVal b x y vx vy) (hU : impVal b x y vx vy ≤ U) :
    List.Forall₂ (fun p v => p.lo ≤ v ∧ v ≤ p.hi) (impliesDown b alpha L U [x, y]) [vx, vy] := by
  have hval : impVal b x y vx vy = 1 - andVal b [x, y.neg] [vx, 1 - vy] := by
    unfold impVal andVal andPre wsum
    rw [← clamp01_one_sub]
    simp only [List.zipWith_cons_cons, List.zipWith_nil_right, List.sum_cons, List.sum_nil, Opd.neg]
    congr 1; ring
  rw [hval] at hL hU
  have hbox : InBox [x, y.neg] [vx, 1 - vy] := by
    refine List.Forall₂.cons hx (List.Forall₂.cons ?_ List.Forall₂.nil)
    simp only [Opd.neg]
    exact ⟨hy.1, by linarith [hy.2.2], by linarith [hy.2.1]⟩
  have hxs : ∀ v ∈ [vx, 1 - vy], 0 ≤ v ∧ v ≤ 1 := by
    intro v hv
    simp only [List.mem_cons, List.not_mem_nil, or_false] at hv
    rcases hv with rfl | rfl
    · exact hvx
    · exact ⟨by linarith [hvy.2], by linarith [hvy.1]⟩
  have key := andDown_sound b alpha (1 - U) (1 - L) [x, y.neg] [vx, 1 - vy] hα hbox hxs
    (by unfold andVal at hU; linarith) (by unfold andVal at hL; linarith)
  unfold impliesDown
  simp only
  -- andDown on a two-element list returns a two-element list
  have hlen : (andDown b alpha (1 - U) (1 - L) [x, y.neg]).length = 2 := by
    unfold andDown; simp
  match hm : andDown b alpha (1 - U) (1 - L) [x, y.neg], hlen with
  | [px, py], _ =>
    rw [hm] at key
    simp only
    cases key with
    | cons h1 h2 =>
      cases h2 with
      | cons h2 _ =>
        refine List.Forall₂.cons h1 (List.Forall₂.cons ?_ List.Forall₂.nil)
        simp only [negB]
        exact ⟨by linarith [h2.2], by linarith [h2.1]⟩

end LNN
