/-
Soundness of every engine step with respect to a consistent interpretation.
-/
import LnnVerif.Spec.Semantics
import LnnVerif.Lemmas.ArithOr

set_option linter.unusedSectionVars false

namespace LNN

variable {ι : Type} [DecidableEq ι] {α : Type} [Field α] [LinearOrder α] [IsStrictOrderedRing α]

/-- `p` contains the value `x` -/
def Bounds.Has (p : Bounds α) (x : α) : Prop := p.lo ≤ x ∧ x ≤ p.hi

theorem aggregate_has (sel : BoundSel) (prev new : Bounds α) (x : α) (hx0 : 0 ≤ x) (hx1 : x ≤ 1)
    (hp : prev.Has x) (hn : new.Has x) : (aggregate sel prev new).1.Has x := by
  unfold aggregate Bounds.Has
  simp only
  constructor
  · apply clamp01_le_of_le hx0
    split
    · exact hp.1
    · exact max_le hp.1 hn.1
  · apply le_clamp01_of_le hx1
    split
    · exact hp.2
    · exact le_min hp.2 hn.2

theorem Sat.update {v : ι → α} {s : State ι α} (h : Sat v s) (i : ι) (r : Bounds α) (hr : r.Has (v i)) :
    Sat v (Function.update s i r) := by
  intro k
  by_cases hk : k = i
  · subst hk; simpa [Bounds.Has] using hr
  · simpa [Function.update_of_ne hk] using h k

/-- the operand values seen by node `n` -/
def vals (n : Node ι α) (v : ι → α) : List α := List.zipWith (fun j _ => v j) n.ops n.ws

theorem inBox_opds (n : Node ι α) (s : State ι α) (v : ι → α) (hs : Sat v s)
    (hw : ∀ w ∈ n.ws, 0 ≤ w) : InBox (opds n s) (vals n v) := by
  unfold opds vals InBox
  generalize n.ops = ops at *
  generalize n.ws = ws at *
  induction ops generalizing ws with
  | nil => simp
  | cons j ops ih =>
    cases ws with
    | nil => simp
    | cons w ws =>
      simp only [List.zipWith_cons_cons]
      refine List.Forall₂.cons ⟨hw w (List.mem_cons_self ..), (hs j).1, (hs j).2⟩ ?_
      exact ih ws (fun w' hw' => hw w' (List.mem_cons_of_mem _ hw'))

theorem vals_mem01 (n : Node ι α) (v : ι → α) (hv : ∀ i, 0 ≤ v i ∧ v i ≤ 1) :
    ∀ x ∈ vals n v, 0 ≤ x ∧ x ≤ 1 := by
  unfold vals
  generalize n.ops = ops
  generalize n.ws = ws
  induction ops generalizing ws with
  | nil => simp
  | cons j ops ih =>
    cases ws with
    | nil => simp
    | cons w ws =>
      intro x hx
      simp only [List.zipWith_cons_cons, List.mem_cons] at hx
      rcases hx with rfl | hx
      · exact hv j
      · exact ih ws x hx

theorem wsum_opds (n : Node ι α) (s : State ι α) (v : ι → α) :
    wsum (opds n s) (vals n v) = (List.zipWith (fun j w => w * (1 - v j)) n.ops n.ws).sum := by
  unfold wsum opds vals
  generalize n.ops = ops
  generalize n.ws = ws
  induction ops generalizing ws with
  | nil => simp
  | cons j ops ih =>
    cases ws with
    | nil => simp
    | cons w ws => simp only [List.zipWith_cons_cons, List.sum_cons, ih ws]

theorem psum_opds (n : Node ι α) (s : State ι α) (v : ι → α) :
    psum (opds n s) (vals n v) = (List.zipWith (fun j w => w * v j) n.ops n.ws).sum := by
  unfold psum opds vals
  generalize n.ops = ops
  generalize n.ws = ws
  induction ops generalizing ws with
  | nil => simp
  | cons j ops ih =>
    cases ws with
    | nil => simp
    | cons w ws => simp only [List.zipWith_cons_cons, List.sum_cons, ih ws]

/-- shape of an Implies node with exactly two weighted operands -/
theorem implies_shape (n : Node ι α) (s : State ι α) (v : ι → α) (x y : ι) (wx wy : α)
    (h : List.zip n.ops n.ws = [(x, wx), (y, wy)]) :
    opds n s = [⟨wx, (s x).lo, (s x).hi⟩, ⟨wy, (s y).lo, (s y).hi⟩] ∧ vals n v = [v x, v y] := by
  unfold opds vals
  rw [← List.map_uncurry_zip_eq_zipWith, ← List.map_uncurry_zip_eq_zipWith, h]
  simp [Function.uncurry]

/-- an operand list with two entries comes from a two-entry zip -/
theorem zip_of_opds_two (n : Node ι α) (s : State ι α) (a b : Opd α) (h : opds n s = [a, b]) :
    ∃ x wx y wy, List.zip n.ops n.ws = [(x, wx), (y, wy)] := by
  have hl : (List.zip n.ops n.ws).length = 2 := by
    have := congrArg List.length h
    unfold opds at this
    simpa [List.length_zip, List.length_zipWith] using this
  match hz : List.zip n.ops n.ws, hl with
  | [(x, wx), (y, wy)], _ => exact ⟨x, wx, y, wy, rfl⟩

/-- the upward activation of a connective contains the node's value -/
theorem actUp_has (kb : KB ι α) (v : ι → α) (s : State ι α) (i : ι)
    (hwf : WF kb) (hv : Consistent kb v) (hs : Sat v s)
    (hk : (kb i).kind ≠ .atom ∧ (kb i).kind ≠ .neg) : (actUp (kb i) s).Has (v i) := by
  have hbox := inBox_opds (kb i) s v hs (hwf i).1
  obtain ⟨h0, h1, hval⟩ := hv i
  unfold actUp
  cases hkind : (kb i).kind with
  | atom => exact absurd hkind hk.1
  | neg => exact absurd hkind hk.2
  | and =>
    simp only
    have : v i = clamp01 (andPre (kb i).bias (opds (kb i) s) (vals (kb i) v)) := by
      apply hval; unfold nodeVal andPre; rw [hkind, wsum_opds]
    rw [this]; exact andUp_sound _ _ _ hbox
  | or =>
    simp only
    have : v i = orVal (kb i).bias (opds (kb i) s) (vals (kb i) v) := by
      apply hval; unfold nodeVal orVal; rw [hkind, psum_opds]
    rw [this]; exact orUp_sound _ _ _ _ hbox
  | implies =>
    simp only
    unfold nodeVal at hval
    rw [hkind] at hval
    simp only at hval
    split at hval
    next x wx y wy hz =>
      obtain ⟨ho, hvv⟩ := implies_shape (kb i) s v x y wx wy hz
      rw [ho]
      have hwx : 0 ≤ wx := (hwf i).1 wx (List.of_mem_zip (by rw [hz]; simp : (x, wx) ∈ List.zip (kb i).ops (kb i).ws)).2
      have hwy : 0 ≤ wy := (hwf i).1 wy (List.of_mem_zip (by rw [hz]; simp : (y, wy) ∈ List.zip (kb i).ops (kb i).ws)).2
      have := impliesUp_sound (kb i).bias ⟨wx, (s x).lo, (s x).hi⟩ ⟨wy, (s y).lo, (s y).hi⟩ (v x) (v y)
        ⟨hwx, (hs x).1, (hs x).2⟩ ⟨hwy, (hs y).1, (hs y).2⟩
      rw [hval _ rfl]
      exact this
    next hne =>
      -- malformed implies: the model answers (0,1) unless the operand list has two entries
      unfold impliesUp
      split
      next a b hab =>
        exfalso
        obtain ⟨x, wx, y, wy, hz⟩ := zip_of_opds_two (kb i) s a b hab
        exact hne x wx y wy hz
      next => exact ⟨h0, h1⟩

theorem stepUp_sound (kb : KB ι α) (v : ι → α) (s : State ι α) (i : ι)
    (hwf : WF kb) (hv : Consistent kb v) (hs : Sat v s) : Sat v (stepUp kb i s).1 := by
  obtain ⟨h0, h1, hval⟩ := hv i
  unfold stepUp
  simp only
  cases hkind : (kb i).kind with
  | atom => simpa using hs
  | neg =>
    simp only
    cases hops : (kb i).ops with
    | nil => simpa using hs
    | cons j rest =>
      simp only
      apply hs.update
      apply aggregate_has _ _ _ _ h0 h1 (hs i)
      have : v i = 1 - v j := by apply hval; unfold nodeVal; rw [hkind, hops]
      rw [this]; unfold negB Bounds.Has; simp only
      exact ⟨by linarith [(hs j).2], by linarith [(hs j).1]⟩
  | and =>
    simp only
    split
    · exact hs
    · exact hs.update _ _ (aggregate_has _ _ _ _ h0 h1 (hs i) (actUp_has kb v s i hwf hv hs (by simp [hkind])))
  | or =>
    simp only
    split
    · exact hs
    · exact hs.update _ _ (aggregate_has _ _ _ _ h0 h1 (hs i) (actUp_has kb v s i hwf hv hs (by simp [hkind])))
  | implies =>
    simp only
    split
    · exact hs
    · exact hs.update _ _ (aggregate_has _ _ _ _ h0 h1 (hs i) (actUp_has kb v s i hwf hv hs (by simp [hkind])))

/-- the downward activation of a connective proposes, for every operand, an interval that
contains that operand's value -/
theorem actDown_has (kb : KB ι α) (v : ι → α) (s : State ι α) (i : ι)
    (hwf : WF kb) (hv : Consistent kb v) (hs : Sat v s) :
    List.Forall₂ (fun p x => Bounds.Has p x) (actDown (kb i) (s i) s) (vals (kb i) v) ∨
      actDown (kb i) (s i) s = [] := by
  have hbox := inBox_opds (kb i) s v hs (hwf i).1
  have hx := vals_mem01 (kb i) v (fun k => ⟨(hv k).1, (hv k).2.1⟩)
  obtain ⟨h0, h1, hval⟩ := hv i
  unfold actDown
  cases hkind : (kb i).kind with
  | atom => right; rfl
  | neg => right; rfl
  | and =>
    left
    simp only
    have hvi : v i = clamp01 (andPre (kb i).bias (opds (kb i) s) (vals (kb i) v)) := by
      apply hval; unfold nodeVal andPre; rw [hkind, wsum_opds]
    exact andDown_sound _ _ _ _ _ _ (hwf i).2 hbox hx (by rw [← hvi]; exact (hs i).1) (by rw [← hvi]; exact (hs i).2)
  | or =>
    left
    simp only
    have hvi : v i = orVal (kb i).bias (opds (kb i) s) (vals (kb i) v) := by
      apply hval; unfold nodeVal orVal; rw [hkind, psum_opds]
    exact orDown_sound _ _ _ _ _ _ (hwf i).2 hbox hx (by rw [← hvi]; exact (hs i).1) (by rw [← hvi]; exact (hs i).2)
  | implies =>
    left
    simp only
    unfold nodeVal at hval
    rw [hkind] at hval
    simp only at hval
    split at hval
    next x wx y wy hz =>
      obtain ⟨ho, hvv⟩ := implies_shape (kb i) s v x y wx wy hz
      rw [ho, hvv]
      have hwx : 0 ≤ wx := (hwf i).1 wx (List.of_mem_zip (by rw [hz]; simp : (x, wx) ∈ List.zip (kb i).ops (kb i).ws)).2
      have hwy : 0 ≤ wy := (hwf i).1 wy (List.of_mem_zip (by rw [hz]; simp : (y, wy) ∈ List.zip (kb i).ops (kb i).ws)).2
      have hvi := hval _ rfl
      have hxx : 0 ≤ v x ∧ v x ≤ 1 := ⟨(hv x).1, (hv x).2.1⟩
      have hyy : 0 ≤ v y ∧ v y ≤ 1 := ⟨(hv y).1, (hv y).2.1⟩
      exact impliesDown_sound (kb i).bias (kb i).alpha (s i).lo (s i).hi
        ⟨wx, (s x).lo, (s x).hi⟩ ⟨wy, (s y).lo, (s y).hi⟩ (v x) (v y) (hwf i).2
        ⟨hwx, (hs x).1, (hs x).2⟩ ⟨hwy, (hs y).1, (hs y).2⟩ hxx hyy
        (by unfold impVal; rw [← hvi]; exact (hs i).1) (by unfold impVal; rw [← hvi]; exact (hs i).2)
    next hne =>
      unfold impliesDown
      split
      next a b hab =>
        exfalso
        obtain ⟨x, wx, y, wy, hz⟩ := zip_of_opds_two (kb i) s a b hab
        exact hne x wx y wy hz
      next =>
        rw [List.forall₂_map_left_iff]
        have hlen : (opds (kb i) s).length = (vals (kb i) v).length := by
          unfold opds vals; simp [List.length_zipWith]
        refine List.forall₂_iff_zip.mpr ⟨hlen, ?_⟩
        intro o x hox
        exact hx x (List.of_mem_zip hox).2

theorem mem_enumFrom {β : Type} (l : List β) (k : Nat) (e : Nat × β) (h : e ∈ enumFrom k l) : e.2 ∈ l := by
  induction l generalizing k with
  | nil => simp [enumFrom] at h
  | cons x xs ih =>
    simp only [enumFrom, List.mem_cons] at h
    rcases h with rfl | h
    · simp
    · exact List.mem_cons_of_mem _ (ih _ h)

theorem writeOps_sound (v : ι → α) (hv : ∀ i, 0 ≤ v i ∧ v i ≤ 1)
    (entries : List (Nat × ι × Bounds α)) (idx : Option Nat) (s : State ι α)
    (he : ∀ e ∈ entries, e.2.2.Has (v e.2.1)) (hs : Sat v s) : Sat v (writeOps entries idx s).1 := by
  induction entries generalizing s with
  | nil => simpa [writeOps] using hs
  | cons e rest ih =>
    obtain ⟨k, j, p⟩ := e
    unfold writeOps
    split
    · simp only
      apply ih _ (fun e' he' => he e' (List.mem_cons_of_mem _ he'))
      apply hs.update
      exact aggregate_has _ _ _ _ (hv j).1 (hv j).2 (hs j) (he (k, j, p) (List.mem_cons_self ..))
    · exact ih _ (fun e' he' => he e' (List.mem_cons_of_mem _ he')) hs

theorem zip_has (v : ι → α) (ops : List ι) (ws : List α) (props : List (Bounds α))
    (h : List.Forall₂ (fun p x => Bounds.Has p x) props (List.zipWith (fun j _ => v j) ops ws)) :
    ∀ e ∈ List.zip ops props, e.2.Has (v e.1) := by
  induction ops generalizing ws props with
  | nil => simp
  | cons j ops ih =>
    cases props with
    | nil => simp
    | cons p props =>
      cases ws with
      | nil => simp at h
      | cons w ws =>
        simp only [List.zipWith_cons_cons, List.forall₂_cons] at h
        intro e he
        simp only [List.zip_cons_cons, List.mem_cons] at he
        rcases he with rfl | he
        · exact h.1
        · exact ih ws props h.2 e he

theorem stepDown_sound (kb : KB ι α) (v : ι → α) (s : State ι α) (i : ι) (idx : Option Nat)
    (hwf : WF kb) (hv : Consistent kb v) (hs : Sat v s) : Sat v (stepDown kb i idx s).1 := by
  have hv01 : ∀ k, 0 ≤ v k ∧ v k ≤ 1 := fun k => ⟨(hv k).1, (hv k).2.1⟩
  obtain ⟨h0, h1, hval⟩ := hv i
  have conn : Sat v (if arrested kb s i then (s, (0:α)) else
      writeOps (enumFrom 0 (List.zip (kb i).ops (actDown (kb i) (s i) s))) idx s).1 := by
    split
    · exact hs
    · apply writeOps_sound v hv01 _ _ _ _ hs
      intro e he
      have hmem := mem_enumFrom _ _ e he
      rcases actDown_has kb v s i hwf hv hs with h | h
      · exact zip_has v _ _ _ h e.2 hmem
      · rw [h] at hmem; simp at hmem
  unfold stepDown
  simp only
  cases hkind : (kb i).kind with
  | atom => simpa using hs
  | neg =>
    simp only
    cases hops : (kb i).ops with
    | nil => simpa using hs
    | cons j rest =>
      simp only
      apply hs.update
      apply aggregate_has _ _ _ _ (hv01 j).1 (hv01 j).2 (hs j)
      have : v i = 1 - v j := by apply hval; unfold nodeVal; rw [hkind, hops]
      unfold negB Bounds.Has; simp only
      exact ⟨by linarith [(hs i).2], by linarith [(hs i).1]⟩
  | and => simpa using conn
  | or => simpa using conn
  | implies => simpa using conn

theorem runStep_sound (kb : KB ι α) (v : ι → α) (s : State ι α) (st : Step ι)
    (hwf : WF kb) (hv : Consistent kb v) (hs : Sat v s) : Sat v (runStep kb st s).1 := by
  cases st with
  | up i => exact stepUp_sound kb v s i hwf hv hs
  | down i idx => exact stepDown_sound kb v s i idx hwf hv hs

theorem runSteps_sound (kb : KB ι α) (v : ι → α) (steps : List (Step ι)) (s : State ι α)
    (hwf : WF kb) (hv : Consistent kb v) (hs : Sat v s) : Sat v (runSteps kb steps s).1 := by
  induction steps generalizing s with
  | nil => simpa [runSteps] using hs
  | cons st rest ih =>
    simp only [runSteps]
    exact ih _ (runStep_sound kb v s st hwf hv hs)

theorem sweep_sound (kb : KB ι α) (v : ι → α) (cfg : InferCfg ι α) (s : State ι α)
    (hwf : WF kb) (hv : Consistent kb v) (hs : Sat v s) : Sat v (sweep kb cfg s).1 := by
  unfold sweep runPass
  exact runSteps_sound kb v _ _ hwf hv (runSteps_sound kb v _ s hwf hv hs)

theorem infer_sound (kb : KB ι α) (v : ι → α) (cfg : InferCfg ι α) (fuel : Nat) (s : State ι α)
    (hwf : WF kb) (hv : Consistent kb v) (hs : Sat v s) : Sat v (infer kb cfg fuel s).state := by
  induction fuel generalizing s with
  | zero => simpa [infer] using hs
  | succ n ih =>
    unfold infer
    split
    · exact hs
    · simp only
      split
      · exact sweep_sound kb v cfg s hwf hv hs
      · exact ih _ (sweep_sound kb v cfg s hwf hv hs)

theorem runOp_sound (kb : KB ι α) (v : ι → α) (o : Op ι α) (s : State ι α)
    (hwf : WF kb) (hv : Consistent kb v) (hs : Sat v s) : Sat v (runOp kb o s) := by
  cases o with
  | call c => exact runSteps_sound kb v _ s hwf hv hs
  | pass sched => exact runSteps_sound kb v _ s hwf hv hs
  | infer cfg fuel => exact infer_sound kb v cfg fuel s hwf hv hs

theorem run_sound (kb : KB ι α) (v : ι → α) (ops : List (Op ι α)) (s : State ι α)
    (hwf : WF kb) (hv : Consistent kb v) (hs : Sat v s) : Sat v (run kb ops s) := by
  induction ops generalizing s with
  | nil => simpa [run] using hs
  | cons o rest ih =>
    simp only [run, List.foldl_cons]
    exact ih _ (runOp_sound kb v o s hwf hv hs)

end LNN
