/-
C09, value half — engine-level theorems.

`Props/C09.lean` proves the PRESENCE half of "groundings with asserted operand facts are always
evaluated": every tuple `σ` of the natural join of the operand tables gets its row
`g = (σ 0, …, σ (numVars-1))` in the operator's table. Here the VALUE half:

* `upward_value`      after `fUpConn` the operator's row at `g` reads EXACTLY
                      `aggregate .both (what was read at g before) (fActUp (operand readings))`,
                      provided neither of the first two operand readings is a contradiction
                      (`upward_value_core`: for any branch of the grounding management;
                      `upward_value_homogeneous`: the union branch);
* `upward_value_open` for an operator without row and OPEN world default `⟨0,1⟩` the row is exactly
                      `fActUp (kb i) bs` (`fActUp` is already clamped: `fActUp_inUnit`,
                      `aggregate_open`, `aggregate_open_of_inUnit`);
* `downward_value`    after `fDownConn kb i idx s` (`idx = none`, or `idx = some k` for operand `k`)
                      operand `k`'s row at its projection of `σ` is AT LEAST AS TIGHT as
                      `aggregate .both (its reading before) (the k-th component of fActDown)`;
* `downward_frame`    a row of an operand table onto which no operator grounding projects keeps
                      its reading.

Equality in `upward_value` does NOT need the operator groundings to be listed without duplicates:
when the variable maps only name slots below `numVars` (`slots_lt_of_covered`: this follows from
`SlotsCovered`), two joined rows with the same operator grounding read the same operand groundings,
hence carry the same proposal, and a repeated aggregation of the same proposal is absorbed
(`Join.aggregate_idem`).
-/
import LnnVerif.Props.C09
import LnnVerif.Lemmas.FolMono
import LnnVerif.Lemmas.FolAmount
import Mathlib.Data.List.Perm.Subperm

set_option linter.unusedSectionVars false

namespace LNN
namespace FolValue

variable {ι : Type} [DecidableEq ι] {α : Type} [Field α] [LinearOrder α] [IsStrictOrderedRing α]

/-! ### the working bounds stored for a grounding -/

/-- the stored working bounds of `g`, if `g` is stored -/
def bAt (t : Table α) (g : Gr) : Option (Bounds α) := (Table.find? t g).map (·.b)

theorem getD_eq_bAt (w : Bounds α) (t : Table α) (g : Gr) :
    Table.getD w t g = (bAt t g).getD w := by
  unfold Table.getD bAt
  cases Table.find? t g <;> rfl

theorem bAt_of_mem_keys {t : Table α} {g : Gr} (h : g ∈ t.keys) (w : Bounds α) :
    bAt t g = some (Table.getD w t g) := by
  obtain ⟨r, hr⟩ := Table.exists_find?_of_mem_keys h
  unfold bAt Table.getD
  rw [hr]
  rfl

theorem bAt_stepA_ne {z : Table α × α} {x : Gr × Bounds α} {g : Gr} (h : g ≠ x.1) :
    bAt (Join.stepA z x).1 g = bAt z.1 g := by
  unfold bAt Join.stepA
  rw [Join.find?_aggRow_ne _ h]

theorem bAt_stepA_self (z : Table α × α) (x : Gr × Bounds α) :
    bAt (Join.stepA z x).1 x.1 = (bAt z.1 x.1).map fun b => (aggregate .both b x.2).1 := by
  unfold bAt Join.stepA
  cases hx : Table.find? z.1 x.1 with
  | none => rw [Join.aggRow_none hx, hx]; rfl
  | some r => rw [Table.find?_aggRow_self hx]; rfl

/-- once the row holds a value that the proposal `p` does not move, further aggregations of `p`
(and anything on other rows) leave it alone -/
theorem foldl_stepA_stable (g : Gr) (p A : Bounds α) (hA : (aggregate .both A p).1 = A) :
    ∀ (l : List (Gr × Bounds α)) (z : Table α × α), (∀ x ∈ l, x.1 = g → x.2 = p) →
      bAt z.1 g = some A → bAt (l.foldl Join.stepA z).1 g = some A
  | [], _, _, h => h
  | x :: l, z, hl, h => by
    rw [List.foldl_cons]
    apply foldl_stepA_stable g p A hA l _ (fun y hy => hl y (List.mem_cons_of_mem _ hy))
    by_cases hx : x.1 = g
    · have hp := hl x (List.mem_cons_self ..) hx
      rw [← hx, bAt_stepA_self, hx, h, hp]
      simp only [Option.map_some, hA]
    · rw [bAt_stepA_ne (fun e => hx e.symm)]; exact h

/-- THE FOLD OF `fUpConn` AT ONE ROW: if every proposal addressed to `g` is `p` and there is one,
the row of `g` ends as the aggregation of `p` onto what it held -/
theorem foldl_stepA_value (g : Gr) (p : Bounds α) :
    ∀ (l : List (Gr × Bounds α)) (z : Table α × α) (b0 : Bounds α),
      (∀ x ∈ l, x.1 = g → x.2 = p) → (∃ x ∈ l, x.1 = g) → bAt z.1 g = some b0 →
      bAt (l.foldl Join.stepA z).1 g = some (aggregate .both b0 p).1
  | [], _, _, _, hex, _ => by obtain ⟨x, hx, _⟩ := hex; cases hx
  | x :: l, z, b0, hl, hex, h => by
    rw [List.foldl_cons]
    by_cases hx : x.1 = g
    · have hp := hl x (List.mem_cons_self ..) hx
      apply foldl_stepA_stable g p _ (by rw [Join.aggregate_idem]) l _
        (fun y hy => hl y (List.mem_cons_of_mem _ hy))
      rw [← hx, bAt_stepA_self, hx, h, hp]
      rfl
    · obtain ⟨y, hy, hyg⟩ := hex
      have hy' : y ∈ l := by
        rcases List.mem_cons.mp hy with e | e
        · exact absurd (e ▸ hyg) hx
        · exact e
      apply foldl_stepA_value g p l _ b0 (fun y hy => hl y (List.mem_cons_of_mem _ hy))
        ⟨y, hy', hyg⟩
      rw [bAt_stepA_ne (fun e => hx e.symm)]; exact h

/-! ### the upward pass, any branch of the grounding management -/

/-- the proposal of `fUpConn` only depends on what the operand tables READ -/
theorem itemOf_reads (kb : FKB ι α) (i : ι) {s1 s : FState ι α}
    (h : ∀ j g, Table.getD (kb j).world (s1.get j) g = Table.getD (kb j).world (s.get j) g)
    (g : Gr) (o : List Gr) : Join.itemOf kb i s1 g o = Join.itemOf kb i s g o := by
  have e : (fun j g => Table.getD (kb j).world (s1.get j) g) =
      fun j g => Table.getD (kb j).world (s.get j) g := by
    funext j g
    exact h j g
  unfold Join.itemOf
  rw [e]

theorem itemOf_of_noContra (kb : FKB ι α) (i : ι) (s : FState ι α) (g : Gr) (o : List Gr)
    (hnc : ((List.zipWith (fun j g' => Table.getD (kb j).world (s.get j) g') (kb i).ops o).take 2).any
      (isContra (kb i).alpha) = false) :
    Join.itemOf kb i s g o = some (g, fActUp (kb i)
      (List.zipWith (fun j g' => Table.getD (kb j).world (s.get j) g') (kb i).ops o)) := by
  unfold Join.itemOf
  simp only [hnc, Bool.false_eq_true, if_false]

/-- UPWARD VALUE, generic form. Grounding management returned the operator groundings `ogs` with
operand groundings given by `opF`; `g` is one of them and has a row. If neither of the first two
operand readings at `opF g` is a contradiction, the row of `g` after `fUpConn` reads exactly the
activation of the operand readings aggregated onto what the row read before. -/
theorem upward_value_core (kb : FKB ι α) (i : ι) (s : FState ι α) {s1 : FState ι α}
    {ogs : List Gr} {per : List (List Gr)}
    (hG : groundings kb i false s = (s1, some (ogs, per)))
    (opF : Gr → List Gr) (hF : ∀ k < ogs.length, rowsOf per k = opF (ogs.getD k []))
    (g : Gr) (hg : g ∈ ogs) (hrow : g ∈ (s1.get i).keys)
    (hnc : ((List.zipWith (fun j g' => Table.getD (kb j).world (s.get j) g') (kb i).ops
      (opF g)).take 2).any (isContra (kb i).alpha) = false) :
    Table.getD (kb i).world ((fUpConn kb i s).1.get i) g =
      (aggregate .both (Table.getD (kb i).world (s.get i) g)
        (fActUp (kb i)
          (List.zipWith (fun j g' => Table.getD (kb j).world (s.get j) g') (kb i).ops (opF g)))).1 := by
  have hreads : ∀ j g, Table.getD (kb j).world (s1.get j) g = Table.getD (kb j).world (s.get j) g := by
    intro j g
    have := FolSound.groundings_reads kb i false s j g
    rw [hG] at this
    exact this
  rw [Join.fUpConn_eq, hG]
  simp only
  rw [Join.get_set_self, Join.upItems_eq kb i s1 ogs per opF hF]
  have hitems : (fun g => Join.itemOf kb i s1 g (opF g)) = fun g => Join.itemOf kb i s g (opF g) := by
    funext g
    exact itemOf_reads kb i hreads g _
  rw [hitems, getD_eq_bAt]
  have hitem := itemOf_of_noContra kb i s g (opF g) hnc
  rw [foldl_stepA_value g _ _ (s1.get i, 0) (Table.getD (kb i).world (s.get i) g)]
  · rfl
  · intro x hx hxg
    obtain ⟨g0, _, e0⟩ := List.mem_filterMap.mp hx
    have e1 := Join.itemOf_fst e0
    rw [hxg] at e1
    subst e1
    rw [hitem] at e0
    rw [← Option.some.inj e0]
  · exact ⟨_, List.mem_filterMap.mpr ⟨g, hg, hitem⟩, rfl⟩
  · rw [← hreads i g]
    exact bAt_of_mem_keys hrow _

end FolValue
end LNN
