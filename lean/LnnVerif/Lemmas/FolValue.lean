/-
C09, value half — engine-level theorems.

`Props/C09.lean` proves the PRESENCE half of "groundings with asserted operand facts are always
evaluated": every tuple `σ` of the natural join of the operand tables gets its row
`g = (σ 0, …, σ (numVars-1))` in the operator's table. Here the VALUE half:

* `upward_value`      after `fUpConn` the operator's row at `g` reads EXACTLY
                      `aggregate .both (what was read at g before) (fActUp (operand readings))`,
                      provided neither of the first two operand readings is a contradiction
                      (`upward_value_core`: for any branch of the grounding management;
                      `upward_value_homogeneous`: the union branch);
* `upward_value_open` for an operator without row and OPEN world default `⟨0,1⟩` the row is exactly
                      `fActUp (kb i) bs` (`fActUp` is already clamped: `fActUp_inUnit`,
                      `aggregate_open`, `aggregate_open_of_inUnit`);
* `downward_value`    after `fDownConn kb i idx s` (`idx = none`, or `idx = some k` for operand `k`)
                      operand `k`'s row at its projection of `σ` is AT LEAST AS TIGHT as
                      `aggregate .both (its reading before) (the k-th component of fActDown)`
                      (`downward_value_core`: any branch of the grounding management);
* `downward_frame`    a row of an operand table onto which no operator grounding projects keeps
                      its reading.

No range hypothesis (`WorldsInUnit`, `InUnit`) is needed anywhere: `aggregate` clamps, so a write
onto stored bounds outside `[0,1]` need not tighten them, but it does after clamping (`CT`,
`writeMerged_tct`), and the aggregate in the statements only sees the previous bounds through the
clamp (`aggregate_mono_ct`). This matters when one formula occupies several operand positions: its
table is then written several times in one `fDownConn`.

Equality in `upward_value` does NOT need the operator groundings to be listed without duplicates:
when the variable maps only name slots below `numVars` (`slots_lt_of_covered`: this follows from
`SlotsCovered`), two joined rows with the same operator grounding read the same operand groundings,
hence carry the same proposal, and a repeated aggregation of the same proposal is absorbed
(`Join.aggregate_idem`).
-/
import LnnVerif.Props.C09
import LnnVerif.Lemmas.FolAmount
import Mathlib.Data.List.Perm.Subperm

set_option linter.unusedSectionVars false

namespace LNN
namespace FolValue

variable {ι : Type} [DecidableEq ι] {α : Type} [Field α] [LinearOrder α] [IsStrictOrderedRing α]

/-! ### the working bounds stored for a grounding -/

/-- the stored working bounds of `g`, if `g` is stored -/
def bAt (t : Table α) (g : Gr) : Option (Bounds α) := (Table.find? t g).map (·.b)

theorem getD_eq_bAt (w : Bounds α) (t : Table α) (g : Gr) :
    Table.getD w t g = (bAt t g).getD w := by
  unfold Table.getD bAt
  cases Table.find? t g <;> rfl

theorem bAt_of_mem_keys {t : Table α} {g : Gr} (h : g ∈ t.keys) (w : Bounds α) :
    bAt t g = some (Table.getD w t g) := by
  obtain ⟨r, hr⟩ := Table.exists_find?_of_mem_keys h
  unfold bAt Table.getD
  rw [hr]
  rfl

theorem bAt_stepA_ne {z : Table α × α} {x : Gr × Bounds α} {g : Gr} (h : g ≠ x.1) :
    bAt (Join.stepA z x).1 g = bAt z.1 g := by
  unfold bAt Join.stepA
  rw [Join.find?_aggRow_ne _ h]

theorem bAt_stepA_self (z : Table α × α) (x : Gr × Bounds α) :
    bAt (Join.stepA z x).1 x.1 = (bAt z.1 x.1).map fun b => (aggregate .both b x.2).1 := by
  unfold bAt Join.stepA
  cases hx : Table.find? z.1 x.1 with
  | none => rw [Join.aggRow_none hx, hx]; rfl
  | some r => rw [Table.find?_aggRow_self hx]; rfl

/-- once the row holds a value that the proposal `p` does not move, further aggregations of `p`
(and anything on other rows) leave it alone -/
theorem foldl_stepA_stable (g : Gr) (p A : Bounds α) (hA : (aggregate .both A p).1 = A) :
    ∀ (l : List (Gr × Bounds α)) (z : Table α × α), (∀ x ∈ l, x.1 = g → x.2 = p) →
      bAt z.1 g = some A → bAt (l.foldl Join.stepA z).1 g = some A
  | [], _, _, h => h
  | x :: l, z, hl, h => by
    rw [List.foldl_cons]
    apply foldl_stepA_stable g p A hA l _ (fun y hy => hl y (List.mem_cons_of_mem _ hy))
    by_cases hx : x.1 = g
    · have hp := hl x (List.mem_cons_self ..) hx
      rw [← hx, bAt_stepA_self, hx, h, hp]
      simp only [Option.map_some, hA]
    · rw [bAt_stepA_ne (fun e => hx e.symm)]; exact h

/-- THE FOLD OF `fUpConn` AT ONE ROW: if every proposal addressed to `g` is `p` and there is one,
the row of `g` ends as the aggregation of `p` onto what it held -/
theorem foldl_stepA_value (g : Gr) (p : Bounds α) :
    ∀ (l : List (Gr × Bounds α)) (z : Table α × α) (b0 : Bounds α),
      (∀ x ∈ l, x.1 = g → x.2 = p) → (∃ x ∈ l, x.1 = g) → bAt z.1 g = some b0 →
      bAt (l.foldl Join.stepA z).1 g = some (aggregate .both b0 p).1
  | [], _, _, _, hex, _ => by obtain ⟨x, hx, _⟩ := hex; cases hx
  | x :: l, z, b0, hl, hex, h => by
    rw [List.foldl_cons]
    by_cases hx : x.1 = g
    · have hp := hl x (List.mem_cons_self ..) hx
      apply foldl_stepA_stable g p _ (by rw [Join.aggregate_idem]) l _
        (fun y hy => hl y (List.mem_cons_of_mem _ hy))
      rw [← hx, bAt_stepA_self, hx, h, hp]
      rfl
    · obtain ⟨y, hy, hyg⟩ := hex
      have hy' : y ∈ l := by
        rcases List.mem_cons.mp hy with e | e
        · exact absurd (e ▸ hyg) hx
        · exact e
      apply foldl_stepA_value g p l _ b0 (fun y hy => hl y (List.mem_cons_of_mem _ hy))
        ⟨y, hy', hyg⟩
      rw [bAt_stepA_ne (fun e => hx e.symm)]; exact h

/-! ### the upward pass, any branch of the grounding management -/

/-- the proposal of `fUpConn` only depends on what the operand tables READ -/
theorem itemOf_reads (kb : FKB ι α) (i : ι) {s1 s : FState ι α}
    (h : ∀ j g, Table.getD (kb j).world (s1.get j) g = Table.getD (kb j).world (s.get j) g)
    (g : Gr) (o : List Gr) : Join.itemOf kb i s1 g o = Join.itemOf kb i s g o := by
  have e : (fun j g => Table.getD (kb j).world (s1.get j) g) =
      fun j g => Table.getD (kb j).world (s.get j) g := by
    funext j g
    exact h j g
  unfold Join.itemOf
  rw [e]

theorem itemOf_of_noContra (kb : FKB ι α) (i : ι) (s : FState ι α) (g : Gr) (o : List Gr)
    (hnc : ((List.zipWith (fun j g' => Table.getD (kb j).world (s.get j) g') (kb i).ops o).take 2).any
      (isContra (kb i).alpha) = false) :
    Join.itemOf kb i s g o = some (g, fActUp (kb i)
      (List.zipWith (fun j g' => Table.getD (kb j).world (s.get j) g') (kb i).ops o)) := by
  unfold Join.itemOf
  simp only [hnc, Bool.false_eq_true, if_false]

/-- UPWARD VALUE, generic form. Grounding management returned the operator groundings `ogs` with
operand groundings given by `opF`; `g` is one of them and has a row. If neither of the first two
operand readings at `opF g` is a contradiction, the row of `g` after `fUpConn` reads exactly the
activation of the operand readings aggregated onto what the row read before. -/
theorem upward_value_core (kb : FKB ι α) (i : ι) (s : FState ι α) {s1 : FState ι α}
    {ogs : List Gr} {per : List (List Gr)}
    (hG : groundings kb i false s = (s1, some (ogs, per)))
    (opF : Gr → List Gr) (hF : ∀ k < ogs.length, rowsOf per k = opF (ogs.getD k []))
    (g : Gr) (hg : g ∈ ogs) (hrow : g ∈ (s1.get i).keys)
    (hnc : ((List.zipWith (fun j g' => Table.getD (kb j).world (s.get j) g') (kb i).ops
      (opF g)).take 2).any (isContra (kb i).alpha) = false) :
    Table.getD (kb i).world ((fUpConn kb i s).1.get i) g =
      (aggregate .both (Table.getD (kb i).world (s.get i) g)
        (fActUp (kb i)
          (List.zipWith (fun j g' => Table.getD (kb j).world (s.get j) g') (kb i).ops (opF g)))).1 := by
  have hreads : ∀ j g, Table.getD (kb j).world (s1.get j) g = Table.getD (kb j).world (s.get j) g := by
    intro j g
    have := FolSound.groundings_reads kb i false s j g
    rw [hG] at this
    exact this
  rw [Join.fUpConn_eq, hG]
  simp only
  rw [Join.get_set_self, Join.upItems_eq kb i s1 ogs per opF hF]
  have hitems : (fun g => Join.itemOf kb i s1 g (opF g)) = fun g => Join.itemOf kb i s g (opF g) := by
    funext g
    exact itemOf_reads kb i hreads g _
  rw [hitems, getD_eq_bAt]
  have hitem := itemOf_of_noContra kb i s g (opF g) hnc
  rw [foldl_stepA_value g _ _ (s1.get i, 0) (Table.getD (kb i).world (s.get i) g)]
  · rfl
  · intro x hx hxg
    obtain ⟨g0, _, e0⟩ := List.mem_filterMap.mp hx
    have e1 := Join.itemOf_fst e0
    rw [hxg] at e1
    subst e1
    rw [hitem] at e0
    rw [← Option.some.inj e0]
  · exact ⟨_, List.mem_filterMap.mpr ⟨g, hg, hitem⟩, rfl⟩
  · rw [← hreads i g]
    exact bAt_of_mem_keys hrow _

/-! ### the join branch: a tuple `σ` of the natural join -/

/-- `SlotsCovered` pins the slots down: `numVars` distinct slots occur, all of `0 … numVars-1` occur,
hence no other slot occurs. -/
theorem slots_lt_of_covered {n : FNode ι α} (hc : SlotsCovered n) :
    ∀ m ∈ n.opmap, ∀ c ∈ m, c < numVars n := by
  intro m hm c hcm
  have hmem : c ∈ dedup n.opmap.flatten :=
    Join.mem_dedup.mpr (List.mem_flatten.mpr ⟨m, hm, hcm⟩)
  have hsub : List.range (numVars n) ⊆ dedup n.opmap.flatten :=
    fun x hx => Join.mem_dedup.mpr (hc.2 x (List.mem_range.mp hx))
  have hsp : (List.range (numVars n)).Subperm (dedup n.opmap.flatten) :=
    List.subperm_of_subset List.nodup_range hsub
  have hperm := hsp.perm_of_length_le (by simp [numVars])
  exact List.mem_range.mp (hperm.mem_iff.mpr hmem)

/-- the operand readings of the tuple `σ`: operand `j` with variable map `m` is read at `m.map σ` -/
def opReads (kb : FKB ι α) (i : ι) (s : FState ι α) (σ : Nat → Nat) : List (Bounds α) :=
  List.zipWith (fun j m => Table.getD (kb j).world (s.get j) (m.map σ)) (kb i).ops (kb i).opmap

/-- the operator grounding of the tuple `σ` -/
def opGr (kb : FKB ι α) (i : ι) (σ : Nat → Nat) : Gr := (List.range (numVars (kb i))).map σ

theorem hetF_opGr (kb : FKB ι α) (i : ι) (σ : Nat → Nat)
    (hslots : ∀ m ∈ (kb i).opmap, ∀ c ∈ m, c < numVars (kb i)) :
    Join.hetF (kb i) (opGr kb i σ) = (kb i).opmap.map fun m => m.map σ := by
  unfold Join.hetF opGr
  apply List.map_congr_left
  intro m hm
  apply List.map_congr_left
  intro c hc
  simp [List.getD_eq_getElem?_getD, hslots m hm c hc]

theorem zipWith_hetF_opGr (kb : FKB ι α) (i : ι) (s : FState ι α) (σ : Nat → Nat)
    (hslots : ∀ m ∈ (kb i).opmap, ∀ c ∈ m, c < numVars (kb i)) :
    List.zipWith (fun j g' => Table.getD (kb j).world (s.get j) g') (kb i).ops
      (Join.hetF (kb i) (opGr kb i σ)) = opReads kb i s σ := by
  rw [hetF_opGr kb i σ hslots, List.zipWith_map_right]
  rfl

/-- **C09, value half, upward.** `σ` is a tuple of the natural join of the operand tables, neither
of its first two operand readings is a contradiction. After `fUpConn` the operator's row at
`(σ 0, …, σ (numVars-1))` reads exactly the truth function of the operand readings, intersected
with (and clamped like) what the row read before — for an absent row: the world default. -/
theorem upward_value (kb : FKB ι α) (i : ι) (s : FState ι α) (σ : Nat → Nat)
    (hh : isHomogeneous (kb i) = false) (hc : SlotsCovered (kb i)) (hσ : InNatJoin kb i s σ)
    (hnc : ((opReads kb i s σ).take 2).any (isContra (kb i).alpha) = false) :
    Table.getD (kb i).world ((fUpConn kb i s).1.get i) (opGr kb i σ) =
      (aggregate .both (Table.getD (kb i).world (s.get i) (opGr kb i σ))
        (fActUp (kb i) (opReads kb i s σ))).1 := by
  have hslots := slots_lt_of_covered hc
  obtain ⟨J, hJ, hne, hrow, _, hcols⟩ := C09_join_exists kb i s σ hh hc hσ
  have hG := Join.groundings_hetero kb i false s hh hJ hne
  have hogs : opGr kb i σ ∈ Join.ogsOf (kb i) J := by
    refine List.mem_map.mpr ⟨_, hrow, Join.project_map σ ?_⟩
    intro c hcr
    exact hcols c (List.mem_range.mp hcr)
  have hkey : opGr kb i σ ∈ ((addAll kb (addAll kb s (List.zip (kb i).ops (Join.perOf (kb i) J)))
      [(i, Join.ogsOf (kb i) J)]).get i).keys := by
    rw [Join.mem_keys_addAll]
    exact .inr ⟨_, List.mem_singleton.mpr rfl, rfl, hogs⟩
  have h := upward_value_core kb i s hG (Join.hetF (kb i)) (Join.rowsOf_het (kb i) J hslots)
    (opGr kb i σ) hogs hkey (by rw [zipWith_hetF_opGr kb i s σ hslots]; exact hnc)
  rw [zipWith_hetF_opGr kb i s σ hslots] at h
  exact h

/-! ### the union branch -/

/-- all operands share one variable tuple: every operand is read at the operator grounding itself -/
def homReads (kb : FKB ι α) (i : ι) (s : FState ι α) (g : Gr) : List (Bounds α) :=
  (kb i).ops.map fun j => Table.getD (kb j).world (s.get j) g

theorem zipWith_homF (kb : FKB ι α) (i : ι) (s : FState ι α) (g : Gr) :
    List.zipWith (fun j g' => Table.getD (kb j).world (s.get j) g') (kb i).ops
      (Join.homF (kb i) g) = homReads kb i s g := by
  unfold Join.homF homReads
  rw [List.zipWith_map_right, List.zipWith_self]

/-- **C09, value half, upward, union branch**: `g` is stored for some operand. -/
theorem upward_value_homogeneous (kb : FKB ι α) (i : ι) (s : FState ι α)
    (hh : isHomogeneous (kb i) = true) (j : ι) (hj : j ∈ (kb i).ops) (g : Gr)
    (hg : g ∈ (s.get j).keys)
    (hnc : ((homReads kb i s g).take 2).any (isContra (kb i).alpha) = false) :
    Table.getD (kb i).world ((fUpConn kb i s).1.get i) g =
      (aggregate .both (Table.getD (kb i).world (s.get i) g)
        (fActUp (kb i) (homReads kb i s g))).1 := by
  have hG := Join.groundings_homog kb i false s hh
  have hgs : g ∈ Join.homGs kb i false s := by
    unfold Join.homGs
    rw [Join.mem_unionKeys]
    exact ⟨(s.get j).keys, List.mem_append_left _ (List.mem_map.mpr ⟨j, hj, rfl⟩), hg⟩
  have hkey : g ∈ ((addAll kb (addAll kb s ((kb i).ops.map fun j => (j, Join.homGs kb i false s)))
      [(i, Join.homGs kb i false s)]).get i).keys := by
    rw [Join.mem_keys_addAll]
    exact .inr ⟨_, List.mem_singleton.mpr rfl, rfl, hgs⟩
  have h := upward_value_core kb i s hG (Join.homF (kb i)) (fun k _ => Join.rowsOf_hom (kb i) _ k)
    g hgs hkey (by rw [zipWith_homF]; exact hnc)
  rw [zipWith_homF] at h
  exact h

/-! ### asserted facts under an OPEN world default -/

/-- aggregating onto UNKNOWN `⟨0,1⟩` is just clamping the proposal … -/
theorem aggregate_open (p : Bounds α) :
    (aggregate .both ⟨0, 1⟩ p).1 = ⟨clamp01 p.lo, clamp01 p.hi⟩ := by
  have h1 : clamp01 (max 0 p.lo) = clamp01 p.lo := by
    unfold clamp01
    rw [← max_assoc, max_self]
  have h2 : clamp01 (min 1 p.hi) = clamp01 p.hi := by
    unfold clamp01
    rw [max_min_distrib_left, max_eq_right (zero_le_one' α), ← min_assoc, min_self]
  simp [aggregate, h1, h2]

/-- … which is the identity on bounds in `[0,1]` -/
theorem aggregate_open_of_inUnit {p : Bounds α} (hp : InUnit p) :
    (aggregate .both ⟨0, 1⟩ p).1 = p := by
  rw [aggregate_open]
  exact Bounds.ext' (clamp01_of_mem hp.1 hp.2.1) (clamp01_of_mem hp.2.2.1 hp.2.2.2)

theorem impliesUp_inUnit (b : α) (ops : List (Opd α)) : InUnit (impliesUp b ops) := by
  unfold impliesUp
  split
  · exact ⟨clamp01_nonneg _, clamp01_le_one _, clamp01_nonneg _, clamp01_le_one _⟩
  · exact ⟨le_rfl, zero_le_one, zero_le_one, le_rfl⟩

/-- the truth functions are clamped: whatever the operand readings, the activation of a connective
is a pair of bounds in `[0,1]` -/
theorem fActUp_inUnit (n : FNode ι α) (bs : List (Bounds α)) : InUnit (fActUp n bs) := by
  have hc : ∀ x y : α, InUnit (⟨clamp01 x, clamp01 y⟩ : Bounds α) := fun x y =>
    ⟨clamp01_nonneg _, clamp01_le_one _, clamp01_nonneg _, clamp01_le_one _⟩
  have h01 : InUnit (⟨0, 1⟩ : Bounds α) := ⟨le_rfl, zero_le_one, zero_le_one, le_rfl⟩
  unfold fActUp
  split
  · exact hc _ _
  · exact hc _ _
  · exact impliesUp_inUnit _ _
  · exact h01

/-- **C09 in the words of the property**: the operator has no row for the grounding yet and an OPEN
world default; all operand facts of `σ` are stored. After upward inference the row reads exactly
the truth function of the operand facts. -/
theorem upward_value_open (kb : FKB ι α) (i : ι) (s : FState ι α) (σ : Nat → Nat)
    (hh : isHomogeneous (kb i) = false) (hc : SlotsCovered (kb i)) (hσ : InNatJoin kb i s σ)
    (hnc : ((opReads kb i s σ).take 2).any (isContra (kb i).alpha) = false)
    (hw : (kb i).world = ⟨0, 1⟩) (hnew : opGr kb i σ ∉ (s.get i).keys) :
    Table.getD (kb i).world ((fUpConn kb i s).1.get i) (opGr kb i σ) =
      fActUp (kb i) (opReads kb i s σ) := by
  rw [upward_value kb i s σ hh hc hσ hnc,
    Table.getD_of_none (Table.find?_eq_none_iff.mpr hnew), hw]
  exact aggregate_open_of_inUnit (fActUp_inUnit _ _)

/-! ### the downward pass: the shape of `fDownConn` -/

/-- the proposals of operator grounding `g` reading the operand groundings `opgs` -/
def dItemOf (kb : FKB ι α) (i : ι) (s1 : FState ι α) (g : Gr) (opgs : List Gr) :
    Option (List Gr × List (Bounds α)) :=
  let bs := List.zipWith (fun j g => Table.getD (kb j).world (s1.get j) g) (kb i).ops opgs
  let ob := Table.getD (kb i).world (s1.get i) g
  if (bs.take 2).any (isContra (kb i).alpha) || isContra (kb i).alpha ob then none
  else some (opgs, fActDown (kb i) ob bs)

def dItems (kb : FKB ι α) (i : ι) (s1 : FState ι α) (ogs : List Gr) (per : List (List Gr)) :
    List (List Gr × List (Bounds α)) :=
  (List.range ogs.length).filterMap fun k => dItemOf kb i s1 (ogs.getD k []) (rowsOf per k)

/-- the proposals that land on operand position `p` -/
def dProps (items : List (List Gr × List (Bounds α))) (p : Nat) : List (Gr × Bounds α) :=
  items.filterMap fun it =>
    match it.1[p]?, it.2[p]? with
    | some g, some b => some (g, b)
    | _, _ => none

/-- the write onto operand position `p.1`, formula `p.2` -/
def dStep (idx : Option Nat) (items : List (List Gr × List (Bounds α))) (acc : FState ι α × α)
    (p : Nat × ι) : FState ι α × α :=
  if idx = none ∨ idx = some p.1 then
    let w := writeMerged (acc.1.get p.2) (dProps items p.1)
    (acc.1.set p.2 w.1, acc.2 + w.2)
  else acc

theorem fDownConn_eq (kb : FKB ι α) (i : ι) (idx : Option Nat) (s : FState ι α) :
    fDownConn kb i idx s =
      match groundings kb i true s with
      | (s1, none) => (s1, 0)
      | (s1, some (ogs, per)) =>
        if (dItems kb i s1 ogs per).isEmpty then (s1, 0) else
          (List.zip (List.range (kb i).ops.length) (kb i).ops).foldl
            (dStep idx (dItems kb i s1 ogs per)) (s1, 0) := rfl

theorem mem_dProps {items : List (List Gr × List (Bounds α))} {p : Nat} {q : Gr × Bounds α} :
    q ∈ dProps items p ↔ ∃ it ∈ items, it.1[p]? = some q.1 ∧ it.2[p]? = some q.2 := by
  unfold dProps
  rw [List.mem_filterMap]
  constructor
  · rintro ⟨it, hit, h⟩
    refine ⟨it, hit, ?_⟩
    split at h
    · next g b hg hb => cases h; exact ⟨hg, hb⟩
    · cases h
  · rintro ⟨it, hit, h1, h2⟩
    exact ⟨it, hit, by simp only [h1, h2]⟩

theorem dItemOf_fst {kb : FKB ι α} {i : ι} {s1 : FState ι α} {g : Gr} {o : List Gr}
    {x : List Gr × List (Bounds α)} (h : dItemOf kb i s1 g o = some x) : x.1 = o := by
  unfold dItemOf at h
  simp only at h
  split at h
  · cases h
  · simp only [Option.some.injEq] at h
    rw [← h]

theorem dItemOf_reads (kb : FKB ι α) (i : ι) {s1 s : FState ι α}
    (h : ∀ j g, Table.getD (kb j).world (s1.get j) g = Table.getD (kb j).world (s.get j) g)
    (g : Gr) (o : List Gr) : dItemOf kb i s1 g o = dItemOf kb i s g o := by
  have e : (fun j g => Table.getD (kb j).world (s1.get j) g) =
      fun j g => Table.getD (kb j).world (s.get j) g := by
    funext j g
    exact h j g
  unfold dItemOf
  rw [e, h i g]

theorem dItemOf_of_noContra (kb : FKB ι α) (i : ι) (s : FState ι α) (g : Gr) (o : List Gr)
    (hnc : ((List.zipWith (fun j g' => Table.getD (kb j).world (s.get j) g') (kb i).ops o).take 2).any
      (isContra (kb i).alpha) = false)
    (hno : isContra (kb i).alpha (Table.getD (kb i).world (s.get i) g) = false) :
    dItemOf kb i s g o = some (o, fActDown (kb i) (Table.getD (kb i).world (s.get i) g)
      (List.zipWith (fun j g' => Table.getD (kb j).world (s.get j) g') (kb i).ops o)) := by
  unfold dItemOf
  simp only [hnc, hno, Bool.or_self, Bool.false_eq_true, if_false]

/-! ### the merged write, at one row -/

theorem btight_foldl_mergeB : ∀ (cs : List (Bounds α)) (c x : Bounds α), x ∈ c :: cs →
    FolAmount.BTight x (cs.foldl mergeB c)
  | [], c, x, hx => by
    rw [List.mem_singleton] at hx
    subst hx
    exact FolAmount.BTight.refl _
  | d :: ds, c, x, hx => by
    rw [List.foldl_cons]
    rcases List.mem_cons.mp hx with e | e
    · subst e
      exact (show FolAmount.BTight x (mergeB x d) from ⟨le_max_left _ _, min_le_left _ _⟩).trans
        (btight_foldl_mergeB ds _ _ (List.mem_cons_self ..))
    · rcases List.mem_cons.mp e with e' | e'
      · subst e'
        exact (show FolAmount.BTight x (mergeB c x) from ⟨le_max_right _ _, min_le_right _ _⟩).trans
          (btight_foldl_mergeB ds _ _ (List.mem_cons_self ..))
      · exact btight_foldl_mergeB ds _ x (List.mem_cons_of_mem _ e')

/-- aggregation is monotone in the previous bounds (no range hypothesis) -/
theorem aggregate_mono_prev {a a' : Bounds α} (h : FolAmount.BTight a a') (p : Bounds α) :
    FolAmount.BTight (aggregate .both a p).1 (aggregate .both a' p).1 := by
  simp only [aggregate, reduceCtorEq, if_false]
  exact ⟨clamp01_mono (max_le_max h.1 le_rfl), clamp01_mono (min_le_min h.2 le_rfl)⟩

theorem wmStep_hits (t : Table α) (props : List (Gr × Bounds α)) (acc : Table α × α) (g : Gr)
    (b : Bounds α) (r : Row α) (hr : Table.find? t g = some r) (hp : (g, b) ∈ props) :
    ∃ m, FolAmount.BTight (aggregate .both r.b b).1 m ∧ InUnit m ∧
      (FolAmount.wmStep t props acc g).1 = acc.1.setB g m := by
  have hc : (aggregate .both r.b b).1 ∈
      (props.filter (·.1 == g)).map fun p => (aggregate .both r.b p.2).1 :=
    List.mem_map.mpr ⟨(g, b), List.mem_filter.mpr ⟨hp, by simp⟩, rfl⟩
  unfold FolAmount.wmStep
  split
  · next h => rw [hr] at h; cases h
  · next r' hr' =>
    rw [hr] at hr'
    cases hr'
    split
    · next hnil => rw [hnil] at hc; cases hc
    · next c cs hcs =>
      have hx : ∀ x ∈ c :: cs, ∃ p, x = (aggregate .both r.b p).1 := by
        intro x hx
        rw [← hcs, List.mem_map] at hx
        obtain ⟨p, _, e⟩ := hx
        exact ⟨p.2, e.symm⟩
      rw [hcs] at hc
      exact ⟨_, btight_foldl_mergeB cs c _ hc, (FolAmount.merged_ok r.b c cs hx).1, rfl⟩

/-- THE MERGED WRITE AT ONE ROW: a proposal `b` addressed to the stored row `g` makes the row at
least as tight as the aggregation of `b` onto the bounds the row held before the call -/
theorem writeMerged_hits (t : Table α) (props : List (Gr × Bounds α)) (g : Gr) (b : Bounds α)
    (r : Row α) (hr : Table.find? t g = some r) (hp : (g, b) ∈ props) :
    ∃ r', Table.find? (writeMerged t props).1 g = some r' ∧
      FolAmount.BTight (aggregate .both r.b b).1 r'.b ∧ InUnit r'.b := by
  rw [FolAmount.writeMerged_eq]
  have hnd := Join.nodup_dedupKeepFirst (props.map (·.1))
  have hmem : g ∈ dedupKeepFirst (props.map (·.1)) :=
    Join.mem_dedupKeepFirst.mpr (List.mem_map.mpr ⟨(g, b), hp, rfl⟩)
  generalize dedupKeepFirst (props.map (·.1)) = ks at hnd hmem
  obtain ⟨l1, l2, rfl⟩ := List.append_of_mem hmem
  obtain ⟨hn1, hn2, hdis⟩ := List.nodup_append.mp hnd
  rw [List.nodup_cons] at hn2
  rw [List.foldl_append, List.foldl_cons]
  have hg1 : g ∉ l1 := fun h => hdis g h g (List.mem_cons_self ..) rfl
  obtain ⟨_, _, f1⟩ := FolAmount.foldl_wmStep_spec t props l1 hn1 (t, 0) (fun _ _ => rfl)
  have e1 : Table.find? (l1.foldl (FolAmount.wmStep t props) (t, 0)).1 g = some r := by
    rw [f1 g hg1]; exact hr
  obtain ⟨m, hm, hmu, hstep⟩ :=
    wmStep_hits t props (l1.foldl (FolAmount.wmStep t props) (t, 0)) g b r hr hp
  have e2 : Table.find? (FolAmount.wmStep t props (l1.foldl (FolAmount.wmStep t props) (t, 0)) g).1 g
      = some { r with b := m } := by
    rw [hstep, Table.find?_setB_self, e1]; rfl
  have hfind2 : ∀ g' ∈ l2,
      Table.find? (FolAmount.wmStep t props (l1.foldl (FolAmount.wmStep t props) (t, 0)) g).1 g'
        = Table.find? t g' := by
    intro g' hg'
    have hne : g' ≠ g := fun e => hn2.1 (e ▸ hg')
    have hnot1 : g' ∉ l1 := fun h => hdis g' h g' (List.mem_cons_of_mem _ hg') rfl
    rw [hstep, Table.find?_setB_of_ne _ _ hne, f1 g' hnot1]
  obtain ⟨_, _, f2⟩ := FolAmount.foldl_wmStep_spec t props l2 hn2.2 _ hfind2
  exact ⟨{ r with b := m }, by rw [f2 g hn2.1]; exact e2, hm, hmu⟩

/-! ### tightening after clamping: what every merged write guarantees WITHOUT range hypotheses -/

/-- `y` is at least as tight as `x` once both are clamped to `[0,1]`, and in range if `x` was.
(`aggregate` clamps, so a write onto bounds outside `[0,1]` may "loosen" them — but never after
clamping, and a written row is in range.) -/
def CT (x y : Bounds α) : Prop :=
  clamp01 x.lo ≤ clamp01 y.lo ∧ clamp01 y.hi ≤ clamp01 x.hi ∧ (InUnit x → InUnit y)

theorem CT.refl (x : Bounds α) : CT x x := ⟨le_rfl, le_rfl, id⟩

theorem CT.trans {x y z : Bounds α} (h1 : CT x y) (h2 : CT y z) : CT x z :=
  ⟨le_trans h1.1 h2.1, le_trans h2.2.1 h1.2.1, fun h => h2.2.2 (h1.2.2 h)⟩

/-- on bounds in range, tightening after clamping is tightening -/
theorem CT.btight {x y : Bounds α} (h : CT x y) (hx : InUnit x) : FolAmount.BTight x y := by
  obtain ⟨h1, h2, h3⟩ := h
  have hy := h3 hx
  rw [clamp01_of_mem hx.1 hx.2.1, clamp01_of_mem hy.1 hy.2.1] at h1
  rw [clamp01_of_mem hy.2.2.1 hy.2.2.2, clamp01_of_mem hx.2.2.1 hx.2.2.2] at h2
  exact ⟨h1, h2⟩

/-- aggregation only sees the previous bounds through the clamp -/
theorem aggregate_mono_ct {a a' : Bounds α} (h : CT a a') (p : Bounds α) :
    FolAmount.BTight (aggregate .both a p).1 (aggregate .both a' p).1 := by
  simp only [aggregate, reduceCtorEq, if_false]
  refine ⟨?_, ?_⟩
  · rw [Join.clamp01_monotone.map_max, Join.clamp01_monotone.map_max]
    exact max_le_max h.1 le_rfl
  · rw [Join.clamp01_monotone.map_min, Join.clamp01_monotone.map_min]
    exact min_le_min h.2.1 le_rfl

theorem ct_merged (r c : Bounds α) (cs : List (Bounds α))
    (hx : ∀ x ∈ c :: cs, ∃ p, x = (aggregate .both r p).1) : CT r (cs.foldl mergeB c) := by
  have hm := (FolAmount.merged_ok r c cs hx).1
  have hc := btight_foldl_mergeB cs c c (List.mem_cons_self ..)
  obtain ⟨p, hp⟩ := hx c (List.mem_cons_self ..)
  have hclo : clamp01 r.lo ≤ c.lo := by
    rw [hp]
    simp only [aggregate, reduceCtorEq, if_false]
    exact clamp01_mono (le_max_left _ _)
  have hchi : c.hi ≤ clamp01 r.hi := by
    rw [hp]
    simp only [aggregate, reduceCtorEq, if_false]
    exact clamp01_mono (min_le_left _ _)
  refine ⟨?_, ?_, fun _ => hm⟩
  · rw [clamp01_of_mem hm.1 hm.2.1]; exact le_trans hclo hc.1
  · rw [clamp01_of_mem hm.2.2.1 hm.2.2.2]; exact le_trans hc.2 hchi

/-- every stored row stays stored and `CT`-tightens -/
def TCT (t t' : Table α) : Prop :=
  ∀ g r, Table.find? t g = some r → ∃ r', Table.find? t' g = some r' ∧ CT r.b r'.b

theorem TCT.refl (t : Table α) : TCT t t := fun _ r h => ⟨r, h, CT.refl _⟩

theorem TCT.trans {t u v : Table α} (h1 : TCT t u) (h2 : TCT u v) : TCT t v := by
  intro g r hr
  obtain ⟨r1, hr1, c1⟩ := h1 g r hr
  obtain ⟨r2, hr2, c2⟩ := h2 g r1 hr1
  exact ⟨r2, hr2, c1.trans c2⟩

/-- the merged write, any proposals, any table: no range hypothesis -/
theorem writeMerged_tct (t : Table α) (props : List (Gr × Bounds α)) :
    TCT t (writeMerged t props).1 := by
  apply Table.writeMerged_induct' t props (fun acc => TCT t acc) _ (TCT.refl t)
  intro acc g r c cs ha hr hx g' r0 hr0
  obtain ⟨r', hr', hct⟩ := ha g' r0 hr0
  by_cases e : g' = g
  · rw [e] at hr0 hr' ⊢
    rw [hr] at hr0
    cases hr0
    exact ⟨{ r' with b := cs.foldl mergeB c }, by rw [Table.find?_setB_self, hr']; rfl,
      ct_merged _ c cs hx⟩
  · exact ⟨r', by rw [Table.find?_setB_of_ne _ _ e]; exact hr', hct⟩

def SCT (s s' : FState ι α) : Prop := ∀ j, TCT (s.get j) (s'.get j)

theorem SCT.refl (s : FState ι α) : SCT s s := fun _ => TCT.refl _

theorem SCT.trans {s t u : FState ι α} (h1 : SCT s t) (h2 : SCT t u) : SCT s u :=
  fun j => (h1 j).trans (h2 j)

/-! ### the downward pass: every write `CT`-tightens, the write of operand `k` hits -/

theorem dStep_sct (idx : Option Nat) (items : List (List Gr × List (Bounds α)))
    (acc : FState ι α × α) (p : Nat × ι) : SCT acc.1 (dStep idx items acc p).1 := by
  unfold dStep
  split
  · intro j
    by_cases e : j = p.2
    · rw [e]
      simp only
      rw [FState.get_set_self]
      exact writeMerged_tct _ _
    · simp only
      rw [FState.get_set_of_ne _ _ e]
      exact TCT.refl _
  · exact SCT.refl _

theorem foldl_dStep_sct (idx : Option Nat) (items : List (List Gr × List (Bounds α))) :
    ∀ (l : List (Nat × ι)) (acc : FState ι α × α), SCT acc.1 (l.foldl (dStep idx items) acc).1
  | [], acc => SCT.refl _
  | x :: l, acc => by
    rw [List.foldl_cons]
    exact (dStep_sct idx items acc x).trans (foldl_dStep_sct idx items l _)

theorem foldl_dStep_hits (idx : Option Nat) (items : List (List Gr × List (Bounds α)))
    (s1 : FState ι α) (k : Nat) (j : ι) (g : Gr) (b : Bounds α) (r1 : Row α)
    (hr1 : Table.find? (s1.get j) g = some r1) (hp : (g, b) ∈ dProps items k)
    (hidx : idx = none ∨ idx = some k) :
    ∀ (l : List (Nat × ι)) (acc : FState ι α × α), (k, j) ∈ l → SCT s1 acc.1 →
      ∃ r', Table.find? ((l.foldl (dStep idx items) acc).1.get j) g = some r' ∧
        FolAmount.BTight (aggregate .both r1.b b).1 r'.b
  | [], _, hmem, _ => by cases hmem
  | x :: l, acc, hmem, hacc => by
    rw [List.foldl_cons]
    by_cases hx : x = (k, j)
    · subst hx
      obtain ⟨r, hr, hct⟩ := hacc j g r1 hr1
      obtain ⟨r2, hr2, ht2, hu2⟩ := writeMerged_hits (acc.1.get j) (dProps items k) g b r hr hp
      have hstep : (dStep idx items acc (k, j)).1 =
          acc.1.set j (writeMerged (acc.1.get j) (dProps items k)).1 := by
        unfold dStep
        rw [if_pos hidx]
      have hr2' : Table.find? ((dStep idx items acc (k, j)).1.get j) g = some r2 := by
        rw [hstep, FState.get_set_self]; exact hr2
      obtain ⟨r', hr', hct'⟩ :=
        foldl_dStep_sct idx items l (dStep idx items acc (k, j)) j g r2 hr2'
      exact ⟨r', hr', ((aggregate_mono_ct hct b).trans ht2).trans (hct'.btight hu2)⟩
    · have hmem' : (k, j) ∈ l := by
        rcases List.mem_cons.mp hmem with e | e
        · exact absurd e.symm hx
        · exact e
      exact foldl_dStep_hits idx items s1 k j g b r1 hr1 hp hidx l _ hmem'
        (hacc.trans (dStep_sct idx items acc x))

/-- DOWNWARD VALUE, generic form. `k0` is an index of an operator grounding returned by grounding
management; neither of its first two operand readings nor its own reading is a contradiction.
Then operand `k`'s row at the `k`-th operand grounding of `k0` is, after `fDownConn`, at least as
tight as the `k`-th downward proposal aggregated onto what the row read before. -/
theorem downward_value_core (kb : FKB ι α) (i : ι) (idx : Option Nat) (s : FState ι α)
    {s1 : FState ι α} {ogs : List Gr} {per : List (List Gr)}
    (hG : groundings kb i true s = (s1, some (ogs, per)))
    (k0 : Nat) (hk0 : k0 < ogs.length)
    (hnc : ((List.zipWith (fun j g' => Table.getD (kb j).world (s.get j) g') (kb i).ops
      (rowsOf per k0)).take 2).any (isContra (kb i).alpha) = false)
    (hno : isContra (kb i).alpha (Table.getD (kb i).world (s.get i) (ogs.getD k0 [])) = false)
    (k : Nat) (j : ι) (g : Gr) (b : Bounds α)
    (hj : (kb i).ops[k]? = some j) (hg : (rowsOf per k0)[k]? = some g)
    (hgk : g ∈ (s1.get j).keys)
    (hb : (fActDown (kb i) (Table.getD (kb i).world (s.get i) (ogs.getD k0 []))
      (List.zipWith (fun j g' => Table.getD (kb j).world (s.get j) g') (kb i).ops
        (rowsOf per k0)))[k]? = some b)
    (hidx : idx = none ∨ idx = some k) :
    FolAmount.BTight (aggregate .both (Table.getD (kb j).world (s.get j) g) b).1
      (Table.getD (kb j).world ((fDownConn kb i idx s).1.get j) g) := by
  have hreads : ∀ j g, Table.getD (kb j).world (s1.get j) g = Table.getD (kb j).world (s.get j) g := by
    intro j g
    have := FolSound.groundings_reads kb i true s j g
    rw [hG] at this
    exact this
  have hP1 : SCT s1 s1 := SCT.refl s1
  -- the item of `k0`
  have hitem : dItemOf kb i s1 (ogs.getD k0 []) (rowsOf per k0) = some (rowsOf per k0,
      fActDown (kb i) (Table.getD (kb i).world (s.get i) (ogs.getD k0 []))
        (List.zipWith (fun j g' => Table.getD (kb j).world (s.get j) g') (kb i).ops
          (rowsOf per k0))) := by
    rw [dItemOf_reads kb i hreads]
    exact dItemOf_of_noContra kb i s _ _ hnc hno
  have hmem : _ ∈ dItems kb i s1 ogs per :=
    List.mem_filterMap.mpr ⟨k0, List.mem_range.mpr hk0, hitem⟩
  have hne : (dItems kb i s1 ogs per).isEmpty = false := by
    cases h : dItems kb i s1 ogs per with
    | nil => rw [h] at hmem; cases hmem
    | cons _ _ => rfl
  have hprop : (g, b) ∈ dProps (dItems kb i s1 ogs per) k :=
    mem_dProps.mpr ⟨_, hmem, hg, hb⟩
  obtain ⟨hlt, _⟩ := List.getElem?_eq_some_iff.mp hj
  have hzip : (k, j) ∈ List.zip (List.range (kb i).ops.length) (kb i).ops :=
    List.mem_iff_getElem?.mpr ⟨k, by
      rw [List.getElem?_zip_eq_some]
      exact ⟨by simp [hlt], hj⟩⟩
  obtain ⟨r1, hr1⟩ := Table.exists_find?_of_mem_keys hgk
  obtain ⟨r', hr', ht⟩ := foldl_dStep_hits idx (dItems kb i s1 ogs per) s1 k j g b r1 hr1 hprop hidx
    _ (s1, 0) hzip hP1
  rw [fDownConn_eq, hG]
  simp only [hne, Bool.false_eq_true, if_false]
  rw [Table.getD_of_some hr', ← hreads j g, Table.getD_of_some hr1]
  exact ht

/-- **C09, value half, downward.** `σ` is a tuple of the natural join of the operand tables; neither
of its first two operand readings nor the operator's own reading at `σ`'s grounding is a
contradiction. After `fDownConn kb i idx s` (`idx = none`, or `idx = some k`) operand `k`'s row at its
projection `m.map σ` is at least as tight as the `k`-th downward proposal aggregated onto what the
row read before. (Several operator groundings can project onto the same operand row; their
proposals are merged by `(max L, min U)`, so "at least as tight as each" is what holds.) -/
theorem downward_value (kb : FKB ι α) (i : ι) (idx : Option Nat) (s : FState ι α) (σ : Nat → Nat)
    (hh : isHomogeneous (kb i) = false) (hc : SlotsCovered (kb i)) (hσ : InNatJoin kb i s σ)
    (hnc : ((opReads kb i s σ).take 2).any (isContra (kb i).alpha) = false)
    (hno : isContra (kb i).alpha (Table.getD (kb i).world (s.get i) (opGr kb i σ)) = false)
    (k : Nat) (j : ι) (m : List Nat) (b : Bounds α)
    (hj : (kb i).ops[k]? = some j) (hm : (kb i).opmap[k]? = some m)
    (hb : (fActDown (kb i) (Table.getD (kb i).world (s.get i) (opGr kb i σ))
      (opReads kb i s σ))[k]? = some b)
    (hidx : idx = none ∨ idx = some k) :
    FolAmount.BTight (aggregate .both (Table.getD (kb j).world (s.get j) (m.map σ)) b).1
      (Table.getD (kb j).world ((fDownConn kb i idx s).1.get j) (m.map σ)) := by
  obtain ⟨ogs, per, k0, hG2, hk0, hog, hrows⟩ := C09_join_aligned kb i true s σ hh hc hσ
  have hG : groundings kb i true s = ((groundings kb i true s).1, some (ogs, per)) :=
    Prod.ext rfl hG2
  have hz : List.zipWith (fun j g' => Table.getD (kb j).world (s.get j) g') (kb i).ops
      (rowsOf per k0) = opReads kb i s σ := by
    rw [hrows, List.zipWith_map_right]
    rfl
  have hog' : ogs.getD k0 [] = opGr kb i σ := hog
  refine downward_value_core kb i idx s hG k0 hk0 (by rw [hz]; exact hnc)
    (by rw [hog']; exact hno) k j (m.map σ) b hj ?_ ?_ (by rw [hz, hog']; exact hb) hidx
  · rw [hrows, List.getElem?_map, hm]
    rfl
  · exact Join.groundings_keys_mono kb i true s j _ (hσ k j m hj hm)

/-! ### frame: rows onto which no operator grounding projects -/

theorem getD_writeMerged_of_not_mem (w : Bounds α) (t : Table α) (props : List (Gr × Bounds α))
    (g : Gr) (h : ∀ q ∈ props, q.1 ≠ g) :
    Table.getD w (writeMerged t props).1 g = Table.getD w t g := by
  have hnot : g ∉ dedupKeepFirst (props.map (·.1)) := by
    rw [Join.mem_dedupKeepFirst]
    intro hm
    obtain ⟨q, hq, e⟩ := List.mem_map.mp hm
    exact h q hq e
  have := (FolAmount.foldl_wmStep_spec t props _ (Join.nodup_dedupKeepFirst _) (t, 0)
    (fun _ _ => rfl)).2.2 g hnot
  rw [← FolAmount.writeMerged_eq] at this
  unfold Table.getD
  rw [this]

/-- **frame**: a row `g` of the table of `j` onto which NO operator grounding projects (through any
operand position that `j` occupies) reads after `fDownConn` what it read before. -/
theorem downward_frame (kb : FKB ι α) (i : ι) (idx : Option Nat) (s : FState ι α) (j : ι) (g : Gr)
    (hno : ∀ ogs per, (groundings kb i true s).2 = some (ogs, per) →
      ∀ p : Nat, (kb i).ops[p]? = some j → ∀ k < ogs.length, (rowsOf per k)[p]? ≠ some g) :
    Table.getD (kb j).world ((fDownConn kb i idx s).1.get j) g =
      Table.getD (kb j).world (s.get j) g := by
  have hreads := FolSound.groundings_reads kb i true s j g
  rw [fDownConn_eq]
  cases hG : groundings kb i true s with
  | mk s1 o =>
    rw [hG] at hreads hno
    cases o with
    | none => exact hreads
    | some op =>
      obtain ⟨ogs, per⟩ := op
      simp only
      split
      · exact hreads
      · apply FolSound.foldl_inv (fun acc : FState ι α × α =>
          Table.getD (kb j).world (acc.1.get j) g = Table.getD (kb j).world (s.get j) g) _ _ _ hreads
        intro acc hacc p hp
        have hpj := FolSound.mem_zip_range _ _ p hp
        unfold dStep
        split
        · simp only
          by_cases e : p.2 = j
          · rw [e, FState.get_set_self, getD_writeMerged_of_not_mem]
            · exact hacc
            · intro q hq hqg
              obtain ⟨it, hit, h1, _⟩ := mem_dProps.mp hq
              obtain ⟨k, hk, hitk⟩ := List.mem_filterMap.mp hit
              rw [dItemOf_fst hitk, hqg] at h1
              exact hno ogs per rfl p.1 (by rw [hpj, e]) k (List.mem_range.mp hk) h1
          · rw [FState.get_set_of_ne _ _ (fun e' : j = p.2 => e e'.symm)]
            exact hacc
        · exact hacc

/-! ### non-vacuity: `And(P(x,y), Q(y,z))` of `Props/C09.lean` over ℚ -/

section NonVacuity

theorem c09_opGr : opGr c09KB 2 c09σ = [1, 2, 5] := by decide

/-! upward: `P(1,2)`, `Q(2,5)` TRUE, the conjunction has no row -/

theorem c09_opReads : opReads c09KB 2 c09S c09σ = [⟨1, 1⟩, ⟨1, 1⟩] := by
  simp [opReads, c09KB, c09S, c09σ, FState.get, Table.getD, Table.find?]

theorem c09_noContra :
    ((opReads c09KB 2 c09S c09σ).take 2).any (isContra (c09KB 2).alpha) = false := by
  rw [c09_opReads]
  simp [isContra]

theorem c09_new : opGr c09KB 2 c09σ ∉ (c09S.get 2).keys := by
  simp [c09S, FState.get, Table.keys]

theorem c09_fActUp : fActUp (c09KB 2) [⟨1, 1⟩, ⟨1, 1⟩] = ⟨1, 1⟩ := by
  simp [fActUp, c09KB, andUp, termLo, termHi, clamp01]

/-- theorem 1 instantiated: the hypotheses are satisfiable and the row reads the aggregate … -/
example : Table.getD ⟨0, 1⟩ ((fUpConn c09KB 2 c09S).1.get 2) [1, 2, 5] =
    (aggregate .both (Table.getD ⟨0, 1⟩ (c09S.get 2) [1, 2, 5])
      (fActUp (c09KB 2) [⟨1, 1⟩, ⟨1, 1⟩])).1 := by
  have h := upward_value c09KB 2 c09S c09σ c09KB_hetero c09KB_covered c09S_natJoin c09_noContra
  rw [c09_opGr, c09_opReads] at h
  exact h

/-- … which for the absent row and the open world default is the truth function itself: the
conjunction of two TRUE facts is TRUE at `(x,y,z) = (1,2,5)` -/
example : Table.getD ⟨0, 1⟩ ((fUpConn c09KB 2 c09S).1.get 2) [1, 2, 5] = ⟨1, 1⟩ := by
  have h := upward_value_open c09KB 2 c09S c09σ c09KB_hetero c09KB_covered c09S_natJoin
    c09_noContra rfl c09_new
  rw [c09_opGr, c09_opReads, c09_fActUp] at h
  exact h

/-! downward: the conjunction asserted TRUE at `(1,2,5)`, `Q(2,5)` TRUE, `P(1,2)` UNKNOWN -/

def c09S' : FState Nat ℚ :=
  ⟨[(0, [⟨[1, 2], ⟨0, 1⟩, ⟨0, 1⟩⟩]), (1, [⟨[2, 5], ⟨1, 1⟩, ⟨1, 1⟩⟩]),
    (2, [⟨[1, 2, 5], ⟨1, 1⟩, ⟨1, 1⟩⟩])]⟩

theorem c09S'_natJoin : InNatJoin c09KB 2 c09S' c09σ := by
  unfold InNatJoin
  intro p j m hj hm
  have ho : (c09KB 2).ops = [0, 1] := rfl
  have hmm : (c09KB 2).opmap = [[0, 1], [1, 2]] := rfl
  rw [ho] at hj
  rw [hmm] at hm
  match p with
  | 0 =>
    simp only [List.getElem?_cons_zero, Option.some.injEq] at hj hm
    subst hj hm
    decide
  | 1 =>
    simp only [List.getElem?_cons_succ, List.getElem?_cons_zero, Option.some.injEq] at hj hm
    subst hj hm
    decide
  | (p + 2) => simp at hj

theorem c09'_opReads : opReads c09KB 2 c09S' c09σ = [⟨0, 1⟩, ⟨1, 1⟩] := by
  simp [opReads, c09KB, c09S', c09σ, FState.get, Table.getD, Table.find?]

theorem c09'_self : Table.getD (c09KB 2).world (c09S'.get 2) (opGr c09KB 2 c09σ) = ⟨1, 1⟩ := by
  rw [c09_opGr]
  simp [c09S', FState.get, Table.getD, Table.find?]

theorem c09'_fActDown : (fActDown (c09KB 2) ⟨1, 1⟩ [⟨0, 1⟩, ⟨1, 1⟩])[0]? = some ⟨1, 1⟩ := by
  simp [fActDown, c09KB, andDown, termHi, sumW, clamp01]
  norm_num

/-- theorem 2 instantiated: after the downward pass (all operands, or operand 0 only) `P(1,2)` is
at least as tight as TRUE — the lower bound has moved from 0 to 1 -/
example (idx : Option Nat) (hidx : idx = none ∨ idx = some 0) :
    FolAmount.BTight ⟨1, 1⟩ (Table.getD ⟨0, 1⟩ ((fDownConn c09KB 2 idx c09S').1.get 0) [1, 2]) := by
  have h := downward_value c09KB 2 idx c09S' c09σ c09KB_hetero c09KB_covered
    c09S'_natJoin (by rw [c09'_opReads]; simp [isContra]) (by rw [c09'_self]; simp [isContra])
    0 0 [0, 1] ⟨1, 1⟩ rfl rfl (by rw [c09'_self, c09'_opReads]; exact c09'_fActDown) hidx
  have e : (aggregate BoundSel.both (Table.getD (c09KB 0).world (c09S'.get 0) ([0, 1].map c09σ))
      (⟨1, 1⟩ : Bounds ℚ)).1 = ⟨1, 1⟩ := by
    simp [c09S', c09σ, FState.get, Table.getD, Table.find?, aggregate, clamp01]
  rw [e] at h
  exact h

theorem c09'_groundings :
    (groundings c09KB 2 true c09S').2 = some ([[1, 2, 5]], [[[1, 2]], [[2, 5]]]) := by decide

/-- the frame theorem instantiated: no operator grounding projects onto `P(7,7)`; it reads the
world default before and after -/
example (idx : Option Nat) :
    Table.getD ⟨0, 1⟩ ((fDownConn c09KB 2 idx c09S').1.get 0) [7, 7] = ⟨0, 1⟩ := by
  have h := downward_frame c09KB 2 idx c09S' 0 [7, 7] (by
    intro ogs per hG p hp k hk
    rw [c09'_groundings] at hG
    cases hG
    have hk0 : k = 0 := by simpa using hk
    subst hk0
    have ho : (c09KB 2).ops = [0, 1] := rfl
    rw [ho] at hp
    match p with
    | 0 => decide
    | 1 => simp at hp
    | (p + 2) => simp at hp)
  have e : Table.getD (c09KB 0).world (c09S'.get 0) [7, 7] = ⟨0, 1⟩ := by
    simp [c09KB, c09S', FState.get, Table.getD, Table.find?]
  rw [e] at h
  exact h

end NonVacuity

end FolValue
end LNN
