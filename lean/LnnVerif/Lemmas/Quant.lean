/-
Helper lemmas for the quantifier properties C11 (upward) and C12 (downward).

* arithmetic: closed forms of `qUp` / `qDown` (unit weights, bias 1, alpha 1),
* tables: `find?` after `setB` / `addg` / `aggRow`, folds of `aggRow`, `FState.get` / `set`,
  `dedupKeepFirst`,
* engine: closed forms of the tables produced by `fUpQuant` / `fDownQuant`.

Everything lives in the sub-namespace `LNN.Quant`.
-/
import LnnVerif.Model.Fol
import LnnVerif.Lemmas.ArithOr
import LnnVerif.Lemmas.Basic
import Mathlib.Data.List.Nodup

set_option linter.unusedSectionVars false

namespace LNN
namespace Quant

variable {ι : Type} [DecidableEq ι] {α : Type} [Field α] [LinearOrder α] [IsStrictOrderedRing α]

/-! ## Łukasiewicz conjunction / disjunction of a list -/

/-- Łukasiewicz conjunction of a list: `clamp(1 - Σ (1 - uᵢ))` -/
def Lconj (us : List α) : α := clamp01 (1 - (us.map (1 - ·)).sum)

/-- Łukasiewicz disjunction of a list: `clamp(Σ lᵢ)` -/
def Ldisj (ls : List α) : α := clamp01 ls.sum

theorem Lconj_nonneg (us : List α) : 0 ≤ Lconj us := clamp01_nonneg _
theorem Lconj_le_one (us : List α) : Lconj us ≤ 1 := clamp01_le_one _
theorem Ldisj_nonneg (ls : List α) : 0 ≤ Ldisj ls := clamp01_nonneg _
theorem Ldisj_le_one (ls : List α) : Ldisj ls ≤ 1 := clamp01_le_one _

theorem sum_nonneg' (l : List α) (h : ∀ x ∈ l, 0 ≤ x) : 0 ≤ l.sum := by
  induction l with
  | nil => simp
  | cons x xs ih =>
    simp only [List.sum_cons]
    have := h x (List.mem_cons_self ..)
    have := ih (fun y hy => h y (List.mem_cons_of_mem _ hy))
    linarith

theorem le_sum_of_mem (l : List α) (h : ∀ x ∈ l, 0 ≤ x) {a : α} (ha : a ∈ l) : a ≤ l.sum := by
  induction l with
  | nil => simp at ha
  | cons x xs ih =>
    simp only [List.sum_cons]
    have hx := h x (List.mem_cons_self ..)
    have hxs := sum_nonneg' xs (fun y hy => h y (List.mem_cons_of_mem _ hy))
    rcases List.mem_cons.mp ha with rfl | h'
    · linarith
    · have := ih (fun y hy => h y (List.mem_cons_of_mem _ hy)) h'
      linarith

/-- one FALSE conjunct makes the Łukasiewicz conjunction FALSE -/
theorem Lconj_eq_zero (us : List α) (h : ∀ u ∈ us, u ≤ 1) (h0 : ∃ u ∈ us, u = 0) :
    Lconj us = 0 := by
  obtain ⟨u, hu, rfl⟩ := h0
  apply clamp01_of_nonpos
  have hm : (1 : α) - 0 ∈ us.map (1 - ·) := List.mem_map.mpr ⟨0, hu, rfl⟩
  have := le_sum_of_mem (us.map (1 - ·)) (by
    intro x hx
    obtain ⟨y, hy, rfl⟩ := List.mem_map.mp hx
    have := h y hy
    linarith) hm
  linarith

/-- one TRUE disjunct makes the Łukasiewicz disjunction TRUE -/
theorem Ldisj_eq_one (ls : List α) (h : ∀ l ∈ ls, 0 ≤ l) (h1 : ∃ l ∈ ls, l = 1) :
    Ldisj ls = 1 := by
  obtain ⟨l, hl, rfl⟩ := h1
  exact clamp01_of_one_le (le_sum_of_mem ls h hl)

/-- all conjuncts TRUE: the conjunction is TRUE -/
theorem Lconj_all_one (us : List α) (h : ∀ u ∈ us, u = 1) : Lconj us = 1 := by
  unfold Lconj
  have : (us.map (1 - ·)).sum = 0 := by
    apply List.sum_eq_zero
    intro x hx
    obtain ⟨y, hy, rfl⟩ := List.mem_map.mp hx
    rw [h y hy]; ring
  rw [this]; exact clamp01_of_one_le (by linarith)

/-- all disjuncts FALSE: the disjunction is FALSE -/
theorem Ldisj_all_zero (ls : List α) (h : ∀ l ∈ ls, l = 0) : Ldisj ls = 0 := by
  unfold Ldisj
  rw [List.sum_eq_zero h]; exact clamp01_of_nonpos le_rfl

/-! ## upward closed forms -/

theorem unitOpds_termLo (bs : List (Bounds α)) :
    ((unitOpds bs).map termLo).sum = ((bs.map (·.lo)).map (1 - ·)).sum := by
  unfold unitOpds
  simp only [List.map_map]
  congr 1
  apply List.map_congr_left
  intro b _
  simp [termLo]

theorem unitOpds_termHi (bs : List (Bounds α)) :
    ((unitOpds bs).map termHi).sum = ((bs.map (·.hi)).map (1 - ·)).sum := by
  unfold unitOpds
  simp only [List.map_map]
  congr 1
  apply List.map_congr_left
  intro b _
  simp [termHi]

theorem unitOpds_weights (bs : List (Bounds α)) : ∀ o ∈ unitOpds bs, o.w = 1 := by
  intro o ho
  unfold unitOpds at ho
  obtain ⟨b, _, rfl⟩ := List.mem_map.mp ho
  rfl

theorem qUp_forall (bs : List (Bounds α)) :
    qUp true bs = ⟨Lconj (bs.map (·.lo)), Lconj (bs.map (·.hi))⟩ := by
  unfold qUp andUp Lconj
  simp only [if_true, unitOpds_termLo, unitOpds_termHi]

theorem qUp_exists (bs : List (Bounds α)) :
    qUp false bs = ⟨Ldisj (bs.map (·.lo)), Ldisj (bs.map (·.hi))⟩ := by
  have hz := minw_sum_zero (unitOpds bs) (fun o ho => by
    rw [unitOpds_weights bs o ho]; exact zero_le_one)
  unfold qUp orUp Ldisj
  simp only [Bool.false_eq_true, if_false, if_true, hz]
  have h1 : (unitOpds bs).map (fun o => o.w * o.lo) = bs.map (·.lo) := by
    unfold unitOpds; simp [List.map_map]
  have h2 : (unitOpds bs).map (fun o => o.w * o.hi) = bs.map (·.hi) := by
    unfold unitOpds; simp [List.map_map]
  rw [h1, h2]
  congr 1 <;> congr 1 <;> ring

/-! ## downward closed forms -/

/-- proposal of the Forall inverse for the instance `b`; `sHi = Σ (1 - hiⱼ)`, `sLo = Σ (1 - loⱼ)`
over ALL instances (so `sHi - (1 - b.hi)` is the sum over the other instances) -/
def allProp (self : Bounds α) (sHi sLo : α) (b : Bounds α) : Bounds α :=
  ⟨if 0 < self.lo then clamp01 (self.lo + (sHi - (1 - b.hi))) else 0,
   if self.hi < 1 then clamp01 (self.hi + (sLo - (1 - b.lo))) else 1⟩

/-- proposal of the Exists inverse for the instance `b`; `sHi = Σ hiⱼ`, `sLo = Σ loⱼ` over ALL
instances -/
def exProp (self : Bounds α) (sHi sLo : α) (b : Bounds α) : Bounds α :=
  ⟨if 0 < self.lo then clamp01 (self.lo - (sHi - b.hi)) else 0,
   if self.hi < 1 then clamp01 (self.hi - (sLo - b.lo)) else 1⟩

theorem qDown_length (isAll : Bool) (self : Bounds α) (bs : List (Bounds α)) :
    (qDown isAll self bs).length = bs.length := by
  unfold qDown orDown andDown unitOpds
  cases isAll <;> simp

theorem qDown_forall_eq (self : Bounds α) (bs : List (Bounds α)) :
    qDown true self bs
      = bs.map (allProp self (bs.map fun b => 1 - b.hi).sum (bs.map fun b => 1 - b.lo).sum) := by
  have e1 : ((unitOpds bs).map termHi).sum = (bs.map fun b => 1 - b.hi).sum := by
    rw [unitOpds_termHi, List.map_map]; rfl
  have e2 : ((unitOpds bs).map termLo).sum = (bs.map fun b => 1 - b.lo).sum := by
    rw [unitOpds_termLo, List.map_map]; rfl
  unfold qDown andDown
  simp only [if_true, e1, e2]
  unfold unitOpds
  rw [List.map_map]
  apply List.map_congr_left
  intro b _
  have h10 : max (1 : α) 0 = 1 := max_eq_left zero_le_one
  simp only [Function.comp, one_ne_zero, if_false, h10, div_one, sub_self, termHi, termLo, one_mul,
    allProp]
  apply Bounds.ext'
  · by_cases h : 0 < self.lo
    · have h' : ¬ self.lo ≤ 0 := not_le.mpr h
      simp only [h, h', if_true, if_false]
      congr 1; ring
    · simp only [h, if_false]
  · by_cases h : self.hi < 1
    · simp only [h, if_true]
      congr 1
      split <;> ring
    · simp only [h, if_false]

theorem unitOpds_neg (bs : List (Bounds α)) :
    (unitOpds bs).map Opd.neg = unitOpds (bs.map negB) := by
  unfold unitOpds
  simp only [List.map_map]
  apply List.map_congr_left
  intro b _
  simp [Opd.neg, negB]

/-- the Exists inverse is the Forall inverse conjugated by negation -/
theorem qDown_exists_dual (self : Bounds α) (bs : List (Bounds α)) :
    qDown false self bs = (qDown true (negB self) (bs.map negB)).map negB := by
  unfold qDown orDown
  simp only [Bool.false_eq_true, if_false, if_true, unitOpds_neg, negB]

theorem qDown_exists_eq (self : Bounds α) (bs : List (Bounds α)) :
    qDown false self bs
      = bs.map (exProp self (bs.map fun b => b.hi).sum (bs.map fun b => b.lo).sum) := by
  rw [qDown_exists_dual, qDown_forall_eq]
  simp only [List.map_map]
  apply List.map_congr_left
  intro b _
  have e1 : (bs.map ((fun b : Bounds α => 1 - b.hi) ∘ negB)).sum = (bs.map fun b => b.lo).sum := by
    congr 1; apply List.map_congr_left; intro c _; simp [negB]
  have e2 : (bs.map ((fun b : Bounds α => 1 - b.lo) ∘ negB)).sum = (bs.map fun b => b.hi).sum := by
    congr 1; apply List.map_congr_left; intro c _; simp [negB]
  simp only [Function.comp, e1, e2]
  simp only [allProp, exProp, negB]
  apply Bounds.ext'
  · by_cases h : 0 < self.lo
    · have h' : 1 - self.lo < 1 := by linarith
      simp only [h, h', if_true]
      rw [← clamp01_one_sub]; congr 1; ring
    · have h' : ¬ 1 - self.lo < 1 := by intro hh; apply h; linarith
      simp only [h, h', if_false]; ring
  · by_cases h : self.hi < 1
    · have h' : 0 < 1 - self.hi := by linarith
      simp only [h, h', if_true]
      rw [← clamp01_one_sub]; congr 1; ring
    · have h' : ¬ 0 < 1 - self.hi := by intro hh; apply h; linarith
      simp only [h, h', if_false]; ring

theorem sum_split (f : Bounds α → α) (pre post : List (Bounds α)) (b : Bounds α) :
    ((pre ++ b :: post).map f).sum - f b = ((pre ++ post).map f).sum := by
  simp only [List.map_append, List.map_cons, List.sum_append, List.sum_cons]; ring

/-- the Forall proposal for the instance at position `pre.length` -/
theorem qDown_forall_at (self : Bounds α) (pre post : List (Bounds α)) (b : Bounds α) :
    (qDown true self (pre ++ b :: post))[pre.length]? = some
      ⟨if 0 < self.lo then clamp01 (self.lo + ((pre ++ post).map fun c => 1 - c.hi).sum) else 0,
       if self.hi < 1 then clamp01 (self.hi + ((pre ++ post).map fun c => 1 - c.lo).sum) else 1⟩ := by
  rw [qDown_forall_eq]
  simp only [List.map_append, List.map_cons, List.length_map, le_refl,
    List.getElem?_append_right, Nat.sub_self, List.getElem?_cons_zero, allProp]
  have h1 := sum_split (fun c => 1 - c.hi) pre post b
  have h2 := sum_split (fun c => 1 - c.lo) pre post b
  simp only [List.map_append, List.map_cons] at h1 h2
  rw [h1, h2]

/-- the Exists proposal for the instance at position `pre.length` -/
theorem qDown_exists_at (self : Bounds α) (pre post : List (Bounds α)) (b : Bounds α) :
    (qDown false self (pre ++ b :: post))[pre.length]? = some
      ⟨if 0 < self.lo then clamp01 (self.lo - ((pre ++ post).map fun c => c.hi).sum) else 0,
       if self.hi < 1 then clamp01 (self.hi - ((pre ++ post).map fun c => c.lo).sum) else 1⟩ := by
  rw [qDown_exists_eq]
  simp only [List.map_append, List.map_cons, List.length_map, le_refl,
    List.getElem?_append_right, Nat.sub_self, List.getElem?_cons_zero, exProp]
  have h1 := sum_split (fun c => c.hi) pre post b
  have h2 := sum_split (fun c => c.lo) pre post b
  simp only [List.map_append, List.map_cons] at h1 h2
  rw [h1, h2]

theorem mem_qDown_forall {self : Bounds α} {bs : List (Bounds α)} {p : Bounds α}
    (hp : p ∈ qDown true self bs) :
    ∃ b ∈ bs, p = allProp self (bs.map fun b => 1 - b.hi).sum (bs.map fun b => 1 - b.lo).sum b := by
  rw [qDown_forall_eq] at hp
  obtain ⟨b, hb, rfl⟩ := List.mem_map.mp hp
  exact ⟨b, hb, rfl⟩

theorem mem_qDown_exists {self : Bounds α} {bs : List (Bounds α)} {p : Bounds α}
    (hp : p ∈ qDown false self bs) :
    ∃ b ∈ bs, p = exProp self (bs.map fun b => b.hi).sum (bs.map fun b => b.lo).sum b := by
  rw [qDown_exists_eq] at hp
  obtain ⟨b, hb, rfl⟩ := List.mem_map.mp hp
  exact ⟨b, hb, rfl⟩

/-- `f b ≤ Σ f` for non-negative summands -/
theorem term_le_sum (f : Bounds α → α) (bs : List (Bounds α)) (h : ∀ c ∈ bs, 0 ≤ f c)
    {b : Bounds α} (hb : b ∈ bs) : f b ≤ (bs.map f).sum :=
  le_sum_of_mem (bs.map f) (by
    intro x hx
    obtain ⟨c, hc, rfl⟩ := List.mem_map.mp hx
    exact h c hc) (List.mem_map.mpr ⟨b, hb, rfl⟩)

/-! ## values of the unit-weight neurons -/

theorem wsum_unit {R : Bounds α → α → Prop} {bs : List (Bounds α)} {vs : List α}
    (h : List.Forall₂ R bs vs) : wsum (unitOpds bs) vs = (vs.map (1 - ·)).sum := by
  unfold wsum unitOpds
  induction h with
  | nil => simp
  | cons _ _ ih =>
    simp only [List.map_cons, List.zipWith_cons_cons, List.sum_cons, one_mul] at ih ⊢
    rw [ih]

theorem psum_unit {R : Bounds α → α → Prop} {bs : List (Bounds α)} {vs : List α}
    (h : List.Forall₂ R bs vs) : psum (unitOpds bs) vs = vs.sum := by
  unfold psum unitOpds
  induction h with
  | nil => simp
  | cons _ _ ih =>
    simp only [List.map_cons, List.zipWith_cons_cons, List.sum_cons, one_mul] at ih ⊢
    rw [ih]

theorem andVal_unit {R : Bounds α → α → Prop} {bs : List (Bounds α)} {vs : List α}
    (h : List.Forall₂ R bs vs) : clamp01 (andPre 1 (unitOpds bs) vs) = Lconj vs := by
  unfold andPre Lconj; rw [wsum_unit h]

theorem orVal_unit {R : Bounds α → α → Prop} {bs : List (Bounds α)} {vs : List α}
    (h : List.Forall₂ R bs vs) : orVal 1 (unitOpds bs) vs = Ldisj vs := by
  unfold orVal Ldisj; rw [psum_unit h]; congr 1; ring

theorem inBox_unit {bs : List (Bounds α)} {vs : List α}
    (h : List.Forall₂ (fun b x => b.lo ≤ x ∧ x ≤ b.hi) bs vs) : InBox (unitOpds bs) vs := by
  unfold InBox unitOpds
  rw [List.forall₂_map_left_iff]
  exact List.Forall₂.imp (fun b x hbx => ⟨zero_le_one, hbx.1, hbx.2⟩) h

/-! ## tables -/

section tables

variable {β : Type} [Field β] [LinearOrder β]

theorem find?_some_g {t : Table β} {g : Gr} {r : Row β} (h : t.find? g = some r) : r.g = g := by
  unfold Table.find? at h
  have := List.find?_some h
  simpa using this

theorem find?_setB (t : Table β) (g g' : Gr) (b : Bounds β) :
    (t.setB g b).find? g' = (t.find? g').map (fun r => if r.g == g then { r with b := b } else r) := by
  unfold Table.setB Table.find?
  rw [List.find?_map]
  have e : ((fun r : Row β => r.g == g') ∘ fun r => if r.g == g then { r with b := b } else r)
      = fun r => r.g == g' := by
    funext r
    simp only [Function.comp]
    split <;> rfl
  rw [e]

/-- one `aggRow`: the addressed row (first row of that key) is aggregated, every other key reads
the same row as before -/
theorem find?_aggRow (t : Table β) (k g : Gr) (sel : BoundSel) (p : Bounds β) :
    (aggRow t k sel p).1.find? g
      = (t.find? g).map (fun r => if g = k then { r with b := (aggregate sel r.b p).1 } else r) := by
  unfold aggRow
  cases hk : t.find? k with
  | none =>
    simp only
    by_cases hgk : g = k
    · subst hgk; rw [hk]; rfl
    · simp only [hgk, if_false]; simp
  | some r0 =>
    simp only
    rw [find?_setB]
    cases hg : t.find? g with
    | none => rfl
    | some r =>
      have hrg := find?_some_g hg
      simp only [Option.map_some, hrg, beq_iff_eq]
      by_cases hgk : g = k
      · subst hgk
        rw [hk] at hg; cases hg
        simp
      · simp [hgk]

theorem find?_append_row (t : Table β) (g k : Gr) (w : Bounds β) :
    Table.find? (t ++ [⟨k, w, w⟩]) g = (t.find? g).or (if g = k then some ⟨k, w, w⟩ else none) := by
  unfold Table.find?
  rw [List.find?_append]
  congr 1
  by_cases h : g = k
  · subst h; simp
  · have : ¬ k = g := fun e => h e.symm
    simp [h, this]

/-- `addg` keeps every stored row and creates the missing keys at the world default -/
theorem find?_addg (w : Bounds β) (t : Table β) (ks : List Gr) (g : Gr) :
    (Table.addg w t ks).find? g = (t.find? g).or (if g ∈ ks then some ⟨g, w, w⟩ else none) := by
  induction ks generalizing t with
  | nil => simp [Table.addg]
  | cons k ks ih =>
    unfold Table.addg
    by_cases hh : Table.has t k = true
    · simp only [hh, if_true]
      rw [ih]
      by_cases hgk : g = k
      · subst hgk
        unfold Table.has at hh
        obtain ⟨r, hr⟩ := Option.isSome_iff_exists.mp hh
        simp [hr]
      · simp [hgk]
    · simp only [hh]
      rw [if_neg (by simp), ih, find?_append_row]
      have hnone : t.find? k = none := by
        unfold Table.has at hh
        simpa using hh
      by_cases hgk : g = k
      · subst hgk
        simp [hnone]
      · simp [hgk]

/-- reading with the same world default does not see `addg` -/
theorem getD_addg (w : Bounds β) (t : Table β) (ks : List Gr) (g : Gr) :
    Table.getD w (Table.addg w t ks) g = Table.getD w t g := by
  unfold Table.getD
  rw [find?_addg]
  cases t.find? g with
  | some r => simp
  | none =>
    by_cases h : g ∈ ks <;> simp [h]

/-- the step function of the `aggRow` folds of `fUpQuant` (proposal a function of the key) -/
def stepK (sel : BoundSel) (f : Gr → Bounds β) (acc : Table β × β) (k : Gr) : Table β × β :=
  ((aggRow acc.1 k sel (f k)).1, acc.2 + (aggRow acc.1 k sel (f k)).2)

/-- folding `aggRow` over pairwise distinct keys: every listed key is aggregated exactly once
against its previous bounds, every other key is untouched -/
theorem find?_foldK (sel : BoundSel) (f : Gr → Bounds β) (ks : List Gr) (hnd : ks.Nodup)
    (t : Table β) (a : β) (g : Gr) :
    (ks.foldl (stepK sel f) (t, a)).1.find? g
      = (t.find? g).map (fun r => if g ∈ ks then { r with b := (aggregate sel r.b (f g)).1 } else r) := by
  induction ks generalizing t a with
  | nil => simp
  | cons k ks ih =>
    rw [List.nodup_cons] at hnd
    simp only [List.foldl_cons]
    rw [show stepK sel f (t, a) k = ((aggRow t k sel (f k)).1, a + (aggRow t k sel (f k)).2) from rfl,
      ih hnd.2, find?_aggRow]
    cases t.find? g with
    | none => rfl
    | some r =>
      simp only [Option.map_some]
      by_cases hgk : g = k
      · subst hgk
        simp [hnd.1]
      · simp [hgk]

/-- the step function of the `aggRow` fold of `fDownQuant` (a list of addressed proposals) -/
def stepP (acc : Table β × β) (p : Gr × Bounds β) : Table β × β :=
  ((aggRow acc.1 p.1 .both p.2).1, acc.2 + (aggRow acc.1 p.1 .both p.2).2)

/-- aggregate a list of addressed proposals, in order, onto bounds `b` -/
def aggAll (b : Bounds β) (ps : List (Gr × Bounds β)) : Bounds β :=
  ps.foldl (fun b p => (aggregate .both b p.2).1) b

theorem aggAll_single (b : Bounds β) (g : Gr) (p : Bounds β) :
    aggAll b [(g, p)] = (aggregate .both b p).1 := rfl

/-- folding addressed proposals: the row of `g` receives, in order, exactly the proposals
addressed to `g`; no row is created or deleted, leaves are kept -/
theorem find?_foldP (props : List (Gr × Bounds β)) (t : Table β) (a : β) (g : Gr) :
    (props.foldl stepP (t, a)).1.find? g
      = (t.find? g).map (fun r => { r with b := aggAll r.b (props.filter (fun p => p.1 == g)) }) := by
  unfold aggAll
  induction props generalizing t a with
  | nil => simp
  | cons p ps ih =>
    simp only [List.foldl_cons]
    rw [show stepP (t, a) p = ((aggRow t p.1 .both p.2).1, a + (aggRow t p.1 .both p.2).2) from rfl,
      ih, find?_aggRow]
    cases t.find? g with
    | none => rfl
    | some r =>
      simp only [Option.map_some]
      by_cases hgk : g = p.1
      · subst hgk
        simp
      · have : ¬ p.1 = g := fun e => hgk e.symm
        simp [hgk, this]

end tables

/-! ## state, de-duplication -/

theorem get_set_self (s : FState ι α) (i : ι) (t : Table α) : (s.set i t).get i = t := by
  unfold FState.get FState.set
  simp

theorem get_set_ne (s : FState ι α) (i j : ι) (t : Table α) (h : j ≠ i) :
    (s.set i t).get j = s.get j := by
  unfold FState.get FState.set
  have hij : ¬ i = j := fun e => h e.symm
  simp only [List.find?_cons, hij, decide_false, List.find?_filter]
  have e : (fun a : ι × Table α => decide ((!decide (a.1 = i)) = true ∧ decide (a.1 = j) = true))
      = fun a => decide (a.1 = j) := by
    funext a
    by_cases ha : a.1 = j
    · have : ¬ a.1 = i := fun e => h (ha.symm.trans e)
      simp [ha, h]
    · simp [ha]
  rw [e]

section dedup

variable {γ : Type} [BEq γ] [LawfulBEq γ]

theorem mem_dedup (l : List γ) (x : γ) : x ∈ dedup l ↔ x ∈ l := by
  induction l with
  | nil => simp [dedup]
  | cons y ys ih =>
    unfold dedup
    simp only
    by_cases hc : (dedup ys).contains y = true
    · rw [if_pos hc, ih, List.mem_cons]
      constructor
      · exact Or.inr
      · rintro (rfl | h)
        · exact ih.mp (List.contains_iff_mem.mp hc)
        · exact h
    · rw [if_neg hc, List.mem_cons, List.mem_cons, ih]

theorem nodup_dedup (l : List γ) : (dedup l).Nodup := by
  induction l with
  | nil => simp [dedup]
  | cons y ys ih =>
    unfold dedup
    simp only
    by_cases hc : (dedup ys).contains y = true
    · rw [if_pos hc]; exact ih
    · rw [if_neg hc]
      exact List.nodup_cons.mpr ⟨fun hm => hc (List.contains_iff_mem.mpr hm), ih⟩

theorem mem_dedupKeepFirst (l : List γ) (x : γ) : x ∈ dedupKeepFirst l ↔ x ∈ l := by
  unfold dedupKeepFirst
  rw [List.mem_reverse, mem_dedup, List.mem_reverse]

theorem nodup_dedupKeepFirst (l : List γ) : (dedupKeepFirst l).Nodup := by
  unfold dedupKeepFirst
  exact List.nodup_reverse.2 (nodup_dedup _)

end dedup

/-! ## engine closed forms -/

/-- the group keys of the rows of a body table -/
def gkeys (free : List Nat) (rows : Table α) : List Gr := rows.map fun r => groupKey free r.g

/-- the rows of group `k` (in table order) -/
def grp (free : List Nat) (rows : Table α) (k : Gr) : Table α :=
  rows.filter fun r => groupKey free r.g == k

/-- the known instances of group `k`: working bounds of exactly the rows of the group -/
def inst (free : List Nat) (rows : Table α) (k : Gr) : List (Bounds α) := (grp free rows k).map (·.b)

theorem mem_grp {free : List Nat} {rows : Table α} {k : Gr} {r : Row α} :
    r ∈ grp free rows k ↔ r ∈ rows ∧ groupKey free r.g = k := by
  unfold grp; simp

/-- fully quantified: a single group, all rows -/
theorem grp_nil (rows : Table α) : grp [] rows [] = rows := by
  unfold grp groupKey; simp

theorem gkeys_nil (rows : Table α) : ∀ k ∈ gkeys [] rows, k = [] := by
  intro k hk
  unfold gkeys groupKey at hk
  obtain ⟨r, _, rfl⟩ := List.mem_map.mp hk
  rfl

theorem fUpQuant_eq (kb : FKB ι α) (i j : ι) (rest : List ι) (s : FState ι α)
    (hops : (kb i).ops = j :: rest) (hne : (s.get j).isEmpty = false) :
    fUpQuant kb i s =
      (s.set i ((dedupKeepFirst (gkeys (kb i).free (s.get j))).foldl
          (stepK (qSel (kb i)) fun k => qUp (decide ((kb i).kind = .all)) (inst (kb i).free (s.get j) k))
          (Table.addg (kb i).world (s.get i) (dedupKeepFirst (gkeys (kb i).free (s.get j))), 0)).1,
       ((dedupKeepFirst (gkeys (kb i).free (s.get j))).foldl
          (stepK (qSel (kb i)) fun k => qUp (decide ((kb i).kind = .all)) (inst (kb i).free (s.get j) k))
          (Table.addg (kb i).world (s.get i) (dedupKeepFirst (gkeys (kb i).free (s.get j))), 0)).2) := by
  unfold fUpQuant
  simp only [hops, hne]
  rfl

/-- upward pass of a quantifier never touches another formula's table -/
theorem fUpQuant_frame (kb : FKB ι α) (i : ι) (s : FState ι α) (j' : ι) (h : j' ≠ i) :
    (fUpQuant kb i s).1.get j' = s.get j' := by
  unfold fUpQuant
  simp only
  split
  · rfl
  · split
    · rfl
    · exact get_set_ne _ _ _ _ h

/-- the quantifier's table after `fUpQuant`, row by row -/
theorem fUpQuant_find? (kb : FKB ι α) (i j : ι) (rest : List ι) (s : FState ι α)
    (hops : (kb i).ops = j :: rest) (hne : (s.get j).isEmpty = false) (g : Gr) :
    ((fUpQuant kb i s).1.get i).find? g =
      if g ∈ gkeys (kb i).free (s.get j) then
        some (match (s.get i).find? g with
          | some r => { r with b := (aggregate (qSel (kb i)) r.b
              (qUp (decide ((kb i).kind = .all)) (inst (kb i).free (s.get j) g))).1 }
          | none => ⟨g, (kb i).world, (aggregate (qSel (kb i)) (kb i).world
              (qUp (decide ((kb i).kind = .all)) (inst (kb i).free (s.get j) g))).1⟩)
      else (s.get i).find? g := by
  rw [fUpQuant_eq kb i j rest s hops hne]
  simp only [get_set_self]
  rw [find?_foldK _ _ _ (nodup_dedupKeepFirst _), find?_addg]
  simp only [mem_dedupKeepFirst]
  by_cases hg : g ∈ gkeys (kb i).free (s.get j)
  · simp only [hg, if_true]
    cases (s.get i).find? g with
    | some r => simp
    | none => simp
  · simp only [hg, if_false]
    cases (s.get i).find? g with
    | some r => simp
    | none => simp

theorem fDownQuant_eq (kb : FKB ι α) (i j : ι) (rest : List ι) (s : FState ι α)
    (hops : (kb i).ops = j :: rest) (hne : (s.get j).isEmpty = false) :
    fDownQuant kb i s =
      let keysU := dedupKeepFirst (gkeys (kb i).free (s.get j))
      let ti := Table.addg (kb i).world (s.get i) keysU
      let props : List (Gr × Bounds α) := keysU.flatMap fun k =>
        List.zip ((grp (kb i).free (s.get j) k).map (·.g))
          (qDown (decide ((kb i).kind = .all)) (Table.getD (kb i).world ti k)
            (inst (kb i).free (s.get j) k))
      (((s.set i ti).set j (props.foldl stepP ((s.set i ti).get j, 0)).1),
        (props.foldl stepP ((s.set i ti).get j, 0)).2) := by
  unfold fDownQuant
  simp only [hops, hne]
  rfl

/-- downward pass of a quantifier touches only its own table and the operand's -/
theorem fDownQuant_frame (kb : FKB ι α) (i : ι) (s : FState ι α) (j' : ι) (hi : j' ≠ i)
    (hj : ∀ j rest, (kb i).ops = j :: rest → j' ≠ j) :
    (fDownQuant kb i s).1.get j' = s.get j' := by
  unfold fDownQuant
  simp only
  split
  · rfl
  · rename_i j rest hops
    split
    · rfl
    · rw [get_set_ne _ _ _ _ (hj j rest hops), get_set_ne _ _ _ _ hi]

/-! ### the proposals of `fDownQuant`, sorted by addressee -/

theorem filter_key_of_nodup {γ : Type} (l : List (Gr × γ)) (hnd : (l.map (·.1)).Nodup) (m : Nat)
    (g : Gr) (p : γ) (h : l[m]? = some (g, p)) : l.filter (fun q => q.1 == g) = [(g, p)] := by
  induction l generalizing m with
  | nil => simp at h
  | cons x xs ih =>
    simp only [List.map_cons, List.nodup_cons] at hnd
    cases m with
    | zero =>
      simp only [List.getElem?_cons_zero, Option.some.injEq] at h
      subst h
      have : xs.filter (fun q => q.1 == g) = [] := by
        rw [List.filter_eq_nil_iff]
        intro a ha hag
        exact hnd.1 (List.mem_map.mpr ⟨a, ha, by simpa using hag⟩)
      simp [this]
    | succ m =>
      simp only [List.getElem?_cons_succ] at h
      have hmem : (g, p) ∈ xs := List.mem_of_getElem? h
      have hx : ¬ x.1 = g := by
        intro e
        exact hnd.1 (List.mem_map.mpr ⟨(g, p), hmem, e.symm⟩)
      simp [hx, ih hnd.2 m h]

theorem flatMap_single {β γ : Type} (l : List β) (hnd : l.Nodup) (a : β) (ha : a ∈ l)
    (F : β → List γ) (h : ∀ k ∈ l, k ≠ a → F k = []) : l.flatMap F = F a := by
  induction l with
  | nil => simp at ha
  | cons x xs ih =>
    rw [List.nodup_cons] at hnd
    simp only [List.flatMap_cons]
    by_cases hxa : x = a
    · subst hxa
      have : xs.flatMap F = [] := by
        rw [List.flatMap_eq_nil_iff]
        intro k hk
        exact h k (List.mem_cons_of_mem _ hk) (fun e => hnd.1 (e ▸ hk))
      rw [this, List.append_nil]
    · rcases List.mem_cons.mp ha with e | ha'
      · exact absurd e.symm hxa
      · rw [h x (List.mem_cons_self ..) hxa, List.nil_append]
        exact ih hnd.2 ha' (fun k hk => h k (List.mem_cons_of_mem _ hk))

theorem find?_of_mem_nodup {β : Type} [Field β] [LinearOrder β] (t : Table β)
    (hnd : (t.map (·.g)).Nodup) {r : Row β} (hr : r ∈ t) : t.find? r.g = some r := by
  unfold Table.find?
  induction t with
  | nil => simp at hr
  | cons x xs ih =>
    simp only [List.map_cons, List.nodup_cons] at hnd
    rcases List.mem_cons.mp hr with rfl | h'
    · simp
    · have hx : ¬ x.g = r.g := fun e => hnd.1 (e ▸ List.mem_map.mpr ⟨r, h', rfl⟩)
      have hb : (x.g == r.g) = false := by simpa using hx
      simp only [List.find?_cons, hb]
      exact ih hnd.2 h'

/-- With pairwise distinct stored groundings and pairwise distinct group keys, the proposals
addressed to the row at position `m` of group `k0` are exactly one: the `m`-th proposal of that
group. -/
theorem downProps_filter (free : List Nat) (rows : Table α) (hnd : (rows.map (·.g)).Nodup)
    (keys : List Gr) (hk : keys.Nodup) (hmem : ∀ k, k ∈ gkeys free rows → k ∈ keys)
    (Q : Gr → List (Bounds α)) (hQ : ∀ k, (Q k).length = (grp free rows k).length)
    (k0 : Gr) (m : Nat) (r : Row α) (p : Bounds α)
    (hr : (grp free rows k0)[m]? = some r) (hp : (Q k0)[m]? = some p) :
    (keys.flatMap fun k => List.zip ((grp free rows k).map (·.g)) (Q k)).filter
      (fun q => q.1 == r.g) = [(r.g, p)] := by
  have hrm : r ∈ grp free rows k0 := List.mem_of_getElem? hr
  obtain ⟨hrows, hkey⟩ := mem_grp.mp hrm
  have hk0 : k0 ∈ keys := hmem k0 (List.mem_map.mpr ⟨r, hrows, hkey⟩)
  rw [List.filter_flatMap, flatMap_single keys hk k0 hk0]
  · apply filter_key_of_nodup _ _ m
    · rw [List.getElem?_zip_eq_some]
      exact ⟨by simp [hr], hp⟩
    · have hl : ((grp free rows k0).map (·.g)).length ≤ (Q k0).length := by
        rw [hQ, List.length_map]
      have : (List.zip ((grp free rows k0).map (·.g)) (Q k0)).map (·.1)
          = (grp free rows k0).map (·.g) := List.map_fst_zip hl
      rw [this]
      exact List.Nodup.sublist (List.Sublist.map _ List.filter_sublist) hnd
  · intro k _ hkk
    rw [List.filter_eq_nil_iff]
    intro a ha hag
    have ha1 : a.1 ∈ (grp free rows k).map (·.g) := (List.of_mem_zip (show (a.1, a.2) ∈ _ from ha)).1
    obtain ⟨r', hr', hg'⟩ := List.mem_map.mp ha1
    have hk' := (mem_grp.mp hr').2
    have : a.1 = r.g := by simpa using hag
    apply hkk
    rw [← hk', ← hkey, hg', this]

/-- the list of addressed proposals `fDownQuant` aggregates onto the operand table -/
def downProps (n : FNode ι α) (rows qt : Table α) : List (Gr × Bounds α) :=
  (dedupKeepFirst (gkeys n.free rows)).flatMap fun k =>
    List.zip ((grp n.free rows k).map (·.g))
      (qDown (decide (n.kind = .all)) (Table.getD n.world qt k) (inst n.free rows k))

/-- the quantifier's own table after `fDownQuant`: only missing group rows are created -/
theorem fDownQuant_own (kb : FKB ι α) (i j : ι) (rest : List ι) (s : FState ι α)
    (hops : (kb i).ops = j :: rest) (hne : (s.get j).isEmpty = false) (hij : i ≠ j) :
    (fDownQuant kb i s).1.get i
      = Table.addg (kb i).world (s.get i) (dedupKeepFirst (gkeys (kb i).free (s.get j))) := by
  rw [fDownQuant_eq kb i j rest s hops hne]
  simp only
  rw [get_set_ne _ _ _ _ hij, get_set_self]

/-- the operand table after `fDownQuant`, row by row: the row of `g` receives, in order, the
`aggregate .both` of exactly the proposals addressed to `g` -/
theorem fDownQuant_find? (kb : FKB ι α) (i j : ι) (rest : List ι) (s : FState ι α)
    (hops : (kb i).ops = j :: rest) (hne : (s.get j).isEmpty = false) (hij : i ≠ j) (g : Gr) :
    ((fDownQuant kb i s).1.get j).find? g
      = ((s.get j).find? g).map (fun r => { r with b :=
          (aggAll r.b ((downProps (kb i) (s.get j) (s.get i)).filter (fun p => p.1 == g))) }) := by
  rw [fDownQuant_eq kb i j rest s hops hne]
  simp only
  rw [get_set_self, find?_foldP, get_set_ne _ _ _ _ (Ne.symm hij)]
  unfold downProps
  simp only [getD_addg]

/-- stored groundings pairwise distinct: the row at position `m` of group `k` becomes the
`aggregate .both` of its previous bounds with the `m`-th proposal of `qDown` on that group -/
theorem fDownQuant_row (kb : FKB ι α) (i j : ι) (rest : List ι) (s : FState ι α)
    (hops : (kb i).ops = j :: rest) (hij : i ≠ j) (hnd : ((s.get j).map (·.g)).Nodup)
    (k : Gr) (m : Nat) (r : Row α) (p : Bounds α)
    (hr : (grp (kb i).free (s.get j) k)[m]? = some r)
    (hp : (qDown (decide ((kb i).kind = .all)) (Table.getD (kb i).world (s.get i) k)
            (inst (kb i).free (s.get j) k))[m]? = some p) :
    ((fDownQuant kb i s).1.get j).find? r.g = some { r with b := (aggregate .both r.b p).1 } := by
  have hrows : r ∈ s.get j := (mem_grp.mp (List.mem_of_getElem? hr)).1
  have hne : (s.get j).isEmpty = false := by
    cases h : s.get j with
    | nil => rw [h] at hrows; simp at hrows
    | cons _ _ => rfl
  rw [fDownQuant_find? kb i j rest s hops hne hij, find?_of_mem_nodup _ hnd hrows]
  unfold downProps
  rw [downProps_filter (kb i).free (s.get j) hnd _ (nodup_dedupKeepFirst _)
    (fun k hk => (mem_dedupKeepFirst _ k).mpr hk)
    (fun k => qDown (decide ((kb i).kind = .all)) (Table.getD (kb i).world (s.get i) k)
      (inst (kb i).free (s.get j) k))
    (fun k => by rw [qDown_length]; unfold inst; rw [List.length_map]) k m r p hr hp]
  simp [aggAll_single]

/-! ## readings -/

/-- a value inside the previous bounds and inside the proposal stays inside the aggregated bounds -/
theorem aggregate_both_keeps (b p : Bounds α) (x : α) (h0 : 0 ≤ x) (h1 : x ≤ 1)
    (hb : b.lo ≤ x ∧ x ≤ b.hi) (hp : p.lo ≤ x ∧ x ≤ p.hi) :
    (aggregate .both b p).1.lo ≤ x ∧ x ≤ (aggregate .both b p).1.hi := by
  simp only [aggregate, reduceCtorEq, if_false]
  exact ⟨clamp01_le_of_le h0 (max_le hb.1 hp.1), le_clamp01_of_le h1 (le_min hb.2 hp.2)⟩

theorem forall₂_zipWith_agg {bs ps : List (Bounds α)} {vs : List α}
    (hb : List.Forall₂ (fun b x => b.lo ≤ x ∧ x ≤ b.hi) bs vs)
    (hp : List.Forall₂ (fun p x => p.lo ≤ x ∧ x ≤ p.hi) ps vs)
    (hv : ∀ x ∈ vs, 0 ≤ x ∧ x ≤ 1) :
    List.Forall₂ (fun b x => b.lo ≤ x ∧ x ≤ b.hi)
      (List.zipWith (fun b p => (aggregate .both b p).1) bs ps) vs := by
  induction hb generalizing ps with
  | nil => cases hp; exact List.Forall₂.nil
  | @cons b x bs vs hbx _ ih =>
    cases hp with
    | cons hpx hrest =>
      have hx := hv x (List.mem_cons_self ..)
      exact List.Forall₂.cons (aggregate_both_keeps b _ x hx.1 hx.2 hbx hpx)
        (ih hrest (fun y hy => hv y (List.mem_cons_of_mem _ hy)))

theorem forall₂_getElem? {β γ : Type} {R : β → γ → Prop} {l₁ : List β} {l₂ : List γ}
    (h : List.Forall₂ R l₁ l₂) (m : Nat) {a : β} {b : γ} (ha : l₁[m]? = some a)
    (hb : l₂[m]? = some b) : R a b := by
  induction h generalizing m with
  | nil => simp at ha
  | cons hab _ ih =>
    cases m with
    | zero =>
      simp only [List.getElem?_cons_zero, Option.some.injEq] at ha hb
      subst ha; subst hb; exact hab
    | succ m =>
      simp only [List.getElem?_cons_succ] at ha hb
      exact ih m ha hb

end Quant
end LNN
