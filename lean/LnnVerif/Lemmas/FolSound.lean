/-
Helper lemmas for the soundness of the first-order layer (property C02).

Everything here is about the MODEL only (tables, the first-order state, grounding management, the
per-grounding activations); the specification vocabulary (`FConsistent`, `FSat`, `FWF`) lives in
`Props/C02.lean`. The central notion is `TSat w t f`: the table `t` of a formula whose world default
is `w` contains the ground values `f : Gr → α` — every stored row contains the value of its
grounding and the world default contains the value of every grounding that is not stored.
-/
import LnnVerif.Model.Fol
import LnnVerif.Lemmas.Engine

set_option linter.unusedSectionVars false

namespace LNN
namespace FolSound

variable {ι : Type} [DecidableEq ι] {α : Type} [Field α] [LinearOrder α] [IsStrictOrderedRing α]

/-! ### generic list facts -/

theorem foldl_inv {β γ : Type} (P : β → Prop) (f : β → γ → β) (l : List γ) (b : β) (hb : P b)
    (hf : ∀ b, P b → ∀ x ∈ l, P (f b x)) : P (l.foldl f b) := by
  induction l generalizing b with
  | nil => exact hb
  | cons x xs ih =>
    exact ih (f b x) (hf b hb x (List.mem_cons_self ..))
      (fun b' hb' y hy => hf b' hb' y (List.mem_cons_of_mem _ hy))

theorem mem_of_mem_dedup {β : Type} [BEq β] (l : List β) (x : β) (h : x ∈ dedup l) : x ∈ l := by
  induction l with
  | nil => simp [dedup] at h
  | cons y ys ih =>
    simp only [dedup] at h
    split at h
    · exact List.mem_cons_of_mem _ (ih h)
    · rcases List.mem_cons.mp h with rfl | h'
      · exact List.mem_cons_self ..
      · exact List.mem_cons_of_mem _ (ih h')

theorem mem_of_mem_dedupKeepFirst {β : Type} [BEq β] (l : List β) (x : β)
    (h : x ∈ dedupKeepFirst l) : x ∈ l := by
  unfold dedupKeepFirst at h
  have := mem_of_mem_dedup _ _ (List.mem_reverse.mp h)
  exact List.mem_reverse.mp this

theorem forall₂_getElem? {β γ : Type} {R : β → γ → Prop} {l₁ : List β} {l₂ : List γ}
    (h : List.Forall₂ R l₁ l₂) (p : Nat) (a : β) (b : γ) (ha : l₁[p]? = some a)
    (hb : l₂[p]? = some b) : R a b := by
  induction h generalizing p with
  | nil => simp at ha
  | cons hab _ ih =>
    cases p with
    | zero =>
      simp only [List.getElem?_cons_zero, Option.some.injEq] at ha hb
      subst ha; subst hb; exact hab
    | succ p =>
      simp only [List.getElem?_cons_succ] at ha hb
      exact ih p ha hb

/-! ### tables -/

theorem find?_some {t : Table α} {g : Gr} {r : Row α} (h : Table.find? t g = some r) :
    r ∈ t ∧ r.g = g := by
  unfold Table.find? at h
  refine ⟨List.mem_of_find?_eq_some h, ?_⟩
  have := List.find?_some h
  simpa using this

theorem find?_none {t : Table α} {g : Gr} (h : Table.find? t g = none) : ∀ r ∈ t, r.g ≠ g := by
  unfold Table.find? at h
  intro r hr
  have := List.find?_eq_none.mp h r hr
  simpa using this

theorem find?_isSome_of_mem {t : Table α} {r : Row α} (hr : r ∈ t) :
    ∃ r', Table.find? t r.g = some r' := by
  cases h : Table.find? t r.g with
  | some r' => exact ⟨r', rfl⟩
  | none => exact absurd rfl (find?_none h r hr)

theorem has_false {t : Table α} {g : Gr} (h : Table.has t g = false) : ∀ r ∈ t, r.g ≠ g := by
  unfold Table.has at h
  cases hf : Table.find? t g with
  | some r => rw [hf] at h; simp at h
  | none => exact find?_none hf

theorem has_true {t : Table α} {g : Gr} (h : Table.has t g = true) : ∃ r ∈ t, r.g = g := by
  unfold Table.has at h
  cases hf : Table.find? t g with
  | some r => exact ⟨r, find?_some hf⟩
  | none => rw [hf] at h; simp at h

/-- rows of `addg`: the old rows, or fresh world-default rows for groundings that were absent -/
theorem mem_addg (w : Bounds α) (gs : List Gr) (t : Table α) (r : Row α)
    (h : r ∈ Table.addg w t gs) :
    r ∈ t ∨ (r.g ∈ gs ∧ r.b = w ∧ ∀ r' ∈ t, r'.g ≠ r.g) := by
  induction gs generalizing t with
  | nil => left; simpa [Table.addg] using h
  | cons g gs ih =>
    unfold Table.addg at h
    split at h
    · rcases ih t h with h1 | ⟨h1, h2, h3⟩
      · exact Or.inl h1
      · exact Or.inr ⟨List.mem_cons_of_mem _ h1, h2, h3⟩
    next hhas =>
      have hhas' : Table.has t g = false := by simpa using hhas
      rcases ih _ h with h1 | ⟨h1, h2, h3⟩
      · rcases List.mem_append.mp h1 with h1 | h1
        · exact Or.inl h1
        · simp only [List.mem_singleton] at h1
          subst h1
          exact Or.inr ⟨List.mem_cons_self .., rfl, has_false hhas'⟩
      · exact Or.inr ⟨List.mem_cons_of_mem _ h1, h2,
          fun r' hr' => h3 r' (List.mem_append_left _ hr')⟩

theorem subset_addg (w : Bounds α) (gs : List Gr) (t : Table α) (r : Row α) (h : r ∈ t) :
    r ∈ Table.addg w t gs := by
  induction gs generalizing t with
  | nil => simpa [Table.addg] using h
  | cons g gs ih =>
    unfold Table.addg
    split
    · exact ih t h
    · exact ih _ (List.mem_append_left _ h)

theorem mem_setB {t : Table α} {g : Gr} {b : Bounds α} {r : Row α} (h : r ∈ Table.setB t g b) :
    ∃ r0 ∈ t, r.g = r0.g ∧ ((r0.g = g ∧ r.b = b) ∨ (r0.g ≠ g ∧ r = r0)) := by
  unfold Table.setB at h
  obtain ⟨r0, hr0, rfl⟩ := List.mem_map.mp h
  refine ⟨r0, hr0, ?_⟩
  by_cases hg : r0.g = g
  · simp [hg]
  · simp [hg]

theorem mem_setB_of_mem {t : Table α} {g : Gr} {b : Bounds α} {r0 : Row α} (h : r0 ∈ t) :
    ∃ r ∈ Table.setB t g b, r.g = r0.g := by
  unfold Table.setB
  refine ⟨_, List.mem_map.mpr ⟨r0, h, rfl⟩, ?_⟩
  by_cases hg : r0.g = g <;> simp [hg]

/-- the table contains the ground values `f` -/
def TSat (w : Bounds α) (t : Table α) (f : Gr → α) : Prop :=
  (∀ r ∈ t, r.b.Has (f r.g)) ∧ (∀ g, (∀ r ∈ t, r.g ≠ g) → w.Has (f g))

/-- what `get_data(g)` reads contains the value -/
theorem TSat.getD {w : Bounds α} {t : Table α} {f : Gr → α} (h : TSat w t f) (g : Gr) :
    (Table.getD w t g).Has (f g) := by
  unfold Table.getD
  cases hf : Table.find? t g with
  | some r =>
    obtain ⟨hr, rfl⟩ := find?_some hf
    exact h.1 r hr
  | none => exact h.2 g (find?_none hf)

theorem TSat.addg {w : Bounds α} {t : Table α} {f : Gr → α} (h : TSat w t f) (gs : List Gr) :
    TSat w (Table.addg w t gs) f := by
  constructor
  · intro r hr
    rcases mem_addg w gs t r hr with h1 | ⟨_, h2, h3⟩
    · exact h.1 r h1
    · rw [h2]; exact h.2 _ h3
  · intro g hg
    exact h.2 g (fun r hr => hg r (subset_addg w gs t r hr))

theorem TSat.setB {w : Bounds α} {t : Table α} {f : Gr → α} (h : TSat w t f) (g : Gr)
    (b : Bounds α) (hb : b.Has (f g)) : TSat w (Table.setB t g b) f := by
  constructor
  · intro r hr
    obtain ⟨r0, hr0, hg, hc⟩ := mem_setB hr
    rcases hc with ⟨h1, h2⟩ | ⟨_, h2⟩
    · rw [h2, hg, h1]; exact hb
    · rw [h2]; exact h.1 r0 hr0
  · intro g' hg'
    apply h.2 g'
    intro r0 hr0
    obtain ⟨r, hr, hrg⟩ := mem_setB_of_mem (g := g) (b := b) hr0
    rw [← hrg]; exact hg' r hr

theorem TSat.aggRow {w : Bounds α} {t : Table α} {f : Gr → α} (h : TSat w t f) (g : Gr)
    (sel : BoundSel) (new : Bounds α) (h0 : 0 ≤ f g) (h1 : f g ≤ 1) (hn : new.Has (f g)) :
    TSat w (aggRow t g sel new).1 f := by
  unfold LNN.aggRow
  cases hf : Table.find? t g with
  | none => exact h
  | some r =>
    simp only
    obtain ⟨hr, hg⟩ := find?_some hf
    apply h.setB
    apply aggregate_has _ _ _ _ h0 h1 _ hn
    rw [← hg]; exact h.1 r hr

/-- a fold of `aggRow` steps keeps the table sound when every proposal contains the value of the
grounding it is written to -/
theorem TSat.foldAgg {β : Type} {w : Bounds α} {f : Gr → α} (hf : ∀ g, 0 ≤ f g ∧ f g ≤ 1)
    (key : β → Gr) (pr : β → Bounds α) (sel : BoundSel) (l : List β)
    (hl : ∀ x ∈ l, (pr x).Has (f (key x))) (acc : Table α × α) (h : TSat w acc.1 f) :
    TSat w (l.foldl (fun (acc : Table α × α) x =>
      let a := LNN.aggRow acc.1 (key x) sel (pr x)
      (a.1, acc.2 + a.2)) acc).1 f := by
  apply foldl_inv (fun acc : Table α × α => TSat w acc.1 f) _ _ _ h
  intro b hb x hx
  exact hb.aggRow _ _ _ (hf _).1 (hf _).2 (hl x hx)

theorem mergeB_has {a b : Bounds α} {x : α} (ha : a.Has x) (hb : b.Has x) : (mergeB a b).Has x :=
  ⟨max_le ha.1 hb.1, le_min ha.2 hb.2⟩

theorem foldl_mergeB_has (cs : List (Bounds α)) (c : Bounds α) (x : α) (hc : c.Has x)
    (hcs : ∀ c' ∈ cs, c'.Has x) : (cs.foldl mergeB c).Has x := by
  apply foldl_inv (fun c : Bounds α => c.Has x) _ _ _ hc
  intro b hb c' hc'
  exact mergeB_has hb (hcs c' hc')

theorem TSat.writeMerged {w : Bounds α} {t : Table α} {f : Gr → α} (h : TSat w t f)
    (hf : ∀ g, 0 ≤ f g ∧ f g ≤ 1) (props : List (Gr × Bounds α))
    (hp : ∀ p ∈ props, p.2.Has (f p.1)) : TSat w (writeMerged t props).1 f := by
  unfold LNN.writeMerged
  simp only
  apply foldl_inv (fun acc : Table α × α => TSat w acc.1 f) _ _ _ h
  intro acc hacc g _
  cases hfind : Table.find? t g with
  | none => exact hacc
  | some r =>
    simp only
    obtain ⟨hr, hg⟩ := find?_some hfind
    have hrb : r.b.Has (f g) := by rw [← hg]; exact h.1 r hr
    have hc : ∀ c ∈ (props.filter (·.1 == g)).map (fun p => (aggregate .both r.b p.2).1),
        c.Has (f g) := by
      intro c hc
      obtain ⟨p, hp1, rfl⟩ := List.mem_map.mp hc
      have hp2 := List.mem_filter.mp hp1
      have hpg : p.1 = g := by simpa using hp2.2
      apply aggregate_has _ _ _ _ (hf g).1 (hf g).2 hrb
      rw [← hpg]; exact hp p hp2.1
    split
    · exact hacc
    next c cs hcs =>
      rw [hcs] at hc
      apply hacc.setB
      exact foldl_mergeB_has cs c _ (hc c (List.mem_cons_self ..))
        (fun c' hc' => hc c' (List.mem_cons_of_mem _ hc'))

/-! ### arity of the stored groundings -/

/-- every stored grounding is a tuple of length `n` -/
def TAr (n : Nat) (t : Table α) : Prop := ∀ r ∈ t, r.g.length = n

theorem TAr.addg {n : Nat} {t : Table α} (h : TAr n t) (w : Bounds α) (gs : List Gr)
    (hgs : ∀ g ∈ gs, g.length = n) : TAr n (Table.addg w t gs) := by
  intro r hr
  rcases mem_addg w gs t r hr with h1 | ⟨h1, _, _⟩
  · exact h r h1
  · exact hgs _ h1

theorem TAr.setB {n : Nat} {t : Table α} (h : TAr n t) (g : Gr) (b : Bounds α) :
    TAr n (Table.setB t g b) := by
  intro r hr
  obtain ⟨r0, hr0, hg, _⟩ := mem_setB hr
  rw [hg]; exact h r0 hr0

theorem TAr.aggRow {n : Nat} {t : Table α} (h : TAr n t) (g : Gr) (sel : BoundSel)
    (new : Bounds α) : TAr n (aggRow t g sel new).1 := by
  unfold LNN.aggRow
  cases Table.find? t g with
  | none => exact h
  | some r => exact h.setB _ _

theorem TAr.foldAgg {β : Type} {n : Nat} (key : β → Gr) (pr : β → Bounds α) (sel : BoundSel)
    (l : List β) (acc : Table α × α) (h : TAr n acc.1) :
    TAr n (l.foldl (fun (acc : Table α × α) x =>
      let a := LNN.aggRow acc.1 (key x) sel (pr x)
      (a.1, acc.2 + a.2)) acc).1 := by
  apply foldl_inv (fun acc : Table α × α => TAr n acc.1) _ _ _ h
  intro b hb x _
  exact hb.aggRow _ _ _

theorem TAr.writeMerged {n : Nat} {t : Table α} (h : TAr n t) (props : List (Gr × Bounds α)) :
    TAr n (writeMerged t props).1 := by
  unfold LNN.writeMerged
  simp only
  apply foldl_inv (fun acc : Table α × α => TAr n acc.1) _ _ _ h
  intro acc hacc g _
  cases Table.find? t g with
  | none => exact hacc
  | some r =>
    simp only
    split
    · exact hacc
    · exact hacc.setB _ _

theorem mem_keys {t : Table α} {g : Gr} (h : g ∈ Table.keys t) : ∃ r ∈ t, r.g = g := by
  unfold Table.keys at h
  obtain ⟨r, hr, rfl⟩ := List.mem_map.mp h
  exact ⟨r, hr, rfl⟩

theorem TAr.keys {n : Nat} {t : Table α} (h : TAr n t) (g : Gr) (hg : g ∈ Table.keys t) :
    g.length = n := by
  obtain ⟨r, hr, rfl⟩ := mem_keys hg
  exact h r hr

/-! ### the first-order state -/

theorem get_set_self (s : FState ι α) (i : ι) (t : Table α) : (s.set i t).get i = t := by
  simp [FState.get, FState.set]

theorem get_set_ne (s : FState ι α) (i j : ι) (t : Table α) (h : j ≠ i) :
    (s.set i t).get j = s.get j := by
  unfold FState.get FState.set
  have hij : ¬ i = j := fun e => h e.symm
  simp only [List.find?_cons, hij, decide_false, List.find?_filter]
  have : (fun a : ι × Table α => decide ((!decide (a.1 = i)) = true ∧ decide (a.1 = j) = true)) =
      fun a => decide (a.1 = j) := by
    funext a
    by_cases ha : a.1 = j
    · simp [ha, h]
    · simp [ha]
  rw [this]

/-- a predicate on tables that holds for every table of the state, per formula -/
theorem addAll_inv (kb : FKB ι α) (P : ι → Table α → Prop) (pairs : List (ι × List Gr))
    (s : FState ι α) (hs : ∀ j, P j (s.get j))
    (hstep : ∀ p ∈ pairs, ∀ t, P p.1 t → P p.1 (Table.addg (kb p.1).world t p.2)) :
    ∀ j, P j ((addAll kb s pairs).get j) := by
  unfold addAll
  apply foldl_inv (fun s : FState ι α => ∀ j, P j (s.get j)) _ _ _ hs
  intro s' hs' p hp j
  by_cases hj : j = p.1
  · subst hj; rw [get_set_self]; exact hstep p hp _ (hs' _)
  · rw [get_set_ne _ _ _ _ hj]; exact hs' j

/-- `addAll` only touches the formulae it is asked to extend -/
theorem addAll_frame (kb : FKB ι α) (pairs : List (ι × List Gr)) (s : FState ι α) (j : ι)
    (hj : ∀ p ∈ pairs, p.1 ≠ j) : (addAll kb s pairs).get j = s.get j := by
  unfold addAll
  apply foldl_inv (fun s' : FState ι α => s'.get j = s.get j) _ _ _ rfl
  intro s' hs' p hp
  rw [get_set_ne _ _ _ _ (fun e => hj p hp e.symm)]; exact hs'

/-! ### the per-grounding activations -/

theorem inBox_zip (ws : List α) (bs : List (Bounds α)) (xs : List α) (hw : ∀ w ∈ ws, 0 ≤ w)
    (hb : List.Forall₂ (fun b x => Bounds.Has b x) bs xs) (hlen : ws.length = xs.length) :
    InBox (List.zipWith (fun w b => (⟨w, b.lo, b.hi⟩ : Opd α)) ws bs) xs := by
  unfold InBox
  induction hb generalizing ws with
  | nil =>
    cases ws with
    | nil => simp
    | cons w ws => simp at hlen
  | @cons b x bs xs hbx _ ih =>
    cases ws with
    | nil => simp at hlen
    | cons w ws =>
      simp only [List.zipWith_cons_cons]
      refine List.Forall₂.cons ⟨hw w (List.mem_cons_self ..), hbx.1, hbx.2⟩ ?_
      exact ih ws (fun w' hw' => hw w' (List.mem_cons_of_mem _ hw')) (by simpa using hlen)

theorem wsum_zip (ws : List α) (bs : List (Bounds α)) (xs : List α) (hlen : bs.length = xs.length) :
    wsum (List.zipWith (fun w b => (⟨w, b.lo, b.hi⟩ : Opd α)) ws bs) xs =
      (List.zipWith (fun w x => w * (1 - x)) ws xs).sum := by
  unfold wsum
  induction ws generalizing bs xs with
  | nil => simp
  | cons w ws ih =>
    cases bs with
    | nil =>
      cases xs with
      | nil => simp
      | cons x xs => simp at hlen
    | cons b bs =>
      cases xs with
      | nil => simp
      | cons x xs =>
        simp only [List.zipWith_cons_cons, List.sum_cons]
        rw [ih bs xs (by simpa using hlen)]

theorem psum_zip (ws : List α) (bs : List (Bounds α)) (xs : List α) (hlen : bs.length = xs.length) :
    psum (List.zipWith (fun w b => (⟨w, b.lo, b.hi⟩ : Opd α)) ws bs) xs =
      (List.zipWith (fun w x => w * x) ws xs).sum := by
  unfold psum
  induction ws generalizing bs xs with
  | nil => simp
  | cons w ws ih =>
    cases bs with
    | nil =>
      cases xs with
      | nil => simp
      | cons x xs => simp at hlen
    | cons b bs =>
      cases xs with
      | nil => simp
      | cons x xs =>
        simp only [List.zipWith_cons_cons, List.sum_cons]
        rw [ih bs xs (by simpa using hlen)]

section act
variable (n : FNode ι α) (bs : List (Bounds α)) (xs : List α)
  (hw : ∀ w ∈ n.ws, 0 ≤ w) (hb : List.Forall₂ (fun b x => Bounds.Has b x) bs xs)
  (hlen : n.ws.length = xs.length)
include hw hb hlen

theorem fActUp_and (hk : n.kind = .and) :
    (fActUp n bs).Has (clamp01 (n.bias - (List.zipWith (fun w x => w * (1 - x)) n.ws xs).sum)) := by
  unfold fActUp
  rw [hk, ← wsum_zip n.ws bs xs hb.length_eq]
  exact andUp_sound _ _ _ (inBox_zip n.ws bs xs hw hb hlen)

theorem fActUp_or (hk : n.kind = .or) :
    (fActUp n bs).Has (clamp01 (1 - n.bias + (List.zipWith (fun w x => w * x) n.ws xs).sum)) := by
  unfold fActUp
  rw [hk, ← psum_zip n.ws bs xs hb.length_eq]
  exact orUp_sound _ _ _ _ (inBox_zip n.ws bs xs hw hb hlen)

theorem fActDown_and (hk : n.kind = .and) (self : Bounds α) (hα : n.alpha ≤ 1)
    (hx01 : ∀ x ∈ xs, 0 ≤ x ∧ x ≤ 1)
    (hself : self.Has (clamp01 (n.bias - (List.zipWith (fun w x => w * (1 - x)) n.ws xs).sum))) :
    List.Forall₂ (fun b x => Bounds.Has b x) (fActDown n self bs) xs := by
  unfold fActDown
  rw [hk]
  rw [← wsum_zip n.ws bs xs hb.length_eq] at hself
  exact andDown_sound _ _ _ _ _ _ hα (inBox_zip n.ws bs xs hw hb hlen) hx01 hself.1 hself.2

theorem fActDown_or (hk : n.kind = .or) (self : Bounds α) (hα : n.alpha ≤ 1)
    (hx01 : ∀ x ∈ xs, 0 ≤ x ∧ x ≤ 1)
    (hself : self.Has (clamp01 (1 - n.bias + (List.zipWith (fun w x => w * x) n.ws xs).sum))) :
    List.Forall₂ (fun b x => Bounds.Has b x) (fActDown n self bs) xs := by
  unfold fActDown
  rw [hk]
  rw [← psum_zip n.ws bs xs hb.length_eq] at hself
  exact orDown_sound _ _ _ _ _ _ hα (inBox_zip n.ws bs xs hw hb hlen) hx01 hself.1 hself.2

end act

theorem fActUp_implies (n : FNode ι α) (hk : n.kind = .implies) (wx wy : α) (hws : n.ws = [wx, wy])
    (hw : ∀ w ∈ n.ws, 0 ≤ w) (bx by' : Bounds α) (x y : α) (hx : bx.Has x) (hy : by'.Has y) :
    (fActUp n [bx, by']).Has (clamp01 (1 - n.bias + wx * (1 - x) + wy * y)) := by
  unfold fActUp
  rw [hk, hws]
  have hwx : 0 ≤ wx := hw wx (by simp [hws])
  have hwy : 0 ≤ wy := hw wy (by simp [hws])
  exact impliesUp_sound n.bias ⟨wx, bx.lo, bx.hi⟩ ⟨wy, by'.lo, by'.hi⟩ x y ⟨hwx, hx.1, hx.2⟩
    ⟨hwy, hy.1, hy.2⟩

theorem fActDown_implies (n : FNode ι α) (hk : n.kind = .implies) (wx wy : α)
    (hws : n.ws = [wx, wy]) (hw : ∀ w ∈ n.ws, 0 ≤ w) (hα : n.alpha ≤ 1) (self bx by' : Bounds α)
    (x y : α) (hx : bx.Has x) (hy : by'.Has y) (hx01 : 0 ≤ x ∧ x ≤ 1) (hy01 : 0 ≤ y ∧ y ≤ 1)
    (hself : self.Has (clamp01 (1 - n.bias + wx * (1 - x) + wy * y))) :
    List.Forall₂ (fun b x => Bounds.Has b x) (fActDown n self [bx, by']) [x, y] := by
  unfold fActDown
  rw [hk, hws]
  have hwx : 0 ≤ wx := hw wx (by simp [hws])
  have hwy : 0 ≤ wy := hw wy (by simp [hws])
  exact impliesDown_sound n.bias n.alpha self.lo self.hi ⟨wx, bx.lo, bx.hi⟩ ⟨wy, by'.lo, by'.hi⟩ x y
    hα ⟨hwx, hx.1, hx.2⟩ ⟨hwy, hy.1, hy.2⟩ hx01 hy01 hself.1 hself.2

/-! ### grounding management -/

theorem proj_range (g : Gr) : (List.range g.length).map (fun c => g.getD c 0) = g := by
  apply List.ext_getElem (by simp)
  intro k h1 h2
  simp at h1
  simp [List.getD_eq_getElem?_getD, h1]

/-- reading a joined row through an operand map is the projection of the operator grounding
(the row read through the slots `0 … nv-1`), provided the map only names slots below `nv` -/
theorem project_eq (cols r : List Nat) (nv : Nat) (m : List Nat) (hm : ∀ c ∈ m, c < nv) :
    Rel.project cols r m = m.map (fun c => (Rel.project cols r (List.range nv)).getD c 0) := by
  unfold Rel.project
  apply List.map_congr_left
  intro c hc
  simp [List.getD_eq_getElem?_getD, hm c hc]

theorem forall₂_mem_left {β γ : Type} {R : β → γ → Prop} {l₁ : List β} {l₂ : List γ}
    (h : List.Forall₂ R l₁ l₂) (a : β) (ha : a ∈ l₁) : ∃ b ∈ l₂, R a b := by
  induction h with
  | nil => simp at ha
  | @cons a' b' l1 l2 hab _ ih =>
    rcases List.mem_cons.mp ha with rfl | ha'
    · exact ⟨b', List.mem_cons_self .., hab⟩
    · obtain ⟨b, hb, hr⟩ := ih ha'
      exact ⟨b, List.mem_cons_of_mem _ hb, hr⟩

/-- what the grounding management of a connective guarantees about its result -/
structure GroundOK (kb : FKB ι α) (ar : ι → Nat) (i : ι) (s s1 : FState ι α) (ogs : List Gr)
    (per : List (List Gr)) : Prop where
  /-- the new state only has extra world-default rows, in operands and in the operator -/
  state : ∃ pairs : List (ι × List Gr), s1 = addAll kb (addAll kb s pairs) [(i, ogs)] ∧
    ∀ p ∈ pairs, p.1 ∈ (kb i).ops ∧ ∀ g ∈ p.2, g.length = ar p.1
  arity : ∀ g ∈ ogs, g.length = ar i
  /-- the operand groundings of the `k`-th operator grounding are its projections through the
  operand maps -/
  align : ∀ k, k < ogs.length →
    rowsOf per k = (kb i).opmap.map (fun m => m.map fun c => (ogs.getD k []).getD c 0)

section gr
variable (kb : FKB ι α) (ar : ι → Nat) (i : ι) (s : FState ι α)
  (hshape : List.Forall₂ (fun j m => List.length m = ar j) (kb i).ops (kb i).opmap)
  (hnv : numVars (kb i) = ar i)
  (hslots : ∀ m ∈ (kb i).opmap, ∀ c ∈ m, c < ar i)
  (hhom : isHomogeneous (kb i) = true → ∀ m ∈ (kb i).opmap, m = List.range (ar i))
  (hs : ∀ j, TAr (ar j) (s.get j))
include hshape hnv hslots hhom hs

theorem groundings_spec (down : Bool) (s1 : FState ι α) (r : Option (List Gr × List (List Gr)))
    (h : groundings kb i down s = (s1, r)) :
    (r = none ∧ s1 = s) ∨ ∃ ogs per, r = some (ogs, per) ∧ GroundOK kb ar i s s1 ogs per := by
  unfold groundings at h
  simp only at h
  split at h
  next hh =>
    -- homogeneous
    right
    have hm := hhom hh
    have harj : ∀ j ∈ (kb i).ops, ar j = ar i := by
      intro j hj
      obtain ⟨m, hm1, hm2⟩ := forall₂_mem_left hshape j hj
      rw [← hm2, hm m hm1]; simp
    simp only [Prod.mk.injEq] at h
    obtain ⟨h1, h2⟩ := h
    subst h2
    have hgs : ∀ g ∈ unionKeys (((kb i).ops.map fun j => (s.get j).keys) ++
        (if down then [(s.get i).keys] else [])), g.length = ar i := by
      intro g hg
      unfold unionKeys at hg
      have hg' := mem_of_mem_dedupKeepFirst _ _ hg
      obtain ⟨l, hl, hgl⟩ := List.mem_flatten.mp hg'
      rcases List.mem_append.mp hl with hl | hl
      · obtain ⟨j, hj, rfl⟩ := List.mem_map.mp hl
        rw [← harj j hj]; exact (hs j).keys g hgl
      · split at hl
        · simp only [List.mem_singleton] at hl
          subst hl; exact (hs i).keys g hgl
        · simp at hl
    refine ⟨_, _, rfl, ⟨⟨_, h1.symm, ?_⟩, hgs, ?_⟩⟩
    · intro p hp
      obtain ⟨j, hj, rfl⟩ := List.mem_map.mp hp
      exact ⟨hj, fun g hg => by rw [harj j hj]; exact hgs g hg⟩
    · intro k hk
      generalize hgsdef : unionKeys (((kb i).ops.map fun j => (s.get j).keys) ++
        (if down then [(s.get i).keys] else [])) = gs at *
      have hgk : (gs.getD k []).length = ar i := by
        apply hgs
        rw [List.getD_eq_getElem?_getD, List.getElem?_eq_getElem hk]
        simp
      unfold rowsOf
      rw [List.map_map]
      have e1 : ((fun l : List Gr => l.getD k []) ∘ fun _ : ι => gs) = fun _ => gs.getD k [] := rfl
      rw [e1, List.map_const']
      have e2 : List.map (fun m : List Nat => m.map fun c => (gs.getD k []).getD c 0) (kb i).opmap =
          List.map (fun _ => gs.getD k []) (kb i).opmap := by
        apply List.map_congr_left
        intro m hm'
        rw [hm m hm', ← hgk]; exact proj_range _
      rw [e2, List.map_const', hshape.length_eq]
  next hh =>
    split at h
    · simp only [Prod.mk.injEq] at h
      exact Or.inl ⟨h.2.symm, h.1.symm⟩
    next j hj =>
      split at h
      · simp only [Prod.mk.injEq] at h
        exact Or.inl ⟨h.2.symm, h.1.symm⟩
      next hne =>
        right
        simp only [Prod.mk.injEq] at h
        obtain ⟨h1, h2⟩ := h
        subst h2
        refine ⟨_, _, rfl, ⟨⟨_, h1.symm, ?_⟩, ?_, ?_⟩⟩
        · intro p hp
          rw [List.zip_map_right] at hp
          obtain ⟨q, hq, rfl⟩ := List.mem_map.mp hp
          have hq' : (q.1, q.2) ∈ List.zip (kb i).ops (kb i).opmap := hq
          refine ⟨(List.of_mem_zip hq').1, ?_⟩
          intro g hg
          simp only [Prod.map, id] at hg ⊢
          obtain ⟨r, _, rfl⟩ := List.mem_map.mp hg
          have := (List.forall₂_iff_zip.mp hshape).2 hq'
          simp [Rel.project, this]
        · intro g hg
          obtain ⟨r, _, rfl⟩ := List.mem_map.mp hg
          simp [Rel.project, hnv]
        · intro k hk
          simp only [List.length_map] at hk
          unfold rowsOf
          rw [List.map_map]
          apply List.map_congr_left
          intro m hm
          simp only [Function.comp, List.getD_eq_getElem?_getD, List.getElem?_map,
            List.getElem?_eq_getElem hk, Option.map_some, Option.getD_some]
          rw [hnv]
          have := project_eq j.cols j.rows[k] (ar i) m (hslots m hm)
          simpa [List.getD_eq_getElem?_getD] using this
end gr

/-! ### state-level invariants -/

/-- every table of the state contains the ground values `f` -/
def SSat (kb : FKB ι α) (s : FState ι α) (f : ι → Gr → α) : Prop :=
  ∀ j, TSat (kb j).world (s.get j) (f j)

/-- every stored grounding of formula `j` has length `ar j` -/
def SAr (ar : ι → Nat) (s : FState ι α) : Prop := ∀ j, TAr (ar j) (s.get j)

theorem SSat.set {kb : FKB ι α} {s : FState ι α} {f : ι → Gr → α} (h : SSat kb s f) (i : ι)
    (t : Table α) (ht : TSat (kb i).world t (f i)) : SSat kb (s.set i t) f := by
  intro j
  by_cases hj : j = i
  · subst hj; rw [get_set_self]; exact ht
  · rw [get_set_ne _ _ _ _ hj]; exact h j

theorem SAr.set {ar : ι → Nat} {s : FState ι α} (h : SAr ar s) (i : ι)
    (t : Table α) (ht : TAr (ar i) t) : SAr ar (s.set i t) := by
  intro j
  by_cases hj : j = i
  · subst hj; rw [get_set_self]; exact ht
  · rw [get_set_ne _ _ _ _ hj]; exact h j

theorem SSat.addAll {kb : FKB ι α} {s : FState ι α} {f : ι → Gr → α} (h : SSat kb s f)
    (pairs : List (ι × List Gr)) : SSat kb (addAll kb s pairs) f :=
  addAll_inv kb (fun j t => TSat (kb j).world t (f j)) pairs s h (fun p _ _ ht => ht.addg p.2)

theorem SAr.addAll {ar : ι → Nat} {s : FState ι α} (h : SAr ar s) (kb : FKB ι α)
    (pairs : List (ι × List Gr)) (hp : ∀ p ∈ pairs, ∀ g ∈ p.2, g.length = ar p.1) :
    SAr ar (addAll kb s pairs) :=
  addAll_inv kb (fun j t => TAr (ar j) t) pairs s h (fun p hp' _ ht => ht.addg _ p.2 (hp p hp'))

theorem GroundOK.ssat {kb : FKB ι α} {ar : ι → Nat} {i : ι} {s s1 : FState ι α} {ogs : List Gr}
    {per : List (List Gr)} (h : GroundOK kb ar i s s1 ogs per) {f : ι → Gr → α}
    (hs : SSat kb s f) : SSat kb s1 f := by
  obtain ⟨pairs, rfl, _⟩ := h.state
  exact (hs.addAll pairs).addAll _

theorem GroundOK.sar {kb : FKB ι α} {ar : ι → Nat} {i : ι} {s s1 : FState ι α} {ogs : List Gr}
    {per : List (List Gr)} (h : GroundOK kb ar i s s1 ogs per) (hs : SAr ar s) : SAr ar s1 := by
  obtain ⟨pairs, rfl, hp⟩ := h.state
  apply (hs.addAll kb pairs (fun p hp' => (hp p hp').2)).addAll
  intro p hp' g hg
  simp only [List.mem_singleton] at hp'
  subst hp'
  exact h.arity g hg

/-- the state part of the grounding management, unconditionally: rows are only created, at world
defaults, in the operands and in the operator -/
theorem groundings_state (kb : FKB ι α) (i : ι) (down : Bool) (s : FState ι α) :
    (groundings kb i down s).1 = s ∨ ∃ pairs ogs,
      (groundings kb i down s).1 = addAll kb (addAll kb s pairs) [(i, ogs)] ∧
      ∀ p ∈ pairs, p.1 ∈ (kb i).ops := by
  unfold groundings
  simp only
  split
  · right
    refine ⟨_, _, rfl, ?_⟩
    intro p hp
    obtain ⟨j, hj, rfl⟩ := List.mem_map.mp hp
    exact hj
  · split
    · left; rfl
    · split
      · left; rfl
      · right
        refine ⟨_, _, rfl, ?_⟩
        intro p hp
        have hp' : (p.1, p.2) ∈ List.zip _ _ := hp
        exact (List.of_mem_zip hp').1

theorem groundings_ssat (kb : FKB ι α) (i : ι) (down : Bool) (s : FState ι α) (f : ι → Gr → α)
    (hs : SSat kb s f) : SSat kb (groundings kb i down s).1 f := by
  rcases groundings_state kb i down s with h | ⟨pairs, ogs, h, _⟩
  · rw [h]; exact hs
  · rw [h]; exact (hs.addAll pairs).addAll _

theorem groundings_frame (kb : FKB ι α) (i : ι) (down : Bool) (s : FState ι α) (j : ι)
    (hj : j ∉ i :: (kb i).ops) : (groundings kb i down s).1.get j = s.get j := by
  rcases groundings_state kb i down s with h | ⟨pairs, ogs, h, hp⟩
  · rw [h]
  · rw [h, addAll_frame, addAll_frame]
    · intro p hp' e
      exact hj (List.mem_cons_of_mem _ (e ▸ hp p hp'))
    · intro p hp' e
      simp only [List.mem_singleton] at hp'
      subst hp'
      exact hj (e ▸ List.mem_cons_self ..)

/-! ### first-order Not -/

theorem negB_has {b : Bounds α} {x : α} (h : b.Has x) : (negB b).Has (1 - x) := by
  unfold negB Bounds.Has
  exact ⟨by linarith [h.2], by linarith [h.1]⟩

section neg
variable (kb : FKB ι α) (i : ι) (s : FState ι α) (f : ι → Gr → α)

theorem fUpNot_ssat (hs : SSat kb s f) (f01 : ∀ j g, 0 ≤ f j g ∧ f j g ≤ 1)
    (hneg : ∀ j rest, (kb i).ops = j :: rest → ∀ g ∈ (s.get j).keys, f i g = 1 - f j g) :
    SSat kb (fUpNot kb i s).1 f := by
  unfold fUpNot
  split
  · exact hs
  next j rest hops =>
    simp only
    split
    · exact hs
    · apply hs.set
      apply TSat.foldAgg (f01 i) (fun g => g)
        (fun g => negB (Table.getD (kb j).world (s.get j) g)) .both
      · intro g hg
        rw [hneg j rest hops g hg]
        exact negB_has ((hs j).getD g)
      · exact (hs i).addg _

theorem fDownNot_ssat (hs : SSat kb s f) (f01 : ∀ j g, 0 ≤ f j g ∧ f j g ≤ 1)
    (hneg : ∀ j rest, (kb i).ops = j :: rest → ∀ g ∈ (s.get i).keys, f i g = 1 - f j g) :
    SSat kb (fDownNot kb i s).1 f := by
  unfold fDownNot
  split
  · exact hs
  next j rest hops =>
    simp only
    split
    · exact hs
    · apply hs.set
      apply TSat.foldAgg (f01 j) (fun g => g)
        (fun g => negB (Table.getD (kb i).world (s.get i) g)) .both
      · intro g hg
        have : f j g = 1 - f i g := by rw [hneg j rest hops g hg]; ring
        rw [this]
        exact negB_has ((hs i).getD g)
      · exact (hs j).addg _

theorem fUpNot_sar (ar : ι → Nat) (hs : SAr ar s)
    (hnar : ∀ j rest, (kb i).ops = j :: rest → ar j = ar i) : SAr ar (fUpNot kb i s).1 := by
  unfold fUpNot
  split
  · exact hs
  next j rest hops =>
    simp only
    split
    · exact hs
    · apply hs.set
      apply TAr.foldAgg (fun g => g)
      apply (hs i).addg
      intro g hg
      rw [← hnar j rest hops]; exact (hs j).keys g hg

theorem fDownNot_sar (ar : ι → Nat) (hs : SAr ar s)
    (hnar : ∀ j rest, (kb i).ops = j :: rest → ar j = ar i) : SAr ar (fDownNot kb i s).1 := by
  unfold fDownNot
  split
  · exact hs
  next j rest hops =>
    simp only
    split
    · exact hs
    · apply hs.set
      apply TAr.foldAgg (fun g => g)
      apply (hs j).addg
      intro g hg
      rw [hnar j rest hops]; exact (hs i).keys g hg

theorem fUpNot_frame (j : ι) (hj : j ≠ i) : (fUpNot kb i s).1.get j = s.get j := by
  unfold fUpNot
  split
  · rfl
  · simp only
    split
    · rfl
    · exact get_set_ne _ _ _ _ hj

theorem fDownNot_frame (j : ι) (hj : j ∉ (kb i).ops) : (fDownNot kb i s).1.get j = s.get j := by
  unfold fDownNot
  split
  · rfl
  next j' rest hops =>
    simp only
    split
    · rfl
    · apply get_set_ne
      intro e
      apply hj; rw [hops, e]; exact List.mem_cons_self ..

end neg

/-! ### connectives -/

/-- the ground values of the operands of `n` at the operator grounding `g`: operand `j` is read
at the projection of `g` through its operand map -/
def opVals (n : FNode ι α) (f : ι → Gr → α) (g : Gr) : List α :=
  List.zipWith (fun j m => f j (m.map fun c => g.getD c 0)) n.ops n.opmap

/-- the operand readings at the projected groundings contain the operand values -/
theorem reads_has (kb : FKB ι α) (s1 : FState ι α) (f : ι → Gr → α) (hs1 : SSat kb s1 f)
    (g : Gr) (ops : List ι) (opmap : List (List Nat)) :
    List.Forall₂ (fun b x => Bounds.Has b x)
      (List.zipWith (fun j g' => Table.getD (kb j).world (s1.get j) g') ops
        (opmap.map fun m => m.map fun c => g.getD c 0))
      (List.zipWith (fun j m => f j (m.map fun c => g.getD c 0)) ops opmap) := by
  induction ops generalizing opmap with
  | nil => simp
  | cons j ops ih =>
    cases opmap with
    | nil => simp
    | cons m ms =>
      simp only [List.map_cons, List.zipWith_cons_cons]
      exact List.Forall₂.cons ((hs1 j).getD _) (ih ms)

theorem getD_mem {β : Type} (l : List β) (k : Nat) (d : β) (hk : k < l.length) : l.getD k d ∈ l := by
  rw [List.getD_eq_getElem?_getD, List.getElem?_eq_getElem hk]
  simp

theorem mem_zip_range {β : Type} (l : List β) (n : Nat) (p : Nat × β)
    (hp : p ∈ List.zip (List.range n) l) : l[p.1]? = some p.2 := by
  obtain ⟨k, hk⟩ := List.mem_iff_getElem?.mp hp
  rw [List.getElem?_zip_eq_some] at hk
  obtain ⟨h1, h2⟩ := hk
  obtain ⟨hlt, he⟩ := List.getElem?_eq_some_iff.mp h1
  simp only [List.getElem_range] at he
  rw [← he]; exact h2

section conn
variable (kb : FKB ι α) (ar : ι → Nat) (i : ι) (s : FState ι α) (f : ι → Gr → α)
  (hshape : List.Forall₂ (fun j m => List.length m = ar j) (kb i).ops (kb i).opmap)
  (hnv : numVars (kb i) = ar i)
  (hslots : ∀ m ∈ (kb i).opmap, ∀ c ∈ m, c < ar i)
  (hhom : isHomogeneous (kb i) = true → ∀ m ∈ (kb i).opmap, m = List.range (ar i))
  (har : SAr ar s)
include hshape hnv hslots hhom har

theorem fUpConn_sar : SAr ar (fUpConn kb i s).1 := by
  unfold fUpConn
  simp only
  split
  next s1 hgr =>
    rcases groundings_spec kb ar i s hshape hnv hslots hhom har _ _ _ hgr with ⟨_, h⟩ | ⟨_, _, h, _⟩
    · rw [h]; exact har
    · simp at h
  next s1 ogs per hgr =>
    rcases groundings_spec kb ar i s hshape hnv hslots hhom har _ _ _ hgr with ⟨h, _⟩ | ⟨ogs', per', h, hok⟩
    · simp at h
    · simp only [Option.some.injEq, Prod.mk.injEq] at h
      obtain ⟨rfl, rfl⟩ := h
      have h1 := hok.sar har
      apply h1.set
      exact TAr.foldAgg (fun it : Gr × Bounds α => it.1) (fun it => it.2) .both _ _ (h1 i)

theorem fUpConn_ssat (hs : SSat kb s f) (f01 : ∀ j g, 0 ≤ f j g ∧ f j g ≤ 1)
    (hact : ∀ g, g.length = ar i → ∀ bs,
      List.Forall₂ (fun b x => Bounds.Has b x) bs (opVals (kb i) f g) →
      (fActUp (kb i) bs).Has (f i g)) :
    SSat kb (fUpConn kb i s).1 f := by
  unfold fUpConn
  simp only
  split
  next s1 hgr =>
    rcases groundings_spec kb ar i s hshape hnv hslots hhom har _ _ _ hgr with ⟨_, h⟩ | ⟨_, _, h, _⟩
    · rw [h]; exact hs
    · simp at h
  next s1 ogs per hgr =>
    rcases groundings_spec kb ar i s hshape hnv hslots hhom har _ _ _ hgr with ⟨h, _⟩ | ⟨ogs', per', h, hok⟩
    · simp at h
    · simp only [Option.some.injEq, Prod.mk.injEq] at h
      obtain ⟨rfl, rfl⟩ := h
      have h1 := hok.ssat hs
      apply h1.set
      refine TSat.foldAgg (f01 i) (fun it : Gr × Bounds α => it.1) (fun it => it.2) .both _ ?_ _ (h1 i)
      intro it hit
      obtain ⟨k, hk, hit⟩ := List.mem_filterMap.mp hit
      have hk' : k < ogs.length := List.mem_range.mp hk
      split at hit
      · simp at hit
      · simp only [Option.some.injEq] at hit
        subst hit
        simp only
        apply hact _ (hok.arity _ (getD_mem _ _ _ hk'))
        rw [hok.align k hk']
        exact reads_has kb s1 f h1 _ _ _

theorem fDownConn_sar (idx : Option Nat) : SAr ar (fDownConn kb i idx s).1 := by
  unfold fDownConn
  simp only
  split
  next s1 hgr =>
    rcases groundings_spec kb ar i s hshape hnv hslots hhom har _ _ _ hgr with ⟨_, h⟩ | ⟨_, _, h, _⟩
    · rw [h]; exact har
    · simp at h
  next s1 ogs per hgr =>
    rcases groundings_spec kb ar i s hshape hnv hslots hhom har _ _ _ hgr with ⟨h, _⟩ | ⟨ogs', per', h, hok⟩
    · simp at h
    · simp only [Option.some.injEq, Prod.mk.injEq] at h
      obtain ⟨rfl, rfl⟩ := h
      have h1 := hok.sar har
      split
      · exact h1
      · apply foldl_inv (fun acc : FState ι α × α => SAr ar acc.1) _ _ _ h1
        intro acc hacc p _
        split
        · exact hacc.set _ _ ((hacc _).writeMerged _)
        · exact hacc

theorem fDownConn_ssat (idx : Option Nat) (hs : SSat kb s f) (f01 : ∀ j g, 0 ≤ f j g ∧ f j g ≤ 1)
    (hact : ∀ g, g.length = ar i → ∀ self bs, self.Has (f i g) →
      List.Forall₂ (fun b x => Bounds.Has b x) bs (opVals (kb i) f g) →
      List.Forall₂ (fun b x => Bounds.Has b x) (fActDown (kb i) self bs) (opVals (kb i) f g)) :
    SSat kb (fDownConn kb i idx s).1 f := by
  unfold fDownConn
  simp only
  split
  next s1 hgr =>
    rcases groundings_spec kb ar i s hshape hnv hslots hhom har _ _ _ hgr with ⟨_, h⟩ | ⟨_, _, h, _⟩
    · rw [h]; exact hs
    · simp at h
  next s1 ogs per hgr =>
    rcases groundings_spec kb ar i s hshape hnv hslots hhom har _ _ _ hgr with ⟨h, _⟩ | ⟨ogs', per', h, hok⟩
    · simp at h
    · simp only [Option.some.injEq, Prod.mk.injEq] at h
      obtain ⟨rfl, rfl⟩ := h
      have h1 := hok.ssat hs
      split
      · exact h1
      · apply foldl_inv (fun acc : FState ι α × α => SSat kb acc.1 f) _ _ _ h1
        intro acc hacc p hp
        have hpj := mem_zip_range _ _ p hp
        split
        · apply hacc.set
          apply (hacc p.2).writeMerged (f01 p.2)
          intro q hq
          obtain ⟨it, hit, hq⟩ := List.mem_filterMap.mp hq
          obtain ⟨k, hk, hit⟩ := List.mem_filterMap.mp hit
          have hk' : k < ogs.length := List.mem_range.mp hk
          split at hit
          · simp at hit
          · simp only [Option.some.injEq] at hit
            subst hit
            simp only at hq
            split at hq
            next g' b hg' hb =>
              simp only [Option.some.injEq] at hq
              subst hq
              simp only
              have hgl := hok.arity _ (getD_mem _ _ [] hk')
              rw [hok.align k hk'] at hg' hb
              have hF := hact _ hgl _ _ ((h1 i).getD _)
                (reads_has kb s1 f h1 (ogs.getD k []) (kb i).ops (kb i).opmap)
              rw [List.getElem?_map] at hg'
              cases hm : (kb i).opmap[p.1]? with
              | none => rw [hm] at hg'; simp at hg'
              | some m =>
                rw [hm] at hg'
                simp only [Option.map_some, Option.some.injEq] at hg'
                subst hg'
                apply forall₂_getElem? hF p.1 _ _ hb
                unfold opVals
                rw [List.getElem?_zipWith, hpj, hm]
            · simp at hq
        · exact hacc

end conn

/-! ### frame: which tables a call can touch -/

section frame
variable (kb : FKB ι α) (i : ι) (s : FState ι α) (j : ι)

theorem fUpConn_frame (hj : j ∉ i :: (kb i).ops) : (fUpConn kb i s).1.get j = s.get j := by
  have hg := groundings_frame kb i false s j hj
  unfold fUpConn
  simp only
  split
  next s1 hgr => rw [hgr] at hg; exact hg
  next s1 ogs per hgr =>
    rw [hgr] at hg
    simp only
    rw [get_set_ne _ _ _ _ (fun e : j = i => hj (by rw [e]; exact List.mem_cons_self ..))]
    exact hg

theorem fDownConn_frame (idx : Option Nat) (hj : j ∉ i :: (kb i).ops) :
    (fDownConn kb i idx s).1.get j = s.get j := by
  have hg := groundings_frame kb i true s j hj
  unfold fDownConn
  simp only
  split
  next s1 hgr => rw [hgr] at hg; exact hg
  next s1 ogs per hgr =>
    rw [hgr] at hg
    simp only at hg
    split
    · exact hg
    · apply foldl_inv (fun acc : FState ι α × α => acc.1.get j = s.get j) _ _ _ hg
      intro acc hacc p hp
      split
      · simp only
        have hp2 : p.2 ∈ (kb i).ops := (List.of_mem_zip (show (p.1, p.2) ∈ _ from hp)).2
        rw [get_set_ne _ _ _ _ (fun e : j = p.2 => hj (by rw [e]; exact List.mem_cons_of_mem _ hp2))]
        exact hacc
      · exact hacc

theorem fUpQuant_frame (hj : j ≠ i) : (fUpQuant kb i s).1.get j = s.get j := by
  unfold fUpQuant
  simp only
  split
  · rfl
  · split
    · rfl
    · exact get_set_ne _ _ _ _ hj

theorem fDownQuant_frame (hj : j ∉ i :: (kb i).ops) : (fDownQuant kb i s).1.get j = s.get j := by
  unfold fDownQuant
  simp only
  split
  · rfl
  next j' rest hops =>
    split
    · rfl
    · rw [get_set_ne, get_set_ne]
      · exact fun e => hj (e ▸ List.mem_cons_self ..)
      · intro e
        apply hj; rw [hops, e]
        exact List.mem_cons_of_mem _ (List.mem_cons_self ..)

end frame

/-! ### row creation does not change what any grounding reads -/

theorem getD_addg (w : Bounds α) (gs : List Gr) (t : Table α) (g : Gr) :
    Table.getD w (Table.addg w t gs) g = Table.getD w t g := by
  induction gs generalizing t with
  | nil => simp [Table.addg]
  | cons g' gs ih =>
    unfold Table.addg
    split
    · exact ih t
    · rw [ih]
      unfold Table.getD Table.find?
      rw [List.find?_append]
      cases List.find? (fun r => r.g == g) t with
      | some r => rfl
      | none =>
        by_cases hg : g' = g
        · simp [hg]
        · simp [hg]

theorem addAll_reads (kb : FKB ι α) (pairs : List (ι × List Gr)) (s : FState ι α) (j : ι) (g : Gr) :
    Table.getD (kb j).world ((addAll kb s pairs).get j) g = Table.getD (kb j).world (s.get j) g :=
  addAll_inv kb (fun j t => ∀ g, Table.getD (kb j).world t g = Table.getD (kb j).world (s.get j) g)
    pairs s (fun _ _ => rfl) (fun p _ t ht g => by rw [getD_addg]; exact ht g) j g

theorem groundings_reads (kb : FKB ι α) (i : ι) (down : Bool) (s : FState ι α) (j : ι) (g : Gr) :
    Table.getD (kb j).world ((groundings kb i down s).1.get j) g =
      Table.getD (kb j).world (s.get j) g := by
  rcases groundings_state kb i down s with h | ⟨pairs, ogs, h, _⟩
  · rw [h]
  · rw [h, addAll_reads, addAll_reads]

section reads
variable (kb : FKB ι α) (i : ι) (s : FState ι α) (j : ι) (g : Gr)

theorem fUpConn_reads (hj : j ≠ i) :
    Table.getD (kb j).world ((fUpConn kb i s).1.get j) g = Table.getD (kb j).world (s.get j) g := by
  have hg := groundings_reads kb i false s j g
  unfold fUpConn
  simp only
  split
  next s1 hgr => rw [hgr] at hg; exact hg
  next s1 ogs per hgr =>
    rw [hgr] at hg
    simp only
    rw [get_set_ne _ _ _ _ hj]
    exact hg

theorem fDownConn_reads (idx : Option Nat) (hj : j ∉ (kb i).ops) :
    Table.getD (kb j).world ((fDownConn kb i idx s).1.get j) g =
      Table.getD (kb j).world (s.get j) g := by
  have hg := groundings_reads kb i true s j g
  unfold fDownConn
  simp only
  split
  next s1 hgr => rw [hgr] at hg; exact hg
  next s1 ogs per hgr =>
    rw [hgr] at hg
    simp only at hg
    split
    · exact hg
    · apply foldl_inv (fun acc : FState ι α × α =>
        Table.getD (kb j).world (acc.1.get j) g = Table.getD (kb j).world (s.get j) g) _ _ _ hg
      intro acc hacc p hp
      split
      · simp only
        have hp2 : p.2 ∈ (kb i).ops := (List.of_mem_zip (show (p.1, p.2) ∈ _ from hp)).2
        rw [get_set_ne _ _ _ _ (fun e : j = p.2 => hj (by rw [e]; exact hp2))]
        exact hacc
      · exact hacc

theorem fDownQuant_reads (hj : j ∉ (kb i).ops) :
    Table.getD (kb j).world ((fDownQuant kb i s).1.get j) g =
      Table.getD (kb j).world (s.get j) g := by
  unfold fDownQuant
  simp only
  split
  · rfl
  next j' rest hops =>
    split
    · rfl
    · have hjj : j ≠ j' := by
        intro e; apply hj; rw [hops, e]; exact List.mem_cons_self ..
      rw [get_set_ne _ _ _ _ hjj]
      by_cases hji : j = i
      · subst hji; rw [get_set_self, getD_addg]
      · rw [get_set_ne _ _ _ _ hji]

end reads

/-! ### loading data -/

theorem tSat_nil (w : Bounds α) (f : Gr → α) (h : ∀ g, w.Has (f g)) : TSat w [] f :=
  ⟨fun _ hr => by simp at hr, fun g _ => h g⟩

theorem TSat.addData {w : Bounds α} {t : Table α} {f : Gr → α} (h : TSat w t f) (g : Gr)
    (b : Bounds α) (hb : b.Has (f g)) : TSat w (Table.addData w t g b) f := by
  have h' := h.addg [g]
  unfold Table.addData
  constructor
  · intro r hr
    obtain ⟨r0, hr0, rfl⟩ := List.mem_map.mp hr
    by_cases hg : r0.g = g
    · simpa [hg] using hb
    · simpa [hg] using h'.1 r0 hr0
  · intro g' hg'
    apply h'.2 g'
    intro r0 hr0
    have := hg' _ (List.mem_map.mpr ⟨r0, hr0, rfl⟩)
    by_cases hg : r0.g = g
    · simpa [hg] using this
    · simpa [hg] using this

theorem TAr.addData {n : Nat} {t : Table α} (h : TAr n t) (w : Bounds α) (g : Gr) (b : Bounds α)
    (hg : g.length = n) : TAr n (Table.addData w t g b) := by
  have h' := h.addg w [g] (by simpa using hg)
  unfold Table.addData
  intro r hr
  obtain ⟨r0, hr0, rfl⟩ := List.mem_map.mp hr
  by_cases hg' : r0.g = g
  · simpa [hg'] using hg
  · simpa [hg'] using h' r0 hr0

end FolSound
end LNN
