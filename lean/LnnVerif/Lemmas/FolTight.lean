/-
First-order inference is never tighter than exhaustive bounds propagation over the ground instances.

This is the interval generalisation of the point soundness of `Lemmas/FolSound.lean` /
`Props/C02.lean`. The point interpretation `f : ι → Gr → α` is replaced by a ground bound
assignment `G : ι → Gr → Bounds α` that is *closed under every ground step* of the instantiated
(propositional) theory (`GClosed`: a post-fixpoint of ground propagation). "`G` is at least as
tight as the first-order state" (`SLe`) is an invariant of every quantifier-free first-order call
sequence (`C02_not_tighter_call`, `C02_not_tighter`, `C02_not_tighter_infer`); consequently what any
query `get_data(g)` returns is never tighter than `G` (`SLe.reads`).

* `point_closed`: a model `v` of the ground theory, read as the degenerate intervals `[v, v]`, is
  closed — the theorem subsumes point soundness;
* `FolTightEx`: a concrete knowledge base over `ℚ` with a non-degenerate closed assignment;
* section `ground`: `GClosed` is what a fixpoint of the un-arrested propositional engine
  (`Mono.ustep`) on the instantiated knowledge base `groundKB` satisfies.
-/
import LnnVerif.Props.C02
import LnnVerif.Lemmas.Mono

set_option linter.unusedSectionVars false

namespace LNN
namespace FolTight

open FolSound Mono

variable {ι : Type} [DecidableEq ι] {α : Type} [Field α] [LinearOrder α] [IsStrictOrderedRing α]

/-! ### tables against a ground bound assignment -/

/-- `G` is at least as tight as the table: stored rows are looser than `G`, and the world default
is looser than `G` at every grounding that is not stored (same shape as `FolSound.TSat`) -/
def TLe (w : Bounds α) (t : Table α) (G : Gr → Bounds α) : Prop :=
  (∀ r ∈ t, BLe r.b (G r.g)) ∧ (∀ g, (∀ r ∈ t, r.g ≠ g) → BLe w (G g))

theorem tLe_iff_keys (w : Bounds α) (t : Table α) (G : Gr → Bounds α) :
    TLe w t G ↔ (∀ r ∈ t, BLe r.b (G r.g)) ∧ (∀ g, g ∉ Table.keys t → BLe w (G g)) := by
  unfold TLe
  refine and_congr Iff.rfl (forall_congr' fun g => ?_)
  have : g ∉ Table.keys t ↔ ∀ r ∈ t, r.g ≠ g := by simp [Table.keys]
  rw [this]

/-- what `get_data(g)` reads is never tighter than `G` -/
theorem TLe.getD {w : Bounds α} {t : Table α} {G : Gr → Bounds α} (h : TLe w t G) (g : Gr) :
    BLe (Table.getD w t g) (G g) := by
  unfold Table.getD
  cases hf : Table.find? t g with
  | some r =>
    obtain ⟨hr, rfl⟩ := find?_some hf
    exact h.1 r hr
  | none => exact h.2 g (find?_none hf)

/-- new rows hold the world default, which is looser than `G` by the second clause -/
theorem TLe.addg {w : Bounds α} {t : Table α} {G : Gr → Bounds α} (h : TLe w t G) (gs : List Gr) :
    TLe w (Table.addg w t gs) G := by
  constructor
  · intro r hr
    rcases mem_addg w gs t r hr with h1 | ⟨_, h2, h3⟩
    · exact h.1 r h1
    · rw [h2]; exact h.2 _ h3
  · intro g hg
    exact h.2 g (fun r hr => hg r (subset_addg w gs t r hr))

theorem TLe.setB {w : Bounds α} {t : Table α} {G : Gr → Bounds α} (h : TLe w t G) (g : Gr)
    (b : Bounds α) (hb : BLe b (G g)) : TLe w (Table.setB t g b) G := by
  constructor
  · intro r hr
    obtain ⟨r0, hr0, hg, hc⟩ := mem_setB hr
    rcases hc with ⟨h1, h2⟩ | ⟨_, h2⟩
    · rw [h2, hg, h1]; exact hb
    · rw [h2]; exact h.1 r0 hr0
  · intro g' hg'
    apply h.2 g'
    intro r0 hr0
    obtain ⟨r, hr, hrg⟩ := mem_setB_of_mem (g := g) (b := b) hr0
    rw [← hrg]; exact hg' r hr

/-- intersecting two intervals that are looser than a unit interval `c` (and clamping) is still
looser than `c` -/
theorem bLe_aggregate {prev new c : Bounds α} (hc : UnitB c) (hp : BLe prev c) (hn : BLe new c) :
    BLe (aggregate .both prev new).1 c := by
  rw [aggregate_both]
  constructor
  · show clamp01 (max prev.lo new.lo) ≤ c.lo
    unfold clamp01
    exact le_trans (min_le_right _ _) (max_le hc.1 (max_le hp.1 hn.1))
  · show c.hi ≤ clamp01 (min prev.hi new.hi)
    unfold clamp01
    exact le_min hc.2.2.2 (le_trans (le_min hp.2 hn.2) (le_max_right _ _))

theorem TLe.aggRow {w : Bounds α} {t : Table α} {G : Gr → Bounds α} (h : TLe w t G) (g : Gr)
    (new : Bounds α) (hu : UnitB (G g)) (hn : BLe new (G g)) :
    TLe w (aggRow t g .both new).1 G := by
  unfold LNN.aggRow
  cases hf : Table.find? t g with
  | none => exact h
  | some r =>
    simp only
    obtain ⟨hr, hg⟩ := find?_some hf
    apply h.setB
    apply bLe_aggregate hu _ hn
    rw [← hg]; exact h.1 r hr

/-- a fold of `aggRow` steps keeps the table looser than `G` when every proposal is looser than
`G` at the grounding it is written to -/
theorem TLe.foldAgg {β : Type} {w : Bounds α} {G : Gr → Bounds α} (hu : ∀ g, UnitB (G g))
    (key : β → Gr) (pr : β → Bounds α) (l : List β)
    (hl : ∀ x ∈ l, BLe (pr x) (G (key x))) (acc : Table α × α) (h : TLe w acc.1 G) :
    TLe w (l.foldl (fun (acc : Table α × α) x =>
      let a := LNN.aggRow acc.1 (key x) .both (pr x)
      (a.1, acc.2 + a.2)) acc).1 G := by
  apply foldl_inv (fun acc : Table α × α => TLe w acc.1 G) _ _ _ h
  intro b hb x hx
  exact hb.aggRow _ _ (hu _) (hl x hx)

theorem bLe_mergeB {a b c : Bounds α} (ha : BLe a c) (hb : BLe b c) : BLe (mergeB a b) c :=
  ⟨max_le ha.1 hb.1, le_min ha.2 hb.2⟩

theorem foldl_mergeB_bLe (cs : List (Bounds α)) (c x : Bounds α) (hc : BLe c x)
    (hcs : ∀ c' ∈ cs, BLe c' x) : BLe (cs.foldl mergeB c) x := by
  apply foldl_inv (fun c : Bounds α => BLe c x) _ _ _ hc
  intro b hb c' hc'
  exact bLe_mergeB hb (hcs c' hc')

theorem TLe.writeMerged {w : Bounds α} {t : Table α} {G : Gr → Bounds α} (h : TLe w t G)
    (hu : ∀ g, UnitB (G g)) (props : List (Gr × Bounds α))
    (hp : ∀ p ∈ props, BLe p.2 (G p.1)) : TLe w (writeMerged t props).1 G := by
  unfold LNN.writeMerged
  simp only
  apply foldl_inv (fun acc : Table α × α => TLe w acc.1 G) _ _ _ h
  intro acc hacc g _
  cases hfind : Table.find? t g with
  | none => exact hacc
  | some r =>
    simp only
    obtain ⟨hr, hg⟩ := find?_some hfind
    have hrb : BLe r.b (G g) := by rw [← hg]; exact h.1 r hr
    have hc : ∀ c ∈ (props.filter (·.1 == g)).map (fun p => (aggregate .both r.b p.2).1),
        BLe c (G g) := by
      intro c hc
      obtain ⟨p, hp1, rfl⟩ := List.mem_map.mp hc
      have hp2 := List.mem_filter.mp hp1
      have hpg : p.1 = g := by simpa using hp2.2
      apply bLe_aggregate (hu g) hrb
      rw [← hpg]; exact hp p hp2.1
    split
    · exact hacc
    next c cs hcs =>
      rw [hcs] at hc
      apply hacc.setB
      exact foldl_mergeB_bLe cs c _ (hc c (List.mem_cons_self ..))
        (fun c' hc' => hc c' (List.mem_cons_of_mem _ hc'))

/-! ### the first-order state against a ground bound assignment -/

/-- `G` is at least as tight as the first-order state `s` -/
def SLe (kb : FKB ι α) (s : FState ι α) (G : ι → Gr → Bounds α) : Prop :=
  ∀ i, TLe (kb i).world (s.get i) (G i)

/-- **What any query returns is never tighter than `G`.** -/
theorem SLe.reads {kb : FKB ι α} {s : FState ι α} {G : ι → Gr → Bounds α} (h : SLe kb s G) (i : ι)
    (g : Gr) : BLe (Table.getD (kb i).world (s.get i) g) (G i g) :=
  (h i).getD g

theorem SLe.set {kb : FKB ι α} {s : FState ι α} {G : ι → Gr → Bounds α} (h : SLe kb s G) (i : ι)
    (t : Table α) (ht : TLe (kb i).world t (G i)) : SLe kb (s.set i t) G := by
  intro j
  by_cases hj : j = i
  · subst hj; rw [get_set_self]; exact ht
  · rw [get_set_ne _ _ _ _ hj]; exact h j

theorem SLe.addAll {kb : FKB ι α} {s : FState ι α} {G : ι → Gr → Bounds α} (h : SLe kb s G)
    (pairs : List (ι × List Gr)) : SLe kb (addAll kb s pairs) G :=
  addAll_inv kb (fun j t => TLe (kb j).world t (G j)) pairs s h (fun p _ _ ht => ht.addg p.2)

theorem GroundOK.sle {kb : FKB ι α} {ar : ι → Nat} {i : ι} {s s1 : FState ι α} {ogs : List Gr}
    {per : List (List Gr)} (h : GroundOK kb ar i s s1 ogs per) {G : ι → Gr → Bounds α}
    (hs : SLe kb s G) : SLe kb s1 G := by
  obtain ⟨pairs, rfl, _⟩ := h.state
  exact (hs.addAll pairs).addAll _

/-- the empty state (every grounding unasserted) is looser than every assignment that respects the
world defaults -/
theorem SLe_empty (kb : FKB ι α) (G : ι → Gr → Bounds α) (h : ∀ i g, BLe (kb i).world (G i g)) :
    SLe kb ⟨[]⟩ G := by
  intro i
  have : (⟨[]⟩ : FState ι α).get i = [] := rfl
  rw [this]
  exact ⟨fun _ hr => by simp at hr, fun g _ => h i g⟩

/-! ### closedness under the ground steps -/

/-- the bounds `G` gives to the operands of `n` when the operator is at grounding `g` (operand `j`
is read at the projection of `g` through its operand map) -/
def gOpBounds (n : FNode ι α) (G : ι → Gr → Bounds α) (g : Gr) : List (Bounds α) :=
  List.zipWith (fun j m => G j (m.map fun c => g.getD c 0)) n.ops n.opmap

/-- `G` is closed under every ground instance of every step of the instantiated (propositional)
theory: one un-arrested ground step applied to `G` does not tighten `G`. -/
structure GClosed (kb : FKB ι α) (ar : ι → Nat) (G : ι → Gr → Bounds α) : Prop where
  /-- all bounds lie in `[0,1]` (nothing is said about their relative position: `G` may be
  crossed) -/
  unit : ∀ i g, UnitB (G i g)
  /-- ground upward step of a connective -/
  up : ∀ i g, (kb i).kind.isConn = true → g.length = ar i →
    BLe (fActUp (kb i) (gOpBounds (kb i) G g)) (G i g)
  /-- ground downward step of a connective, every operand -/
  down : ∀ i g, (kb i).kind.isConn = true → g.length = ar i →
    List.Forall₂ BLe (fActDown (kb i) (G i g) (gOpBounds (kb i) G g)) (gOpBounds (kb i) G g)
  /-- ground upward step of Not -/
  negUp : ∀ i g j rest, (kb i).kind = .neg → (kb i).ops = j :: rest → g.length = ar i →
    BLe (negB (G j g)) (G i g)
  /-- ground downward step of Not -/
  negDown : ∀ i g j rest, (kb i).kind = .neg → (kb i).ops = j :: rest → g.length = ar i →
    BLe (negB (G i g)) (G j g)

/-! ### monotonicity of the per-grounding activations -/

theorem zip_opdLe (ws : List α) (hw : ∀ w ∈ ws, 0 ≤ w) {bs bs' : List (Bounds α)}
    (h : List.Forall₂ BLe bs bs') :
    List.Forall₂ OpdLe (List.zipWith (fun w b => (⟨w, b.lo, b.hi⟩ : Opd α)) ws bs)
      (List.zipWith (fun w b => (⟨w, b.lo, b.hi⟩ : Opd α)) ws bs') := by
  induction h generalizing ws with
  | nil => simp
  | @cons b b' bs bs' hb _ ih =>
    cases ws with
    | nil => simp
    | cons w ws =>
      simp only [List.zipWith_cons_cons]
      refine List.Forall₂.cons ⟨rfl, hw w (List.mem_cons_self ..), hb.1, hb.2⟩ ?_
      exact ih ws (fun w' hw' => hw w' (List.mem_cons_of_mem _ hw'))

theorem fActUp_mono (n : FNode ι α) (hw : ∀ w ∈ n.ws, 0 ≤ w) {bs bs' : List (Bounds α)}
    (h : List.Forall₂ BLe bs bs') : BLe (fActUp n bs) (fActUp n bs') := by
  have ho := zip_opdLe n.ws hw h
  unfold fActUp
  cases n.kind with
  | pred => exact BLe.refl _
  | neg => exact BLe.refl _
  | all => exact BLe.refl _
  | ex => exact BLe.refl _
  | and => exact andUp_mono _ ho
  | or => exact orUp_mono _ _ ho
  | implies => exact impliesUp_mono _ ho

theorem fActDown_mono (n : FNode ι α) (hw : ∀ w ∈ n.ws, 0 ≤ w) (ha : n.alpha ≤ 1)
    {self self' : Bounds α} (hs : BLe self self') {bs bs' : List (Bounds α)}
    (h : List.Forall₂ BLe bs bs') :
    List.Forall₂ BLe (fActDown n self bs) (fActDown n self' bs') := by
  have ho := zip_opdLe n.ws hw h
  unfold fActDown
  cases n.kind with
  | pred => exact List.Forall₂.nil
  | neg => exact List.Forall₂.nil
  | all => exact List.Forall₂.nil
  | ex => exact List.Forall₂.nil
  | and => exact andDown_mono _ _ ha hs.1 hs.2 ho
  | or => exact orDown_mono _ _ ha hs.1 hs.2 ho
  | implies => exact impliesDown_mono _ _ ha hs.1 hs.2 ho

theorem forall₂_bLe_trans {l₁ l₂ l₃ : List (Bounds α)} (h₁ : List.Forall₂ BLe l₁ l₂)
    (h₂ : List.Forall₂ BLe l₂ l₃) : List.Forall₂ BLe l₁ l₃ := by
  induction h₁ generalizing l₃ with
  | nil => cases h₂; exact List.Forall₂.nil
  | cons hab _ ih =>
    cases h₂ with
    | cons hbc h₂ => exact List.Forall₂.cons (hab.trans hbc) (ih h₂)

/-- the operand readings at the projected groundings are looser than `G`'s operand bounds -/
theorem reads_le (kb : FKB ι α) (s1 : FState ι α) (G : ι → Gr → Bounds α) (hs1 : SLe kb s1 G)
    (g : Gr) (ops : List ι) (opmap : List (List Nat)) :
    List.Forall₂ BLe
      (List.zipWith (fun j g' => Table.getD (kb j).world (s1.get j) g') ops
        (opmap.map fun m => m.map fun c => g.getD c 0))
      (List.zipWith (fun j m => G j (m.map fun c => g.getD c 0)) ops opmap) := by
  induction ops generalizing opmap with
  | nil => simp
  | cons j ops ih =>
    cases opmap with
    | nil => simp
    | cons m ms =>
      simp only [List.map_cons, List.zipWith_cons_cons]
      exact List.Forall₂.cons ((hs1 j).getD _) (ih ms)

/-! ### first-order Not -/

section neg
variable (kb : FKB ι α) (ar : ι → Nat) (i : ι) (s : FState ι α) (G : ι → Gr → Bounds α)

theorem fUpNot_sle (hk : (kb i).kind = .neg) (hc : GClosed kb ar G) (har : SAr ar s)
    (hnar : ∀ j rest, (kb i).ops = j :: rest → ar j = ar i) (hs : SLe kb s G) :
    SLe kb (fUpNot kb i s).1 G := by
  unfold fUpNot
  split
  · exact hs
  next j rest hops =>
    simp only
    split
    · exact hs
    · apply hs.set
      apply TLe.foldAgg (hc.unit i) (fun g => g)
        (fun g => negB (Table.getD (kb j).world (s.get j) g))
      · intro g hg
        have hgl : g.length = ar i := by
          rw [← hnar j rest hops]; exact (har j).keys g hg
        exact (BLe.negB ((hs j).getD g)).trans (hc.negUp i g j rest hk hops hgl)
      · exact (hs i).addg _

theorem fDownNot_sle (hk : (kb i).kind = .neg) (hc : GClosed kb ar G) (har : SAr ar s)
    (hs : SLe kb s G) : SLe kb (fDownNot kb i s).1 G := by
  unfold fDownNot
  split
  · exact hs
  next j rest hops =>
    simp only
    split
    · exact hs
    · apply hs.set
      apply TLe.foldAgg (hc.unit j) (fun g => g)
        (fun g => negB (Table.getD (kb i).world (s.get i) g))
      · intro g hg
        have hgl : g.length = ar i := (har i).keys g hg
        exact (BLe.negB ((hs i).getD g)).trans (hc.negDown i g j rest hk hops hgl)
      · exact (hs j).addg _

end neg

/-! ### connectives -/

section conn
variable (kb : FKB ι α) (ar : ι → Nat) (i : ι) (s : FState ι α) (G : ι → Gr → Bounds α)
  (hshape : List.Forall₂ (fun j m => List.length m = ar j) (kb i).ops (kb i).opmap)
  (hnv : numVars (kb i) = ar i)
  (hslots : ∀ m ∈ (kb i).opmap, ∀ c ∈ m, c < ar i)
  (hhom : isHomogeneous (kb i) = true → ∀ m ∈ (kb i).opmap, m = List.range (ar i))
  (har : SAr ar s)
include hshape hnv hslots hhom har

/-- generic form: the activation fact is a hypothesis (as in `FolSound.fUpConn_ssat`) -/
theorem fUpConn_sle_of (hs : SLe kb s G) (hu : ∀ j g, UnitB (G j g))
    (hact : ∀ g, g.length = ar i → ∀ bs,
      List.Forall₂ BLe bs (gOpBounds (kb i) G g) → BLe (fActUp (kb i) bs) (G i g)) :
    SLe kb (fUpConn kb i s).1 G := by
  unfold fUpConn
  simp only
  split
  next s1 hgr =>
    rcases groundings_spec kb ar i s hshape hnv hslots hhom har _ _ _ hgr with ⟨_, h⟩ | ⟨_, _, h, _⟩
    · rw [h]; exact hs
    · simp at h
  next s1 ogs per hgr =>
    rcases groundings_spec kb ar i s hshape hnv hslots hhom har _ _ _ hgr with ⟨h, _⟩ | ⟨ogs', per', h, hok⟩
    · simp at h
    · simp only [Option.some.injEq, Prod.mk.injEq] at h
      obtain ⟨rfl, rfl⟩ := h
      have h1 := GroundOK.sle hok hs
      apply h1.set
      refine TLe.foldAgg (hu i) (fun it : Gr × Bounds α => it.1) (fun it => it.2) _ ?_ _ (h1 i)
      intro it hit
      obtain ⟨k, hk, hit⟩ := List.mem_filterMap.mp hit
      have hk' : k < ogs.length := List.mem_range.mp hk
      split at hit
      · simp at hit
      · simp only [Option.some.injEq] at hit
        subst hit
        simp only
        apply hact _ (hok.arity _ (getD_mem _ _ _ hk'))
        rw [hok.align k hk']
        exact reads_le kb s1 G h1 _ _ _

/-- generic form: the activation fact is a hypothesis (as in `FolSound.fDownConn_ssat`) -/
theorem fDownConn_sle_of (idx : Option Nat) (hs : SLe kb s G) (hu : ∀ j g, UnitB (G j g))
    (hact : ∀ g, g.length = ar i → ∀ self bs, BLe self (G i g) →
      List.Forall₂ BLe bs (gOpBounds (kb i) G g) →
      List.Forall₂ BLe (fActDown (kb i) self bs) (gOpBounds (kb i) G g)) :
    SLe kb (fDownConn kb i idx s).1 G := by
  unfold fDownConn
  simp only
  split
  next s1 hgr =>
    rcases groundings_spec kb ar i s hshape hnv hslots hhom har _ _ _ hgr with ⟨_, h⟩ | ⟨_, _, h, _⟩
    · rw [h]; exact hs
    · simp at h
  next s1 ogs per hgr =>
    rcases groundings_spec kb ar i s hshape hnv hslots hhom har _ _ _ hgr with ⟨h, _⟩ | ⟨ogs', per', h, hok⟩
    · simp at h
    · simp only [Option.some.injEq, Prod.mk.injEq] at h
      obtain ⟨rfl, rfl⟩ := h
      have h1 := GroundOK.sle hok hs
      split
      · exact h1
      · apply foldl_inv (fun acc : FState ι α × α => SLe kb acc.1 G) _ _ _ h1
        intro acc hacc p hp
        have hpj := mem_zip_range _ _ p hp
        split
        · apply hacc.set
          apply (hacc p.2).writeMerged (hu p.2)
          intro q hq
          obtain ⟨it, hit, hq⟩ := List.mem_filterMap.mp hq
          obtain ⟨k, hk, hit⟩ := List.mem_filterMap.mp hit
          have hk' : k < ogs.length := List.mem_range.mp hk
          split at hit
          · simp at hit
          · simp only [Option.some.injEq] at hit
            subst hit
            simp only at hq
            split at hq
            next g' b hg' hb =>
              simp only [Option.some.injEq] at hq
              subst hq
              simp only
              have hgl := hok.arity _ (getD_mem _ _ [] hk')
              rw [hok.align k hk'] at hg' hb
              have hF := hact _ hgl _ _ ((h1 i).getD _)
                (reads_le kb s1 G h1 (ogs.getD k []) (kb i).ops (kb i).opmap)
              rw [List.getElem?_map] at hg'
              cases hm : (kb i).opmap[p.1]? with
              | none => rw [hm] at hg'; simp at hg'
              | some m =>
                rw [hm] at hg'
                simp only [Option.map_some, Option.some.injEq] at hg'
                subst hg'
                apply forall₂_getElem? hF p.1 _ _ hb
                unfold gOpBounds
                rw [List.getElem?_zipWith, hpj, hm]
            · simp at hq
        · exact hacc

/-- **Upward call of a connective**: if `G` is closed and at least as tight as the state before the
call, it is at least as tight as the state after the call. -/
theorem fUpConn_sle (hk : (kb i).kind.isConn = true) (hw : ∀ w ∈ (kb i).ws, 0 ≤ w)
    (hc : GClosed kb ar G) (hs : SLe kb s G) : SLe kb (fUpConn kb i s).1 G := by
  apply fUpConn_sle_of kb ar i s G hshape hnv hslots hhom har hs hc.unit
  intro g hg bs hbs
  exact (fActUp_mono (kb i) hw hbs).trans (hc.up i g hk hg)

/-- **Downward call of a connective** (with or without operand index). -/
theorem fDownConn_sle (idx : Option Nat) (hk : (kb i).kind.isConn = true)
    (hw : ∀ w ∈ (kb i).ws, 0 ≤ w) (hα : (kb i).alpha ≤ 1) (hc : GClosed kb ar G)
    (hs : SLe kb s G) : SLe kb (fDownConn kb i idx s).1 G := by
  apply fDownConn_sle_of kb ar i s G hshape hnv hslots hhom har idx hs hc.unit
  intro g hg self bs hself hbs
  exact forall₂_bLe_trans (fActDown_mono (kb i) hw hα hself hbs) (hc.down i g hk hg)

end conn

/-! ### the main theorem: quantifier-free first-order inference is never tighter than `G` -/

section main
variable (kb : FKB ι α) (ar : ι → Nat) (hwf : FWF kb ar) (G : ι → Gr → Bounds α)
  (hc : GClosed kb ar G)
include hwf hc

/-- **One call.** A ground bound assignment that is closed under the ground steps and at least as
tight as the state is still at least as tight as the state after any upward or downward call —
with or without an operand index — on any quantifier-free formula. -/
theorem C02_not_tighter_call (c : FCall ι) (hq : QF kb c) (s : FState ι α) (ha : Arity ar s)
    (hs : SLe kb s G) : SLe kb (runFCall kb c s).1 G := by
  cases c with
  | up i =>
    simp only [runFCall, fUp]
    have conn : (kb i).kind.isConn = true → SLe kb (fUpConn kb i s).1 G := fun hk =>
      fUpConn_sle kb ar i s G (hwf.shape i hk) (hwf.nvars i hk) (hwf.slots i hk)
        (hwf.homog i hk) ha hk (hwf.ws_nonneg i) hc hs
    cases hkind : (kb i).kind with
    | pred => exact hs
    | neg => exact fUpNot_sle kb ar i s G hkind hc ha (hwf.neg_ar i hkind) hs
    | all => exact absurd hkind hq.1
    | ex => exact absurd hkind hq.2
    | and => exact conn (by rw [hkind]; rfl)
    | or => exact conn (by rw [hkind]; rfl)
    | implies => exact conn (by rw [hkind]; rfl)
  | down i idx =>
    simp only [runFCall, fDown]
    have conn : (kb i).kind.isConn = true → SLe kb (fDownConn kb i idx s).1 G := fun hk =>
      fDownConn_sle kb ar i s G (hwf.shape i hk) (hwf.nvars i hk) (hwf.slots i hk)
        (hwf.homog i hk) ha idx hk (hwf.ws_nonneg i) (hwf.alpha_le i) hc hs
    cases hkind : (kb i).kind with
    | pred => exact hs
    | neg => exact fDownNot_sle kb ar i s G hkind hc ha hs
    | all => exact absurd hkind hq.1
    | ex => exact absurd hkind hq.2
    | and => exact conn (by rw [hkind]; rfl)
    | or => exact conn (by rw [hkind]; rfl)
    | implies => exact conn (by rw [hkind]; rfl)

/-- **Any sequence of calls** (any order, any repetition, index restrictions included). -/
theorem C02_not_tighter (calls : List (FCall ι)) (hq : ∀ c ∈ calls, QF kb c) (s : FState ι α)
    (ha : Arity ar s) (hs : SLe kb s G) : SLe kb (runFCalls kb calls s).1 G := by
  induction calls generalizing s with
  | nil => exact hs
  | cons c rest ih =>
    simp only [runFCalls]
    exact ih (fun c' hc' => hq c' (List.mem_cons_of_mem _ hc')) _
      (C02_arity_call kb ar hwf c (hq c (List.mem_cons_self ..)) s ha)
      (C02_not_tighter_call kb ar hwf G hc c (hq c (List.mem_cons_self ..)) s ha hs)

/-- both invariants through `infer` -/
theorem C02_not_tighter_infer_inv (nodes : List ι) (up down : List (FCall ι))
    (hup : ∀ c ∈ up, QF kb c) (hdown : ∀ c ∈ down, QF kb c) (eps : α) (fuel : Nat)
    (s : FState ι α) (ha : Arity ar s) (hs : SLe kb s G) :
    SLe kb (fInfer kb nodes up down eps fuel s).state G ∧
      Arity ar (fInfer kb nodes up down eps fuel s).state := by
  induction fuel generalizing s with
  | zero => exact ⟨hs, ha⟩
  | succ n ih =>
    have ha1 := C02_arity kb ar hwf up hup s ha
    have hs1 := C02_not_tighter kb ar hwf G hc up hup s ha hs
    have ha2 := C02_arity kb ar hwf down hdown _ ha1
    have hs2 := C02_not_tighter kb ar hwf G hc down hdown _ ha1 hs1
    unfold fInfer
    simp only
    split
    · exact ⟨hs2, ha2⟩
    · exact ih _ ha2 hs2

/-- **`infer`** with any sweep schedules, threshold, step limit and registered node list. -/
theorem C02_not_tighter_infer (nodes : List ι) (up down : List (FCall ι))
    (hup : ∀ c ∈ up, QF kb c) (hdown : ∀ c ∈ down, QF kb c) (eps : α) (fuel : Nat)
    (s : FState ι α) (ha : Arity ar s) (hs : SLe kb s G) :
    SLe kb (fInfer kb nodes up down eps fuel s).state G :=
  (C02_not_tighter_infer_inv kb ar hwf G hc nodes up down hup hdown eps fuel s ha hs).1

/-- **Every query after `infer` is never tighter than `G`.** -/
theorem C02_not_tighter_query (nodes : List ι) (up down : List (FCall ι))
    (hup : ∀ c ∈ up, QF kb c) (hdown : ∀ c ∈ down, QF kb c) (eps : α) (fuel : Nat)
    (s : FState ι α) (ha : Arity ar s) (hs : SLe kb s G) (i : ι) (g : Gr) :
    BLe (Table.getD (kb i).world ((fInfer kb nodes up down eps fuel s).state.get i) g) (G i g) :=
  (C02_not_tighter_infer kb ar hwf G hc nodes up down hup hdown eps fuel s ha hs).reads i g

end main

/-! ### point interpretations: the theorem subsumes point soundness -/

/-- a point interpretation read as degenerate intervals -/
def pointG (v : ι → Gr → α) : ι → Gr → Bounds α := fun i g => ⟨v i g, v i g⟩

theorem bLe_point_iff (b : Bounds α) (x : α) : BLe b ⟨x, x⟩ ↔ b.Has x := Iff.rfl

/-- for a point interpretation, "at least as tight as the state" is `FSat` -/
theorem sLe_point_iff (kb : FKB ι α) (v : ι → Gr → α) (s : FState ι α) :
    SLe kb s (pointG v) ↔ FSat kb v s := by
  rw [fSat_iff]
  exact Iff.rfl

theorem gOpBounds_point (n : FNode ι α) (v : ι → Gr → α) (g : Gr) :
    gOpBounds n (pointG v) g = (opVals n v g).map fun x => ⟨x, x⟩ := by
  unfold gOpBounds opVals pointG
  rw [List.map_zipWith]

theorem has_gOpBounds_point (n : FNode ι α) (v : ι → Gr → α) (g : Gr) :
    List.Forall₂ (fun b x => Bounds.Has b x) (gOpBounds n (pointG v) g) (opVals n v g) := by
  rw [gOpBounds_point, List.forall₂_map_left_iff]
  exact List.forall₂_same.mpr fun x _ => ⟨le_rfl, le_rfl⟩

/-- **A model of the ground theory, read as degenerate intervals, is closed**: `GClosed` is
satisfiable, and `C02_not_tighter` specialises to `C02_sound`. -/
theorem point_closed (kb : FKB ι α) (ar : ι → Nat) (hwf : FWF kb ar) (v : ι → Gr → α)
    (hv : FConsistent kb ar v) : GClosed kb ar (pointG v) where
  unit := fun i g => ⟨(hv i g).1, (hv i g).2.1, (hv i g).1, (hv i g).2.1⟩
  up := fun i g hk hg =>
    actUp_has_fol hwf hv i hk g hg _ (has_gOpBounds_point (kb i) v g)
  down := fun i g hk hg => by
    have h := actDown_has_fol hwf hv i hk g hg (pointG v i g) _ ⟨le_rfl, le_rfl⟩
      (has_gOpBounds_point (kb i) v g)
    rw [gOpBounds_point, List.forall₂_map_right_iff]
    rw [gOpBounds_point] at h
    exact h
  negUp := fun i g j rest hk hops hg => by
    have : v i g = 1 - v j g := by
      apply (hv i g).2.2 hg
      unfold fNodeVal; rw [hk, hops]
    show 1 - v j g ≤ v i g ∧ v i g ≤ 1 - v j g
    rw [this]; exact ⟨le_rfl, le_rfl⟩
  negDown := fun i g j rest hk hops hg => by
    have : v i g = 1 - v j g := by
      apply (hv i g).2.2 hg
      unfold fNodeVal; rw [hk, hops]
    show 1 - v i g ≤ v j g ∧ v j g ≤ 1 - v i g
    rw [this]; constructor <;> linarith

/-- point soundness (`C02_sound`) as a corollary of the interval theorem -/
theorem C02_sound_of_not_tighter (kb : FKB ι α) (ar : ι → Nat) (hwf : FWF kb ar) (v : ι → Gr → α)
    (hv : FConsistent kb ar v) (calls : List (FCall ι)) (hq : ∀ c ∈ calls, QF kb c)
    (s : FState ι α) (ha : Arity ar s) (hs : FSat kb v s) : FSat kb v (runFCalls kb calls s).1 :=
  (sLe_point_iff kb v _).mp
    (C02_not_tighter kb ar hwf (pointG v) (point_closed kb ar hwf v hv) calls hq s ha
      ((sLe_point_iff kb v s).mpr hs))

/-! ### non-vacuity: a concrete knowledge base with a NON-degenerate closed assignment -/

namespace FolTightEx

/-- predicates `P(x)` (0), `Q(x)` (1); formula 2 is `And(P(x), Q(x))`, formula 3 is `Not(P(x))` -/
def kb : FKB Nat ℚ := fun i =>
  match i with
  | 2 => { kind := .and, ops := [0, 1], ws := [1, 1], bias := 1, alpha := 1, opmap := [[0], [0]],
           world := ⟨0, 1⟩ }
  | 3 => { kind := .neg, ops := [0], bias := 1, alpha := 1, opmap := [[0]], world := ⟨0, 1⟩ }
  | _ => { kind := .pred, bias := 1, alpha := 1, world := ⟨0, 1⟩ }

def ar : Nat → Nat := fun _ => 1

/-- `P ∈ [3/4, 1]`, `Q ∈ [1/2, 1]`, `And(P, Q) ∈ [1/2, 1]`, `Not(P) ∈ [0, 1/4]` at every constant:
proper intervals. The upward step of the conjunction yields `[1/4, 1]`, its downward step
`[1/2, 1]` for both operands, the steps of the negation `[0, 1/4]` and `[3/4, 1]`: none of them
tightens `G`. -/
def G : Nat → Gr → Bounds ℚ := fun i _ =>
  match i with
  | 0 => ⟨3/4, 1⟩
  | 1 => ⟨1/2, 1⟩
  | 2 => ⟨1/2, 1⟩
  | 3 => ⟨0, 1/4⟩
  | _ => ⟨0, 1⟩

theorem wf : FWF kb ar := by
  constructor
  · intro i; unfold kb; split <;> simp
  · intro i; unfold kb; split <;> simp
  · intro i; unfold kb; split <;> simp [FKind.isConn]
  · intro i; unfold kb; split <;> simp [FKind.isConn, ar]
  · intro i; unfold kb; split <;> simp [FKind.isConn, ar, numVars, dedup]
  · intro i; unfold kb; split <;> simp [FKind.isConn, ar]
  · intro i; unfold kb; split <;> simp [FKind.isConn, ar, isHomogeneous]
  · intro i; unfold kb; split <;> simp
  · intro i; unfold kb; split <;> simp [ar]

theorem G_unit (i : Nat) (g : Gr) : UnitB (G i g) := by
  unfold G UnitB
  split <;> norm_num

theorem closed : GClosed kb ar G where
  unit := G_unit
  up := fun i g hk _ => by
    match i with
    | 0 => simp [kb, FKind.isConn] at hk
    | 1 => simp [kb, FKind.isConn] at hk
    | 2 =>
      simp [kb, G, gOpBounds, fActUp, andUp, termLo, termHi, clamp01, BLe]
      norm_num
    | 3 => simp [kb, FKind.isConn] at hk
    | (n + 4) => simp [kb, FKind.isConn] at hk
  down := fun i g hk _ => by
    match i with
    | 0 => simp [kb, FKind.isConn] at hk
    | 1 => simp [kb, FKind.isConn] at hk
    | 2 =>
      simp [kb, G, gOpBounds, fActDown, andDown, termHi, sumW, clamp01, BLe]
      norm_num
    | 3 => simp [kb, FKind.isConn] at hk
    | (n + 4) => simp [kb, FKind.isConn] at hk
  negUp := fun i g j rest hk hops _ => by
    match i with
    | 0 => simp [kb] at hk
    | 1 => simp [kb] at hk
    | 2 => simp [kb] at hk
    | 3 =>
      simp [kb] at hops
      obtain ⟨rfl, _⟩ := hops
      simp [G, negB, BLe]
      norm_num
    | (n + 4) => simp [kb] at hk
  negDown := fun i g j rest hk hops _ => by
    match i with
    | 0 => simp [kb] at hk
    | 1 => simp [kb] at hk
    | 2 => simp [kb] at hk
    | 3 =>
      simp [kb] at hops
      obtain ⟨rfl, _⟩ := hops
      simp [G, negB, BLe]
      norm_num
    | (n + 4) => simp [kb] at hk

/-- data: `P(0) ∈ [3/4, 1]`, `Q(0) ∈ [1/2, 1]`, `And(P,Q)(0) ∈ [1/2, 1]` asserted, everything else
unasserted -/
def s : FState Nat ℚ :=
  ⟨[(0, [⟨[0], ⟨3/4, 1⟩, ⟨3/4, 1⟩⟩]), (1, [⟨[0], ⟨1/2, 1⟩, ⟨1/2, 1⟩⟩]),
    (2, [⟨[0], ⟨1/2, 1⟩, ⟨1/2, 1⟩⟩])]⟩

theorem s_get (i : Nat) : s.get i =
    match i with
    | 0 => [⟨[0], ⟨3/4, 1⟩, ⟨3/4, 1⟩⟩]
    | 1 => [⟨[0], ⟨1/2, 1⟩, ⟨1/2, 1⟩⟩]
    | 2 => [⟨[0], ⟨1/2, 1⟩, ⟨1/2, 1⟩⟩]
    | _ => [] := by
  match i with
  | 0 => rfl
  | 1 => rfl
  | 2 => rfl
  | (n + 3) => simp [s, FState.get]

theorem s_arity : Arity ar s := by
  intro i r hr
  rw [s_get] at hr
  match i with
  | 0 => simp at hr; subst hr; rfl
  | 1 => simp at hr; subst hr; rfl
  | 2 => simp at hr; subst hr; rfl
  | (n + 3) => simp at hr

theorem s_le : SLe kb s G := by
  intro i
  have hw : (kb i).world = ⟨0, 1⟩ := by unfold kb; split <;> rfl
  refine ⟨?_, fun g _ => by rw [hw]; exact ⟨(G_unit i g).1, (G_unit i g).2.2.2⟩⟩
  intro r hr
  rw [s_get] at hr
  match i with
  | 0 => simp at hr; subst hr; unfold BLe G; norm_num
  | 1 => simp at hr; subst hr; unfold BLe G; norm_num
  | 2 => simp at hr; subst hr; unfold BLe G; norm_num
  | (n + 3) => simp at hr

/-- all hypotheses of the main theorem hold together: whatever quantifier-free calls are run on
the data, `Not(P)(0)` is never reported tighter than `[0, 1/4]` nor `P(0)` tighter than
`[3/4, 1]` -/
example (calls : List (FCall Nat)) (hq : ∀ c ∈ calls, QF kb c) (i : Nat) (g : Gr) :
    BLe (Table.getD (kb i).world ((runFCalls kb calls s).1.get i) g) (G i g) :=
  (C02_not_tighter kb ar wf G closed calls hq s s_arity s_le).reads i g

end FolTightEx

/-! ### `GClosed` is what a fixpoint of the propositional engine on the ground theory satisfies -/

section ground

/-- the propositional kind of a first-order formula (quantifiers are outside C02: opaque atoms) -/
def toKind : FKind → Kind
  | .neg => .neg
  | .and => .and
  | .or => .or
  | .implies => .implies
  | _ => .atom

/-- the ground operands of formula `n` at grounding `g`: a connective reads operand `j` at the
projection of `g` through its operand map, Not reads its operand at the same grounding -/
def groundOps (n : FNode ι α) (g : Gr) : List (ι × Gr) :=
  match n.kind with
  | .neg => n.ops.map fun j => (j, g)
  | _ => List.zipWith (fun j m => (j, proj m g)) n.ops n.opmap

/-- the instantiated (propositional) knowledge base: one node per formula and grounding, same
weights, bias, alpha -/
def groundKB (kb : FKB ι α) : KB (ι × Gr) α := fun p =>
  { kind := toKind (kb p.1).kind, ops := groundOps (kb p.1) p.2, ws := (kb p.1).ws,
    bias := (kb p.1).bias, alpha := (kb p.1).alpha, transparent := (kb p.1).transparent }

/-- a propositional state of the ground theory as a ground bound assignment -/
def ofState (Gs : State (ι × Gr) α) : ι → Gr → Bounds α := fun i g => Gs (i, g)

theorem groundOps_conn (n : FNode ι α) (g : Gr) (hk : n.kind.isConn = true) :
    groundOps n g = List.zipWith (fun j m => (j, proj m g)) n.ops n.opmap := by
  unfold groundOps
  cases hkind : n.kind with
  | neg => rw [hkind] at hk; exact absurd hk (by decide)
  | _ => rfl

theorem gOpBounds_ground (n : FNode ι α) (Gs : State (ι × Gr) α) (g : Gr) :
    gOpBounds n (ofState Gs) g =
      (List.zipWith (fun j m => ((j, proj m g) : ι × Gr)) n.ops n.opmap).map Gs := by
  unfold gOpBounds ofState proj
  rw [List.map_zipWith]

theorem opds_zip (Gs : State (ι × Gr) α) (l : List (ι × Gr)) (ws : List α) :
    List.zipWith (fun p w => (⟨w, (Gs p).lo, (Gs p).hi⟩ : Opd α)) l ws =
      List.zipWith (fun w b => (⟨w, b.lo, b.hi⟩ : Opd α)) ws (l.map Gs) := by
  induction l generalizing ws with
  | nil => simp
  | cons p l ih =>
    cases ws with
    | nil => simp
    | cons w ws => simp only [List.map_cons, List.zipWith_cons_cons, ih]

theorem opds_ground (kb : FKB ι α) (Gs : State (ι × Gr) α) (i : ι) (g : Gr)
    (hk : (kb i).kind.isConn = true) :
    opds (groundKB kb (i, g)) Gs =
      List.zipWith (fun w b => (⟨w, b.lo, b.hi⟩ : Opd α)) (kb i).ws
        (gOpBounds (kb i) (ofState Gs) g) := by
  unfold opds
  rw [gOpBounds_ground, ← opds_zip]
  simp only [groundKB, groundOps_conn (kb i) g hk]

theorem actUp_ground (kb : FKB ι α) (Gs : State (ι × Gr) α) (i : ι) (g : Gr)
    (hk : (kb i).kind.isConn = true) :
    actUp (groundKB kb (i, g)) Gs = fActUp (kb i) (gOpBounds (kb i) (ofState Gs) g) := by
  have ho := opds_ground kb Gs i g hk
  unfold actUp fActUp
  simp only
  rw [← ho]
  cases hkind : (kb i).kind with
  | pred => rw [hkind] at hk; exact absurd hk (by decide)
  | neg => rw [hkind] at hk; exact absurd hk (by decide)
  | all => rw [hkind] at hk; exact absurd hk (by decide)
  | ex => rw [hkind] at hk; exact absurd hk (by decide)
  | and => simp only [groundKB, hkind, toKind]
  | or => simp only [groundKB, hkind, toKind]
  | implies => simp only [groundKB, hkind, toKind]

theorem actDown_ground (kb : FKB ι α) (Gs : State (ι × Gr) α) (i : ι) (g : Gr)
    (hk : (kb i).kind.isConn = true) (self : Bounds α) :
    actDown (groundKB kb (i, g)) self Gs =
      fActDown (kb i) self (gOpBounds (kb i) (ofState Gs) g) := by
  have ho := opds_ground kb Gs i g hk
  unfold actDown fActDown
  simp only
  rw [← ho]
  cases hkind : (kb i).kind with
  | pred => rw [hkind] at hk; exact absurd hk (by decide)
  | neg => rw [hkind] at hk; exact absurd hk (by decide)
  | all => rw [hkind] at hk; exact absurd hk (by decide)
  | ex => rw [hkind] at hk; exact absurd hk (by decide)
  | and => simp only [groundKB, hkind, toKind]
  | or => simp only [groundKB, hkind, toKind]
  | implies => simp only [groundKB, hkind, toKind]

/-! #### the proposals of the activations are unit intervals -/

theorem unitB_01 : UnitB (⟨0, 1⟩ : Bounds α) := ⟨le_rfl, zero_le_one, zero_le_one, le_rfl⟩

theorem unitB_negB {b : Bounds α} (h : UnitB b) : UnitB (negB b) := by
  unfold UnitB LNN.negB at *
  simp only
  refine ⟨?_, ?_, ?_, ?_⟩ <;> linarith [h.1, h.2.1, h.2.2.1, h.2.2.2]

theorem actUp_unitB (n : Node ι α) (s : State ι α) : UnitB (actUp n s) := by
  unfold actUp
  cases n.kind with
  | atom => exact unitB_01
  | neg => exact unitB_01
  | and => exact ⟨clamp01_nonneg _, clamp01_le_one _, clamp01_nonneg _, clamp01_le_one _⟩
  | or => exact ⟨clamp01_nonneg _, clamp01_le_one _, clamp01_nonneg _, clamp01_le_one _⟩
  | implies =>
    simp only
    unfold impliesUp
    split
    · exact ⟨clamp01_nonneg _, clamp01_le_one _, clamp01_nonneg _, clamp01_le_one _⟩
    · exact unitB_01

theorem andDown_unitB (b a L U : α) (ops : List (Opd α)) : ∀ p ∈ andDown b a L U ops, UnitB p := by
  intro p hp
  unfold andDown at hp
  simp only at hp
  obtain ⟨o, _, rfl⟩ := List.mem_map.mp hp
  by_cases hz : o.w = 0
  · simp only [hz, if_true]; exact unitB_01
  · simp only [hz, if_false]
    refine ⟨?_, ?_, ?_, ?_⟩ <;> simp only <;> split_ifs <;>
      first | exact clamp01_nonneg _ | exact clamp01_le_one _ | exact le_rfl | exact zero_le_one

theorem orDown_unitB (b a L U : α) (ops : List (Opd α)) : ∀ p ∈ orDown b a L U ops, UnitB p := by
  intro p hp
  unfold orDown at hp
  obtain ⟨q, hq, rfl⟩ := List.mem_map.mp hp
  exact unitB_negB (andDown_unitB _ _ _ _ _ q hq)

theorem impliesDown_unitB (b a L U : α) (ops : List (Opd α)) :
    ∀ p ∈ impliesDown b a L U ops, UnitB p := by
  intro p hp
  rcases ops with _ | ⟨x, _ | ⟨y, _ | ⟨z, l⟩⟩⟩
  · simp [impliesDown] at hp
  · simp [impliesDown] at hp; subst hp; exact unitB_01
  · obtain ⟨px, py, e1, e2⟩ := impliesDown_two b a L U x y
    have hu := andDown_unitB b a (1 - U) (1 - L) [x, y.neg]
    rw [e1] at hu
    rw [e2] at hp
    simp only [List.mem_cons, List.not_mem_nil, or_false] at hp
    rcases hp with rfl | rfl
    · exact hu _ (by simp)
    · exact unitB_negB (hu py (by simp))
  · simp only [impliesDown, List.map_cons, List.mem_cons, List.mem_map] at hp
    rcases hp with rfl | rfl | rfl | ⟨_, _, rfl⟩ <;> exact unitB_01

theorem actDown_unitB (n : Node ι α) (self : Bounds α) (s : State ι α) :
    ∀ p ∈ actDown n self s, UnitB p := by
  unfold actDown
  cases n.kind with
  | atom => intro p hp; simp at hp
  | neg => intro p hp; simp at hp
  | and => exact andDown_unitB _ _ _ _ _
  | or => exact orDown_unitB _ _ _ _ _
  | implies => exact impliesDown_unitB _ _ _ _ _

theorem impliesDown_length (b a L U : α) (ops : List (Opd α)) :
    (impliesDown b a L U ops).length = ops.length := by
  rcases ops with _ | ⟨x, _ | ⟨y, _ | ⟨z, l⟩⟩⟩
  · simp [impliesDown]
  · simp [impliesDown]
  · obtain ⟨px, py, _, e2⟩ := impliesDown_two b a L U x y
    rw [e2]; rfl
  · simp [impliesDown]

theorem actDown_length (n : Node ι α) (self : Bounds α) (s : State ι α)
    (hk : n.kind = .and ∨ n.kind = .or ∨ n.kind = .implies) :
    (actDown n self s).length = (opds n s).length := by
  unfold actDown
  rcases hk with hk | hk | hk <;> rw [hk] <;> simp only
  · exact andDown_length _ _ _ _ _
  · unfold orDown
    rw [List.length_map, andDown_length, List.length_map]
  · exact impliesDown_length _ _ _ _ _

/-! #### reading a post-fixpoint -/

/-- if aggregating a unit proposal does not tighten a unit interval, the proposal is looser -/
theorem bLe_of_aggregate_le {prev new : Bounds α} (hp : UnitB prev) (hn : UnitB new)
    (h : BLe (aggregate .both prev new).1 prev) : BLe new prev := by
  rw [aggregate_both] at h
  obtain ⟨h1, h2⟩ := h
  rw [clamp01_of_mem (le_trans hp.1 (le_max_left _ _)) (max_le hp.2.1 hn.2.1)] at h1
  rw [clamp01_of_mem (le_min hp.2.2.1 hn.2.2.1) (le_trans (min_le_left _ _) hp.2.2.2)] at h2
  exact ⟨le_trans (le_max_right _ _) h1, le_trans h2 (min_le_right _ _)⟩

/-- if writing unit proposals (no index restriction) does not tighten a unit state, every proposal
is looser than the bounds of the operand it addresses -/
theorem writeOps_postfix {κ : Type} [DecidableEq κ] (es : List (Nat × κ × Bounds α))
    (s : State κ α) (hs : UnitState s) (hes : ∀ e ∈ es, UnitB e.2.2)
    (h : Le (writeOps es none s).1 s) : ∀ e ∈ es, BLe e.2.2 (s e.2.1) := by
  induction es with
  | nil => intro e he; simp at he
  | cons e es ih =>
    obtain ⟨k, j, p⟩ := e
    simp only [writeOps, true_or, if_true] at h
    have hs1u : UnitState (Function.update s j (aggregate .both (s j) p).1) :=
      hs.update j (aggregate_unit _ _)
    have h1 := writeOps_infl es none hs1u
    have h2 : Le s (Function.update s j (aggregate .both (s j) p).1) :=
      le_update_self j (aggregate_infl p (hs j))
    have heq : Function.update s j (aggregate .both (s j) p).1 = s :=
      (Le.antisymm h2 (h1.trans h)).symm
    have hj := (h1.trans h) j
    rw [Function.update_self] at hj
    rw [heq] at h
    intro e he
    rcases List.mem_cons.mp he with rfl | he'
    · exact bLe_of_aggregate_le (hs j) (hes _ (List.mem_cons_self ..)) hj
    · exact ih (fun e' he'' => hes e' (List.mem_cons_of_mem _ he'')) h e he'

theorem forall₂_of_entries {κ : Type} (s : State κ α) (l : List κ) (ps : List (Bounds α))
    (k : Nat) (hlen : ps.length = l.length)
    (h : ∀ e ∈ enumFrom k (List.zip l ps), BLe e.2.2 (s e.2.1)) :
    List.Forall₂ BLe ps (l.map s) := by
  induction l generalizing ps k with
  | nil =>
    cases ps with
    | nil => exact List.Forall₂.nil
    | cons p ps => simp at hlen
  | cons j l ih =>
    cases ps with
    | nil => simp at hlen
    | cons p ps =>
      simp only [List.zip_cons_cons, enumFrom] at h
      simp only [List.map_cons]
      refine List.Forall₂.cons (h _ (List.mem_cons_self ..)) ?_
      exact ih ps (k + 1) (by simpa using hlen) (fun e he => h e (List.mem_cons_of_mem _ he))

theorem toKind_conn {k : FKind} (hk : k.isConn = true) :
    toKind k = .and ∨ toKind k = .or ∨ toKind k = .implies := by
  cases k <;> simp [FKind.isConn, toKind] at hk ⊢

theorem ustepUp_ground_conn' (kb : FKB ι α) (Gs : State (ι × Gr) α) (i : ι) (g : Gr)
    (hk : (kb i).kind.isConn = true) :
    ustepUp (groundKB kb) (i, g) Gs =
      Function.update Gs (i, g) (aggregate .both (Gs (i, g)) (actUp (groundKB kb (i, g)) Gs)).1 := by
  unfold ustepUp
  have hkk : (groundKB kb (i, g)).kind = toKind (kb i).kind := rfl
  rcases toKind_conn hk with h | h | h <;> simp only [hkk, h]

theorem ustepUp_ground_conn (kb : FKB ι α) (Gs : State (ι × Gr) α) (i : ι) (g : Gr)
    (hk : (kb i).kind.isConn = true) :
    ustepUp (groundKB kb) (i, g) Gs (i, g) =
      (aggregate .both (Gs (i, g)) (actUp (groundKB kb (i, g)) Gs)).1 := by
  rw [ustepUp_ground_conn' kb Gs i g hk, Function.update_self]

theorem ustepDown_ground_conn (kb : FKB ι α) (Gs : State (ι × Gr) α) (i : ι) (g : Gr)
    (hk : (kb i).kind.isConn = true) (idx : Option Nat) :
    ustepDown (groundKB kb) (i, g) idx Gs =
      (writeOps (enumFrom 0 (List.zip (groundKB kb (i, g)).ops
        (actDown (groundKB kb (i, g)) (Gs (i, g)) Gs))) idx Gs).1 := by
  unfold ustepDown
  have hkk : (groundKB kb (i, g)).kind = toKind (kb i).kind := rfl
  rcases toKind_conn hk with h | h | h <;> simp only [hkk, h]

theorem mem_enumFrom {β : Type} (l : List β) (k : Nat) (e : Nat × β) (he : e ∈ enumFrom k l) :
    e.2 ∈ l := by
  induction l generalizing k with
  | nil => simp [enumFrom] at he
  | cons x xs ih =>
    simp only [enumFrom, List.mem_cons] at he
    rcases he with rfl | he
    · exact List.mem_cons_self ..
    · exact List.mem_cons_of_mem _ (ih _ he)

/-- **A unit state of the instantiated propositional knowledge base that no un-arrested primitive
step tightens (in particular: a fixpoint of every `Mono.ustep`) is a closed ground bound
assignment.** Only the steps at groundings of the formula's arity are needed. -/
theorem ground_closed (kb : FKB ι α) (ar : ι → Nat) (hwf : FWF kb ar) (Gs : State (ι × Gr) α)
    (hu : UnitState Gs)
    (hfix : ∀ st : Step (ι × Gr), (Mono.node st).2.length = ar (Mono.node st).1 →
      Le (ustep (groundKB kb) st Gs) Gs) :
    GClosed kb ar (ofState Gs) where
  unit := fun i g => hu (i, g)
  up := fun i g hk hg => by
    have h := hfix (.up (i, g)) hg (i, g)
    simp only [ustep] at h
    rw [ustepUp_ground_conn kb Gs i g hk] at h
    have := bLe_of_aggregate_le (hu (i, g)) (actUp_unitB _ _) h
    rw [actUp_ground kb Gs i g hk] at this
    exact this
  down := fun i g hk hg => by
    have h := hfix (.down (i, g) none) hg
    simp only [ustep] at h
    rw [ustepDown_ground_conn kb Gs i g hk none] at h
    have hent := writeOps_postfix _ Gs hu (fun e he => by
      have := mem_enumFrom _ _ e he
      exact actDown_unitB _ _ _ _ (List.of_mem_zip (show (e.2.1, e.2.2) ∈ _ from this)).2) h
    have hops : (groundKB kb (i, g)).ops =
        List.zipWith (fun j m => ((j, proj m g) : ι × Gr)) (kb i).ops (kb i).opmap :=
      groundOps_conn (kb i) g hk
    have hlen : (actDown (groundKB kb (i, g)) (Gs (i, g)) Gs).length =
        (groundKB kb (i, g)).ops.length := by
      rw [actDown_length _ _ _ (toKind_conn hk)]
      unfold opds
      rw [List.length_zipWith]
      have : (groundKB kb (i, g)).ws.length = (groundKB kb (i, g)).ops.length := by
        rw [hops, List.length_zipWith, ← (hwf.shape i hk).length_eq, Nat.min_self]
        exact hwf.ws_len i hk
      rw [this, Nat.min_self]
    have hF := forall₂_of_entries Gs _ _ 0 hlen hent
    rw [actDown_ground kb Gs i g hk, hops, ← gOpBounds_ground] at hF
    exact hF
  negUp := fun i g j rest hk hops hg => by
    have h := hfix (.up (i, g)) hg (i, g)
    have e : ustepUp (groundKB kb) (i, g) Gs (i, g) =
        (aggregate .both (Gs (i, g)) (negB (Gs (j, g)))).1 := by
      unfold ustepUp
      simp only [groundKB, hk, toKind, groundOps, hops, List.map_cons, Function.update_self]
    simp only [ustep] at h
    rw [e] at h
    exact bLe_of_aggregate_le (hu (i, g)) (unitB_negB (hu (j, g))) h
  negDown := fun i g j rest hk hops hg => by
    have h := hfix (.down (i, g) none) hg (j, g)
    have e : ustepDown (groundKB kb) (i, g) none Gs (j, g) =
        (aggregate .both (Gs (j, g)) (negB (Gs (i, g)))).1 := by
      unfold ustepDown
      simp only [groundKB, hk, toKind, groundOps, hops, List.map_cons, Function.update_self]
    simp only [ustep] at h
    rw [e] at h
    exact bLe_of_aggregate_le (hu (j, g)) (unitB_negB (hu (i, g))) h

/-- in particular a fixpoint of every un-arrested step -/
theorem ground_fix_closed (kb : FKB ι α) (ar : ι → Nat) (hwf : FWF kb ar)
    (Gs : State (ι × Gr) α) (hu : UnitState Gs)
    (hfix : ∀ st : Step (ι × Gr), ustep (groundKB kb) st Gs = Gs) :
    GClosed kb ar (ofState Gs) :=
  ground_closed kb ar hwf Gs hu (fun st _ => by rw [hfix st]; exact Le.refl _)

/-- **First-order inference is never tighter than the propositional engine run to a fixpoint on
the ground instances**: whatever quantifier-free calls are executed from a state that is looser
than the ground fixpoint `Gs`, every query returns bounds that are looser than `Gs`. -/
theorem C02_not_tighter_ground (kb : FKB ι α) (ar : ι → Nat) (hwf : FWF kb ar)
    (Gs : State (ι × Gr) α) (hu : UnitState Gs)
    (hfix : ∀ st : Step (ι × Gr), ustep (groundKB kb) st Gs = Gs)
    (calls : List (FCall ι)) (hq : ∀ c ∈ calls, QF kb c) (s : FState ι α) (ha : Arity ar s)
    (hs : SLe kb s (ofState Gs)) (i : ι) (g : Gr) :
    BLe (Table.getD (kb i).world ((runFCalls kb calls s).1.get i) g) (Gs (i, g)) :=
  (C02_not_tighter kb ar hwf (ofState Gs) (ground_fix_closed kb ar hwf Gs hu hfix) calls hq s ha
    hs).reads i g

/-! #### the converse: a closed assignment is a post-fixpoint of every ground step -/

/-- a ground bound assignment as a propositional state of the ground theory -/
def toState (G : ι → Gr → Bounds α) : State (ι × Gr) α := fun p => G p.1 p.2

theorem ofState_toState (G : ι → Gr → Bounds α) : ofState (toState G) = G := rfl

theorem le_update_of_bLe {κ : Type} [DecidableEq κ] {s' s : State κ α} (h : Le s' s) (j : κ)
    {r : Bounds α} (hr : BLe r (s j)) : Le (Function.update s' j r) s := by
  intro k
  by_cases hk : k = j
  · subst hk; simpa using hr
  · simpa [Function.update_of_ne hk] using h k

/-- writing proposals that are looser than a unit state `s` onto a state that is looser than `s`
leaves it looser than `s` (any index restriction) -/
theorem writeOps_le {κ : Type} [DecidableEq κ] (es : List (Nat × κ × Bounds α))
    (idx : Option Nat) (s : State κ α) (hs : UnitState s)
    (hes : ∀ e ∈ es, BLe e.2.2 (s e.2.1)) : ∀ s', Le s' s → Le (writeOps es idx s').1 s := by
  induction es with
  | nil => intro s' h; simpa [writeOps] using h
  | cons e es ih =>
    obtain ⟨k, j, p⟩ := e
    intro s' h
    simp only [writeOps]
    by_cases hc : idx = none ∨ idx = some k
    · simp only [hc, if_true]
      apply ih (fun e he => hes e (List.mem_cons_of_mem _ he))
      exact le_update_of_bLe h j (bLe_aggregate (hs j) (h j) (hes _ (List.mem_cons_self ..)))
    · simp only [hc, if_false]
      exact ih (fun e he => hes e (List.mem_cons_of_mem _ he)) s' h

theorem entries_of_forall₂ {κ : Type} (s : State κ α) (l : List κ) (ps : List (Bounds α))
    (k : Nat) (h : List.Forall₂ BLe ps (l.map s)) :
    ∀ e ∈ enumFrom k (List.zip l ps), BLe e.2.2 (s e.2.1) := by
  induction l generalizing ps k with
  | nil => intro e he; simp [enumFrom] at he
  | cons j l ih =>
    cases ps with
    | nil => intro e he; simp [enumFrom] at he
    | cons p ps =>
      simp only [List.map_cons] at h
      cases h with
      | cons hp h =>
        intro e he
        simp only [List.zip_cons_cons, enumFrom, List.mem_cons] at he
        rcases he with rfl | he
        · exact hp
        · exact ih ps (k + 1) h e he

theorem ustep_ground_atom (kb : FKB ι α) (Gs : State (ι × Gr) α) (p : ι × Gr)
    (hk : toKind (kb p.1).kind = .atom) (st : Step (ι × Gr)) (hst : Mono.node st = p) :
    ustep (groundKB kb) st Gs = Gs := by
  have hkk : (groundKB kb p).kind = .atom := hk
  cases st with
  | up q =>
    simp only [Mono.node] at hst
    subst hst
    simp only [ustep, ustepUp, hkk]
  | down q idx =>
    simp only [Mono.node] at hst
    subst hst
    simp only [ustep, ustepDown, hkk]

/-- **The converse**: no un-arrested primitive step of the propositional engine on the ground
theory (at a grounding of the formula's arity, any operand index) tightens a closed assignment. -/
theorem closed_ground (kb : FKB ι α) (ar : ι → Nat) (G : ι → Gr → Bounds α)
    (hc : GClosed kb ar G) (st : Step (ι × Gr))
    (hst : (Mono.node st).2.length = ar (Mono.node st).1) :
    Le (ustep (groundKB kb) st (toState G)) (toState G) := by
  have hus : UnitState (toState G) := fun p => hc.unit p.1 p.2
  have atom : ∀ p : ι × Gr, Mono.node st = p → toKind (kb p.1).kind = .atom →
      Le (ustep (groundKB kb) st (toState G)) (toState G) := fun p hp hk => by
    rw [ustep_ground_atom kb _ p hk st hp]; exact Le.refl _
  cases st with
  | up p =>
    obtain ⟨i, g⟩ := p
    simp only [Mono.node] at hst
    have conn : (kb i).kind.isConn = true →
        Le (ustep (groundKB kb) (.up (i, g)) (toState G)) (toState G) := fun hk => by
      simp only [ustep]
      rw [ustepUp_ground_conn' kb _ i g hk, actUp_ground kb _ i g hk]
      exact le_update_of_bLe (Le.refl _) _
        (bLe_aggregate (hus (i, g)) (BLe.refl _) (hc.up i g hk hst))
    cases hkind : (kb i).kind with
    | pred => exact atom (i, g) rfl (by rw [hkind]; rfl)
    | all => exact atom (i, g) rfl (by rw [hkind]; rfl)
    | ex => exact atom (i, g) rfl (by rw [hkind]; rfl)
    | and => exact conn (by rw [hkind]; rfl)
    | or => exact conn (by rw [hkind]; rfl)
    | implies => exact conn (by rw [hkind]; rfl)
    | neg =>
      simp only [ustep, ustepUp, groundKB, hkind, toKind, groundOps]
      cases hops : (kb i).ops with
      | nil => exact Le.refl _
      | cons j rest =>
        simp only [List.map_cons]
        exact le_update_of_bLe (Le.refl _) _
          (bLe_aggregate (hus (i, g)) (BLe.refl _) (hc.negUp i g j rest hkind hops hst))
  | down p idx =>
    obtain ⟨i, g⟩ := p
    simp only [Mono.node] at hst
    have conn : (kb i).kind.isConn = true →
        Le (ustep (groundKB kb) (.down (i, g) idx) (toState G)) (toState G) := fun hk => by
      simp only [ustep]
      rw [ustepDown_ground_conn kb _ i g hk idx]
      apply writeOps_le _ idx _ hus _ _ (Le.refl _)
      apply entries_of_forall₂
      rw [actDown_ground kb _ i g hk]
      have hops : (groundKB kb (i, g)).ops =
          List.zipWith (fun j m => ((j, proj m g) : ι × Gr)) (kb i).ops (kb i).opmap :=
        groundOps_conn (kb i) g hk
      rw [hops, ← gOpBounds_ground]
      exact hc.down i g hk hst
    cases hkind : (kb i).kind with
    | pred => exact atom (i, g) rfl (by rw [hkind]; rfl)
    | all => exact atom (i, g) rfl (by rw [hkind]; rfl)
    | ex => exact atom (i, g) rfl (by rw [hkind]; rfl)
    | and => exact conn (by rw [hkind]; rfl)
    | or => exact conn (by rw [hkind]; rfl)
    | implies => exact conn (by rw [hkind]; rfl)
    | neg =>
      simp only [ustep, ustepDown, groundKB, hkind, toKind, groundOps]
      cases hops : (kb i).ops with
      | nil => exact Le.refl _
      | cons j rest =>
        simp only [List.map_cons]
        exact le_update_of_bLe (Le.refl _) _
          (bLe_aggregate (hus (j, g)) (BLe.refl _) (hc.negDown i g j rest hkind hops hst))

/-- **Characterisation**: for a well-formed knowledge base, `GClosed` says exactly that the
assignment is a unit state of the ground theory that no un-arrested primitive step of the
propositional engine (at groundings of the right arity) tightens. -/
theorem gClosed_iff_ground (kb : FKB ι α) (ar : ι → Nat) (hwf : FWF kb ar)
    (G : ι → Gr → Bounds α) :
    GClosed kb ar G ↔ UnitState (toState G) ∧
      ∀ st : Step (ι × Gr), (Mono.node st).2.length = ar (Mono.node st).1 →
        Le (ustep (groundKB kb) st (toState G)) (toState G) :=
  ⟨fun hc => ⟨fun p => hc.unit p.1 p.2, closed_ground kb ar G hc⟩,
   fun h => ground_closed kb ar hwf (toState G) h.1 h.2⟩

/-- non-vacuity of `ground_closed`: the non-degenerate assignment of `FolTightEx` is a state of the
ground theory that no un-arrested step (at unary groundings) tightens -/
example (st : Step (Nat × Gr)) (hst : (Mono.node st).2.length = 1) :
    Le (ustep (groundKB FolTightEx.kb) st (toState FolTightEx.G)) (toState FolTightEx.G) :=
  closed_ground FolTightEx.kb FolTightEx.ar FolTightEx.G FolTightEx.closed st hst

end ground

end FolTight
end LNN
