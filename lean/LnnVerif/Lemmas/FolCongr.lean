/-
ORDER INDEPENDENCE OF THE WHOLE FIRST-ORDER ENGINE (C10, completion of `Lemmas/Join.lean`).

`Join.lean` shows that grounding management, the upward pass of a connective and first-order
negation are functions of the finite maps denoted by the tables (`TEq`, `SEq`). This file adds

* `writeMerged` depends only on the SET of proposals and on the denoted map of the table, table
  and reported amount (`writeMerged_set`, `writeMerged_congr`);
* the downward pass of a connective (`fDownConn_congr`): no side condition beyond `hslots`;
* the quantifiers (`fUpQuant_congr`, `fDownQuant_congr`): these need that the operand table stores
  each grounding once. WITHOUT that hypothesis the statements are FALSE of the model
  (`quant_counterexample` below): `fUpQuant` / `fDownQuant` read ALL rows of the operand table,
  also a row that is shadowed by an earlier row with the same grounding and hence invisible in the
  denoted map. Such tables are never produced by the engine (`FolFix.SNodup` is an invariant);
* `fUp`, `fDown`, `runFCall`, `runFCalls`, `fInfer` (under `SNodup` of both states).

Everything lives in the namespace `LNN.FolCongr`.
-/
import LnnVerif.Lemmas.Join
import LnnVerif.Lemmas.FolFix
import LnnVerif.Props.C10

set_option linter.unusedSectionVars false

namespace LNN
namespace FolCongr

open Join

/-! ### the duplicate merge depends only on the SET of candidates -/

section Merge
variable {α : Type} [LinearOrder α]

theorem mergeB_self (c : Bounds α) : mergeB c c = c := by
  simp [mergeB]

theorem mergeB_idem_right (z x : Bounds α) : mergeB (mergeB z x) x = mergeB z x := by
  rw [mergeB_assoc, mergeB_self]

theorem mergeAll_cons (c : Bounds α) (cs : List (Bounds α)) :
    mergeAll (c :: cs) = some ((c :: cs).foldl mergeB c) := by
  simp only [mergeAll, List.foldl_cons, mergeB_self]

/-- the start value of the merge fold may be any element of the list -/
theorem foldl_mergeB_start {l : List (Bounds α)} {c c' : Bounds α} (hc : c ∈ l) (hc' : c' ∈ l) :
    l.foldl mergeB c = l.foldl mergeB c' := by
  have hcomm : ∀ x y : Bounds α, True → True → ∀ z, mergeB (mergeB z x) y = mergeB (mergeB z y) x :=
    fun x y _ _ z => mergeB_right_comm z x y
  have hidem : ∀ x : Bounds α, True → ∀ z, mergeB (mergeB z x) x = mergeB z x :=
    fun x _ z => mergeB_idem_right z x
  have e1 := foldl_absorb mergeB (fun _ => True) hcomm hidem c' trivial l (fun _ _ => trivial) hc' c
  have e2 := foldl_absorb mergeB (fun _ => True) hcomm hidem c trivial l (fun _ _ => trivial) hc c'
  rw [← e1, ← e2, mergeB_comm]

/-- THE DUPLICATE MERGE IS A FUNCTION OF THE SET OF CANDIDATES (order and multiplicity are
irrelevant) -/
theorem mergeAll_set {l l' : List (Bounds α)} (h : ∀ x, x ∈ l ↔ x ∈ l') :
    mergeAll l = mergeAll l' := by
  cases l with
  | nil =>
    cases l' with
    | nil => rfl
    | cons c' _ => exact absurd ((h c').mpr List.mem_cons_self) (by simp)
  | cons c cs =>
    cases l' with
    | nil => exact absurd ((h c).mp List.mem_cons_self) (by simp)
    | cons c' cs' =>
      rw [mergeAll_cons, mergeAll_cons]
      have e1 : (c :: cs).foldl mergeB c = (c' :: cs').foldl mergeB c :=
        foldl_eq_of_mem_iff mergeB (fun _ => True) (fun x y _ _ z => mergeB_right_comm z x y)
          (fun x _ z => mergeB_idem_right z x) (fun _ _ => trivial) h c
      rw [e1, foldl_mergeB_start ((h c).mp List.mem_cons_self) List.mem_cons_self]

end Merge

/-! ### `writeMerged` depends only on the SET of proposals and on the denoted map -/

section Write
variable {α : Type} [Field α] [LinearOrder α]

theorem candsOf_set (r : Row α) {props props' : List (Gr × Bounds α)}
    (h : ∀ x, x ∈ props ↔ x ∈ props') (g : Gr) (b : Bounds α) :
    b ∈ candsOf r props g ↔ b ∈ candsOf r props' g := by
  simp only [candsOf, List.mem_map, List.mem_filter, h]

theorem stepW_set (t : Table α) {props props' : List (Gr × Bounds α)}
    (h : ∀ x, x ∈ props ↔ x ∈ props') : stepW t props = stepW t props' := by
  funext acc g
  unfold stepW
  cases t.find? g with
  | none => rfl
  | some r => simp only [mergeAll_set (candsOf_set r h g)]

/-- same table: the result (table and amount, as values) depends only on the set of proposals -/
theorem writeMerged_set (t : Table α) {props props' : List (Gr × Bounds α)}
    (h : ∀ x, x ∈ props ↔ x ∈ props') : writeMerged t props = writeMerged t props' := by
  rw [writeMerged_eq, writeMerged_eq, stepW_set t h]
  have hk : (dedupKeepFirst (props.map (·.1))).Perm (dedupKeepFirst (props'.map (·.1))) := by
    rw [List.perm_ext_iff_of_nodup (nodup_dedupKeepFirst _) (nodup_dedupKeepFirst _)]
    intro a
    rw [mem_dedupKeepFirst, mem_dedupKeepFirst]
    simp only [List.mem_map, h]
  exact hk.foldl_eq' (fun x _ y _ z => stepW_comm t props' x y z) _

theorem candsOf_b {r r' : Row α} (h : r.b = r'.b) (props : List (Gr × Bounds α)) (g : Gr) :
    candsOf r props g = candsOf r' props g := by
  unfold candsOf
  rw [h]

theorem stepW_some {t : Table α} {g : Gr} {r : Row α} (h : Table.find? t g = some r)
    (props : List (Gr × Bounds α)) (acc : Table α × α) :
    stepW t props acc g = mergeStep acc g r (mergeAll (candsOf r props g)) := by
  unfold stepW
  rw [h]

theorem stepW_none {t : Table α} {g : Gr} (h : Table.find? t g = none)
    (props : List (Gr × Bounds α)) (acc : Table α × α) : stepW t props acc g = acc := by
  unfold stepW
  rw [h]

theorem stepW_congr {t t' : Table α} (h : TEq t t') (props : List (Gr × Bounds α))
    {acc acc' : Table α × α} (h1 : TEq acc.1 acc'.1) (h2 : acc.2 = acc'.2) (g : Gr) :
    TEq (stepW t props acc g).1 (stepW t' props acc' g).1 ∧
      (stepW t props acc g).2 = (stepW t' props acc' g).2 := by
  have hg := h g
  unfold Table.denote at hg
  cases hx : Table.find? t g with
  | none =>
    cases hx' : Table.find? t' g with
    | none => rw [stepW_none hx, stepW_none hx']; exact ⟨h1, h2⟩
    | some r' => rw [hx, hx'] at hg; cases hg
  | some r =>
    cases hx' : Table.find? t' g with
    | none => rw [hx, hx'] at hg; cases hg
    | some r' =>
      rw [hx, hx'] at hg
      simp only [Option.map_some, Option.some.injEq, Prod.mk.injEq] at hg
      rw [stepW_some hx, stepW_some hx', candsOf_b hg.2]
      cases mergeAll (candsOf r' props g) with
      | none => exact ⟨h1, h2⟩
      | some m =>
        simp only [mergeStep]
        rw [hg.2, h2]
        exact ⟨h1.setB g m, rfl⟩

theorem foldl_stepW_congr {t t' : Table α} (h : TEq t t') (props : List (Gr × Bounds α)) :
    ∀ (l : List Gr) {acc acc' : Table α × α}, TEq acc.1 acc'.1 → acc.2 = acc'.2 →
      TEq (l.foldl (stepW t props) acc).1 (l.foldl (stepW t' props) acc').1 ∧
        (l.foldl (stepW t props) acc).2 = (l.foldl (stepW t' props) acc').2
  | [], _, _, h1, h2 => ⟨h1, h2⟩
  | g :: l, _, _, h1, h2 => by
    rw [List.foldl_cons, List.foldl_cons]
    obtain ⟨e1, e2⟩ := stepW_congr h props h1 h2 g
    exact foldl_stepW_congr h props l e1 e2

/-- THE DOWNWARD WRITE-BACK IS A FUNCTION OF THE DENOTED MAP OF THE TABLE AND OF THE SET OF
PROPOSALS: new table up to `TEq`, reported amount equal. (The amount is a sum over the DISTINCT
proposal keys of the change of that row against the ORIGINAL table, so multiplicities do not
enter.) -/
theorem writeMerged_congr {t t' : Table α} (h : TEq t t') {props props' : List (Gr × Bounds α)}
    (hset : ∀ x, x ∈ props ↔ x ∈ props') :
    TEq (writeMerged t props).1 (writeMerged t' props').1 ∧
      (writeMerged t props).2 = (writeMerged t' props').2 := by
  rw [writeMerged_set t hset, writeMerged_eq, writeMerged_eq]
  exact foldl_stepW_congr h props' _ (acc := (t, 0)) (acc' := (t', 0)) h rfl

end Write

/-! ### the downward pass of a connective -/

section DownConn
variable {ι : Type} [DecidableEq ι] {α : Type} [Field α] [LinearOrder α]

/-- the proposals of operator grounding `g` for the operand groundings `opgs` -/
def dItemOf (kb : FKB ι α) (i : ι) (s1 : FState ι α) (g : Gr) (opgs : List Gr) :
    Option (List Gr × List (Bounds α)) :=
  let bs := List.zipWith (fun j g => Table.getD (kb j).world (s1.get j) g) (kb i).ops opgs
  let ob := Table.getD (kb i).world (s1.get i) g
  if (bs.take 2).any (isContra (kb i).alpha) || isContra (kb i).alpha ob then none
  else some (opgs, fActDown (kb i) ob bs)

def downItems (kb : FKB ι α) (i : ι) (s1 : FState ι α) (ogs : List Gr) (per : List (List Gr)) :
    List (List Gr × List (Bounds α)) :=
  (List.range ogs.length).filterMap fun k => dItemOf kb i s1 (ogs.getD k []) (rowsOf per k)

/-- the proposals for operand number `p` -/
def propsAt (items : List (List Gr × List (Bounds α))) (p : Nat) : List (Gr × Bounds α) :=
  items.filterMap fun it =>
    match it.1[p]?, it.2[p]? with
    | some g, some b => some (g, b)
    | _, _ => none

def downStep (idx : Option Nat) (items : List (List Gr × List (Bounds α)))
    (acc : FState ι α × α) (p : Nat × ι) : FState ι α × α :=
  if idx = none ∨ idx = some p.1 then
    ((acc.1.set p.2 (writeMerged (acc.1.get p.2) (propsAt items p.1)).1),
      acc.2 + (writeMerged (acc.1.get p.2) (propsAt items p.1)).2)
  else acc

theorem fDownConn_eq (kb : FKB ι α) (i : ι) (idx : Option Nat) (s : FState ι α) :
    fDownConn kb i idx s =
      match groundings kb i true s with
      | (s1, none) => (s1, 0)
      | (s1, some (ogs, per)) =>
        if (downItems kb i s1 ogs per).isEmpty then (s1, 0) else
          (List.zip (List.range (kb i).ops.length) (kb i).ops).foldl
            (downStep idx (downItems kb i s1 ogs per)) (s1, 0) := rfl

theorem downItems_eq (kb : FKB ι α) (i : ι) (s1 : FState ι α) (ogs : List Gr)
    (per : List (List Gr)) (opF : Gr → List Gr)
    (hF : ∀ k < ogs.length, rowsOf per k = opF (ogs.getD k [])) :
    downItems kb i s1 ogs per = ogs.filterMap fun g => dItemOf kb i s1 g (opF g) := by
  unfold downItems
  conv_rhs => rw [← map_getD_range ogs []]
  rw [List.filterMap_map]
  apply List.filterMap_congr
  intro k hk
  simp only [Function.comp, hF k (List.mem_range.mp hk)]

theorem dItemOf_congr (kb : FKB ι α) (i : ι) {s1 s1' : FState ι α} (h : SEq s1 s1') (g : Gr)
    (o : List Gr) : dItemOf kb i s1 g o = dItemOf kb i s1' g o := by
  have e : (fun j g => Table.getD (kb j).world (s1.get j) g) =
      fun j g => Table.getD (kb j).world (s1'.get j) g := by
    funext j g
    exact (h j).getD _ _
  unfold dItemOf
  rw [e, (h i).getD]

theorem propsAt_set {items items' : List (List Gr × List (Bounds α))}
    (h : ∀ x, x ∈ items ↔ x ∈ items') (p : Nat) (x : Gr × Bounds α) :
    x ∈ propsAt items p ↔ x ∈ propsAt items' p := by
  simp only [propsAt, List.mem_filterMap, h]

theorem downStep_congr (idx : Option Nat) {items items' : List (List Gr × List (Bounds α))}
    (hset : ∀ x, x ∈ items ↔ x ∈ items') {acc acc' : FState ι α × α} (h1 : SEq acc.1 acc'.1)
    (h2 : acc.2 = acc'.2) (p : Nat × ι) :
    SEq (downStep idx items acc p).1 (downStep idx items' acc' p).1 ∧
      (downStep idx items acc p).2 = (downStep idx items' acc' p).2 := by
  unfold downStep
  split
  · obtain ⟨e1, e2⟩ := writeMerged_congr (h1 p.2) (propsAt_set hset p.1)
    exact ⟨h1.set p.2 e1, by rw [h2, e2]⟩
  · exact ⟨h1, h2⟩

theorem foldl_downStep_congr (idx : Option Nat) {items items' : List (List Gr × List (Bounds α))}
    (hset : ∀ x, x ∈ items ↔ x ∈ items') :
    ∀ (l : List (Nat × ι)) {acc acc' : FState ι α × α}, SEq acc.1 acc'.1 → acc.2 = acc'.2 →
      SEq (l.foldl (downStep idx items) acc).1 (l.foldl (downStep idx items') acc').1 ∧
        (l.foldl (downStep idx items) acc).2 = (l.foldl (downStep idx items') acc').2
  | [], _, _, h1, h2 => ⟨h1, h2⟩
  | p :: l, _, _, h1, h2 => by
    rw [List.foldl_cons, List.foldl_cons]
    obtain ⟨e1, e2⟩ := downStep_congr idx hset h1 h2 p
    exact foldl_downStep_congr idx hset l e1 e2

theorem isEmpty_of_mem_iff {A : Type} {l l' : List A} (h : ∀ x, x ∈ l ↔ x ∈ l') :
    l.isEmpty = l'.isEmpty := by
  cases l with
  | nil =>
    cases l' with
    | nil => rfl
    | cons c' _ => exact absurd ((h c').mpr List.mem_cons_self) (by simp)
  | cons c cs =>
    cases l' with
    | nil => exact absurd ((h c).mp List.mem_cons_self) (by simp)
    | cons _ _ => rfl

/-- the body of `fDownConn` after grounding management, from `SEq` states and lists of operator
groundings with the same set of elements whose operand groundings are given by one function -/
theorem down_core (kb : FKB ι α) (i : ι) (idx : Option Nat) {s1 s1' : FState ι α}
    (h1 : SEq s1 s1') {ogs ogs' : List Gr} {per per' : List (List Gr)} (opF : Gr → List Gr)
    (hF : ∀ k < ogs.length, rowsOf per k = opF (ogs.getD k []))
    (hF' : ∀ k < ogs'.length, rowsOf per' k = opF (ogs'.getD k []))
    (hset : ∀ g, g ∈ ogs ↔ g ∈ ogs') (l : List (Nat × ι)) :
    SEq (if (downItems kb i s1 ogs per).isEmpty then (s1, (0 : α)) else
          l.foldl (downStep idx (downItems kb i s1 ogs per)) (s1, 0)).1
        (if (downItems kb i s1' ogs' per').isEmpty then (s1', (0 : α)) else
          l.foldl (downStep idx (downItems kb i s1' ogs' per')) (s1', 0)).1 ∧
      (if (downItems kb i s1 ogs per).isEmpty then (s1, (0 : α)) else
          l.foldl (downStep idx (downItems kb i s1 ogs per)) (s1, 0)).2 =
        (if (downItems kb i s1' ogs' per').isEmpty then (s1', (0 : α)) else
          l.foldl (downStep idx (downItems kb i s1' ogs' per')) (s1', 0)).2 := by
  rw [downItems_eq kb i s1 ogs per opF hF, downItems_eq kb i s1' ogs' per' opF hF']
  have hG : (fun g => dItemOf kb i s1' g (opF g)) = fun g => dItemOf kb i s1 g (opF g) := by
    funext g
    exact (dItemOf_congr kb i h1 g _).symm
  rw [hG]
  have hmem : ∀ y, y ∈ ogs.filterMap (fun g => dItemOf kb i s1 g (opF g)) ↔
      y ∈ ogs'.filterMap (fun g => dItemOf kb i s1 g (opF g)) := by
    intro y
    simp only [List.mem_filterMap]
    constructor
    · rintro ⟨g, hg, e⟩; exact ⟨g, (hset g).mp hg, e⟩
    · rintro ⟨g, hg, e⟩; exact ⟨g, (hset g).mpr hg, e⟩
  rw [isEmpty_of_mem_iff hmem]
  split
  · exact ⟨h1, rfl⟩
  · exact foldl_downStep_congr idx hmem l (acc := (s1, 0)) (acc' := (s1', 0)) h1 rfl

/-- DOWNWARD INFERENCE OVER A CONNECTIVE IS ORDER-FREE: on states that denote the same finite maps
`fDownConn` produces states that denote the same finite maps and reports the same amount. Operator
groundings may be listed in different orders and with different multiplicities, several of them
may project onto the same operand row. `hslots`: the variable maps only use slots
`0 … numVars-1`. -/
theorem fDownConn_congr (kb : FKB ι α) (i : ι) (idx : Option Nat) {s s' : FState ι α}
    (h : SEq s s') (hslots : ∀ m ∈ (kb i).opmap, ∀ c ∈ m, c < numVars (kb i)) :
    SEq (fDownConn kb i idx s).1 (fDownConn kb i idx s').1 ∧
      (fDownConn kb i idx s).2 = (fDownConn kb i idx s').2 := by
  have hG := (groundings_congr kb i true h).1
  rw [fDownConn_eq, fDownConn_eq]
  cases hh : isHomogeneous (kb i) with
  | true =>
    rw [groundings_homog kb i true s hh, groundings_homog kb i true s' hh] at hG
    rw [groundings_homog kb i true s hh, groundings_homog kb i true s' hh]
    dsimp only at hG ⊢
    exact down_core kb i idx hG (homF (kb i)) (fun k _ => rowsOf_hom (kb i) _ k)
      (fun k _ => rowsOf_hom (kb i) _ k) (homGs_congr kb i true h) _
  | false =>
    rcases foldJoin_congr (relsOf_congr kb i h) with ⟨h1, h2⟩ | ⟨J, J', h1, h2, hJ⟩
    · rw [groundings_hetero_none kb i true s hh h1, groundings_hetero_none kb i true s' hh h2]
      exact ⟨h, rfl⟩
    · cases hne : J.rows.isEmpty with
      | true =>
        have hne' : J'.rows.isEmpty = true := by rw [← hJ.2.isEmpty]; exact hne
        rw [groundings_hetero_empty kb i true s hh h1 hne,
          groundings_hetero_empty kb i true s' hh h2 hne']
        exact ⟨h, rfl⟩
      | false =>
        have hne' : J'.rows.isEmpty = false := by rw [← hJ.2.isEmpty]; exact hne
        rw [groundings_hetero kb i true s hh h1 hne, groundings_hetero kb i true s' hh h2 hne']
          at hG
        rw [groundings_hetero kb i true s hh h1 hne, groundings_hetero kb i true s' hh h2 hne']
        dsimp only at hG ⊢
        exact down_core kb i idx hG (hetF (kb i)) (rowsOf_het (kb i) J hslots)
          (rowsOf_het (kb i) J' hslots) (ogsOf_congr (kb i) hJ) _

end DownConn

end FolCongr
end LNN
