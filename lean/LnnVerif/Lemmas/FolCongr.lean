/-
ORDER INDEPENDENCE OF THE WHOLE FIRST-ORDER ENGINE (C10, completion of `Lemmas/Join.lean`).

`Join.lean` shows that grounding management, the upward pass of a connective and first-order
negation are functions of the finite maps denoted by the tables (`TEq`, `SEq`). This file adds

* `writeMerged` depends only on the SET of proposals and on the denoted map of the table, table
  and reported amount (`writeMerged_set`, `writeMerged_congr`);
* the downward pass of a connective (`fDownConn_congr`): no side condition beyond `hslots`;
* the quantifiers (`fUpQuant_congr`, `fDownQuant_congr`): these need that the operand table stores
  each grounding once. WITHOUT that hypothesis the statements are FALSE of the model
  (`quant_counterexample` below): `fUpQuant` / `fDownQuant` read ALL rows of the operand table,
  also a row that is shadowed by an earlier row with the same grounding and hence invisible in the
  denoted map. Such tables are never produced by the engine (`FolFix.SNodup` is an invariant);
* `fUp`, `fDown`, `runFCall`, `runFCalls`, `fInfer` (under `SNodup` of both states).

Everything lives in the namespace `LNN.FolCongr`.
-/
import LnnVerif.Lemmas.Join
import LnnVerif.Lemmas.FolFix
import LnnVerif.Props.C10

set_option linter.unusedSectionVars false

namespace LNN
namespace FolCongr

open Join

/-! ### the duplicate merge depends only on the SET of candidates -/

section Merge
variable {α : Type} [LinearOrder α]

theorem mergeB_self (c : Bounds α) : mergeB c c = c := by
  simp [mergeB]

theorem mergeB_idem_right (z x : Bounds α) : mergeB (mergeB z x) x = mergeB z x := by
  rw [mergeB_assoc, mergeB_self]

theorem mergeAll_cons (c : Bounds α) (cs : List (Bounds α)) :
    mergeAll (c :: cs) = some ((c :: cs).foldl mergeB c) := by
  simp only [mergeAll, List.foldl_cons, mergeB_self]

/-- the start value of the merge fold may be any element of the list -/
theorem foldl_mergeB_start {l : List (Bounds α)} {c c' : Bounds α} (hc : c ∈ l) (hc' : c' ∈ l) :
    l.foldl mergeB c = l.foldl mergeB c' := by
  have hcomm : ∀ x y : Bounds α, True → True → ∀ z, mergeB (mergeB z x) y = mergeB (mergeB z y) x :=
    fun x y _ _ z => mergeB_right_comm z x y
  have hidem : ∀ x : Bounds α, True → ∀ z, mergeB (mergeB z x) x = mergeB z x :=
    fun x _ z => mergeB_idem_right z x
  have e1 := foldl_absorb mergeB (fun _ => True) hcomm hidem c' trivial l (fun _ _ => trivial) hc' c
  have e2 := foldl_absorb mergeB (fun _ => True) hcomm hidem c trivial l (fun _ _ => trivial) hc c'
  rw [← e1, ← e2, mergeB_comm]

/-- THE DUPLICATE MERGE IS A FUNCTION OF THE SET OF CANDIDATES (order and multiplicity are
irrelevant) -/
theorem mergeAll_set {l l' : List (Bounds α)} (h : ∀ x, x ∈ l ↔ x ∈ l') :
    mergeAll l = mergeAll l' := by
  cases l with
  | nil =>
    cases l' with
    | nil => rfl
    | cons c' _ => exact absurd ((h c').mpr List.mem_cons_self) (by simp)
  | cons c cs =>
    cases l' with
    | nil => exact absurd ((h c).mp List.mem_cons_self) (by simp)
    | cons c' cs' =>
      rw [mergeAll_cons, mergeAll_cons]
      have e1 : (c :: cs).foldl mergeB c = (c' :: cs').foldl mergeB c :=
        foldl_eq_of_mem_iff mergeB (fun _ => True) (fun x y _ _ z => mergeB_right_comm z x y)
          (fun x _ z => mergeB_idem_right z x) (fun _ _ => trivial) h c
      rw [e1, foldl_mergeB_start ((h c).mp List.mem_cons_self) List.mem_cons_self]

end Merge

/-! ### `writeMerged` depends only on the SET of proposals and on the denoted map -/

section Write
variable {α : Type} [Field α] [LinearOrder α]

theorem candsOf_set (r : Row α) {props props' : List (Gr × Bounds α)}
    (h : ∀ x, x ∈ props ↔ x ∈ props') (g : Gr) (b : Bounds α) :
    b ∈ candsOf r props g ↔ b ∈ candsOf r props' g := by
  simp only [candsOf, List.mem_map, List.mem_filter, h]

theorem stepW_set (t : Table α) {props props' : List (Gr × Bounds α)}
    (h : ∀ x, x ∈ props ↔ x ∈ props') : stepW t props = stepW t props' := by
  funext acc g
  unfold stepW
  cases t.find? g with
  | none => rfl
  | some r => simp only [mergeAll_set (candsOf_set r h g)]

/-- same table: the result (table and amount, as values) depends only on the set of proposals -/
theorem writeMerged_set (t : Table α) {props props' : List (Gr × Bounds α)}
    (h : ∀ x, x ∈ props ↔ x ∈ props') : writeMerged t props = writeMerged t props' := by
  rw [writeMerged_eq, writeMerged_eq, stepW_set t h]
  have hk : (dedupKeepFirst (props.map (·.1))).Perm (dedupKeepFirst (props'.map (·.1))) := by
    rw [List.perm_ext_iff_of_nodup (nodup_dedupKeepFirst _) (nodup_dedupKeepFirst _)]
    intro a
    rw [mem_dedupKeepFirst, mem_dedupKeepFirst]
    simp only [List.mem_map, h]
  exact hk.foldl_eq' (fun x _ y _ z => stepW_comm t props' x y z) _

theorem candsOf_b {r r' : Row α} (h : r.b = r'.b) (props : List (Gr × Bounds α)) (g : Gr) :
    candsOf r props g = candsOf r' props g := by
  unfold candsOf
  rw [h]

theorem stepW_some {t : Table α} {g : Gr} {r : Row α} (h : Table.find? t g = some r)
    (props : List (Gr × Bounds α)) (acc : Table α × α) :
    stepW t props acc g = mergeStep acc g r (mergeAll (candsOf r props g)) := by
  unfold stepW
  rw [h]

theorem stepW_none {t : Table α} {g : Gr} (h : Table.find? t g = none)
    (props : List (Gr × Bounds α)) (acc : Table α × α) : stepW t props acc g = acc := by
  unfold stepW
  rw [h]

theorem stepW_congr {t t' : Table α} (h : TEq t t') (props : List (Gr × Bounds α))
    {acc acc' : Table α × α} (h1 : TEq acc.1 acc'.1) (h2 : acc.2 = acc'.2) (g : Gr) :
    TEq (stepW t props acc g).1 (stepW t' props acc' g).1 ∧
      (stepW t props acc g).2 = (stepW t' props acc' g).2 := by
  have hg := h g
  unfold Table.denote at hg
  cases hx : Table.find? t g with
  | none =>
    cases hx' : Table.find? t' g with
    | none => rw [stepW_none hx, stepW_none hx']; exact ⟨h1, h2⟩
    | some r' => rw [hx, hx'] at hg; cases hg
  | some r =>
    cases hx' : Table.find? t' g with
    | none => rw [hx, hx'] at hg; cases hg
    | some r' =>
      rw [hx, hx'] at hg
      simp only [Option.map_some, Option.some.injEq, Prod.mk.injEq] at hg
      rw [stepW_some hx, stepW_some hx', candsOf_b hg.2]
      cases mergeAll (candsOf r' props g) with
      | none => exact ⟨h1, h2⟩
      | some m =>
        simp only [mergeStep]
        rw [hg.2, h2]
        exact ⟨h1.setB g m, rfl⟩

theorem foldl_stepW_congr {t t' : Table α} (h : TEq t t') (props : List (Gr × Bounds α)) :
    ∀ (l : List Gr) {acc acc' : Table α × α}, TEq acc.1 acc'.1 → acc.2 = acc'.2 →
      TEq (l.foldl (stepW t props) acc).1 (l.foldl (stepW t' props) acc').1 ∧
        (l.foldl (stepW t props) acc).2 = (l.foldl (stepW t' props) acc').2
  | [], _, _, h1, h2 => ⟨h1, h2⟩
  | g :: l, _, _, h1, h2 => by
    rw [List.foldl_cons, List.foldl_cons]
    obtain ⟨e1, e2⟩ := stepW_congr h props h1 h2 g
    exact foldl_stepW_congr h props l e1 e2

/-- THE DOWNWARD WRITE-BACK IS A FUNCTION OF THE DENOTED MAP OF THE TABLE AND OF THE SET OF
PROPOSALS: new table up to `TEq`, reported amount equal. (The amount is a sum over the DISTINCT
proposal keys of the change of that row against the ORIGINAL table, so multiplicities do not
enter.) -/
theorem writeMerged_congr {t t' : Table α} (h : TEq t t') {props props' : List (Gr × Bounds α)}
    (hset : ∀ x, x ∈ props ↔ x ∈ props') :
    TEq (writeMerged t props).1 (writeMerged t' props').1 ∧
      (writeMerged t props).2 = (writeMerged t' props').2 := by
  rw [writeMerged_set t hset, writeMerged_eq, writeMerged_eq]
  exact foldl_stepW_congr h props' _ (acc := (t, 0)) (acc' := (t', 0)) h rfl

end Write

/-! ### the downward pass of a connective -/

section DownConn
variable {ι : Type} [DecidableEq ι] {α : Type} [Field α] [LinearOrder α]

/-- the proposals of operator grounding `g` for the operand groundings `opgs` -/
def dItemOf (kb : FKB ι α) (i : ι) (s1 : FState ι α) (g : Gr) (opgs : List Gr) :
    Option (List Gr × List (Bounds α)) :=
  let bs := List.zipWith (fun j g => Table.getD (kb j).world (s1.get j) g) (kb i).ops opgs
  let ob := Table.getD (kb i).world (s1.get i) g
  if (bs.take 2).any (isContra (kb i).alpha) || isContra (kb i).alpha ob then none
  else some (opgs, fActDown (kb i) ob bs)

def downItems (kb : FKB ι α) (i : ι) (s1 : FState ι α) (ogs : List Gr) (per : List (List Gr)) :
    List (List Gr × List (Bounds α)) :=
  (List.range ogs.length).filterMap fun k => dItemOf kb i s1 (ogs.getD k []) (rowsOf per k)

/-- the proposals for operand number `p` -/
def propsAt (items : List (List Gr × List (Bounds α))) (p : Nat) : List (Gr × Bounds α) :=
  items.filterMap fun it =>
    match it.1[p]?, it.2[p]? with
    | some g, some b => some (g, b)
    | _, _ => none

def downStep (idx : Option Nat) (items : List (List Gr × List (Bounds α)))
    (acc : FState ι α × α) (p : Nat × ι) : FState ι α × α :=
  if idx = none ∨ idx = some p.1 then
    ((acc.1.set p.2 (writeMerged (acc.1.get p.2) (propsAt items p.1)).1),
      acc.2 + (writeMerged (acc.1.get p.2) (propsAt items p.1)).2)
  else acc

theorem fDownConn_eq (kb : FKB ι α) (i : ι) (idx : Option Nat) (s : FState ι α) :
    fDownConn kb i idx s =
      match groundings kb i true s with
      | (s1, none) => (s1, 0)
      | (s1, some (ogs, per)) =>
        if (downItems kb i s1 ogs per).isEmpty then (s1, 0) else
          (List.zip (List.range (kb i).ops.length) (kb i).ops).foldl
            (downStep idx (downItems kb i s1 ogs per)) (s1, 0) := rfl

theorem downItems_eq (kb : FKB ι α) (i : ι) (s1 : FState ι α) (ogs : List Gr)
    (per : List (List Gr)) (opF : Gr → List Gr)
    (hF : ∀ k < ogs.length, rowsOf per k = opF (ogs.getD k [])) :
    downItems kb i s1 ogs per = ogs.filterMap fun g => dItemOf kb i s1 g (opF g) := by
  unfold downItems
  conv_rhs => rw [← map_getD_range ogs []]
  rw [List.filterMap_map]
  apply List.filterMap_congr
  intro k hk
  simp only [Function.comp, hF k (List.mem_range.mp hk)]

theorem dItemOf_congr (kb : FKB ι α) (i : ι) {s1 s1' : FState ι α} (h : SEq s1 s1') (g : Gr)
    (o : List Gr) : dItemOf kb i s1 g o = dItemOf kb i s1' g o := by
  have e : (fun j g => Table.getD (kb j).world (s1.get j) g) =
      fun j g => Table.getD (kb j).world (s1'.get j) g := by
    funext j g
    exact (h j).getD _ _
  unfold dItemOf
  rw [e, (h i).getD]

theorem propsAt_set {items items' : List (List Gr × List (Bounds α))}
    (h : ∀ x, x ∈ items ↔ x ∈ items') (p : Nat) (x : Gr × Bounds α) :
    x ∈ propsAt items p ↔ x ∈ propsAt items' p := by
  simp only [propsAt, List.mem_filterMap, h]

theorem downStep_congr (idx : Option Nat) {items items' : List (List Gr × List (Bounds α))}
    (hset : ∀ x, x ∈ items ↔ x ∈ items') {acc acc' : FState ι α × α} (h1 : SEq acc.1 acc'.1)
    (h2 : acc.2 = acc'.2) (p : Nat × ι) :
    SEq (downStep idx items acc p).1 (downStep idx items' acc' p).1 ∧
      (downStep idx items acc p).2 = (downStep idx items' acc' p).2 := by
  unfold downStep
  split
  · obtain ⟨e1, e2⟩ := writeMerged_congr (h1 p.2) (propsAt_set hset p.1)
    exact ⟨h1.set p.2 e1, by rw [h2, e2]⟩
  · exact ⟨h1, h2⟩

theorem foldl_downStep_congr (idx : Option Nat) {items items' : List (List Gr × List (Bounds α))}
    (hset : ∀ x, x ∈ items ↔ x ∈ items') :
    ∀ (l : List (Nat × ι)) {acc acc' : FState ι α × α}, SEq acc.1 acc'.1 → acc.2 = acc'.2 →
      SEq (l.foldl (downStep idx items) acc).1 (l.foldl (downStep idx items') acc').1 ∧
        (l.foldl (downStep idx items) acc).2 = (l.foldl (downStep idx items') acc').2
  | [], _, _, h1, h2 => ⟨h1, h2⟩
  | p :: l, _, _, h1, h2 => by
    rw [List.foldl_cons, List.foldl_cons]
    obtain ⟨e1, e2⟩ := downStep_congr idx hset h1 h2 p
    exact foldl_downStep_congr idx hset l e1 e2

theorem isEmpty_of_mem_iff {A : Type} {l l' : List A} (h : ∀ x, x ∈ l ↔ x ∈ l') :
    l.isEmpty = l'.isEmpty := by
  cases l with
  | nil =>
    cases l' with
    | nil => rfl
    | cons c' _ => exact absurd ((h c').mpr List.mem_cons_self) (by simp)
  | cons c cs =>
    cases l' with
    | nil => exact absurd ((h c).mp List.mem_cons_self) (by simp)
    | cons _ _ => rfl

/-- the body of `fDownConn` after grounding management, from `SEq` states and lists of operator
groundings with the same set of elements whose operand groundings are given by one function -/
theorem down_core (kb : FKB ι α) (i : ι) (idx : Option Nat) {s1 s1' : FState ι α}
    (h1 : SEq s1 s1') {ogs ogs' : List Gr} {per per' : List (List Gr)} (opF : Gr → List Gr)
    (hF : ∀ k < ogs.length, rowsOf per k = opF (ogs.getD k []))
    (hF' : ∀ k < ogs'.length, rowsOf per' k = opF (ogs'.getD k []))
    (hset : ∀ g, g ∈ ogs ↔ g ∈ ogs') (l : List (Nat × ι)) :
    SEq (if (downItems kb i s1 ogs per).isEmpty then (s1, (0 : α)) else
          l.foldl (downStep idx (downItems kb i s1 ogs per)) (s1, 0)).1
        (if (downItems kb i s1' ogs' per').isEmpty then (s1', (0 : α)) else
          l.foldl (downStep idx (downItems kb i s1' ogs' per')) (s1', 0)).1 ∧
      (if (downItems kb i s1 ogs per).isEmpty then (s1, (0 : α)) else
          l.foldl (downStep idx (downItems kb i s1 ogs per)) (s1, 0)).2 =
        (if (downItems kb i s1' ogs' per').isEmpty then (s1', (0 : α)) else
          l.foldl (downStep idx (downItems kb i s1' ogs' per')) (s1', 0)).2 := by
  rw [downItems_eq kb i s1 ogs per opF hF, downItems_eq kb i s1' ogs' per' opF hF']
  have hG : (fun g => dItemOf kb i s1' g (opF g)) = fun g => dItemOf kb i s1 g (opF g) := by
    funext g
    exact (dItemOf_congr kb i h1 g _).symm
  rw [hG]
  have hmem : ∀ y, y ∈ ogs.filterMap (fun g => dItemOf kb i s1 g (opF g)) ↔
      y ∈ ogs'.filterMap (fun g => dItemOf kb i s1 g (opF g)) := by
    intro y
    simp only [List.mem_filterMap]
    constructor
    · rintro ⟨g, hg, e⟩; exact ⟨g, (hset g).mp hg, e⟩
    · rintro ⟨g, hg, e⟩; exact ⟨g, (hset g).mpr hg, e⟩
  rw [isEmpty_of_mem_iff hmem]
  split
  · exact ⟨h1, rfl⟩
  · exact foldl_downStep_congr idx hmem l (acc := (s1, 0)) (acc' := (s1', 0)) h1 rfl

/-- DOWNWARD INFERENCE OVER A CONNECTIVE IS ORDER-FREE: on states that denote the same finite maps
`fDownConn` produces states that denote the same finite maps and reports the same amount. Operator
groundings may be listed in different orders and with different multiplicities, several of them
may project onto the same operand row. `hslots`: the variable maps only use slots
`0 … numVars-1`. -/
theorem fDownConn_congr (kb : FKB ι α) (i : ι) (idx : Option Nat) {s s' : FState ι α}
    (h : SEq s s') (hslots : ∀ m ∈ (kb i).opmap, ∀ c ∈ m, c < numVars (kb i)) :
    SEq (fDownConn kb i idx s).1 (fDownConn kb i idx s').1 ∧
      (fDownConn kb i idx s).2 = (fDownConn kb i idx s').2 := by
  have hG := (groundings_congr kb i true h).1
  rw [fDownConn_eq, fDownConn_eq]
  cases hh : isHomogeneous (kb i) with
  | true =>
    rw [groundings_homog kb i true s hh, groundings_homog kb i true s' hh] at hG
    rw [groundings_homog kb i true s hh, groundings_homog kb i true s' hh]
    dsimp only at hG ⊢
    exact down_core kb i idx hG (homF (kb i)) (fun k _ => rowsOf_hom (kb i) _ k)
      (fun k _ => rowsOf_hom (kb i) _ k) (homGs_congr kb i true h) _
  | false =>
    rcases foldJoin_congr (relsOf_congr kb i h) with ⟨h1, h2⟩ | ⟨J, J', h1, h2, hJ⟩
    · rw [groundings_hetero_none kb i true s hh h1, groundings_hetero_none kb i true s' hh h2]
      exact ⟨h, rfl⟩
    · cases hne : J.rows.isEmpty with
      | true =>
        have hne' : J'.rows.isEmpty = true := by rw [← hJ.2.isEmpty]; exact hne
        rw [groundings_hetero_empty kb i true s hh h1 hne,
          groundings_hetero_empty kb i true s' hh h2 hne']
        exact ⟨h, rfl⟩
      | false =>
        have hne' : J'.rows.isEmpty = false := by rw [← hJ.2.isEmpty]; exact hne
        rw [groundings_hetero kb i true s hh h1 hne, groundings_hetero kb i true s' hh h2 hne']
          at hG
        rw [groundings_hetero kb i true s hh h1 hne, groundings_hetero kb i true s' hh h2 hne']
        dsimp only at hG ⊢
        exact down_core kb i idx hG (hetF (kb i)) (rowsOf_het (kb i) J hslots)
          (rowsOf_het (kb i) J' hslots) (ogsOf_congr (kb i) hJ) _

end DownConn

/-! ### tables that store each grounding once: `TEq` is "equal up to row order" -/

section Rows
variable {α : Type}

theorem isEmpty_congr {t t' : Table α} (h : TEq t t') : t.isEmpty = t'.isEmpty := by
  have e : ∀ u : Table α, u.isEmpty = u.keys.isEmpty := fun u => by cases u <;> rfl
  rw [e, e, keys_isEmpty_congr h]

theorem mem_of_TEq {t t' : Table α} (h : TEq t t') (hn : Table.NodupKeys t) {r : Row α}
    (hr : r ∈ t) : r ∈ t' := by
  have hf : Table.find? t r.g = some r := hn.find?_of_mem hr
  have hg := h r.g
  unfold Table.denote at hg
  rw [hf] at hg
  cases hx' : Table.find? t' r.g with
  | none => rw [hx'] at hg; cases hg
  | some r' =>
    rw [hx'] at hg
    simp only [Option.map_some, Option.some.injEq, Prod.mk.injEq] at hg
    have hk := find?_key hx'
    have e : r' = r := by
      cases r; cases r'
      simp only at hk hg
      simp [hk, hg.1, hg.2]
    rw [← e]
    exact List.mem_of_find?_eq_some hx'

/-- two duplicate-free tables that denote the same map are permutations of each other -/
theorem perm_of_TEq {t t' : Table α} (h : TEq t t') (hn : Table.NodupKeys t)
    (hn' : Table.NodupKeys t') : t.Perm t' := by
  classical
  have nd : t.Nodup := List.Nodup.of_map (fun r : Row α => r.g) hn
  have nd' : t'.Nodup := List.Nodup.of_map (fun r : Row α => r.g) hn'
  exact (List.perm_ext_iff_of_nodup nd nd').mpr
    fun r => ⟨mem_of_TEq h hn, mem_of_TEq h.symm hn'⟩

/-- … in particular they have the same number of rows -/
theorem length_of_TEq {t t' : Table α} (h : TEq t t') (hn : Table.NodupKeys t)
    (hn' : Table.NodupKeys t') : t.length = t'.length :=
  (perm_of_TEq h hn hn').length_eq

end Rows

/-! ### the quantifier activations are symmetric in their instances -/

section QuantArith
variable {α : Type} [Field α] [LinearOrder α]

theorem andUp_perm (b : α) {ops ops' : List (Opd α)} (h : ops.Perm ops') :
    andUp b ops = andUp b ops' := by
  unfold andUp
  rw [(h.map termLo).sum_eq, (h.map termHi).sum_eq]

theorem orUp_perm (tr : Bool) (b : α) {ops ops' : List (Opd α)} (h : ops.Perm ops') :
    orUp tr b ops = orUp tr b ops' := by
  simp only [orUp, (h.map (fun o : Opd α => min o.w 0)).sum_eq,
    (h.map (fun o : Opd α => o.w * o.lo)).sum_eq, (h.map (fun o : Opd α => o.w * o.hi)).sum_eq]

/-- the upward activation of a quantifier does not depend on the order of the instances -/
theorem qUp_perm (isAll : Bool) {bs bs' : List (Bounds α)} (h : bs.Perm bs') :
    qUp isAll bs = qUp isAll bs' := by
  have hu : (unitOpds bs).Perm (unitOpds bs') := h.map _
  unfold qUp
  rw [andUp_perm 1 hu, orUp_perm true 1 hu]

/-- the And inverse for ONE operand `o` among the operands `ops` -/
def andDownAt (b alpha L U : α) (ops : List (Opd α)) (o : Opd α) : Bounds α :=
  let fL := L + (if L ≤ 0 then b - sumW ops else 0)
  let fU := U + (if 1 ≤ U then b - 1 else 0)
  let sLo := (ops.map termLo).sum
  let sHi := (ops.map termHi).sum
  if o.w = 0 then ⟨0, 1⟩ else
    let wc := max o.w 0
    let lo := if 1 - alpha < L then clamp01 (1 + (fL - b + (sHi - termHi o)) / wc) else 0
    let hi := if U < alpha then clamp01 (1 + (fU - b + (sLo - termLo o)) / wc) else 1
    ⟨lo, hi⟩

theorem andDown_eq (b alpha L U : α) (ops : List (Opd α)) :
    andDown b alpha L U ops = ops.map (andDownAt b alpha L U ops) := rfl

/-- the other operands enter only through three sums -/
theorem andDownAt_perm (b alpha L U : α) {ops ops' : List (Opd α)} (h : ops.Perm ops') :
    andDownAt b alpha L U ops = andDownAt b alpha L U ops' := by
  have e1 : sumW ops = sumW ops' := by unfold sumW; exact (h.map _).sum_eq
  have e2 : (ops.map termLo).sum = (ops'.map termLo).sum := (h.map _).sum_eq
  have e3 : (ops.map termHi).sum = (ops'.map termHi).sum := (h.map _).sum_eq
  funext o
  simp only [andDownAt, e1, e2, e3]

def mkU (b : Bounds α) : Opd α := ⟨1, b.lo, b.hi⟩

theorem unitOpds_eq (bs : List (Bounds α)) : unitOpds bs = bs.map mkU := rfl

/-- the downward proposal of a quantifier for ONE instance `b` among the instances `bs` -/
def qDownF (isAll : Bool) (self : Bounds α) (bs : List (Bounds α)) (b : Bounds α) : Bounds α :=
  if isAll then andDownAt 1 1 self.lo self.hi (unitOpds bs) (mkU b)
  else negB (andDownAt 1 1 (1 - self.hi) (1 - self.lo) ((unitOpds bs).map Opd.neg) (Opd.neg (mkU b)))

theorem qDown_eq (isAll : Bool) (self : Bounds α) (bs : List (Bounds α)) :
    qDown isAll self bs = bs.map (qDownF isAll self bs) := by
  cases isAll with
  | true =>
    simp only [qDown, if_true, andDown_eq, unitOpds_eq, List.map_map]
    rfl
  | false =>
    simp only [qDown, Bool.false_eq_true, if_false, orDown, andDown_eq, unitOpds_eq,
      List.map_map]
    apply List.map_congr_left
    intro b _
    simp only [Function.comp, qDownF, Bool.false_eq_true, if_false, unitOpds_eq, List.map_map]

theorem qDownF_perm (isAll : Bool) (self : Bounds α) {bs bs' : List (Bounds α)}
    (h : bs.Perm bs') : qDownF isAll self bs = qDownF isAll self bs' := by
  have hu : (unitOpds bs).Perm (unitOpds bs') := h.map _
  funext b
  unfold qDownF
  rw [andDownAt_perm 1 1 self.lo self.hi hu,
    andDownAt_perm 1 1 (1 - self.hi) (1 - self.lo) (hu.map Opd.neg)]

end QuantArith

/-! ### aggregation with an arbitrary bound selector -/

section StepS
variable {α : Type} [Field α] [LinearOrder α]

/-- the step of the aggregation fold of `fUpQuant` -/
def stepS (sel : BoundSel) (acc : Table α × α) (it : Gr × Bounds α) : Table α × α :=
  ((aggRow acc.1 it.1 sel it.2).1, acc.2 + (aggRow acc.1 it.1 sel it.2).2)

theorem stepS_comm (sel : BoundSel) {x y : Gr × Bounds α} (h : x.1 ≠ y.1) (z : Table α × α) :
    stepS sel (stepS sel z x) y = stepS sel (stepS sel z y) x := by
  obtain ⟨e1, e2, e3⟩ := aggRow_comm z.1 h sel x.2 y.2
  simp only [stepS]
  rw [e1, e2, e3, add_right_comm]

theorem foldl_stepS_congr (sel : BoundSel) :
    ∀ (l : List (Gr × Bounds α)) {z z' : Table α × α}, TEq z.1 z'.1 → z.2 = z'.2 →
      TEq (l.foldl (stepS sel) z).1 (l.foldl (stepS sel) z').1 ∧
        (l.foldl (stepS sel) z).2 = (l.foldl (stepS sel) z').2
  | [], _, _, h1, h2 => ⟨h1, h2⟩
  | x :: l, z, z', h1, h2 => by
    rw [List.foldl_cons, List.foldl_cons]
    obtain ⟨e1, e2⟩ := aggRow_congr h1 x.1 sel x.2
    exact foldl_stepS_congr sel l (z := stepS sel z x) (z' := stepS sel z' x) e1
      (by simp only [stepS, e2, h2])

/-- a fold of `aggRow` over pairwise different groundings with proposals given by a function of
the grounding: only the set of groundings and the denoted start table matter -/
theorem foldl_quant_congr (sel : BoundSel) {ks ks' : List Gr} (hk : ks.Perm ks')
    {P P' : Gr → Bounds α} (hP : ∀ k, P k = P' k) {t0 t0' : Table α} (ht : TEq t0 t0') :
    TEq (ks.foldl (fun (acc : Table α × α) k => stepS sel acc (k, P k)) (t0, 0)).1
        (ks'.foldl (fun (acc : Table α × α) k => stepS sel acc (k, P' k)) (t0', 0)).1 ∧
      (ks.foldl (fun (acc : Table α × α) k => stepS sel acc (k, P k)) (t0, 0)).2 =
        (ks'.foldl (fun (acc : Table α × α) k => stepS sel acc (k, P' k)) (t0', 0)).2 := by
  have e : P' = P := (funext hP).symm
  subst e
  have hm : ∀ (l : List Gr) (z : Table α × α),
      l.foldl (fun (acc : Table α × α) k => stepS sel acc (k, P' k)) z =
        (l.map fun k => (k, P' k)).foldl (stepS sel) z := by
    intro l z
    rw [List.foldl_map]
  rw [hm, hm]
  have hp : (ks.map fun k => (k, P' k)).Perm (ks'.map fun k => (k, P' k)) := hk.map _
  have hcomm : ∀ x ∈ ks.map (fun k => (k, P' k)), ∀ y ∈ ks.map (fun k => (k, P' k)),
      ∀ z : Table α × α, stepS sel (stepS sel z x) y = stepS sel (stepS sel z y) x := by
    intro x hx y hy z
    obtain ⟨gx, _, rfl⟩ := List.mem_map.mp hx
    obtain ⟨gy, _, rfl⟩ := List.mem_map.mp hy
    by_cases hxy : gx = gy
    · rw [hxy]
    · exact stepS_comm sel hxy z
  rw [hp.foldl_eq' hcomm]
  exact foldl_stepS_congr sel _ ht rfl

end StepS

/-! ### the quantifiers -/

section Quant
variable {ι : Type} [DecidableEq ι] {α : Type} [Field α] [LinearOrder α]

/-- the working bounds of the instances of group `k` -/
def instOf (n : FNode ι α) (rows : Table α) (k : Gr) : List (Bounds α) :=
  (rows.filter fun r => groupKey n.free r.g == k).map (·.b)

/-- the groups: the groundings of the free variables, in order of first occurrence -/
def quantKeys (n : FNode ι α) (rows : Table α) : List Gr :=
  dedupKeepFirst (rows.map fun r => groupKey n.free r.g)

theorem mem_quantKeys {n : FNode ι α} {rows : Table α} {k : Gr} :
    k ∈ quantKeys n rows ↔ ∃ r ∈ rows, groupKey n.free r.g = k := by
  unfold quantKeys
  rw [mem_dedupKeepFirst, List.mem_map]

theorem quantKeys_set (n : FNode ι α) {rows rows' : Table α} (h : rows.Perm rows') (k : Gr) :
    k ∈ quantKeys n rows ↔ k ∈ quantKeys n rows' := by
  rw [mem_quantKeys, mem_quantKeys]
  constructor
  · rintro ⟨r, hr, e⟩; exact ⟨r, h.mem_iff.mp hr, e⟩
  · rintro ⟨r, hr, e⟩; exact ⟨r, h.mem_iff.mpr hr, e⟩

theorem quantKeys_perm (n : FNode ι α) {rows rows' : Table α} (h : rows.Perm rows') :
    (quantKeys n rows).Perm (quantKeys n rows') := by
  have hs := quantKeys_set n h
  unfold quantKeys at hs ⊢
  rw [List.perm_ext_iff_of_nodup (nodup_dedupKeepFirst _) (nodup_dedupKeepFirst _)]
  exact hs

theorem instOf_perm (n : FNode ι α) {rows rows' : Table α} (h : rows.Perm rows') (k : Gr) :
    (instOf n rows k).Perm (instOf n rows' k) :=
  (h.filter _).map _

theorem fUpQuant_eq (kb : FKB ι α) (i : ι) (s : FState ι α) :
    fUpQuant kb i s =
      match (kb i).ops with
      | [] => (s, 0)
      | j :: _ =>
        if (s.get j).isEmpty then (s, 0) else
          (s.set i (((quantKeys (kb i) (s.get j)).foldl (fun (acc : Table α × α) k =>
              stepS (qSel (kb i)) acc (k, qUp ((kb i).kind = .all) (instOf (kb i) (s.get j) k)))
              (Table.addg (kb i).world (s.get i) (quantKeys (kb i) (s.get j)), 0)).1),
            ((quantKeys (kb i) (s.get j)).foldl (fun (acc : Table α × α) k =>
              stepS (qSel (kb i)) acc (k, qUp ((kb i).kind = .all) (instOf (kb i) (s.get j) k)))
              (Table.addg (kb i).world (s.get i) (quantKeys (kb i) (s.get j)), 0)).2) := rfl

/-- `_Quantifier.upward` IS ORDER-FREE on states whose operand table stores each grounding once.
(Without `hn`, `hn'` the statement is false: see `quant_counterexample`.) -/
theorem fUpQuant_congr (kb : FKB ι α) (i : ι) {s s' : FState ι α} (h : SEq s s')
    (hn : ∀ j ∈ (kb i).ops, Table.NodupKeys (s.get j))
    (hn' : ∀ j ∈ (kb i).ops, Table.NodupKeys (s'.get j)) :
    SEq (fUpQuant kb i s).1 (fUpQuant kb i s').1 ∧ (fUpQuant kb i s).2 = (fUpQuant kb i s').2 := by
  rw [fUpQuant_eq, fUpQuant_eq]
  cases hops : (kb i).ops with
  | nil => exact ⟨h, rfl⟩
  | cons j _ =>
    have hp : (s.get j).Perm (s'.get j) :=
      perm_of_TEq (h j) (hn j (by rw [hops]; exact List.mem_cons_self))
        (hn' j (by rw [hops]; exact List.mem_cons_self))
    simp only [isEmpty_congr (h j)]
    split
    · exact ⟨h, rfl⟩
    · obtain ⟨e1, e2⟩ := foldl_quant_congr (qSel (kb i)) (quantKeys_perm (kb i) hp)
        (P := fun k => qUp ((kb i).kind = .all) (instOf (kb i) (s.get j) k))
        (P' := fun k => qUp ((kb i).kind = .all) (instOf (kb i) (s'.get j) k))
        (fun k => qUp_perm _ (instOf_perm (kb i) hp k))
        ((h i).addg (kb i).world (quantKeys_set (kb i) hp))
      exact ⟨h.set i e1, e2⟩

/-- all downward proposals of a quantifier -/
def qDownProps (n : FNode ι α) (rows ti : Table α) : List (Gr × Bounds α) :=
  (quantKeys n rows).flatMap fun k =>
    List.zip ((rows.filter fun r => groupKey n.free r.g == k).map (·.g))
      (qDown (n.kind = .all) (Table.getD n.world ti k)
        ((rows.filter fun r => groupKey n.free r.g == k).map (·.b)))

theorem fDownQuant_eq (kb : FKB ι α) (i : ι) (s : FState ι α) :
    fDownQuant kb i s =
      match (kb i).ops with
      | [] => (s, 0)
      | j :: _ =>
        if (s.get j).isEmpty then (s, 0) else
          ((s.set i (Table.addg (kb i).world (s.get i) (quantKeys (kb i) (s.get j)))).set j
            ((qDownProps (kb i) (s.get j)
                (Table.addg (kb i).world (s.get i) (quantKeys (kb i) (s.get j)))).foldl stepA
              ((s.set i (Table.addg (kb i).world (s.get i) (quantKeys (kb i) (s.get j)))).get j,
                0)).1,
            ((qDownProps (kb i) (s.get j)
                (Table.addg (kb i).world (s.get i) (quantKeys (kb i) (s.get j)))).foldl stepA
              ((s.set i (Table.addg (kb i).world (s.get i) (quantKeys (kb i) (s.get j)))).get j,
                0)).2) := rfl

/-- the proposal for the instance stored in row `r` -/
def qDownItem (n : FNode ι α) (rows ti : Table α) (r : Row α) : Gr × Bounds α :=
  (r.g, qDownF (n.kind = .all) (Table.getD n.world ti (groupKey n.free r.g))
    (instOf n rows (groupKey n.free r.g)) r.b)

theorem zip_qDown (isAll : Bool) (self : Bounds α) (grp : List (Row α)) :
    List.zip (grp.map (·.g)) (qDown isAll self (grp.map (·.b))) =
      grp.map fun r => (r.g, qDownF isAll self (grp.map (·.b)) r.b) := by
  rw [qDown_eq, List.map_map, List.zip_map']
  rfl

theorem mem_qDownProps {n : FNode ι α} {rows ti : Table α} {x : Gr × Bounds α} :
    x ∈ qDownProps n rows ti ↔ ∃ r ∈ rows, qDownItem n rows ti r = x := by
  unfold qDownProps
  simp only [List.mem_flatMap, zip_qDown, List.mem_map, List.mem_filter]
  constructor
  · rintro ⟨k, _, r, ⟨hr, hk⟩, e⟩
    have hk' : groupKey n.free r.g = k := by simpa using hk
    subst hk'
    exact ⟨r, hr, e⟩
  · rintro ⟨r, hr, e⟩
    exact ⟨groupKey n.free r.g, mem_quantKeys.mpr ⟨r, hr, rfl⟩, r, ⟨hr, by simp⟩, e⟩

theorem qDownProps_fun {n : FNode ι α} {rows ti : Table α} (hn : Table.NodupKeys rows) :
    ∀ x ∈ qDownProps n rows ti, ∀ y ∈ qDownProps n rows ti, x.1 = y.1 → x = y := by
  intro x hx y hy hxy
  obtain ⟨r, hr, rfl⟩ := mem_qDownProps.mp hx
  obtain ⟨r', hr', rfl⟩ := mem_qDownProps.mp hy
  have e : r.g = r'.g := hxy
  have h1 := hn.find?_of_mem hr
  have h2 := hn.find?_of_mem hr'
  rw [e, h2] at h1
  rw [Option.some.inj h1]

theorem qDownItem_congr (n : FNode ι α) {rows rows' ti ti' : Table α} (hp : rows.Perm rows')
    (ht : TEq ti ti') (r : Row α) : qDownItem n rows ti r = qDownItem n rows' ti' r := by
  unfold qDownItem
  rw [ht.getD, qDownF_perm _ _ (instOf_perm n hp _)]

theorem qDownProps_set (n : FNode ι α) {rows rows' ti ti' : Table α} (hp : rows.Perm rows')
    (ht : TEq ti ti') (x : Gr × Bounds α) :
    x ∈ qDownProps n rows ti ↔ x ∈ qDownProps n rows' ti' := by
  rw [mem_qDownProps, mem_qDownProps]
  constructor
  · rintro ⟨r, hr, e⟩; exact ⟨r, hp.mem_iff.mp hr, by rw [← qDownItem_congr n hp ht]; exact e⟩
  · rintro ⟨r, hr, e⟩; exact ⟨r, hp.mem_iff.mpr hr, by rw [qDownItem_congr n hp ht]; exact e⟩

variable [IsStrictOrderedRing α]

/-- `_Quantifier.downward` IS ORDER-FREE on states whose operand table stores each grounding once.
(Without `hn`, `hn'` the statement is false: see `quant_counterexample`.) -/
theorem fDownQuant_congr (kb : FKB ι α) (i : ι) {s s' : FState ι α} (h : SEq s s')
    (hn : ∀ j ∈ (kb i).ops, Table.NodupKeys (s.get j))
    (hn' : ∀ j ∈ (kb i).ops, Table.NodupKeys (s'.get j)) :
    SEq (fDownQuant kb i s).1 (fDownQuant kb i s').1 ∧
      (fDownQuant kb i s).2 = (fDownQuant kb i s').2 := by
  rw [fDownQuant_eq, fDownQuant_eq]
  cases hops : (kb i).ops with
  | nil => exact ⟨h, rfl⟩
  | cons j _ =>
    have hj := hn j (by rw [hops]; exact List.mem_cons_self)
    have hp : (s.get j).Perm (s'.get j) :=
      perm_of_TEq (h j) hj (hn' j (by rw [hops]; exact List.mem_cons_self))
    simp only [isEmpty_congr (h j)]
    split
    · exact ⟨h, rfl⟩
    · have ht : TEq (Table.addg (kb i).world (s.get i) (quantKeys (kb i) (s.get j)))
          (Table.addg (kb i).world (s'.get i) (quantKeys (kb i) (s'.get j))) :=
        (h i).addg (kb i).world (quantKeys_set (kb i) hp)
      have h0 := h.set i ht
      rw [foldl_stepA_set (qDownProps_fun hj) (qDownProps_set (kb i) hp ht)]
      obtain ⟨e1, e2⟩ := foldl_stepA_congr
        (qDownProps (kb i) (s'.get j)
          (Table.addg (kb i).world (s'.get i) (quantKeys (kb i) (s'.get j))))
        (z := ((s.set i (Table.addg (kb i).world (s.get i) (quantKeys (kb i) (s.get j)))).get j,
          0))
        (z' := ((s'.set i (Table.addg (kb i).world (s'.get i)
          (quantKeys (kb i) (s'.get j)))).get j, 0))
        (h0 j) rfl
      exact ⟨h0.set j e1, e2⟩

end Quant

/-! ### node-level dispatch, call lists, `fInfer` -/

section Engine
variable {ι : Type} [DecidableEq ι] {α : Type} [Field α] [LinearOrder α] [IsStrictOrderedRing α]

open FolFix

/-- well-formedness of the knowledge base: the variable maps of every connective only use the
slots `0 … numVars-1` -/
def KBSlots (kb : FKB ι α) : Prop := ∀ i, ∀ m ∈ (kb i).opmap, ∀ c ∈ m, c < numVars (kb i)

theorem fUp_congr (kb : FKB ι α) (hs : KBSlots kb) (i : ι) {s s' : FState ι α} (h : SEq s s')
    (hn : SNodup s) (hn' : SNodup s') :
    SEq (fUp kb i s).1 (fUp kb i s').1 ∧ (fUp kb i s).2 = (fUp kb i s').2 := by
  have hq := fUpQuant_congr kb i h (fun j _ => hn j) (fun j _ => hn' j)
  have hc := fUpConn_congr kb i h (hs i)
  unfold fUp
  cases hk : (kb i).kind
  case pred => exact ⟨h, rfl⟩
  case neg => exact fUpNot_congr kb i h
  case all => exact hq
  case ex => exact hq
  case and => exact hc
  case or => exact hc
  case implies => exact hc

theorem fDown_congr (kb : FKB ι α) (hs : KBSlots kb) (i : ι) (idx : Option Nat)
    {s s' : FState ι α} (h : SEq s s') (hn : SNodup s) (hn' : SNodup s') :
    SEq (fDown kb i idx s).1 (fDown kb i idx s').1 ∧ (fDown kb i idx s).2 = (fDown kb i idx s').2 := by
  have hq := fDownQuant_congr kb i h (fun j _ => hn j) (fun j _ => hn' j)
  have hc := fDownConn_congr kb i idx h (hs i)
  unfold fDown
  cases hk : (kb i).kind
  case pred => exact ⟨h, rfl⟩
  case neg => exact fDownNot_congr kb i h
  case all => exact hq
  case ex => exact hq
  case and => exact hc
  case or => exact hc
  case implies => exact hc

/-- EVERY CALL OF THE ENGINE IS ORDER-FREE -/
theorem runFCall_congr (kb : FKB ι α) (hs : KBSlots kb) (c : FCall ι) {s s' : FState ι α}
    (h : SEq s s') (hn : SNodup s) (hn' : SNodup s') :
    SEq (runFCall kb c s).1 (runFCall kb c s').1 ∧ (runFCall kb c s).2 = (runFCall kb c s').2 := by
  cases c with
  | up i => exact fUp_congr kb hs i h hn hn'
  | down i idx => exact fDown_congr kb hs i idx h hn hn'

/-- … hence every list of calls -/
theorem runFCalls_congr (kb : FKB ι α) (hs : KBSlots kb) :
    ∀ (cs : List (FCall ι)) {s s' : FState ι α}, SEq s s' → SNodup s → SNodup s' →
      SEq (runFCalls kb cs s).1 (runFCalls kb cs s').1 ∧
        (runFCalls kb cs s).2 = (runFCalls kb cs s').2
  | [], _, _, h, _, _ => ⟨h, rfl⟩
  | c :: rest, s, s', h, hn, hn' => by
    obtain ⟨e1, e2⟩ := runFCall_congr kb hs c h hn hn'
    obtain ⟨f1, f2⟩ := runFCalls_congr kb hs rest e1 (runFCall_snodup kb s c hn)
      (runFCall_snodup kb s' c hn')
    simp only [runFCalls]
    exact ⟨f1, by rw [e2, f2]⟩

/-- `Model.shape[1]` is a function of the denoted maps, on states that store each grounding once -/
theorem nGroundings_congr (nodes : List ι) {s s' : FState ι α} (h : SEq s s') (hn : SNodup s)
    (hn' : SNodup s') : nGroundings nodes s = nGroundings nodes s' := by
  unfold nGroundings
  congr 1
  apply List.map_congr_left
  intro i _
  exact length_of_TEq (h i) (hn i) (hn' i)

theorem fInfer_succ (kb : FKB ι α) (nodes : List ι) (up down : List (FCall ι)) (eps : α)
    (fuel : Nat) (s : FState ι α) :
    fInfer kb nodes up down eps (fuel + 1) s =
      if (runFCalls kb up s).2 + (runFCalls kb down (runFCalls kb up s).1).2 ≤ eps ∧
          nGroundings nodes (runFCalls kb down (runFCalls kb up s).1).1 = nGroundings nodes s then
        ⟨(runFCalls kb down (runFCalls kb up s).1).1, 1,
          (runFCalls kb up s).2 + (runFCalls kb down (runFCalls kb up s).1).2, true⟩
      else
        ⟨(fInfer kb nodes up down eps fuel (runFCalls kb down (runFCalls kb up s).1).1).state,
          (fInfer kb nodes up down eps fuel (runFCalls kb down (runFCalls kb up s).1).1).steps + 1,
          (runFCalls kb up s).2 + (runFCalls kb down (runFCalls kb up s).1).2 +
            (fInfer kb nodes up down eps fuel (runFCalls kb down (runFCalls kb up s).1).1).total,
          (fInfer kb nodes up down eps fuel
            (runFCalls kb down (runFCalls kb up s).1).1).converged⟩ := rfl

/-- THE WHOLE INFERENCE LOOP IS ORDER-FREE: from states that denote the same finite maps (and store
each grounding once) `fInfer` takes the same number of sweeps, reports the same total amount and
the same convergence flag, and returns states that denote the same finite maps. -/
theorem fInfer_congr (kb : FKB ι α) (hs : KBSlots kb) (nodes : List ι) (up down : List (FCall ι))
    (eps : α) :
    ∀ (fuel : Nat) {s s' : FState ι α}, SEq s s' → SNodup s → SNodup s' →
      SEq (fInfer kb nodes up down eps fuel s).state (fInfer kb nodes up down eps fuel s').state ∧
        (fInfer kb nodes up down eps fuel s).steps = (fInfer kb nodes up down eps fuel s').steps ∧
        (fInfer kb nodes up down eps fuel s).total = (fInfer kb nodes up down eps fuel s').total ∧
        (fInfer kb nodes up down eps fuel s).converged =
          (fInfer kb nodes up down eps fuel s').converged
  | 0, _, _, h, _, _ => ⟨h, rfl, rfl, rfl⟩
  | fuel + 1, s, s', h, hn, hn' => by
    obtain ⟨u1, u2⟩ := runFCalls_congr kb hs up h hn hn'
    have un := runFCalls_snodup kb s up hn
    have un' := runFCalls_snodup kb s' up hn'
    obtain ⟨d1, d2⟩ := runFCalls_congr kb hs down u1 un un'
    have dn := runFCalls_snodup kb _ down un
    have dn' := runFCalls_snodup kb _ down un'
    have g0 := nGroundings_congr nodes h hn hn'
    have g1 := nGroundings_congr nodes d1 dn dn'
    obtain ⟨r1, r2, r3, r4⟩ := fInfer_congr kb hs nodes up down eps fuel d1 dn dn'
    rw [fInfer_succ, fInfer_succ]
    by_cases c : (runFCalls kb up s).2 + (runFCalls kb down (runFCalls kb up s).1).2 ≤ eps ∧
        nGroundings nodes (runFCalls kb down (runFCalls kb up s).1).1 = nGroundings nodes s
    · have c' : (runFCalls kb up s').2 + (runFCalls kb down (runFCalls kb up s').1).2 ≤ eps ∧
          nGroundings nodes (runFCalls kb down (runFCalls kb up s').1).1 =
            nGroundings nodes s' := by
        rw [← u2, ← d2, ← g0, ← g1]; exact c
      rw [if_pos c, if_pos c']
      exact ⟨d1, rfl, by rw [u2, d2], rfl⟩
    · have c' : ¬ ((runFCalls kb up s').2 + (runFCalls kb down (runFCalls kb up s').1).2 ≤ eps ∧
          nGroundings nodes (runFCalls kb down (runFCalls kb up s').1).1 =
            nGroundings nodes s') := by
        rw [← u2, ← d2, ← g0, ← g1]; exact c
      rw [if_neg c, if_neg c']
      exact ⟨r1, by rw [r2], by rw [u2, d2, r3], r4⟩

end Engine

/-! ### FINDING: without "each grounding stored once" the quantifiers are NOT functions of the
denoted maps -/

/-- `∀x. P(x)` as node 1 over the predicate 0 -/
def cxKB : FKB Nat ℚ := fun i =>
  match i with
  | 1 => { kind := .all, ops := [0], bias := 1, alpha := 1, world := ⟨0, 1⟩ }
  | _ => { kind := .pred, bias := 1, alpha := 1, world := ⟨0, 1⟩ }

/-- table 0 stores the grounding `[0]` TWICE (never produced by the engine); the second row is
invisible in the denoted map … -/
def cxS : FState Nat ℚ :=
  ⟨[(0, [⟨[0], ⟨1/2, 1⟩, ⟨1/2, 1⟩⟩, ⟨[0], ⟨0, 1/4⟩, ⟨0, 1/4⟩⟩]),
    (1, [⟨[], ⟨0, 1/2⟩, ⟨0, 1/2⟩⟩])]⟩

/-- … so this state denotes the same maps -/
def cxS' : FState Nat ℚ :=
  ⟨[(0, [⟨[0], ⟨1/2, 1⟩, ⟨1/2, 1⟩⟩]), (1, [⟨[], ⟨0, 1/2⟩, ⟨0, 1/2⟩⟩])]⟩

theorem cx_SEq : SEq cxS cxS' := by
  intro j
  by_cases h0 : j = 0
  · subst h0
    intro g
    show Table.denote [_, _] g = Table.denote [_] g
    rw [denote_cons, denote_cons, denote_cons]
    split <;> rfl
  · by_cases h1 : j = 1
    · subst h1
      exact TEq.refl _
    · have e : cxS.get j = [] := by
        simp [FState.get, cxS, Ne.symm h0, Ne.symm h1]
      have e' : cxS'.get j = [] := by
        simp [FState.get, cxS', Ne.symm h0, Ne.symm h1]
      rw [e, e']
      exact TEq.refl _

#eval ((fUpQuant cxKB 1 cxS).2, (fUpQuant cxKB 1 cxS').2,
  (fDownQuant cxKB 1 cxS).2, (fDownQuant cxKB 1 cxS').2)
#eval (Table.getD ⟨0, 1⟩ ((fUpQuant cxKB 1 cxS).1.get 1) [],
  Table.getD ⟨0, 1⟩ ((fUpQuant cxKB 1 cxS').1.get 1) [])
#eval (Table.getD ⟨0, 1⟩ ((fDownQuant cxKB 1 cxS).1.get 0) [0],
  Table.getD ⟨0, 1⟩ ((fDownQuant cxKB 1 cxS').1.get 0) [0])

/-- THE QUANTIFIER CALLS SEE SHADOWED DUPLICATE ROWS: the two states denote the same maps, but the
reported amounts (and the resulting bounds) differ, upward and downward. The hypotheses `hn`, `hn'`
of `fUpQuant_congr` / `fDownQuant_congr` cannot be dropped. -/
theorem quant_counterexample :
    SEq cxS cxS' ∧
      (fUpQuant cxKB 1 cxS).2 = 1/4 ∧ (fUpQuant cxKB 1 cxS').2 = 0 ∧
      (fDownQuant cxKB 1 cxS).2 = 0 ∧ (fDownQuant cxKB 1 cxS').2 = 1/2 := by
  refine ⟨cx_SEq, ?_, ?_, ?_, ?_⟩ <;> decide +kernel

/-! ### non-vacuity: two row orders, one result -/

/-- `c10KB` (And(P(x,y), Q(y,z)) = node 2 over the predicates 0, 1) plus `∃z. And(…)` = node 3 with
free variables `x, y` -/
def exKB : FKB Nat ℚ := fun i =>
  match i with
  | 3 => { kind := .ex, ops := [2], bias := 1, alpha := 1, world := ⟨0, 1⟩, free := [0, 1] }
  | _ => c10KB i

theorem exKB_slots : KBSlots exKB := by
  intro i
  unfold exKB
  split
  · intro m hm; simp at hm
  · unfold c10KB
    split
    · decide
    · intro m hm; simp at hm

open FolFix in
theorem c10S_snodup : SNodup c10S ∧ SNodup c10S' := by
  constructor <;> intro j
  · by_cases h0 : j = 0
    · subst h0; show (Table.keys _).Nodup; decide
    · by_cases h1 : j = 1
      · subst h1; show (Table.keys _).Nodup; decide
      · have e : c10S.get j = [] := by simp [FState.get, c10S, Ne.symm h0, Ne.symm h1]
        rw [e]; exact List.nodup_nil
  · by_cases h0 : j = 0
    · subst h0; show (Table.keys _).Nodup; decide
    · by_cases h1 : j = 1
      · subst h1; show (Table.keys _).Nodup; decide
      · have e : c10S'.get j = [] := by simp [FState.get, c10S', Ne.symm h0, Ne.symm h1]
        rw [e]; exact List.nodup_nil

def exCalls : List (FCall Nat) := [.up 2, .up 3, .down 3 none, .down 2 none, .down 2 (some 1)]

/-- the same facts stored in two row orders: a call list with upward and downward calls over a
join connective and a partially quantified Exists gives the same maps and the same amount -/
example : SEq (runFCalls exKB exCalls c10S).1 (runFCalls exKB exCalls c10S').1 ∧
    (runFCalls exKB exCalls c10S).2 = (runFCalls exKB exCalls c10S').2 :=
  runFCalls_congr exKB exKB_slots exCalls c10S_SEq c10S_snodup.1 c10S_snodup.2

/-- a single downward call over the join connective (no `SNodup` needed) -/
example : SEq (fDownConn exKB 2 none c10S).1 (fDownConn exKB 2 none c10S').1 ∧
    (fDownConn exKB 2 none c10S).2 = (fDownConn exKB 2 none c10S').2 :=
  fDownConn_congr exKB 2 none c10S_SEq (exKB_slots 2)

/-- the whole inference loop -/
example : SEq (fInfer exKB [0, 1, 2, 3] [.up 2, .up 3] [.down 3 none, .down 2 none] 0 5 c10S).state
      (fInfer exKB [0, 1, 2, 3] [.up 2, .up 3] [.down 3 none, .down 2 none] 0 5 c10S').state ∧
    (fInfer exKB [0, 1, 2, 3] [.up 2, .up 3] [.down 3 none, .down 2 none] 0 5 c10S).steps =
      (fInfer exKB [0, 1, 2, 3] [.up 2, .up 3] [.down 3 none, .down 2 none] 0 5 c10S').steps ∧
    (fInfer exKB [0, 1, 2, 3] [.up 2, .up 3] [.down 3 none, .down 2 none] 0 5 c10S).total =
      (fInfer exKB [0, 1, 2, 3] [.up 2, .up 3] [.down 3 none, .down 2 none] 0 5 c10S').total ∧
    (fInfer exKB [0, 1, 2, 3] [.up 2, .up 3] [.down 3 none, .down 2 none] 0 5 c10S).converged =
      (fInfer exKB [0, 1, 2, 3] [.up 2, .up 3] [.down 3 none, .down 2 none] 0 5 c10S').converged :=
  fInfer_congr exKB exKB_slots _ _ _ _ 5 c10S_SEq c10S_snodup.1 c10S_snodup.2

-- the example is not trivial: the calls do something, and the stored row orders differ
#eval ((runFCalls exKB exCalls c10S).2, (runFCalls exKB exCalls c10S').2,
  ((runFCalls exKB exCalls c10S).1.get 2).keys, ((runFCalls exKB exCalls c10S').1.get 2).keys,
  ((runFCalls exKB exCalls c10S).1.get 3).keys, ((runFCalls exKB exCalls c10S').1.get 3).keys)

end FolCongr
end LNN
