/-
`reset_bounds()` AFTER ANY FIRST-ORDER INFERENCE returns every grounding of every formula to exactly
its DATA.

* tables: the DATA of a grounding is the leaf of its row or, if it is not stored, the world default
  (`tdata`); `Table.setB` never changes it, and neither does `Table.addg` AT THAT WORLD DEFAULT (the
  row it creates carries the default as leaf); `Table.resetBounds` makes every query return it;
* `FolFix.Ev` allows row creation at an arbitrary default, so it is refined here to `EvW w t t'`
  (rows are created at exactly `w`); `SEvW kb s s'`: the table of every formula `k` evolved by
  overwriting working bounds and creating rows at `(kb k).world`;
* ONE induction principle for every way the model runs inference (`fUp`, `fDown`, the restricted
  `fUpConnR` / `fDownConnR`, `propagateQ`, `pUp`, `pDown`, `pUpR`, `pDownR`, lists of calls, `fInfer`,
  `pInfer`, `pInferQ`): whatever is true of every table and is preserved by `setB` and by `addg` at the
  table's own world default is true afterwards (`*_induct`);
* hence `SEvW` for all of them, hence inference never changes the data of any grounding
  (`dataOf_*`; a row inference CREATES has its formula's world default as data), hence
  `reset_bounds()` after inference reads exactly as `reset_bounds()` before it
  (`reset_after_inference` and its variants): nothing an inference pass proved survives, for stored,
  created and absent groundings alike.

No hypothesis about the knowledge base, the state, the calls or their order is needed.
Everything lives in the namespace `LNN.FolReset`.
-/
import LnnVerif.Model.Fol
import LnnVerif.Model.FolPend
import LnnVerif.Lemmas.TableLemmas
import LnnVerif.Lemmas.FolSound
import LnnVerif.Lemmas.FolFix
import LnnVerif.Lemmas.PendLemmas
import LnnVerif.Lemmas.FolRestrict
import Mathlib.Algebra.Order.Field.Rat

set_option linter.unusedSectionVars false

namespace LNN
namespace FolReset

/-! ## 1. tables (no arithmetic) -/

section plain

variable {α : Type}

/-- the data of grounding `g` in a table: the leaf of its row, or the world default `w` if it is
not stored -/
def tdata (w : Bounds α) (t : Table α) (g : Gr) : Bounds α :=
  ((Table.find? t g).map (·.leaf)).getD w

theorem tdata_of_some {w : Bounds α} {t : Table α} {g : Gr} {r : Row α}
    (h : Table.find? t g = some r) : tdata w t g = r.leaf := by
  unfold tdata; rw [h]; rfl

theorem tdata_of_none {w : Bounds α} {t : Table α} {g : Gr}
    (h : Table.find? t g = none) : tdata w t g = w := by
  unfold tdata; rw [h]; rfl

/-- overwriting a working bound never changes the data -/
theorem tdata_setB (w : Bounds α) (t : Table α) (g : Gr) (b : Bounds α) (g' : Gr) :
    tdata w (Table.setB t g b) g' = tdata w t g' := by
  unfold tdata; rw [Table.leaf_setB]

/-- creating rows AT THE SAME DEFAULT never changes the data: a created row has the default as leaf,
which is what the absent grounding had as data -/
theorem tdata_addg (w : Bounds α) (t : Table α) (gs : List Gr) (g' : Gr) :
    tdata w (Table.addg w t gs) g' = tdata w t g' := by
  unfold tdata
  rw [Table.find?_addg]
  cases Table.find? t g' with
  | some r => rfl
  | none => simp only; split_ifs <;> rfl

/-- `reset_bounds()` keeps the data -/
theorem tdata_resetBounds (w : Bounds α) (t : Table α) (g : Gr) :
    tdata w (Table.resetBounds t) g = tdata w t g := by
  unfold tdata
  rw [Table.find?_resetBounds, Option.map_map]
  rfl

/-- after `reset_bounds()` every query returns the data -/
theorem getD_resetBounds (w : Bounds α) (t : Table α) (g : Gr) :
    Table.getD w (Table.resetBounds t) g = tdata w t g := by
  unfold Table.getD tdata
  rw [Table.find?_resetBounds]
  cases Table.find? t g <;> rfl

theorem resetBounds_resetBounds (t : Table α) :
    Table.resetBounds (Table.resetBounds t) = Table.resetBounds t := by
  unfold Table.resetBounds
  rw [List.map_map]
  rfl

theorem resetBounds_setB (t : Table α) (g : Gr) (b : Bounds α) :
    Table.resetBounds (Table.setB t g b) = Table.resetBounds t := by
  unfold Table.resetBounds Table.setB
  rw [List.map_map]
  apply List.map_congr_left
  intro r _
  simp only [Function.comp]
  split <;> rfl

theorem resetBounds_append (t u : Table α) :
    Table.resetBounds (t ++ u) = Table.resetBounds t ++ Table.resetBounds u := by
  unfold Table.resetBounds
  rw [List.map_append]

/-- `EvW w t t'`: `t'` comes from `t` by overwriting working bounds and creating rows AT THE DEFAULT
`w` (the refinement of `FolFix.Ev`, whose `addg` allows any default) -/
inductive EvW (w : Bounds α) : Table α → Table α → Prop
  | refl (t : Table α) : EvW w t t
  | setB {t u : Table α} (g : Gr) (b : Bounds α) : EvW w t u → EvW w t (Table.setB u g b)
  | addg {t u : Table α} (gs : List Gr) : EvW w t u → EvW w t (Table.addg w u gs)

theorem EvW.trans {w : Bounds α} {t u v : Table α} (h1 : EvW w t u) (h2 : EvW w u v) :
    EvW w t v := by
  induction h2 with
  | refl => exact h1
  | setB g b _ ih => exact EvW.setB g b ih
  | addg gs _ ih => exact EvW.addg gs ih

/-- it is an evolution in the sense of `FolFix` (so: no table gets shorter, the stored groundings and
leaves stay where they are, `NodupKeys` is kept, …) -/
theorem EvW.toEv {w : Bounds α} {t u : Table α} (h : EvW w t u) : FolFix.Ev t u := by
  induction h with
  | refl => exact FolFix.Ev.refl _
  | setB g b _ ih => exact FolFix.Ev.setB g b ih
  | addg gs _ ih => exact FolFix.Ev.addg w gs ih

/-- the data of EVERY grounding — stored before, created on the way, or still absent — is what it
was -/
theorem EvW.tdata {w : Bounds α} {t u : Table α} (h : EvW w t u) (g : Gr) :
    tdata w u g = tdata w t g := by
  induction h with
  | refl => rfl
  | setB g' b _ ih => rw [tdata_setB, ih]
  | addg gs _ ih => rw [tdata_addg, ih]

/-- a stored row keeps its leaf -/
theorem EvW.leaf_of_stored {w : Bounds α} {t u : Table α} (h : EvW w t u) {g : Gr} {r r' : Row α}
    (hr : Table.find? t g = some r) (hr' : Table.find? u g = some r') : r'.leaf = r.leaf := by
  have := h.tdata g
  rwa [tdata_of_some hr, tdata_of_some hr'] at this

/-- a row that was created on the way has the default as leaf -/
theorem EvW.leaf_of_created {w : Bounds α} {t u : Table α} (h : EvW w t u) {g : Gr} {r' : Row α}
    (hr : Table.find? t g = none) (hr' : Table.find? u g = some r') : r'.leaf = w := by
  have := h.tdata g
  rwa [tdata_of_none hr, tdata_of_some hr'] at this

/-- `reset_bounds()` after the evolution reads as `reset_bounds()` before it -/
theorem EvW.getD_resetBounds {w : Bounds α} {t u : Table α} (h : EvW w t u) (g : Gr) :
    Table.getD w (Table.resetBounds u) g = Table.getD w (Table.resetBounds t) g := by
  rw [FolReset.getD_resetBounds, FolReset.getD_resetBounds, h.tdata]

/-- the table itself: `reset_bounds()` after the evolution is `reset_bounds()` before it followed by
the created rows, each at the default in leaf and working bound -/
theorem EvW.resetBounds_eq {w : Bounds α} {t u : Table α} (h : EvW w t u) :
    ∃ ex : Table α, Table.resetBounds u = Table.resetBounds t ++ ex ∧
      ∀ r ∈ ex, r = ⟨r.g, w, w⟩ := by
  induction h with
  | refl => exact ⟨[], by simp, by simp⟩
  | setB g b _ ih => rw [resetBounds_setB]; exact ih
  | @addg u' gs _ ih =>
    obtain ⟨ex, h1, h2⟩ := ih
    obtain ⟨ex', e1, e2, _⟩ := Table.addg_eq_append w u' gs
    refine ⟨ex ++ Table.resetBounds ex', ?_, ?_⟩
    · rw [e1, resetBounds_append, h1, List.append_assoc]
    · intro r hr
      rcases List.mem_append.mp hr with hr | hr
      · exact h2 r hr
      · unfold Table.resetBounds at hr
        obtain ⟨r0, hr0, rfl⟩ := List.mem_map.mp hr
        have := (e2 r0 hr0).1
        rw [this]

end plain

variable {ι : Type} [DecidableEq ι] {α : Type} [Field α] [LinearOrder α] [IsStrictOrderedRing α]

/-! ## 2. `reset_bounds()` on every formula, the data of a grounding -/

/-- `reset_bounds()` on every formula -/
def resetAll (s : FState ι α) : FState ι α := ⟨s.tabs.map fun p => (p.1, p.2.resetBounds)⟩

/-- the data of grounding `g` of formula `i`: its leaf, or the world default if it is not stored -/
def dataOf (kb : FKB ι α) (s : FState ι α) (i : ι) (g : Gr) : Bounds α :=
  ((Table.find? (s.get i) g).map (·.leaf)).getD (kb i).world

theorem dataOf_eq_tdata (kb : FKB ι α) (s : FState ι α) (i : ι) (g : Gr) :
    dataOf kb s i g = tdata (kb i).world (s.get i) g := rfl

theorem resetAll_get (s : FState ι α) (i : ι) : (resetAll s).get i = (s.get i).resetBounds := by
  obtain ⟨tabs⟩ := s
  unfold resetAll FState.get
  simp only
  induction tabs with
  | nil => rfl
  | cons p ps ih =>
    rw [List.map_cons, List.find?_cons, List.find?_cons]
    by_cases e : p.1 = i
    · simp [e]
    · simp only [e, decide_false]
      exact ih

/-- a stored grounding has its leaf as data -/
theorem dataOf_of_some {kb : FKB ι α} {s : FState ι α} {i : ι} {g : Gr} {r : Row α}
    (h : Table.find? (s.get i) g = some r) : dataOf kb s i g = r.leaf := tdata_of_some h

/-- a grounding that is not stored has the world default of its formula as data -/
theorem dataOf_of_none {kb : FKB ι α} {s : FState ι α} {i : ι} {g : Gr}
    (h : Table.find? (s.get i) g = none) : dataOf kb s i g = (kb i).world := tdata_of_none h

/-- **2.** after `reset_bounds()` every query returns the data -/
theorem reset_reads_data (kb : FKB ι α) (s : FState ι α) (i : ι) (g : Gr) :
    Table.getD (kb i).world ((resetAll s).get i) g = dataOf kb s i g := by
  rw [resetAll_get, getD_resetBounds]
  rfl

/-- **4.** `reset_bounds()` keeps the data … -/
theorem dataOf_resetAll (kb : FKB ι α) (s : FState ι α) (i : ι) (g : Gr) :
    dataOf kb (resetAll s) i g = dataOf kb s i g := by
  rw [dataOf_eq_tdata, dataOf_eq_tdata, resetAll_get, tdata_resetBounds]

/-- … and is idempotent -/
theorem reset_idempotent (s : FState ι α) (i : ι) :
    (resetAll (resetAll s)).get i = (resetAll s).get i := by
  rw [resetAll_get, resetAll_get, resetBounds_resetBounds]

/-- the row `reset_bounds()` leaves for a stored grounding: leaf and working bound are the leaf -/
theorem resetAll_find? (s : FState ι α) (i : ι) (g : Gr) :
    Table.find? ((resetAll s).get i) g =
      (Table.find? (s.get i) g).map fun r => ⟨r.g, r.leaf, r.leaf⟩ := by
  rw [resetAll_get, Table.find?_resetBounds]

/-! ## 3. one induction principle for every way the model runs inference -/

/-- writing one table -/
theorem set_induct {P : ι → Table α → Prop} {s : FState ι α} (h : ∀ j, P j (s.get j)) (i : ι)
    {t : Table α} (ht : P i t) : ∀ j, P j ((s.set i t).get j) := by
  intro j
  rw [FState.get_set]
  split
  · next e => subst e; exact ht
  · exact h j

section induct

variable (kb : FKB ι α) (P : ι → Table α → Prop)
  (hadd : ∀ j t gs, P j t → P j (Table.addg (kb j).world t gs))
  (hset : ∀ j t g b, P j t → P j (Table.setB t g b))
include hadd hset

theorem fUpConnR_induct (i : ι) (restrict : Option (List Gr)) (s : FState ι α)
    (h : ∀ j, P j (s.get j)) : ∀ j, P j ((fUpConnR kb i restrict s).1.get j) :=
  FolRestrict.fUpConnR_induct kb i restrict s P hset
    (FolRestrict.groundingsR_induct kb P hadd i false restrict s h)

theorem fDownConnR_induct (i : ι) (idx : Option Nat) (restrict : Option (List Gr))
    (s : FState ι α) (h : ∀ j, P j (s.get j)) :
    ∀ j, P j ((fDownConnR kb i idx restrict s).1.get j) :=
  FolRestrict.fDownConnR_induct kb i idx restrict s P hset
    (FolRestrict.groundingsR_induct kb P hadd i true restrict s h)

theorem fUpConn_induct (i : ι) (s : FState ι α) (h : ∀ j, P j (s.get j)) :
    ∀ j, P j ((fUpConn kb i s).1.get j) := by
  rw [← fUpConnR_none]
  exact fUpConnR_induct kb P hadd hset i none s h

theorem fDownConn_induct (i : ι) (idx : Option Nat) (s : FState ι α) (h : ∀ j, P j (s.get j)) :
    ∀ j, P j ((fDownConn kb i idx s).1.get j) := by
  rw [← fDownConnR_none]
  exact fDownConnR_induct kb P hadd hset i idx none s h

theorem fUpNot_induct (i : ι) (s : FState ι α) (h : ∀ j, P j (s.get j)) :
    ∀ j, P j ((fUpNot kb i s).1.get j) := by
  unfold fUpNot
  split
  · exact h
  next j rest hops =>
    simp only
    split
    · exact h
    · apply set_induct h
      apply FolSound.foldl_inv (fun acc : Table α × α => P i acc.1) _ _ _ (hadd i _ _ (h i))
      intro acc hacc x _
      exact Table.aggRow_induct (P i) (hset i) _ _ _ _ hacc

theorem fDownNot_induct (i : ι) (s : FState ι α) (h : ∀ j, P j (s.get j)) :
    ∀ j, P j ((fDownNot kb i s).1.get j) := by
  unfold fDownNot
  split
  · exact h
  next j rest hops =>
    simp only
    split
    · exact h
    · apply set_induct h
      apply FolSound.foldl_inv (fun acc : Table α × α => P j acc.1) _ _ _ (hadd j _ _ (h j))
      intro acc hacc x _
      exact Table.aggRow_induct (P j) (hset j) _ _ _ _ hacc

theorem fUpQuant_induct (i : ι) (s : FState ι α) (h : ∀ j, P j (s.get j)) :
    ∀ j, P j ((fUpQuant kb i s).1.get j) := by
  unfold fUpQuant
  simp only
  split
  · exact h
  next j rest hops =>
    split
    · exact h
    · apply set_induct h
      apply FolSound.foldl_inv (fun acc : Table α × α => P i acc.1) _ _ _ (hadd i _ _ (h i))
      intro acc hacc x _
      exact Table.aggRow_induct (P i) (hset i) _ _ _ _ hacc

theorem fDownQuant_induct (i : ι) (s : FState ι α) (h : ∀ j, P j (s.get j)) :
    ∀ j, P j ((fDownQuant kb i s).1.get j) := by
  unfold fDownQuant
  simp only
  split
  · exact h
  next j rest hops =>
    split
    · exact h
    · have h0 := set_induct h i (hadd i _
        (dedupKeepFirst ((s.get j).map fun r => groupKey (kb i).free r.g)) (h i))
      apply set_induct h0
      apply FolSound.foldl_inv (fun acc : Table α × α => P j acc.1) _ _ _ (h0 j)
      intro acc hacc x _
      exact Table.aggRow_induct (P j) (hset j) _ _ _ _ hacc

theorem fUp_induct (i : ι) (s : FState ι α) (h : ∀ j, P j (s.get j)) :
    ∀ j, P j ((fUp kb i s).1.get j) := by
  unfold fUp
  split
  · exact h
  · exact fUpNot_induct kb P hadd hset i s h
  · exact fUpQuant_induct kb P hadd hset i s h
  · exact fUpQuant_induct kb P hadd hset i s h
  · exact fUpConn_induct kb P hadd hset i s h

theorem fDown_induct (i : ι) (idx : Option Nat) (s : FState ι α) (h : ∀ j, P j (s.get j)) :
    ∀ j, P j ((fDown kb i idx s).1.get j) := by
  unfold fDown
  split
  · exact h
  · exact fDownNot_induct kb P hadd hset i s h
  · exact fDownQuant_induct kb P hadd hset i s h
  · exact fDownQuant_induct kb P hadd hset i s h
  · exact fDownConn_induct kb P hadd hset i idx s h

theorem runFCall_induct (c : FCall ι) (s : FState ι α) (h : ∀ j, P j (s.get j)) :
    ∀ j, P j ((runFCall kb c s).1.get j) := by
  cases c with
  | up i => exact fUp_induct kb P hadd hset i s h
  | down i idx => exact fDown_induct kb P hadd hset i idx s h

theorem runFCalls_induct (cs : List (FCall ι)) (s : FState ι α) (h : ∀ j, P j (s.get j)) :
    ∀ j, P j ((runFCalls kb cs s).1.get j) := by
  induction cs generalizing s with
  | nil => exact h
  | cons c rest ih => exact ih _ (runFCall_induct kb P hadd hset c s h)

theorem fInfer_induct (nodes : List ι) (up down : List (FCall ι)) (eps : α) (fuel : Nat)
    (s : FState ι α) (h : ∀ j, P j (s.get j)) :
    ∀ j, P j ((fInfer kb nodes up down eps fuel s).state.get j) := by
  induction fuel generalizing s with
  | zero => exact h
  | succ n ih =>
    have h2 := runFCalls_induct kb P hadd hset down _ (runFCalls_induct kb P hadd hset up s h)
    simp only [fInfer]
    split_ifs
    · exact h2
    · exact ih _ h2

/-! ### the layer of pending groundings, the restricted calls -/

theorem propagateQ_induct (i : ι) (p : PState ι α) (h : ∀ j, P j (p.st.get j)) :
    ∀ j, P j ((propagateQ kb i p).st.get j) := by
  intro j
  obtain ⟨gs, e⟩ := propagateQ_get kb i p j
  rw [e]
  split_ifs
  · exact hadd j _ gs (h j)
  · exact h j

theorem preDown_induct (i : ι) (p : PState ι α) (h : ∀ j, P j (p.st.get j)) :
    ∀ j, P j ((preDown kb i p).st.get j) := by
  unfold preDown
  split_ifs
  · split
    · split_ifs
      · exact h
      · exact propagateQ_induct kb P hadd hset i p h
    · exact h
  · exact h

theorem pUp_induct (i : ι) (p : PState ι α) (h : ∀ j, P j (p.st.get j)) :
    ∀ j, P j ((pUp kb i p).1.st.get j) := by
  rw [(pUp_st kb i p).1]
  exact fUp_induct kb P hadd hset i p.st h

theorem pDown_induct (i : ι) (idx : Option Nat) (p : PState ι α) (h : ∀ j, P j (p.st.get j)) :
    ∀ j, P j ((pDown kb i idx p).1.st.get j) := by
  rw [(pDown_st kb i idx p).1]
  exact fDown_induct kb P hadd hset i idx _ (preDown_induct kb P hadd hset i p h)

theorem pUpR_induct (i : ι) (restrict : Option (List Gr)) (p : PState ι α)
    (h : ∀ j, P j (p.st.get j)) : ∀ j, P j ((pUpR kb i restrict p).1.st.get j) := by
  rw [FolRestrict.pUpR_st]
  split
  · exact fUpConnR_induct kb P hadd hset i restrict p.st h
  · exact pUp_induct kb P hadd hset i p h

theorem pDownR_induct (i : ι) (idx : Option Nat) (restrict : Option (List Gr)) (p : PState ι α)
    (h : ∀ j, P j (p.st.get j)) : ∀ j, P j ((pDownR kb i idx restrict p).1.st.get j) := by
  rw [FolRestrict.pDownR_st]
  split
  · exact fDownConnR_induct kb P hadd hset i idx restrict p.st h
  · exact pDown_induct kb P hadd hset i idx p h

theorem runPCall_induct (c : FCall ι) (p : PState ι α) (h : ∀ j, P j (p.st.get j)) :
    ∀ j, P j ((runPCall kb c p).1.st.get j) := by
  cases c with
  | up i => exact pUp_induct kb P hadd hset i p h
  | down i idx => exact pDown_induct kb P hadd hset i idx p h

theorem runPCalls_induct (cs : List (FCall ι)) (p : PState ι α) (h : ∀ j, P j (p.st.get j)) :
    ∀ j, P j ((runPCalls kb cs p).1.st.get j) := by
  induction cs generalizing p with
  | nil => exact h
  | cons c rest ih => exact ih _ (runPCall_induct kb P hadd hset c p h)

theorem pInferQ_induct (nodes : List ι) (up down : List (FCall ι)) (eps : α) (query : Option ι)
    (fuel : Nat) (p : PState ι α) (h : ∀ j, P j (p.st.get j)) :
    ∀ j, P j ((pInferQ kb nodes up down eps query fuel p).state.st.get j) := by
  induction fuel generalizing p with
  | zero => exact h
  | succ n ih =>
    have h2 := runPCalls_induct kb P hadd hset down _ (runPCalls_induct kb P hadd hset up p h)
    simp only [pInferQ]
    split_ifs
    · exact h
    · exact h2
    · exact ih _ h2

theorem pInfer_induct (nodes : List ι) (up down : List (FCall ι)) (eps : α)
    (fuel : Nat) (p : PState ι α) (h : ∀ j, P j (p.st.get j)) :
    ∀ j, P j ((pInfer kb nodes up down eps fuel p).state.st.get j) := by
  rw [← pInferQ_none]
  exact pInferQ_induct kb P hadd hset nodes up down eps none fuel p h

end induct

/-! ## 4. every kind of inference only overwrites working bounds and creates rows at the world
default of the formula that receives them -/

/-- the table of every formula `k` of `s'` evolved from that of `s` by overwriting working bounds
and creating rows at `(kb k).world` -/
def SEvW (kb : FKB ι α) (s s' : FState ι α) : Prop := ∀ k, EvW (kb k).world (s.get k) (s'.get k)

theorem SEvW.refl (kb : FKB ι α) (s : FState ι α) : SEvW kb s s := fun _ => EvW.refl _

theorem SEvW.trans {kb : FKB ι α} {s t u : FState ι α} (h1 : SEvW kb s t) (h2 : SEvW kb t u) :
    SEvW kb s u := fun k => (h1 k).trans (h2 k)

theorem SEvW.toSEv {kb : FKB ι α} {s s' : FState ι α} (h : SEvW kb s s') : FolFix.SEv s s' :=
  fun k => (h k).toEv

/-- the data of every grounding of every formula is what it was -/
theorem SEvW.dataOf {kb : FKB ι α} {s s' : FState ι α} (h : SEvW kb s s') (i : ι) (g : Gr) :
    dataOf kb s' i g = dataOf kb s i g := (h i).tdata g

/-- a row that was created on the way has the world default of its formula as leaf -/
theorem SEvW.leaf_of_created {kb : FKB ι α} {s s' : FState ι α} (h : SEvW kb s s') {i : ι}
    {g : Gr} {r : Row α} (hn : Table.find? (s.get i) g = none)
    (hr : Table.find? (s'.get i) g = some r) : r.leaf = (kb i).world :=
  (h i).leaf_of_created hn hr

/-- a stored row keeps its leaf -/
theorem SEvW.leaf_of_stored {kb : FKB ι α} {s s' : FState ι α} (h : SEvW kb s s') {i : ι}
    {g : Gr} {r r' : Row α} (hs : Table.find? (s.get i) g = some r)
    (hr : Table.find? (s'.get i) g = some r') : r'.leaf = r.leaf :=
  (h i).leaf_of_stored hs hr

/-- `reset_bounds()` after reads as `reset_bounds()` before -/
theorem SEvW.reset_read {kb : FKB ι α} {s s' : FState ι α} (h : SEvW kb s s') (i : ι) (g : Gr) :
    Table.getD (kb i).world ((resetAll s').get i) g =
      Table.getD (kb i).world ((resetAll s).get i) g := by
  rw [reset_reads_data, reset_reads_data, h.dataOf]

/-- the tables: `reset_bounds()` after is `reset_bounds()` before, followed by the rows that were
created, each at the world default of its formula in leaf and working bound -/
theorem SEvW.reset_tables {kb : FKB ι α} {s s' : FState ι α} (h : SEvW kb s s') (i : ι) :
    ∃ ex : Table α, (resetAll s').get i = (resetAll s).get i ++ ex ∧
      ∀ r ∈ ex, r = ⟨r.g, (kb i).world, (kb i).world⟩ := by
  rw [resetAll_get, resetAll_get]
  exact (h i).resetBounds_eq

section sevw

variable (kb : FKB ι α)

/-- the two closure properties the induction principle asks for -/
private theorem evw_add (s : FState ι α) :
    ∀ j t gs, EvW (kb j).world (s.get j) t → EvW (kb j).world (s.get j) (Table.addg (kb j).world t gs) :=
  fun _ _ gs h => EvW.addg gs h

private theorem evw_set (s : FState ι α) :
    ∀ j t g b, EvW (kb j).world (s.get j) t → EvW (kb j).world (s.get j) (Table.setB t g b) :=
  fun _ _ g b h => EvW.setB g b h

theorem sevW_fUp (i : ι) (s : FState ι α) : SEvW kb s (fUp kb i s).1 :=
  fUp_induct kb _ (evw_add kb s) (evw_set kb s) i s (SEvW.refl kb s)

theorem sevW_fDown (i : ι) (idx : Option Nat) (s : FState ι α) : SEvW kb s (fDown kb i idx s).1 :=
  fDown_induct kb _ (evw_add kb s) (evw_set kb s) i idx s (SEvW.refl kb s)

theorem sevW_fUpConnR (i : ι) (restrict : Option (List Gr)) (s : FState ι α) :
    SEvW kb s (fUpConnR kb i restrict s).1 :=
  fUpConnR_induct kb _ (evw_add kb s) (evw_set kb s) i restrict s (SEvW.refl kb s)

theorem sevW_fDownConnR (i : ι) (idx : Option Nat) (restrict : Option (List Gr)) (s : FState ι α) :
    SEvW kb s (fDownConnR kb i idx restrict s).1 :=
  fDownConnR_induct kb _ (evw_add kb s) (evw_set kb s) i idx restrict s (SEvW.refl kb s)

theorem sevW_runFCall (c : FCall ι) (s : FState ι α) : SEvW kb s (runFCall kb c s).1 :=
  runFCall_induct kb _ (evw_add kb s) (evw_set kb s) c s (SEvW.refl kb s)

theorem sevW_runFCalls (cs : List (FCall ι)) (s : FState ι α) : SEvW kb s (runFCalls kb cs s).1 :=
  runFCalls_induct kb _ (evw_add kb s) (evw_set kb s) cs s (SEvW.refl kb s)

theorem sevW_fInfer (nodes : List ι) (up down : List (FCall ι)) (eps : α) (fuel : Nat)
    (s : FState ι α) : SEvW kb s (fInfer kb nodes up down eps fuel s).state :=
  fInfer_induct kb _ (evw_add kb s) (evw_set kb s) nodes up down eps fuel s (SEvW.refl kb s)

theorem sevW_propagateQ (i : ι) (p : PState ι α) : SEvW kb p.st (propagateQ kb i p).st :=
  propagateQ_induct kb _ (evw_add kb p.st) (evw_set kb p.st) i p (SEvW.refl kb p.st)

theorem sevW_pUp (i : ι) (p : PState ι α) : SEvW kb p.st (pUp kb i p).1.st :=
  pUp_induct kb _ (evw_add kb p.st) (evw_set kb p.st) i p (SEvW.refl kb p.st)

theorem sevW_pDown (i : ι) (idx : Option Nat) (p : PState ι α) :
    SEvW kb p.st (pDown kb i idx p).1.st :=
  pDown_induct kb _ (evw_add kb p.st) (evw_set kb p.st) i idx p (SEvW.refl kb p.st)

theorem sevW_pUpR (i : ι) (restrict : Option (List Gr)) (p : PState ι α) :
    SEvW kb p.st (pUpR kb i restrict p).1.st :=
  pUpR_induct kb _ (evw_add kb p.st) (evw_set kb p.st) i restrict p (SEvW.refl kb p.st)

theorem sevW_pDownR (i : ι) (idx : Option Nat) (restrict : Option (List Gr)) (p : PState ι α) :
    SEvW kb p.st (pDownR kb i idx restrict p).1.st :=
  pDownR_induct kb _ (evw_add kb p.st) (evw_set kb p.st) i idx restrict p (SEvW.refl kb p.st)

theorem sevW_runPCall (c : FCall ι) (p : PState ι α) : SEvW kb p.st (runPCall kb c p).1.st :=
  runPCall_induct kb _ (evw_add kb p.st) (evw_set kb p.st) c p (SEvW.refl kb p.st)

theorem sevW_runPCalls (cs : List (FCall ι)) (p : PState ι α) :
    SEvW kb p.st (runPCalls kb cs p).1.st :=
  runPCalls_induct kb _ (evw_add kb p.st) (evw_set kb p.st) cs p (SEvW.refl kb p.st)

theorem sevW_pInferQ (nodes : List ι) (up down : List (FCall ι)) (eps : α) (query : Option ι)
    (fuel : Nat) (p : PState ι α) :
    SEvW kb p.st (pInferQ kb nodes up down eps query fuel p).state.st :=
  pInferQ_induct kb _ (evw_add kb p.st) (evw_set kb p.st) nodes up down eps query fuel p
    (SEvW.refl kb p.st)

theorem sevW_pInfer (nodes : List ι) (up down : List (FCall ι)) (eps : α) (fuel : Nat)
    (p : PState ι α) : SEvW kb p.st (pInfer kb nodes up down eps fuel p).state.st :=
  pInfer_induct kb _ (evw_add kb p.st) (evw_set kb p.st) nodes up down eps fuel p
    (SEvW.refl kb p.st)

/-- any sequence of inference calls of any kind (plain, layered, restricted to given groundings), in
any order -/
inductive Infers : PState ι α → PState ι α → Prop
  | refl (p : PState ι α) : Infers p p
  | call {p q : PState ι α} (c : FCall ι) : Infers p q → Infers p (runPCall kb c q).1
  | upR {p q : PState ι α} (i : ι) (restrict : Option (List Gr)) :
      Infers p q → Infers p (pUpR kb i restrict q).1
  | downR {p q : PState ι α} (i : ι) (idx : Option Nat) (restrict : Option (List Gr)) :
      Infers p q → Infers p (pDownR kb i idx restrict q).1

theorem sevW_infers {p q : PState ι α} (h : Infers kb p q) : SEvW kb p.st q.st := by
  induction h with
  | refl => exact SEvW.refl kb _
  | call c _ ih => exact ih.trans (sevW_runPCall kb c _)
  | upR i restrict _ ih => exact ih.trans (sevW_pUpR kb i restrict _)
  | downR i idx restrict _ ih => exact ih.trans (sevW_pDownR kb i idx restrict _)

theorem infers_runPCalls (cs : List (FCall ι)) {p q : PState ι α} (h : Infers kb p q) :
    Infers kb p (runPCalls kb cs q).1 := by
  induction cs generalizing q with
  | nil => exact h
  | cons c rest ih => exact ih (Infers.call c h)

end sevw

/-! ## 5. **1.** inference never touches the data

For every grounding `g` of every formula `i` — stored, created by the call, or absent before and
after. In particular the data of a row a call CREATES is the world default of its formula
(`dataOf_of_none` for the state before the call; `created_leaf`). -/

section data

variable (kb : FKB ι α) (i : ι) (g : Gr)

theorem dataOf_call (c : FCall ι) (s : FState ι α) :
    dataOf kb (runFCall kb c s).1 i g = dataOf kb s i g := (sevW_runFCall kb c s).dataOf i g

theorem dataOf_fUp (k : ι) (s : FState ι α) :
    dataOf kb (fUp kb k s).1 i g = dataOf kb s i g := (sevW_fUp kb k s).dataOf i g

theorem dataOf_fDown (k : ι) (idx : Option Nat) (s : FState ι α) :
    dataOf kb (fDown kb k idx s).1 i g = dataOf kb s i g := (sevW_fDown kb k idx s).dataOf i g

theorem dataOf_runFCalls (cs : List (FCall ι)) (s : FState ι α) :
    dataOf kb (runFCalls kb cs s).1 i g = dataOf kb s i g := (sevW_runFCalls kb cs s).dataOf i g

theorem dataOf_fInfer (nodes : List ι) (up down : List (FCall ι)) (eps : α) (fuel : Nat)
    (s : FState ι α) :
    dataOf kb (fInfer kb nodes up down eps fuel s).state i g = dataOf kb s i g :=
  (sevW_fInfer kb nodes up down eps fuel s).dataOf i g

theorem dataOf_fUpConnR (k : ι) (restrict : Option (List Gr)) (s : FState ι α) :
    dataOf kb (fUpConnR kb k restrict s).1 i g = dataOf kb s i g :=
  (sevW_fUpConnR kb k restrict s).dataOf i g

theorem dataOf_fDownConnR (k : ι) (idx : Option Nat) (restrict : Option (List Gr))
    (s : FState ι α) :
    dataOf kb (fDownConnR kb k idx restrict s).1 i g = dataOf kb s i g :=
  (sevW_fDownConnR kb k idx restrict s).dataOf i g

theorem dataOf_propagateQ (k : ι) (p : PState ι α) :
    dataOf kb (propagateQ kb k p).st i g = dataOf kb p.st i g :=
  (sevW_propagateQ kb k p).dataOf i g

theorem dataOf_runPCall (c : FCall ι) (p : PState ι α) :
    dataOf kb (runPCall kb c p).1.st i g = dataOf kb p.st i g := (sevW_runPCall kb c p).dataOf i g

theorem dataOf_runPCalls (cs : List (FCall ι)) (p : PState ι α) :
    dataOf kb (runPCalls kb cs p).1.st i g = dataOf kb p.st i g :=
  (sevW_runPCalls kb cs p).dataOf i g

theorem dataOf_pInferQ (nodes : List ι) (up down : List (FCall ι)) (eps : α) (query : Option ι)
    (fuel : Nat) (p : PState ι α) :
    dataOf kb (pInferQ kb nodes up down eps query fuel p).state.st i g = dataOf kb p.st i g :=
  (sevW_pInferQ kb nodes up down eps query fuel p).dataOf i g

theorem dataOf_pInfer (nodes : List ι) (up down : List (FCall ι)) (eps : α) (fuel : Nat)
    (p : PState ι α) :
    dataOf kb (pInfer kb nodes up down eps fuel p).state.st i g = dataOf kb p.st i g :=
  (sevW_pInfer kb nodes up down eps fuel p).dataOf i g

theorem dataOf_pUpR (k : ι) (restrict : Option (List Gr)) (p : PState ι α) :
    dataOf kb (pUpR kb k restrict p).1.st i g = dataOf kb p.st i g :=
  (sevW_pUpR kb k restrict p).dataOf i g

theorem dataOf_pDownR (k : ι) (idx : Option Nat) (restrict : Option (List Gr)) (p : PState ι α) :
    dataOf kb (pDownR kb k idx restrict p).1.st i g = dataOf kb p.st i g :=
  (sevW_pDownR kb k idx restrict p).dataOf i g

theorem dataOf_infers {p q : PState ι α} (h : Infers kb p q) :
    dataOf kb q.st i g = dataOf kb p.st i g := (sevW_infers kb h).dataOf i g

/-- the row a call CREATES (absent before, stored after) has the world default of its formula as
leaf, i.e. as data -/
theorem created_leaf (c : FCall ι) (p : PState ι α) {r : Row α}
    (hn : Table.find? (p.st.get i) g = none)
    (hr : Table.find? ((runPCall kb c p).1.st.get i) g = some r) : r.leaf = (kb i).world :=
  (sevW_runPCall kb c p).leaf_of_created hn hr

/-- … and so for any sequence of calls of any kind -/
theorem created_leaf_infers {p q : PState ι α} (h : Infers kb p q) {r : Row α}
    (hn : Table.find? (p.st.get i) g = none)
    (hr : Table.find? (q.st.get i) g = some r) : r.leaf = (kb i).world :=
  (sevW_infers kb h).leaf_of_created hn hr

/-- a stored row keeps its leaf through any sequence of calls of any kind -/
theorem stored_leaf_infers {p q : PState ι α} (h : Infers kb p q) {r r' : Row α}
    (hs : Table.find? (p.st.get i) g = some r)
    (hr : Table.find? (q.st.get i) g = some r') : r'.leaf = r.leaf :=
  (sevW_infers kb h).leaf_of_stored hs hr

end data

/-! ## 6. **3.** MAIN: `reset_bounds()` after any inference reads as `reset_bounds()` before it -/

section main

variable (kb : FKB ι α) (i : ι) (g : Gr)

/-- MAIN: for every list of calls, every grounding (stored, created by the calls, or absent) of
every formula -/
theorem reset_after_inference (cs : List (FCall ι)) (p : PState ι α) :
    Table.getD (kb i).world ((resetAll (runPCalls kb cs p).1.st).get i) g =
      Table.getD (kb i).world ((resetAll p.st).get i) g :=
  (sevW_runPCalls kb cs p).reset_read i g

/-- … it reads the data the state had before the calls -/
theorem reset_after_inference_data (cs : List (FCall ι)) (p : PState ι α) :
    Table.getD (kb i).world ((resetAll (runPCalls kb cs p).1.st).get i) g = dataOf kb p.st i g := by
  rw [reset_after_inference, reset_reads_data]

theorem reset_after_runPCall (c : FCall ι) (p : PState ι α) :
    Table.getD (kb i).world ((resetAll (runPCall kb c p).1.st).get i) g =
      Table.getD (kb i).world ((resetAll p.st).get i) g :=
  (sevW_runPCall kb c p).reset_read i g

/-- MAIN for `infer_query` / `infer`, with any arguments -/
theorem reset_after_pInferQ (nodes : List ι) (up down : List (FCall ι)) (eps : α)
    (query : Option ι) (fuel : Nat) (p : PState ι α) :
    Table.getD (kb i).world
        ((resetAll (pInferQ kb nodes up down eps query fuel p).state.st).get i) g =
      Table.getD (kb i).world ((resetAll p.st).get i) g :=
  (sevW_pInferQ kb nodes up down eps query fuel p).reset_read i g

theorem reset_after_pInfer (nodes : List ι) (up down : List (FCall ι)) (eps : α) (fuel : Nat)
    (p : PState ι α) :
    Table.getD (kb i).world ((resetAll (pInfer kb nodes up down eps fuel p).state.st).get i) g =
      Table.getD (kb i).world ((resetAll p.st).get i) g :=
  (sevW_pInfer kb nodes up down eps fuel p).reset_read i g

/-- the node-level calls restricted to given groundings (whatever the restriction) -/
theorem reset_after_pUpR (k : ι) (restrict : Option (List Gr)) (p : PState ι α) :
    Table.getD (kb i).world ((resetAll (pUpR kb k restrict p).1.st).get i) g =
      Table.getD (kb i).world ((resetAll p.st).get i) g :=
  (sevW_pUpR kb k restrict p).reset_read i g

theorem reset_after_pDownR (k : ι) (idx : Option Nat) (restrict : Option (List Gr))
    (p : PState ι α) :
    Table.getD (kb i).world ((resetAll (pDownR kb k idx restrict p).1.st).get i) g =
      Table.getD (kb i).world ((resetAll p.st).get i) g :=
  (sevW_pDownR kb k idx restrict p).reset_read i g

/-- any sequence of calls of any kind, in any order -/
theorem reset_after_infers {p q : PState ι α} (h : Infers kb p q) :
    Table.getD (kb i).world ((resetAll q.st).get i) g =
      Table.getD (kb i).world ((resetAll p.st).get i) g :=
  (sevW_infers kb h).reset_read i g

/-- the plain engine (no pending lists) -/
theorem reset_after_runFCalls (cs : List (FCall ι)) (s : FState ι α) :
    Table.getD (kb i).world ((resetAll (runFCalls kb cs s).1).get i) g =
      Table.getD (kb i).world ((resetAll s).get i) g :=
  (sevW_runFCalls kb cs s).reset_read i g

theorem reset_after_fInfer (nodes : List ι) (up down : List (FCall ι)) (eps : α) (fuel : Nat)
    (s : FState ι α) :
    Table.getD (kb i).world ((resetAll (fInfer kb nodes up down eps fuel s).state).get i) g =
      Table.getD (kb i).world ((resetAll s).get i) g :=
  (sevW_fInfer kb nodes up down eps fuel s).reset_read i g

/-- the tables themselves: `reset_bounds()` after the calls gives, formula by formula, the table
`reset_bounds()` gave before them followed by the rows the calls created, each of which carries the
world default of its formula as leaf and as working bound -/
theorem reset_after_inference_tables (cs : List (FCall ι)) (p : PState ι α) :
    ∃ ex : Table α,
      (resetAll (runPCalls kb cs p).1.st).get i = (resetAll p.st).get i ++ ex ∧
      ∀ r ∈ ex, r = ⟨r.g, (kb i).world, (kb i).world⟩ :=
  (sevW_runPCalls kb cs p).reset_tables i

/-- if the state before the calls had no working bound different from its data (e.g. it is what
`add_data` built, or it was itself just reset), `reset_bounds()` after the calls reads exactly as
that state did -/
theorem reset_after_inference_of_clean (cs : List (FCall ι)) (p : PState ι α)
    (hclean : ∀ r ∈ p.st.get i, r.b = r.leaf) :
    Table.getD (kb i).world ((resetAll (runPCalls kb cs p).1.st).get i) g =
      Table.getD (kb i).world (p.st.get i) g := by
  rw [reset_after_inference_data]
  unfold dataOf Table.getD
  cases hf : Table.find? (p.st.get i) g with
  | none => rfl
  | some r => exact (hclean r (Table.find?_some hf).1).symm

end main

/-! ## 7. non-vacuity -/

section examples

/-- node 1 is `Not(node 0)`, node 0 a predicate; world defaults UNKNOWN -/
private def exKB : FKB Nat ℚ := fun i =>
  match i with
  | 1 => { kind := .neg, ops := [0], bias := 1, alpha := 1, world := ⟨0, 1⟩ }
  | _ => { kind := .pred, bias := 1, alpha := 1, world := ⟨0, 1⟩ }

/-- `P(0)` is asserted TRUE through `add_data`; the negation has no row yet -/
private def exS : FState Nat ℚ :=
  (⟨[]⟩ : FState Nat ℚ).set 0 (Table.addData (exKB 0).world [] [0] ⟨1, 1⟩)

/-- the upward call of the negation CREATES the row of `¬P(0)` (it was absent) and TIGHTENS it to
FALSE; after `reset_bounds()` that row is still stored and reads the world default ⟨0,1⟩ again (in
leaf and working bound), while `P(0)` still reads its data ⟨1,1⟩ -/
example :
    Table.find? (exS.get 1) [0] = none ∧
    Table.find? ((fUp exKB 1 exS).1.get 1) [0] = some ⟨[0], ⟨0, 1⟩, ⟨0, 0⟩⟩ ∧
    Table.find? ((resetAll (fUp exKB 1 exS).1).get 1) [0] = some ⟨[0], ⟨0, 1⟩, ⟨0, 1⟩⟩ ∧
    Table.getD (exKB 1).world ((resetAll (fUp exKB 1 exS).1).get 1) [0] = ⟨0, 1⟩ ∧
    Table.getD (exKB 0).world ((resetAll (fUp exKB 1 exS).1).get 0) [0] = ⟨1, 1⟩ := by
  simp [resetAll, fUp, fUpNot, exKB, exS, FState.get, FState.set, Table.addData, Table.keys,
    Table.addg, Table.has, Table.find?, Table.getD, aggRow, aggregate, negB, clamp01, Table.setB,
    Table.resetBounds]

/-- the general theorems on the same run, through the layered engine: the upward call followed by
the downward call of the negation; `reset_bounds()` afterwards reads as the asserted state did -/
example :
    Table.getD (exKB 1).world
        ((resetAll (runPCalls exKB [.up 1, .down 1 none] ⟨exS, []⟩).1.st).get 1) [0] = ⟨0, 1⟩ ∧
    Table.getD (exKB 0).world
        ((resetAll (runPCalls exKB [.up 1, .down 1 none] ⟨exS, []⟩).1.st).get 0) [0] = ⟨1, 1⟩ := by
  rw [reset_after_inference_data, reset_after_inference_data]
  simp [dataOf, exKB, exS, FState.get, FState.set, Table.addData, Table.addg, Table.has,
    Table.find?]

end examples

end FolReset
end LNN
