/-
Helper lemmas on the first-order grounding management (`LnnVerif/Model/Fol.lean`):
de-duplication, `Rel.val`, the three branches of `foj` (`_full_outer_join`), `foldJoin`,
tables as finite maps (`Table.denote`), `FState.get/set`, `addAll`, `groundings`, `fUpConn`.

Used by `Props/C09.lean` (join completeness) and `Props/C10.lean` (order independence).
-/
import LnnVerif.Model.Fol
import Mathlib.Data.List.Nodup
import Mathlib.Data.List.Perm.Basic

namespace LNN
namespace Join

/-! ### `dedup`, `dedupKeepFirst`, `unionKeys` -/

section Dedup
variable {β : Type} [BEq β] [LawfulBEq β]

theorem mem_dedup {x : β} : ∀ {l : List β}, x ∈ dedup l ↔ x ∈ l
  | [] => by simp [dedup]
  | y :: ys => by
    have ih := mem_dedup (x := x) (l := ys)
    simp only [dedup]
    split
    · rename_i h
      rw [List.contains_iff_mem] at h
      constructor
      · intro hx; exact List.mem_cons_of_mem _ (ih.mp hx)
      · intro hx
        rcases List.mem_cons.mp hx with rfl | hx
        · exact h
        · exact ih.mpr hx
    · simp [ih]

theorem nodup_dedup : ∀ (l : List β), (dedup l).Nodup
  | [] => by simp [dedup]
  | y :: ys => by
    have ih := nodup_dedup ys
    simp only [dedup]
    split
    · exact ih
    · rename_i h
      rw [List.contains_iff_mem] at h
      exact List.nodup_cons.mpr ⟨h, ih⟩

theorem mem_dedupKeepFirst {x : β} {l : List β} : x ∈ dedupKeepFirst l ↔ x ∈ l := by
  simp [dedupKeepFirst, mem_dedup]

theorem nodup_dedupKeepFirst (l : List β) : (dedupKeepFirst l).Nodup := by
  unfold dedupKeepFirst
  exact List.nodup_reverse.mpr (nodup_dedup _)

end Dedup

theorem mem_unionKeys {g : Gr} {ls : List (List Gr)} : g ∈ unionKeys ls ↔ ∃ l ∈ ls, g ∈ l := by
  simp [unionKeys, mem_dedupKeepFirst, List.mem_flatten]

theorem nodup_unionKeys (ls : List (List Gr)) : (unionKeys ls).Nodup := nodup_dedupKeepFirst _

/-! ### `Rel.val` and `Rel.project` -/

theorem idxOf?_spec {cols : List Nat} {c k : Nat} (h : cols.idxOf? c = some k) :
    ∃ hk : k < cols.length, cols[k] = c := by
  unfold List.idxOf? at h
  rw [List.findIdx?_eq_some_iff_getElem] at h
  obtain ⟨hk, hc, _⟩ := h
  exact ⟨hk, by simpa using hc⟩

theorem idxOf?_isSome_of_mem {cols : List Nat} {c : Nat} (h : c ∈ cols) :
    ∃ k, cols.idxOf? c = some k := by
  cases hk : cols.idxOf? c with
  | none => exact absurd h (List.idxOf?_eq_none_iff.mp hk)
  | some k => exact ⟨k, rfl⟩

/-- reading slot `c` in the row of an assignment gives the assignment's value (no `Nodup`
needed: `idxOf?` returns the first position and every position of `c` holds `σ c`) -/
theorem val_map_of_mem (σ : Nat → Nat) {cols : List Nat} {c : Nat} (h : c ∈ cols) :
    Rel.val cols (cols.map σ) c = some (σ c) := by
  obtain ⟨k, hk⟩ := idxOf?_isSome_of_mem h
  obtain ⟨hlt, hc⟩ := idxOf?_spec hk
  unfold Rel.val
  rw [hk]
  simp [List.getElem?_map, List.getElem?_eq_getElem hlt, hc]

theorem val_of_not_mem {cols row : List Nat} {c : Nat} (h : c ∉ cols) : Rel.val cols row c = none := by
  unfold Rel.val
  rw [List.idxOf?_eq_none_iff.mpr h]

theorem project_map (σ : Nat → Nat) {cols slots : List Nat} (h : ∀ c ∈ slots, c ∈ cols) :
    Rel.project cols (cols.map σ) slots = slots.map σ := by
  unfold Rel.project
  apply List.map_congr_left
  intro c hc
  rw [val_map_of_mem σ (h c hc)]
  rfl

/-! ### `foj` in named pieces -/

def sharedC (c1 c2 : List Nat) : List Nat := c1.filter c2.contains

def uniqC (c1 c2 : List Nat) : List Nat :=
  c1.filter (fun c => !c2.contains c) ++ c2.filter (fun c => !c1.contains c)

def mk (c1 c2 : List Nat) (left : Bool) (a b : List Nat) : List Nat :=
  (uniqC c1 c2).map (fun c => ((Rel.val c1 a c).orElse fun _ => Rel.val c2 b c).getD 0) ++
  (sharedC c1 c2).map (fun c => (if left then Rel.val c1 a c else Rel.val c2 b c).getD 0)

def side (c1 c2 : List Nat) (r1 r2 : List (List Nat)) (left : Bool) : List (List Nat) :=
  r1.flatMap fun a => r2.map fun b => mk c1 c2 left a b

def cuC (c1 c2 : List Nat) : List Nat := dedupKeepFirst (c1 ++ c2)

def pick (cu cols : List Nat) (rows : List (List Nat)) : List (List Nat) :=
  if cu.all cols.contains then rows.map (fun r => cu.map fun c => (Rel.val cols r c).getD 0) else []

theorem foj_eq (t1 t2 : Rel) :
    foj t1 t2 =
      if t1.rows.isEmpty || t2.rows.isEmpty then
        ⟨cuC t1.cols t2.cols,
          pick (cuC t1.cols t2.cols) t1.cols t1.rows ++ pick (cuC t1.cols t2.cols) t2.cols t2.rows⟩
      else if (sharedC t1.cols t2.cols).isEmpty then
        ⟨t1.cols ++ t2.cols, t1.rows.flatMap fun a => t2.rows.map fun b => a ++ b⟩
      else
        ⟨uniqC t1.cols t2.cols ++ sharedC t1.cols t2.cols,
          dedupKeepFirst (side t1.cols t2.cols t1.rows t2.rows true ++
            side t1.cols t2.cols t1.rows t2.rows false)⟩ := rfl

theorem mem_sharedC {c1 c2 : List Nat} {c : Nat} : c ∈ sharedC c1 c2 ↔ c ∈ c1 ∧ c ∈ c2 := by
  simp [sharedC, List.mem_filter]

theorem mem_uniqC {c1 c2 : List Nat} {c : Nat} :
    c ∈ uniqC c1 c2 ↔ (c ∈ c1 ∧ c ∉ c2) ∨ (c ∈ c2 ∧ c ∉ c1) := by
  simp [uniqC, List.mem_filter]

/-- the columns of a join are exactly the union of the columns of its inputs (all branches) -/
theorem mem_foj_cols (t1 t2 : Rel) (c : Nat) :
    c ∈ (foj t1 t2).cols ↔ c ∈ t1.cols ∨ c ∈ t2.cols := by
  rw [foj_eq]
  split
  · simp [cuC, mem_dedupKeepFirst]
  · split
    · simp
    · simp only [List.mem_append, mem_uniqC, mem_sharedC]
      by_cases h1 : c ∈ t1.cols <;> by_cases h2 : c ∈ t2.cols <;> simp [h1, h2]

/-- with both inputs holding the row of `σ`, the "take the shared columns from the left" row
built from the two `σ`-rows is the `σ`-row of the result -/
theorem mk_true_map (σ : Nat → Nat) (c1 c2 : List Nat) :
    mk c1 c2 true (c1.map σ) (c2.map σ) = (uniqC c1 c2 ++ sharedC c1 c2).map σ := by
  unfold mk
  rw [List.map_append]
  congr 1
  · apply List.map_congr_left
    intro c hc
    by_cases h1 : c ∈ c1
    · rw [val_map_of_mem σ h1]; rfl
    · have h2 : c ∈ c2 := by
        rcases mem_uniqC.mp hc with h | h
        · exact absurd h.1 h1
        · exact h.1
      rw [val_of_not_mem h1, val_map_of_mem σ h2]; rfl
  · apply List.map_congr_left
    intro c hc
    rw [if_pos rfl, val_map_of_mem σ (mem_sharedC.mp hc).1]; rfl

/-- the same for the right copy -/
theorem mk_false_map (σ : Nat → Nat) (c1 c2 : List Nat) :
    mk c1 c2 false (c1.map σ) (c2.map σ) = (uniqC c1 c2 ++ sharedC c1 c2).map σ := by
  unfold mk
  rw [List.map_append]
  congr 1
  · apply List.map_congr_left
    intro c hc
    by_cases h1 : c ∈ c1
    · rw [val_map_of_mem σ h1]; rfl
    · have h2 : c ∈ c2 := by
        rcases mem_uniqC.mp hc with h | h
        · exact absurd h.1 h1
        · exact h.1
      rw [val_of_not_mem h1, val_map_of_mem σ h2]; rfl
  · apply List.map_congr_left
    intro c hc
    simp [val_map_of_mem σ (mem_sharedC.mp hc).2]

theorem mem_side {c1 c2 : List Nat} {r1 r2 : List (List Nat)} {left : Bool} {r : List Nat} :
    r ∈ side c1 c2 r1 r2 left ↔ ∃ a ∈ r1, ∃ b ∈ r2, mk c1 c2 left a b = r := by
  simp [side, List.mem_flatMap, List.mem_map]

/-- JOIN COMPLETENESS, one step: a tuple of the natural join is in the implementation's join -/
theorem foj_complete (σ : Nat → Nat) (t1 t2 : Rel)
    (h1 : t1.cols.map σ ∈ t1.rows) (h2 : t2.cols.map σ ∈ t2.rows) :
    (foj t1 t2).cols.map σ ∈ (foj t1 t2).rows := by
  have e1 : t1.rows.isEmpty = false := by
    cases h : t1.rows with
    | nil => rw [h] at h1; cases h1
    | cons _ _ => rfl
  have e2 : t2.rows.isEmpty = false := by
    cases h : t2.rows with
    | nil => rw [h] at h2; cases h2
    | cons _ _ => rfl
  rw [foj_eq]
  simp only [e1, e2, Bool.or_self, Bool.false_eq_true, if_false]
  split
  · simp only [List.map_append, List.mem_flatMap, List.mem_map]
    exact ⟨_, h1, _, h2, rfl⟩
  · rw [mem_dedupKeepFirst, List.mem_append]
    left
    exact mem_side.mpr ⟨_, h1, _, h2, mk_true_map σ _ _⟩

/-! ### well-formed relations -/

/-- distinct column names, every row aligned with the columns -/
def WfRel (R : Rel) : Prop := R.cols.Nodup ∧ ∀ r ∈ R.rows, r.length = R.cols.length

theorem nodup_sharedC {c1 c2 : List Nat} (h1 : c1.Nodup) : (sharedC c1 c2).Nodup := h1.filter _

theorem nodup_uniqC {c1 c2 : List Nat} (h1 : c1.Nodup) (h2 : c2.Nodup) : (uniqC c1 c2).Nodup := by
  unfold uniqC
  refine List.Nodup.append (h1.filter _) (h2.filter _) ?_
  intro c ha hb
  simp only [List.mem_filter] at ha hb
  simp [ha.1] at hb

theorem nodup_uniq_shared {c1 c2 : List Nat} (h1 : c1.Nodup) (h2 : c2.Nodup) :
    (uniqC c1 c2 ++ sharedC c1 c2).Nodup := by
  refine List.Nodup.append (nodup_uniqC h1 h2) (nodup_sharedC h1) ?_
  intro c ha hb
  rw [mem_uniqC] at ha
  rw [mem_sharedC] at hb
  rcases ha with h | h
  · exact h.2 hb.2
  · exact h.2 hb.1

theorem length_mk (c1 c2 : List Nat) (left : Bool) (a b : List Nat) :
    (mk c1 c2 left a b).length = (uniqC c1 c2 ++ sharedC c1 c2).length := by
  simp [mk]

theorem mem_pick_length {cu cols : List Nat} {rows : List (List Nat)} {r : List Nat}
    (h : r ∈ pick cu cols rows) : r.length = cu.length := by
  unfold pick at h
  split at h
  · obtain ⟨x, _, rfl⟩ := List.mem_map.mp h
    simp
  · cases h

/-- a join of well-formed relations is well-formed (all branches) -/
theorem foj_wf {t1 t2 : Rel} (w1 : WfRel t1) (w2 : WfRel t2) : WfRel (foj t1 t2) := by
  rw [foj_eq]
  split
  · refine ⟨nodup_dedupKeepFirst _, ?_⟩
    intro r hr
    rcases List.mem_append.mp hr with h | h <;> exact mem_pick_length h
  · split
    · rename_i hs
      refine ⟨List.Nodup.append w1.1 w2.1 ?_, ?_⟩
      · intro c ha hb
        have : c ∈ sharedC t1.cols t2.cols := mem_sharedC.mpr ⟨ha, hb⟩
        rw [List.isEmpty_iff.mp hs] at this
        cases this
      · intro r hr
        simp only [List.mem_flatMap, List.mem_map] at hr
        obtain ⟨a, ha, b, hb, rfl⟩ := hr
        simp [w1.2 a ha, w2.2 b hb]
    · refine ⟨nodup_uniq_shared w1.1 w2.1, ?_⟩
      intro r hr
      rw [mem_dedupKeepFirst, List.mem_append] at hr
      rcases hr with h | h <;> obtain ⟨a, _, b, _, rfl⟩ := mem_side.mp h <;> exact length_mk _ _ _ _ _

/-! ### `foldJoin` -/

theorem foldl_foj_complete (σ : Nat → Nat) :
    ∀ (rs : List Rel) (acc : Rel), acc.cols.map σ ∈ acc.rows →
      (∀ R ∈ rs, R.cols.map σ ∈ R.rows) →
      (rs.foldl foj acc).cols.map σ ∈ (rs.foldl foj acc).rows
  | [], _, h, _ => h
  | R :: rs, acc, h, hr => by
    rw [List.foldl_cons]
    exact foldl_foj_complete σ rs (foj acc R)
      (foj_complete σ acc R h (hr R List.mem_cons_self))
      (fun R' hR' => hr R' (List.mem_cons_of_mem _ hR'))

theorem foldl_foj_cols (c : Nat) :
    ∀ (rs : List Rel) (acc : Rel),
      c ∈ (rs.foldl foj acc).cols ↔ c ∈ acc.cols ∨ ∃ R ∈ rs, c ∈ R.cols
  | [], _ => by simp
  | R :: rs, acc => by
    rw [List.foldl_cons, foldl_foj_cols c rs (foj acc R), mem_foj_cols]
    simp only [List.mem_cons, exists_eq_or_imp]
    tauto

theorem foldl_foj_wf :
    ∀ (rs : List Rel) (acc : Rel), WfRel acc → (∀ R ∈ rs, WfRel R) → WfRel (rs.foldl foj acc)
  | [], _, h, _ => h
  | R :: rs, acc, h, hr => by
    rw [List.foldl_cons]
    exact foldl_foj_wf rs (foj acc R) (foj_wf h (hr R List.mem_cons_self))
      (fun R' hR' => hr R' (List.mem_cons_of_mem _ hR'))

end Join
end LNN
